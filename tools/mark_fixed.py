#!/usr/bin/env python3
"""usage: mark_fixed.py <ID> <commit> <known-id>...  : turns known entries into fixed entries"""
import json, sys
pid, commit, ids = sys.argv[1], sys.argv[2], set(sys.argv[3:])
f = f'/verif/known/{pid}.jsonl'
out = []
for l in open(f):
    s = l.strip()
    if not s or s.startswith('#'):
        out.append(l.rstrip('\n')); continue
    k = json.loads(s)
    if k['id'] in ids:
        k['status'] = 'fixed'; k['commit'] = commit
        ids.discard(k['id'])
    out.append(json.dumps(k, ensure_ascii=False))
open(f, 'w').write('\n'.join(out) + '\n')
if ids: print('not found:', ids)
