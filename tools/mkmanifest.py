#!/usr/bin/env python3
"""Regenerates /verif/MANIFEST.json from the table below (one entry per claimed property)."""
import json, os, subprocess

ROOT = os.path.dirname(os.path.dirname(os.path.abspath(__file__)))

BASELINE_OFF = "cd /repo && GOPROXY=off go test -vet=off -count=1 -timeout 25m ./..."

# One file per claimed property: tools/checks/<ID>.json with keys
# category, engine, technique, text, note, design_ref  (optional: not_applicable_reason instead)
def load_checks():
    checks, na = {}, {}
    d = os.path.join(ROOT, "tools", "checks")
    for fn in sorted(os.listdir(d)):
        if not fn.endswith(".json"):
            continue
        e = json.load(open(os.path.join(d, fn)))
        pid = fn[:-5]
        if "not_applicable_reason" in e:
            na[pid] = e["not_applicable_reason"]
        else:
            checks[pid] = (e["category"], e["engine"], e["technique"], e["text"], e["note"], e["design_ref"])
    return checks, na

CHECKS, NOT_APPLICABLE = load_checks()



def main():
    props = [json.loads(l) for l in open(os.path.join(ROOT, "properties.jsonl"))]
    ids = [p["id"] for p in props]
    checks = []
    for pid in ids:
        if pid not in CHECKS:
            continue
        cat, engine, technique, text, note, ref = CHECKS[pid]
        checks.append({
            "property_id": pid,
            "quick_cmd": f"./run {pid} quick",
            "thorough_cmd": f"./run {pid} thorough",
            "evidence_file": f"evidence/{pid}.json",
            "replay_cmd_template": f"./run {pid} --replay {{path}}",
            "engine": engine,
            "level_claimed": {"category": cat, "text": text, "design_ref": ref},
            "level_note": note,
            "technique": technique,
        })
    na = []
    for pid in ids:
        if pid in CHECKS:
            continue
        reason = NOT_APPLICABLE.get(pid, "check not built yet in this round (planned: explicit TLA+ specification + conformance binding, see DESIGN.md §4)")
        na.append({"property_id": pid, "reason": reason})
    hooks_commits = []
    try:
        out = subprocess.run(["git", "-C", "/repo", "log", "--format=%h %s"], capture_output=True, text=True).stdout
        for line in out.splitlines():
            h, _, subj = line.partition(" ")
            if subj.startswith("verif:"):
                hooks_commits.append(h)
    except Exception:
        pass
    manifest = {
        "version": 1,
        "setup_cmd": "./run --setup",
        "hooks": {
            "guard": "verif",
            "enable": "go build -tags verif (the harness module replaces github.com/elk-language/elk by /repo and is built with -tags verif by ./run before every check)",
            "baseline_off_cmd": BASELINE_OFF,
            "source_commits": hooks_commits,
            "add_only": True,
        },
        "engines": [
            {"name": "tlc", "path": "spec/", "serves_properties": sorted(CHECKS), "kind_free_text": "TLA+ specifications model-checked by TLC; behaviours exported as GEN records and replayed / traces validated"},
            {"name": "harness", "path": "harness/", "serves_properties": sorted(CHECKS), "kind_free_text": "Go driver: builds against /repo's working tree, runs TLC, replays behaviours in crash-isolated workers, writes evidence"},
        ],
        "checks": checks,
        "not_applicable": na,
        "notes": "Exit codes: 0 held, 1 violation (VIOLATION line), 2 inconclusive (build/tool failure). Known genuine defects are listed in KNOWN_FINDINGS.jsonl and known/<ID>.jsonl (known/C05-causes.tsv for the node-printer causes of C05); entries with status fixed suppress nothing. Seeded breaking changes confirmed against the checks are under seeded/ (DESIGN.md §A.6).",
    }
    with open(os.path.join(ROOT, "MANIFEST.json"), "w") as f:
        json.dump(manifest, f, indent=1)
        f.write("\n")

if __name__ == "__main__":
    main()
