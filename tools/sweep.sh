#!/bin/bash
# usage: tools/sweep.sh [tier] [parallel] [ids...]   runs the checks and prints one summary line each
cd "$(dirname "$0")/.."
tier=${1:-quick}; par=${2:-3}; shift 2 2>/dev/null
ids="$@"
[ -x .bin/vcheck ] || ./run --build >/dev/null 2>&1
[ -z "$ids" ] && ids=$(.bin/vcheck --list)
out=/tmp/sweep_$tier
mkdir -p $out
run1() { id=$1; s=$(date +%s); VERIF_WORKERS=${VERIF_WORKERS:-5} ./run $id $tier > $out/$id.log 2>&1; rc=$?; e=$(( $(date +%s) - s ));
  echo "$id exit=$rc time=${e}s known=$(grep -c '^KNOWN-FINDING' $out/$id.log) viol=$(grep -c '^VIOLATION' $out/$id.log)"; }
export -f run1; export tier out
echo $ids | tr ' ' '\n' | xargs -P $par -I{} bash -c 'run1 {}'
