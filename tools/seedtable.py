#!/usr/bin/env python3
"""Regenerates DESIGN.md §A.6 (between <!-- SEEDED-BEGIN --> and <!-- SEEDED-END -->) from seeded/*/meta.json."""
import glob, json, os, re
rows = []
for f in sorted(glob.glob('/verif/seeded/*/meta.json')):
    m = json.load(open(f)); d = os.path.dirname(f); name = m['seed']
    title = ''
    if os.path.exists(d + '/notes.md'):
        first = open(d + '/notes.md').readline().strip()
        title = re.sub(r'^#\s*' + re.escape(name) + r'\s*[:—-]*\s*', '', first).strip('# ').strip()
    cb = m['confirmed_by_me']
    how = m.get('caught_how') or ''
    if not how and m.get('first_violations'):
        v = m['first_violations']
        how = (v[1].strip() if len(v) > 1 and v[1].startswith('  ') else v[0])[:160]
    chk = m.get('caught_by_check') or m['property']
    verdict = (chk + ' quick') if m['caught_by_quick'] else ('thorough' if m.get('caught_by_thorough') else '**missed**')
    rows.append(f"| {name} | {title} | {cb.get('repo_tests_failures')} | {verdict} ({cb.get('violations_reported')} reports) | {how.replace('|','/')} | {(m.get('history') or 'caught by the check as first built').replace('|','/')} |")
table = ["| seed | change | repo test failures with it | caught by | first report | history |", "|---|---|---|---|---|---|"] + rows
p = '/verif/DESIGN.md'; s = open(p).read()
block = '<!-- SEEDED-BEGIN -->\n' + '\n'.join(table) + '\n<!-- SEEDED-END -->'
if '@@SEEDED@@' in s:
    s = s.replace('@@SEEDED@@', block)
else:
    s = re.sub(r'<!-- SEEDED-BEGIN -->.*?<!-- SEEDED-END -->', lambda _: block, s, flags=re.S)
open(p, 'w').write(s)
print(len(rows), 'seeded changes tabulated')
