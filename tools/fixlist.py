#!/usr/bin/env python3
"""Regenerates the commit list of DESIGN.md §A.5 (between FIXES-BEGIN/END) from /repo's history and the known-findings files."""
import glob, json, re, subprocess
log = subprocess.run(['git', '-C', '/repo', 'log', '--reverse', '--format=%h %s', 'da13067..HEAD'], capture_output=True, text=True).stdout.splitlines()
props = {}
for f in ['/verif/KNOWN_FINDINGS.jsonl'] + sorted(glob.glob('/verif/known/*.jsonl')):
    for l in open(f):
        l = l.strip()
        if not l: continue
        try: e = json.loads(l)
        except Exception: continue
        if e.get('status') == 'fixed' and e.get('commit'):
            s = props.setdefault(e['commit'][:7], set()); s.add(e['property']); s.update(e.get('also') or [])
lines = []
for l in log:
    h, msg = l.split(' ', 1)
    p = ' '.join(sorted(props.get(h[:7], [])))
    lines.append(f"* `{h}` {msg}" + (f" — found by {p}" if p else ''))
block = '<!-- FIXES-BEGIN -->\n' + '\n'.join(lines) + '\n<!-- FIXES-END -->'
p = '/verif/DESIGN.md'; s = open(p).read()
if 'FIXES-BEGIN' in s:
    s = re.sub(r'<!-- FIXES-BEGIN -->.*?<!-- FIXES-END -->', lambda _: block, s, flags=re.S)
else:
    s = re.sub(r'\* `ecdffb5` fix:.*?\* `6414680` verif:[^\n]*', lambda _: block, s, flags=re.S)
open(p, 'w').write(s)
print(len(lines), 'commits listed')
