#!/bin/bash
# usage: tools/seedcheck.sh <ID>-<n> [tier]
# Confirms a seeded change delivered in /tmp/seed/<ID>-<n>/ (patch.diff, demo, run.sh, notes.md) in a scratch
# worktree of /repo: applies, builds, runs the repository's full test suite, then runs our check against it.
# Writes /tmp/seedres/<ID>-<n>/{build.log,tests.log,check.log,summary.txt}
set -u
name=$1; tier=${2:-quick}; id=${CHECK_ID:-${name%%-*}}
src=/tmp/seed/$name; wt=/tmp/sv/$name; res=/tmp/seedres/$name
mkdir -p $res /tmp/sv
git -C /repo worktree remove --force $wt 2>/dev/null
git -C /repo worktree add -q $wt HEAD || exit 2
cd $wt
if ! git apply --check $src/patch.diff 2>$res/apply.err; then echo "$name APPLY-FAILED $(head -1 $res/apply.err)" | tee $res/summary.txt; git -C /repo worktree remove --force $wt; exit 0; fi
git apply $src/patch.diff
if ! GOPROXY=off go build ./... > $res/build.log 2>&1; then echo "$name BUILD-FAILED" | tee $res/summary.txt; git -C /repo worktree remove --force $wt; exit 0; fi
if [ "${SKIP_TESTS:-}" = "" ]; then
  GOPROXY=off go test -vet=off -count=1 -timeout 40m ./... 2>&1 | grep "^--- FAIL\|^ok\|^FAIL" > $res/tests.log
  fails=$(grep -c "^FAIL\|^--- FAIL" $res/tests.log); oks=$(grep -c "^ok" $res/tests.log)
else fails=skipped; oks=skipped; fi
cd /verif
VERIF_REPO=$wt VERIF_WORKERS=${VERIF_WORKERS:-6} ./run $id $tier > $res/check.log 2>&1; rc=$?
echo "$name tests_ok=$oks tests_fail=$fails check_exit=$rc violations=$(grep -c '^VIOLATION' $res/check.log) known=$(grep -c '^KNOWN-FINDING' $res/check.log)" | tee $res/summary.txt
git -C /repo worktree remove --force $wt
