#!/usr/bin/env python3
"""Refreshes the per-property table of DESIGN.md §A.2 in place: engine/level from tools/checks + MANIFEST, finding counts from the known-findings files."""
import glob, json, re
known = {}
for f in ['/verif/KNOWN_FINDINGS.jsonl'] + sorted(glob.glob('/verif/known/*.jsonl')):
    for l in open(f):
        l = l.strip()
        if not l: continue
        try: e = json.loads(l)
        except Exception: continue
        for pid in [e['property']] + list(e.get('also') or []):
            k = known.setdefault(pid, [0, 0])
            k[0 if e.get('status') == 'fixed' else 1] += 1
man = {c['property_id'] if 'property_id' in c else c.get('id'): c for c in json.load(open('/verif/MANIFEST.json')).get('checks', [])}
p = '/verif/DESIGN.md'; s = open(p).read()
def fix(m):
    cells = [x.strip() for x in m.group(0).strip().strip('|').split('|')]
    if len(cells) != 6: return m.group(0)
    pid, spec, eng, lvl, fnd, notes = cells
    try: chk = json.load(open(f'/verif/tools/checks/{pid}.json'))
    except Exception: chk = {}
    eng = chk.get('engine', eng)
    lvl = chk.get('category', lvl)
    k = known.get(pid, [0, 0])
    return f"| {pid} | {spec} | {eng} | {lvl} | {k[0]} / {k[1]} | {notes} |\n"
s2 = re.sub(r'^\| C\d\d \|[^\n]*\n', fix, s, flags=re.M)
open(p, 'w').write(s2)
print('table refreshed')
