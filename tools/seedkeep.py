#!/usr/bin/env python3
"""usage: seedkeep.py <ID>-<n> [<ID>-<n> ...]: copies a confirmed seeded change from /tmp/seed and /tmp/seedres into /verif/seeded/"""
import json, os, re, shutil, sys
for name in sys.argv[1:]:
    src, res, dst = f'/tmp/seed/{name}', f'/tmp/seedres/{name}', f'/verif/seeded/{name}'
    if not os.path.exists(f'{res}/summary.txt'):
        print('no summary for', name); continue
    summary = open(f'{res}/summary.txt').read().strip()
    os.makedirs(dst, exist_ok=True)
    for fn in os.listdir(src):
        p = os.path.join(src, fn)
        if os.path.isfile(p) and os.path.getsize(p) < 200_000 and not fn.startswith('elk.') and not fn.endswith('.log'):
            shutil.copy(p, dst)
    notes = open(f'{src}/notes.md').read() if os.path.exists(f'{src}/notes.md') else ''
    m = re.search(r'tests_ok=(\S+) tests_fail=(\S+) check_exit=(\d+) violations=(\d+)', summary)
    tests_ok = tests_fail = '?'
    if os.path.exists(f'{res}/tests.log'):
        tl = open(f'{res}/tests.log').read().splitlines()
        tests_ok = str(sum(1 for l in tl if l.startswith('ok')))
        tests_fail = str(sum(1 for l in tl if l.startswith('FAIL') or l.startswith('--- FAIL')))
    viol = []
    if os.path.exists(f'{res}/check.log'):
        for l in open(f'{res}/check.log'):
            if l.startswith('VIOLATION'):
                viol.append(l.strip())
            elif viol and l.startswith('  ') and len(viol) < 12 and not viol[-1].startswith('  '):
                viol.append(l.rstrip()[:300])
    meta = {
        'property': name.split('-')[0],
        'seed': name,
        'origin': 'independent sub-agent given only the property text and a scratch worktree of /repo',
        'what_it_needs_to_manifest': (re.search(r'(?is)(what (it|is) need(s|ed)[^\n]*\n.*?)(\n#|\n\n\n|\Z)', notes) or [None, ''])[1][:1500] if notes else '',
        'confirmed_by_me': {
            'command': f'tools/seedcheck.sh {name} quick   (scratch worktree of /repo HEAD + patch.diff: go build ./..., full go test suite, then VERIF_REPO=<worktree> ./run {name.split("-")[0]} quick)',
            'repo_tests_ok_packages': tests_ok, 'repo_tests_failures': tests_fail,
            'check_exit': int(m.group(3)) if m else None, 'violations_reported': int(m.group(4)) if m else None,
        },
        'caught_by_quick': bool(m and m.group(3) == '1'),
        'caught_by_check': (re.search(r'property=(C\d+)', viol[0]).group(1) if viol else None),
        'first_violations': viol[:8],
    }
    json.dump(meta, open(f'{dst}/meta.json', 'w'), indent=1)
    print(name, 'kept; caught_by_quick =', meta['caught_by_quick'])
