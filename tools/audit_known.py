#!/usr/bin/env python3
"""Lists `known` entries that were NOT hit in the latest evidence file of their property (candidates for `fixed`)."""
import json, glob, os
hits = {}
for f in glob.glob('/verif/evidence/C*.json'):
    e = json.load(open(f))
    hits[e['property_id']] = (set((e.get('known_findings_hit') or {}).keys()), e.get('tier'), e.get('seed'))
for f in ['/verif/KNOWN_FINDINGS.jsonl'] + sorted(glob.glob('/verif/known/*.jsonl')):
    for l in open(f):
        s = l.strip()
        if not s or s.startswith('#'):
            continue
        k = json.loads(s)
        if k['status'] != 'known':
            continue
        props = [k['property']] + k.get('also', [])
        if not any(k['id'] in hits.get(p, (set(),))[0] for p in props):
            h = hits.get(k['property'])
            print(f"{k['property']:4} {k['id'][:70]:70} not hit (last run: {h[1] if h else '-'} seed {h[2] if h else '-'})")
