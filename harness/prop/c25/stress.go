package c25

import (
	"encoding/json"
	"fmt"
	"sync"
	"sync/atomic"

	"github.com/elk-language/elk/value"

	"elkverif/internal/core"
)

// Stress stage: the contract of spec/Sync for unlock under contention - of N threads that unlock one held
// mutex at the same instant exactly one succeeds, the others get UnlockedError, and the runtime survives
// (a Go `fatal error: sync: unlock of unlocked mutex` cannot be recovered: the worker dies and the death is
// attributed to this job). The window between "is it held?" and "release it" has no hook, so the gate
// replay cannot place two unlockers inside it; volume can.

type MutexStressJob struct {
	Rounds    int    `json:"rounds"`
	Unlockers int    `json:"unlockers"`
	Kind      string `json:"kind"` // mutex | rwmutex
}

type MutexStressResult struct {
	Rounds   int    `json:"rounds"`
	Wrong    int    `json:"wrong"`
	Example  string `json:"example,omitempty"`
}

func init() {
	core.RegisterJob("c25.mutexstress", func(raw json.RawMessage) (any, error) {
		var j MutexStressJob
		if err := json.Unmarshal(raw, &j); err != nil {
			return nil, err
		}
		return mutexStress(&j), nil
	})
}

func mutexStress(j *MutexStressJob) *MutexStressResult {
	res := &MutexStressResult{Rounds: j.Rounds}
	lock := func() {}
	unlock := func() value.Value { return value.Undefined }
	switch j.Kind {
	case "rwmutex":
		m := value.NewRWMutex()
		lock, unlock = m.Lock, m.Unlock
	default:
		m := value.NewMutex()
		lock, unlock = m.Lock, m.Unlock
	}
	for r := 0; r < j.Rounds; r++ {
		lock()
		var ok, refused atomic.Int32
		start := make(chan struct{})
		var wg sync.WaitGroup
		for u := 0; u < j.Unlockers; u++ {
			wg.Add(1)
			go func() {
				defer wg.Done()
				<-start
				if err := unlock(); err.IsUndefined() {
					ok.Add(1)
				} else {
					refused.Add(1)
				}
			}()
		}
		close(start)
		wg.Wait()
		if ok.Load() != 1 || int(refused.Load()) != j.Unlockers-1 {
			res.Wrong++
			if res.Example == "" {
				res.Example = fmt.Sprintf("round %d: %d of %d simultaneous unlocks of one held %s succeeded, %d were refused (exactly one may succeed)", r, ok.Load(), j.Unlockers, j.Kind, refused.Load())
			}
			if ok.Load() == 0 {
				return res // still locked: the next round would block for ever
			}
		}
	}
	return res
}

func mutexStressStage(c *core.Ctx, pool *core.Pool) error {
	var jobs []core.Job
	var meta []MutexStressJob
	for _, kind := range []string{"mutex", "rwmutex"} {
		for _, n := range []int{2, 4} {
			j := MutexStressJob{Rounds: c.Pick(60000, 400000), Unlockers: n, Kind: kind}
			meta = append(meta, j)
			jobs = append(jobs, core.Job{Kind: "c25.mutexstress", Payload: j, TimeoutMs: 600000})
		}
	}
	total := 0
	for i, jr := range pool.Map(jobs, nil) {
		j := meta[i]
		rec := map[string]any{"stage": "stress", "job": j}
		switch {
		case jr.Crashed:
			rec["kind"] = "go_crash"
			rec["log"] = jr.CrashLog
			rec["summary"] = fmt.Sprintf("%d threads unlocking one held %s at the same instant killed the runtime: %.300s", j.Unlockers, j.Kind, jr.CrashLog)
			c.Violation(rec)
			continue
		case jr.Timeout || jr.Err != "" || jr.Panic != "":
			return core.Inconclusivef("mutex stress job failed: %s %s timeout=%v", jr.Err, jr.Panic, jr.Timeout)
		}
		var r MutexStressResult
		if err := jr.Decode(&r); err != nil {
			return err
		}
		total += r.Rounds
		if r.Wrong > 0 {
			rec["kind"] = "unlock_contract_violated"
			rec["summary"] = fmt.Sprintf("%s, %d unlockers: %d of %d rounds wrong; %s", j.Kind, j.Unlockers, r.Wrong, r.Rounds, r.Example)
			c.Violation(rec)
		}
	}
	c.Cov("unlock_contention_rounds", total)
	c.Logf("stress: %d rounds of 2-4 simultaneous unlocks of one held mutex/rwmutex: exactly one succeeds, the runtime survives", total)
	return nil
}
