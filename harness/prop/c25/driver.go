package c25

import (
	"fmt"
	"runtime"
	"strconv"
	"strings"
	"sync"
	"sync/atomic"
	"time"
)

// Gate driver: turns one TLC behaviour of spec/Chan or spec/Sync into a forced schedule of real
// goroutines. Every actor (harness goroutine running the operations of one model thread on the real
// value.* objects) stops at
//   - harness gates: "call" (in front of its next operation), "ret" (after it, carrying the result),
//     "body" (inside the body of a Once), "done";
//   - the trace hooks of package value (chan.push.try, mutex.lock.ok, ...): logged and passed through.
// One model step = release one actor from its gate and run the system to QUIESCENCE: every actor is
// parked at a harness gate or blocked inside a native operation. Blocking is read off the goroutine's
// wait status (runtime.Stack), not guessed from a timeout.

type park struct {
	actor int
	ev    string
	idx   int       // call/ret: index of the operation
	res   *opResult // ret: outcome of the operation
	rel   chan bool // true: go on; false: abandon the program (end of the replay)
}

type opResult struct {
	R  string `json:"r"`  // ok | val | err_push | err_pop | err_close | stop | err_unlocked | ... | other:<text>
	RV int    `json:"rv"` // value received
}

type driver struct {
	mu       sync.Mutex
	gidActor map[int64]int
	actorGid map[int]int64
	parkCh   chan *park
	parked   map[int]*park
	evlog    map[int][]string // hook events of the operation in flight, per actor
	allEv    []string
	off      atomic.Bool
	stepWait time.Duration
	nActors  int
}

func newDriver(n int, stepWait time.Duration) *driver {
	return &driver{gidActor: map[int64]int{}, actorGid: map[int]int64{}, parkCh: make(chan *park, 1024),
		parked: map[int]*park{}, evlog: map[int][]string{}, stepWait: stepWait, nActors: n}
}

func gid() int64 {
	var buf [64]byte
	n := runtime.Stack(buf[:], false)
	s := strings.TrimPrefix(string(buf[:n]), "goroutine ")
	if i := strings.IndexByte(s, ' '); i > 0 {
		id, _ := strconv.ParseInt(s[:i], 10, 64)
		return id
	}
	return -1
}

func (d *driver) register(actor int) {
	g := gid()
	d.mu.Lock()
	d.gidActor[g] = actor
	d.actorGid[actor] = g
	d.mu.Unlock()
}

// hook is installed as value.VerifHook: events of registered actors park; everything else passes.
func (d *driver) hook(ev string, args ...any) {
	if d.off.Load() || !isC25Event(ev) {
		return
	}
	// no lock here: the map is complete before the first actor is released (a goroutine waiting for a
	// harness mutex would look like one blocked in the operation under test)
	a, ok := d.gidActor[gid()]
	if !ok {
		return
	}
	pk := &park{actor: a, ev: ev, rel: make(chan bool, 1)}
	d.parkCh <- pk
	<-pk.rel
}

// gate is a harness gate; false = abandon.
func (d *driver) gate(actor int, ev string, idx int, res *opResult) bool {
	pk := &park{actor: actor, ev: ev, idx: idx, res: res, rel: make(chan bool, 1)}
	d.parkCh <- pk
	return <-pk.rel
}

// isC25Event selects the hook events of this property: package value's VerifHook is shared with the
// hooks of other properties (symbol table, ...), whose events must pass through untouched.
func isC25Event(ev string) bool {
	for _, p := range []string{"chan.", "mutex.", "rw.", "wg.", "once.", "select."} {
		if strings.HasPrefix(ev, p) {
			return true
		}
	}
	return false
}

func isHarnessGate(ev string) bool {
	return ev == "call" || ev == "ret" || ev == "body" || ev == "done"
}

func (d *driver) take(p *park) {
	d.parked[p.actor] = p
	d.allEv = append(d.allEv, fmt.Sprintf("t%d %s", p.actor, p.ev))
}

func (d *driver) drain() int {
	n := 0
	for {
		select {
		case p := <-d.parkCh:
			d.take(p)
			n++
		default:
			return n
		}
	}
}

func (d *driver) release(actor int) {
	p := d.parked[actor]
	delete(d.parked, actor)
	p.rel <- true
}

// wait reasons of a goroutine that is blocked inside a channel / sync operation
// ("semacquire" is deliberately absent: it is also the transient wait for the runtime's world semaphore)
var blockedStatus = []string{"chan receive", "chan send", "select", "sync.Mutex.Lock", "sync.RWMutex.Lock",
	"sync.RWMutex.RLock", "sync.WaitGroup.Wait", "sync.Cond.Wait"}

func isBlockedStatus(s string) bool {
	for _, b := range blockedStatus {
		if s == b || strings.HasPrefix(s, b+",") || strings.HasPrefix(s, b+" (") {
			return true
		}
	}
	return false
}

var stackBuf = make([]byte, 1<<20)

// goroutineStatus returns goroutine id -> wait status ("running", "runnable", "chan receive", ...).
func goroutineStatus() map[int64]string {
	for {
		n := runtime.Stack(stackBuf, true)
		if n < len(stackBuf) {
			out := map[int64]string{}
			s := string(stackBuf[:n])
			for len(s) > 0 {
				i := strings.Index(s, "goroutine ")
				if i < 0 {
					break
				}
				if i > 0 && s[i-1] != '\n' {
					s = s[i+10:]
					continue
				}
				s = s[i+10:]
				sp := strings.IndexByte(s, ' ')
				if sp < 0 {
					break
				}
				id, err := strconv.ParseInt(s[:sp], 10, 64)
				if err != nil || sp+1 >= len(s) || s[sp+1] != '[' {
					continue
				}
				end := strings.Index(s, "]:")
				if end < 0 {
					break
				}
				out[id] = s[sp+2 : end]
				s = s[end:]
			}
			return out
		}
		stackBuf = make([]byte, 2*len(stackBuf))
	}
}

// quiesce runs the system until every actor is parked at a harness gate or blocked in a native
// operation. Hook events on the way are logged per actor and released. Returns the set of blocked
// actors, or an error if the system does not settle (never a verdict: the caller reports exit 2).
func (d *driver) quiesce(actors []int) (blocked map[int]string, err error) {
	deadline := time.Now().Add(d.stepWait)
	for {
		d.drain()
		progressed := false
		for a, pk := range d.parked {
			if !isHarnessGate(pk.ev) {
				d.evlog[a] = append(d.evlog[a], pk.ev)
				d.release(a)
				progressed = true
			}
		}
		if progressed {
			continue
		}
		var loose []int
		for _, a := range actors {
			if _, ok := d.parked[a]; !ok {
				loose = append(loose, a)
			}
		}
		if len(loose) == 0 {
			return map[int]string{}, nil
		}
		st := goroutineStatus()
		blocked = map[int]string{}
		for _, a := range loose {
			s, alive := st[d.actorGid[a]]
			if alive && isBlockedStatus(s) {
				blocked[a] = s
			} else if !alive {
				return nil, fmt.Errorf("actor t%d vanished (its goroutine ended outside a gate)", a)
			}
		}
		if len(blocked) == len(loose) {
			// a goroutine that has just parked also shows a channel wait: its park message was sent
			// before it started waiting, so it is in the queue by now. Confirm with a second snapshot.
			if d.drain() == 0 {
				time.Sleep(150 * time.Microsecond)
				st2 := goroutineStatus()
				same := true
				for _, a := range loose {
					if s2, alive := st2[d.actorGid[a]]; !alive || !isBlockedStatus(s2) {
						same = false
					}
				}
				if same && d.drain() == 0 {
					return blocked, nil
				}
			}
			continue
		}
		if time.Now().After(deadline) {
			return nil, fmt.Errorf("system did not become quiescent within %v (statuses %v)", d.stepWait, st)
		}
		select {
		case p := <-d.parkCh:
			d.take(p)
		case <-time.After(300 * time.Microsecond):
		}
	}
}

// abandon ends the replay: parked actors leave their programs, blocked ones stay blocked (the worker
// process is replaced after the job).
func (d *driver) abandon() {
	d.off.Store(true)
	d.drain()
	for a, p := range d.parked {
		delete(d.parked, a)
		p.rel <- false
	}
}
