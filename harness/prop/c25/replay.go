package c25

import (
	"context"
	"encoding/json"
	"fmt"
	"os"
	"sort"
	"strings"
	"time"

	"github.com/elk-language/elk"
	"github.com/elk-language/elk/value"

	"elkverif/internal/core"
	"elkverif/internal/elkrun"
)

// ---- behaviours of spec/Chan and spec/Sync (hist records) --------------------------------------

type Wake struct {
	A  int    `json:"a"`
	R  string `json:"r"`
	RV int    `json:"rv"`
}

type SelCase struct {
	D string `json:"d"` // send | recv | else
	C int    `json:"c"`
}

// Event is one step of a behaviour: thread A started operation K; outcome R; threads in Wake completed.
type Event struct {
	A     int       `json:"a"`
	K     string    `json:"k"`
	C     int       `json:"c"`
	V     int       `json:"v"`
	N     int       `json:"n"`
	R     string    `json:"r"`
	RV    int       `json:"rv"`
	Wake  []Wake    `json:"wake"`
	Lens  []int     `json:"lens"`
	Cases []SelCase `json:"cases"`
	Sel   int       `json:"sel"`
	// projection of spec/Sync
	Locked  bool `json:"locked"`
	Writer  bool `json:"writer"`
	Readers int  `json:"readers"`
	Counter int  `json:"counter"`
	Runs    int  `json:"runs"`
}

type Behaviour struct {
	Prim string  `json:"prim"` // "chan" | "mutex" | "rw" | "wg" | "once"
	Caps []int   `json:"caps"`
	Hist []Event `json:"hist"`
	Ctx  bool    `json:"ctx"` // channels: use the *Ctx methods (what the VM calls) instead of the plain ones
}

func (b *Behaviour) Key() string {
	var sb strings.Builder
	fmt.Fprintf(&sb, "%s %v %v|", b.Prim, b.Caps, b.Ctx)
	for _, e := range b.Hist {
		fmt.Fprintf(&sb, "%d%s%d.%d.%d>%s;", e.A, e.K, e.C, e.N, e.Sel, e.R)
	}
	return sb.String()
}

func isMisuse(r string) bool {
	return r == "err_unlocked" || r == "err_runlocked" || r == "err_negative"
}

func (b *Behaviour) HasMisuse() bool {
	for _, e := range b.Hist {
		if isMisuse(e.R) {
			return true
		}
	}
	return false
}

type ReplayJob struct {
	Behaviours []Behaviour `json:"behaviours"`
	StepMs     int         `json:"step_ms"`
}

type ReplayResult struct {
	Outcome string   `json:"outcome"` // ok | mismatch | blocked | unknown_event | unsettled
	At      int      `json:"at"`
	Op      string   `json:"op,omitempty"`
	Want    string   `json:"want,omitempty"`
	Got     string   `json:"got,omitempty"`
	Detail  string   `json:"detail,omitempty"`
	Events  []string `json:"events,omitempty"`
	Steps   int      `json:"steps"`
	Blocks  int      `json:"blocks"` // steps whose blocked status was confirmed on the goroutine
	Wakes   int      `json:"wakes"`
}

func init() {
	core.RegisterJob("c25.replay", func(raw json.RawMessage) (any, error) {
		var j ReplayJob
		if err := json.Unmarshal(raw, &j); err != nil {
			return nil, err
		}
		elkrun.Setup()
		elk.InitGlobalEnvironment()
		// blocked goroutines are left behind on purpose: never reuse this process
		core.RequestWorkerRestart()
		out := make([]*ReplayResult, len(j.Behaviours))
		for i := range j.Behaviours {
			// the worker's log (fd 1 and 2) only has to tell which step of which behaviour was in flight
			// if the process dies: start it afresh for every behaviour so the markers are never cut off
			if os.Stderr.Truncate(0) == nil {
				os.Stderr.Seek(0, 0)
			}
			fmt.Fprintf(os.Stderr, "C25BEH %d\n", i)
			out[i] = replay(&j.Behaviours[i], time.Duration(j.StepMs)*time.Millisecond)
		}
		return out, nil
	})
}

// expected hook events of an operation, given its final outcome
func expectedHooks(prim, k, r string) []string {
	switch prim {
	case "chan":
		switch k {
		case "push":
			if r == "ok" {
				return []string{"chan.push.try", "chan.push.ok"}
			}
			return []string{"chan.push.try", "chan.push.err"}
		case "pop":
			if r == "val" {
				return []string{"chan.pop.try", "chan.pop.ok"}
			}
			return []string{"chan.pop.try", "chan.pop.err"}
		case "next":
			if r == "val" {
				return []string{"chan.next.try", "chan.next.ok"}
			}
			return []string{"chan.next.try", "chan.next.stop"}
		case "close":
			if r == "ok" {
				return []string{"chan.close.try", "chan.close.ok"}
			}
			return []string{"chan.close.try", "chan.close.err"}
		}
	case "mutex":
		switch k {
		case "lock":
			return []string{"mutex.lock.try", "mutex.lock.ok"}
		case "unlock":
			if r == "ok" {
				return []string{"mutex.unlock.try", "mutex.unlock.ok"}
			}
			return []string{"mutex.unlock.try", "mutex.unlock.err"}
		}
	case "rw":
		switch k {
		case "lock":
			return []string{"rw.lock.try", "rw.lock.ok"}
		case "rlock":
			return []string{"rw.rlock.try", "rw.rlock.ok"}
		case "unlock":
			if r == "ok" {
				return []string{"rw.unlock.try", "rw.unlock.ok"}
			}
			return []string{"rw.unlock.try", "rw.unlock.err"}
		case "runlock":
			if r == "ok" {
				return []string{"rw.runlock.try", "rw.runlock.ok"}
			}
			return []string{"rw.runlock.try", "rw.runlock.err"}
		}
	case "wg":
		if r == "err_negative" {
			return []string{} // refused before the counter is touched: no state change, no event
		}
		switch k {
		case "add":
			return []string{"wg.add.ok"}
		case "start":
			return []string{"wg.start.ok"}
		case "end":
			return []string{"wg.end.ok"}
		case "remove":
			return []string{"wg.remove.ok"}
		case "wait":
			return []string{"wg.wait.try", "wg.wait.ok"}
		}
	case "once":
		return nil
	}
	return nil
}

var knownHookEvents = map[string]bool{}

func init() {
	for _, p := range [][2]string{{"chan", "push"}, {"chan", "pop"}, {"chan", "next"}, {"chan", "close"}, {"mutex", "lock"}, {"mutex", "unlock"},
		{"rw", "lock"}, {"rw", "rlock"}, {"rw", "unlock"}, {"rw", "runlock"}, {"wg", "add"}, {"wg", "start"}, {"wg", "end"}, {"wg", "remove"}, {"wg", "wait"}} {
		for _, r := range []string{"ok", "val", "err"} {
			for _, e := range expectedHooks(p[0], p[1], r) {
				knownHookEvents[e] = true
			}
		}
	}
}

// objects of one replay
type objects struct {
	chans []*value.ChannelOfValue
	mu    *value.Mutex
	rw    *value.RWMutex
	wg    *value.WaitGroup
	once  *value.Once
	runs  int // executions of the once body (written only inside the body)
}

func errResult(err value.Value) *opResult {
	switch {
	case err.IsUndefined():
		return &opResult{R: "ok"}
	case err == value.ChannelClosedPushError.ToValue():
		return &opResult{R: "err_push"}
	case err == value.ChannelClosedPopError.ToValue():
		return &opResult{R: "err_pop"}
	case err == value.ChannelClosedCloseError.ToValue():
		return &opResult{R: "err_close"}
	case err == value.ToSymbol("stop_iteration").ToValue():
		return &opResult{R: "stop"}
	}
	c, m := elkrun.DescribeError(err)
	switch {
	case c == value.MutexUnlockedErrorClass.Name:
		return &opResult{R: "err_unlocked"}
	case c == value.RWMutexUnlockedErrorClass.Name && strings.Contains(m, "for reading"):
		return &opResult{R: "err_runlocked"}
	case c == value.RWMutexUnlockedErrorClass.Name:
		return &opResult{R: "err_unlocked"}
	}
	return &opResult{R: "other:" + c + ": " + m}
}

func valResult(v, err value.Value) *opResult {
	if !err.IsUndefined() {
		return errResult(err)
	}
	if v.IsSmallInt() {
		return &opResult{R: "val", RV: int(v.AsSmallInt())}
	}
	return &opResult{R: "other:value " + v.Inspect()}
}

// exec performs one operation on the real objects (called on the actor's goroutine).
func (o *objects) exec(d *driver, actor int, b *Behaviour, e *Event) (res *opResult) {
	defer func() {
		if r := recover(); r != nil {
			res = &opResult{R: fmt.Sprintf("other:go panic: %v", r)}
		}
	}()
	switch b.Prim {
	case "chan":
		ch := o.chans[e.C-1]
		switch e.K {
		case "push":
			if b.Ctx {
				return errResult(ch.PushCtx(context.Background(), value.SmallInt(e.V).ToValue()))
			}
			return errResult(ch.Push(value.SmallInt(e.V).ToValue()))
		case "pop":
			if b.Ctx {
				return valResult(ch.PopCtx(context.Background()))
			}
			return valResult(ch.Pop())
		case "next":
			if b.Ctx {
				return valResult(ch.NextValueCtx(context.Background()))
			}
			return valResult(ch.NextValue())
		case "close":
			return errResult(ch.Close())
		}
	case "mutex":
		switch e.K {
		case "lock":
			o.mu.Lock()
			return &opResult{R: "ok"}
		case "unlock":
			return errResult(o.mu.Unlock())
		}
	case "rw":
		switch e.K {
		case "lock":
			o.rw.Lock()
			return &opResult{R: "ok"}
		case "rlock":
			o.rw.ReadLock()
			return &opResult{R: "ok"}
		case "unlock":
			return errResult(o.rw.Unlock())
		case "runlock":
			return errResult(o.rw.ReadUnlock())
		}
	case "wg":
		// the methods return nothing in the pinned tree and an error Value once the negative-counter
		// defect is repaired: bind to whichever signature the tree under test has
		var err value.Value = value.Undefined
		w := any(o.wg)
		switch e.K {
		case "add":
			if f, ok := w.(interface{ Add(int) value.Value }); ok {
				err = f.Add(e.N)
			} else {
				w.(interface{ Add(int) }).Add(e.N)
			}
		case "start":
			o.wg.Start()
		case "end":
			if f, ok := w.(interface{ End() value.Value }); ok {
				err = f.End()
			} else {
				w.(interface{ End() }).End()
			}
		case "remove":
			if f, ok := w.(interface{ Remove(int) value.Value }); ok {
				err = f.Remove(e.N)
			} else {
				w.(interface{ Remove(int) }).Remove(e.N)
			}
		case "wait":
			o.wg.Wait()
		}
		if !err.IsUndefined() {
			if value.IsA(err, value.ErrorClass) {
				return &opResult{R: "err_negative"} // the header documents "an unchecked error", no class
			}
			return errResult(err)
		}
		return &opResult{R: "ok"}
	case "once":
		if e.K == "call" {
			o.once.Native().Do(func() {
				o.runs++
				d.gate(actor, "body", 0, nil)
			})
			return &opResult{R: "ok"}
		}
	}
	return &opResult{R: "other:unknown operation " + b.Prim + "." + e.K}
}

func replay(b *Behaviour, stepWait time.Duration) *ReplayResult {
	if stepWait == 0 {
		stepWait = 10 * time.Second
	}
	res := &ReplayResult{At: -1}
	// programs: the operations each thread starts, in order
	progs := map[int][]*Event{}
	var actors []int
	for i := range b.Hist {
		e := &b.Hist[i]
		if e.K == "body_end" {
			continue
		}
		if _, ok := progs[e.A]; !ok {
			actors = append(actors, e.A)
		}
		progs[e.A] = append(progs[e.A], e)
	}
	sort.Ints(actors)
	o := &objects{}
	switch b.Prim {
	case "chan":
		for _, c := range b.Caps {
			o.chans = append(o.chans, value.NewChannelOfValue(c))
		}
	case "mutex":
		o.mu = value.NewMutex()
	case "rw":
		o.rw = value.NewRWMutex()
	case "wg":
		o.wg = &value.WaitGroup{}
	case "once":
		o.once = value.NewOnce()
	}
	d := newDriver(len(actors), stepWait)
	value.VerifHook = d.hook
	defer d.abandon()
	started := make(chan struct{}, len(actors))
	for _, a := range actors {
		go func(a int, prog []*Event) {
			d.register(a)
			started <- struct{}{}
			for i, e := range prog {
				if !d.gate(a, "call", i, nil) {
					return
				}
				r := o.exec(d, a, b, e)
				if !d.gate(a, "ret", i, r) {
					return
				}
			}
			d.gate(a, "done", 0, nil)
		}(a, progs[a])
	}
	for range actors {
		<-started
	}
	fail := func(outcome string, at int, e *Event, want, got, detail string) *ReplayResult {
		res.Outcome, res.At, res.Want, res.Got, res.Detail = outcome, at, want, got, detail
		if e != nil {
			res.Op = b.Prim + "." + e.K
		}
		res.Events = d.allEv
		return res
	}
	if _, err := d.quiesce(actors); err != nil {
		return fail("unsettled", -1, nil, "", "", err.Error())
	}
	pos := map[int]int{}         // next operation index per actor
	inflight := map[int]*Event{} // blocked operation per actor
	for i := range b.Hist {
		e := &b.Hist[i]
		fmt.Fprintf(os.Stderr, "C25STEP %d %s.%s t%d expect %s\n", i, b.Prim, e.K, e.A, e.R)
		res.Steps++
		pk := d.parked[e.A]
		if e.K == "body_end" {
			if pk == nil || pk.ev != "body" {
				return fail("mismatch", i, e, fmt.Sprintf("t%d inside the once body", e.A), describePark(pk), "the spec has this thread inside the body of the Once")
			}
		} else {
			if pk == nil || pk.ev != "call" || pk.idx != pos[e.A] {
				return fail("unknown_event", i, e, fmt.Sprintf("t%d at gate call#%d", e.A, pos[e.A]), describePark(pk), "harness out of step with the behaviour")
			}
			d.evlog[e.A] = nil
			inflight[e.A] = e
			pos[e.A]++
		}
		before := map[int]string{}
		for _, a := range actors {
			before[a] = describePark(d.parked[a])
		}
		d.release(e.A)
		blocked, err := d.quiesce(actors)
		if err != nil {
			return fail("unsettled", i, e, "", "", err.Error())
		}
		// who completed in this step, according to the spec
		expect := map[int]Wake{}
		if e.K == "body_end" {
			expect[e.A] = Wake{A: e.A, R: "ok"}
		} else if e.R != "blocked" && e.R != "body" {
			expect[e.A] = Wake{A: e.A, R: e.R, RV: e.RV}
		}
		for _, w := range e.Wake {
			expect[w.A] = w
		}
		res.Wakes += len(e.Wake)
		// the stepping thread first: a deviation is attributed to the operation that caused it
		order := []int{e.A}
		for _, a := range actors {
			if a != e.A {
				order = append(order, a)
			}
		}
		for _, a := range order {
			pk := d.parked[a]
			op := inflight[a]
			opName := ""
			if op != nil {
				opName = fmt.Sprintf("t%d %s.%s", a, b.Prim, op.K)
			}
			if w, ok := expect[a]; ok {
				// must have completed with this result
				if pk == nil {
					return fail("blocked", i, e, fmt.Sprintf("%s completes with %s", opName, w.R), "blocked in "+blocked[a],
						"the spec enables the operation, the quiescent runtime keeps the goroutine blocked")
				}
				if pk.ev != "ret" {
					return fail("mismatch", i, e, fmt.Sprintf("%s completes with %s", opName, w.R), describePark(pk), "")
				}
				if pk.res.R != w.R || (w.R == "val" && pk.res.RV != w.RV) {
					kind := "mismatch"
					return fail(kind, i, e, fmt.Sprintf("%s -> %s %d", opName, w.R, w.RV), fmt.Sprintf("%s %d", pk.res.R, pk.res.RV), "")
				}
				if want := expectedHooks(b.Prim, op.K, w.R); want != nil && strings.Join(want, " ") != strings.Join(d.evlog[a], " ") {
					return fail("unknown_event", i, e, strings.Join(want, " "), strings.Join(d.evlog[a], " "), "hook events of "+opName+" differ from the binding table")
				}
				delete(inflight, a)
				continue
			}
			if a == e.A && e.R == "blocked" {
				if pk != nil {
					got := describePark(pk)
					if pk.ev == "ret" {
						got = fmt.Sprintf("completed with %s %d", pk.res.R, pk.res.RV)
					}
					return fail("mismatch", i, e, opName+" blocks", got, "the operation went through although the spec does not enable it")
				}
				res.Blocks++
				if want := expectedHooks(b.Prim, op.K, "ok"); len(want) > 0 && (len(d.evlog[a]) != 1 || d.evlog[a][0] != want[0]) {
					return fail("unknown_event", i, e, want[0], strings.Join(d.evlog[a], " "), "hook events of a blocked "+opName)
				}
				continue
			}
			if a == e.A && e.R == "body" {
				if pk == nil || pk.ev != "body" {
					got := describePark(pk)
					if pk == nil {
						got = "blocked in " + blocked[a]
					}
					return fail("mismatch", i, e, opName+" runs the body", got, "")
				}
				continue
			}
			// everybody else must be where it was
			if now := describePark(pk); now != before[a] {
				if pk != nil && pk.ev == "ret" {
					now = fmt.Sprintf("completed %s with %s %d", opName, pk.res.R, pk.res.RV)
				}
				return fail("mismatch", i, e, fmt.Sprintf("t%d stays %s", a, before[a]), now, "a thread moved that the spec leaves blocked / untouched")
			}
		}
		// projection of the real state
		if want, got := projection(b, e), o.project(b); want != got {
			return fail("mismatch", i, e, "state "+want, "state "+got, "projection of the real objects after the step")
		}
		for _, ev := range d.allEv {
			f := strings.Fields(ev)
			if len(f) == 2 && !isHarnessGate(f[1]) && !knownHookEvents[f[1]] {
				return fail("unknown_event", i, e, "", f[1], "hook event without a binding")
			}
		}
		// completed actors go on to the gate of their next operation
		moved := false
		for a := range expect {
			if pk := d.parked[a]; pk != nil && pk.ev == "ret" {
				d.release(a)
				moved = true
			}
		}
		if moved {
			if _, err := d.quiesce(actors); err != nil {
				return fail("unsettled", i, e, "", "", err.Error())
			}
		}
	}
	res.Outcome = "ok"
	return res
}

func describePark(p *park) string {
	if p == nil {
		return "not at a gate"
	}
	if p.ev == "call" || p.ev == "ret" {
		return fmt.Sprintf("at %s#%d", p.ev, p.idx)
	}
	return "at " + p.ev
}

// projection of the model state after an event, and of the real objects (only what the real
// objects expose: buffer lengths and capacities, the number of once-body executions)
func projection(b *Behaviour, e *Event) string {
	switch b.Prim {
	case "chan":
		return fmt.Sprintf("len=%v cap=%v", e.Lens, b.Caps)
	case "once":
		return fmt.Sprintf("runs=%d", e.Runs)
	case "mutex":
		return fmt.Sprintf("locked=%v", e.Locked)
	case "rw":
		return fmt.Sprintf("held=%v", e.Writer || e.Readers > 0)
	}
	return ""
}

func (o *objects) project(b *Behaviour) string {
	switch b.Prim {
	case "chan":
		var lens, caps []int
		for _, c := range o.chans {
			lens = append(lens, c.Length())
			caps = append(caps, c.Capacity())
			if c.LeftCapacity() != c.Capacity()-c.Length() {
				return fmt.Sprintf("left_capacity %d != capacity %d - length %d", c.LeftCapacity(), c.Capacity(), c.Length())
			}
		}
		return fmt.Sprintf("len=%v cap=%v", lens, caps)
	case "once":
		return fmt.Sprintf("runs=%d", o.runs)
	case "mutex":
		// probe at quiescence: a free mutex can be taken (and is given back at once)
		free := o.mu.Native.TryLock()
		if free {
			o.mu.Native.Unlock()
		}
		return fmt.Sprintf("locked=%v", !free)
	case "rw":
		free := o.rw.Native.TryLock()
		if free {
			o.rw.Native.Unlock()
		}
		return fmt.Sprintf("held=%v", !free)
	}
	return ""
}
