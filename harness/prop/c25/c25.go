// Package c25: channels and sync primitives keep their contracts under any schedule.
//
//  1. spec/Chan and spec/Sync are model-checked by TLC (all interleavings of all programs of a bounded
//     number of threads and operations; negative controls must be caught);
//  2. TLC -simulate behaviours of the verified specs are replayed, as forced schedules, on the real
//     value.ChannelOfValue / Mutex / RWMutex / WaitGroup / Once (gate driver, replay.go/driver.go);
//  3. sequential Elk programs generated from TLC behaviours (channels + select, closed-channel phases,
//     misuse of the primitives) and concurrent Elk programs with `go` threads whose recorded hook
//     traces are validated against the specs (elkprog.go, trace.go).
package c25

import (
	"encoding/json"
	"fmt"
	"os"
	"path/filepath"
	"sort"
	"strings"
	"sync"
	"time"

	"elkverif/internal/core"
	"elkverif/internal/tlc"
)

func init() {
	core.Register(&core.Check{ID: "C25", Level: "model_checking", Run: run})
}

const chanInvariants = "TypeOK ExactlyOnceInOrder NoDuplicates PerProducerOrder BlockedJustified ErrorsOnlyWhenClosed RejectsPopsOnlyWhenDrained WokenErrorsOnlyWhenClosed"
const chanProperties = "ClosedStaysClosed ClosedRejectsPushes ClosedDrains DeliversHead SelectOnlyReady"
const syncInvariants = "TypeOK MutexExclusive RWExclusive BlockedJustified UnlockErrorOnlyWhenUnheld CounterNonNegative WaitReturnsOnlyAtZero OnceRunsOnce OnceReturnsAfterBody"
const syncProperties = "MisuseChangesNothing"

type chanInst struct {
	NThreads, MaxOps, NCh int
	Caps                  string
	Kinds                 string
	SingleWaiter, NoBlock bool
	DetSelect             bool
	Variant               string
}

func tlaBool(b bool) string {
	if b {
		return "TRUE"
	}
	return "FALSE"
}

func (c chanInst) cfg(sim bool) string {
	s := fmt.Sprintf("CONSTANTS\n NThreads = %d\n MaxOps = %d\n NCh = %d\n CapSet = %s\n Kinds = %s\n SingleWaiter = %s\n NoBlock = %s\n DetSelect = %s\n Variant = \"%s\"\n",
		c.NThreads, c.MaxOps, c.NCh, c.Caps, c.Kinds, tlaBool(c.SingleWaiter), tlaBool(c.NoBlock), tlaBool(c.DetSelect), c.Variant)
	if sim {
		return s + "INIT Init\nNEXT Next\nINVARIANT EmitAtEnd\nCHECK_DEADLOCK FALSE\n"
	}
	return s + "SPECIFICATION Spec\nVIEW View\nINVARIANTS " + chanInvariants + "\nPROPERTIES " + chanProperties + "\nCHECK_DEADLOCK FALSE\n"
}

type syncInst struct {
	NThreads, MaxOps     int
	Prims                string
	Misuse, SingleWaiter bool
	Variant              string
}

func (c syncInst) cfg(sim bool) string {
	s := fmt.Sprintf("CONSTANTS\n NThreads = %d\n MaxOps = %d\n Prims = %s\n Misuse = %s\n SingleWaiter = %s\n Variant = \"%s\"\n",
		c.NThreads, c.MaxOps, c.Prims, tlaBool(c.Misuse), tlaBool(c.SingleWaiter), c.Variant)
	if sim {
		return s + "INIT Init\nNEXT Next\nINVARIANT EmitAtEnd\nCHECK_DEADLOCK FALSE\n"
	}
	return s + "SPECIFICATION Spec\nVIEW View\nINVARIANTS " + syncInvariants + "\nPROPERTIES " + syncProperties + "\nCHECK_DEADLOCK FALSE\n"
}

const allKinds = `{"push", "pop", "next", "close"}`
const allKindsSel = `{"push", "pop", "next", "close", "select"}`
const allPrims = `{"mutex", "rw", "wg", "once"}`

type tlcTask struct {
	name    string
	module  string
	cfg     string
	expect  string // "ok" or the name of the invariant/property a negative control must violate
	workers int
}

type tlcOut struct {
	task tlcTask
	res  *tlc.Result
	err  error
}

func specDir(m string) string { return filepath.Join(core.VerifRoot, "spec", m) }

// runTLC runs the model-checking tasks, a few at a time.
func runTLC(c *core.Ctx, tasks []tlcTask, par int, timeout time.Duration) []tlcOut {
	out := make([]tlcOut, len(tasks))
	sem := make(chan struct{}, par)
	var wg sync.WaitGroup
	for i, t := range tasks {
		wg.Add(1)
		go func(i int, t tlcTask) {
			defer wg.Done()
			sem <- struct{}{}
			defer func() { <-sem }()
			cfgName := fmt.Sprintf("%s_%d.cfg", t.module, i)
			r, err := tlc.Run(tlc.Opts{SpecDir: specDir(t.module), Module: t.module, Cfg: cfgName, Scratch: c.Scratch, Workers: t.workers,
				Timeout: timeout, Extra: map[string][]byte{cfgName: []byte(t.cfg)}})
			out[i] = tlcOut{t, r, err}
		}(i, t)
	}
	wg.Wait()
	return out
}

func simulate(c *core.Ctx, module, cfg string, num int, seed int64, prim string, timeout time.Duration) ([]Behaviour, error) {
	var behs []Behaviour
	seen := map[string]bool{}
	cfgName := module + "_sim.cfg"
	r, err := tlc.Run(tlc.Opts{SpecDir: specDir(module), Module: module, Cfg: cfgName, Scratch: c.Scratch, Workers: 1, Timeout: timeout,
		Simulate: fmt.Sprintf("num=%d", num), Depth: 60, Seed: seed, Extra: map[string][]byte{cfgName: []byte(cfg)},
		OnGen: func(rec []byte) {
			var b Behaviour
			if json.Unmarshal(rec, &b) != nil || len(b.Hist) == 0 {
				return
			}
			if prim != "" {
				b.Prim = prim
			}
			k := b.Key()
			if seen[k] {
				return
			}
			seen[k] = true
			behs = append(behs, b)
		}})
	if err != nil {
		return nil, err
	}
	if r.Verdict != "ok" {
		return nil, core.Inconclusivef("TLC simulation of %s: %s %s\n%s", module, r.Verdict, r.What, tail(r.Output, 1500))
	}
	return behs, nil
}

func run(c *core.Ctx) error {
	// ---------------------------------------------------------------- 1. model checking
	var tasks []tlcTask
	chanMain := []chanInst{
		{NThreads: 2, MaxOps: 3, NCh: 1, Caps: "{0, 1, 2}", Kinds: allKinds, Variant: "good"},
		{NThreads: 3, MaxOps: 2, NCh: 1, Caps: "{0, 1, 2}", Kinds: allKinds, Variant: "good"},
		{NThreads: 2, MaxOps: 2, NCh: 2, Caps: "{0, 1}", Kinds: `{"push", "close", "select"}`, Variant: "good"},
	}
	syncMain := []syncInst{
		{NThreads: 3, MaxOps: 2, Prims: allPrims, Misuse: true, Variant: "good"},
		{NThreads: 2, MaxOps: 3, Prims: allPrims, Misuse: true, Variant: "good"},
	}
	if c.Thorough() {
		chanMain = []chanInst{
			{NThreads: 3, MaxOps: 3, NCh: 1, Caps: "{0, 1, 2}", Kinds: allKinds, Variant: "good"},
			{NThreads: 2, MaxOps: 4, NCh: 1, Caps: "{0, 1, 2}", Kinds: allKinds, Variant: "good"},
			{NThreads: 2, MaxOps: 3, NCh: 2, Caps: "{0, 1}", Kinds: `{"push", "close", "select"}`, Variant: "good"},
			{NThreads: 2, MaxOps: 2, NCh: 2, Caps: "{0, 1}", Kinds: allKindsSel, Variant: "good"},
			{NThreads: 1, MaxOps: 4, NCh: 2, Caps: "{0, 1, 2}", Kinds: allKindsSel, Variant: "good"},
			{NThreads: 3, MaxOps: 2, NCh: 2, Caps: "{0, 1, 2}", Kinds: allKinds, Variant: "good"},
		}
		syncMain = []syncInst{
			{NThreads: 3, MaxOps: 3, Prims: allPrims, Misuse: true, Variant: "good"},
			{NThreads: 2, MaxOps: 5, Prims: allPrims, Misuse: true, Variant: "good"},
			{NThreads: 4, MaxOps: 2, Prims: allPrims, Misuse: true, Variant: "good"},
		}
	}
	w := 2
	if c.Thorough() {
		w = 4
	}
	for _, ci := range chanMain {
		tasks = append(tasks, tlcTask{fmt.Sprintf("Chan %dx%d ch=%d caps=%s kinds=%s", ci.NThreads, ci.MaxOps, ci.NCh, ci.Caps, ci.Kinds), "Chan", ci.cfg(false), "ok", w})
	}
	for _, si := range syncMain {
		tasks = append(tasks, tlcTask{fmt.Sprintf("Sync %dx%d prims=%s", si.NThreads, si.MaxOps, si.Prims), "Sync", si.cfg(false), "ok", w})
	}
	// negative controls: deliberately broken variants of the design must be caught by TLC
	tasks = append(tasks,
		tlcTask{"neg Chan close_drops", "Chan", chanInst{NThreads: 2, MaxOps: 2, NCh: 1, Caps: "{1, 2}", Kinds: allKinds, Variant: "close_drops"}.cfg(false), "ExactlyOnceInOrder", 1},
		tlcTask{"neg Chan select_any", "Chan", chanInst{NThreads: 1, MaxOps: 2, NCh: 2, Caps: "{0, 1}", Kinds: allKindsSel, Variant: "select_any"}.cfg(false), "SelectOnlyReady", 1},
		tlcTask{"neg Sync unlock_wakes_all", "Sync", syncInst{NThreads: 3, MaxOps: 2, Prims: `{"mutex"}`, Misuse: true, Variant: "unlock_wakes_all"}.cfg(false), "MutexExclusive", 1},
		tlcTask{"neg Sync wait_early", "Sync", syncInst{NThreads: 2, MaxOps: 3, Prims: `{"wg"}`, Misuse: true, Variant: "wait_early"}.cfg(false), "WaitReturnsOnlyAtZero", 1},
		tlcTask{"neg Sync once_twice", "Sync", syncInst{NThreads: 2, MaxOps: 2, Prims: `{"once"}`, Misuse: true, Variant: "once_twice"}.cfg(false), "OnceRunsOnce", 1},
	)
	if os.Getenv("C25_DEV_SKIP_MC") != "" { // developer aid: go straight to the replay (never set by ./run)
		tasks = nil
	}
	t0 := time.Now()
	outs := runTLC(c, tasks, c.Pick(5, 6), time.Duration(c.Pick(6, 25))*time.Minute)
	var states, transitions int64
	var instDesc []string
	for _, o := range outs {
		if o.err != nil {
			return o.err
		}
		r := o.res
		if o.task.expect == "ok" {
			if !r.OK {
				return core.Inconclusivef("TLC: %s violates %s %s (the specification must hold its own properties before it can be an oracle)\n%s",
					o.task.name, r.Verdict, r.What, tail(r.ErrorTrace, 3000))
			}
			states += r.Distinct
			transitions += r.Generated
			instDesc = append(instDesc, fmt.Sprintf("%s: %d states, depth %d, %.0fs", o.task.name, r.Distinct, r.Depth, r.WallS))
			continue
		}
		if r.Verdict != "invariant" || r.What != o.task.expect {
			return core.Inconclusivef("negative control %q: TLC should report a violation of %s, got %s %s\n%s", o.task.name, o.task.expect, r.Verdict, r.What, tail(r.Output, 1500))
		}
		c.Note(fmt.Sprintf("negative control %s: TLC reports %s violated", o.task.name, o.task.expect))
	}
	c.Cov("states", int(states))
	c.Cov("transitions", int(transitions))
	c.Cov("instances", instDesc)
	c.Cov("spec", "spec/Chan/Chan.tla: "+chanInvariants+" "+chanProperties+"; spec/Sync/Sync.tla: "+syncInvariants+" "+syncProperties)
	c.Logf("TLC: %d instances verified, %d distinct states, 5 negative controls caught, %.0fs", len(chanMain)+len(syncMain), states, time.Since(t0).Seconds())

	// ---------------------------------------------------------------- 2. behaviours for the gate replay
	t0 = time.Now()
	nSim := c.Pick(800, 8000)
	type simReq struct {
		module, cfg, prim string
		num               int
		seed              int64
		out               []Behaviour
		err               error
	}
	reqs := []*simReq{
		{module: "Chan", prim: "chan", num: nSim, seed: c.Seed,
			cfg: chanInst{NThreads: 3, MaxOps: 3, NCh: 1, Caps: "{0, 1, 2}", Kinds: allKinds, SingleWaiter: true, Variant: "good"}.cfg(true)},
		{module: "Chan", prim: "chan", num: nSim / 2, seed: c.Seed + 1000,
			cfg: chanInst{NThreads: 3, MaxOps: 3, NCh: 2, Caps: "{0, 1}", Kinds: allKinds, SingleWaiter: true, Variant: "good"}.cfg(true)},
		{module: "Sync", num: nSim, seed: c.Seed,
			cfg: syncInst{NThreads: 3, MaxOps: 3, Prims: allPrims, Misuse: false, SingleWaiter: true, Variant: "good"}.cfg(true)},
		{module: "Sync", num: nSim / 4, seed: c.Seed + 2000,
			cfg: syncInst{NThreads: 3, MaxOps: 4, Prims: `{"rw", "wg"}`, Misuse: false, SingleWaiter: true, Variant: "good"}.cfg(true)},
		{module: "Sync", num: c.Pick(300, 2000), seed: c.Seed + 3000,
			cfg: syncInst{NThreads: 2, MaxOps: 3, Prims: `{"mutex", "rw", "wg"}`, Misuse: true, SingleWaiter: true, Variant: "good"}.cfg(true)},
		// sequential programs for the Elk level: one thread, two channels, select with at most one ready case
		{module: "Chan", prim: "chan", num: c.Pick(600, 5000), seed: c.Seed + 4000,
			cfg: chanInst{NThreads: 1, MaxOps: 7, NCh: 2, Caps: "{0, 1, 2}", Kinds: allKindsSel, NoBlock: true, DetSelect: true, Variant: "good"}.cfg(true)},
	}
	var wg sync.WaitGroup
	for i, rq := range reqs {
		wg.Add(1)
		go func(i int, rq *simReq) {
			defer wg.Done()
			// every simulation gets its own copy of the cfg name: tlc.Run works in a private directory
			rq.out, rq.err = simulate(c, rq.module, rq.cfg, rq.num, rq.seed, rq.prim, 10*time.Minute)
		}(i, rq)
	}
	wg.Wait()
	for _, rq := range reqs {
		if rq.err != nil {
			return rq.err
		}
	}
	seqProgs := reqs[5].out
	var plain, misuse []Behaviour
	seen := map[string]bool{}
	for _, rq := range reqs[:5] {
		for _, b := range rq.out {
			if b.Prim == "chan" {
				b.Ctx = len(plain)%2 == 0
			}
			if b.HasMisuse() {
				// keep one behaviour per (primitive, prefix up to the first misuse step)
				k := misuseKey(&b)
				if seen[k] {
					continue
				}
				seen[k] = true
				misuse = append(misuse, b)
			} else {
				plain = append(plain, b)
			}
		}
	}
	maxMisuse := c.Pick(36, 200)
	if len(misuse) > maxMisuse {
		sort.Slice(misuse, func(i, j int) bool { return misuseKey(&misuse[i]) < misuseKey(&misuse[j]) })
		var pick []Behaviour
		for _, i := range c.SampleIdx(len(misuse), maxMisuse) {
			pick = append(pick, misuse[i])
		}
		misuse = pick
	}
	c.Logf("TLC simulation: %d distinct behaviours without misuse, %d with a misuse step, %d sequential channel programs, %.0fs",
		len(plain), len(misuse), len(seqProgs), time.Since(t0).Seconds())
	if len(plain) == 0 {
		return core.Inconclusivef("TLC simulation produced no behaviour")
	}

	// ---------------------------------------------------------------- 3. gate-scheduled replay
	t0 = time.Now()
	var jobs []core.Job
	var jobBehs [][]Behaviour
	const batch = 40
	for i := 0; i < len(plain); i += batch {
		j := i + batch
		if j > len(plain) {
			j = len(plain)
		}
		jobs = append(jobs, core.Job{Kind: "c25.replay", TimeoutMs: 600000, Payload: ReplayJob{Behaviours: plain[i:j], StepMs: 15000}})
		jobBehs = append(jobBehs, plain[i:j])
	}
	for i := range misuse {
		// a misuse step may kill the process (Go fatal error): one behaviour per disposable worker
		jobs = append(jobs, core.Job{Kind: "c25.replay", TimeoutMs: 120000, Payload: ReplayJob{Behaviours: misuse[i : i+1], StepMs: 15000}})
		jobBehs = append(jobBehs, misuse[i:i+1])
	}
	pool := c.NewPool(c.Workers)
	if err := mutexStressStage(c, pool); err != nil {
		return err
	}
	okN, steps, blocks, wakes := 0, 0, 0, 0
	perPrim := map[string]int{}
	for round := 0; len(jobs) > 0; round++ {
		if round > 60 {
			return core.Inconclusivef("replay keeps crashing workers (%d jobs left after %d rounds)", len(jobs), round)
		}
		results := pool.Map(jobs, nil)
		curBehs := jobBehs
		jobs, jobBehs = nil, nil
		for k, jr := range results {
			behs := curBehs[k]
			if jr.Timeout {
				return core.Inconclusivef("replay job %d timed out\n%s", k, tail(jr.CrashLog, 1500))
			}
			if jr.Err != "" {
				return core.Inconclusivef("replay job failed: %s", jr.Err)
			}
			if jr.Crashed || jr.Panic != "" {
				// the worker died: the step in flight is the last C25STEP marker of its log
				log := jr.CrashLog + jr.Panic
				bi, si := lastMarker(log)
				rec := map[string]any{"kind": "go_crash", "log": tail(log, 4000)}
				if bi >= 0 && bi < len(behs) && si >= 0 && si < len(behs[bi].Hist) {
					b := behs[bi]
					e := b.Hist[si]
					rec["behaviour"] = b
					rec["at"] = si
					rec["op"] = b.Prim + "." + e.K
					rec["expected"] = e.R
					rec["observed"] = "process death: " + fatalLine(log)
					if isMisuse(e.R) {
						rec["kind"] = "misuse_outcome"
					}
					rec["summary"] = fmt.Sprintf("%s by t%d at step %d: the spec's outcome is %s, the process died: %s", rec["op"], e.A, si, e.R, fatalLine(log))
				} else {
					rec["summary"] = "worker crashed during a replay: " + fatalLine(log)
				}
				c.Violation(rec)
				// the results of the behaviours before the one that killed the worker died with it, the
				// ones behind it have not run yet: queue both parts again
				if bi >= 0 && bi < len(behs) {
					for _, rest := range [][]Behaviour{behs[:bi], behs[bi+1:]} {
						if len(rest) > 0 {
							jobs = append(jobs, core.Job{Kind: "c25.replay", TimeoutMs: 600000, Payload: ReplayJob{Behaviours: rest, StepMs: 15000}})
							jobBehs = append(jobBehs, rest)
						}
					}
				}
				continue
			}
			var rrs []*ReplayResult
			if err := jr.Decode(&rrs); err != nil {
				return err
			}
			for bi, rr := range rrs {
				b := behs[bi]
				rec := map[string]any{"behaviour": b, "result": rr, "at": rr.At, "op": rr.Op}
				where := fmt.Sprintf("%s caps=%v ctx=%v", b.Prim, b.Caps, b.Ctx)
				steps += rr.Steps
				blocks += rr.Blocks
				wakes += rr.Wakes
				switch rr.Outcome {
				case "ok":
					okN++
					perPrim[b.Prim]++
					if okN%397 == 1 {
						c.Sample(map[string]any{"prim": b.Prim, "caps": b.Caps, "steps": len(b.Hist), "schedule": briefHist(&b)})
					}
				case "mismatch":
					rec["kind"] = "trace_rejected"
					if rr.At >= 0 && rr.At < len(b.Hist) && isMisuse(b.Hist[rr.At].R) {
						rec["kind"] = "misuse_outcome"
						rec["expected"] = b.Hist[rr.At].R
						rec["observed"] = rr.Got
					}
					rec["summary"] = fmt.Sprintf("%s step %d (%s): the spec allows only [%s], the real object did [%s] %s", where, rr.At, rr.Op, rr.Want, rr.Got, rr.Detail)
					c.Violation(rec)
				case "blocked":
					rec["kind"] = "blocked_where_enabled"
					rec["summary"] = fmt.Sprintf("%s step %d (%s): %s -- %s (%s)", where, rr.At, rr.Op, rr.Want, rr.Got, rr.Detail)
					c.Violation(rec)
				default: // unknown_event, unsettled: the binding is broken, not the property
					bj, _ := json.Marshal(b)
					return core.Inconclusivef("replay binding broken (%s) at step %d of %s: want [%s] got [%s] %s\nevents: %v\nbehaviour: %s", rr.Outcome, rr.At, where, rr.Want, rr.Got, rr.Detail, rr.Events, bj)
				}
			}
		}
	}
	c.Cov("behaviours_replayed", len(plain)+len(misuse))
	c.Cov("replay_steps", steps)
	c.Cov("replay_blocked_steps_confirmed", blocks)
	c.Cov("replay_wakeups", wakes)
	c.Cov("replay_conforming_by_primitive", perPrim)
	c.Logf("gate replay: %d behaviours (%d steps, %d confirmed blockings, %d wake-ups), %d conform, %d violations so far, %.0fs",
		len(plain)+len(misuse), steps, blocks, wakes, okN, c.Violations(), time.Since(t0).Seconds())
	for _, p := range []string{"chan", "mutex", "rw", "wg", "once"} {
		if perPrim[p] == 0 && c.Violations() == 0 {
			return core.Inconclusivef("no conforming replay for primitive %s (vacuous run)", p)
		}
	}

	// ---------------------------------------------------------------- 4. Elk programs
	elkOK, err := runElkLevel(c, pool, seqProgs)
	if err != nil {
		return err
	}
	c.Cov("traces_validated_against_impl", okN+elkOK)
	if okN+elkOK == 0 && c.Violations() == 0 {
		return core.Inconclusivef("nothing compared")
	}
	return nil
}

func misuseKey(b *Behaviour) string {
	var sb strings.Builder
	sb.WriteString(b.Prim + "|")
	for _, e := range b.Hist {
		fmt.Fprintf(&sb, "%d%s%d>%s;", e.A, e.K, e.N, e.R)
		if isMisuse(e.R) {
			break
		}
	}
	return sb.String()
}

func briefHist(b *Behaviour) []string {
	var out []string
	for _, e := range b.Hist {
		s := fmt.Sprintf("t%d %s", e.A, e.K)
		if b.Prim == "chan" {
			s += fmt.Sprintf(" c%d", e.C)
		}
		s += " -> " + e.R
		if e.R == "val" {
			s += fmt.Sprintf(" %d", e.RV)
		}
		for _, w := range e.Wake {
			s += fmt.Sprintf(" (wakes t%d: %s)", w.A, w.R)
		}
		out = append(out, s)
	}
	return out
}

// lastMarker finds the last "C25BEH b" / "C25STEP s" markers in a worker log.
func lastMarker(log string) (beh, step int) {
	beh, step = -1, -1
	for _, l := range strings.Split(log, "\n") {
		var n int
		if _, err := fmt.Sscanf(l, "C25BEH %d", &n); err == nil {
			beh, step = n, -1
		} else if _, err := fmt.Sscanf(l, "C25STEP %d", &n); err == nil {
			step = n
		}
	}
	return
}

func fatalLine(log string) string {
	for _, l := range strings.Split(log, "\n") {
		if strings.HasPrefix(l, "fatal error:") || strings.HasPrefix(l, "panic:") {
			return strings.TrimSpace(l)
		}
	}
	return "(no fatal error line in the worker log)"
}

func tail(s string, n int) string {
	if len(s) <= n {
		return s
	}
	return s[len(s)-n:]
}
