package c25

import (
	"encoding/json"
	"fmt"
	"sort"
	"strings"
	"sync"
	"sync/atomic"
	"time"

	"github.com/elk-language/elk/value"
	"github.com/elk-language/elk/vm"

	"elkverif/internal/core"
	"elkverif/internal/elkrun"
	"elkverif/internal/tlc"
)

// ---- job: run an Elk program, optionally recording the trace hooks ------------------------------

type ElkJob struct {
	Src    string `json:"src"`
	Record bool   `json:"record"`
	RunMs  int    `json:"run_ms"`
	MaxEv  int    `json:"max_ev"`
}

// RecEvent is one recorded hook event (global order = slice order).
type RecEvent struct {
	G   int    `json:"g"`   // thread (goroutines numbered in order of first appearance)
	Ev  string `json:"ev"`  // hook event
	Obj int    `json:"obj"` // object (numbered per kind in order of first appearance)
	V   int    `json:"v"`   // value pushed / popped, or n of add/remove
	Cap int    `json:"cap"` // channels: capacity
}

type ElkResult struct {
	Run       *elkrun.Result `json:"run"`
	Events    []RecEvent     `json:"events"`
	Truncated bool           `json:"truncated"`
}

type recorder struct {
	mu     sync.Mutex
	gids   map[int64]int
	objs   map[string]map[any]int
	events []RecEvent
	max    int
	trunc  bool
	off    atomic.Bool
}

func (r *recorder) hook(ev string, args ...any) {
	if r.off.Load() || !isC25Event(ev) || strings.HasPrefix(ev, "select.") {
		return
	}
	g := gid()
	r.mu.Lock()
	defer r.mu.Unlock()
	if len(r.events) >= r.max {
		r.trunc = true
		return
	}
	gi, ok := r.gids[g]
	if !ok {
		gi = len(r.gids) + 1
		r.gids[g] = gi
	}
	e := RecEvent{G: gi, Ev: ev}
	kind := ev[:strings.IndexByte(ev, '.')]
	if len(args) > 0 {
		m := r.objs[kind]
		if m == nil {
			m = map[any]int{}
			r.objs[kind] = m
		}
		oi, ok := m[args[0]]
		if !ok {
			oi = len(m) + 1
			m[args[0]] = oi
		}
		e.Obj = oi
		if ch, ok := args[0].(*value.ChannelOfValue); ok {
			e.Cap = ch.Capacity()
		}
	}
	if len(args) > 1 {
		switch x := args[1].(type) {
		case value.Value:
			if x.IsSmallInt() {
				e.V = int(x.AsSmallInt())
			}
		case int:
			e.V = x
		}
	}
	if ev == "wg.start.ok" || ev == "wg.end.ok" {
		e.V = 1
	}
	r.events = append(r.events, e)
}

func init() {
	core.RegisterJob("c25.elk", func(raw json.RawMessage) (any, error) {
		var j ElkJob
		if err := json.Unmarshal(raw, &j); err != nil {
			return nil, err
		}
		res := &ElkResult{}
		var rec *recorder
		if j.Record {
			rec = &recorder{gids: map[int64]int{}, objs: map[string]map[any]int{}, max: j.MaxEv}
			value.VerifHook = rec.hook
			vm.VerifHook = rec.hook
		} else {
			value.VerifHook = nil
			vm.VerifHook = nil
		}
		res.Run = elkrun.Run(&elkrun.Job{Src: j.Src, RunMs: j.RunMs})
		if rec != nil {
			rec.off.Store(true)
			rec.mu.Lock()
			res.Events = rec.events
			res.Truncated = rec.trunc
			rec.mu.Unlock()
		}
		if res.Run.Hung || res.Run.GoPanic != "" {
			core.RequestWorkerRestart()
		}
		return res, nil
	})
}

// ---- sequential programs generated from TLC behaviours -------------------------------------------

const elkPrelude = "using Std::Sync::WaitGroup\nusing Std::Sync::Mutex\nusing Std::Sync::RWMutex\nusing Std::Sync::Once\ndef t(s: String) then println s\n"

const catchErr = "catch Std::Error() as e\n  println \"e #{e.class}: #{e.message}\"\nend\n"

func errLine(class, msg string) string {
	return fmt.Sprintf("e class %s < Std::Error: %q", class, msg)
}

const (
	msgPush  = "cannot push values to a closed channel"
	msgPop   = "cannot pop values from a closed channel"
	msgClose = "cannot close a closed channel"
)

type seqProg struct {
	Beh      *Behaviour
	Body     string   // statements (top level of a method)
	Expected []string // one line per event (+ a len line for channels)
	Ops      []string // op label per expected line
	Risky    bool     // contains a step whose known outcome is a Go crash: run alone
}

// emitChanSeq renders a one-thread behaviour of spec/Chan as Elk statements and the output the spec predicts.
func emitChanSeq(b *Behaviour, variant int) *seqProg {
	p := &seqProg{Beh: b}
	var sb strings.Builder
	for i, cp := range b.Caps {
		fmt.Fprintf(&sb, "c%d := Channel::[Int](%d)\n", i+1, cp)
	}
	add := func(op, line string) {
		p.Expected = append(p.Expected, line)
		p.Ops = append(p.Ops, op)
	}
	resLine := func(prefix string, r string, rv int) string {
		switch r {
		case "ok":
			return prefix + "ok"
		case "val":
			return fmt.Sprintf("%sval %d", prefix, rv)
		case "err_push":
			return prefix + errLine("Std::Channel::ClosedError", msgPush)
		case "err_pop":
			return prefix + errLine("Std::Channel::ClosedError", msgPop)
		case "err_close":
			return prefix + errLine("Std::Channel::ClosedError", msgClose)
		case "stop":
			return prefix + "stop"
		}
		return prefix + "?" + r
	}
	for i, e := range b.Hist {
		switch e.K {
		case "push":
			fmt.Fprintf(&sb, "do\n  c%d << %d\n  t \"ok\"\n%s", e.C, e.V, catchErr)
			add("chan.push", resLine("", e.R, e.RV))
		case "pop":
			if (variant+i)%2 == 0 {
				fmt.Fprintf(&sb, "do\n  v%d := c%d.pop\n  t \"val #{v%d}\"\n%s", i, e.C, i, catchErr)
			} else {
				fmt.Fprintf(&sb, "r%d := <<c%d\nif r%d.ok\n  t \"val #{r%d.unwrap}\"\nelse\n  e%d := r%d.err\n  if e%d\n    println \"e #{e%d.class}: #{e%d.message}\"\n  end\nend\n", i, e.C, i, i, i, i, i, i, i)
			}
			add("chan.pop", resLine("", e.R, e.RV))
		case "next":
			fmt.Fprintf(&sb, "do\n  v%d := c%d.next\n  t \"val #{v%d}\"\ncatch :stop_iteration\n  t \"stop\"\n%s", i, e.C, i, catchErr)
			add("chan.next", resLine("", e.R, e.RV))
		case "close":
			fmt.Fprintf(&sb, "do\n  c%d.close\n  t \"ok\"\n%s", e.C, catchErr)
			add("chan.close", resLine("", e.R, e.RV))
		case "select":
			sb.WriteString("do\n  select\n")
			for ci, cs := range e.Cases {
				switch cs.D {
				case "recv":
					fmt.Fprintf(&sb, "  case r%d_%d := <<c%d\n    if r%d_%d.ok\n      t \"sel %d val #{r%d_%d.unwrap}\"\n    else\n      e%d_%d := r%d_%d.err\n      if e%d_%d\n        println \"sel %d e #{e%d_%d.class}: #{e%d_%d.message}\"\n      end\n    end\n",
						i, ci, cs.C, i, ci, ci+1, i, ci, i, ci, i, ci, i, ci, ci+1, i, ci, i, ci)
				case "send":
					fmt.Fprintf(&sb, "  case c%d << %d\n    t \"sel %d ok\"\n", cs.C, e.V, ci+1)
				case "else":
					sb.WriteString("  else\n    t \"sel else\"\n")
				}
			}
			sb.WriteString("  end\n" + catchErr)
			chosen := e.Cases[e.Sel-1]
			switch {
			case chosen.D == "else":
				add("chan.select", "sel else")
			case chosen.D == "send" && e.R == "err_push":
				// a send case has no result to bind: the rejection is thrown, like `ch << v`
				add("chan.select", resLine("", e.R, 0))
				p.Risky = true
			default:
				add("chan.select", resLine(fmt.Sprintf("sel %d ", e.Sel), e.R, e.RV))
			}
		}
		lens := make([]string, len(e.Lens))
		sb.WriteString("t \"len")
		for ci := range e.Lens {
			lens[ci] = fmt.Sprint(e.Lens[ci])
			fmt.Fprintf(&sb, " #{c%d.length}", ci+1)
		}
		sb.WriteString("\"\n")
		add("chan.length", "len "+strings.Join(lens, " "))
	}
	p.Body = sb.String()
	return p
}

var syncErr = map[string]string{
	"mutex.err_unlocked": errLine("Std::Sync::Mutex::UnlockedError", "cannot unlock an unlocked mutex"),
	"rw.err_unlocked":    errLine("Std::Sync::RWMutex::UnlockedError", "a rwmutex that is unlocked for writing cannot be unlocked for writing"),
	"rw.err_runlocked":   errLine("Std::Sync::RWMutex::UnlockedError", "a rwmutex that is unlocked for reading cannot be unlocked for reading"),
	"wg.err_negative":    "e ", // some Elk error (no class is documented): prefix match
}

// emitSyncSeq renders a one-thread behaviour of spec/Sync (mutex, rw, wg) as Elk statements.
func emitSyncSeq(b *Behaviour) *seqProg {
	p := &seqProg{Beh: b}
	var sb strings.Builder
	switch b.Prim {
	case "mutex":
		sb.WriteString("m := Mutex()\n")
	case "rw":
		sb.WriteString("m := RWMutex()\n")
	case "wg":
		sb.WriteString("m := WaitGroup()\n")
	}
	for _, e := range b.Hist {
		call := ""
		switch e.K {
		case "lock", "unlock", "wait", "start", "end":
			call = "m." + e.K
		case "rlock":
			call = "m.read_lock"
		case "runlock":
			call = "m.read_unlock"
		case "add", "remove":
			call = fmt.Sprintf("m.%s(%d)", e.K, e.N)
		}
		fmt.Fprintf(&sb, "do\n  %s\n  t \"ok\"\n%s", call, catchErr)
		want := "ok"
		if isMisuse(e.R) {
			want = syncErr[b.Prim+"."+e.R]
			p.Risky = true
		}
		p.Expected = append(p.Expected, want)
		p.Ops = append(p.Ops, b.Prim+"."+e.K)
	}
	p.Body = sb.String()
	return p
}

func lineMatches(want, got string) bool {
	if want == "e " {
		return strings.HasPrefix(got, "e ")
	}
	return want == got
}

// compareSeq reports the first line where the program's output differs from the spec's prediction.
func compareSeq(c *core.Ctx, p *seqProg, src string, er *ElkResult, jr *core.JobResult) bool {
	rec := map[string]any{"behaviour": p.Beh, "source": src}
	var lines []string
	observedEnd := ""
	switch {
	case jr.Crashed:
		lines = nil
		observedEnd = "process death: " + fatalLine(jr.CrashLog)
		// the output is lost with the process: the step that killed it is the first risky one
		for i, w := range p.Expected {
			if strings.HasPrefix(w, "e") && p.Risky {
				rec["kind"], rec["op"], rec["expected"], rec["observed"] = "elk_misuse_outcome", p.Ops[i], w, observedEnd
				rec["summary"] = fmt.Sprintf("Elk program: %s should print [%s]; the interpreter died: %s", p.Ops[i], w, observedEnd)
				c.Violation(rec)
				return false
			}
		}
		rec["kind"], rec["observed"], rec["summary"] = "go_crash", observedEnd, "Elk program killed the interpreter: "+observedEnd
		c.Violation(rec)
		return false
	case !er.Run.Accepted:
		rec["kind"], rec["summary"] = "generator", "generated program rejected: "+er.Run.Diags
		rec["rejected"] = true
		return false
	}
	lines = strings.Split(strings.TrimRight(er.Run.Stdout, "\n"), "\n")
	if er.Run.Stdout == "" {
		lines = nil
	}
	if er.Run.GoPanic != "" {
		observedEnd = "go panic: " + strings.SplitN(er.Run.GoPanic, "\n", 2)[0]
	} else if er.Run.Hung {
		observedEnd = "hung"
	} else if er.Run.ErrClass != "" {
		observedEnd = "uncaught " + er.Run.ErrClass + ": " + er.Run.ErrMsg
	}
	for i, w := range p.Expected {
		got := observedEnd
		if i < len(lines) {
			got = lines[i]
		} else if got == "" {
			got = "(no output)"
		}
		if lineMatches(w, got) {
			continue
		}
		rec["kind"] = "elk_output_mismatch"
		if i >= len(lines) && er.Run.GoPanic != "" {
			rec["kind"] = "go_crash"
		}
		if isMisuseLine(p, i) {
			rec["kind"] = "elk_misuse_outcome"
		}
		rec["op"], rec["expected"], rec["observed"], rec["at"] = p.Ops[i], w, got, i
		rec["stdout"] = er.Run.Stdout
		rec["summary"] = fmt.Sprintf("Elk program line %d (%s): the spec predicts [%s], the interpreter printed [%s]", i, p.Ops[i], w, got)
		c.Violation(rec)
		return false
	}
	if len(lines) != len(p.Expected) || observedEnd != "" {
		rec["kind"], rec["op"], rec["expected"], rec["observed"] = "elk_output_mismatch", "end", fmt.Sprintf("%d lines", len(p.Expected)), fmt.Sprintf("%d lines %s", len(lines), observedEnd)
		rec["stdout"] = er.Run.Stdout
		rec["summary"] = fmt.Sprintf("Elk program: %d lines predicted, %d printed %s", len(p.Expected), len(lines), observedEnd)
		c.Violation(rec)
		return false
	}
	return true
}

func isMisuseLine(p *seqProg, i int) bool {
	if p.Beh.Prim == "chan" {
		return false
	}
	return i < len(p.Beh.Hist) && isMisuse(p.Beh.Hist[i].R)
}

// ---- concurrent programs -------------------------------------------------------------------------

type concProg struct {
	NoChanLin bool // the program moves values with `select`, which the value-level hooks do not see
	Name      string
	Src       string
	Params    map[string]int
	Check     func(lines []string) string // "" = laws hold
}

func prodCons(np, nc, k, cp, style int) *concProg {
	var sb strings.Builder
	sb.WriteString(elkPrelude)
	fmt.Fprintf(&sb, "ch := Channel::[Int](%d)\npw := WaitGroup()\ncw := WaitGroup()\n", cp)
	for c := 1; c <= nc; c++ {
		fmt.Fprintf(&sb, "var r%d: ArrayList[Int] = []\n", c)
	}
	fmt.Fprintf(&sb, "pw.add(%d)\n", np)
	for p := 1; p <= np; p++ {
		fmt.Fprintf(&sb, "go\n  fornum i := 1; i <= %d; i = i + 1\n    ch << %d + i\n  end\n  pw.end\nend\n", k, p*100)
	}
	fmt.Fprintf(&sb, "cw.add(%d)\n", nc)
	for c := 1; c <= nc; c++ {
		switch (style + c) % 3 {
		case 0:
			fmt.Fprintf(&sb, "go\n  for v in ch\n    r%d << v\n  end\n  cw.end\nend\n", c)
		case 1:
			fmt.Fprintf(&sb, "go\n  loop\n    r := <<ch\n    if r.ok\n      r%d << r.unwrap\n    else\n      break\n    end\n  end\n  cw.end\nend\n", c)
		default:
			fmt.Fprintf(&sb, "go\n  do\n    loop\n      r%d << ch.pop\n    end\n  catch Channel::ClosedError() as e\n  end\n  cw.end\nend\n", c)
		}
	}
	sb.WriteString("pw.wait\nch.close\ncw.wait\n")
	for c := 1; c <= nc; c++ {
		fmt.Fprintf(&sb, "for v in r%d\n  t \"c%d #{v}\"\nend\n", c, c)
	}
	sb.WriteString("do\n  ch << 1\n  t \"push ok\"\n" + catchErr)
	sb.WriteString("do\n  v := ch.pop\n  t \"pop #{v}\"\n" + catchErr)
	sb.WriteString("do\n  ch.close\n  t \"close ok\"\n" + catchErr)
	sb.WriteString("t \"len #{ch.length}\"\n")
	return &concProg{Name: "prodcons", Src: sb.String(), Params: map[string]int{"producers": np, "consumers": nc, "per_producer": k, "cap": cp, "style": style},
		Check: func(lines []string) string {
			got := map[int]int{}
			lastBy := map[string]int{}
			tailStart := -1
			for i, l := range lines {
				var c, v int
				if _, err := fmt.Sscanf(l, "c%d %d", &c, &v); err == nil {
					got[v]++
					key := fmt.Sprintf("%d/%d", c, v/100)
					if v <= lastBy[key] {
						return fmt.Sprintf("consumer %d received %d after %d: per-producer order broken", c, v, lastBy[key])
					}
					lastBy[key] = v
					continue
				}
				tailStart = i
				break
			}
			for p := 1; p <= np; p++ {
				for i := 1; i <= k; i++ {
					if got[p*100+i] != 1 {
						return fmt.Sprintf("value %d delivered %d times (pushed once)", p*100+i, got[p*100+i])
					}
				}
			}
			if len(got) != np*k {
				return fmt.Sprintf("%d distinct values delivered, %d pushed", len(got), np*k)
			}
			want := []string{errLine("Std::Channel::ClosedError", msgPush), errLine("Std::Channel::ClosedError", msgPop), errLine("Std::Channel::ClosedError", msgClose), "len 0"}
			if tailStart < 0 || strings.Join(lines[tailStart:], "\n") != strings.Join(want, "\n") {
				return fmt.Sprintf("closed, drained channel: expected %q", want)
			}
			return ""
		}}
}

func mutexCounter(threads, iters int, rw bool) *concProg {
	var sb strings.Builder
	sb.WriteString(elkPrelude)
	lock, unlock, ctor := "m.lock", "m.unlock", "Mutex()"
	if rw {
		ctor = "RWMutex()"
	}
	fmt.Fprintf(&sb, "m := %s\nwg := WaitGroup()\ncell := [0, 0, 0]\nwg.add(%d)\n", ctor, threads)
	for k := 0; k < threads; k++ {
		if rw && k == threads-1 {
			// a reader: under the read lock both cells must agree
			fmt.Fprintf(&sb, "go\n  fornum i := 0; i < %d; i = i + 1\n    m.read_lock\n    a := cell[0]\n    fornum j := 0; j < 20; j = j + 1\n    end\n    if a != cell[1]\n      cell[2] = cell[2] + 1\n    end\n    m.read_unlock\n  end\n  wg.end\nend\n", iters)
			continue
		}
		fmt.Fprintf(&sb, "go\n  fornum i := 0; i < %d; i = i + 1\n    %s\n    tmp := cell[0]\n    fornum j := 0; j < 20; j = j + 1\n    end\n    cell[0] = tmp + 1\n    cell[1] = tmp + 1\n    %s\n  end\n  wg.end\nend\n", iters, lock, unlock)
	}
	sb.WriteString("wg.wait\nt \"counter #{cell[0]} #{cell[1]} torn #{cell[2]}\"\n")
	writers := threads
	if rw {
		writers--
	}
	name := "mutex_counter"
	if rw {
		name = "rwmutex_counter"
	}
	return &concProg{Name: name, Src: sb.String(), Params: map[string]int{"threads": threads, "iters": iters},
		Check: func(lines []string) string {
			want := fmt.Sprintf("counter %d %d torn 0", writers*iters, writers*iters)
			if len(lines) != 1 || lines[0] != want {
				return fmt.Sprintf("expected [%s]: increments under the lock were lost or a reader saw a half-done update", want)
			}
			return ""
		}}
}

func onceProg(threads int) *concProg {
	var sb strings.Builder
	sb.WriteString(elkPrelude)
	fmt.Fprintf(&sb, "once := Once()\nwg := WaitGroup()\noc := [0, 0, 0]\nwg.add(%d)\n", threads)
	for k := 0; k < threads; k++ {
		sb.WriteString("go\n  once.call ->\n    oc[0] = oc[0] + 1\n    fornum j := 0; j < 3000; j = j + 1\n    end\n    oc[1] = 1\n  end\n  if oc[1] != 1\n    oc[2] = oc[2] + 1\n  end\n  wg.end\nend\n")
	}
	sb.WriteString("wg.wait\nonce.call ->\n  oc[0] = oc[0] + 1\nend\nt \"once runs #{oc[0]} early #{oc[2]}\"\n")
	return &concProg{Name: "once", Src: sb.String(), Params: map[string]int{"threads": threads},
		Check: func(lines []string) string {
			if len(lines) != 1 || lines[0] != "once runs 1 early 0" {
				return "expected [once runs 1 early 0]: the body ran more than once, or a caller returned before the body had finished"
			}
			return ""
		}}
}

func waitGroupProg(threads int, style int) *concProg {
	var sb strings.Builder
	sb.WriteString(elkPrelude)
	fmt.Fprintf(&sb, "wg := WaitGroup()\nslots := [0")
	for k := 1; k < threads; k++ {
		sb.WriteString(", 0")
	}
	sb.WriteString("]\n")
	if style%2 == 0 {
		fmt.Fprintf(&sb, "wg.add(%d)\n", threads)
	}
	for k := 0; k < threads; k++ {
		if style%2 == 1 {
			sb.WriteString("wg.start\n")
		}
		end := "wg.end"
		if style%3 == 2 {
			end = "wg.remove(1)"
		}
		fmt.Fprintf(&sb, "go\n  fornum j := 0; j < %d; j = j + 1\n  end\n  slots[%d] = 1\n  %s\nend\n", 500*(k+1), k, end)
	}
	sb.WriteString("wg.wait\nvar sum = 0\nfor s in slots\n  sum = sum + s\nend\nt \"done #{sum}\"\nwg.wait\nt \"again\"\n")
	return &concProg{Name: "waitgroup", Src: sb.String(), Params: map[string]int{"threads": threads, "style": style},
		Check: func(lines []string) string {
			if len(lines) != 2 || lines[0] != fmt.Sprintf("done %d", threads) || lines[1] != "again" {
				return fmt.Sprintf("expected [done %d, again]: wait returned before every worker had called end", threads)
			}
			return ""
		}}
}

func selectProg(k, cp int) *concProg {
	var sb strings.Builder
	sb.WriteString(elkPrelude)
	fmt.Fprintf(&sb, "c1 := Channel::[Int](%d)\nc2 := Channel::[Int](%d)\nwg := WaitGroup()\nvar got: ArrayList[Int] = []\nst := [0, 0, 0]\nwg.add(3)\n", cp, (cp+1)%3)
	fmt.Fprintf(&sb, "go\n  fornum i := 1; i <= %d; i = i + 1\n    c1 << 100 + i\n  end\n  c1.close\n  wg.end\nend\n", k)
	fmt.Fprintf(&sb, "go\n  fornum i := 1; i <= %d; i = i + 1\n    c2 << 200 + i\n  end\n  c2.close\n  wg.end\nend\n", k)
	sb.WriteString("go\n  while st[0] == 0 || st[1] == 0\n    select\n    case r := <<c1\n      if r.ok\n        got << r.unwrap\n      else\n        st[0] = 1\n      end\n    case r := <<c2\n      if r.ok\n        got << r.unwrap\n      else\n        st[1] = 1\n      end\n    end\n  end\n  wg.end\nend\n")
	sb.WriteString("wg.wait\nfor v in got\n  t \"g #{v}\"\nend\nselect\ncase r := <<c1\n  t \"closed ready #{r.ok}\"\nelse\n  t \"else\"\nend\n")
	return &concProg{Name: "select_consumer", NoChanLin: true, Src: sb.String(), Params: map[string]int{"per_producer": k, "cap": cp},
		Check: func(lines []string) string {
			last := map[int]int{}
			n := 0
			for _, l := range lines {
				var v int
				if _, err := fmt.Sscanf(l, "g %d", &v); err == nil {
					if v <= last[v/100] {
						return fmt.Sprintf("received %d after %d: order of one channel broken (or duplicate)", v, last[v/100])
					}
					last[v/100] = v
					n++
				}
			}
			if n != 2*k || last[1] != 100+k || last[2] != 200+k {
				return fmt.Sprintf("select consumer received %d values, expected %d", n, 2*k)
			}
			if lines[len(lines)-1] != "closed ready false" {
				return "a closed channel must be a ready receive case (not the else branch)"
			}
			return ""
		}}
}

// ---- traces -> ndjson for ChanLin / SyncTrace ------------------------------------------------------

func chanLinLines(evs []RecEvent) (lines []string, maxT, maxC int, n int) {
	caps := map[int]int{}
	for _, e := range evs {
		if strings.HasPrefix(e.Ev, "chan.") {
			caps[e.Obj] = e.Cap
			if e.Obj > maxC {
				maxC = e.Obj
			}
		}
	}
	if maxC == 0 {
		return nil, 0, 0, 0
	}
	cs := make([]string, maxC)
	for i := range cs {
		cs[i] = fmt.Sprint(caps[i+1])
	}
	lines = append(lines, fmt.Sprintf(`{"ev":"reset","t":0,"op":"","c":0,"v":0,"res":"","caps":[%s]}`, strings.Join(cs, ",")))
	tmap := map[int]int{}
	for _, e := range evs {
		if !strings.HasPrefix(e.Ev, "chan.") {
			continue
		}
		f := strings.Split(e.Ev, ".")
		op, ph := f[1], f[2]
		t, ok := tmap[e.G]
		if !ok {
			t = len(tmap) + 1
			tmap[e.G] = t
		}
		ev, res := "ret", ""
		switch ph {
		case "try":
			ev = "call"
		case "ok":
			res = "val"
			if op == "push" || op == "close" {
				res = "ok"
			}
		case "err":
			res = "err_" + op
		case "stop":
			res = "stop"
		}
		lines = append(lines, fmt.Sprintf(`{"ev":"%s","t":%d,"op":"%s","c":%d,"v":%d,"res":"%s","caps":[]}`, ev, t, op, e.Obj, e.V, res))
		n++
	}
	return lines, len(tmap), maxC, n
}

var syncTraceEvents = map[string]bool{"mutex.lock.ok": true, "mutex.unlock.try": true, "rw.lock.ok": true, "rw.unlock.try": true, "rw.rlock.ok": true,
	"rw.runlock.try": true, "wg.add.ok": true, "wg.start.ok": true, "wg.end.ok": true, "wg.remove.ok": true, "wg.wait.try": true, "wg.wait.ok": true,
	"once.body": true, "once.body.end": true, "once.call.ok": true, "once.call.try": true}

func syncTraceLines(evs []RecEvent) (lines []string, maxM int, n int) {
	lines = append(lines, `{"k":"reset","t":0,"m":1,"n":0}`)
	for _, e := range evs {
		if !syncTraceEvents[e.Ev] {
			continue
		}
		// objects are numbered per kind; SyncTrace keeps separate state per kind, so the numbers may coincide
		if e.Obj > maxM {
			maxM = e.Obj
		}
		lines = append(lines, fmt.Sprintf(`{"k":"%s","t":%d,"m":%d,"n":%d}`, e.Ev, e.G, e.Obj, e.V))
		n++
	}
	return lines, maxM, n
}

// validateTraces runs TLC on the concatenated traces; accepted iff POSTCONDITION Accepted holds.
// On rejection the traces are validated one by one to name the culprit.
func validateTraces(c *core.Ctx, module, file string, consts func(traces [][]string) string, traces [][]string, names []string) (rejected []int, err error) {
	runOne := func(sel []int) (bool, *tlc.Result, error) {
		var all []string
		var sub [][]string
		for _, i := range sel {
			all = append(all, traces[i]...)
			sub = append(sub, traces[i])
		}
		cfg := "CONSTANTS\n" + consts(sub) + "INIT Init\nNEXT Next\nCONSTRAINT HighWater\nPOSTCONDITION Accepted\nCHECK_DEADLOCK FALSE\n"
		dir := "Chan"
		if module == "SyncTrace" {
			dir = "Sync"
		}
		r, err := tlc.Run(tlc.Opts{SpecDir: specDir(dir), Module: module, Cfg: module + "_v.cfg", Scratch: c.Scratch, Workers: 1, Timeout: 10 * time.Minute,
			Extra: map[string][]byte{module + "_v.cfg": []byte(cfg), file: []byte(strings.Join(all, "\n") + "\n")}})
		if err != nil {
			return false, nil, err
		}
		switch {
		case r.Verdict == "ok":
			return true, r, nil
		case r.Verdict == "postcondition":
			return false, r, nil
		}
		return false, r, core.Inconclusivef("TLC trace validation (%s): %s %s\n%s", module, r.Verdict, r.What, tail(r.Output, 2000))
	}
	all := make([]int, len(traces))
	for i := range all {
		all[i] = i
	}
	ok, r, err := runOne(all)
	if err != nil {
		return nil, err
	}
	c.CovAdd("trace_validation_states", int(r.Distinct))
	if ok {
		return nil, nil
	}
	for i := range traces {
		ok, _, err := runOne([]int{i})
		if err != nil {
			return nil, err
		}
		if !ok {
			rejected = append(rejected, i)
		}
	}
	if len(rejected) == 0 {
		return nil, core.Inconclusivef("TLC rejects the concatenation of traces but accepts each of them (%s)", module)
	}
	return rejected, nil
}

// ---- the Elk level of the check --------------------------------------------------------------------

func runElkLevel(c *core.Ctx, pool *core.Pool, seqBehs []Behaviour) (int, error) {
	t0 := time.Now()
	// (a) sequential channel programs (select, closed-channel phases), generated by TLC
	sort.Slice(seqBehs, func(i, j int) bool { return seqScore(&seqBehs[i]) > seqScore(&seqBehs[j]) })
	nSeq := c.Pick(48, 400)
	if len(seqBehs) > nSeq {
		// the most interesting third by score, the rest sampled
		head := seqBehs[:nSeq/3]
		rest := seqBehs[nSeq/3:]
		pick := append([]Behaviour{}, head...)
		for _, i := range c.SampleIdx(len(rest), nSeq-len(head)) {
			pick = append(pick, rest[i])
		}
		seqBehs = pick
	}
	var progs []*seqProg
	for i := range seqBehs {
		progs = append(progs, emitChanSeq(&seqBehs[i], int(c.Seed)+i))
	}
	// (b) sequential misuse programs of the sync primitives, generated by TLC
	syncSeq, err := simulate(c, "Sync", syncInst{NThreads: 1, MaxOps: 5, Prims: `{"mutex", "rw", "wg"}`, Misuse: true, SingleWaiter: true, Variant: "good"}.cfg(true),
		c.Pick(400, 3000), c.Seed+5000, "", 5*time.Minute)
	if err != nil {
		return 0, err
	}
	seen := map[string]bool{}
	var syncProgs []*seqProg
	sort.Slice(syncSeq, func(i, j int) bool { return syncSeq[i].Key() < syncSeq[j].Key() })
	for i := range syncSeq {
		b := &syncSeq[i]
		blocked := false
		for _, e := range b.Hist {
			if e.R == "blocked" {
				blocked = true
			}
		}
		if blocked {
			continue
		}
		k := misuseKey(b)
		if b.HasMisuse() {
			// the interpreter does not survive the first misuse today: one program per distinct prefix
			if seen[k] {
				continue
			}
			seen[k] = true
		}
		syncProgs = append(syncProgs, emitSyncSeq(b))
	}
	maxSync := c.Pick(14, 80)
	if len(syncProgs) > maxSync {
		var pick []*seqProg
		for _, i := range c.SampleIdx(len(syncProgs), maxSync) {
			pick = append(pick, syncProgs[i])
		}
		syncProgs = pick
	}
	progs = append(progs, syncProgs...)

	// batches: safe programs share a file (one method each), risky ones run alone
	type batch struct {
		progs []*seqProg
		src   string
	}
	var batches []*batch
	mk := func(ps []*seqProg) *batch {
		var sb strings.Builder
		sb.WriteString(elkPrelude)
		for i, p := range ps {
			fmt.Fprintf(&sb, "def prog%d\n", i)
			for _, l := range strings.Split(strings.TrimRight(p.Body, "\n"), "\n") {
				sb.WriteString("  " + l + "\n")
			}
			sb.WriteString("end\n")
		}
		for i := range ps {
			fmt.Fprintf(&sb, "t \"BEGIN %d\"\nprog%d()\n", i, i)
		}
		return &batch{ps, sb.String()}
	}
	var safe []*seqProg
	for _, p := range progs {
		if p.Risky {
			batches = append(batches, mk([]*seqProg{p}))
		} else {
			safe = append(safe, p)
		}
	}
	const perFile = 8
	for i := 0; i < len(safe); i += perFile {
		j := i + perFile
		if j > len(safe) {
			j = len(safe)
		}
		batches = append(batches, mk(safe[i:j]))
	}
	jobs := make([]core.Job, len(batches))
	for i, b := range batches {
		jobs[i] = core.Job{Kind: "c25.elk", TimeoutMs: 180000, Payload: ElkJob{Src: b.src, RunMs: 60000}}
	}
	results := pool.Map(jobs, nil)
	okSeq, rejected := 0, 0
	for bi, jr := range results {
		b := batches[bi]
		if jr.Timeout {
			return 0, core.Inconclusivef("sequential Elk program timed out\n%s", b.src)
		}
		if jr.Err != "" {
			return 0, core.Inconclusivef("elk job failed: %s", jr.Err)
		}
		var er ElkResult
		if !jr.Crashed {
			if err := jr.Decode(&er); err != nil {
				return 0, err
			}
			if !er.Run.Accepted {
				return 0, core.Inconclusivef("generated sequential program rejected by the checker: %s\n%s", er.Run.Diags, b.src)
			}
		}
		if len(b.progs) == 1 {
			// strip the BEGIN line
			if er.Run != nil {
				er.Run.Stdout = strings.TrimPrefix(er.Run.Stdout, "BEGIN 0\n")
			}
			if compareSeq(c, b.progs[0], b.src, &er, &jr) {
				okSeq++
			}
			continue
		}
		if jr.Crashed || er.Run.GoPanic != "" || er.Run.Hung {
			rec := map[string]any{"kind": "go_crash", "source": b.src, "summary": "a batch of sequential Elk programs without risky steps crashed or hung: " + fatalLine(jr.CrashLog) + er.Run.GoPanic}
			if er.Run != nil {
				rec["stdout"] = er.Run.Stdout
			}
			c.Violation(rec)
			continue
		}
		parts := strings.Split(er.Run.Stdout, "BEGIN ")
		if len(parts) != len(b.progs)+1 {
			return 0, core.Inconclusivef("batch output has %d parts for %d programs\n%s", len(parts)-1, len(b.progs), er.Run.Stdout)
		}
		for pi, p := range b.progs {
			out := parts[pi+1]
			out = out[strings.IndexByte(out, '\n')+1:]
			one := ElkResult{Run: &elkrun.Result{Accepted: true, Stdout: out}}
			if pi == len(b.progs)-1 {
				one.Run.ErrClass, one.Run.ErrMsg = er.Run.ErrClass, er.Run.ErrMsg
			}
			if compareSeq(c, p, b.src, &one, &jr) {
				okSeq++
			}
		}
	}
	c.Cov("elk_sequential_programs", len(progs))
	c.Cov("elk_sequential_conform", okSeq)
	c.Logf("Elk level: %d sequential programs generated from TLC behaviours (%d channel/select, %d sync misuse), %d conform, %.0fs",
		len(progs), len(progs)-len(syncProgs), len(syncProgs), okSeq, time.Since(t0).Seconds())
	_ = rejected
	if okSeq == 0 {
		return 0, core.Inconclusivef("no sequential Elk program conformed (vacuous)")
	}

	// (c) concurrent programs with `go` threads: output laws + recorded hook traces validated by TLC
	t0 = time.Now()
	var cps []*concProg
	nConc := c.Pick(3, 14)
	for i := 0; i < nConc; i++ {
		cps = append(cps, prodCons(1+c.Rand.Intn(3), 1+c.Rand.Intn(2), 2+c.Rand.Intn(3), c.Rand.Intn(4), c.Rand.Intn(3)))
	}
	for i := 0; i < c.Pick(1, 4); i++ {
		cps = append(cps, mutexCounter(3, 2500+c.Rand.Intn(1000), false), mutexCounter(3, 1500+c.Rand.Intn(1000), true),
			onceProg(3+c.Rand.Intn(2)), waitGroupProg(2+c.Rand.Intn(3), c.Rand.Intn(6)), selectProg(3+c.Rand.Intn(4), c.Rand.Intn(3)))
	}
	jobs = jobs[:0]
	for _, p := range cps {
		jobs = append(jobs, core.Job{Kind: "c25.elk", TimeoutMs: 240000, Payload: ElkJob{Src: p.Src, Record: true, RunMs: 120000, MaxEv: 3000}})
	}
	results = pool.Map(jobs, nil)
	var chanTraces, syncTraces [][]string
	var chanNames, syncNames []string
	var chanIdx, syncIdx []int
	maxT, maxC, maxM := 1, 1, 1
	okConc, events := 0, 0
	for i, jr := range results {
		p := cps[i]
		rec := map[string]any{"program": p.Name, "params": p.Params, "source": p.Src}
		if jr.Timeout {
			return 0, core.Inconclusivef("concurrent Elk program %s timed out", p.Name)
		}
		if jr.Err != "" {
			return 0, core.Inconclusivef("elk job failed: %s", jr.Err)
		}
		if jr.Crashed {
			rec["kind"], rec["observed"] = "go_crash", fatalLine(jr.CrashLog)
			rec["summary"] = fmt.Sprintf("concurrent Elk program %s %v killed the interpreter: %s", p.Name, p.Params, fatalLine(jr.CrashLog))
			c.Violation(rec)
			continue
		}
		var er ElkResult
		if err := jr.Decode(&er); err != nil {
			return 0, err
		}
		if !er.Run.Accepted {
			return 0, core.Inconclusivef("generated concurrent program rejected by the checker: %s\n%s", er.Run.Diags, p.Src)
		}
		rec["stdout"] = er.Run.Stdout
		if er.Run.GoPanic != "" || er.Run.Hung || er.Run.ErrClass != "" {
			rec["kind"] = "go_crash"
			if er.Run.Hung {
				rec["kind"] = "blocked_where_enabled"
			}
			rec["observed"] = er.Run.Outcome() + " " + strings.SplitN(er.Run.GoPanic, "\n", 2)[0] + er.Run.ErrClass + " " + er.Run.ErrMsg
			rec["summary"] = fmt.Sprintf("concurrent Elk program %s %v: %s", p.Name, p.Params, rec["observed"])
			c.Violation(rec)
			continue
		}
		lines := strings.Split(strings.TrimRight(er.Run.Stdout, "\n"), "\n")
		if bad := p.Check(lines); bad != "" {
			rec["kind"] = "law_violated"
			rec["summary"] = fmt.Sprintf("concurrent Elk program %s %v: %s", p.Name, p.Params, bad)
			c.Violation(rec)
			continue
		}
		okConc++
		events += len(er.Events)
		if len(er.Events) == 0 {
			return 0, core.Inconclusivef("no hook events recorded for %s: hooks missing? (binding drift)", p.Name)
		}
		if cl, t, cc, n := chanLinLines(er.Events); n > 0 && !er.Truncated && !p.NoChanLin {
			chanTraces = append(chanTraces, cl)
			chanNames = append(chanNames, p.Name)
			chanIdx = append(chanIdx, i)
			if t > maxT {
				maxT = t
			}
			if cc > maxC {
				maxC = cc
			}
		}
		if sl, m, n := syncTraceLines(er.Events); n > 0 {
			syncTraces = append(syncTraces, sl)
			syncNames = append(syncNames, p.Name)
			syncIdx = append(syncIdx, i)
			if m > maxM {
				maxM = m
			}
		}
		if okConc%5 == 1 {
			c.Sample(map[string]any{"elk_program": p.Name, "params": p.Params, "hook_events": len(er.Events), "stdout_lines": len(lines)})
		}
	}
	validated := 0
	if len(chanTraces) > 0 {
		rej, err := validateTraces(c, "ChanLin", "chanlin.ndjson", func([][]string) string { return fmt.Sprintf(" MaxT = %d\n MaxC = %d\n", maxT, maxC) }, chanTraces, chanNames)
		if err != nil {
			return 0, err
		}
		for _, r := range rej {
			p := cps[chanIdx[r]]
			c.Violation(map[string]any{"kind": "trace_rejected", "program": p.Name, "params": p.Params, "source": p.Src, "trace": chanTraces[r],
				"summary": fmt.Sprintf("recorded channel history of %s %v has no linearization in ChanLin (a value lost, duplicated, reordered, or a wrong closed-channel result)", p.Name, p.Params)})
		}
		validated += len(chanTraces) - len(rej)
	}
	if len(syncTraces) > 0 {
		rej, err := validateTraces(c, "SyncTrace", "synctrace.ndjson", func([][]string) string { return fmt.Sprintf(" MaxM = %d\n MaxT = 1\n", maxM) }, syncTraces, syncNames)
		if err != nil {
			return 0, err
		}
		for _, r := range rej {
			p := cps[syncIdx[r]]
			c.Violation(map[string]any{"kind": "trace_rejected", "program": p.Name, "params": p.Params, "source": p.Src, "trace_len": len(syncTraces[r]),
				"summary": fmt.Sprintf("recorded lock/unlock events of %s %v are not a behaviour of SyncTrace (two holders at once, a release without a hold, Once body twice, ...)", p.Name, p.Params)})
		}
		validated += len(syncTraces) - len(rej)
	}
	c.Cov("elk_concurrent_programs", len(cps))
	c.Cov("elk_concurrent_conform", okConc)
	c.Cov("elk_hook_events_recorded", events)
	c.Cov("elk_traces_validated_by_tlc", validated)
	c.Logf("Elk level: %d concurrent programs, %d satisfy their laws, %d hook events, %d traces validated by TLC (ChanLin %d, SyncTrace %d), %.0fs",
		len(cps), okConc, events, validated, len(chanTraces), len(syncTraces), time.Since(t0).Seconds())
	if okConc == 0 && c.Violations() == 0 {
		return 0, core.Inconclusivef("no concurrent Elk program ran")
	}
	return okSeq + validated, nil
}

// seqScore prefers sequential behaviours that exercise select and closed channels.
func seqScore(b *Behaviour) int {
	s := 0
	for _, e := range b.Hist {
		if e.K == "select" {
			s += 2
		}
		if strings.HasPrefix(e.R, "err") || e.R == "stop" {
			s += 2
		}
		if e.K == "close" {
			s++
		}
	}
	return s
}
