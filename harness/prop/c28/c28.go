// Package c28: std headers and native implementations agree (spec/Types/StdConformance.tla for the
// static relation, spec/Types/TypesTrace.tla for results and thrown values of a std-call sweep).
package c28

import (
	"bytes"
	"encoding/json"
	"fmt"
	"os"
	"path/filepath"
	"sort"
	"strings"
	"time"

	"elkverif/internal/core"
	"elkverif/internal/tlc"
	"elkverif/prop/c02"
)

func init() {
	core.Register(&core.Check{ID: "C28", Level: "exploration", Run: run})
}

// proposals collects, for VERIF_C28_KNOWN_OUT (developer aid), one narrow known-finding line per
// reported record: the match is the kind plus every identifying field of the record.
var proposals []string

func report(c *core.Ctx, rec map[string]any, fields ...string) {
	if os.Getenv("VERIF_C28_KNOWN_OUT") != "" {
		match := map[string]any{"kind": rec["kind"]}
		id := fmt.Sprint(rec["kind"])
		for _, f := range fields {
			match[f] = rec[f]
			id += ":" + fmt.Sprint(rec[f])
		}
		b, _ := json.Marshal(map[string]any{"status": "known", "property": "C28", "id": id, "match": match, "what": rec["summary"]})
		proposals = append(proposals, string(b))
	}
	c.Violation(rec)
}

func run(c *core.Ctx) error {
	defer func() {
		if f := os.Getenv("VERIF_C28_KNOWN_OUT"); f != "" {
			sort.Strings(proposals)
			var b bytes.Buffer
			for _, p := range proposals {
				b.WriteString(p + "\n")
			}
			os.WriteFile(f, b.Bytes(), 0o644)
		}
	}()
	pool := c.NewPool(c.Workers)
	t0 := time.Now()
	sw, err := c02.RunStdSweep(c, pool, c.Pick(2, 4), c.Pick(3500, 0))
	if err != nil {
		return err
	}
	facts := sw.Facts
	c.Logf("facts: %d declared methods in %d namespaces; sweep: %d calls on %d receiver classes, %.1fs", len(facts.Decls), len(facts.Lattice), len(sw.Calls), len(sw.RecvByClass), time.Since(t0).Seconds())
	if f := os.Getenv("VERIF_C28_DUMP"); f != "" {
		b, _ := json.MarshalIndent(sw, "", " ")
		os.WriteFile(f, b, 0o644)
	}

	// ---- static relation: TLC over the extracted facts
	var nd bytes.Buffer
	for i := range facts.Decls {
		b, _ := json.Marshal(&facts.Decls[i])
		nd.Write(b)
		nd.WriteByte('\n')
	}
	type rej struct {
		Line int    `json:"line"`
		Why  string `json:"why"`
	}
	var rejected []rej
	res, err := tlc.Run(tlc.Opts{
		SpecDir: filepath.Join(core.VerifRoot, "spec", "Types"), Module: "StdConformance", Scratch: c.Scratch,
		Workers: 1, Timeout: 10 * time.Minute, Extra: map[string][]byte{"decls.ndjson": nd.Bytes()},
		OnGen: func(rec []byte) {
			var r rej
			if json.Unmarshal(rec, &r) == nil && r.Line > 0 {
				rejected = append(rejected, r)
			}
		},
	})
	if err != nil {
		return err
	}
	if !res.OK || int(res.Distinct) != len(facts.Decls)+1 {
		return core.Inconclusivef("StdConformance: TLC verdict %s %s (%d states for %d facts)\n%s", res.Verdict, res.What, res.Distinct, len(facts.Decls), res.Output)
	}
	c.Cov("declared_methods_checked_statically", len(facts.Decls))
	c.Cov("states", int(res.Distinct))
	c.Cov("transitions", int(res.Generated))
	for _, r := range rejected {
		d := &facts.Decls[r.Line-1]
		recv := "instance"
		if d.Singleton || d.NSKind == "module" {
			recv = "singleton"
		}
		report(c, map[string]any{"kind": "not_callable", "why": r.Why, "class": d.NS, "on": d.On, "method": d.Method, "receiver": recv, "decl": d,
			"summary": fmt.Sprintf("%s %s#%s (%s of %s): %s — declared %d parameters (%d optional), runtime found=%v %s parameters=%d optional=%d",
				d.NSKind, d.NS, d.Method, recv, d.On, r.Why, d.NParams, d.Opt, d.Found, d.RTKind, d.RTParams, d.RTOpt)}, "why", "class", "on", "method", "receiver")
	}
	c.Logf("StdConformance: %d facts, %d rejected", len(facts.Decls), len(rejected))

	// ---- dynamic relation: results and thrown values of the sweep
	pairs := c02.NewPairSet()
	type dyn struct {
		call    *c02.Call
		res     *c02.CallResult
		retLine int
		thrLine int
	}
	var dyns []*dyn
	stats := map[string]int{}
	seenPanic := map[string]bool{}
	methods := map[string]bool{}
	argcs := map[string]bool{}
	for i := range sw.Results {
		r := &sw.Results[i]
		call := &sw.Calls[i]
		switch {
		case !r.Accepted:
			stats["rejected_by_checker"]++
			continue
		case r.NoRun:
			stats["not_run"]++
			continue
		}
		d := &facts.Decls[call.Decl-1]
		x := &dyn{call: call, res: r}
		switch {
		case r.Panic != "" || r.Hung:
			stats["go_panic_or_hang"]++
			what := panicClass(r)
			key := "panic " + call.NS + "#" + call.Method + " " + what
			if !seenPanic[key] {
				seenPanic[key] = true
				report(c, map[string]any{"kind": "go_panic", "class": call.NS, "method": call.Method, "what": what, "call": call.Expr, "panic": r.Panic, "hung": r.Hung,
					"summary": fmt.Sprintf("%s: %s instead of a result or an Elk error: %.200s", call.Expr, what, r.Panic)}, "class", "method", "what")
			}
			continue
		case r.Ret != nil && r.Static != nil:
			stats["returned"]++
			x.retLine = pairs.Add("ret", r.Static.Type, r.Ret.V())
		case r.Thrown != nil:
			stats["threw"]++
			x.thrLine = pairs.Add("throw", d.Throws, r.Thrown.V())
		default:
			stats["no_observation"]++
			continue
		}
		methods[call.NS+"#"+call.Method] = true
		argcs[fmt.Sprintf("%s#%s/%d", call.NS, call.Method, call.Argc)] = true
		dyns = append(dyns, x)
		if len(dyns)%911 == 1 {
			c.Sample(map[string]any{"call": call.Expr, "declared": d.RetText + " ! " + d.ThrowText, "static_type": textOf(r), "returned": r.Ret, "thrown": r.Thrown})
		}
	}
	tr, err := c02.ValidateTrace(c, pairs, facts.Lattice)
	if err != nil {
		return err
	}
	c.CovAdd("states", int(tr.States))
	c.CovAdd("transitions", int(tr.States))
	seen := map[string]bool{}
	for _, x := range dyns {
		d := &facts.Decls[x.call.Decl-1]
		if x.retLine > 0 && tr.Rejected[x.retLine] {
			key := "ret " + x.call.NS + "#" + x.call.Method + " " + x.res.Ret.Class
			if !seen[key] {
				seen[key] = true
				report(c, map[string]any{"kind": "return_type_violated", "class": x.call.NS, "method": x.call.Method, "call": x.call.Expr,
					"declared_return_type": d.RetText, "static_type": x.res.Static.Text, "runtime_class": x.res.Ret.Class, "runtime_value": x.res.Ret.Tag,
					"summary": fmt.Sprintf("%s: %s#%s is declared to return `%s` (here `%s`) but returned a %s %s", x.call.Expr, x.call.NS, x.call.Method, d.RetText, x.res.Static.Text, x.res.Ret.Class, x.res.Ret.Tag)}, "class", "method", "runtime_class")
			}
		}
		if x.thrLine > 0 && tr.Rejected[x.thrLine] {
			key := "thr " + x.call.NS + "#" + x.call.Method + " " + x.res.Thrown.Class
			if !seen[key] {
				seen[key] = true
				report(c, map[string]any{"kind": "throw_type_violated", "class": x.call.NS, "method": x.call.Method, "call": x.call.Expr,
					"declared_throw_type": d.ThrowText, "thrown_class": x.res.Thrown.Class, "thrown_value": x.res.Thrown.Tag,
					"summary": fmt.Sprintf("%s: %s#%s declares `! %s` but threw a %s %s, which is neither covered nor an unchecked Std::Error", x.call.Expr, x.call.NS, x.call.Method, d.ThrowText, x.res.Thrown.Class, x.res.Thrown.Tag)}, "class", "method", "thrown_class")
			}
		}
	}
	c.Logf("sweep: %v; %d methods / %d (method, argument count) pairs observed; %d distinct (type, value) lines, %d rejected", stats, len(methods), len(argcs), len(pairs.Pairs), len(tr.Rejected))
	c.Cov("evaluations", len(dyns))
	c.Cov("distinct_nontrivial", len(methods))
	c.Cov("method_argcount_pairs_observed", len(argcs))
	c.Cov("calls_generated", len(sw.Calls))
	c.Cov("sweep_outcomes", stats)
	c.Cov("sweep_skipped_declarations", sw.Skipped)
	c.Cov("receiver_classes", sw.ReceiverClasses())
	c.Cov("distinct_type_value_pairs", len(pairs.Pairs))
	c.Cov("rule", "static: every declared non-abstract method is resolved by the runtime with the declared parameter / optional-parameter counts (StdConformance.tla over facts of the live environments); dynamic: every result is InstanceOf the call's static (instantiated declared) return type and every thrown value is InstanceOf the declared throw type or a Std::Error (TypesTrace.tla)")
	c.Assume("IO / file system / process / sleep / concurrency namespaces and the Std::Elk AST object model are excluded from the dynamic sweep (static relation still checked)")
	c.Assume("arguments come from a fixed pool; a call is in the domain only if the real checker accepts it")
	if len(dyns) < 300 || len(methods) < 100 {
		return core.Inconclusivef("sweep too small: %d observed calls of %d methods", len(dyns), len(methods))
	}
	return nil
}

// panicClass classifies a Go panic / hang of a call by its cause.
func panicClass(r *c02.CallResult) string {
	switch {
	case r.Hung && r.Panic == "":
		return "hang"
	case strings.Contains(r.Panic, "tried to call an invalid method: <nil>"):
		return "invalid method <nil>"
	case strings.Contains(r.Panic, "nil pointer dereference"):
		return "nil pointer dereference"
	case strings.Contains(r.Panic, "worker process died"):
		return "process died"
	case strings.Contains(r.Panic, "uncaught:"):
		return "error escaped catch"
	case strings.Contains(r.Panic, "interface conversion"):
		return "interface conversion"
	case strings.Contains(r.Panic, "index out of range"):
		return "index out of range"
	}
	return "go panic"
}

func textOf(r *c02.CallResult) string {
	if r.Static != nil {
		return r.Static.Text
	}
	return ""
}
