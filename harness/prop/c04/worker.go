package c04

import (
	"bufio"
	"encoding/json"
	"fmt"
	"os"
	"runtime/debug"
	"strconv"
	"strings"
	"unicode/utf8"

	"github.com/elk-language/elk/lexer"
	"github.com/elk-language/elk/token"
	"github.com/fatih/color"

	"elkverif/internal/core"
)

func init() {
	core.RegisterJob("c04trace", traceJob)
}

// traceJobIn: record the traces of Inputs (ids FirstID, FirstID+1, ...) into the ndjson file Out.
type traceJobIn struct {
	FirstID int      `json:"first_id"`
	Inputs  [][]byte `json:"inputs"`
	Out     string   `json:"out"`
}

type crash struct {
	ID    int    `json:"id"`
	Stage string `json:"stage"` // lexer.Next | Colorize | ColorizeEmbellishedText | runaway
	Msg   string `json:"msg"`
}

type traceJobOut struct {
	N       int     `json:"n"`
	Events  int     `json:"events"`
	Crashes []crash `json:"crashes,omitempty"`
}

func traceJob(raw json.RawMessage) (any, error) {
	var in traceJobIn
	if err := json.Unmarshal(raw, &in); err != nil {
		return nil, err
	}
	f, err := os.Create(in.Out)
	if err != nil {
		return nil, err
	}
	defer f.Close()
	w := bufio.NewWriterSize(f, 1<<20)
	defer w.Flush()
	out := &traceJobOut{}
	var sb strings.Builder
	for k, src := range in.Inputs {
		id := in.FirstID + k
		sb.Reset()
		n, cr := recordTrace(&sb, id, string(src))
		if cr != nil {
			out.Crashes = append(out.Crashes, *cr)
			continue
		}
		out.N++
		out.Events += n
		w.WriteString(sb.String())
		w.WriteByte('\n')
	}
	return out, nil
}

func guard(stage string, id int, f func()) (cr *crash) {
	defer func() {
		if r := recover(); r != nil {
			st := string(debug.Stack())
			if len(st) > 3000 {
				st = st[:3000]
			}
			cr = &crash{ID: id, Stage: stage, Msg: fmt.Sprintf("%v\n%s", r, st)}
		}
	}()
	f()
	return nil
}

func writeBytes(sb *strings.Builder, b string) {
	sb.WriteByte('[')
	for i := 0; i < len(b); i++ {
		if i > 0 {
			sb.WriteByte(',')
		}
		sb.WriteString(strconv.Itoa(int(b[i])))
	}
	sb.WriteByte(']')
}

// recordTrace writes the trace record of one source text: the token stream of lexer.New/Next and
// the outputs of Colorize and ColorizeEmbellishedText (with and without colour codes) cut into
// pieces. Returns the number of events.
func recordTrace(sb *strings.Builder, id int, src string) (int, *crash) {
	nchars := utf8.RuneCountInString(src) // invalid byte = one rune: cross-check of the spec's decoder
	fmt.Fprintf(sb, `{"id":%d,"nchars":%d,"bytes":`, id, nchars)
	writeBytes(sb, src)
	sb.WriteString(`,"ev":[`)
	n := 0
	limit := 2*len(src) + 8
	runaway := false
	if cr := guard("lexer.Next", id, func() {
		l := lexer.New(src)
		for {
			t := l.Next()
			sp := t.Span()
			if n > 0 {
				sb.WriteByte(',')
			}
			fmt.Fprintf(sb, `{"op":"tok","ty":%q,"s":%d,"e":%d,"sl":%d,"sc":%d,"el":%d,"ec":%d}`,
				t.Type.String(), sp.StartPos.ByteOffset, sp.EndPos.ByteOffset, sp.StartPos.Line, sp.StartPos.Column, sp.EndPos.Line, sp.EndPos.Column)
			n++
			if t.Type == token.END_OF_FILE {
				break
			}
			if n > limit {
				runaway = true
				break
			}
		}
	}); cr != nil {
		return 0, cr
	}
	if runaway {
		return 0, &crash{ID: id, Stage: "runaway", Msg: fmt.Sprintf("more than %d tokens for %d bytes without END_OF_FILE", limit, len(src))}
	}
	sb.WriteString(`,{"op":"endlex"}`)
	n++
	hasEsc := strings.IndexByte(src, 0x1b) >= 0
	for _, variant := range []struct {
		name   string
		f      func(string) string
		colour bool
	}{
		{"Colorize", lexer.Colorize, true}, {"Colorize", lexer.Colorize, false},
		{"ColorizeEmbellishedText", lexer.ColorizeEmbellishedText, true}, {"ColorizeEmbellishedText", lexer.ColorizeEmbellishedText, false},
	} {
		if variant.colour && hasEsc {
			// the source itself contains escape bytes: cutting the output at colour codes would be ambiguous
			continue
		}
		var res string
		color.NoColor = !variant.colour
		if cr := guard(variant.name, id, func() { res = variant.f(src) }); cr != nil {
			return 0, cr
		}
		fmt.Fprintf(sb, `,{"op":"cbeg","fn":%q,"colour":%v}`, variant.name, variant.colour)
		n++
		n += writeSegments(sb, res, variant.colour)
	}
	sb.WriteString("]}")
	return n, nil
}

// sgrLen returns the length of the SGR escape sequence at the start of s (0 if there is none).
func sgrLen(s string) int {
	if len(s) < 3 || s[0] != 0x1b || s[1] != '[' {
		return 0
	}
	for i := 2; i < len(s); i++ {
		c := s[i]
		if c == 'm' {
			return i + 1
		}
		if c != ';' && (c < '0' || c > '9') {
			return 0
		}
	}
	return 0
}

// writeSegments cuts a colourizer output into seg events (text, codes, text, codes) and the final
// fin event. The cut is only a witness: the specification decides whether the text pieces copy the
// source and the code pieces are colour codes.
func writeSegments(sb *strings.Builder, out string, colour bool) int {
	n := 0
	i := 0
	text := func() string {
		st := i
		for i < len(out) {
			if colour && out[i] == 0x1b && sgrLen(out[i:]) > 0 {
				break
			}
			i++
		}
		return out[st:i]
	}
	codes := func() string {
		st := i
		for i < len(out) {
			k := sgrLen(out[i:])
			if k == 0 {
				break
			}
			i += k
		}
		return out[st:i]
	}
	for {
		gap := text()
		if i >= len(out) {
			sb.WriteString(`,{"op":"fin","rest":`)
			writeBytes(sb, gap)
			sb.WriteString("}")
			return n + 1
		}
		pre := codes()
		lex := text()
		post := codes()
		sb.WriteString(`,{"op":"seg","gap":`)
		writeBytes(sb, gap)
		sb.WriteString(`,"pre":`)
		writeBytes(sb, pre)
		sb.WriteString(`,"lex":`)
		writeBytes(sb, lex)
		sb.WriteString(`,"post":`)
		writeBytes(sb, post)
		sb.WriteString("}")
		n++
	}
}
