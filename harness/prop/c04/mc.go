package c04

import (
	"time"

	"elkverif/internal/core"
	"elkverif/internal/tlc"
)

// modelCheck runs TLC on the specification itself (small instances, seconds).
func modelCheck(c *core.Ctx) error {
	res, err := tlc.Run(tlc.Opts{SpecDir: specDir(), Module: "MC_LexSpans", Cfg: "MC_LexSpans.cfg", Scratch: c.Scratch, Workers: c.Workers, Timeout: 5 * time.Minute})
	if err != nil {
		return err
	}
	if !res.OK {
		return core.Inconclusivef("TLC on LexSpans: verdict=%s %s\n%s", res.Verdict, res.What, tailStr(res.Output, 2000))
	}
	c.Logf("LexSpans (guards imply invariants): %d states, %d transitions, %.1fs", res.Distinct, res.Generated, res.WallS)
	c.CovAdd("states", int(res.Distinct))
	c.CovAdd("transitions", int(res.Generated))
	c.Cov("spec", "spec/LexSpans: LexSpans.tla (ground truth + property as action guards + named deviations), LexSpansTrace.tla (trace validation)")
	return nil
}
