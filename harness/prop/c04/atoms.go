package c04

import "unicode/utf8"

// Atom is one building block of the enumerated source texts. Chars is the number of characters the
// ground truth of spec/LexSpans assigns to it (hand-written, cross-checked against the bytes in
// checkAtoms so that the table cannot silently drift).
type Atom struct {
	Name  string
	Text  string
	Chars int
}

// Core atoms: every string over them up to the tier's length is lexed (bounded-exhaustive part).
// They are chosen so that short strings reach every lexer mode: string literal, ${ } and #{ }
// interpolation, invalid escapes, raw strings, char literals, regex literal + flags, word
// collections, comments and doc comments, multi-byte and invalid UTF-8, LF and CRLF.
var coreAtoms = []Atom{
	{"dq", `"`, 1}, {"sq", `'`, 1}, {"bt", "`", 1}, {"interp", "${", 2}, {"rbrace", "}", 1},
	{"inspect_interp", "#{", 2}, {"lf", "\n", 1}, {"crlf", "\r\n", 2}, {"bslash", `\`, 1},
	{"esc_x", `\x`, 2}, {"esc_u", `\u`, 2}, {"e_acute", "é", 1}, {"cjk", "日", 1},
	{"bad_ff", "\xff", 1}, {"word_tuple", "%w[", 3}, {"rbracket", "]", 1}, {"regex_beg", "%/", 2},
	{"slash", "/", 1}, {"colon", ":", 1}, {"a", "a", 1}, {"one", "1", 1}, {"space", " ", 1},
	{"hash", "#", 1}, {"doc_beg", "##[", 3},
}

// Extra atoms: used (together with the core atoms) for all strings up to length 2 and for the
// seeded longer strings.
var extraAtoms = []Atom{
	{"cr", "\r", 1}, {"tab", "\t", 1}, {"sym_tuple", "%s[", 3}, {"hex_tuple", "%x[", 3}, {"bin_tuple", "%b[", 3},
	{"word_list", `\w[`, 3}, {"sym_list", `\s[`, 3}, {"hex_list", `\x[`, 3}, {"bin_list", `\b[`, 3},
	{"word_set", "^w[", 3}, {"hex_set", "^x[", 3}, {"bin_set", "^b[", 3}, {"set_beg", "^[", 2},
	{"q_ident", `$"`, 2}, {"q_const", `§"`, 2}, {"q_ivar", `@"`, 2}, {"rq_ident", `$'`, 2}, {"rq_ivar", `@'`, 2},
	{"q_priv_const", `$$"`, 3}, {"raw_char", "r`", 2}, {"block_beg", "#[", 2}, {"block_end", "]#", 2},
	{"doc_end", "]##", 3}, {"c_block_beg", "/*", 2}, {"c_block_end", "*/", 2}, {"c_doc_beg", "/**", 3},
	{"c_doc_end", "**/", 3}, {"line_comment", "//", 2}, {"lparen", "(", 1}, {"rparen", ")", 1},
	{"lbrace", "{", 1}, {"lbracket", "[", 1}, {"dot", ".", 1}, {"dotdot", "..", 2}, {"safe_call", "?.", 2},
	{"exp", "1e", 2}, {"hex", "0x", 2}, {"underscore", "_", 1}, {"float", "1.5", 3}, {"i8", "i8", 2},
	{"bf", "bf", 2}, {"esc_U", `\U`, 2}, {"dollar", "$", 1}, {"at", "@", 1}, {"section", "§", 1},
	{"emoji", "😀", 1}, {"trunc3", "\xe6\x97", 2}, {"lone_lead", "\xc3", 1}, {"lone_cont", "\x80", 1},
	{"escape", "\x1b", 1}, {"nul", "\x00", 1}, {"bt2", "``", 2}, {"bt3", "```", 3}, {"percent", "%", 1},
	{"pipe", "|", 1}, {"comma", ",", 1}, {"const", "A", 1}, {"eq", "=", 1}, {"lt", "<", 1},
	{"minus", "-", 1}, {"plus", "+", 1}, {"bang", "!", 1}, {"question", "?", 1}, {"semicolon", ";", 1},
	{"e", "e", 1}, {"u", "u", 1}, {"x", "x", 1}, {"f", "f", 1}, {"zero", "0", 1}, {"n", "n", 1},
	{"sgr", "\x1b[31m", 5}, {"overlong", "\xc0\xaf", 2}, {"surrogate", "\xed\xa0\x80", 3},
}

// checkAtoms cross-checks the hand-written character counts against a UTF-8 decoding of the bytes
// (invalid byte = one character), and that no atom starts with a continuation byte unless it is
// the lone continuation atom (so that concatenation never merges two atoms into one character
// differently from what the table says).
func checkAtoms(as []Atom) string {
	for _, a := range as {
		n := 0
		for i := 0; i < len(a.Text); {
			_, w := utf8.DecodeRuneInString(a.Text[i:])
			i += w
			n++
		}
		if n != a.Chars {
			return "atom " + a.Name + ": character count of the table differs from its bytes"
		}
	}
	return ""
}

// CoreAtomTexts returns the spellings of the core atoms (also used as byte-level inputs by C03).
func CoreAtomTexts() []string {
	var out []string
	for _, a := range coreAtoms {
		out = append(out, a.Text)
	}
	return out
}
