// Package c04: lexing partitions the source faithfully; colouring never alters text.
//
// Trace validation against spec/LexSpans: the token stream of the real lexer.New/Next and the
// outputs of lexer.Colorize / lexer.ColorizeEmbellishedText are recorded for a bounded-exhaustive
// family of byte strings (all strings over the core atoms up to the tier's length, all strings over
// all atoms up to length 2, plus seeded longer strings) and every recorded event must be a step of
// the specification (LexSpansTrace.tla). TLC also model-checks the guards themselves (LexSpans) on a
// small instance.
package c04

import (
	"encoding/json"
	"fmt"
	"os"
	"path/filepath"
	"sort"
	"strings"
	"sync"
	"time"

	"elkverif/internal/core"
	"elkverif/internal/tlc"
)

func init() {
	core.Register(&core.Check{ID: "C04", Level: "model_checking", Run: run})
}

type input struct {
	atoms []int // indices into allAtoms
}

var allAtoms = append(append([]Atom{}, coreAtoms...), extraAtoms...)

func (in input) text() string {
	var sb strings.Builder
	for _, a := range in.atoms {
		sb.WriteString(allAtoms[a].Text)
	}
	return sb.String()
}

func (in input) names() []string {
	var out []string
	for _, a := range in.atoms {
		out = append(out, allAtoms[a].Name)
	}
	return out
}

// usedBy collects, during a validation pass with deviations enabled, the deviation branches TLC
// reports as taken for each accepted trace (by input id).
var usedBy map[int][]string

type verdict struct {
	Used  []string `json:"used"`
	ID    int    `json:"id"`
	OK    bool   `json:"ok"`
	At    int    `json:"at"`
	Why   string `json:"why"`
	Chars int    `json:"chars"`
}

func specDir() string { return filepath.Join(core.VerifRoot, "spec", "LexSpans") }

func run(c *core.Ctx) error {
	if msg := checkAtoms(allAtoms); msg != "" {
		return core.Inconclusivef("%s", msg)
	}
	// ---- 1. the specification itself: the guards imply the invariants
	if err := modelCheck(c); err != nil {
		return err
	}

	// ---- 2. the bounded instance of source texts
	var inputs []input
	nCore := len(coreAtoms)
	var rec func(prefix []int, n, k int)
	rec = func(prefix []int, n, k int) {
		if len(prefix) == k {
			inputs = append(inputs, input{append([]int{}, prefix...)})
			return
		}
		for a := 0; a < n; a++ {
			rec(append(prefix, a), n, k)
		}
	}
	maxCore := c.Pick(3, 4)
	for k := 0; k <= maxCore; k++ {
		rec(nil, nCore, k)
	}
	exhaustiveCore := len(inputs)
	// all strings up to length 2 over all atoms (those not already produced)
	for a := 0; a < len(allAtoms); a++ {
		if a >= nCore {
			inputs = append(inputs, input{[]int{a}})
		}
		for b := 0; b < len(allAtoms); b++ {
			if a >= nCore || b >= nCore {
				inputs = append(inputs, input{[]int{a, b}})
			}
		}
	}
	exhaustiveAll := len(inputs) - exhaustiveCore
	nRandom := c.Pick(4000, 60000)
	for k := 0; k < nRandom; k++ {
		n := 3 + c.Rand.Intn(8)
		as := make([]int, n)
		for j := range as {
			if c.Rand.Intn(3) == 0 {
				as[j] = c.Rand.Intn(len(allAtoms))
			} else {
				as[j] = c.Rand.Intn(nCore)
			}
		}
		inputs = append(inputs, input{as})
	}
	c.Logf("instance: %d source texts (%d exhaustive over %d core atoms to length %d, %d over all %d atoms to length 2, %d seeded of length 3..10)",
		len(inputs), exhaustiveCore, nCore, maxCore, exhaustiveAll, len(allAtoms), nRandom)
	c.Cov("instance", fmt.Sprintf("all strings over %d core atoms up to length %d; all strings over %d atoms up to length 2; %d seeded strings of 3..10 atoms", nCore, maxCore, len(allAtoms), nRandom))

	// ---- 3. record traces from the real code, validate them with TLC
	rejected, err := validate(c, inputs, idsOf(len(inputs)), nil, true)
	if err != nil {
		return err
	}
	c.Logf("first pass (the property as stated): %d traces rejected", len(rejected))

	// ---- 4. explain rejections by recorded deviations: re-validate the rejected traces with the
	// named deviation branches of the specification enabled
	devOf := map[int]string{}
	if devs := c.KnownDeviations(); len(devs) > 0 && len(rejected) > 0 {
		var todo []int
		for id, r := range rejected {
			if r.kind == "token" {
				todo = append(todo, id)
			}
		}
		sort.Ints(todo)
		usedBy = map[int][]string{}
		still, err := validate(c, inputs, todo, devs, false)
		if err != nil {
			return err
		}
		for _, id := range todo {
			if _, bad := still[id]; !bad && len(usedBy[id]) > 0 {
				devOf[id] = strings.Join(usedBy[id], "+")
			}
		}
		c.Logf("known deviations %v explain %d of %d rejected token streams", devs, len(devOf), len(todo))
	}
	ids := make([]int, 0, len(rejected))
	for id := range rejected {
		ids = append(ids, id)
	}
	sort.Ints(ids)
	for _, id := range ids {
		r := rejected[id]
		in := inputs[id-1]
		rec := map[string]any{
			"kind": r.kind, "why": r.why, "input": fmt.Sprintf("%q", in.text()), "atoms": in.names(),
			"event_index": r.at, "event": r.event, "stage": r.stage,
			"summary": fmt.Sprintf("%s: %s on source %q%s", r.kind, r.why, in.text(), r.eventText()),
		}
		if d := devOf[id]; d != "" {
			rec["deviation"] = d
		}
		if r.panicText != "" {
			rec["panic"] = r.panicText
		}
		c.Violation(rec)
	}
	c.Logf("traces=%d rejected=%d explained_by_known_deviation=%d violations=%d", len(inputs), len(rejected), len(devOf), c.Violations())
	return nil
}

func idsOf(n int) []int {
	out := make([]int, n)
	for i := range out {
		out[i] = i + 1
	}
	return out
}

type rejection struct {
	kind      string // token | colour | go_panic | runaway
	why       string
	at        int
	event     any
	stage     string
	panicText string
}

func (r *rejection) eventText() string {
	if r.event == nil {
		return ""
	}
	b, _ := json.Marshal(r.event)
	return " event " + string(b)
}

// validate records the traces of the inputs with the given ids (1-based) from the real code and
// validates them against LexSpansTrace with the given deviations. It returns the rejected ones.
func validate(c *core.Ctx, inputs []input, ids []int, deviations []string, count bool) (map[int]*rejection, error) {
	const shard = 12000
	type shardT struct {
		ids  []int
		file string
	}
	var shards []shardT
	var jobs []core.Job
	for i := 0; i < len(ids); i += shard {
		j := i + shard
		if j > len(ids) {
			j = len(ids)
		}
		f, err := os.CreateTemp(c.Scratch, "traces-*.ndjson")
		if err != nil {
			return nil, err
		}
		f.Close()
		shards = append(shards, shardT{ids[i:j], f.Name()})
	}
	// the trace ids inside a shard file are positions in the shard (the job numbers them from FirstID)
	for _, sh := range shards {
		var texts [][]byte
		for _, id := range sh.ids {
			texts = append(texts, []byte(inputs[id-1].text()))
		}
		jobs = append(jobs, core.Job{Kind: "c04trace", Payload: traceJobIn{FirstID: 0, Inputs: texts, Out: sh.file}, TimeoutMs: 180000})
	}
	pool := c.NewPool(c.Workers)
	t0 := time.Now()
	results := pool.Map(jobs, nil)
	rejected := map[int]*rejection{}
	totalEvents, recorded := 0, 0
	for si, jr := range results {
		if jr.Crashed || jr.Timeout || jr.Err != "" || jr.Panic != "" {
			// attribute: re-run the shard one text per job
			c.Logf("trace shard %d failed as a whole (crashed=%v timeout=%v err=%s); re-running its texts one by one", si, jr.Crashed, jr.Timeout, jr.Err+firstLine(jr.Panic))
			if err := attribute(c, pool, inputs, shards[si].ids, rejected); err != nil {
				return nil, err
			}
			os.WriteFile(shards[si].file, nil, 0o644)
			continue
		}
		var out traceJobOut
		if err := jr.Decode(&out); err != nil {
			return nil, core.Inconclusivef("bad trace job result: %v", err)
		}
		totalEvents += out.Events
		recorded += out.N
		for _, cr := range out.Crashes {
			id := shards[si].ids[cr.ID]
			kind := "go_panic"
			if cr.Stage == "runaway" {
				kind = "runaway"
			}
			rejected[id] = &rejection{kind: kind, why: firstLine(cr.Msg), stage: cr.Stage, panicText: cr.Msg}
		}
	}
	c.Logf("recorded %d traces (%d events) from the real lexer/colourizer in %.1fs", recorded, totalEvents, time.Since(t0).Seconds())

	// TLC: several shards in parallel
	var devs []string
	for _, d := range deviations {
		devs = append(devs, fmt.Sprintf("%q", d))
	}
	mc := fmt.Sprintf("---- MODULE MC_LexSpansTrace ----\nEXTENDS LexSpansTrace\nMCDeviations == {%s}\n====\n", strings.Join(devs, ", "))
	par := 4
	if par > len(shards) {
		par = len(shards)
	}
	if par == 0 {
		return rejected, nil
	}
	w := c.Workers / par
	if w < 2 {
		w = 2
	}
	var mu sync.Mutex
	var firstErr error
	sem := make(chan struct{}, par)
	var wg sync.WaitGroup
	var states, transitions int64
	accepted := 0
	t1 := time.Now()
	for si := range shards {
		wg.Add(1)
		sem <- struct{}{}
		go func(si int) {
			defer wg.Done()
			defer func() { <-sem }()
			sh := shards[si]
			data, err := os.ReadFile(sh.file)
			if err == nil && len(data) == 0 {
				return
			}
			fail := func(e error) {
				mu.Lock()
				if firstErr == nil {
					firstErr = e
				}
				mu.Unlock()
			}
			if err != nil {
				fail(err)
				return
			}
			// the events of the rejected traces are needed for the report
			verdicts := map[int]*verdict{}
			var perr error
			res, err := tlc.Run(tlc.Opts{
				SpecDir: specDir(), Module: "MC_LexSpansTrace", Cfg: "LexSpansTrace.cfg", Scratch: c.Scratch,
				Workers: w, Timeout: 20 * time.Minute, HeapMB: 4000,
				Extra: map[string][]byte{"traces.ndjson": data, "MC_LexSpansTrace.tla": []byte(mc)},
				OnGen: func(rec []byte) {
					var v verdict
					if e := json.Unmarshal(rec, &v); e != nil {
						perr = fmt.Errorf("bad verdict record %s: %v", rec, e)
						return
					}
					verdicts[v.ID] = &v
				},
			})
			if err != nil {
				fail(err)
				return
			}
			if perr != nil {
				fail(perr)
				return
			}
			if !res.OK {
				fail(core.Inconclusivef("TLC on LexSpansTrace: verdict=%s %s\n%s", res.Verdict, res.What, tailStr(res.Output, 2500)))
				return
			}
			lines := strings.Split(strings.TrimRight(string(data), "\n"), "\n")
			mu.Lock()
			defer mu.Unlock()
			states += res.Distinct
			transitions += res.Generated
			for _, line := range lines {
				var tr struct {
					ID     int               `json:"id"`
					NChars int               `json:"nchars"`
					Ev     []json.RawMessage `json:"ev"`
				}
				if e := json.Unmarshal([]byte(line), &tr); e != nil {
					firstErr = fmt.Errorf("bad trace line: %v", e)
					return
				}
				v := verdicts[tr.ID]
				if v == nil {
					firstErr = core.Inconclusivef("TLC gave no verdict for trace %d of shard %d", tr.ID, si)
					return
				}
				if v.Chars != tr.NChars {
					firstErr = core.Inconclusivef("the specification's UTF-8 decoder counts %d characters, Go's counts %d, for %q", v.Chars, tr.NChars, inputs[sh.ids[tr.ID]-1].text())
					return
				}
				if v.OK {
					accepted++
					if usedBy != nil && len(v.Used) > 0 {
						sort.Strings(v.Used)
						usedBy[sh.ids[tr.ID]] = v.Used
					}
					continue
				}
				var ev map[string]any
				if v.At >= 1 && v.At <= len(tr.Ev) {
					json.Unmarshal(tr.Ev[v.At-1], &ev)
				}
				kind := "colour"
				if ev["op"] == "tok" {
					kind = "token"
				}
				stage, _ := ev["fn"].(string)
				if kind == "colour" {
					// which colourizer call: the last cbeg before the event
					for k := v.At - 1; k >= 0 && k < len(tr.Ev); k-- {
						var e2 map[string]any
						json.Unmarshal(tr.Ev[k], &e2)
						if e2["op"] == "cbeg" {
							stage = fmt.Sprintf("%v colour=%v", e2["fn"], e2["colour"])
							break
						}
					}
				} else {
					stage = "lexer.Next"
				}
				rejected[sh.ids[tr.ID]] = &rejection{kind: kind, why: v.Why, at: v.At, event: ev, stage: stage}
			}
		}(si)
	}
	wg.Wait()
	if firstErr != nil {
		return nil, firstErr
	}
	c.Logf("TLC validated %d traces: %d states, %d transitions, %d accepted, %.1fs", recorded, states, transitions, accepted, time.Since(t1).Seconds())
	if count {
		c.CovAdd("states", int(states))
		c.CovAdd("transitions", int(transitions))
		c.CovAdd("traces_validated_against_impl", recorded)
		c.CovAdd("trace_events", totalEvents)
		c.CovAdd("traces_accepted", accepted)
		if recorded == 0 {
			return nil, core.Inconclusivef("no trace was recorded")
		}
		// samples
		for _, k := range []int{len(inputs) / 7, len(inputs) / 3, len(inputs) - 5} {
			if k >= 0 && k < len(inputs) {
				if _, bad := rejected[k+1]; !bad {
					c.Sample(map[string]any{"source": fmt.Sprintf("%q", inputs[k].text()), "atoms": inputs[k].names(), "verdict": "every token and colourizer event accepted by LexSpansTrace"})
				}
			}
		}
	}
	return rejected, nil
}

// attribute re-runs texts one per job after a whole shard died, so that the crash/hang is pinned
// to single texts.
func attribute(c *core.Ctx, pool *core.Pool, inputs []input, ids []int, rejected map[int]*rejection) error {
	var jobs []core.Job
	for _, id := range ids {
		jobs = append(jobs, core.Job{Kind: "c04trace", Payload: traceJobIn{FirstID: 0, Inputs: [][]byte{[]byte(inputs[id-1].text())}, Out: filepath.Join(c.Scratch, "single.ndjson")}, TimeoutMs: 10000})
	}
	found := 0
	for k, jr := range pool.Map(jobs, nil) {
		switch {
		case jr.Timeout:
			rejected[ids[k]] = &rejection{kind: "hang", why: "lexer or colourizer did not return within 10 s", stage: "lexer"}
			found++
		case jr.Crashed:
			rejected[ids[k]] = &rejection{kind: "go_panic", why: "worker process died", stage: "lexer", panicText: jr.CrashLog}
			found++
		}
	}
	if found == 0 {
		return core.Inconclusivef("a trace shard failed but no single text reproduces the failure")
	}
	return nil
}

func firstLine(s string) string {
	if i := strings.IndexByte(s, '\n'); i >= 0 {
		return s[:i]
	}
	return s
}

func tailStr(s string, n int) string {
	if len(s) <= n {
		return s
	}
	return s[len(s)-n:]
}
