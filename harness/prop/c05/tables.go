package c05

// Spellings of the model operators of spec/AstPrint (same order as Ops there): every spelling of
// the same grammar level / ExpressionPrecedence class.
var opSpellings = [][]string{
	{"=", "+=", "||=", "**="},
	{"||", "??", "|!"},
	{"&&", "&!"},
	{"|"},
	{"^"},
	{"&"},
	{"&~"},
	{"==", "!=", "===", "!==", "=~", "!~"},
	{"<", "<=", ">", ">=", "<:", ":>", "<<:", ":>>", "<=>"},
	{"<<", ">>", "<<<", ">>>"},
	{"+", "-"},
	{"*", "/", "%"},
	{"...", "..", "<..", "..<", "<.<"},
	{"as"},
	{"-", "!", "+", "~"},
	{"**"},
	{"++", "--"},
}

const hole = "□"

var exprTemplates = []string{
	"□", "-□", "!□", "~□", "□ + 1", "1 + □", "□ - 1", "□ * 2", "2 / □", "□ ** 2", "2 ** □", "□ && b", "b && □", "□ || b", "b || □",
	"□ ?? b", "x = □", "x += □", "x := □", "x ||= □", "□ as Foo", "□...5", "1...□", "□..5", "□...", "...□", "□.foo", "□.foo(1)", "□?.foo",
	"□.foo = 1", "foo(□)", "foo(1, □)", "foo(a: □)", "foo □", "□[0]", "x[□]", "□?[0]", "x[0] = □", "[□, 1]", "[1, □]", "%[□]", "^[□]",
	"{ a: □ }", "{ □ => 1 }", "{ 1 => □ }", "%{ a: □ }", "[1, 2]:□", "if □ then 1 end", "if true then □ end", "if a\n  □\nelse\n  2\nend",
	"if a\n  1\nelse\n  □\nend", "unless □ then 1 end", "while □\n  1\nend", "until □\n  1\nend", "loop\n  □\nend", "for i in □\n  1\nend",
	"fornum i := □; i < 2; i += 1\n  1\nend", "1 if □", "□ if b", "□ unless b", "□ while b", "□ until b", "□ for i in c", "1 if b else □", "□ if b else 2",
	"return □", "break □", "throw □", "must □", "try □", "await □", "typeof □", "go □", "yield □", "do\n  □\nend", "do\n  1\ncatch e\n  □\nend",
	"do\n  1\nfinally\n  □\nend", "switch □\ncase 1 then 2\nend", "switch 1\ncase 2 then □\nend", "switch 1\ncase 2 then 3\nelse □\nend",
	"|x| -> □", "-> □", "|x|\n  □\nend", "def foo then □", "def foo(a = □); end", "def foo\n  □\nend", "var x = □", "val x = □", "const X = □",
	"\"a ${□} b\"", "\"#{□}\"", "□ |> foo", "[*□]", "foo(*□)", "{ **□ }", "foo(**□)", "□ <=> 1", "□ <: Foo", "□ =~ b", "□ & 1", "1 & □", "□ | 1", "□ << 1", "□ >>> 1",
	"□ &~ 1", "□ ^ 1", "□++", "□ == 1", "1 == □", "□ < 1", "$l: □", "Foo(□)", "Foo::Bar.baz(□)", "new(□)", "□.()", "□.(1)", "%/a${□}/",
	"a = b = □", "□\n1", "1; □", "class Foo\n  □\nend", "module Foo\n  □\nend", "quote\n  □\nend", "quote_expr □", "unsafe □", "□ match 1", "foo(□) |x| x end",
	"foo() |x| □ end", "a.foo □", "[i for i in □]", "[□ for i in a]", "[i for i in a if □]", "{ a: 1 if □ }", "[1 if □]", "□ === 1", "□ =~ 1", "□ |> foo |> bar",
}

var exprFillers = []string{
	"a", "1", "1.5", "1i8", "1.5bf", "\"s\"", "'r'", ":sym", "`c`", "nil", "true", "self", "Foo", "Foo::Bar", "::Foo", "@iv", "_a", "-a", "!a", "~a", "-1", "a + b", "a - b",
	"a * b", "a / b", "a ** b", "a && b", "a || b", "a ?? b", "a = b", "a += b", "a := b", "a as Foo", "a...b", "a..b", "a <.. b", "...b", "a...", "a.foo", "a.foo(1)",
	"a?.foo", "a.foo = 1", "foo(1)", "foo 1", "foo()", "foo(a: 1)", "a[0]", "a?[0]", "a[0] = 1", "[1, 2]", "[]", "%[1]", "^[1]", "{ a: 1 }", "{}", "{ 1 => 2 }", "%{ a: 1 }", "[1]:2",
	"if a then 1 end", "if a then 1 else 2 end", "if a\n  1\nelsif b\n  2\nend", "unless a then 1 end", "while a\n  1\nend", "until a\n  1\nend", "loop\n  1\nend",
	"for i in a\n  1\nend", "1 if a", "1 unless a", "1 while a", "1 until a", "1 for i in a", "1 if a else 2", "return 1", "return", "break", "break 1", "continue",
	"throw :a", "throw unchecked :a", "must a", "try a", "await a", "typeof a", "go a", "yield 1", "do\n  1\nend", "do\n  1\ncatch e\n  2\nend", "do\n  1\nfinally\n  2\nend",
	"switch a\ncase 1 then 2\nend", "|x| -> x", "-> 1", "|x| -> x + 1", "|x: Int|: Int -> x", "||\n  1\nend", "\"a${b}c\"", "\"a#{b}\"", "\"$a\"", "a |> foo", "a <=> b", "a < b", "a == b",
	"a != b", "a === b", "a =~ b", "a <: Foo", "a & b", "a | b", "a << b", "a >>> b", "a &~ b", "a ^ b", "a++", "a--", "$l: a", "Foo(1)", "Foo::[Int](1)", "Foo()", "new(1)", "new", "a.()",
	"a.(1)", "%/re/i", "%/a${b}/", "\\w[a b]", "%s[a b]", "^x[ff]", "var x = 1", "var x: Int", "val y = 2", "const Z = 3", "a match 1", "def foo; end", "def foo(a: Int): Int then a",
	"class Foo; end", "module Bar; end", "a.b.c", "a.b.c(1).d", "a &&= b", "a ??= b", "foo!()", "a.foo!(1)", "foo!", "a.foo", "quote_expr a + b", "quote\n  1\nend", "unsafe a", "type Int | String",
	"a, b = c", "[a, b] := c", "foo() |x| x end", "foo(1) do |x| x end", "a.foo |x| x end", "[i for i in a]", "{ a: 1 if b }", "[1 if a]", "[*a]", "foo(*a)", "foo(**a)", "a::foo", "Foo::bar", "a.Foo",
	"super", "super(1)", "self.foo", "undefined", "1u64", "0xff", "1e3", "1_000", "breakpoint", "include Foo", "implement Foo", "alias a b", "typedef T = Int", "getter foo: Int", "sig foo",
	"$_foo", "$Foo", "$\"a b\"", "def $_foo; end", "$_foo + 1",
	"init; end", "struct Foo; end", "interface Foo; end", "mixin Foo; end", "singleton\n  1\nend", "using Foo", "enum Foo; end", "extend where T < Int\n  1\nend", "macro m; end", "async def f; end",
}

var typeTemplates = []string{
	"var x: □", "var x: □?", "var x: □ | Int", "var x: Int | □", "var x: □ & Foo", "var x: Foo & □", "var x: Foo / □", "var x: □ / Foo", "var x: ~□", "var x: &□", "var x: ^□",
	"var x: %□", "var x: *□", "var x: List[□]", "var x: Map[Int, □]", "def foo(a: □); end", "def foo: □; end", "def foo! □; end", "var x: |a: □|: Int", "var x: ||: □", "var x: ||! □",
	"typedef T = □", "type □", "class Foo[T < □]; end", "def foo[T > □]; end", "sig foo(a: □): □", "getter foo: □", "const X: □ = 1", "val x: □ = 1", "|a: □| -> a", "x as Foo; var y: □",
	"struct Foo\n  a: □\nend", "def foo(*a: □); end", "var x: -□", "var x: +□",
}

var typeFillers = []string{
	"Int", "Foo::Bar", "::Foo", "Int?", "Int | String", "Int & Foo", "Foo / Bar", "~Foo", "&Foo", "^Foo", "%Foo", "List[Int]", "Map[Int, String]", "|a: Int|: String", "||: Int", "|a|",
	"nil", "any", "never", "void", "1", "\"s\"", ":sym", "`c`", "-1", "1.5", "self", "true", "false", "bool", "Int | String | Float", "Int & Foo & Bar", "(Int | String)?", "Int? | String",
	"~Foo & Bar", "|a: Int| ! Err: Int", "1i8", "'r'", "List[Int?]", "Foo::Bar[Int]", "unquote_type(a)", "!{a}", "typeof a", "*Foo", "-1.5", "+2", "untyped", "nothing",
}

var patternTemplates = []string{
	"switch x\ncase □ then 1\nend", "switch x\ncase [□, a] then 1\nend", "switch x\ncase [a, *b, □] then 1\nend", "switch x\ncase □ || 1 then 1\nend", "switch x\ncase 1 || □ then 1\nend",
	"switch x\ncase □ && 2 then 1\nend", "switch x\ncase 1 && □ then 1\nend", "switch x\ncase { a: □ } then 1\nend", "switch x\ncase %{ a: □ } then 1\nend", "switch x\ncase Foo(a: □) then 1\nend",
	"switch x\ncase %[□] then 1\nend", "switch x\ncase ^[□] then 1\nend", "switch x\ncase □ as b then 1\nend", "val [□, q] = x", "for □ in y\n  1\nend", "do\n  1\ncatch □\n  2\nend",
	"x match □", "switch x\ncase { \"k\" => □ } then 1\nend", "switch x\ncase 1, □ then 1\nend", "pattern □",
}

var patternFillers = []string{
	"1", "a", "_", "\"s\"", "'r'", ":s", "`c`", "nil", "true", "> 1", "<= 2", "== a", "!= 1", "=~ %/a/", "1...5", "...5", "1..", "[a, b]", "[a, *b]", "[*a, b]", "[]", "%[a]", "{ a: 1 }", "{ a }",
	"{ a, b: 2 }", "%{ a: 1 }", "Foo", "Foo()", "Foo(a: 1)", "Foo(a, b: 2)", "Foo::Bar", "::Foo", "1 || 2", "1 && 2", "1 || 2 && 3", "a as b", "-1", "+1", "1.5", "%/re/", "^[1]", "^[1, 2]",
	"< 5 && > 1", "1i8", "\\w[a b]", "%s[a b]", "\"a${b}\"", "=== 1", "<: Foo", "Foo | Bar", "nil || 1", "[1, [2, 3]]", "{ a: [1, b] }", "unquote_pattern(a)", "!{a}", "[a, b] as c",
}
