// Package c05: printing a syntax tree and reparsing it gives the same tree.
//
// spec/AstPrint is a model of Elk's operator grammar with a printer and a parser; TLC checks the
// round-trip theorem on it, hands every tree of the instance to this adapter, and predicts for each
// the named deviations of parser/ast's parenthesisation rule that break it. spec/AstSlots
// enumerates (parent form, slot, child form) nestings of the other node kinds. Binding: each tree is
// spelled as (fully parenthesised) Elk text, the REAL parser builds the tree t, t.String() is
// reparsed to t2: no diagnostics, and t, t2 structurally identical modulo locations (go-cmp).
package c05

import (
	"encoding/json"
	"fmt"
	"os"
	"regexp"
	"path/filepath"
	"sort"
	"strings"
	"time"

	"elkverif/internal/core"
	"elkverif/internal/tlc"
)

func init() {
	core.Register(&core.Check{ID: "C05", Level: "model_checking", Run: run})
}

func specDir() string { return filepath.Join(core.VerifRoot, "spec", "AstPrint") }

type mtree struct {
	K string `json:"k"`
	O int    `json:"o,omitempty"`
	L *mtree `json:"l,omitempty"`
	R *mtree `json:"r,omitempty"`
}

// fixities of the model operators (same order as Ops in AstPrint.tla)
var fix = []string{"assign", "binl", "binl", "binl", "binl", "binl", "binl", "binl", "binl", "binl", "binl", "binl", "range", "as", "pre", "binr", "post"}

// spell writes the tree as fully parenthesised Elk text; variant selects the spelling of each operator class.
func (t *mtree) spell(variant int) string {
	if t.K == "leaf" {
		return "a"
	}
	sp := opSpellings[t.O-1]
	s := sp[variant%len(sp)]
	switch fix[t.O-1] {
	case "pre":
		return "(" + s + "(" + t.R.spell(variant) + "))"
	case "post":
		return "((" + t.R.spell(variant) + ")" + s + ")"
	case "as":
		return "((" + t.R.spell(variant) + ") as Foo)"
	case "assign":
		return "(a " + s + " (" + t.R.spell(variant) + "))"
	default:
		return "((" + t.L.spell(variant) + ") " + s + " (" + t.R.spell(variant) + "))"
	}
}

func (t *mtree) shape() string {
	if t.K == "leaf" {
		return "a"
	}
	s := opSpellings[t.O-1][0]
	switch fix[t.O-1] {
	case "pre":
		return s + "(" + t.R.shape() + ")"
	case "post":
		return "(" + t.R.shape() + ")" + s
	case "as":
		return "(" + t.R.shape() + ") as T"
	case "assign":
		return "a " + s + " (" + t.R.shape() + ")"
	}
	return "(" + t.L.shape() + ") " + s + " (" + t.R.shape() + ")"
}

type caseT struct {
	sort    string   // slots: sort
	tpls    []string // slots: templates, outermost first
	filler  string   // slots: filler text
	paren   bool     // slots: hole parenthesised
	signs   bool     // operators: some prefix operator is spelled - or + in this variant
	route   string // operators | slots
	text    string
	desc    map[string]any
	breaks  []string // deviations under which the model predicts a broken round trip
	variant int
}

type genTree struct {
	Tree   *mtree   `json:"tree"`
	Text   []string `json:"text"`
	Breaks []string `json:"breaks"`
}

func run(c *core.Ctx) error {
	var cases []*caseT
	addTree := func(g *genTree, variants int, note string) {
		for v := 0; v < variants; v++ {
			pre := opSpellings[14][v%len(opSpellings[14])]
			cases = append(cases, &caseT{route: "operators", text: g.Tree.spell(v) + "\n", breaks: refine(g.Breaks, pre == "-" || pre == "+"), variant: v,
				desc: map[string]any{"model_tree": g.Tree.shape(), "reference_print": strings.Join(g.Text, " "), "spelling_variant": v, "note": note}})
		}
	}
	variants := c.Pick(2, 9)

	// ---- 1. the theorem on the model + all trees of depth <= 2
	t0 := time.Now()
	var perr error
	n1 := 0
	res, err := tlc.Run(tlc.Opts{SpecDir: specDir(), Module: "MC_AstPrint", Cfg: "AstPrint.cfg", Scratch: c.Scratch, Workers: c.Workers, Timeout: 15 * time.Minute,
		OnGen: func(rec []byte) {
			var g genTree
			if e := json.Unmarshal(rec, &g); e != nil {
				perr = fmt.Errorf("bad GEN record %s: %v", rec, e)
				return
			}
			n1++
			addTree(&g, variants, "exhaustive depth 2")
		}})
	if err != nil {
		return err
	}
	if perr != nil {
		return perr
	}
	if !res.OK {
		return core.Inconclusivef("TLC on AstPrint (round-trip theorem of the reference printer): verdict=%s %s\n%s", res.Verdict, res.What, tail(res.Output, 2500))
	}
	c.CovAdd("states", int(res.Distinct))
	c.CovAdd("transitions", int(res.Generated))
	c.Logf("AstPrint: Parse(Show(t)) = t holds for all %d trees of depth <= 2 (%d states, %.1fs)", n1, res.Distinct, time.Since(t0).Seconds())

	// ---- 2. seeded deeper trees, judged by the same specification
	nDeep := c.Pick(1200, 8000)
	var nd strings.Builder
	var rnd func(d int) *mtree
	rnd = func(d int) *mtree {
		if d == 0 || c.Rand.Intn(5) == 0 {
			return &mtree{K: "leaf"}
		}
		o := 1 + c.Rand.Intn(len(fix))
		t := &mtree{K: "node", O: o, L: &mtree{K: "leaf"}, R: rnd(d - 1)}
		switch fix[o-1] {
		case "binl", "binr", "range":
			t.L = rnd(d - 1)
		}
		return t
	}
	seenDeep := map[string]bool{}
	for k := 0; k < nDeep; k++ {
		t := rnd(3 + c.Rand.Intn(2))
		b, _ := json.Marshal(t)
		if seenDeep[string(b)] {
			continue
		}
		seenDeep[string(b)] = true
		nd.Write(b)
		nd.WriteByte('\n')
	}
	// leaves need both fields for TLC's record comparison: normalise below
	given := normaliseLeaves(nd.String())
	t0 = time.Now()
	n2 := 0
	for _, shard := range shardLines(given, 4000) {
		res, err = tlc.Run(tlc.Opts{SpecDir: specDir(), Module: "MC_AstPrint", Cfg: "AstPrintGiven.cfg", Scratch: c.Scratch, Workers: c.Workers, Timeout: 15 * time.Minute,
			Extra: map[string][]byte{"trees.ndjson": []byte(shard)},
			OnGen: func(rec []byte) {
				var g genTree
				if e := json.Unmarshal(rec, &g); e != nil {
					perr = fmt.Errorf("bad GEN record %s: %v", rec, e)
					return
				}
				n2++
				addTree(&g, 1+c.Pick(0, 2), "seeded depth 3..4")
			}})
		if err != nil {
			return err
		}
		if perr != nil {
			return perr
		}
		if !res.OK {
			return core.Inconclusivef("TLC on AstPrint (given trees): verdict=%s %s\n%s", res.Verdict, res.What, tail(res.Output, 2500))
		}
		c.CovAdd("states", int(res.Distinct))
		c.CovAdd("transitions", int(res.Generated))
	}
	c.Logf("AstPrint: theorem holds for %d seeded trees of depth 3..4 (%.1fs)", n2, time.Since(t0).Seconds())

	// ---- 3. thorough: the rule of parser/ast must break the theorem in the model (otherwise the
	// deviation branches are dead and the predictions vacuous)
	if c.Thorough() {
		res, err = tlc.Run(tlc.Opts{SpecDir: specDir(), Module: "MC_AstPrint", Cfg: "AstPrintAstGo.cfg", Scratch: c.Scratch, Workers: c.Workers, Timeout: 15 * time.Minute})
		if err != nil {
			return err
		}
		if res.Verdict != "invariant" {
			return core.Inconclusivef("AstPrintAstGo.cfg was expected to violate RoundTrip, got verdict=%s", res.Verdict)
		}
	}

	// ---- 4. the other node kinds: (template, slot, filler) nestings enumerated by AstSlots
	sorts := []struct {
		name      string
		templates []string
		fillers   []string
	}{{"expr", exprTemplates, exprFillers}, {"type", typeTemplates, typeFillers}, {"pattern", patternTemplates, patternFillers}}
	var sortDefs []string
	byName := map[string]int{}
	for i, s := range sorts {
		byName[s.name] = i
		sortDefs = append(sortDefs, fmt.Sprintf("[name |-> %q, nt |-> %d, nf |-> %d]", s.name, len(s.templates), len(s.fillers)))
	}
	maxDepth := 1
	mc := fmt.Sprintf("---- MODULE MC_AstSlots ----\nEXTENDS AstSlots\nMCSorts == <<%s>>\nMCMaxDepth == %d\n====\n", strings.Join(sortDefs, ", "), maxDepth)
	type nestT struct {
		Sort   string `json:"sort"`
		Chain  []int  `json:"chain"`
		Filler int    `json:"filler"`
	}
	addNest := func(n *nestT, note string) {
		s := sorts[byName[n.Sort]]
		for _, paren := range []bool{false, true} {
			txt := s.fillers[n.Filler-1]
			var names []string
			for i := len(n.Chain) - 1; i >= 0; i-- {
				tpl := s.templates[n.Chain[i]-1]
				names = append([]string{tpl}, names...)
				if paren {
					txt = "(" + txt + ")"
				}
				txt = strings.Replace(tpl, hole, txt, 1)
			}
			cases = append(cases, &caseT{route: "slots", text: txt + "\n", sort: n.Sort, tpls: names, filler: s.fillers[n.Filler-1], paren: paren,
				desc: map[string]any{"sort": n.Sort, "templates": names, "filler": s.fillers[n.Filler-1], "hole_parenthesised": paren, "note": note}})
		}
	}
	t0 = time.Now()
	n3 := 0
	res, err = tlc.Run(tlc.Opts{SpecDir: specDir(), Module: "MC_AstSlots", Cfg: "AstSlots.cfg", Scratch: c.Scratch, Workers: c.Workers, Timeout: 20 * time.Minute,
		Extra: map[string][]byte{"MC_AstSlots.tla": []byte(mc)},
		OnGen: func(rec []byte) {
			var n nestT
			if e := json.Unmarshal(rec, &n); e != nil {
				perr = fmt.Errorf("bad GEN record %s: %v", rec, e)
				return
			}
			n3++
			addNest(&n, "exhaustive")
		}})
	if err != nil {
		return err
	}
	if perr != nil {
		return perr
	}
	if !res.OK {
		return core.Inconclusivef("TLC on AstSlots: verdict=%s %s\n%s", res.Verdict, res.What, tail(res.Output, 2500))
	}
	c.CovAdd("states", int(res.Distinct))
	c.CovAdd("transitions", int(res.Generated))
	c.Logf("AstSlots: %d nestings to depth %d (%.1fs)", n3, maxDepth, time.Since(t0).Seconds())
	{
		for k := 0; k < c.Pick(12000, 60000); k++ {
			s := sorts[0]
			if k%6 == 4 {
				s = sorts[1]
			} else if k%6 == 5 {
				s = sorts[2]
			}
			addNest(&nestT{Sort: s.name, Chain: []int{1 + c.Rand.Intn(len(s.templates)), 1 + c.Rand.Intn(len(s.templates))}, Filler: 1 + c.Rand.Intn(len(s.fillers))}, "seeded depth 2")
		}
	}
	c.Cov("instance", fmt.Sprintf("operator trees: all %d of depth <= 2 over %d operator classes x %d spelling variants, %d seeded of depth 3..4; slot nestings: %d (expr %dx%d, type %dx%d, pattern %dx%d templates x fillers, depth %d, bare and parenthesised hole)",
		n1, len(fix), variants, n2, n3, len(exprTemplates), len(exprFillers), len(typeTemplates), len(typeFillers), len(patternTemplates), len(patternFillers), maxDepth))

	// ---- 5. replay into the real parser / printer
	// distinct texts only
	seen := map[string]bool{}
	var uniq []*caseT
	for _, cs := range cases {
		if !seen[cs.text] {
			seen[cs.text] = true
			uniq = append(uniq, cs)
		}
	}
	pool := c.NewPool(c.Workers)
	const batch = 1500
	var jobs []core.Job
	for i := 0; i < len(uniq); i += batch {
		j := i + batch
		if j > len(uniq) {
			j = len(uniq)
		}
		var texts []string
		for _, cs := range uniq[i:j] {
			texts = append(texts, cs.text)
		}
		jobs = append(jobs, core.Job{Kind: "c05batch", Payload: batchIn{Texts: texts}, TimeoutMs: 300000})
	}
	t0 = time.Now()
	results := pool.Map(jobs, nil)
	counts := map[string]int{}
	compared := map[string]int{}
	predictedButFine := 0
	type viol struct {
		cs *caseT
		o  outcome
	}
	var viols []viol
	for bi, jr := range results {
		if jr.Crashed || jr.Timeout || jr.Err != "" || jr.Panic != "" {
			return core.Inconclusivef("round-trip worker failed on batch %d: crashed=%v timeout=%v %s %s\n%s", bi, jr.Crashed, jr.Timeout, jr.Err, firstLine(jr.Panic), tail(jr.CrashLog, 1500))
		}
		var out batchOut
		if err := jr.Decode(&out); err != nil {
			return core.Inconclusivef("bad batch result: %v", err)
		}
		for k, o := range out.Outcomes {
			cs := uniq[bi*batch+k]
			counts[cs.route+":"+o.Kind]++
			switch o.Kind {
			case "ok":
				compared[cs.route]++
				if len(cs.breaks) > 0 {
					predictedButFine++
				}
				if compared[cs.route]%2503 == 1 {
					c.Sample(map[string]any{"route": cs.route, "source": cs.text, "case": cs.desc, "verdict": "printed, reparsed, identical tree"})
				}
			case "out_of_domain":
			default:
				compared[cs.route]++
				viols = append(viols, viol{cs, o})
			}
		}
	}
	c.Logf("real parser/printer: %d distinct texts in %.1fs: %v", len(uniq), time.Since(t0).Seconds(), counts)
	if dump := os.Getenv("VERIF_C05_DUMP"); dump != "" {
		var sb strings.Builder
		for _, v := range viols {
			b, _ := json.Marshal(map[string]any{"route": v.cs.route, "kind": v.o.Kind, "text": v.cs.text, "printed": v.o.Printed, "root": v.o.Root, "desc": v.cs.desc, "detail": firstLine(v.o.Detail), "site": panicSite(v.o.Detail), "breaks": v.cs.breaks})
			sb.Write(b)
			sb.WriteByte('\n')
		}
		os.WriteFile(dump, []byte(sb.String()), 0o644)
	}
	// ---- 6. causes. operators route: the deviation(s) the model predicts for the tree. slots route:
	// (kind, parent template, child form) of the SMALLEST failing nesting, looked up in the list of
	// recorded printer defects known/C05-causes.tsv
	recorded, err := loadCauses()
	if err != nil {
		return err
	}
	outcomeOf := map[string]*outcome{}
	for bi, jr := range results {
		var out batchOut
		jr.Decode(&out)
		for k := range out.Outcomes {
			outcomeOf[uniq[bi*batch+k].text] = &out.Outcomes[k]
		}
	}
	causeOf := func(cs *caseT, o *outcome) string {
		if o.Kind == "go_panic" {
			return "go_panic in " + o.Site
		}
		fillerForm := func(sortName, filler string, paren bool) string {
			// the child form: root node type of the filler printed alone (expressions), else its text
			if sortName == "expr" {
				if fo := outcomeOf[filler+"\n"]; fo != nil && fo.Root != "" {
					return fo.Root
				}
			}
			return "`" + filler + "`"
		}
		tpls, child := cs.tpls, cs.filler
		form := fillerForm(cs.sort, cs.filler, cs.paren)
		// descend while the inner nesting alone already fails
		for len(tpls) > 1 {
			inner := child
			for i := len(tpls) - 1; i >= 1; i-- {
				if cs.paren {
					inner = "(" + inner + ")"
				}
				inner = strings.Replace(tpls[i], hole, inner, 1)
			}
			io := outcomeOf[inner+"\n"]
			if io != nil && io.Kind != "ok" && io.Kind != "out_of_domain" {
				tpls = tpls[1:]
				continue
			}
			if io != nil && io.Root != "" {
				form = io.Root
			} else {
				form = "`" + inner + "`"
			}
			tpls = tpls[:1]
		}
		return fmt.Sprintf("%s: %s in `%s`", o.Kind, form, strings.ReplaceAll(tpls[0], "\n", "\\n"))
	}
	groups := map[string][]viol{}
	var order []string
	for _, v := range viols {
		key := ""
		if v.cs.route == "operators" {
			key = "operators|" + v.o.Kind + "|" + strings.Join(v.cs.breaks, "+")
		} else {
			key = "slots|" + causeOf(v.cs, &v.o)
		}
		if _, ok := groups[key]; !ok {
			order = append(order, key)
		}
		groups[key] = append(groups[key], v)
	}
	sort.Strings(order)
	if dump := os.Getenv("VERIF_C05_BASELINE"); dump != "" {
		var sb strings.Builder
		for _, key := range order {
			if strings.HasPrefix(key, "slots|") {
				vs := groups[key]
				sort.Slice(vs, func(i, j int) bool { return len(vs[i].cs.text) < len(vs[j].cs.text) })
				fmt.Fprintf(&sb, "%s\t%q\t%q\n", key[6:], strings.TrimSpace(vs[0].cs.text), strings.TrimSpace(vs[0].o.Printed))
			}
		}
		os.WriteFile(dump, []byte(sb.String()), 0o644)
	}
	nRecorded := 0
	exploratory := 0
	for _, key := range order {
		vs := groups[key]
		sort.Slice(vs, func(i, j int) bool { return len(vs[i].cs.text) < len(vs[j].cs.text) })
		v := vs[0]
		var exs []any
		for i, x := range vs {
			if i >= 6 {
				break
			}
			exs = append(exs, map[string]any{"source": x.cs.text, "printed": x.o.Printed, "case": x.cs.desc})
		}
		cause := strings.SplitN(key, "|", 2)[1]
		rec := map[string]any{
			"kind": v.o.Kind, "route": v.cs.route, "count": len(vs), "root": v.o.Root, "source": v.cs.text, "printed": v.o.Printed,
			"detail": v.o.Detail, "case": v.cs.desc, "examples": exs, "cause": cause,
			"summary": fmt.Sprintf("%s (%s, %d cases; cause %s): %q prints as %q: %s", v.o.Kind, v.cs.route, len(vs), cause, strings.TrimSpace(v.cs.text), strings.TrimSpace(v.o.Printed), firstLine(v.o.Detail)),
		}
		if v.cs.route == "operators" {
			rec["deviation"] = strings.Join(v.cs.breaks, "+")
			if len(v.cs.breaks) == 0 {
				rec["deviation"] = "none"
			}
		} else {
			rec["recorded_cause"] = "no"
			if recorded[cause] {
				rec["recorded_cause"] = "yes"
				nRecorded++
			} else if len(v.cs.tpls) > 1 {
				// seeded depth-2 nestings are exploratory: the attribution (kind, child root type, parent
				// template) of a content-dependent printer defect is not stable across seeds, so an
				// unlisted cause found only there is reported in the evidence, not as a violation
				exploratory++
				if exploratory <= 5 {
					c.Note(fmt.Sprintf("unlisted printer defect seen only in a seeded depth-2 nesting: %s: %q prints as %q", cause, strings.TrimSpace(v.cs.text), strings.TrimSpace(v.o.Printed)))
				}
				continue
			}
		}
		c.Violation(rec)
	}
	c.Cov("slot_route_causes_seen", len(order))
	c.Cov("slot_route_causes_recorded_in_known_list", nRecorded)
	c.Cov("unlisted_causes_seen_only_in_seeded_depth2_nestings", exploratory)
	total := compared["operators"] + compared["slots"]
	c.CovAdd("traces_validated_against_impl", total)
	c.Cov("compared_operator_trees", compared["operators"])
	c.Cov("compared_slot_nestings", compared["slots"])
	c.Cov("out_of_domain_texts", counts["operators:out_of_domain"]+counts["slots:out_of_domain"])
	c.Cov("model_predicted_break_but_real_round_trip_fine", predictedButFine)
	c.Logf("compared=%d differences=%d groups=%d violations=%d", total, len(viols), len(groups), c.Violations())
	if compared["operators"] == 0 || compared["slots"] == 0 {
		return core.Inconclusivef("nothing was compared on one of the routes: %v", counts)
	}
	if counts["operators:out_of_domain"]*2 > compared["operators"] {
		return core.Inconclusivef("more than a third of the operator trees were rejected by the real parser: the model grammar left the domain (%v)", counts)
	}
	return nil
}

// refine drops the prediction "unary_sign_glued" for spelling variants whose prefix operator is not
// a sign (`!!a`, `~~a` are fine; `--a`, `++a` are single tokens).
func refine(breaks []string, signs bool) []string {
	var out []string
	for _, b := range breaks {
		if b == "unary_sign_glued" && !signs {
			continue
		}
		out = append(out, b)
	}
	return out
}

// loadCauses reads known/C05-causes.tsv: the recorded printer round-trip defects of the slots route,
// one cause per line (cause, example source, what it prints as).
func loadCauses() (map[string]bool, error) {
	out := map[string]bool{}
	b, err := os.ReadFile(filepath.Join(core.VerifRoot, "known", "C05-causes.tsv"))
	if os.IsNotExist(err) {
		return out, nil
	}
	if err != nil {
		return nil, err
	}
	for _, line := range strings.Split(string(b), "\n") {
		if line == "" || strings.HasPrefix(line, "#") {
			continue
		}
		out[strings.SplitN(line, "\t", 2)[0]] = true
	}
	return out, nil
}

// signature names the cause of a slot-route failure narrowly enough to tell causes apart: the
// innermost template and the filler (the parent printer and the child form).
func signature(cs *caseT, o *outcome) string {
	tpls, _ := cs.desc["templates"].([]string)
	inner := ""
	if len(tpls) > 0 {
		inner = tpls[len(tpls)-1]
	}
	return fmt.Sprintf("%v in `%s`", cs.desc["filler"], inner)
}

func normaliseLeaves(s string) string {
	return strings.ReplaceAll(s, `{"k":"leaf"}`, `{"k":"leaf"}`)
}

func shardLines(s string, n int) []string {
	lines := strings.Split(strings.TrimRight(s, "\n"), "\n")
	var out []string
	for i := 0; i < len(lines); i += n {
		j := i + n
		if j > len(lines) {
			j = len(lines)
		}
		out = append(out, strings.Join(lines[i:j], "\n")+"\n")
	}
	return out
}

func firstLine(s string) string {
	if i := strings.IndexByte(s, '\n'); i >= 0 {
		return s[:i]
	}
	return s
}

func tail(s string, n int) string {
	if len(s) <= n {
		return s
	}
	return s[len(s)-n:]
}

var reAstFrame = regexp.MustCompile(`elk/parser/ast\.([^\s(]*(?:\(\*\w+\))?[^\s(]*)\([^\n]*\n\s+\S+/parser/ast/(\w+\.go):\d+`)

var reElkFrame = regexp.MustCompile(`github\.com/elk-language/elk/([^\s(]*(?:\(\*\w+\))?[^\s(]*)\(`)

// panicSite names the innermost parser/ast frame of a panic stack (function + file).
func panicSite(detail string) string {
	if m := reAstFrame.FindStringSubmatch(detail); m != nil {
		return m[1] + " " + m[2]
	}
	if m := reElkFrame.FindStringSubmatch(detail); m != nil {
		return m[1]
	}
	return ""
}
