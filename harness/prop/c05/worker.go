package c05

import (
	"encoding/json"
	"fmt"
	"reflect"
	"runtime/debug"
	"strings"

	"github.com/elk-language/elk/parser"
	"github.com/elk-language/elk/parser/ast"
	"github.com/elk-language/elk/position"
	"github.com/elk-language/elk/position/diagnostic"
	"github.com/elk-language/elk/token"
	"github.com/google/go-cmp/cmp"
	"github.com/google/go-cmp/cmp/cmpopts"

	"elkverif/internal/core"
)

func init() {
	core.RegisterJob("c05batch", batchJob)
}

type batchIn struct {
	Texts []string `json:"texts"`
}

// outcome of one text: the real parser builds the tree t, t.String() is reparsed to t2.
type outcome struct {
	// ok | out_of_domain (the text itself has syntax errors) | reparse_error | tree_differs | go_panic
	Kind    string `json:"kind"`
	Printed string `json:"printed,omitempty"`
	Detail  string `json:"detail,omitempty"` // diagnostics of the reparse, tree diff or panic
	Root    string `json:"root,omitempty"`   // Go type of the first statement's expression
	Site    string `json:"site,omitempty"`   // go_panic: innermost parser/ast frame
}

type batchOut struct {
	Outcomes []outcome `json:"outcomes"`
}

var cmpOpts = func() cmp.Options {
	// (the repo's comparer.Options() compare tokens through their Inspect text, which contains the
	// span, so the structural comparison is configured from scratch)
	return append(cmp.Options{},
		cmp.Exporter(func(reflect.Type) bool { return true }),
		cmp.Comparer(func(a, b *token.Token) bool {
			if a == nil || b == nil {
				return a == b
			}
			return a.Type == b.Type && a.Value == b.Value
		}),
		cmpopts.IgnoreTypes((*position.Location)(nil), (*position.Span)(nil), (*position.Position)(nil)),
		// lazily computed caches that are not part of the tree's structure
		cmp.FilterPath(func(p cmp.Path) bool {
			if sf, ok := p.Last().(cmp.StructField); ok {
				return sf.Name() == "static" || sf.Name() == "typ"
			}
			return false
		}, cmp.Ignore()),
	)
}()

func diagText(dl diagnostic.DiagnosticList) string {
	var lines []string
	for i, d := range dl {
		if i >= 4 {
			break
		}
		lines = append(lines, fmt.Sprintf("%s: %s", d.Location.StartPos.String(), d.Message))
	}
	return strings.Join(lines, "\n")
}

func roundTrip(src string) (o outcome) {
	defer func() {
		if r := recover(); r != nil {
			st := string(debug.Stack())
			if len(st) > 2500 {
				st = st[:2500]
			}
			o.Kind = "go_panic"
			o.Detail = fmt.Sprintf("%v\n%s", r, st)
		}
	}()
	var t1 *ast.ProgramNode
	var dl diagnostic.DiagnosticList
	crashed := false
	func() {
		// a parser crash on the SOURCE text is property C03's business: the text is out of this property's domain
		defer func() {
			if r := recover(); r != nil {
				crashed = true
			}
		}()
		t1, dl = parser.Parse("main.elk", src)
	}()
	if crashed {
		return outcome{Kind: "out_of_domain", Detail: "the parser panicked on the source text (C03)"}
	}
	if len(dl) > 0 {
		return outcome{Kind: "out_of_domain", Detail: diagText(dl)}
	}
	if len(t1.Body) > 0 {
		if es, ok := t1.Body[0].(*ast.ExpressionStatementNode); ok {
			o.Root = strings.TrimPrefix(fmt.Sprintf("%T", es.Expression), "*ast.")
		}
	}
	o.Printed = t1.String()
	t2, dl2 := parser.Parse("main.elk", o.Printed)
	if len(dl2) > 0 {
		o.Kind = "reparse_error"
		o.Detail = diagText(dl2)
		return o
	}
	if d := cmp.Diff(t1, t2, cmpOpts...); d != "" {
		o.Kind = "tree_differs"
		if len(d) > 1500 {
			d = d[:1500]
		}
		o.Detail = d
		return o
	}
	o.Kind = "ok"
	return o
}

func batchJob(raw json.RawMessage) (any, error) {
	var in batchIn
	if err := json.Unmarshal(raw, &in); err != nil {
		return nil, err
	}
	out := &batchOut{}
	for _, t := range in.Texts {
		o := roundTrip(t)
		if o.Kind == "ok" {
			o.Printed = ""
		}
		if o.Kind == "go_panic" {
			o.Site = panicSite(o.Detail)
		}
		out.Outcomes = append(out.Outcomes, o)
	}
	return out, nil
}
