package c23

import (
	"encoding/json"
	"fmt"
	"path/filepath"
	"sort"
	"strconv"
	"strings"
	"time"

	"elkverif/internal/core"
	"elkverif/internal/elkrun"
	"elkverif/internal/tlc"
)

func init() {
	core.Register(&core.Check{ID: "C23", Level: "model_checking", Run: run})
}

type instance struct {
	ValsLo, ValsHi int
	MaxLen         int
	Kinds          []string
	RangeKinds     []string
	Bounds         string
	Probes         string
	Counts         string
	Preds          []string
	Maps           []string
	Inits          string
	EndlessTake    int
}

var allKinds = []string{"list", "tuple", "set", "map", "gen", "chan", "listiter"}
var allRangeKinds = []string{"closed", "open", "lopen", "ropen", "bl_closed", "bl_open", "el_closed", "el_open"}

func strSet(xs []string) string {
	q := make([]string, len(xs))
	for i, x := range xs {
		q[i] = strconv.Quote(x)
	}
	return "{" + strings.Join(q, ", ") + "}"
}

func tlaSeq(xs []int) string {
	q := make([]string, len(xs))
	for i, x := range xs {
		q[i] = strconv.Itoa(x)
	}
	return "<<" + strings.Join(q, ", ") + ">>"
}

// allSeqs enumerates the sequences over lo..hi of length <= n.
func allSeqs(lo, hi, n int) [][]int {
	out := [][]int{{}}
	prev := [][]int{{}}
	for l := 1; l <= n; l++ {
		var cur [][]int
		for _, p := range prev {
			for v := lo; v <= hi; v++ {
				cur = append(cur, append(append([]int{}, p...), v))
			}
		}
		out = append(out, cur...)
		prev = cur
	}
	return out
}

func (in *instance) module(order map[string]map[string][]int) []byte {
	var sb strings.Builder
	sb.WriteString("---- MODULE MC_Iterables ----\nEXTENDS Iterables\n")
	fmt.Fprintf(&sb, "MCVals == %d..%d\nMCMaxLen == %d\nMCKinds == %s\nMCRangeKinds == %s\n", in.ValsLo, in.ValsHi, in.MaxLen, strSet(in.Kinds), strSet(in.RangeKinds))
	fmt.Fprintf(&sb, "MCBounds == %s\nMCProbes == %s\nMCCounts == %s\nMCPreds == %s\nMCMaps == %s\nMCInits == %s\nMCEndlessTake == %d\n",
		in.Bounds, in.Probes, in.Counts, strSet(in.Preds), strSet(in.Maps), in.Inits, in.EndlessTake)
	// the iteration orders observed on the implementation
	for _, k := range []string{"set", "map"} {
		fmt.Fprintf(&sb, "Ord_%s(es) ==\n  CASE ", k)
		first := true
		for _, es := range allSeqs(in.ValsLo, in.ValsHi, in.MaxLen) {
			if !first {
				sb.WriteString("    [] ")
			}
			first = false
			fmt.Fprintf(&sb, "es = %s -> %s\n", tlaSeq(es), tlaSeq(order[k][fmt.Sprint(es)]))
		}
	}
	sb.WriteString("MCOrder == [k \\in {\"set\", \"map\"} |-> [es \\in SeqsUpTo(MCMaxLen) |-> IF k = \"set\" THEN Ord_set(es) ELSE Ord_map(es)]]\n====\n")
	return []byte(sb.String())
}

func (in *instance) text() string {
	return fmt.Sprintf("Vals=%d..%d MaxLen=%d Kinds=%v RangeKinds=%v Bounds=%s Probes=%s Counts=%s Preds=%v Maps=%v Inits=%s EndlessTake=%d",
		in.ValsLo, in.ValsHi, in.MaxLen, in.Kinds, in.RangeKinds, in.Bounds, in.Probes, in.Counts, in.Preds, in.Maps, in.Inits, in.EndlessTake)
}

// ---- running Elk files ---------------------------------------------------------------------------

type fileResult struct {
	res elkrun.Result
	src string
}

func runFiles(pool *core.Pool, srcs []string) ([]fileResult, error) {
	jobs := make([]core.Job, len(srcs))
	for i, s := range srcs {
		jobs[i] = core.Job{Kind: "elk", Payload: elkrun.Job{Src: s, RunMs: 20000}, TimeoutMs: 90000}
	}
	out := make([]fileResult, len(srcs))
	for i, jr := range pool.Map(jobs, nil) {
		var r elkrun.Result
		switch {
		case jr.Crashed:
			r.Accepted = true
			r.GoPanic = "worker process died:\n" + jr.CrashLog
		case jr.Timeout:
			r.Accepted = true
			r.Hung = true
		case jr.Panic != "":
			r.Accepted = true
			r.GoPanic = jr.Panic
		case jr.Err != "":
			return nil, core.Inconclusivef("worker error: %s", jr.Err)
		default:
			if err := jr.Decode(&r); err != nil {
				return nil, core.Inconclusivef("bad worker result: %v", err)
			}
		}
		out[i] = fileResult{r, srcs[i]}
	}
	return out, nil
}

func splitByCase(stdout string) map[int][]string {
	per := map[int][]string{}
	cur := -1
	for _, line := range strings.Split(strings.TrimRight(stdout, "\n"), "\n") {
		if strings.HasPrefix(line, "@c ") {
			if id, err := strconv.Atoi(line[3:]); err == nil {
				cur = id
				per[cur] = []string{}
				continue
			}
		}
		if cur >= 0 {
			per[cur] = append(per[cur], line)
		}
	}
	return per
}

type caseRun struct {
	c        *Case
	obs      *Obs
	rejected string // checker diagnostics when the program was not accepted
	src      string
}

// runCases runs the cases `batch` per file; files that do not run cleanly are re-run one case per file.
func runCases(pool *core.Pool, cases []*Case, batch, endlessTake int) ([]caseRun, error) {
	var out []caseRun
	run := func(groups [][]*Case) ([][]*Case, error) {
		srcs := make([]string, len(groups))
		for i, g := range groups {
			srcs[i] = emitFile(g, endlessTake)
		}
		results, err := runFiles(pool, srcs)
		if err != nil {
			return nil, err
		}
		var retry [][]*Case
		for gi, fr := range results {
			g := groups[gi]
			r := fr.res
			per := splitByCase(r.Stdout)
			clean := r.Accepted && r.GoPanic == "" && !r.Hung && r.ErrClass == "" && len(per) == len(g)
			if !clean && len(g) > 1 {
				for _, c := range g {
					retry = append(retry, []*Case{c})
				}
				continue
			}
			for _, c := range g {
				cr := caseRun{c: c, src: fr.src}
				if len(g) > 1 {
					cr.src = ""
				}
				switch {
				case !r.Accepted && r.GoPanic == "":
					cr.rejected = r.Diags
				default:
					crash := ""
					switch {
					case r.GoPanic != "":
						crash = "Go panic (" + r.PanicStage + "): " + r.GoPanic
					case r.Hung:
						crash = "the program did not terminate"
					case r.ErrClass != "":
						crash = "uncaught " + r.ErrClass + ": " + r.ErrMsg
					}
					lines := per[c.ID]
					if crash != "" {
						cr.obs = &Obs{T: "crash", Panic: crash}
					} else {
						cr.obs = observe(c, pools[c.Pool], lines, "")
					}
				}
				out = append(out, cr)
			}
		}
		return retry, nil
	}
	var groups [][]*Case
	for i := 0; i < len(cases); i += batch {
		j := i + batch
		if j > len(cases) {
			j = len(cases)
		}
		groups = append(groups, cases[i:j])
	}
	retry, err := run(groups)
	if err != nil {
		return nil, err
	}
	if len(retry) > 0 {
		if _, err := run(retry); err != nil {
			return nil, err
		}
	}
	return out, nil
}

// ---- phase 0: iteration order of sets and maps ---------------------------------------------------

func observeOrders(c *core.Ctx, pool *core.Pool, in *instance) (map[string]map[string][]int, error) {
	p := pools["int"]
	seqs := allSeqs(in.ValsLo, in.ValsHi, in.MaxLen)
	var sb strings.Builder
	sb.WriteString(prelude)
	for i, es := range seqs {
		var kv []string
		for _, k := range es {
			kv = append(kv, fmt.Sprintf("%s => %s", p.lit(k), p.lit(mapVal(k))))
		}
		fmt.Fprintf(&sb, "def q%d\n  var s: HashSet[Int] = ^[%s]\n  var a: ArrayList[Int] = []\n  for x in s then a << x\n  println \"set %d #{a.to_tuple}\"\n", i, p.lits(es), i)
		fmt.Fprintf(&sb, "  var m: HashMap[Int, Int] = {%s}\n  var b: ArrayList[Int] = []\n  var ok = true\n  for x in m\n    b << x.key\n    ok = false if x.value != x.key * 2 + 1\n  end\n  println \"map %d #{b.to_tuple} #{ok}\"\nend\n", strings.Join(kv, ", "), i)
	}
	for i := range seqs {
		fmt.Fprintf(&sb, "q%d()\n", i)
	}
	frs, err := runFiles(pool, []string{sb.String()})
	if err != nil {
		return nil, err
	}
	r := frs[0].res
	if !r.Accepted || r.GoPanic != "" || r.Hung || r.ErrClass != "" {
		return nil, core.Inconclusivef("cannot observe the iteration order of sets/maps: accepted=%v %s %s %s", r.Accepted, firstLine(r.Diags), firstLine(r.GoPanic), r.ErrClass)
	}
	order := map[string]map[string][]int{"set": {}, "map": {}}
	for _, line := range strings.Split(strings.TrimSpace(r.Stdout), "\n") {
		parts := strings.SplitN(line, " ", 3)
		if len(parts) != 3 {
			return nil, core.Inconclusivef("order line %q", line)
		}
		i, err := strconv.Atoi(parts[1])
		if err != nil || i >= len(seqs) {
			return nil, core.Inconclusivef("order line %q", line)
		}
		rest := parts[2]
		if parts[0] == "map" {
			if !strings.HasSuffix(rest, " true") {
				c.Violation(map[string]any{"kind": "map_iteration_wrong_value", "source_kind": "map", "inserted": fmt.Sprint(seqs[i]), "observed": rest,
					"summary": fmt.Sprintf("iterating the map built from keys %v yields a pair whose value is not the inserted one: %s", seqs[i], rest)})
			}
			rest = strings.TrimSuffix(strings.TrimSuffix(rest, " true"), " false")
		}
		s, ok := p.parseTuple(rest)
		if !ok {
			return nil, core.Inconclusivef("order line %q", line)
		}
		order[parts[0]][fmt.Sprint(seqs[i])] = s
	}
	if len(order["set"]) != len(seqs) || len(order["map"]) != len(seqs) {
		return nil, core.Inconclusivef("observed %d set and %d map orders for %d insertion sequences", len(order["set"]), len(order["map"]), len(seqs))
	}
	return order, nil
}

// ---- the check ---------------------------------------------------------------------------------------

func run(c *core.Ctx) error {
	pool := c.NewPool(c.Workers)
	in := &instance{
		ValsLo: 0, ValsHi: 2, MaxLen: 2, Kinds: allKinds, RangeKinds: allRangeKinds,
		Bounds: "-1..2", Probes: "-2..3", Counts: "-1..3", Preds: []string{"pos", "one", "lt5"}, Maps: []string{"inc"},
		Inits: "{1}", EndlessTake: 5,
	}
	if c.Thorough() {
		in.MaxLen, in.Bounds, in.Probes, in.Counts = 3, "-2..3", "-3..4", "-1..4"
		in.Preds, in.Maps, in.Inits = []string{"pos", "one", "lt5", "neg"}, []string{"inc", "dbl"}, "{0, 1}"
		in.EndlessTake = 6
	}

	// ---- 0. observe the iteration order of every set / map of the instance (input of the spec)
	order, err := observeOrders(c, pool, in)
	if err != nil {
		return err
	}

	// ---- 1. TLC: check the specification's invariants (including: every observed order is a
	// permutation of the inserted elements) and enumerate every case
	var cases []*Case
	var perr error
	t0 := time.Now()
	res, err := tlc.Run(tlc.Opts{
		SpecDir: filepath.Join(core.VerifRoot, "spec", "Iterables"), Module: "MC_Iterables", Cfg: "Iterables.cfg",
		Scratch: c.Scratch, Workers: c.Workers, Timeout: time.Duration(c.Pick(150, 600)) * time.Second, HeapMB: 4000,
		Extra: map[string][]byte{"MC_Iterables.tla": in.module(order)},
		OnGen: func(rec []byte) {
			k := &Case{}
			if e := json.Unmarshal(rec, k); e != nil {
				perr = fmt.Errorf("bad GEN record: %v: %.300s", e, rec)
				return
			}
			cases = append(cases, k)
		},
	})
	if err != nil {
		return err
	}
	if perr != nil {
		return perr
	}
	if res.Verdict == "invariant" && res.What == "OrderIsPermutation" {
		c.Violation(map[string]any{"kind": "iteration_is_not_a_permutation_of_the_elements", "source_kind": "set_or_map", "trace": res.ErrorTrace,
			"summary": "iterating a set/map does not yield exactly the inserted elements:\n" + tail(res.ErrorTrace, 1500)})
		return nil
	}
	if !res.OK {
		return core.Inconclusivef("TLC on Iterables: verdict=%s %s\n%s", res.Verdict, res.What, tail(res.Output, 3000))
	}
	c.Logf("TLC: %d states generated, %d distinct, depth %d, %d cases, %.1fs", res.Generated, res.Distinct, res.Depth, len(cases), time.Since(t0).Seconds())
	c.CovAdd("states", int(res.Distinct))
	c.CovAdd("transitions", int(res.Generated))
	c.Cov("spec", "spec/Iterables/Iterables.tla + Iterables.cfg (TypeOK, OrderIsPermutation on the observed set/map orders, RangeContainsAgreesWithElems, ModelConsistent checked by TLC)")
	c.Cov("instance", in.text())
	if len(cases) == 0 {
		return core.Inconclusivef("the specification emitted no case")
	}

	// ---- 2. value pools: collections hold Int; ranges are replayed over Int, integers beyond 64
	// bits, integers across the int64 boundary, Char, and (contains only) Float and String
	sort.SliceStable(cases, func(i, j int) bool { return cases[i].Combo() < cases[j].Combo() })
	var all []*Case
	id := 0
	add := func(k *Case, pn string) {
		kk := *k
		kk.Pool = pn
		if !Emittable(&kk, pools[pn]) {
			return
		}
		id++
		kk.ID = id
		all = append(all, &kk)
	}
	for _, k := range cases {
		add(k, "int")
		if k.Src.K == "range" {
			switch k.Act {
			case "range_contains":
				for _, pn := range []string{"big", "i64", "float", "char", "str"} {
					add(k, pn)
				}
			default:
				// one extra pool per case, seeded
				add(k, []string{"big", "i64", "char"}[c.Rand.Intn(3)])
			}
		}
	}
	c.Cov("cases_total", len(all))

	// ---- 3. probe every (receiver kind, method): a method that does not exist at run time stops the
	// program with a Go panic for every argument; such combinations are reported once per probe and
	// their remaining cases are not run
	byCombo := map[string][]*Case{}
	var combos []string
	for _, k := range all {
		cb := k.Combo()
		if byCombo[cb] == nil {
			combos = append(combos, cb)
		}
		byCombo[cb] = append(byCombo[cb], k)
	}
	var probes []*Case
	for _, cb := range combos {
		g := byCombo[cb]
		probes = append(probes, g[len(g)/2])
	}
	t1 := time.Now()
	probeRuns, err := runCases(pool, probes, 1, in.EndlessTake)
	if err != nil {
		return err
	}
	missing := map[string]bool{}
	for _, pr := range probeRuns {
		if pr.obs != nil && pr.obs.T == "crash" && strings.Contains(pr.obs.Panic, "tried to call an invalid method") {
			missing[pr.c.Combo()] = true
		}
	}
	var rest []*Case
	probed := map[int]bool{}
	for _, p := range probes {
		probed[p.ID] = true
	}
	skipped := 0
	for _, k := range all {
		if probed[k.ID] {
			continue
		}
		if missing[k.Combo()] {
			skipped++
			continue
		}
		rest = append(rest, k)
	}
	runs, err := runCases(pool, rest, 50, in.EndlessTake)
	if err != nil {
		return err
	}
	runs = append(probeRuns, runs...)
	c.Logf("replay: %d probes + %d cases in %.1fs (%d cases of %d methods missing at run time not run)", len(probes), len(rest), time.Since(t1).Seconds(), skipped, len(missing))

	// ---- 4. compare
	agree, ood, differ := 0, 0, 0
	perKind := map[string]int{}
	reported := map[string]bool{}
	for _, r := range runs {
		k := r.c
		if r.rejected != "" {
			ood++
			if ood <= 5 {
				c.Note(fmt.Sprintf("out of domain (rejected by the checker): %s: %s", k.Describe(), firstLine(r.rejected)))
			}
			continue
		}
		if agrees(&k.Exp, r.obs) {
			agree++
			perKind[k.SourceKind()]++
			if agree%1499 == 1 {
				c.Sample(map[string]any{"case": k.Describe(), "expected_and_observed": k.Exp.Text()})
			}
			continue
		}
		differ++
		kind := "wrong_result"
		switch r.obs.T {
		case "crash":
			kind = "go_panic"
			if strings.Contains(r.obs.Panic, "did not terminate") {
				kind = "hang"
			}
		case "e":
			kind = "unexpected_error"
		case "stop":
			kind = "unexpected_stop_iteration"
		case "none", "unparsed":
			kind = "unreadable_result"
		}
		method := strings.SplitN(k.Combo(), ".", 2)[1]
		key := fmt.Sprintf("%s|%s|%s|%s", kind, k.Combo(), k.Describe(), r.obs.Text())
		if reported[key] {
			continue
		}
		reported[key] = true
		src := r.src
		if src == "" {
			src = emitFile([]*Case{k}, in.EndlessTake)
		}
		rec := map[string]any{
			"kind": kind, "source_kind": k.SourceKind(), "method": method, "pool": k.Pool, "case": k, "describe": k.Describe(),
			"expected": k.Exp.Text(), "observed": r.obs.Text(), "source": src,
			"summary": fmt.Sprintf("%s: expected %s, observed %s", k.Describe(), k.Exp.Text(), r.obs.Text()),
		}
		if r.obs.Panic != "" {
			rec["panic"] = r.obs.Panic
		}
		c.Violation(rec)
	}
	c.CovAdd("traces_validated_against_impl", agree)
	c.Cov("agreeing_cases_by_source_kind", perKind)
	c.CovAdd("differences", differ)
	c.CovAdd("out_of_domain", ood)
	c.CovAdd("cases_not_run_method_missing", skipped)
	var miss []string
	for m := range missing {
		miss = append(miss, m)
	}
	sort.Strings(miss)
	c.Cov("methods_missing_at_run_time", miss)
	c.Logf("agree=%d differences=%d out_of_domain=%d violations=%d", agree, differ, ood, c.Violations())
	c.Assume("trusted: TLC/SANY, the Elk emitter of prop/c23/emit.go, `for .. in` + ArrayList#<< + Tuple inspect used to read sequences back, inspect of Int/Char/Bool")
	c.Assume("set/map iteration order is an input observed on the implementation (checked to be a permutation), all other expectations come from the specification")
	if ood*5 > len(all) {
		return core.Inconclusivef("%d of %d generated programs were rejected by the checker: the generator left the domain", ood, len(all))
	}
	if agree == 0 {
		return core.Inconclusivef("nothing was compared")
	}
	for _, k := range []string{"list", "tuple", "range"} {
		if perKind[k] == 0 {
			return core.Inconclusivef("no agreeing case for source kind %s: the comparison is vacuous", k)
		}
	}
	return nil
}

func tail(s string, n int) string {
	if len(s) <= n {
		return s
	}
	return s[len(s)-n:]
}
