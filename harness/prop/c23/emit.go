// Package c23: ranges and iterable operations agree with a list model (spec/Iterables).
package c23

import (
	"fmt"
	"math/big"
	"sort"
	"strconv"
	"strings"
)

// ---- GEN records of spec/Iterables ----------------------------------------------------------------

type Src struct {
	K  string `json:"k"` // list tuple set map gen chan listiter range
	Es []int  `json:"es"`
	Rk string `json:"rk"`
	Lo int    `json:"lo"`
	Hi int    `json:"hi"`
}

type Out struct {
	T string `json:"t"` // v b s e stop any
	V int    `json:"v"`
	S []int  `json:"s"`
}

type Case struct {
	ID    int    `json:"id"`
	Src   Src    `json:"src"`
	Pos   int    `json:"pos"`
	Act   string `json:"act"` // next iterate op range_contains
	Op    string `json:"op"`
	A     int    `json:"a"`
	F     string `json:"f"`
	Exp   Out    `json:"exp"`
	Order []int  `json:"order"`
	Pool  string `json:"pool"` // value pool used for the emission (set by the harness)
}

func hasHi(rk string) bool {
	switch rk {
	case "closed", "open", "lopen", "ropen", "bl_closed", "bl_open":
		return true
	}
	return false
}

// SourceKind names the kind of the receiver of the operation as the known findings see it.
func (c *Case) SourceKind() string {
	if c.Src.K == "range" {
		if c.Act == "range_contains" || c.Act == "iterate" {
			return "range"
		}
		if !hasHi(c.Src.Rk) {
			return "endless_range_iterator"
		}
		return "range_iterator"
	}
	return c.Src.K
}

// Combo identifies the method the case calls on which kind of receiver.
func (c *Case) Combo() string {
	m := c.Op
	switch c.Act {
	case "next":
		m = "next"
	case "iterate":
		m = "for-in"
	case "range_contains":
		m = "contains"
	}
	return c.SourceKind() + "." + m
}

func (c *Case) Describe() string {
	src := ""
	if c.Src.K == "range" {
		src = "range " + RangeText(c.Src.Rk, strconv.Itoa(c.Src.Lo), strconv.Itoa(c.Src.Hi))
	} else {
		src = fmt.Sprintf("%s %v", c.Src.K, c.Src.Es)
	}
	if c.Pos > 0 {
		src += fmt.Sprintf(" after %d next", c.Pos)
	}
	call := c.Act
	if c.Act == "op" || c.Act == "range_contains" {
		call = c.Op
		switch {
		case c.F != "":
			call += "(" + c.F + ")"
		case c.Op == "take" || c.Op == "drop" || c.Op == "index_of" || c.Op == "contains" || c.Op == "fold":
			call += fmt.Sprintf("(%d)", c.A)
		}
	}
	return fmt.Sprintf("[%s] %s: %s", c.Pool, src, call)
}

func RangeText(rk, lo, hi string) string {
	switch rk {
	case "closed":
		return lo + "..." + hi
	case "open":
		return lo + "<.<" + hi
	case "lopen":
		return lo + "<.." + hi
	case "ropen":
		return lo + "..<" + hi
	case "bl_closed":
		return "..." + hi
	case "bl_open":
		return "..<" + hi
	case "el_closed":
		return lo + "..."
	case "el_open":
		return lo + "<.."
	}
	return "?" + rk
}

// ---- value pools -------------------------------------------------------------------------------

// A pool maps the specification's integers to Elk values of one comparable type, order-preserving.
type pool struct {
	name     string
	typ      string
	lit      func(int) string
	decode   func(string) (int, bool)
	iterable bool // values are Incrementable: ranges over them can be iterated
	arith    bool // the closures of the instance (x > 0, x + 1, a * 2 + x) make sense
}

var bigBase = new(big.Int).Lsh(big.NewInt(1), 64) // 2^64: beyond every fixed-width representation

var i64Base = new(big.Int).SetUint64(1<<63 - 2) // straddles the int64 boundary

func bigPool(name string, base *big.Int) *pool {
	return &pool{name: name, typ: "Int", iterable: true,
		lit: func(i int) string { return new(big.Int).Add(base, big.NewInt(int64(i))).String() },
		decode: func(s string) (int, bool) {
			v, ok := new(big.Int).SetString(strings.TrimSpace(s), 10)
			if !ok {
				return 0, false
			}
			d := new(big.Int).Sub(v, base)
			if !d.IsInt64() || d.Int64() < -1000 || d.Int64() > 1000 {
				return 0, false
			}
			return int(d.Int64()), true
		}}
}

var pools = map[string]*pool{
	"int": {name: "int", typ: "Int", iterable: true, arith: true,
		lit: func(i int) string {
			if i < 0 {
				return fmt.Sprintf("(%d)", i)
			}
			return strconv.Itoa(i)
		},
		decode: func(s string) (int, bool) { n, err := strconv.Atoi(strings.TrimSpace(s)); return n, err == nil }},
	"big": bigPool("big", bigBase),
	"i64": bigPool("i64", i64Base),
	"float": {name: "float", typ: "Float",
		lit: func(i int) string {
			if i < 0 {
				return fmt.Sprintf("(%d.5)", i)
			}
			return fmt.Sprintf("%d.5", i)
		},
		decode: func(s string) (int, bool) { return 0, false }},
	"char": {name: "char", typ: "Char", iterable: true,
		lit: func(i int) string { return "`" + string(rune('k'+i)) + "`" },
		decode: func(s string) (int, bool) {
			s = strings.TrimSpace(s)
			if len(s) == 3 && s[0] == '`' && s[2] == '`' {
				return int(s[1]) - 'k', true
			}
			return 0, false
		}},
	"str": {name: "str", typ: "String",
		lit:    func(i int) string { return "\"" + string(rune('k'+i)) + "\"" },
		decode: func(s string) (int, bool) { return 0, false }},
}

func (p *pool) lits(q []int) string {
	parts := make([]string, len(q))
	for i, x := range q {
		parts[i] = p.lit(x)
	}
	return strings.Join(parts, ", ")
}

func (p *pool) parseTuple(s string) ([]int, bool) {
	s = strings.TrimSpace(s)
	if !strings.HasPrefix(s, "%[") || !strings.HasSuffix(s, "]") {
		return nil, false
	}
	body := strings.TrimSpace(s[2 : len(s)-1])
	out := []int{}
	if body == "" {
		return out, true
	}
	for _, tok := range strings.Split(body, ",") {
		n, ok := p.decode(tok)
		if !ok {
			return nil, false
		}
		out = append(out, n)
	}
	return out, true
}

// ---- emission ----------------------------------------------------------------------------------

const prelude = "def o(v: any) then println \"#{v}\"\n"

func mapVal(k int) int { return 2*k + 1 }

// closure text; elem is the expression of the element's integer (x or x.key)
func predText(f, x string) string {
	switch f {
	case "pos":
		return x + " > 0"
	case "one":
		return x + " == 1"
	case "lt5":
		return x + " < 5"
	case "neg":
		return x + " < 0"
	}
	panic("pred " + f)
}

func mapText(f, x string) string {
	switch f {
	case "inc":
		return x + " + 1"
	case "dbl":
		return x + " * 2"
	}
	panic("mapper " + f)
}

// Emittable reports whether the case can be written as a well-typed Elk program with this pool.
func Emittable(c *Case, p *pool) bool {
	if c.Src.K != "range" {
		if p.name != "int" {
			return false
		}
		if c.Src.K == "map" && c.Act == "op" && c.Op == "reduce" {
			return false // reduce over pairs needs a closure returning pairs: not in the instance
		}
		return true
	}
	switch c.Act {
	case "range_contains":
		return true
	case "next", "iterate":
		return p.iterable
	case "op":
		if !p.iterable {
			return false
		}
		if p.arith {
			return true
		}
		// without arithmetic closures only the closure-free operations
		switch c.Op {
		case "take", "drop", "first", "last", "length", "to_list", "index_of", "contains":
			return true
		}
		return false
	}
	return false
}

// emitCase writes `def c<ID>` (and the generator it needs).
func emitCase(sb *strings.Builder, c *Case, p *pool, endlessTake int) {
	t := p.typ
	isMap := c.Src.K == "map"
	x := "x"
	if isMap {
		x = "x.key"
	}
	elemT := t
	if isMap {
		elemT = "Pair[Int, Int]"
	}
	_ = elemT
	if c.Src.K == "gen" {
		fmt.Fprintf(sb, "def *g%d: Int\n", c.ID)
		for i, e := range c.Src.Es {
			if i == len(c.Src.Es)-1 {
				fmt.Fprintf(sb, "  %s\n", p.lit(e))
			} else {
				fmt.Fprintf(sb, "  yield %s\n", p.lit(e))
			}
		}
		sb.WriteString("end\n")
	}
	fmt.Fprintf(sb, "def c%d\n  println \"@c %d\"\n  do\n", c.ID, c.ID)
	w := func(format string, a ...any) { fmt.Fprintf(sb, "    "+format+"\n", a...) }
	rng := ""
	if c.Src.K == "range" {
		rng = "(" + RangeText(c.Src.Rk, p.lit(c.Src.Lo), p.lit(c.Src.Hi)) + ")"
	}
	// the source
	switch c.Src.K {
	case "list":
		w("var s: ArrayList[%s] = [%s]", t, p.lits(c.Src.Es))
	case "tuple":
		w("var s: ArrayTuple[%s] = %%[%s]", t, p.lits(c.Src.Es))
	case "set":
		w("var s: HashSet[%s] = ^[%s]", t, p.lits(c.Src.Es))
	case "map":
		var kv []string
		for _, k := range c.Src.Es {
			kv = append(kv, fmt.Sprintf("%s => %s", p.lit(k), p.lit(mapVal(k))))
		}
		w("var s: HashMap[Int, Int] = {%s}", strings.Join(kv, ", "))
	case "gen":
		w("s := g%d()", c.ID)
	case "chan":
		w("s := Channel::[%s](%d)", t, len(c.Src.Es)+1)
		for _, e := range c.Src.Es {
			w("s << %s", p.lit(e))
		}
		w("s.close")
	case "listiter":
		w("var l: ArrayList[%s] = [%s]", t, p.lits(c.Src.Es))
		w("s := l.iter")
	case "range":
		if c.Act == "next" || c.Act == "op" {
			w("s := %s.iter", rng)
		}
	}
	for i := 0; i < c.Pos; i++ {
		w("s.next")
	}
	materialise := func(expr string, limit int) {
		accT := t
		w("var acc: ArrayList[%s] = []", accT)
		if limit > 0 {
			w("for x in %s", expr)
			w("  acc << %s", x)
			w("  break if acc.length >= %d", limit)
			w("end")
		} else {
			w("for x in %s then acc << %s", expr, x)
		}
		w("println \"r #{acc.to_tuple}\"")
	}
	switch c.Act {
	case "next":
		w("r := s.next")
		if isMap {
			w("println \"r #{r.key}\"")
		} else {
			w("println \"r #{r}\"")
		}
	case "iterate":
		src := "s"
		if c.Src.K == "range" {
			src = rng
			if c.ID%2 == 1 {
				// the range as a value: `for x in rv` is lowered by another compiler path than the literal
				w("rv := %s", rng)
				src = "rv"
			}
		}
		limit := 0
		if c.Src.K == "range" && !hasHi(c.Src.Rk) {
			limit = endlessTake
		}
		materialise(src, limit)
	case "range_contains":
		w("r := %s.contains(%s)", rng, p.lit(c.A))
		w("println \"r #{r}\"")
	case "op":
		elemResult := func(call string) {
			w("r := %s", call)
			if isMap {
				w("println \"r #{r.key}\"")
			} else {
				w("println \"r #{r}\"")
			}
		}
		plain := func(call string) {
			w("r := %s", call)
			w("println \"r #{r}\"")
		}
		seqResult := func(call string, projected bool) {
			w("r := %s", call)
			if projected {
				// the mapper already returned integers
				w("var acc: ArrayList[%s] = []", t)
				w("for y in r then acc << y")
				w("println \"r #{acc.to_tuple}\"")
			} else {
				materialise("r", 0)
			}
		}
		switch c.Op {
		case "map":
			seqResult(fmt.Sprintf("s.map(|x| -> %s)", mapText(c.F, x)), true)
		case "filter", "reject", "take_while", "drop_while":
			seqResult(fmt.Sprintf("s.%s(|x| -> %s)", c.Op, predText(c.F, x)), false)
		case "take", "drop":
			seqResult(fmt.Sprintf("s.%s(%d)", c.Op, c.A), false)
		case "to_list":
			seqResult("s.to_list", false)
		case "count", "any", "every":
			plain(fmt.Sprintf("s.%s(|x| -> %s)", c.Op, predText(c.F, x)))
		case "find":
			elemResult(fmt.Sprintf("s.find(|x| -> %s)", predText(c.F, x)))
		case "first", "last":
			elemResult("s." + c.Op)
		case "length":
			plain("s.length")
		case "fold":
			plain(fmt.Sprintf("s.fold(%d, |a, x| -> a * 2 + %s)", c.A, x))
		case "reduce":
			plain("s.reduce(|a, x| -> a * 2 + x)")
		case "index_of", "contains":
			arg := p.lit(c.A)
			if isMap {
				arg = fmt.Sprintf("Pair(%s, %s)", p.lit(c.A), p.lit(mapVal(c.A)))
			}
			plain(fmt.Sprintf("s.%s(%s)", c.Op, arg))
		default:
			panic("emit: op " + c.Op)
		}
	}
	sb.WriteString("  catch Std::Error() as e\n    println \"e #{e.class}\"\n  catch :stop_iteration\n    println \"stop\"\n  end\nend\n")
}

func emitFile(cases []*Case, endlessTake int) string {
	var sb strings.Builder
	sb.WriteString(prelude)
	for _, c := range cases {
		emitCase(&sb, c, pools[c.Pool], endlessTake)
	}
	for _, c := range cases {
		fmt.Fprintf(&sb, "c%d()\n", c.ID)
	}
	return sb.String()
}

// ---- judging -----------------------------------------------------------------------------------

type Obs struct {
	T     string `json:"t"` // v b s e stop undefined crash none
	V     int    `json:"v,omitempty"`
	S     []int  `json:"s,omitempty"`
	Err   string `json:"err,omitempty"`
	Raw   string `json:"raw,omitempty"`
	Panic string `json:"panic,omitempty"`
}

func (o *Obs) Text() string {
	switch o.T {
	case "v":
		return strconv.Itoa(o.V)
	case "b":
		return strconv.FormatBool(o.V == 1)
	case "s":
		return fmt.Sprint(o.S)
	case "e":
		return "error " + o.Err
	case "stop":
		return ":stop_iteration"
	case "crash":
		return "CRASH " + firstLine(o.Panic)
	}
	return o.T + " " + o.Raw
}

func (o *Out) Text() string {
	switch o.T {
	case "v":
		return strconv.Itoa(o.V)
	case "b":
		return strconv.FormatBool(o.V == 1)
	case "s":
		return fmt.Sprint(o.S)
	case "u":
		return fmt.Sprint(o.S) + " in any order"
	case "e":
		return "an Elk error"
	case "stop":
		return ":stop_iteration"
	}
	return "anything but a crash"
}

// observe parses what a case printed after its marker.
func observe(c *Case, p *pool, lines []string, crash string) *Obs {
	if len(lines) == 0 {
		if crash != "" {
			return &Obs{T: "crash", Panic: crash}
		}
		return &Obs{T: "none"}
	}
	l := lines[len(lines)-1]
	switch {
	case l == "stop":
		return &Obs{T: "stop"}
	case strings.HasPrefix(l, "e "):
		cls := strings.TrimPrefix(l[2:], "class ")
		if k := strings.Index(cls, " <"); k >= 0 {
			cls = cls[:k]
		}
		return &Obs{T: "e", Err: cls}
	case strings.HasPrefix(l, "r "):
		val := l[2:]
		o := &Obs{Raw: val}
		switch {
		case val == "true" || val == "false":
			o.T = "b"
			if val == "true" {
				o.V = 1
			}
		case strings.HasPrefix(val, "%["):
			s, ok := p.parseTuple(val)
			if !ok {
				o.T = "unparsed"
				return o
			}
			o.T, o.S = "s", s
		case val == "undefined":
			o.T = "undefined"
		default:
			// counts / indices / lengths / fold results are plain integers whatever the pool
			plainInt := c.Act == "op" && (c.Op == "count" || c.Op == "index_of" || c.Op == "length" || (c.Op == "fold"))
			var n int
			var ok bool
			if plainInt {
				m, err := strconv.Atoi(val)
				n, ok = m, err == nil
			} else {
				n, ok = p.decode(val)
			}
			if !ok {
				o.T = "unparsed"
				return o
			}
			o.T, o.V = "v", n
		}
		return o
	}
	return &Obs{T: "unparsed", Raw: l}
}

func eqInts(a, b []int) bool {
	if len(a) != len(b) {
		return false
	}
	for i := range a {
		if a[i] != b[i] {
			return false
		}
	}
	return true
}

// agrees: does the observation equal the specification's expected outcome?
func agrees(exp *Out, o *Obs) bool {
	switch exp.T {
	case "v":
		return o.T == "v" && o.V == exp.V
	case "b":
		return o.T == "b" && o.V == exp.V
	case "s":
		return o.T == "s" && eqInts(o.S, exp.S)
	case "u":
		if o.T != "s" || len(o.S) != len(exp.S) {
			return false
		}
		a, b := append([]int{}, o.S...), append([]int{}, exp.S...)
		sort.Ints(a)
		sort.Ints(b)
		return eqInts(a, b)
	case "e":
		return o.T == "e"
	case "stop":
		return o.T == "stop"
	case "any":
		return o.T != "crash" && o.T != "none"
	}
	return false
}

func firstLine(s string) string {
	if i := strings.IndexByte(s, '\n'); i >= 0 {
		return s[:i]
	}
	return s
}
