package c21

import (
	"encoding/json"
	"fmt"
	"strings"

	"elkverif/internal/core"

	"github.com/elk-language/elk/bitfield"
	"github.com/elk-language/elk/regex"
	"github.com/elk-language/elk/regex/flag"
	"github.com/elk-language/elk/regex/parser"
	"github.com/elk-language/elk/value"
)

// RealCase is one case as the real code sees it: Elk regex source text + flags.
type RealCase struct {
	ID   int      `json:"id"`
	Op   string   `json:"op"`
	Src  string   `json:"src"`
	Fl   []string `json:"fl"`
	Src2 string   `json:"src2"`
	Fl2  []string `json:"fl2"`
	N    int      `json:"n"`
}

type RealJob struct {
	Cases    []RealCase `json:"cases"`
	Subjects []string   `json:"subjects"`
}

// RealOut is what the real implementation did with a case.
type RealOut struct {
	ID    int    `json:"id"`
	Stage string `json:"stage"` // ok | parse (Elk regex parser rejected: outside the property's domain) | error (regex error reported) | panic
	Err   string `json:"err,omitempty"`
	GoSrc string `json:"go_src,omitempty"` // the Go pattern the transpiler produced (literals only)
	Acc   string `json:"acc,omitempty"`    // '0'/'1' per subject
}

func init() {
	core.RegisterJob("c21", func(payload json.RawMessage) (any, error) {
		var j RealJob
		if err := json.Unmarshal(payload, &j); err != nil {
			return nil, err
		}
		out := make([]RealOut, len(j.Cases))
		for i := range j.Cases {
			out[i] = runReal(&j.Cases[i], j.Subjects)
		}
		return out, nil
	})
}

func toBits(fl []string) bitfield.BitField8 {
	var f bitfield.BitField8
	for _, s := range fl {
		for _, fg := range flag.Flags {
			if string(flag.ToChar(fg)) == s {
				f.SetFlag(fg)
			}
		}
	}
	return f
}

// compileLiteral runs the pipeline of a regex literal step by step: regex/parser, regex.Transpile,
// then value.CompileRegex (which repeats both and hands the text to regexp.Compile).
func compileLiteral(src string, fl []string, out *RealOut) *value.Regex {
	if _, errs := parser.Parse(src); errs != nil {
		out.Stage, out.Err = "parse", errs.Error()
		return nil
	}
	goSrc, errs := regex.Transpile(src, toBits(fl))
	if errs != nil {
		out.Stage, out.Err = "error", "transpile: "+errs.Error()
		return nil
	}
	out.GoSrc = goSrc
	re, err := value.CompileRegex(src, toBits(fl))
	if err != nil {
		out.Stage, out.Err = "error", "compile: "+err.Error()
		return nil
	}
	return re
}

func runReal(c *RealCase, subjects []string) (out RealOut) {
	out.ID = c.ID
	defer func() {
		if r := recover(); r != nil {
			out.Stage, out.Err = "panic", fmt.Sprint(r)
		}
	}()
	re := compileLiteral(c.Src, c.Fl, &out)
	if re == nil {
		return
	}
	switch c.Op {
	case "plus":
		var o2 RealOut
		re2 := compileLiteral(c.Src2, c.Fl2, &o2)
		if re2 == nil {
			out.Stage, out.Err = o2.Stage, "right operand: "+o2.Err
			return
		}
		out.GoSrc = ""
		v, err := re.ConcatVal(re2.ToValue())
		if !err.IsUndefined() {
			out.Stage, out.Err = "error", errText(err)
			return
		}
		re = v.AsReference().(*value.Regex)
		out.GoSrc = re.Re.String()
	case "times":
		v, err := re.RepeatVal(value.SmallInt(c.N).ToValue())
		if !err.IsUndefined() {
			out.Stage, out.Err = "error", errText(err)
			return
		}
		re = v.AsReference().(*value.Regex)
		out.GoSrc = re.Re.String()
	}
	var b strings.Builder
	for _, s := range subjects {
		if re.MatchesString(s) {
			b.WriteByte('1')
		} else {
			b.WriteByte('0')
		}
	}
	out.Stage, out.Acc = "ok", b.String()
	return
}

func errText(v value.Value) (s string) {
	defer func() {
		if r := recover(); r != nil {
			s = "error value"
		}
	}()
	if e, ok := v.SafeAsReference().(*value.Object); ok {
		return e.Error()
	}
	return v.Inspect()
}
