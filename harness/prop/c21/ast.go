// Package c21: regex translation preserves Elk regex semantics (spec/Regex/Regex.tla).
package c21

import (
	"strconv"
	"strings"
)

// Node mirrors the uniform syntax-tree record of spec/Regex/Regex.tla (all fields always present,
// because TLC compares records field by field).
type Node struct {
	K    string   `json:"k"`    // char dot sh anchor range class group setflags cat alt q ws cmt
	V    string   `json:"v"`    // variant: shorthand letter, anchor, group kind, quantifier form
	C    int      `json:"c"`    // code point (char, ws)
	Lo   int      `json:"lo"`   // quantifier / range bounds
	Hi   int      `json:"hi"`   // -1 = unbounded
	Lazy bool     `json:"lazy"` // lazy quantifier
	Neg  bool     `json:"neg"`  // negated class
	On   []string `json:"on"`   // flags switched on by a group / (?on-off)
	Off  []string `json:"off"`
	Txt  []int    `json:"txt"`  // comment text
	Term bool     `json:"term"` // comment terminated by a newline
	Xs   []*Node  `json:"xs"`   // children
}

// Case mirrors the case record of the specification.
type Case struct {
	ID   int      `json:"id"`
	Op   string   `json:"op"` // lit | plus | times
	Re   *Node    `json:"re"`
	Fl   []string `json:"fl"`
	Re2  *Node    `json:"re2"`
	Fl2  []string `json:"fl2"`
	N    int      `json:"n"`
	Impl []any    `json:"impl"` // ["none"] | ["error"] | ["ok", vector]
}

const (
	cLa, cUA, cUB, cLb, cEac, cAr3 = 97, 65, 66, 98, 233, 1635
	cD7, cUS, cSP, cNBSP, cNL      = 55, 95, 32, 160, 10
	cHash, cPipe                   = 35, 124
	inf                            = -1
)

var patChars = []int{cLa, cUB, cEac, cAr3, cUS, cSP, cNL, cHash, cPipe}
var subjChars = []int{cLa, cUA, cUB, cLb, cEac, cAr3, cD7, cUS, cSP, cNBSP, cNL, cHash, cPipe}
var flagOrder = []string{"i", "m", "s", "U", "x", "a"}

func z(k string) *Node {
	return &Node{K: k, On: []string{}, Off: []string{}, Txt: []int{}, Xs: []*Node{}}
}
func Char(c int) *Node      { n := z("char"); n.C = c; return n }
func Dot() *Node            { return z("dot") }
func Sh(v string) *Node     { n := z("sh"); n.V = v; return n }
func Anchor(v string) *Node { n := z("anchor"); n.V = v; return n }
func Rng(a, b int) *Node    { n := z("range"); n.Lo, n.Hi = a, b; return n }
func Class(neg bool, items ...*Node) *Node {
	n := z("class")
	n.Neg, n.Xs = neg, items
	return n
}
func Group(v string, r *Node) *Node { n := z("group"); n.V = v; n.Xs = []*Node{r}; return n }
func FlagGroup(on, off []string, r *Node) *Node {
	n := z("group")
	n.V, n.On, n.Off, n.Xs = "flags", on, off, []*Node{r}
	return n
}
func SetFlags(on, off []string) *Node { n := z("setflags"); n.On, n.Off = on, off; return n }
func Cat(xs ...*Node) *Node           { n := z("cat"); n.Xs = xs; return n }
func Alt(xs ...*Node) *Node           { n := z("alt"); n.Xs = xs; return n }
func Q(v string, lo, hi int, lazy bool, r *Node) *Node {
	n := z("q")
	n.V, n.Lo, n.Hi, n.Lazy, n.Xs = v, lo, hi, lazy, []*Node{r}
	return n
}
func Ws(c int) *Node                 { n := z("ws"); n.C = c; return n }
func Cmt(txt []int, term bool) *Node { n := z("cmt"); n.Txt, n.Term = txt, term; return n }

func zeroNode() *Node { return z("") }

func hasFlag(fl []string, f string) bool {
	for _, x := range fl {
		if x == f {
			return true
		}
	}
	return false
}

// canonical (i m s U x a) order
func sortFlags(set map[string]bool) []string {
	out := []string{}
	for _, f := range flagOrder {
		if set[f] {
			out = append(out, f)
		}
	}
	return out
}

func flagSet(fl []string) map[string]bool {
	m := map[string]bool{}
	for _, f := range fl {
		m[f] = true
	}
	return m
}

func applyFlags(cur map[string]bool, n *Node) map[string]bool {
	out := map[string]bool{}
	for k, v := range cur {
		if v {
			out[k] = true
		}
	}
	for _, f := range n.On {
		out[f] = true
	}
	for _, f := range n.Off {
		delete(out, f)
	}
	return out
}

// flagsAfter mirrors FlagsAfter of the specification.
func flagsAfter(n *Node, cur map[string]bool) map[string]bool {
	switch n.K {
	case "setflags":
		return applyFlags(cur, n)
	case "cat", "alt":
		for _, x := range n.Xs {
			cur = flagsAfter(x, cur)
		}
	}
	return cur
}

// ---- printing a tree as Elk regex text -------------------------------------------------------------

const metaChars = `.?-+*^\|$()[]{}`

// Print renders the tree as Elk regex source under the given top-level flags. Only the spelling of
// literal white space and `#` depends on the flags: where `x` is in force they are written `\ `,
// `\n` and `[#]`, elsewhere raw.
func Print(n *Node, fl []string) string {
	var b strings.Builder
	printNode(&b, n, flagSet(fl))
	return b.String()
}

func printNode(b *strings.Builder, n *Node, fl map[string]bool) {
	switch n.K {
	case "char":
		c := rune(n.C)
		switch {
		case fl["x"] && c == ' ':
			b.WriteString(`\ `)
		case fl["x"] && c == '\n':
			b.WriteString(`\n`)
		case fl["x"] && c == '#':
			b.WriteString(`[#]`)
		case strings.ContainsRune(metaChars, c):
			b.WriteByte('\\')
			b.WriteRune(c)
		default:
			b.WriteRune(c)
		}
	case "dot":
		b.WriteByte('.')
	case "sh":
		b.WriteString(`\` + n.V)
	case "anchor":
		switch n.V {
		case "^", "$":
			b.WriteString(n.V)
		default:
			b.WriteString(`\` + n.V)
		}
	case "class":
		b.WriteByte('[')
		if n.Neg {
			b.WriteByte('^')
		}
		for _, it := range n.Xs {
			switch it.K {
			case "char":
				b.WriteRune(rune(it.C))
			case "range":
				b.WriteRune(rune(it.Lo))
				b.WriteByte('-')
				b.WriteRune(rune(it.Hi))
			case "sh":
				b.WriteString(`\` + it.V)
			}
		}
		b.WriteByte(']')
	case "group":
		switch n.V {
		case "cap":
			b.WriteByte('(')
		case "noncap":
			b.WriteString("(?:")
		case "named":
			b.WriteString("(?<n>")
		case "flags":
			b.WriteString("(?" + flagText(n) + ":")
		}
		printNode(b, n.Xs[0], applyFlags(fl, n))
		b.WriteByte(')')
	case "setflags":
		b.WriteString("(?" + flagText(n) + ")")
	case "cat", "alt":
		cur := fl
		for i, x := range n.Xs {
			if i > 0 && n.K == "alt" {
				b.WriteByte('|')
			}
			printNode(b, x, cur)
			cur = flagsAfter(x, cur)
		}
	case "q":
		printNode(b, n.Xs[0], fl)
		switch n.V {
		case "?", "*", "+":
			b.WriteString(n.V)
		case "{n}":
			b.WriteString("{" + itoa(n.Lo) + "}")
		case "{n,}":
			b.WriteString("{" + itoa(n.Lo) + ",}")
		case "{n,m}":
			b.WriteString("{" + itoa(n.Lo) + "," + itoa(n.Hi) + "}")
		case "{,m}":
			b.WriteString("{," + itoa(n.Hi) + "}")
		}
		if n.Lazy {
			b.WriteByte('?')
		}
	case "ws":
		b.WriteRune(rune(n.C))
	case "cmt":
		b.WriteByte('#')
		for _, c := range n.Txt {
			b.WriteRune(rune(c))
		}
		if n.Term {
			b.WriteByte('\n')
		}
	}
}

func flagText(n *Node) string {
	s := strings.Join(n.On, "")
	if len(n.Off) > 0 {
		s += "-" + strings.Join(n.Off, "")
	}
	return s
}

func itoa(i int) string { return strconv.Itoa(i) }

func runesToString(cs []int) string {
	var b strings.Builder
	for _, c := range cs {
		b.WriteRune(rune(c))
	}
	return b.String()
}

// hasTrivia reports whether the tree contains extended-mode trivia.
func hasTrivia(n *Node) bool {
	if n == nil {
		return false
	}
	if n.K == "ws" || n.K == "cmt" {
		return true
	}
	for _, x := range n.Xs {
		if hasTrivia(x) {
			return true
		}
	}
	return false
}
