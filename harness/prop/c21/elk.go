package c21

import (
	"fmt"
	"strings"

	"elkverif/internal/core"
	"elkverif/internal/elkrun"
)

// literalPath sends a seeded sample of the cases through the whole implementation: the pattern is
// written as a %/../flags literal (and `+` as the Elk operator) in an Elk program, compiled by the
// real compiler (constant path of compiler/resolve.go) and matched by the VM. The observations must
// equal what the Go-level binding observed for the same case, which in turn was compared with TLC.
type litProbe struct {
	cs    *Case
	subj  []int // indices into subjects
	want  string
	lines []string
}

func elkString(s string) string {
	var b strings.Builder
	b.WriteByte('"')
	for _, r := range s {
		switch r {
		case '\n':
			b.WriteString(`\n`)
		case '"', '\\', '#':
			b.WriteByte('\\')
			b.WriteRune(r)
		default:
			b.WriteRune(r)
		}
	}
	b.WriteByte('"')
	return b.String()
}

func literalOf(re *Node, fl []string) string {
	return "%/" + Print(re, fl) + "/" + strings.Join(fl, "")
}

func emitProbes(ps []*litProbe, subjects []string) string {
	var b strings.Builder
	b.WriteString(elkrun.Prelude)
	for _, p := range ps {
		fmt.Fprintf(&b, "println \"@case %d\"\n", p.cs.ID)
		for _, si := range p.subj {
			if p.cs.Op == "plus" {
				fmt.Fprintf(&b, "o((%s + %s).matches(%s))\n", literalOf(p.cs.Re, p.cs.Fl), literalOf(p.cs.Re2, p.cs.Fl2), elkString(subjects[si]))
			} else {
				fmt.Fprintf(&b, "o(%s.matches(%s))\n", literalOf(p.cs.Re, p.cs.Fl), elkString(subjects[si]))
			}
		}
	}
	return b.String()
}

func splitCases(stdout string) map[int][]string {
	per := map[int][]string{}
	cur := -1
	for _, line := range strings.Split(strings.TrimRight(stdout, "\n"), "\n") {
		var id int
		if strings.HasPrefix(line, "@case ") {
			if n, _ := fmt.Sscanf(line, "@case %d", &id); n == 1 {
				cur = id
				per[cur] = []string{}
				continue
			}
		}
		if cur >= 0 {
			per[cur] = append(per[cur], line)
		}
	}
	return per
}

func literalPath(c *core.Ctx, pool *core.Pool, cases []*Case, real map[int]*RealOut, subjects []string) error {
	var eligible []*Case
	for _, cs := range cases {
		if ro := real[cs.ID]; ro.Stage == "ok" && (cs.Op == "lit" || cs.Op == "plus") {
			eligible = append(eligible, cs)
		}
	}
	var probes []*litProbe
	for _, i := range c.SampleIdx(len(eligible), c.Pick(320, 2400)) {
		cs := eligible[i]
		acc := real[cs.ID].Acc
		p := &litProbe{cs: cs}
		// up to 3 accepted and 3 rejected subjects, seeded
		var yes, no []int
		for k := range acc {
			if acc[k] == '1' {
				yes = append(yes, k)
			} else {
				no = append(no, k)
			}
		}
		for _, set := range [][]int{yes, no} {
			perm := c.Rand.Perm(len(set))
			if len(perm) > 3 {
				perm = perm[:3]
			}
			for _, k := range perm {
				p.subj = append(p.subj, set[k])
			}
		}
		var w strings.Builder
		for _, si := range p.subj {
			if acc[si] == '1' {
				w.WriteString("true\n")
			} else {
				w.WriteString("false\n")
			}
		}
		p.want = w.String()
		probes = append(probes, p)
	}
	const batch = 40
	runBatches := func(bs [][]*litProbe) (retry [][]*litProbe, err error) {
		var jobs []core.Job
		for _, b := range bs {
			jobs = append(jobs, core.Job{Kind: "elk", Payload: elkrun.Job{Src: emitProbes(b, subjects), RunMs: 20000}, TimeoutMs: 60000})
		}
		for bi, jr := range pool.Map(jobs, nil) {
			b := bs[bi]
			var r elkrun.Result
			switch {
			case jr.Crashed || jr.Panic != "":
				r.GoPanic = "worker died: " + jr.Panic + jr.CrashLog
			case jr.Timeout:
				r.Hung = true
			case jr.Err != "":
				return nil, core.Inconclusivef("worker error: %s", jr.Err)
			default:
				if e := jr.Decode(&r); e != nil {
					return nil, core.Inconclusivef("bad worker result: %v", e)
				}
			}
			per := splitCases(r.Stdout)
			clean := r.Accepted && r.GoPanic == "" && !r.Hung && r.ErrClass == "" && len(per) == len(b)
			if !clean && len(b) > 1 {
				for _, p := range b {
					retry = append(retry, []*litProbe{p})
				}
				continue
			}
			for _, p := range b {
				got := strings.Join(per[p.cs.ID], "\n")
				if len(per[p.cs.ID]) > 0 {
					got += "\n"
				}
				src := emitProbes([]*litProbe{p}, subjects)
				switch {
				case r.GoPanic != "" || r.Hung:
					c.Violation(map[string]any{"kind": "go_panic", "path": "elk_literal", "case": p.cs, "pattern": describe(p.cs), "source": src, "panic": r.GoPanic,
						"summary": fmt.Sprintf("Go panic / hang running the literal %s: %s", describe(p.cs), firstLine(r.GoPanic))})
				case !r.Accepted:
					// the Elk *source* lexer refused the literal text: outside what the regex parser was given
					c.CovAdd("literal_rejected_by_elk_front_end", 1)
					if c.CovInt("literal_rejected_by_elk_front_end") <= 3 {
						c.Note(fmt.Sprintf("literal rejected by the Elk front end: %s: %s", describe(p.cs), firstLine(r.Diags)))
					}
				case r.ErrClass != "":
					c.Violation(map[string]any{"kind": "literal_path_differs", "case": p.cs, "pattern": describe(p.cs), "source": src,
						"summary": fmt.Sprintf("%s compiles through value.CompileRegex but the Elk program raises %s: %s", describe(p.cs), r.ErrClass, r.ErrMsg)})
				case got != p.want:
					c.Violation(map[string]any{"kind": "literal_path_differs", "case": p.cs, "pattern": describe(p.cs), "source": src,
						"expected": p.want, "observed": got,
						"summary": fmt.Sprintf("the literal %s in an Elk program matches differently from value.CompileRegex on the same text: want %q got %q", describe(p.cs), p.want, got)})
				default:
					c.CovAdd("traces_validated_against_impl", 1)
					c.CovAdd("elk_literal_programs_agreeing", 1)
				}
			}
		}
		return retry, nil
	}
	var bs [][]*litProbe
	for i := 0; i < len(probes); i += batch {
		j := i + batch
		if j > len(probes) {
			j = len(probes)
		}
		bs = append(bs, probes[i:j])
	}
	retry, err := runBatches(bs)
	if err != nil {
		return err
	}
	if len(retry) > 0 {
		if _, err := runBatches(retry); err != nil {
			return err
		}
	}
	c.Logf("%%/../ literals through compiler+VM: %d cases, %d agree, %d rejected by the Elk front end", len(probes),
		c.CovInt("elk_literal_programs_agreeing"), c.CovInt("literal_rejected_by_elk_front_end"))
	if c.CovInt("elk_literal_programs_agreeing")*2 < len(probes) && c.Violations() == 0 {
		return core.Inconclusivef("only %d of %d literal programs could be compared", c.CovInt("elk_literal_programs_agreeing"), len(probes))
	}
	return nil
}
