package c21

import "math/rand"

// gen is the seeded generator of well-formed syntax trees beyond the families TLC enumerates itself.
// It mirrors the WF predicate of the specification; TLC re-checks every generated case against WF
// (invariant InDomain), so a generator bug shows up as an inconclusive run, not as a wrong verdict.
type gen struct{ r *rand.Rand }

func (g *gen) pick(xs ...string) string { return xs[g.r.Intn(len(xs))] }

func (g *gen) flags() []string {
	set := map[string]bool{}
	for _, f := range flagOrder {
		p := 0.25
		if f == "x" {
			p = 0.45
		}
		if g.r.Float64() < p {
			set[f] = true
		}
	}
	return sortFlags(set)
}

func (g *gen) someFlags() (on, off []string) {
	perm := g.r.Perm(len(flagOrder))
	n := 1 + g.r.Intn(2)
	onSet, offSet := map[string]bool{}, map[string]bool{}
	for _, i := range perm[:n] {
		f := flagOrder[i]
		if f == "x" && g.r.Intn(3) > 0 || g.r.Intn(2) == 0 {
			onSet[f] = true
		} else {
			offSet[f] = true
		}
	}
	return sortFlags(onSet), sortFlags(offSet)
}

func (g *gen) char() *Node {
	// bias towards the plain letters, so that deeper patterns still accept something
	if g.r.Intn(2) == 0 {
		return Char([]int{cLa, cUB}[g.r.Intn(2)])
	}
	return Char(patChars[g.r.Intn(len(patChars))])
}

func (g *gen) sh() *Node { return Sh(g.pick("w", "W", "d", "D", "s", "S", "h", "H")) }

func (g *gen) class() *Node {
	n := 1 + g.r.Intn(3)
	var items []*Node
	for i := 0; i < n; i++ {
		switch g.r.Intn(6) {
		case 0, 1, 2:
			items = append(items, Char(patChars[g.r.Intn(len(patChars))]))
		case 3, 4:
			items = append(items, g.sh())
		default:
			a, b := patChars[g.r.Intn(len(patChars))], patChars[g.r.Intn(len(patChars))]
			if a == b {
				items = append(items, Char(a))
			} else {
				if a > b {
					a, b = b, a
				}
				items = append(items, Rng(a, b))
			}
		}
	}
	return Class(g.r.Intn(3) == 0, items...)
}

func (g *gen) atom(pos string) *Node {
	switch k := g.r.Intn(10); {
	case k < 4:
		return g.char()
	case k == 4:
		return Dot()
	case k == 5:
		return g.sh()
	case k == 6 && pos != "arg":
		return Anchor(g.pick("^", "$", "A", "z"))
	case k <= 8:
		return g.class()
	default:
		return g.char()
	}
}

func (g *gen) quant(d int, fl map[string]bool) *Node {
	var body *Node
	if d > 0 && g.r.Intn(3) == 0 {
		body = g.group(d-1, fl)
	} else {
		body = g.atom("arg")
	}
	lazy := g.r.Intn(3) == 0
	switch g.r.Intn(7) {
	case 0:
		return Q("?", 0, 1, lazy, body)
	case 1:
		return Q("*", 0, inf, lazy, body)
	case 2:
		return Q("+", 1, inf, lazy, body)
	case 3:
		n := g.r.Intn(3)
		return Q("{n}", n, n, lazy, body)
	case 4:
		return Q("{n,}", g.r.Intn(3), inf, lazy, body)
	case 5:
		lo := g.r.Intn(2)
		return Q("{n,m}", lo, lo+g.r.Intn(3), lazy, body)
	default:
		return Q("{,m}", 0, 1+g.r.Intn(2), lazy, body)
	}
}

func (g *gen) group(d int, fl map[string]bool) *Node {
	switch g.r.Intn(5) {
	case 0:
		return Group("cap", g.expr("body", d, fl, false))
	case 1:
		return Group("noncap", g.expr("body", d, fl, false))
	case 2:
		return Group("named", g.expr("body", d, fl, false))
	default:
		on, off := g.someFlags()
		n := FlagGroup(on, off, nil)
		n.Xs = []*Node{g.expr("body", d, applyFlags(fl, n), false)}
		return n
	}
}

func (g *gen) comment(last bool) *Node {
	n := g.r.Intn(4)
	txt := []int{}
	piped := false
	for i := 0; i < n; i++ {
		var c int
		switch k := g.r.Intn(8); {
		case k < 2:
			c = cPipe
		case k < 5:
			c = []int{cLa, cUB}[g.r.Intn(2)]
		default:
			c = patChars[g.r.Intn(len(patChars))]
		}
		if c == cNL || (piped && c == cHash) {
			c = cLa
		}
		if c == cPipe {
			piped = true
		}
		txt = append(txt, c)
	}
	term := true
	if last && g.r.Intn(2) == 0 {
		term = false
	}
	return Cmt(txt, term)
}

func (g *gen) cat(pos string, d int, fl map[string]bool, last bool) *Node {
	n := 2 + g.r.Intn(3)
	var xs []*Node
	cur := fl
	for i := 0; i < n; i++ {
		isLast := last && pos == "top" && i == n-1
		var e *Node
		k := g.r.Intn(12)
		switch {
		case cur["x"] && k < 2:
			e = Ws([]int{cSP, cNL}[g.r.Intn(2)])
		case cur["x"] && k < 5:
			e = g.comment(isLast)
		case k == 5 && pos != "branch":
			on, off := g.someFlags()
			e = SetFlags(on, off)
		case k == 6 && d > 0:
			e = g.quant(d-1, cur)
		case k == 7 && d > 0:
			e = g.group(d-1, cur)
		default:
			e = g.atom("elem")
		}
		xs = append(xs, e)
		cur = flagsAfter(e, cur)
	}
	return Cat(xs...)
}

// expr generates a tree for the given position (see WF in the specification).
func (g *gen) expr(pos string, d int, fl map[string]bool, last bool) *Node {
	if d <= 0 {
		return g.atom(pos)
	}
	k := g.r.Intn(10)
	switch {
	case k < 4 && (pos == "top" || pos == "body" || pos == "branch"):
		return g.cat(pos, d, fl, last)
	case k < 6 && (pos == "top" || pos == "body"):
		n := 2 + g.r.Intn(2)
		var xs []*Node
		cur := fl
		for i := 0; i < n; i++ {
			e := g.expr("branch", d-1, cur, false)
			xs = append(xs, e)
			cur = flagsAfter(e, cur)
		}
		return Alt(xs...)
	case k < 7 && pos != "arg":
		return g.quant(d-1, fl)
	case k < 9:
		return g.group(d-1, fl)
	default:
		return g.atom(pos)
	}
}

func (g *gen) litCase(id, depth int) *Case {
	fl := g.flags()
	return &Case{ID: id, Op: "lit", Re: g.expr("top", depth, flagSet(fl), true), Fl: fl,
		Re2: zeroNode(), Fl2: []string{}, Impl: []any{"none"}}
}

func (g *gen) composeCase(id, depth int) *Case {
	c := g.litCase(id, depth)
	if g.r.Intn(2) == 0 {
		c.Op = "plus"
		c.Fl2 = g.flags()
		c.Re2 = g.expr("top", depth, flagSet(c.Fl2), true)
	} else {
		c.Op = "times"
		c.N = g.r.Intn(4)
	}
	return c
}
