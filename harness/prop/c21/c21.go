package c21

import (
	"bytes"
	"encoding/json"
	"fmt"
	"os"
	"path/filepath"
	"sort"
	"strings"
	"sync"
	"time"
	"unicode"

	"elkverif/internal/core"
	"elkverif/internal/tlc"
)

func init() {
	core.Register(&core.Check{ID: "C21", Level: "model_checking", Run: run})
}

// shard is one TLC run: a set of families of the specification (or a file of generated cases)
// crossed with a set of flag sets.
type shard struct {
	name     string
	families []string
	flagSets map[string][][]string // family -> flag sets
	classN   int
	txtLen   int
	file     []*Case
	cfg      string
}

// pred is the specification's prediction for one case.
type pred struct {
	c     *Case
	acc   string
	shard string
}

type genRec struct {
	ID     int              `json:"id"`
	Acc    []int            `json:"acc"`
	Cs     *Case            `json:"cs"`
	Tables map[string][]int `json:"tables"`
}

func tlaStr(s string) string { return `"` + s + `"` }

func tlaSet(xs []string) string {
	q := make([]string, len(xs))
	for i, x := range xs {
		q[i] = tlaStr(x)
	}
	return "{" + strings.Join(q, ", ") + "}"
}

func tlaSeqInts(xs []int) string {
	q := make([]string, len(xs))
	for i, x := range xs {
		q[i] = itoa(x)
	}
	return "<<" + strings.Join(q, ",") + ">>"
}

func mcModule(sh *shard, subjects [][]int, deviations []string) []byte {
	var fs []string
	for _, fam := range []string{"atoms", "ops", "trivia"} {
		var q []string
		for _, f := range sh.flagSets[fam] {
			q = append(q, tlaSet(f))
		}
		fs = append(fs, fmt.Sprintf("%s |-> {%s}", fam, strings.Join(q, ", ")))
	}
	var ss []string
	for _, s := range subjects {
		ss = append(ss, tlaSeqInts(s))
	}
	return []byte(fmt.Sprintf(`---- MODULE MC_Regex ----
EXTENDS Regex
MCDeviations == %s
MCFamilies == %s
MCFlagSets == [%s]
MCClassItemsN == %d
MCTxtLen == %d
MCSubjSeq == << %s >>
====
`, tlaSet(deviations), tlaSet(sh.families), strings.Join(fs, ", "), sh.classN, sh.txtLen, strings.Join(ss, ", ")))
}

var specDir = filepath.Join(core.VerifRoot, "spec", "Regex")

// runShard runs TLC on one shard and returns the predictions in emission order.
func runShard(c *core.Ctx, sh *shard, subjects [][]int, deviations []string, workers int, timeout time.Duration) ([]*pred, *tlc.Result, map[string][]int, error) {
	extra := map[string][]byte{"MC_Regex.tla": mcModule(sh, subjects, deviations)}
	byID := map[int]*Case{}
	if sh.file != nil {
		var nd bytes.Buffer
		for _, cs := range sh.file {
			b, err := json.Marshal(cs)
			if err != nil {
				return nil, nil, nil, err
			}
			nd.Write(b)
			nd.WriteByte('\n')
			byID[cs.ID] = cs
		}
		extra["cases.ndjson"] = nd.Bytes()
	}
	cfg := sh.cfg
	if cfg == "" {
		cfg = "MC.cfg"
	}
	var preds []*pred
	var tables map[string][]int
	var perr error
	res, err := tlc.Run(tlc.Opts{
		SpecDir: specDir, Module: "MC_Regex", Cfg: cfg, Scratch: c.Scratch, Workers: workers,
		Timeout: timeout, HeapMB: 4000, Extra: extra,
		OnGen: func(rec []byte) {
			var g genRec
			if e := json.Unmarshal(rec, &g); e != nil {
				perr = fmt.Errorf("bad GEN record: %v: %.300s", e, rec)
				return
			}
			if g.Tables != nil {
				tables = g.Tables
				return
			}
			p := &pred{shard: sh.name}
			if g.ID > 0 {
				p.c = byID[g.ID]
				if p.c == nil {
					perr = fmt.Errorf("GEN record for unknown case %d", g.ID)
					return
				}
			} else {
				p.c = g.Cs
			}
			var b strings.Builder
			for _, v := range g.Acc {
				b.WriteByte(byte('0' + v))
			}
			p.acc = b.String()
			preds = append(preds, p)
		},
	})
	if err != nil {
		return nil, nil, nil, err
	}
	if perr != nil {
		return nil, res, nil, perr
	}
	return preds, res, tables, nil
}

// ---- subjects --------------------------------------------------------------------------------------

func buildSubjects(c *core.Ctx) [][]int {
	subj := [][]int{{}}
	for _, a := range subjChars {
		subj = append(subj, []int{a})
	}
	// every pair over the characters that interact with the constructs (case, Unicode letter and digit,
	// both kinds of white space, # and |); b 7 _ NBSP are covered as single characters and in the sample
	for _, a := range pairChars {
		for _, b := range pairChars {
			subj = append(subj, []int{a, b})
		}
	}
	// longer subjects: seeded, biased towards the characters patterns are made of
	common := []int{cLa, cUB, cUA, cSP, cNL, cLb}
	seen := map[string]bool{}
	for len(seen) < c.Pick(40, 90) {
		n := 3 + c.Rand.Intn(2)
		s := make([]int, n)
		for i := range s {
			if c.Rand.Intn(4) > 0 {
				s[i] = common[c.Rand.Intn(len(common))]
			} else {
				s[i] = subjChars[c.Rand.Intn(len(subjChars))]
			}
		}
		k := fmt.Sprint(s)
		if !seen[k] {
			seen[k] = true
			subj = append(subj, s)
		}
	}
	return subj
}

// checkTables compares the Unicode facts the specification assumes with Go's unicode package.
func checkTables(t map[string][]int) error {
	if t == nil {
		return fmt.Errorf("the specification did not print its tables")
	}
	in := func(name string, ch int) bool {
		for _, x := range t[name] {
			if x == ch {
				return true
			}
		}
		return false
	}
	if len(t["all"]) != len(subjChars) {
		return fmt.Errorf("alphabet of the specification has %d characters, the harness has %d", len(t["all"]), len(subjChars))
	}
	for _, ch := range t["all"] {
		r := rune(ch)
		checks := []struct {
			name string
			want bool
		}{
			{"letters", unicode.IsLetter(r)}, {"digits", unicode.Is(unicode.Nd, r)}, {"connectors", unicode.Is(unicode.Pc, r)},
			{"space", unicode.Is(unicode.White_Space, r)}, {"hspace", r == '\t' || unicode.Is(unicode.Zs, r)},
		}
		for _, k := range checks {
			if in(k.name, ch) != k.want {
				return fmt.Errorf("table %q of the specification is wrong for U+%04X", k.name, ch)
			}
		}
		if unicode.Is(unicode.Mn, r) {
			return fmt.Errorf("U+%04X is a mark: the specification's \\w table ignores marks", ch)
		}
	}
	return nil
}

// ---- the check -------------------------------------------------------------------------------------

var pairChars = []int{cLa, cUA, cUB, cEac, cAr3, cSP, cNL, cHash, cPipe}

var allFlagSets = func() [][]string {
	var out [][]string
	for m := 0; m < 64; m++ {
		set := map[string]bool{}
		for i, f := range flagOrder {
			if m&(1<<i) != 0 {
				set[f] = true
			}
		}
		out = append(out, sortFlags(set))
	}
	return out
}()

func realCaseOf(cs *Case) RealCase {
	rc := RealCase{ID: cs.ID, Op: cs.Op, Src: Print(cs.Re, cs.Fl), Fl: cs.Fl, Fl2: cs.Fl2, N: cs.N}
	if cs.Op == "plus" {
		rc.Src2 = Print(cs.Re2, cs.Fl2)
	}
	return rc
}

func describe(cs *Case) string {
	switch cs.Op {
	case "plus":
		return fmt.Sprintf("%%/%s/%s + %%/%s/%s", Print(cs.Re, cs.Fl), strings.Join(cs.Fl, ""), Print(cs.Re2, cs.Fl2), strings.Join(cs.Fl2, ""))
	case "times":
		return fmt.Sprintf("%%/%s/%s * %d", Print(cs.Re, cs.Fl), strings.Join(cs.Fl, ""), cs.N)
	}
	return fmt.Sprintf("%%/%s/%s", Print(cs.Re, cs.Fl), strings.Join(cs.Fl, ""))
}

func runRealAll(c *core.Ctx, pool *core.Pool, cases []*Case, subjects []string) (map[int]*RealOut, error) {
	const batch = 150
	var jobs []core.Job
	for i := 0; i < len(cases); i += batch {
		j := i + batch
		if j > len(cases) {
			j = len(cases)
		}
		rj := RealJob{Subjects: subjects}
		for _, cs := range cases[i:j] {
			rj.Cases = append(rj.Cases, realCaseOf(cs))
		}
		jobs = append(jobs, core.Job{Kind: "c21", Payload: rj, TimeoutMs: 120000})
	}
	out := map[int]*RealOut{}
	for ji, jr := range pool.Map(jobs, nil) {
		if jr.Err != "" || jr.Panic != "" || jr.Crashed || jr.Timeout {
			// attribute the failure to one case: re-run the batch one case per job
			rj := jobs[ji].Payload.(RealJob)
			var single []core.Job
			for _, rc := range rj.Cases {
				single = append(single, core.Job{Kind: "c21", Payload: RealJob{Subjects: subjects, Cases: []RealCase{rc}}, TimeoutMs: 30000})
			}
			for si, sr := range pool.Map(single, nil) {
				rc := rj.Cases[si]
				switch {
				case sr.Crashed || sr.Panic != "":
					out[rc.ID] = &RealOut{ID: rc.ID, Stage: "panic", Err: "worker died: " + sr.Panic + sr.CrashLog}
				case sr.Timeout:
					out[rc.ID] = &RealOut{ID: rc.ID, Stage: "panic", Err: "regex compilation/matching did not terminate within 30 s"}
				case sr.Err != "":
					return nil, core.Inconclusivef("worker error: %s", sr.Err)
				default:
					var ro []RealOut
					if err := sr.Decode(&ro); err != nil || len(ro) != 1 {
						return nil, core.Inconclusivef("bad worker result: %v", err)
					}
					out[rc.ID] = &ro[0]
				}
			}
			continue
		}
		var ro []RealOut
		if err := jr.Decode(&ro); err != nil {
			return nil, core.Inconclusivef("bad worker result: %v", err)
		}
		for i := range ro {
			out[ro[i].ID] = &ro[i]
		}
	}
	return out, nil
}

func diffSubjects(want, got string, subjects []string) string {
	var parts []string
	n := 0
	for i := range want {
		if i < len(got) && want[i] != got[i] {
			n++
			if len(parts) < 4 {
				verb := "must accept"
				if want[i] == '0' {
					verb = "must reject"
				}
				parts = append(parts, fmt.Sprintf("%s %q", verb, subjects[i]))
			}
		}
	}
	return fmt.Sprintf("%d of %d subjects differ: %s", n, len(want), strings.Join(parts, ", "))
}

func run(c *core.Ctx) error {
	if c.Replay != "" {
		return replay(c)
	}
	subjInts := buildSubjects(c)
	subjects := make([]string, len(subjInts))
	for i, s := range subjInts {
		subjects[i] = runesToString(s)
	}
	g := &gen{r: c.Rand}

	// ---- the bounded instance
	few := [][]string{{}, {"i", "m", "s"}, {"x", "a"}, {"i", "m", "s", "U", "x", "a"}}
	more := append([][]string{}, few...)
	more = append(more, [][]string{{"i"}, {"m"}, {"s"}, {"x"}, {"a"}, {"U"}, {"i", "x"}, {"i", "a"}, {"m", "x"}, {"s", "U"}, {"m", "s"}, {"U", "a"}}...)
	xsets := [][]string{{"x"}, {}, {"i", "x"}}
	if c.Thorough() {
		xsets = append(xsets, []string{"x", "a"}, []string{"m", "s", "U", "x"}, []string{"i"})
	}
	nextID := 1
	mkFile := func(n, depth int, composePct int) []*Case {
		var out []*Case
		for i := 0; i < n; i++ {
			if c.Rand.Intn(100) < composePct {
				out = append(out, g.composeCase(nextID, depth-1))
			} else {
				out = append(out, g.litCase(nextID, depth))
			}
			nextID++
		}
		return out
	}
	atomSets := allFlagSets // every atom under all 64 flag sets
	opSets := [][][]string{few, more}[c.Pick(0, 1)]
	var shards []*shard
	if c.Thorough() {
		shards = []*shard{
			{name: "atoms", families: []string{"atoms"}, flagSets: map[string][][]string{"atoms": atomSets}, classN: 9},
			{name: "ops", families: []string{"ops", "compose"}, flagSets: map[string][][]string{"ops": opSets}, classN: 1},
			{name: "trivia", families: []string{"trivia"}, flagSets: map[string][][]string{"trivia": xsets}, classN: 1, txtLen: 3},
		}
	} else {
		shards = []*shard{
			{name: "atoms", families: []string{"atoms"}, flagSets: map[string][][]string{"atoms": atomSets}, classN: 3},
			{name: "ops", families: []string{"ops", "compose", "trivia"}, flagSets: map[string][][]string{"ops": opSets, "trivia": xsets}, classN: 1, txtLen: 2},
		}
	}
	nFile := c.Pick(5000, 36000)
	per := c.Pick(2500, 3000)
	for i := 0; i < nFile; i += per {
		depth := 2 + (i/per)%2
		shards = append(shards, &shard{name: fmt.Sprintf("generated-%d", i/per), families: []string{"file"}, classN: 1, file: mkFile(per, depth, 15)})
	}

	// ---- TLC: check the specification's own invariants and compute every prediction
	var mu sync.Mutex
	var preds []*pred
	var firstErr error
	var tables map[string][]int
	par := 2
	if c.Workers >= 12 {
		par = 4
	}
	w := c.Workers / par
	if w < 2 {
		w = 2
	}
	sem := make(chan struct{}, par)
	var wg sync.WaitGroup
	t0 := time.Now()
	for _, sh := range shards {
		wg.Add(1)
		sem <- struct{}{}
		go func(sh *shard) {
			defer wg.Done()
			defer func() { <-sem }()
			ps, res, tb, err := runShard(c, sh, subjInts, nil, w, time.Duration(c.Pick(20, 40))*time.Minute)
			mu.Lock()
			defer mu.Unlock()
			if err == nil && !res.OK {
				err = core.Inconclusivef("TLC on spec/Regex shard %s: verdict=%s %s\n%s", sh.name, res.Verdict, res.What, tailStr(res.Output+res.ErrorTrace, 3000))
			}
			if err != nil {
				if firstErr == nil {
					firstErr = err
				}
				return
			}
			c.Logf("TLC shard %-12s %6d cases, %d states, %.1fs", sh.name, len(ps), res.Distinct, res.WallS)
			c.CovAdd("states", int(res.Distinct))
			c.CovAdd("transitions", int(res.Generated))
			c.CovAdd("cases_"+strings.SplitN(sh.name, "-", 2)[0], len(ps))
			preds = append(preds, ps...)
			if tb != nil {
				tables = tb
			}
		}(sh)
	}
	wg.Wait()
	if firstErr != nil {
		return firstErr
	}
	if err := checkTables(tables); err != nil {
		return core.Inconclusivef("%v", err)
	}
	// deterministic order and ids for the cases TLC enumerated itself
	sort.SliceStable(preds, func(i, j int) bool {
		if preds[i].shard != preds[j].shard {
			return preds[i].shard < preds[j].shard
		}
		if preds[i].c.ID != preds[j].c.ID {
			return preds[i].c.ID < preds[j].c.ID
		}
		return describe(preds[i].c)+strings.Join(preds[i].c.Fl, "") < describe(preds[j].c)+strings.Join(preds[j].c.Fl, "")
	})
	byID := map[int]*pred{}
	var cases []*Case
	for _, p := range preds {
		if p.c.ID == 0 {
			p.c.ID = nextID
			nextID++
		}
		byID[p.c.ID] = p
		cases = append(cases, p.c)
	}
	c.Logf("specification: %d cases x %d subjects predicted in %.1fs", len(cases), len(subjects), time.Since(t0).Seconds())
	c.Cov("spec", "spec/Regex/Regex.tla: MC.cfg (InDomain), Props.cfg (UngreedyIrrelevant, RepeatIsConcat, RepeatOnce), Judge.cfg (ImplConforms)")
	c.Cov("subjects", len(subjects))

	// ---- the specification's own theorems on a small instance (U irrelevant, r*2 = r+r, ...)
	if err := specProps(c, subjInts); err != nil {
		return err
	}

	// ---- the real code
	pool := c.NewPool(c.Workers)
	t1 := time.Now()
	real, err := runRealAll(c, pool, cases, subjects)
	if err != nil {
		return err
	}
	c.Logf("real regex/parser + Transpile + CompileRegex + MatchesString: %d cases in %.1fs", len(real), time.Since(t1).Seconds())

	agree, rejected, errors := 0, 0, 0
	var mism []*mismatch
	for _, cs := range cases {
		p := byID[cs.ID]
		ro := real[cs.ID]
		if ro == nil {
			return core.Inconclusivef("case %d lost", cs.ID)
		}
		switch ro.Stage {
		case "parse":
			rejected++
			if rejected <= 3 {
				c.Note(fmt.Sprintf("outside the domain (Elk regex parser rejects): %s: %s", describe(cs), firstLine(ro.Err)))
			}
		case "error":
			// the statement allows a regex error for any pattern; it is counted, never a violation
			errors++
			if errors <= 3 {
				c.Note(fmt.Sprintf("regex error (allowed outcome): %s: %s", describe(cs), firstLine(ro.Err)))
			}
		case "panic":
			mism = append(mism, &mismatch{cs: cs, real: ro, rec: map[string]any{
				"kind": "go_panic", "case": cs, "pattern": describe(cs), "panic": ro.Err,
				"summary": fmt.Sprintf("Go panic / hang compiling %s: %s", describe(cs), firstLine(ro.Err))}})
		case "ok":
			if ro.Acc == p.acc {
				agree++
				if agree%1499 == 1 {
					c.Sample(map[string]any{"pattern": describe(cs), "go_pattern": ro.GoSrc, "accepted_subjects": strings.Count(p.acc, "1"), "of": len(subjects)})
				}
				continue
			}
			mism = append(mism, &mismatch{cs: cs, real: ro, rec: map[string]any{
				"kind": "accepts_differently", "case": cs, "pattern": describe(cs), "go_pattern": ro.GoSrc,
				"predicted": p.acc, "observed": ro.Acc, "subjects": subjects,
				"summary": fmt.Sprintf("%s compiled to %q: %s", describe(cs), ro.GoSrc, diffSubjects(p.acc, ro.Acc, subjects))}})
		default:
			return core.Inconclusivef("case %d: unknown stage %q", cs.ID, ro.Stage)
		}
	}
	c.Logf("agree=%d regex_errors=%d rejected_by_parser=%d differences=%d", agree, errors, rejected, len(mism))

	// ---- explain differences by the recorded known deviations (spec re-run with the named branch)
	if err := explain(c, mism, subjInts); err != nil {
		return err
	}
	for _, m := range mism {
		c.Violation(m.rec)
	}
	c.CovAdd("traces_validated_against_impl", agree)
	c.Cov("cases", len(cases))
	c.Cov("regex_errors_allowed_outcome", errors)
	c.Cov("rejected_by_elk_regex_parser", rejected)
	c.Cov("differences_explained_by_known_deviations", explainedCount(mism))
	if rejected*10 > len(cases) {
		return core.Inconclusivef("%d of %d generated patterns were rejected by the Elk regex parser: the printer left the domain", rejected, len(cases))
	}
	if (errors+rejected)*2 > len(cases) || agree == 0 {
		return core.Inconclusivef("only %d of %d cases produced a matcher that could be compared (%d regex errors)", agree, len(cases), errors)
	}

	// ---- code -> spec: recorded outcomes of the real code judged by TLC (invariant ImplConforms)
	if err := judgeRecorded(c, cases, real, mism, subjInts); err != nil {
		return err
	}

	// ---- %/../ literals and `+` through the real compiler and VM
	return literalPath(c, pool, cases, real, subjects)
}

func specProps(c *core.Ctx, subjInts [][]int) error {
	sets := [][]string{{"i", "x"}}
	fams := []string{"compose", "trivia"}
	if c.Thorough() {
		sets = append(sets, []string{}, []string{"m", "s", "a"}, []string{"x"})
		fams = append(fams, "ops")
	}
	sh := &shard{name: "props", families: fams, flagSets: map[string][][]string{"ops": sets, "trivia": sets}, classN: 1, txtLen: 1, cfg: "Props.cfg"}
	few := subjInts
	if len(few) > 80 {
		few = append(append([][]int{}, subjInts[:60]...), subjInts[len(subjInts)-20:]...)
	}
	_, res, _, err := runShard(c, sh, few, nil, c.Workers, 6*time.Minute)
	if err != nil {
		return err
	}
	if !res.OK {
		return core.Inconclusivef("the specification violates its own theorem %s (%s)\n%s", res.What, res.Verdict, tailStr(res.ErrorTrace, 3000))
	}
	c.CovAdd("states", int(res.Distinct))
	c.CovAdd("transitions", int(res.Generated))
	c.Logf("TLC: UngreedyIrrelevant, RepeatIsConcat, RepeatOnce hold on %d states (%.1fs)", res.Distinct, res.WallS)
	return nil
}

type mismatch struct {
	cs   *Case
	real *RealOut
	rec  map[string]any
}

func explainedCount(ms []*mismatch) int {
	n := 0
	for _, m := range ms {
		if m.rec["deviation"] != nil {
			n++
		}
	}
	return n
}

// explain re-runs the specification with each recorded known deviation (then with all of them) on the
// cases that differ; a difference that is exactly the deviating prediction is tagged with the
// deviation's name, so that known/C21.jsonl matches it precisely and anything else is reported.
func explain(c *core.Ctx, mism []*mismatch, subjInts [][]int) error {
	devs := c.KnownDeviations()
	if len(devs) == 0 || len(mism) == 0 {
		return nil
	}
	open := func(m *mismatch) bool { return m.rec["deviation"] == nil && m.rec["kind"] == "accepts_differently" }
	// predictions of the specification with the deviations `set` enabled, for the given cases
	deviant := func(set []string, todo []*Case, workers int) (map[int]string, error) {
		got := map[int]string{}
		for i := 0; i < len(todo); i += 3000 {
			j := i + 3000
			if j > len(todo) {
				j = len(todo)
			}
			sh := &shard{name: "deviant", families: []string{"file"}, classN: 1, file: todo[i:j]}
			ps, res, _, err := runShard(c, sh, subjInts, set, workers, 15*time.Minute)
			if err != nil {
				return nil, err
			}
			if !res.OK {
				return nil, core.Inconclusivef("TLC on spec/Regex with deviations %v: verdict=%s %s\n%s", set, res.Verdict, res.What, tailStr(res.Output, 2000))
			}
			for _, p := range ps {
				got[p.c.ID] = p.acc
			}
		}
		return got, nil
	}
	// each deviation alone (concurrently), on the differences it can syntactically apply to
	w := c.Workers / len(devs)
	if w < 2 {
		w = 2
	}
	single := make([]map[int]string, len(devs))
	errs := make([]error, len(devs))
	var wg sync.WaitGroup
	for di, d := range devs {
		var todo []*Case
		for _, m := range mism {
			if open(m) && applicable(d, m.cs) {
				todo = append(todo, m.cs)
			}
		}
		if len(todo) == 0 {
			continue
		}
		wg.Add(1)
		go func(di int, d string, todo []*Case) {
			defer wg.Done()
			single[di], errs[di] = deviant([]string{d}, todo, w)
		}(di, d, todo)
	}
	wg.Wait()
	for di, d := range devs {
		if errs[di] != nil {
			return errs[di]
		}
		n := 0
		for _, m := range mism {
			if acc, ok := single[di][m.cs.ID]; ok && open(m) && acc == m.real.Acc {
				m.rec["deviation"] = d
				n++
			}
		}
		c.Logf("deviation %s explains %d differences", d, n)
	}
	// what is left: several recorded deviations at once (every pair, then all of them)
	var combos [][]string
	for i := range devs {
		for j := i + 1; j < len(devs); j++ {
			if len(devs) > 2 {
				combos = append(combos, []string{devs[i], devs[j]})
			}
		}
	}
	if len(devs) > 1 {
		combos = append(combos, devs)
	}
	for _, set := range combos {
		var todo []*Case
		for _, m := range mism {
			n := 0
			for _, d := range set {
				if applicable(d, m.cs) {
					n++
				}
			}
			if open(m) && n >= 2 {
				todo = append(todo, m.cs)
			}
		}
		if len(todo) == 0 {
			continue
		}
		got, err := deviant(set, todo, c.Workers)
		if err != nil {
			return err
		}
		n := 0
		for _, m := range mism {
			if open(m) && got[m.cs.ID] == m.real.Acc {
				m.rec["deviation"] = "several"
				m.rec["deviations"] = strings.Join(set, "+")
				n++
			}
		}
		c.Logf("deviations %s together explain %d of the remaining %d differences", strings.Join(set, "+"), n, len(todo))
	}
	return nil
}

// applicable is a cheap syntactic over-approximation of "deviation d can fire on this case" (only used to
// avoid useless TLC work; the deviating specification decides).
func applicable(d string, cs *Case) bool {
	switch d {
	case "TopFlagsDropped":
		for _, f := range cs.Fl {
			if f != "x" && f != "a" && cs.Op != "plus" {
				return true
			}
		}
		return false
	case "CommentPerConcat":
		return hasKind(cs.Re, "cmt") || hasKind(cs.Re2, "cmt")
	case "LoneSplitClass":
		return hasKind(cs.Re, "class") || hasKind(cs.Re2, "class")
	}
	return true
}

func hasKind(n *Node, k string) bool {
	if n == nil {
		return false
	}
	if n.K == k {
		return true
	}
	for _, x := range n.Xs {
		if hasKind(x, k) {
			return true
		}
	}
	return false
}

// judgeRecorded is the code -> spec direction: outcomes recorded from the real code are written into
// cases.ndjson (field impl) and TLC checks the property relation Conforms on them as an invariant
// (ImplConforms). A case whose difference was explained by a recorded known deviation is judged by the
// specification with exactly that deviation enabled; all others by the reference semantics.
func judgeRecorded(c *core.Ctx, cases []*Case, real map[int]*RealOut, mism []*mismatch, subjInts [][]int) error {
	tag := map[int]string{}
	for _, m := range mism {
		if d, ok := m.rec["deviation"].(string); ok {
			if d == "several" {
				d = m.rec["deviations"].(string)
			}
			tag[m.cs.ID] = d
		} else {
			tag[m.cs.ID] = "unexplained" // already reported as a violation
		}
	}
	groups := map[string][]*Case{}
	for _, i := range c.SampleIdx(len(cases), c.Pick(200, 3000)) {
		cs := *cases[i]
		ro := real[cs.ID]
		switch ro.Stage {
		case "ok":
			vec := make([]int, len(ro.Acc))
			for k := range ro.Acc {
				vec[k] = int(ro.Acc[k] - '0')
			}
			cs.Impl = []any{"ok", vec}
		case "error":
			cs.Impl = []any{"error"}
		default:
			continue
		}
		if tag[cs.ID] != "unexplained" {
			groups[tag[cs.ID]] = append(groups[tag[cs.ID]], &cs)
		}
	}
	var tags []string
	for t := range groups {
		tags = append(tags, t)
	}
	sort.Strings(tags)
	total := 0
	t0 := time.Now()
	for _, t := range tags {
		var devs []string
		if t != "" {
			devs = strings.Split(t, "+")
		}
		sh := &shard{name: "recorded", families: []string{"file"}, classN: 1, file: groups[t], cfg: "Judge.cfg"}
		_, res, _, err := runShard(c, sh, subjInts, devs, c.Workers, 15*time.Minute)
		if err != nil {
			return err
		}
		switch {
		case res.OK:
			total += len(groups[t])
			c.CovAdd("states", int(res.Distinct))
			c.CovAdd("transitions", int(res.Generated))
		case res.Verdict == "invariant" && res.What == "ImplConforms":
			if d := os.Getenv("C21_DEBUG_DIR"); d != "" {
				os.WriteFile(filepath.Join(d, "judge-trace.txt"), []byte(res.ErrorTrace), 0o644)
			}
			// the same vectors were compared by the replay direction: TLC and the harness disagree
			return core.Inconclusivef("TLC (ImplConforms, deviations %v) rejects a recorded outcome the replay direction accepted\n%s", devs, tailStr(res.ErrorTrace, 3000))
		default:
			return core.Inconclusivef("TLC judging recorded outcomes: verdict=%s %s\n%s", res.Verdict, res.What, tailStr(res.Output, 2000))
		}
	}
	c.CovAdd("traces_validated_against_impl", total)
	c.Cov("recorded_outcomes_judged_by_tlc", total)
	c.Logf("TLC accepted %d recorded outcomes of the real code (invariant ImplConforms; %d groups by deviation) in %.1fs", total, len(tags), time.Since(t0).Seconds())
	return nil
}

func firstLine(s string) string {
	if i := strings.IndexByte(s, '\n'); i >= 0 {
		return s[:i]
	}
	return s
}

func tailStr(s string, n int) string {
	if len(s) <= n {
		return s
	}
	return s[len(s)-n:]
}

// ---- replay of a recorded counterexample -----------------------------------------------------------

func replay(c *core.Ctx) error {
	b, err := os.ReadFile(c.Replay)
	if err != nil {
		return core.Inconclusivef("cannot read replay file: %v", err)
	}
	var rec struct {
		Case     *Case    `json:"case"`
		Subjects []string `json:"subjects"`
	}
	if err := json.Unmarshal(b, &rec); err != nil || rec.Case == nil {
		return core.Inconclusivef("replay file has no case: %v", err)
	}
	var subjInts [][]int
	for _, s := range rec.Subjects {
		var q []int
		for _, r := range s {
			q = append(q, int(r))
		}
		if q == nil {
			q = []int{}
		}
		subjInts = append(subjInts, q)
	}
	rec.Case.ID = 1
	rec.Case.Impl = []any{"none"}
	sh := &shard{name: "replay", families: []string{"file"}, classN: 1, file: []*Case{rec.Case}}
	ps, res, _, err := runShard(c, sh, subjInts, nil, 2, 5*time.Minute)
	if err != nil {
		return err
	}
	if !res.OK || len(ps) != 1 {
		return core.Inconclusivef("TLC on the replayed case: %s %s", res.Verdict, res.What)
	}
	real, err := runRealAll(c, c.NewPool(1), []*Case{rec.Case}, rec.Subjects)
	if err != nil {
		return err
	}
	ro := real[1]
	c.CovAdd("states", int(res.Distinct))
	c.CovAdd("transitions", int(res.Generated))
	c.CovAdd("traces_validated_against_impl", 1)
	c.Sample(map[string]any{"pattern": describe(rec.Case), "go_pattern": ro.GoSrc})
	fmt.Printf("replay: %s -> stage=%s go=%q\n  spec: %s\n  real: %s\n", describe(rec.Case), ro.Stage, ro.GoSrc, ps[0].acc, ro.Acc)
	if ro.Stage == "panic" || (ro.Stage == "ok" && ro.Acc != ps[0].acc) {
		m := []*mismatch{{cs: rec.Case, real: ro, rec: map[string]any{"kind": "accepts_differently", "case": rec.Case,
			"pattern": describe(rec.Case), "go_pattern": ro.GoSrc, "predicted": ps[0].acc, "observed": ro.Acc, "subjects": rec.Subjects,
			"summary": fmt.Sprintf("%s compiled to %q: %s", describe(rec.Case), ro.GoSrc, diffSubjects(ps[0].acc, ro.Acc, rec.Subjects))}}}
		if ro.Stage == "panic" {
			m[0].rec["kind"] = "go_panic"
		}
		if err := explain(c, m, subjInts); err != nil {
			return err
		}
		c.Violation(m[0].rec)
	}
	return nil
}
