// Package c20: String operations agree with the code-point, byte and grapheme models of
// spec/Strings (TLC enumerates the operands and predicts every result; the real VM is replayed).
package c20

import (
	"bytes"
	"encoding/json"
	"fmt"
	"os"
	"strings"
	"sync"
	"time"

	"elkverif/internal/core"
)

func init() {
	core.Register(&core.Check{ID: "C20", Level: "model_checking", Run: run})
}

// instance = one TLC run of spec/Strings and the replay of all its records
type instance struct {
	name     string
	b        Bounds
	simulate string // "" = exhaustive BFS
	depth    int
	given    [][2][]int // non-nil: directed mode (Given.cfg)
}

func run(c *core.Ctx) error {
	if c.Replay != "" {
		return replay(c)
	}
	var insts []instance
	if c.Thorough() {
		insts = append(insts,
			instance{name: "exhaustive", b: Bounds{MaxLen: 5, MaxLenBinS: 3, MaxLenT: 2, IdxRange: 7, MaxPad: 7, MaxRep: 3}},
			instance{name: "simulated-long", b: Bounds{MaxLen: 10, MaxLenBinS: 0, MaxLenT: 0, IdxRange: 22, MaxPad: 14, MaxRep: 2}, simulate: "num=400", depth: 12},
			instance{name: "simulated-pairs", b: Bounds{MaxLen: 6, MaxLenBinS: 6, MaxLenT: 4, IdxRange: 8, MaxPad: 8, MaxRep: 2}, simulate: "num=1200", depth: 12},
		)
	} else {
		insts = append(insts,
			instance{name: "exhaustive", b: Bounds{MaxLen: 4, MaxLenBinS: 2, MaxLenT: 2, IdxRange: 6, MaxPad: 6, MaxRep: 3}},
			instance{name: "simulated", b: Bounds{MaxLen: 7, MaxLenBinS: 7, MaxLenT: 3, IdxRange: 16, MaxPad: 10, MaxRep: 2}, simulate: "num=12", depth: 10},
		)
	}
	c.Cov("spec", "spec/Strings/Strings.tla + Strings.cfg (invariants ViewsAgree AtLaws JustLaws AlgebraLaws CmpLaws on every operand pair)")
	c.Assume("ill-formed UTF-8: every byte that does not start a well-formed sequence is one char element (the statement does not fix this; Go's utf8 policy, used by `length` and the char iterator alike)")
	c.Assume("graphemes: UAX #29 restricted to the atom set (CR LF, Extend U+0301, everything else Other); full UAX #29 tables are out of scope")
	c.Assume("case mapping on the atom set {a, B, U+00E9} and its closure; compared at character level (ill-formed bytes may be kept or replaced by the char iterator's element)")
	pool := c.NewPool(c.Workers)
	total := 0
	for _, in := range insts {
		n, err := runInstance(c, pool, in)
		if err != nil {
			return err
		}
		total += n
	}
	if total == 0 {
		return core.Inconclusivef("nothing was compared")
	}
	return nil
}

func runInstance(c *core.Ctx, pool *core.Pool, in instance) (int, error) {
	t0 := time.Now()
	var m *Model
	var err error
	// exhaustive instance: the deviant model (all recorded deviations) runs concurrently
	var devModel *Model
	var devErr error
	devDone := make(chan struct{})
	if devs := c.KnownDeviations(); len(devs) > 0 && in.simulate == "" && in.given == nil {
		go func() {
			defer close(devDone)
			devModel, devErr = RunModel(c, in.b, devs, "Deviant.cfg", "", 0, 20*time.Minute)
		}()
	} else {
		close(devDone)
	}
	defer func() { <-devDone }()
	switch {
	case in.given != nil:
		m, err = RunGiven(c, in.b, nil, in.given)
	case in.simulate != "":
		m, err = RunModel(c, in.b, nil, "Strings.cfg", in.simulate, in.depth, 10*time.Minute)
	default:
		m, err = RunModel(c, in.b, nil, "Strings.cfg", "", 0, 20*time.Minute)
	}
	if err != nil {
		return 0, err
	}
	c.Logf("%s: TLC %d states generated, %d distinct, depth %d; %d unary + %d binary records (%.1fs)", in.name,
		m.TLC.Generated, m.TLC.Distinct, m.TLC.Depth, len(m.U), len(m.B), time.Since(t0).Seconds())
	if in.simulate == "" && in.given == nil {
		c.CovAdd("states", int(m.TLC.Distinct))
		c.CovAdd("transitions", int(m.TLC.Generated))
		c.Cov("exhaustive_bounds", fmt.Sprintf("%+v", in.b))
	} else {
		c.CovAdd("simulated_records", len(m.U)+len(m.B))
	}

	// ---- emit the calls
	var calls []call
	type ref struct {
		u    *URec
		b    *BRec
		kind byte
	}
	refs := map[int]ref{}
	id := 0
	for _, k := range m.UOrd {
		u := m.U[k]
		id++
		refs[id] = ref{u: u, kind: 'u'}
		calls = append(calls, call{id: id, kind: 'u', src: fmt.Sprintf("obs(%d, %s)", id, strLit(toBytes(u.Bytes)))})
	}
	nU := len(calls)
	var bcalls []call
	for _, k := range m.BOrd {
		r := m.B[k]
		id++
		refs[id] = ref{b: r, kind: 'b'}
		bcalls = append(bcalls, call{id: id, kind: 'b', src: fmt.Sprintf("bin(%d, %s, %s)", id, strLit(toBytes(r.SB)), strLit(toBytes(r.TB)))})
		if cl, ok := charLit(toBytes(r.TB)); ok {
			id++
			refs[id] = ref{b: r, kind: 'c'}
			bcalls = append(bcalls, call{id: id, kind: 'c', src: fmt.Sprintf("binc(%d, %s, %s)", id, strLit(toBytes(r.SB)), cl)})
		}
	}
	pre := prelude(in.b)
	t1 := time.Now()
	outU, err := runCalls(c, pool, pre, calls, 150)
	if err != nil {
		return 0, err
	}
	outB, err := runCalls(c, pool, pre, bcalls, 1500)
	if err != nil {
		return 0, err
	}
	c.Logf("%s: real VM ran %d obs() and %d bin()/binc() calls in %.1fs", in.name, nU, len(bcalls), time.Since(t1).Seconds())

	// ---- compare
	type bad struct {
		id    int
		diffs []Diff
	}
	var bads []bad
	agree := 0
	cmpSeen := map[string]string{} // key(s)+key(t) -> observed <=> (for antisymmetry of the unspecified order)
	for _, cl := range append(append([]call{}, calls...), bcalls...) {
		rf := refs[cl.id]
		out := outU
		if cl.kind != 'u' {
			out = outB
		}
		if why, failed := out.failed[cl.id]; failed {
			rec := map[string]any{"kind": "crash", "call": cl.src, "source": out.srcOf[cl.id], "problem": why,
				"summary": fmt.Sprintf("%s did not run: %s", cl.src, firstLine(why))}
			if strings.HasPrefix(why, "rejected") {
				return 0, core.Inconclusivef("emitted program rejected by the checker: %s: %s", cl.src, why)
			}
			c.Violation(rec)
			continue
		}
		o := out.obs[cl.id]
		if o == nil {
			return 0, core.Inconclusivef("observation of call %d lost", cl.id)
		}
		var ds []Diff
		var cerr error
		if cl.kind == 'u' {
			ds, cerr = checkUnary(rf.u, o, in.b)
		} else {
			ds, cerr = checkBinary(rf.b, o)
			if cl.kind == 'b' && cerr == nil {
				cmpSeen[key(rf.b.S)+key(rf.b.T)] = o.fields[2]
			}
		}
		if cerr != nil {
			return 0, core.Inconclusivef("observation channel: %v", cerr)
		}
		if len(ds) == 0 {
			agree++
			if agree%1499 == 1 {
				c.Sample(map[string]any{"call": cl.src, "instance": in.name, "all_results_as_predicted": true})
			}
			continue
		}
		bads = append(bads, bad{cl.id, ds})
	}
	// antisymmetry where the spec leaves the order open
	for _, k := range m.BOrd {
		r := m.B[k]
		if r.Cmp != 2 {
			continue
		}
		a, ok1 := cmpSeen[key(r.S)+key(r.T)]
		b, ok2 := cmpSeen[key(r.T)+key(r.S)]
		if ok1 && ok2 && !((a == "-1" && b == "1") || (a == "1" && b == "-1")) {
			c.Violation(map[string]any{"kind": "result_mismatch", "op": "<=> antisymmetry", "s": strLit(toBytes(r.SB)), "t": strLit(toBytes(r.TB)),
				"summary": fmt.Sprintf("%s <=> %s = %s but the reverse = %s", strLit(toBytes(r.SB)), strLit(toBytes(r.TB)), a, b)})
		}
	}

	// ---- explain differences by the recorded named deviations (directed deviant model runs)
	explained := map[int]map[string]string{} // call id -> diff key -> deviation
	if len(bads) > 0 {
		var given [][2][]int
		for _, bd := range bads {
			rf := refs[bd.id]
			if rf.u != nil {
				given = append(given, [2][]int{rf.u.S, {}})
			} else {
				given = append(given, [2][]int{rf.b.S, rf.b.T})
			}
		}
		// one deviant run with every recorded deviation enabled; a difference that disappears is
		// attributed to the deviation that owns the operation (devOps)
		if devs := c.KnownDeviations(); len(devs) > 0 {
			owner := map[string]string{}
			for _, dev := range devs {
				for _, op := range devOps[dev] {
					owner[op] = dev
				}
			}
			t2 := time.Now()
			<-devDone
			dm, err := devModel, devErr
			if dm == nil && err == nil {
				dm, err = RunGiven(c, in.b, devs, given)
			}
			if err != nil {
				return 0, err
			}
			c.Logf("%s: deviant model (%v) evaluated on %d differing operands in %.1fs", in.name, devs, len(given), time.Since(t2).Seconds())
			for _, bd := range bads {
				rf := refs[bd.id]
				var dd []Diff
				var derr error
				out := outU
				if rf.kind != 'u' {
					out = outB
				}
				if rf.u != nil {
					du := dm.U[key(rf.u.S)]
					if du == nil {
						return 0, core.Inconclusivef("deviant model lost operand %v", rf.u.S)
					}
					dd, derr = checkUnary(du, out.obs[bd.id], in.b)
				} else {
					db := dm.B[key(rf.b.S)+key(rf.b.T)]
					if db == nil {
						return 0, core.Inconclusivef("deviant model lost pair %v %v", rf.b.S, rf.b.T)
					}
					dd, derr = checkBinary(db, out.obs[bd.id])
				}
				if derr != nil {
					return 0, core.Inconclusivef("observation channel (deviant): %v", derr)
				}
				still := map[string]bool{}
				for _, d := range dd {
					still[d.key()] = true
				}
				for _, d := range bd.diffs {
					if dev := owner[d.Op]; dev != "" && !still[d.key()] {
						if explained[bd.id] == nil {
							explained[bd.id] = map[string]string{}
						}
						explained[bd.id][d.key()] = dev
					}
				}
			}
		}
	}
	// ---- report: one record per (call, operation, deviation)
	for _, bd := range bads {
		rf := refs[bd.id]
		type gk struct{ op, dev string }
		groups := map[gk][]Diff{}
		var order []gk
		for _, d := range bd.diffs {
			g := gk{d.Op, explained[bd.id][d.key()]}
			if _, ok := groups[g]; !ok {
				order = append(order, g)
			}
			groups[g] = append(groups[g], d)
		}
		for _, g := range order {
			ds := groups[g]
			rec := map[string]any{"kind": "result_mismatch", "op": g.op, "instance": in.name, "bounds": in.b}
			var recv string
			if rf.u != nil {
				recv = strLit(toBytes(rf.u.Bytes))
				rec["s"] = recv
				rec["s_atoms"] = rf.u.S
				rec["t_atoms"] = []int{}
			} else {
				recv = strLit(toBytes(rf.b.SB))
				rec["s"] = recv
				rec["s_atoms"] = rf.b.S
				rec["t_atoms"] = rf.b.T
			}
			if g.dev != "" {
				rec["deviation"] = g.dev
			}
			var lines []string
			var cases []map[string]string
			for _, d := range ds {
				cases = append(cases, map[string]string{"arg": d.Arg, "spec": d.Want, "real": d.Got})
				if len(lines) < 4 {
					lines = append(lines, fmt.Sprintf("%s.%s(%s): spec %s, real %s", recv, d.Op, d.Arg, d.Want, d.Got))
				}
			}
			rec["cases"] = cases
			rec["summary"] = strings.Join(lines, "\n  ")
			c.Violation(rec)
		}
	}
	c.CovAdd("traces_validated_against_impl", agree)
	c.CovAdd("calls_compared", len(calls)+len(bcalls))
	c.CovAdd("calls_with_differences", len(bads))
	c.Logf("%s: %d calls agree on every result, %d differ; violations so far %d", in.name, agree, len(bads), c.Violations())
	return len(calls) + len(bcalls), nil
}

// devOps: the operations each named deviation of Strings.tla changes.
var devOps = map[string][]string{
	"just_by_bytes":           {"rjust", "ljust"},
	"char_at_invalid_as_byte": {"char_at"},
}

func firstLine(s string) string {
	if i := strings.IndexByte(s, '\n'); i >= 0 {
		return s[:i]
	}
	return s
}

// RunGiven evaluates the model on an explicit list of operand pairs (Given.cfg: every pair is an
// initial state, no steps, no invariants): used for deviant predictions and for --replay.
func RunGiven(c *core.Ctx, b Bounds, devs []string, given [][2][]int) (*Model, error) {
	seen := map[string]bool{}
	var lines [][]byte
	for _, g := range given {
		k := key(g[0]) + key(g[1])
		if seen[k] {
			continue
		}
		seen[k] = true
		if g[0] == nil {
			g[0] = []int{}
		}
		if g[1] == nil {
			g[1] = []int{}
		}
		line, _ := json.Marshal(map[string]any{"s": g[0], "t": g[1]})
		lines = append(lines, line)
	}
	// initial states are generated by one thread: shard over processes
	nsh := (len(lines) + 399) / 400
	if nsh > c.Workers {
		nsh = c.Workers
	}
	if nsh < 1 {
		nsh = 1
	}
	models := make([]*Model, nsh)
	errs := make([]error, nsh)
	var wg sync.WaitGroup
	for sh := 0; sh < nsh; sh++ {
		wg.Add(1)
		go func(sh int) {
			defer wg.Done()
			var nd bytes.Buffer
			for i := sh; i < len(lines); i += nsh {
				nd.Write(lines[i])
				nd.WriteByte('\n')
			}
			models[sh], errs[sh] = runModelGiven(c, b, devs, nd.Bytes())
		}(sh)
	}
	wg.Wait()
	m := &Model{U: map[string]*URec{}, B: map[string]*BRec{}}
	for sh := range models {
		if errs[sh] != nil {
			return nil, errs[sh]
		}
		for _, k := range models[sh].UOrd {
			if m.U[k] == nil {
				m.U[k] = models[sh].U[k]
				m.UOrd = append(m.UOrd, k)
			}
		}
		for _, k := range models[sh].BOrd {
			if m.B[k] == nil {
				m.B[k] = models[sh].B[k]
				m.BOrd = append(m.BOrd, k)
			}
		}
		m.TLC = models[sh].TLC
	}
	return m, nil
}

// replay re-runs one recorded counterexample (./run C20 --replay <file>).
func replay(c *core.Ctx) error {
	b, err := os.ReadFile(c.Replay)
	if err != nil {
		return core.Inconclusivef("%v", err)
	}
	var rec struct {
		S      []int  `json:"s_atoms"`
		T      []int  `json:"t_atoms"`
		Bounds Bounds `json:"bounds"`
	}
	if err := json.Unmarshal(b, &rec); err != nil || rec.Bounds.IdxRange == 0 {
		return core.Inconclusivef("not a C20 replay record: %v", err)
	}
	if rec.T == nil {
		rec.T = []int{}
	}
	_, err = runInstance(c, c.NewPool(1), instance{name: "replay", b: rec.Bounds, given: [][2][]int{{rec.S, rec.T}}})
	return err
}
