package c20

import (
	"fmt"
	"strconv"
	"unicode/utf8"
)

// Diff is one operation whose observed result differs from the specification's.
type Diff struct {
	Op   string // length | char_iter | char_at | rjust | + | <=> ...
	Arg  string // index / width / operand, "" if none
	Want string
	Got  string
}

func (d Diff) key() string { return d.Op + "(" + d.Arg + ")" }

type cursor struct {
	f []string
	i int
}

func (c *cursor) next() (string, bool) {
	if c.i >= len(c.f) {
		return "", false
	}
	c.i++
	return c.f[c.i-1], true
}

// list reads fields up to the list terminator.
func (c *cursor) list() ([]string, bool) {
	var out []string
	for {
		f, ok := c.next()
		if !ok {
			return out, false
		}
		if f == ls {
			return out, true
		}
		out = append(out, f)
	}
}

const indexError = ls + "Std::IndexError"

func q(s string) string { return strconv.QuoteToASCII(s) }

func showAt(s string) string {
	if len(s) > 0 && s[0] == ls[0] {
		return "error " + s[1:]
	}
	return q(s)
}

// checkUnary compares the observed fields of obs(id, s) with the record predicted by Strings.tla.
// A non-nil error means the observation channel itself is broken (inconclusive, not a violation).
func checkUnary(u *URec, o *obsCall, b Bounds) ([]Diff, error) {
	var ds []Diff
	add := func(op, arg, want, got string) {
		if want != got {
			ds = append(ds, Diff{op, arg, want, got})
		}
	}
	c := &cursor{f: o.fields}
	short := fmt.Errorf("observation of %v is truncated (%d fields)", u.S, len(o.fields))
	echo, ok := c.next()
	if !ok {
		return nil, short
	}
	sBytes := toBytes(u.Bytes)
	if echo != string(sBytes) {
		return nil, fmt.Errorf("the literal %s evaluates to %s, not to the operand %s", strLit(sBytes), q(echo), q(string(sBytes)))
	}
	counts := []struct {
		op string
		n  int
	}{{"length", len(u.Chars)}, {"byte_count", len(u.Bytes)}, {"grapheme_count", len(u.Graphemes)}}
	var got [3]string
	for i, k := range counts {
		f, ok := c.next()
		if !ok {
			return nil, short
		}
		got[i] = f
		add(k.op, "", strconv.Itoa(k.n), f)
	}
	// iterators
	chars, ok := c.list()
	if !ok {
		return nil, short
	}
	add("char_iter.count", "", strconv.Itoa(len(u.Chars)), strconv.Itoa(len(chars)))
	add("length=char_iter.count", "", got[0], strconv.Itoa(len(chars)))
	if len(chars) == len(u.Chars) {
		for i, cp := range u.Chars {
			if cp >= 0 {
				add("char_iter", strconv.Itoa(i), q(string(rune(cp))), q(chars[i]))
			} else if utf8.RuneCountInString(chars[i]) != 1 {
				add("char_iter", strconv.Itoa(i), "one Char for the ill-formed byte", q(chars[i]))
			}
		}
	}
	bytes, ok := c.list()
	if !ok {
		return nil, short
	}
	add("byte_iter.count", "", strconv.Itoa(len(u.Bytes)), strconv.Itoa(len(bytes)))
	add("byte_count=byte_iter.count", "", got[1], strconv.Itoa(len(bytes)))
	if len(bytes) == len(u.Bytes) {
		for i, x := range u.Bytes {
			add("byte_iter", strconv.Itoa(i), strconv.Itoa(x), bytes[i])
		}
	}
	graphemes, ok := c.list()
	if !ok {
		return nil, short
	}
	add("grapheme_iter.count", "", strconv.Itoa(len(u.Graphemes)), strconv.Itoa(len(graphemes)))
	add("grapheme_count=grapheme_iter.count", "", got[2], strconv.Itoa(len(graphemes)))
	if len(graphemes) == len(u.Graphemes) {
		for i, g := range u.Graphemes {
			add("grapheme_iter", strconv.Itoa(i), q(string(toBytes(g))), q(graphemes[i]))
		}
	}
	// indexed access
	n := 2*b.IdxRange + 1
	if len(u.CharAt) != n || len(u.ByteAt) != n || len(u.GraphemeAt) != n {
		return nil, fmt.Errorf("model record has %d index entries, expected %d", len(u.CharAt), n)
	}
	for k := 0; k < n; k++ {
		idx := strconv.Itoa(k - b.IdxRange)
		ca, ok1 := c.next()
		ba, ok2 := c.next()
		ga, ok3 := c.next()
		if !ok1 || !ok2 || !ok3 {
			return nil, short
		}
		// char_at: the corresponding element of the char iterator
		nc := len(u.Chars)
		i := k - b.IdxRange
		pos := i
		if i < 0 {
			pos = nc + i
		}
		switch v := u.CharAt[k]; {
		case v == -2:
			add("char_at", idx, "error Std::IndexError", showAt(ca))
		case v >= 0:
			add("char_at", idx, q(string(rune(v))), showAt(ca))
		case pos >= 0 && pos < len(chars):
			add("char_at", idx, q(chars[pos])+" = element "+strconv.Itoa(pos)+" of the char iterator", showAt(ca)+" = element "+strconv.Itoa(pos)+" of the char iterator")
		}
		if v := u.ByteAt[k]; v == -2 {
			add("byte_at", idx, "error Std::IndexError", showAt(ba))
		} else {
			add("byte_at", idx, q(strconv.Itoa(v)), showAt(ba))
		}
		if v := u.GraphemeAt[k]; v == -2 {
			add("grapheme_at", idx, "error Std::IndexError", showAt(ga))
		} else if v >= 1 && v <= len(u.Graphemes) {
			add("grapheme_at", idx, q(string(toBytes(u.Graphemes[v-1]))), showAt(ga))
		} else {
			return nil, fmt.Errorf("model record: grapheme_at position %d out of range", v)
		}
	}
	// justification
	if len(u.RJust) != len(PadRunes) || len(u.LJust) != len(PadRunes) {
		return nil, fmt.Errorf("model record has %d pad chars, harness %d", len(u.RJust), len(PadRunes))
	}
	for wd := 0; wd <= b.MaxPad; wd++ {
		for pi, pr := range PadRunes {
			r, ok1 := c.next()
			l, ok2 := c.next()
			if !ok1 || !ok2 {
				return nil, short
			}
			arg := fmt.Sprintf("%d, %s", wd, "`"+escape([]byte(string(pr)))+"`")
			add("rjust", arg, q(string(toBytes(u.RJust[pi][wd]))), q(r))
			add("ljust", arg, q(string(toBytes(u.LJust[pi][wd]))), q(l))
		}
	}
	for k := 0; k <= b.MaxRep; k++ {
		f, ok := c.next()
		if !ok {
			return nil, short
		}
		add("*", strconv.Itoa(k), q(string(toBytes(u.Rep[k]))), q(f))
	}
	// case mapping, compared at character level
	for _, cm := range []struct {
		op   string
		want []int
	}{{"uppercase", u.Upper}, {"lowercase", u.Lower}} {
		f, ok := c.next()
		if !ok {
			return nil, short
		}
		add(cm.op, "", showEls(cm.want, chars), showObsEls(f, cm.want, chars))
	}
	if c.i != len(c.f) {
		return nil, fmt.Errorf("observation of %v has %d extra fields", u.S, len(c.f)-c.i)
	}
	return ds, nil
}

// showEls renders the predicted char elements; an ill-formed element is "the element of the char
// iterator (or the byte itself, unchanged)".
func showEls(want []int, iter []string) string {
	s := ""
	for i, cp := range want {
		if i > 0 {
			s += " "
		}
		if cp >= 0 {
			s += fmt.Sprintf("U+%04X", cp)
		} else {
			s += "ILL"
		}
	}
	return s
}

// showObsEls decodes the observed string into elements and renders them with the same vocabulary:
// at a position where the model has an ill-formed element, an ill-formed byte or the char iterator's
// element for that position both count as ILL.
func showObsEls(f string, want []int, iter []string) string {
	s := ""
	i := 0
	for len(f) > 0 {
		r, n := utf8.DecodeRuneInString(f)
		if i > 0 {
			s += " "
		}
		ill := r == utf8.RuneError && n == 1
		if i < len(want) && want[i] < 0 && (ill || (i < len(iter) && f[:n] == iter[i])) {
			s += "ILL"
		} else if ill {
			s += fmt.Sprintf("byte %02X", f[0])
		} else {
			s += fmt.Sprintf("U+%04X", r)
		}
		f = f[n:]
		i++
	}
	return s
}

func b01(b bool) string {
	if b {
		return "1"
	}
	return "0"
}

// checkBinary compares bin(id, s, t) / binc(id, s, c).
func checkBinary(r *BRec, o *obsCall) ([]Diff, error) {
	var ds []Diff
	targ := strLit(toBytes(r.TB))
	if o.kind == 'c' {
		targ, _ = charLit(toBytes(r.TB))
	}
	add := func(op, want, got string) {
		if want != got {
			ds = append(ds, Diff{op, targ, want, got})
		}
	}
	want := 8
	if o.kind == 'c' {
		want = 7
	}
	if len(o.fields) != want {
		return nil, fmt.Errorf("binary observation has %d fields, expected %d", len(o.fields), want)
	}
	f := o.fields
	add("+", q(string(toBytes(r.Concat))), q(f[0]))
	add("-", q(string(toBytes(r.Minus))), q(f[1]))
	cmp := f[2]
	if r.Cmp != 2 {
		add("<=>", strconv.Itoa(r.Cmp), cmp)
		add("<", b01(r.Cmp < 0), f[3])
		add("<=", b01(r.Cmp <= 0), f[4])
		add(">", b01(r.Cmp > 0), f[5])
		add(">=", b01(r.Cmp >= 0), f[6])
	} else {
		// order unspecified at character level: the operators must still describe ONE strict order
		switch cmp {
		case "-1":
			add("< (consistent with <=> = -1)", "1 1 0 0", f[3]+" "+f[4]+" "+f[5]+" "+f[6])
		case "1":
			add("< (consistent with <=> = 1)", "0 0 1 1", f[3]+" "+f[4]+" "+f[5]+" "+f[6])
		default:
			add("<=>", "-1 or 1 (operands differ)", cmp)
		}
	}
	if o.kind == 'b' {
		add("==", strconv.Itoa(r.Eq), f[7])
	}
	return ds, nil
}
