package c20

import (
	"encoding/base64"
	"encoding/json"
	"fmt"
	"strings"
	"unicode/utf8"

	"elkverif/internal/core"
	"elkverif/internal/elkrun"
)

// The observation channel. Every observed value is written RAW to stdout (print of to_string) and
// terminated by 0x1f; a list ends with the field 0x1e; an error is the field 0x1e + class name.
// Neither byte occurs in any operand, so the framing is unambiguous and independent of inspect
// (whose escaping is property C19) and of newlines inside operands.
const (
	fs = "\x1f"
	ls = "\x1e"
)

func prelude(b Bounds) string {
	return fmt.Sprintf(`def w(v: String::Convertible)
  print(v.to_string)
  print("\x1f")
end
def wb(b: bool)
  if b then w "1" else w "0"
end
def le then print("\x1e\x1f")
def obs(id: Int, s: String)
  w "@u"
  w id
  w s
  w s.length
  w s.byte_count
  w s.grapheme_count
  for c in s then w c
  le()
  for b in s.byte_iter then w b
  le()
  for g in s.grapheme_iter then w g
  le()
  fornum i := -%d; i <= %d; i = i + 1
    do
      w s.char_at(i)
    catch Error() as e
      w "\x1e" + e.class.name
    end
    do
      w s.byte_at(i)
    catch Error() as e
      w "\x1e" + e.class.name
    end
    do
      w s.grapheme_at(i)
    catch Error() as e
      w "\x1e" + e.class.name
    end
  end
  fornum k := 0; k <= %d; k = k + 1
    w s.rjust(k, %s)
    w s.ljust(k, %s)
    w s.rjust(k, %s)
    w s.ljust(k, %s)
  end
  fornum n := 0; n <= %d; n = n + 1
    w s * n
  end
  w s.uppercase
  w s.lowercase
end
def bin(id: Int, s: String, t: String)
  w "@b"
  w id
  w s + t
  w s - t
  w s <=> t
  wb s < t
  wb s <= t
  wb s > t
  wb s >= t
  wb s == t
end
def binc(id: Int, s: String, t: Char)
  w "@c"
  w id
  w s + t
  w s - t
  w s <=> t
  wb s < t
  wb s <= t
  wb s > t
  wb s >= t
end
`, b.IdxRange, b.IdxRange, b.MaxPad, "`-`", "`-`", "`\\u00e9`", "`\\u00e9`", b.MaxRep)
}

// PadRunes must equal PadChars of Strings.tla (checked against the model's prediction for "").
var PadRunes = []rune{'-', 0xe9}

// escape renders bytes as the body of an Elk string/char literal: ASCII letters literally, other
// valid code points as \uXXXX / \UXXXXXXXX (or \r \n), ill-formed bytes as \xNN.
func escape(b []byte) string {
	var sb strings.Builder
	for len(b) > 0 {
		r, n := utf8.DecodeRune(b)
		switch {
		case r == utf8.RuneError && n == 1:
			fmt.Fprintf(&sb, `\x%02x`, b[0])
		case r == '\r':
			sb.WriteString(`\r`)
		case r == '\n':
			sb.WriteString(`\n`)
		case (r >= 'a' && r <= 'z') || (r >= 'A' && r <= 'Z') || r == '-':
			sb.WriteRune(r)
		case r < 0x10000:
			fmt.Fprintf(&sb, `\u%04x`, r)
		default:
			fmt.Fprintf(&sb, `\U%08X`, r)
		}
		b = b[n:]
	}
	return sb.String()
}

func strLit(b []byte) string { return `"` + escape(b) + `"` }

// charLit returns the char literal for bytes that are exactly one well-formed code point.
func charLit(b []byte) (string, bool) {
	r, n := utf8.DecodeRune(b)
	if n != len(b) || n == 0 || (r == utf8.RuneError && n == 1) {
		return "", false
	}
	return "`" + escape(b) + "`", true
}

// ---- running ---------------------------------------------------------------------------------

// rawResult is elkrun.Result with stdout carried as base64 (JSON would replace ill-formed UTF-8).
type rawResult struct {
	Res    elkrun.Result `json:"res"`
	Stdout string        `json:"stdout_b64"`
}

func init() {
	core.RegisterJob("c20.elk", func(p json.RawMessage) (any, error) {
		var j elkrun.Job
		if err := json.Unmarshal(p, &j); err != nil {
			return nil, err
		}
		r := elkrun.Run(&j)
		out := rawResult{Res: *r, Stdout: base64.StdEncoding.EncodeToString([]byte(r.Stdout))}
		out.Res.Stdout = ""
		return out, nil
	})
}

// a call is one line of an emitted program
type call struct {
	id   int
	kind byte // 'u' 'b' 'c'
	src  string
}

// observed fields of one call, in order, after the "@x" and id fields
type obsCall struct {
	kind   byte
	fields []string
}

// parseStdout splits the raw output into calls.
func parseStdout(out []byte) (map[int]*obsCall, error) {
	fields := strings.Split(string(out), fs)
	if len(fields) > 0 && fields[len(fields)-1] == "" {
		fields = fields[:len(fields)-1]
	} else if len(out) > 0 {
		return nil, fmt.Errorf("output does not end with a field terminator")
	}
	res := map[int]*obsCall{}
	var cur *obsCall
	for i := 0; i < len(fields); i++ {
		f := fields[i]
		if len(f) == 2 && f[0] == '@' && (f[1] == 'u' || f[1] == 'b' || f[1] == 'c') && i+1 < len(fields) {
			var id int
			if _, err := fmt.Sscanf(fields[i+1], "%d", &id); err == nil {
				cur = &obsCall{kind: f[1]}
				res[id] = cur
				i++
				continue
			}
		}
		if cur == nil {
			return nil, fmt.Errorf("output before the first marker")
		}
		cur.fields = append(cur.fields, f)
	}
	return res, nil
}

type runOutcome struct {
	obs    map[int]*obsCall
	failed map[int]string // call id -> what went wrong running it alone (go panic, rejected, ...)
	srcOf  map[int]string
}

// runCalls runs the calls in batches; a batch that does not run cleanly is re-run one call per file.
func runCalls(c *core.Ctx, pool *core.Pool, pre string, calls []call, batch int) (*runOutcome, error) {
	out := &runOutcome{obs: map[int]*obsCall{}, failed: map[int]string{}, srcOf: map[int]string{}}
	var batches [][]call
	for i := 0; i < len(calls); i += batch {
		j := i + batch
		if j > len(calls) {
			j = len(calls)
		}
		batches = append(batches, calls[i:j])
	}
	var harnessErr error
	run := func(bs [][]call) [][]call {
		var jobs []core.Job
		for _, b := range bs {
			var sb strings.Builder
			sb.WriteString(pre)
			for _, cl := range b {
				sb.WriteString(cl.src)
				sb.WriteByte('\n')
			}
			jobs = append(jobs, core.Job{Kind: "c20.elk", Payload: elkrun.Job{Src: sb.String(), RunMs: 60000}, TimeoutMs: 120000})
		}
		results := pool.Map(jobs, nil)
		var retry [][]call
		for bi, jr := range results {
			b := bs[bi]
			var rr rawResult
			problem := ""
			switch {
			case jr.Crashed:
				problem = "worker process died: " + tailStr(jr.CrashLog, 1500)
			case jr.Timeout:
				problem = "timeout"
			case jr.Panic != "":
				problem = "worker panic: " + jr.Panic
			case jr.Err != "":
				harnessErr = fmt.Errorf("worker error: %s", jr.Err)
				continue
			default:
				if err := jr.Decode(&rr); err != nil {
					harnessErr = err
					continue
				}
				switch {
				case rr.Res.GoPanic != "":
					problem = "go panic (" + rr.Res.PanicStage + "): " + rr.Res.GoPanic
				case rr.Res.Hung:
					problem = "hung"
				case !rr.Res.Accepted:
					problem = "rejected: " + rr.Res.Diags
				case rr.Res.ErrClass != "":
					problem = "uncaught " + rr.Res.ErrClass + ": " + rr.Res.ErrMsg
				}
			}
			var per map[int]*obsCall
			if problem == "" {
				raw, err := base64.StdEncoding.DecodeString(rr.Stdout)
				if err != nil {
					harnessErr = err
					continue
				}
				per, err = parseStdout(raw)
				if err != nil {
					problem = "unparsable output: " + err.Error()
				} else if len(per) != len(b) {
					problem = fmt.Sprintf("%d of %d calls produced output", len(per), len(b))
				}
			}
			if problem != "" {
				if len(b) > 1 {
					for _, cl := range b {
						retry = append(retry, []call{cl})
					}
					continue
				}
				out.failed[b[0].id] = problem
				out.srcOf[b[0].id] = pre + b[0].src + "\n"
				continue
			}
			for _, cl := range b {
				out.obs[cl.id] = per[cl.id]
			}
		}
		return retry
	}
	retry := run(batches)
	if len(retry) > 0 && harnessErr == nil {
		if len(retry) > 400 {
			return nil, core.Inconclusivef("%d calls had to be re-run alone: the emitted programs are systematically broken", len(retry))
		}
		run(retry)
	}
	if harnessErr != nil {
		return nil, core.Inconclusivef("%v", harnessErr)
	}
	return out, nil
}
