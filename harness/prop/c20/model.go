package c20

import (
	"encoding/json"
	"fmt"
	"path/filepath"
	"strings"
	"time"

	"elkverif/internal/core"
	"elkverif/internal/tlc"
)

// Bounds are the constants of one instance of spec/Strings.
type Bounds struct {
	MaxLen, MaxLenBinS, MaxLenT int
	IdxRange, MaxPad, MaxRep    int
}

// URec is the GEN record of the unary operations on one string (UnaryRec in Strings.tla).
type URec struct {
	S          []int     `json:"s"`
	Bytes      []int     `json:"bytes"`
	Chars      []int     `json:"chars"`
	Graphemes  [][]int   `json:"graphemes"`
	CharAt     []int     `json:"char_at"`     // code point | -1 ill-formed element | -2 error
	ByteAt     []int     `json:"byte_at"`     // byte | -2 error
	GraphemeAt []int     `json:"grapheme_at"` // 1-based position in Graphemes | -2 error
	RJust      [][][]int `json:"rjust"`
	LJust      [][][]int `json:"ljust"`
	Rep        [][]int   `json:"rep"`
	Upper      []int     `json:"upper"`
	Lower      []int     `json:"lower"`
}

// BRec is the GEN record of the binary operations on a pair (BinaryRec in Strings.tla).
type BRec struct {
	S      []int `json:"s"`
	T      []int `json:"t"`
	SB     []int `json:"sb"`
	TB     []int `json:"tb"`
	Concat []int `json:"concat"`
	Minus  []int `json:"minus"`
	Cmp    int   `json:"cmp"` // -1 0 1, 2 = order unspecified at character level
	Eq     int   `json:"eq"`
}

func key(s []int) string { return fmt.Sprint(s) }

type Model struct {
	U    map[string]*URec // by key(S)
	B    map[string]*BRec // by key(S)+key(T)
	UOrd []string         // generation order
	BOrd []string
	TLC  *tlc.Result
}

func toBytes(n []int) []byte {
	b := make([]byte, len(n))
	for i, x := range n {
		b[i] = byte(x)
	}
	return b
}

func mcModule(b Bounds, devs []string, emit bool) []byte {
	var q []string
	for _, d := range devs {
		q = append(q, fmt.Sprintf("%q", d))
	}
	e := "FALSE"
	if emit {
		e = "TRUE"
	}
	return []byte(fmt.Sprintf(`---- MODULE MC_Strings ----
EXTENDS Strings
MCMaxLen == %d
MCMaxLenBinS == %d
MCMaxLenT == %d
MCIdxRange == %d
MCMaxPad == %d
MCMaxRep == %d
MCDeviations == {%s}
MCEmit == %s
====
`, b.MaxLen, b.MaxLenBinS, b.MaxLenT, b.IdxRange, b.MaxPad, b.MaxRep, strings.Join(q, ", "), e))
}

// RunModel runs TLC on spec/Strings for one instance: checks the invariants of cfg on every state and
// collects the GEN records. simulate != "" switches to seeded random behaviours (-simulate).
func RunModel(c *core.Ctx, b Bounds, devs []string, cfg, simulate string, depth int, timeout time.Duration) (*Model, error) {
	return runModel(c, b, devs, cfg, simulate, depth, timeout, c.Workers, nil)
}

func runModelGiven(c *core.Ctx, b Bounds, devs []string, ndjson []byte) (*Model, error) {
	return runModel(c, b, devs, "Given.cfg", "", 0, 10*time.Minute, 1, ndjson)
}

func runModel(c *core.Ctx, b Bounds, devs []string, cfg, simulate string, depth int, timeout time.Duration, workers int, given []byte) (*Model, error) {
	files := map[string][]byte{"MC_Strings.tla": mcModule(b, devs, true)}
	if given != nil {
		files["given.ndjson"] = given
	}
	m := &Model{U: map[string]*URec{}, B: map[string]*BRec{}}
	var perr error
	res, err := tlc.Run(tlc.Opts{
		SpecDir: filepath.Join(core.VerifRoot, "spec", "Strings"), Module: "MC_Strings", Cfg: cfg,
		Scratch: c.Scratch, Workers: workers, Timeout: timeout, HeapMB: 4000,
		Extra:    files,
		Simulate: simulate, Depth: depth, Seed: c.Seed,
		OnGen: func(rec []byte) {
			var k struct {
				K string `json:"k"`
			}
			if e := json.Unmarshal(rec, &k); e != nil {
				perr = fmt.Errorf("bad GEN record: %v", e)
				return
			}
			switch k.K {
			case "u":
				var u URec
				if e := json.Unmarshal(rec, &u); e != nil {
					perr = fmt.Errorf("bad unary record: %v: %.300s", e, rec)
					return
				}
				kk := key(u.S)
				if m.U[kk] == nil {
					m.U[kk] = &u
					m.UOrd = append(m.UOrd, kk)
				}
			case "b":
				var r BRec
				if e := json.Unmarshal(rec, &r); e != nil {
					perr = fmt.Errorf("bad binary record: %v: %.300s", e, rec)
					return
				}
				kk := key(r.S) + key(r.T)
				if m.B[kk] == nil {
					m.B[kk] = &r
					m.BOrd = append(m.BOrd, kk)
				}
			}
		},
	})
	if err != nil {
		return nil, err
	}
	m.TLC = res
	if perr != nil {
		return nil, perr
	}
	if !res.OK {
		return m, core.Inconclusivef("TLC on Strings (%s, deviations %v): verdict=%s %s\n%s", cfg, devs, res.Verdict, res.What, tailStr(res.Output, 2500))
	}
	if len(m.U) == 0 {
		return m, core.Inconclusivef("Strings produced no GEN records")
	}
	return m, nil
}

func tailStr(s string, n int) string {
	if len(s) <= n {
		return s
	}
	return s[len(s)-n:]
}
