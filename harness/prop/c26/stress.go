package c26

import (
	"encoding/json"
	"fmt"
	"sync"
	"sync/atomic"

	"github.com/elk-language/elk/value"

	"elkverif/internal/core"
)

// Stress stage: the invariants of spec/SymTab (Stable: a name never changes its symbol; Bijection:
// idTable[nameTable[n]] = n) evaluated online on the results of millions of concurrent calls of the
// public interning entry points (value.ToSymbol, SymbolTable.Get/GetName). A window of a few
// instructions (e.g. an unsynchronised cache in front of the table) is only hit at this volume; no
// hook sits inside such code, so the gate replay cannot reach it.

type StressJob struct {
	Goroutines int   `json:"goroutines"`
	CallsPer   int   `json:"calls_per"`
	Names      int   `json:"names"`
	Seed       int64 `json:"seed"`
}

type StressResult struct {
	Calls   int64    `json:"calls"`
	Wrong   int64    `json:"wrong"`
	Example []string `json:"example,omitempty"`
}

func init() {
	core.RegisterJob("c26.stress", func(raw json.RawMessage) (any, error) {
		var j StressJob
		if err := json.Unmarshal(raw, &j); err != nil {
			return nil, err
		}
		return stress(&j), nil
	})
}

func stress(j *StressJob) *StressResult {
	names := make([]string, j.Names)
	for i := range names {
		names[i] = fmt.Sprintf("c26_stress_%d_%d", j.Seed, i)
	}
	res := &StressResult{}
	var mu sync.Mutex
	var wrong, calls atomic.Int64
	start := make(chan struct{})
	var wg sync.WaitGroup
	for g := 0; g < j.Goroutines; g++ {
		wg.Add(1)
		go func(g int) {
			defer wg.Done()
			first := make([]value.Symbol, len(names))
			for i := range first {
				first[i] = -1
			}
			<-start
			x := uint64(j.Seed)*2654435761 + uint64(g)*40503 + 1
			for k := 0; k < j.CallsPer; k++ {
				x ^= x << 13
				x ^= x >> 7
				x ^= x << 17
				i := int(x % uint64(len(names)))
				s := value.ToSymbol(names[i])
				calls.Add(1)
				bad := ""
				if first[i] == -1 {
					first[i] = s
				} else if first[i] != s {
					bad = fmt.Sprintf("ToSymbol(%q) returned %d, earlier %d (Stable violated)", names[i], s, first[i])
				}
				if k%8 == 0 {
					if n, ok := value.SymbolTable.GetName(s); !ok || n != names[i] {
						bad = fmt.Sprintf("ToSymbol(%q) = %d but GetName(%d) = %q,%v (Bijection violated)", names[i], s, s, n, ok)
					}
					if t, ok := value.SymbolTable.Get(names[i]); !ok || t != s {
						bad = fmt.Sprintf("ToSymbol(%q) = %d but Get = %d,%v", names[i], s, t, ok)
					}
				}
				if bad != "" {
					wrong.Add(1)
					mu.Lock()
					if len(res.Example) < 5 {
						res.Example = append(res.Example, bad)
					}
					mu.Unlock()
				}
			}
		}(g)
	}
	close(start)
	wg.Wait()
	res.Calls = calls.Load()
	res.Wrong = wrong.Load()
	return res
}

func stressStage(c *core.Ctx) error {
	var jobs []core.Job
	var sj []StressJob
	n := c.Pick(3, 10)
	for i := 0; i < n; i++ {
		j := StressJob{Goroutines: 8, CallsPer: c.Pick(400000, 1500000), Names: 3 + i%3, Seed: c.Seed*100 + int64(i)}
		sj = append(sj, j)
		jobs = append(jobs, core.Job{Kind: "c26.stress", Payload: j, TimeoutMs: 300000})
	}
	results := c.NewPool(3).Map(jobs, nil)
	var total int64
	for k, jr := range results {
		if jr.Crashed || jr.Timeout || jr.Err != "" || jr.Panic != "" {
			return core.Inconclusivef("stress job failed: %s %s %s", jr.Err, jr.Panic, jr.CrashLog)
		}
		var r StressResult
		if err := jr.Decode(&r); err != nil {
			return err
		}
		total += r.Calls
		if r.Wrong > 0 {
			c.Violation(map[string]any{"stage": "stress", "kind": "invariant_violated_on_real_results", "job": sj[k], "wrong": r.Wrong, "examples": r.Example,
				"summary": fmt.Sprintf("%d of %d concurrent interning calls returned a symbol that contradicts Stable/Bijection, e.g. %v", r.Wrong, r.Calls, r.Example)})
		}
	}
	c.Cov("stress_calls", int(total))
	c.Logf("stress: %d concurrent ToSymbol/Get/GetName calls checked against Stable and Bijection", total)
	return nil
}
