// Package c26 decides C26 (symbol interning is a bijection under concurrency): spec/SymTab model-checked by
// TLC, TLC behaviours imposed on the real value.SymbolTableStruct through blocking trace hooks, and
// linearizability validation of free-running hammer runs against spec/SymTab/SymTabTrace.tla.
package c26

import (
	"bytes"
	"crypto/sha1"
	"encoding/json"
	"fmt"
	"path/filepath"
	"strings"
	"sync"
	"time"

	"elkverif/internal/core"
	"elkverif/internal/tlc"
)

func init() {
	core.Register(&core.Check{ID: "C26", Level: "model_checking", Run: run})
}

const invariants = "TypeOK MutualExclusion Bijection AbsOK ReturnOK"
const actionProps = "Stable MissOK AbsGrows"

var names = []string{"a", "b"}

func cfgText(threads, nops int, probe, record bool, variant string, mode string) string {
	ts := make([]string, threads)
	for i := range ts {
		ts[i] = fmt.Sprint(i + 1)
	}
	b := func(x bool) string {
		if x {
			return "TRUE"
		}
		return "FALSE"
	}
	s := fmt.Sprintf("CONSTANTS\n  Threads = {%s}\n  Names = {\"a\", \"b\"}\n  NOps = %d\n  Probe = %s\n  Record = %s\n  Variant = \"%s\"\n",
		strings.Join(ts, ", "), nops, b(probe), b(record), variant)
	switch mode {
	case "sim":
		return s + "INIT Init\nNEXT NextSim\nINVARIANT EmitAtEnd\nCHECK_DEADLOCK FALSE\n"
	case "live":
		return s + "SPECIFICATION Spec\nVIEW View\nINVARIANTS " + invariants + "\nPROPERTIES " + actionProps + " Termination\nCHECK_DEADLOCK TRUE\n"
	}
	return s + "SPECIFICATION Spec\nVIEW View\nINVARIANTS " + invariants + "\nPROPERTIES " + actionProps + "\nCHECK_DEADLOCK TRUE\n"
}

func run(c *core.Ctx) error {
	specDir := filepath.Join(core.VerifRoot, "spec", "SymTab")
	w := c.Workers
	if w > 4 {
		w = 4
	}
	type spec struct {
		name                 string
		threads, nops        int
		probe                bool
		variant, mode, wantV string
		workers              int
	}
	runs := []spec{
		// negative controls: deliberately broken designs must violate the properties
		{"neg_add_rlock", 2, 1, false, "add_rlock", "bfs", "invariant", 1},
		{"neg_get_nolock", 2, 1, false, "get_nolock", "bfs", "invariant", 1},
		{"neg_check_then_act", 2, 1, false, "check_then_act", "bfs", "invariant", 1},
		// the design: every interleaving of 3 goroutines x 2 operations over 2 names
		{"mc_3x2", 3, 2, false, "ok", "bfs", "ok", w},
		// with the waiting state used by the replay (blocked probes, lock hand-off), and termination
		{"mc_probe_2x2", 2, 2, true, "ok", "live", "ok", 2},
	}
	if c.Thorough() {
		runs = append(runs,
			spec{"mc_probe_3x2", 3, 2, true, "ok", "bfs", "ok", w},
			spec{"mc_4x1", 4, 1, false, "ok", "bfs", "ok", w},
			spec{"mc_2x3", 2, 3, false, "ok", "live", "ok", w})
	}
	results := make([]*tlc.Result, len(runs))
	errs := make([]error, len(runs))
	var wg sync.WaitGroup
	sem := make(chan bool, 3)
	for i, r := range runs {
		wg.Add(1)
		go func(i int, r spec) {
			defer wg.Done()
			sem <- true
			defer func() { <-sem }()
			results[i], errs[i] = tlc.Run(tlc.Opts{SpecDir: specDir, Module: "SymTab", Cfg: r.name + ".cfg", Scratch: c.Scratch, Workers: r.workers,
				Timeout: time.Duration(c.Pick(12, 40)) * time.Minute, HeapMB: 4000,
				Extra: map[string][]byte{r.name + ".cfg": []byte(cfgText(r.threads, r.nops, r.probe, false, r.variant, r.mode))}})
		}(i, r)
	}

	// ---- behaviours of the model (Probe = TRUE: with blocked probes and hand-offs), by TLC simulation
	nSim := c.Pick(250, 1500)
	var behs []Behaviour
	seen := map[[20]byte]bool{}
	sim, err := tlc.Run(tlc.Opts{SpecDir: specDir, Module: "SymTab", Cfg: "sim.cfg", Scratch: c.Scratch, Workers: 1, Timeout: 10 * time.Minute,
		Simulate: fmt.Sprintf("num=%d", nSim), Depth: 200, Seed: c.Seed, HeapMB: 2000,
		Extra: map[string][]byte{"sim.cfg": []byte(cfgText(3, 2, true, true, "ok", "sim"))},
		OnGen: func(rec []byte) {
			h := sha1.Sum(rec)
			if seen[h] {
				return
			}
			seen[h] = true
			var b Behaviour
			if json.Unmarshal(rec, &b) == nil {
				behs = append(behs, b)
			}
		}})
	if err != nil {
		return err
	}
	if len(behs) == 0 {
		return core.Inconclusivef("TLC simulation produced no behaviour: %s %s", sim.Verdict, tail(sim.Output, 1500))
	}
	c.Logf("TLC simulation: %d distinct behaviours (%.0fs)", len(behs), sim.WallS)

	// ---- gate-scheduled replay of every behaviour on the real table, with every presize
	presizes := []int{0, 1, 128}
	var jobs []core.Job
	var jobBehs [][]int
	const batch = 12
	for i := 0; i < len(behs); i += batch {
		end := i + batch
		if end > len(behs) {
			end = len(behs)
		}
		idx := []int{}
		for k := i; k < end; k++ {
			if !behs[k].Done {
				return core.Inconclusivef("simulation of the verified model ended in a non-final state")
			}
			idx = append(idx, k)
		}
		jobBehs = append(jobBehs, idx)
		jobs = append(jobs, core.Job{Kind: "c26.replay", TimeoutMs: 300000, Payload: ReplayJob{Behaviours: behs[i:end], Presizes: presizes, Names: names}})
	}
	pool := c.NewPool(c.Workers)
	rres := pool.Map(jobs, nil)
	if err := retryKilled(c, pool, jobs, rres); err != nil {
		return err
	}
	okReplays, steps, probes, grants := 0, 0, 0, 0
	for k, jr := range rres {
		rec := map[string]any{"stage": "gate_replay", "behaviours": jobBehs[k]}
		if jr.Crashed || jr.Panic != "" {
			rec["kind"] = "go_crash"
			rec["summary"] = "the symbol table crashed the process while a TLC schedule was replayed"
			rec["log"] = tail(jr.CrashLog+jr.Panic, 4000)
			c.Violation(rec)
			continue
		}
		if jr.Timeout {
			return core.Inconclusivef("replay job timed out")
		}
		if jr.Err != "" {
			return core.Inconclusivef("replay job failed: %s", jr.Err)
		}
		var br ReplayBatchResult
		if err := jr.Decode(&br); err != nil {
			return err
		}
		okReplays += br.Replayed - len(br.Bad)
		steps += br.Steps
		probes += br.Probes
		grants += br.Grants
		for _, bad := range br.Bad {
			beh := behs[jobBehs[k][bad.Beh]]
			rec := map[string]any{"stage": "gate_replay", "schedule": beh.Hist, "presize": bad.Presize, "result": bad}
			where := fmt.Sprintf("presize=%d step %d", bad.Presize, bad.At)
			switch bad.Outcome {
			case "mismatch":
				rec["kind"] = "trace_rejected"
				rec["summary"] = fmt.Sprintf("%s: the spec allows only [%s], the table did [%s]", where, bad.Want, bad.Got)
			case "blocked":
				rec["kind"] = "blocked_where_enabled"
				rec["summary"] = fmt.Sprintf("%s: %s -- %s", where, bad.Want, bad.Detail)
			case "final_mismatch":
				rec["kind"] = "final_table"
				rec["summary"] = fmt.Sprintf("presize=%d: after the schedule the spec has %s, the table answers %s", bad.Presize, bad.Want, bad.Got)
			default:
				return core.Inconclusivef("replay binding broken (%s): %s %s", bad.Outcome, bad.Got, bad.Detail)
			}
			c.Violation(rec)
		}
	}
	c.Cov("behaviours_replayed", okReplays)
	c.Cov("replay_steps", steps)
	c.Cov("blocked_probes", probes)
	c.Cov("lock_handoffs", grants)
	c.Logf("gate replay: %d behaviours x %d presizes, %d conform (%d steps, %d blocked probes, %d hand-offs), %d violations",
		len(behs), len(presizes), okReplays, steps, probes, grants, c.Violations())
	if len(behs) > 0 {
		b := behs[0]
		c.Sample(map[string]any{"kind": "replayed schedule", "steps": len(b.Hist), "first_events": firstSteps(b.Hist, 14), "final": b.Final})
	}

	// ---- linearizability of free-running hammer runs
	if err := stressStage(c); err != nil {
		return err
	}
	okTraces, err := hammerStage(c, specDir)
	if err != nil {
		return err
	}

	// ---- collect the model-checking results
	wg.Wait()
	states, trans := 0, 0
	var specNotes []string
	for i, r := range runs {
		if errs[i] != nil {
			return errs[i]
		}
		res := results[i]
		if r.wantV != "ok" {
			if res.Verdict != r.wantV {
				return core.Inconclusivef("negative control %s: TLC should report a violated %s, got %s %s\n%s", r.name, r.wantV, res.Verdict, res.What, tail(res.Output, 1500))
			}
			c.Note(fmt.Sprintf("negative control: SymTab with Variant=%s violates %s (TLC)", r.variant, res.What))
			continue
		}
		if !res.OK {
			return core.Inconclusivef("TLC: SymTab (%s) violates %s %s\n%s", r.name, res.Verdict, res.What, tail(res.ErrorTrace, 3000))
		}
		states += int(res.Distinct)
		trans += int(res.Generated)
		specNotes = append(specNotes, fmt.Sprintf("%s: %d goroutines x %d ops, Probe=%v: %d distinct states, %d transitions, depth %d, %.0fs", r.name, r.threads, r.nops, r.probe, res.Distinct, res.Generated, res.Depth, res.WallS))
		c.Logf("TLC %s: %d distinct states, depth %d, %.0fs", r.name, res.Distinct, res.Depth, res.WallS)
	}
	c.Cov("states", states)
	c.Cov("transitions", trans)
	c.Cov("instances", specNotes)
	c.Cov("spec", "spec/SymTab/SymTab.tla: invariants "+invariants+"; action properties "+actionProps+"; Termination under WF; deadlock check; SymTabTrace.tla for call/return histories")
	c.Cov("traces_validated_against_impl", okReplays+okTraces)
	if okReplays+okTraces == 0 && c.Violations() == 0 {
		return core.Inconclusivef("nothing compared")
	}
	return nil
}

// hammerStage runs the free-running hammer jobs, validates their call/return histories against
// SymTabTrace with TLC and returns the number of accepted traces.
func hammerStage(c *core.Ctx, specDir string) (int, error) {
	var hjobs []HammerJob
	gs := []int{8, 16, 32, 64}
	presizes := []int{0, 1, 128}
	n := c.Pick(8, 40)
	for i := 0; i < n; i++ {
		g := gs[i%len(gs)]
		hjobs = append(hjobs, HammerJob{Goroutines: g, OpsPer: 640 / g, Names: 24 + c.Rand.Intn(16), Presize: presizes[i%len(presizes)],
			Seed: c.Seed*7919 + int64(i), Global: i%8 == 7})
	}
	var jobs []core.Job
	for _, j := range hjobs {
		jobs = append(jobs, core.Job{Kind: "c26.hammer", TimeoutMs: 120000, Payload: j})
	}
	pool := c.NewPool(c.Workers)
	res := pool.Map(jobs, nil)
	if err := retryKilled(c, pool, jobs, res); err != nil {
		return 0, err
	}
	var traces [][]Event
	var which []int
	maxOverlap := 0
	for k, jr := range res {
		rec := map[string]any{"stage": "hammer", "job": hjobs[k]}
		if jr.Crashed || jr.Panic != "" {
			rec["kind"] = "go_crash"
			rec["summary"] = fmt.Sprintf("the symbol table crashed the process under %d free-running goroutines", hjobs[k].Goroutines)
			rec["log"] = tail(jr.CrashLog+jr.Panic, 4000)
			c.Violation(rec)
			continue
		}
		if jr.Timeout {
			rec["kind"] = "hang"
			rec["summary"] = fmt.Sprintf("%d free-running goroutines did not finish their calls (120 s)", hjobs[k].Goroutines)
			c.Violation(rec)
			continue
		}
		if jr.Err != "" {
			return 0, core.Inconclusivef("hammer job failed: %s", jr.Err)
		}
		var hr HammerResult
		if err := jr.Decode(&hr); err != nil {
			return 0, err
		}
		if hr.Overlap > maxOverlap {
			maxOverlap = hr.Overlap
		}
		traces = append(traces, hr.Events)
		which = append(which, k)
	}
	if len(traces) == 0 {
		return 0, nil
	}
	// negative control of the binding: one corrupted result must make TLC reject the trace
	corrupt := corruptTrace(traces[0])
	if corrupt == nil {
		return 0, core.Inconclusivef("hammer trace has no interning Add to corrupt")
	}
	v, _, err := validate(c, specDir, [][]Event{corrupt})
	if err != nil {
		return 0, err
	}
	if v != "postcondition" {
		return 0, core.Inconclusivef("negative control failed: SymTabTrace accepted a trace with a corrupted result (%s)", v)
	}
	c.Note("negative control: a hammer trace in which one Add returns the symbol of another name is rejected by SymTabTrace (TLC)")

	ok := 0
	// concatenate up to 4 traces per TLC run
	for i := 0; i < len(traces); i += 4 {
		end := i + 4
		if end > len(traces) {
			end = len(traces)
		}
		v, stuck, err := validate(c, specDir, traces[i:end])
		if err != nil {
			return 0, err
		}
		switch v {
		case "ok":
			ok += end - i
		case "postcondition", "invariant":
			// attribute: validate each trace alone
			for k := i; k < end; k++ {
				v1, stuck1, err := validate(c, specDir, traces[k:k+1])
				if err != nil {
					return 0, err
				}
				if v1 == "ok" {
					ok++
					continue
				}
				if v1 != "postcondition" && v1 != "invariant" {
					return 0, core.Inconclusivef("TLC trace validation failed: %s %s", v1, stuck1)
				}
				c.Violation(map[string]any{"stage": "hammer", "kind": "trace_rejected", "job": hjobs[which[k]],
					"summary": fmt.Sprintf("call/return history of %d free-running goroutines is not linearizable w.r.t. the abstract symbol table: %s", hjobs[which[k]].Goroutines, stuck1),
					"stuck": stuck1, "trace_tail": traceAround(traces[k], stuck1)})
			}
		default:
			return 0, core.Inconclusivef("TLC trace validation failed: %s %s", v, stuck)
		}
	}
	c.Cov("hammer_traces", len(traces))
	c.Cov("hammer_max_calls_in_flight", maxOverlap)
	evs := 0
	for _, t := range traces {
		evs += len(t)
	}
	c.Cov("hammer_events", evs)
	c.Logf("hammer: %d traces (%d events, up to %d calls in flight), %d accepted by SymTabTrace", len(traces), evs, maxOverlap, ok)
	if len(traces[0]) > 8 {
		c.Sample(map[string]any{"kind": "hammer trace", "job": hjobs[which[0]], "first_events": traces[0][:8]})
	}
	return ok, nil
}

// retryKilled re-runs jobs whose worker died without a Go fatal-error/panic banner (killed from outside: OOM, a
// stray signal): that is not an observation of the symbol table.
func retryKilled(c *core.Ctx, pool *core.Pool, jobs []core.Job, res []core.JobResult) error {
	for k := range res {
		if res[k].Crashed && !core.IsGoFatal(res[k].CrashLog) {
			c.Logf("worker died without a Go banner (job %d), running it again", k)
			res[k] = pool.Map(jobs[k:k+1], nil)[0]
			if res[k].Crashed && !core.IsGoFatal(res[k].CrashLog) {
				return core.Inconclusivef("worker process killed from outside twice (job %d): %s", k, tail(res[k].CrashLog, 500))
			}
		}
	}
	return nil
}

func validate(c *core.Ctx, specDir string, traces [][]Event) (verdict string, stuck string, err error) {
	var buf bytes.Buffer
	for i, t := range traces {
		if i > 0 {
			buf.WriteString(`{"ev":"reset","t":1,"op":"","n":"","k":0,"ok":false}` + "\n")
		}
		for _, e := range t {
			b, _ := json.Marshal(e)
			buf.Write(b)
			buf.WriteByte('\n')
		}
	}
	r, err := tlc.Run(tlc.Opts{SpecDir: specDir, Module: "SymTabTrace", Cfg: "SymTabTrace.cfg", Scratch: c.Scratch, Workers: 1, Timeout: 10 * time.Minute,
		HeapMB: 3000, KeepOut: true, Extra: map[string][]byte{"symtab_trace.ndjson": buf.Bytes()}})
	if err != nil {
		return "", "", err
	}
	for _, l := range strings.Split(r.Output, "\n") {
		if strings.HasPrefix(l, `<<"STUCK"`) {
			stuck = l
		}
	}
	if r.Verdict == "error" || r.Verdict == "timeout" {
		return r.Verdict, tail(r.What+"\n"+r.Output, 1500), nil
	}
	return r.Verdict, stuck, nil
}

// corruptTrace returns a copy in which one interning Add returns the previous symbol.
func corruptTrace(t []Event) []Event {
	out := append([]Event{}, t...)
	seen := map[string]bool{}
	for i, e := range out {
		if e.Ev == "call" && e.Op == "add" && !seen[e.N] {
			seen[e.N] = true
			if e.K >= 1 {
				out[i].K = e.K - 1
				return out
			}
		}
	}
	return nil
}

func traceAround(t []Event, stuck string) []Event {
	var idx int
	fmt.Sscanf(strings.TrimPrefix(stuck, `<<"STUCK", `), "%d", &idx)
	lo, hi := idx-12, idx+4
	if lo < 0 {
		lo = 0
	}
	if hi > len(t) {
		hi = len(t)
	}
	if lo > hi {
		lo = hi
	}
	return t[lo:hi]
}

func firstSteps(l []Step, n int) []string {
	var out []string
	for i, s := range l {
		if i >= n {
			break
		}
		out = append(out, fmt.Sprintf("g%d %s %s %s", s.A, s.K, s.E, s.N))
	}
	return out
}

func tail(s string, n int) string {
	if len(s) <= n {
		return s
	}
	return s[len(s)-n:]
}
