package c26

import (
	"encoding/json"
	"fmt"
	"math/rand"
	"runtime"
	"sort"
	"sync"
	"sync/atomic"

	"github.com/elk-language/elk/value"

	"elkverif/internal/core"
)

// HammerJob: free-running goroutines call Add/Get/GetName on one real table; every call and return is
// recorded with a global sequence number (taken before the call starts / after it has returned).
type HammerJob struct {
	Goroutines int   `json:"goroutines"`
	OpsPer     int   `json:"ops_per"`
	Names      int   `json:"names"`   // size of the name pool
	Presize    int   `json:"presize"` // value.SYMBOL_TABLE_INITIAL_SIZE
	Seed       int64 `json:"seed"`
	Global     bool  `json:"global"`  // hammer the global table through value.ToSymbol (fresh names; ids relative to its size)
}

// Event is one line of the trace validated against spec/SymTab/SymTabTrace.tla.
type Event struct {
	Ev string `json:"ev"`
	T  int    `json:"t"`
	Op string `json:"op"`
	N  string `json:"n"`
	K  int    `json:"k"`
	Ok bool   `json:"ok"`
	seq int64
}

type HammerResult struct {
	Events   []Event `json:"events"`
	Interned int     `json:"interned"`
	Overlap  int     `json:"overlap"` // max number of calls in flight
}

func init() {
	core.RegisterJob("c26.hammer", func(raw json.RawMessage) (any, error) {
		var j HammerJob
		if err := json.Unmarshal(raw, &j); err != nil {
			return nil, err
		}
		return hammer(&j), nil
	})
}

func hammer(j *HammerJob) *HammerResult {
	value.VerifHook = nil
	var table *value.SymbolTableStruct
	base := 0
	prefix := "n"
	if j.Global {
		table = value.SymbolTable
		prefix = fmt.Sprintf("c26.hammer.%d.", j.Seed)
		// nothing else interns in this worker while the job runs: symbols are compared relative to base
		probe := value.ToSymbol(prefix + "base")
		base = int(probe) + 1
	} else {
		old := value.SYMBOL_TABLE_INITIAL_SIZE
		value.SYMBOL_TABLE_INITIAL_SIZE = j.Presize
		table = value.NewSymbolTable()
		value.SYMBOL_TABLE_INITIAL_SIZE = old
	}
	var ctr atomic.Int64
	logs := make([][]Event, j.Goroutines)
	var start, wg sync.WaitGroup
	start.Add(1)
	for g := 0; g < j.Goroutines; g++ {
		wg.Add(1)
		go func(g int) {
			defer wg.Done()
			rng := rand.New(rand.NewSource(j.Seed*1000003 + int64(g)))
			log := make([]Event, 0, 2*j.OpsPer)
			start.Wait()
			for i := 0; i < j.OpsPer; i++ {
				// every goroutine walks through the name pool at about the same pace, so that the same fresh
				// name is interned by many goroutines at about the same time
				front := (i * j.Names) / j.OpsPer
				pick := front - rng.Intn(3) + rng.Intn(3)
				if rng.Intn(4) == 0 {
					pick = rng.Intn(j.Names)
				}
				if pick < 0 {
					pick = 0
				}
				if pick >= j.Names {
					pick = j.Names - 1
				}
				name := fmt.Sprintf("%s%d", prefix, pick)
				e := Event{T: g + 1}
				switch r := rng.Intn(10); {
				case r < 5:
					e.Op, e.N = "add", name
					e.seq = ctr.Add(1)
					var s value.Symbol
					if j.Global {
						s = value.ToSymbol(name)
					} else {
						s = table.Add(name)
					}
					e.K, e.Ok = int(s)-base, true
				case r < 8:
					e.Op, e.N = "get", name
					e.seq = ctr.Add(1)
					s, ok := table.Get(name)
					e.K, e.Ok = int(s), ok
					if ok {
						e.K -= base
					}
				default:
					k := front - 2 + rng.Intn(6)
					if rng.Intn(8) == 0 {
						k = -1
					}
					e.Op, e.K = "getname", k
					arg := value.Symbol(k + base)
					if k < 0 {
						arg = value.Symbol(k)
					}
					e.seq = ctr.Add(1)
					n, ok := table.GetName(arg)
					e.N, e.Ok = n, ok
				}
				rseq := ctr.Add(1)
				e.Ev = "call"
				log = append(log, e, Event{Ev: "ret", T: g + 1, seq: rseq})
				if rng.Intn(3) == 0 {
					runtime.Gosched()
				}
			}
			logs[g] = log
		}(g)
	}
	start.Done()
	wg.Wait()
	var all []Event
	for _, l := range logs {
		all = append(all, l...)
	}
	sort.Slice(all, func(a, b int) bool { return all[a].seq < all[b].seq })
	res := &HammerResult{Events: all}
	inflight := 0
	seen := map[string]bool{}
	for _, e := range all {
		if e.Ev == "call" {
			inflight++
			if inflight > res.Overlap {
				res.Overlap = inflight
			}
			if e.Op == "add" {
				seen[e.N] = true
			}
		} else {
			inflight--
		}
	}
	res.Interned = len(seen)
	return res
}
