package c26

import (
	"encoding/json"
	"fmt"
	"runtime"
	"strconv"
	"strings"
	"sync"
	"sync/atomic"
	"time"

	"github.com/elk-language/elk/value"

	"elkverif/internal/core"
)

// Step is one event of a TLC behaviour of spec/SymTab (hist record).
type Step struct {
	A  int    `json:"a"`  // goroutine
	K  string `json:"k"`  // go | block | grant
	E  string `json:"e"`  // event the actor stops at
	N  string `json:"n"`  // name ("-" = none)
	V  int    `json:"v"`  // symbol (-1 = none)
	Ok bool   `json:"ok"`
}

type Final struct {
	Names map[string]int `json:"names"`
	Ids   []string       `json:"ids"`
}

type Behaviour struct {
	Hist  []Step `json:"hist"`
	Done  bool   `json:"done"`
	Final Final  `json:"final"`
}

type ReplayJob struct {
	Behaviours []Behaviour `json:"behaviours"`
	Presizes   []int       `json:"presizes"` // value.SYMBOL_TABLE_INITIAL_SIZE values to run every behaviour with
	Names      []string    `json:"names"`
	StepMs     int         `json:"step_ms"`  // wait for an enabled step (default 5000)
	ProbeMs    int         `json:"probe_ms"` // how long a goroutine released into an unavailable lock is watched (default 40)
}

type ReplayResult struct {
	Outcome string   `json:"outcome"` // ok | mismatch | blocked | unknown_event | final_mismatch | result_mismatch
	Beh     int      `json:"beh"`
	Presize int      `json:"presize"`
	At      int      `json:"at"`
	Want    string   `json:"want,omitempty"`
	Got     string   `json:"got,omitempty"`
	Detail  string   `json:"detail,omitempty"`
	Events  []string `json:"events,omitempty"`
}

type ReplayBatchResult struct {
	Replayed int            `json:"replayed"`
	Steps    int            `json:"steps"`
	Probes   int            `json:"probes"`
	Grants   int            `json:"grants"`
	Bad      []ReplayResult `json:"bad,omitempty"`
}

var knownEvents = map[string]bool{
	"start": true, "ret": true, "done": true,
	"add.lock.try": true, "add.locked": true, "add.lookup": true, "add.name": true, "add.insert": true,
	"get.rlock.try": true, "get.rlocked": true, "get.read": true, "get.runlocked": true,
	"getname.rlock.try": true, "getname.rlocked": true, "getname.read": true,
}

type park struct {
	actor int
	ev    string
	n     string
	v     int
	ok    bool
	rel   chan struct{}
}

func (p *park) String() string { return fmt.Sprintf("%s n=%s v=%d ok=%v", p.ev, p.n, p.v, p.ok) }

type driver struct {
	mu       sync.Mutex
	table    *value.SymbolTableStruct
	parkCh   chan *park
	parked   map[int]*park
	gidActor map[int64]int
	free     atomic.Bool
	events   []string
}

func gid() int64 {
	var buf [64]byte
	n := runtime.Stack(buf[:], false)
	s := strings.TrimPrefix(string(buf[:n]), "goroutine ")
	if i := strings.IndexByte(s, ' '); i > 0 {
		id, _ := strconv.ParseInt(s[:i], 10, 64)
		return id
	}
	return -1
}

// gate parks the calling goroutine (an actor of the behaviour) at an event until the driver releases it.
func (d *driver) gate(actor int, ev, n string, v int, ok bool) {
	if d.free.Load() {
		return
	}
	pk := &park{actor: actor, ev: ev, n: n, v: v, ok: ok, rel: make(chan struct{})}
	d.parkCh <- pk
	<-pk.rel
}

// hook is installed as value.VerifHook. Events of other tables (the global one) and of goroutines that
// are not actors are ignored.
func (d *driver) hook(ev string, args ...any) {
	if d.free.Load() || len(args) < 4 {
		return
	}
	s, _ := args[0].(*value.SymbolTableStruct)
	if s != d.table {
		return
	}
	g := gid()
	d.mu.Lock()
	actor, isActor := d.gidActor[g]
	d.mu.Unlock()
	if !isActor {
		return
	}
	name, _ := args[1].(string)
	sym, _ := args[2].(value.Symbol)
	ok, _ := args[3].(bool)
	v := int(sym)
	// normalise to the model's projection
	switch ev {
	case "add.lookup", "get.read", "get.runlocked":
		if !ok {
			v = -1
		}
	case "getname.rlock.try", "getname.rlocked":
		name = strconv.Itoa(int(sym))
		v = -1
	}
	d.gate(actor, ev, name, v, ok)
}

func (d *driver) note(p *park) {
	d.parked[p.actor] = p
	d.events = append(d.events, fmt.Sprintf("g%d %s", p.actor, p))
}

func (d *driver) waitPark(actor int, timeout time.Duration) *park {
	deadline := time.After(timeout)
	for {
		if p, ok := d.parked[actor]; ok {
			return p
		}
		select {
		case p := <-d.parkCh:
			d.note(p)
		case <-deadline:
			return nil
		}
	}
}

func (d *driver) drain() {
	for {
		select {
		case p := <-d.parkCh:
			d.note(p)
		default:
			return
		}
	}
}

func (d *driver) release(actor int) {
	p := d.parked[actor]
	delete(d.parked, actor)
	close(p.rel)
}

type opCall struct {
	op string
	n  string
	k  int
}

// programs extracts each goroutine's calls from the behaviour (the x.try events of the Call steps).
func programs(b *Behaviour) map[int][]opCall {
	progs := map[int][]opCall{}
	for _, s := range b.Hist {
		switch s.E {
		case "add.lock.try":
			progs[s.A] = append(progs[s.A], opCall{op: "add", n: s.N})
		case "get.rlock.try":
			progs[s.A] = append(progs[s.A], opCall{op: "get", n: s.N})
		case "getname.rlock.try":
			k, _ := strconv.Atoi(s.N)
			progs[s.A] = append(progs[s.A], opCall{op: "getname", k: k})
		case "start", "done":
			if _, ok := progs[s.A]; !ok {
				progs[s.A] = nil
			}
		}
	}
	return progs
}

func init() {
	core.RegisterJob("c26.replay", func(raw json.RawMessage) (any, error) {
		var j ReplayJob
		if err := json.Unmarshal(raw, &j); err != nil {
			return nil, err
		}
		out := &ReplayBatchResult{}
		for bi := range j.Behaviours {
			for _, ps := range j.Presizes {
				r := replayOne(&j, bi, ps, out)
				out.Replayed++
				if r.Outcome != "ok" {
					r.Beh = bi
					r.Presize = ps
					out.Bad = append(out.Bad, *r)
					core.RequestWorkerRestart()
					if len(out.Bad) >= 3 {
						return out, nil
					}
				}
			}
		}
		return out, nil
	})
}

func replayOne(j *ReplayJob, bi int, presize int, stats *ReplayBatchResult) *ReplayResult {
	b := &j.Behaviours[bi]
	res := &ReplayResult{At: -1}
	stepWait := time.Duration(j.StepMs) * time.Millisecond
	if stepWait == 0 {
		stepWait = 5 * time.Second
	}
	probeWait := time.Duration(j.ProbeMs) * time.Millisecond
	if probeWait == 0 {
		probeWait = 40 * time.Millisecond
	}

	old := value.SYMBOL_TABLE_INITIAL_SIZE
	value.SYMBOL_TABLE_INITIAL_SIZE = presize
	table := value.NewSymbolTable()
	value.SYMBOL_TABLE_INITIAL_SIZE = old

	d := &driver{table: table, parkCh: make(chan *park, 64), parked: map[int]*park{}, gidActor: map[int64]int{}}
	value.VerifHook = d.hook
	progs := programs(b)
	var wg sync.WaitGroup
	for a, prog := range progs {
		wg.Add(1)
		go func(a int, prog []opCall) {
			defer wg.Done()
			g := gid()
			d.mu.Lock()
			d.gidActor[g] = a
			d.mu.Unlock()
			d.gate(a, "start", "-", -1, false)
			for _, c := range prog {
				switch c.op {
				case "add":
					s := table.Add(c.n)
					d.gate(a, "ret", c.n, int(s), true)
				case "get":
					s, ok := table.Get(c.n)
					d.gate(a, "ret", c.n, int(s), ok)
				case "getname":
					n, ok := table.GetName(value.Symbol(c.k))
					if !ok && n == "" {
						n = "-"
					}
					d.gate(a, "ret", n, c.k, ok)
				}
			}
			d.gate(a, "done", "-", -1, false)
		}(a, prog)
	}
	finish := func(outcome string) *ReplayResult {
		d.free.Store(true)
		d.drain()
		for a := range d.parked {
			d.release(a)
		}
		res.Outcome = outcome
		if outcome != "ok" {
			res.Events = d.events
		}
		return res
	}
	for a := range progs {
		if d.waitPark(a, stepWait) == nil {
			res.Detail = fmt.Sprintf("goroutine %d did not reach its start gate", a)
			return finish("unknown_event")
		}
	}

	waiting := map[int]bool{}
	for i, s := range b.Hist {
		stats.Steps++
		d.drain()
		if s.K != "grant" {
			for w := range waiting {
				if p, ok := d.parked[w]; ok {
					res.At = i
					res.Want = fmt.Sprintf("g%d blocked inside Lock/RLock (the spec: not available)", w)
					res.Got = fmt.Sprintf("g%d reached %s", w, p)
					return finish("mismatch")
				}
			}
		}
		want := fmt.Sprintf("%s n=%s v=%d ok=%v", s.E, s.N, s.V, s.Ok)
		switch s.K {
		case "go", "block":
			if d.waitPark(s.A, stepWait) == nil {
				res.At = i
				res.Want = fmt.Sprintf("g%d at a gate before %s", s.A, s.E)
				res.Detail = "the actor is not at a gate although the spec lets it move"
				return finish("blocked")
			}
			d.release(s.A)
			if s.K == "block" {
				stats.Probes++
				if p := d.waitPark(s.A, probeWait); p != nil {
					res.At = i
					res.Want = fmt.Sprintf("g%d blocked inside Lock/RLock before %s (the spec: the lock is not available)", s.A, s.E)
					res.Got = fmt.Sprintf("g%d reached %s", s.A, p)
					return finish("mismatch")
				}
				waiting[s.A] = true
				continue
			}
		case "grant":
			stats.Grants++
			delete(waiting, s.A)
		default:
			res.At = i
			res.Got = "step kind " + s.K
			return finish("unknown_event")
		}
		p := d.waitPark(s.A, stepWait)
		if p == nil {
			p = d.waitPark(s.A, 3*stepWait)
		}
		if p == nil {
			res.At = i
			res.Want = fmt.Sprintf("g%d %s", s.A, want)
			res.Detail = "the actor did not reach its next event while every other actor was parked (the spec enables the step)"
			return finish("blocked")
		}
		if !knownEvents[p.ev] {
			res.At = i
			res.Got = p.ev
			return finish("unknown_event")
		}
		if p.String() != want {
			res.At = i
			res.Want = fmt.Sprintf("g%d %s", s.A, want)
			res.Got = fmt.Sprintf("g%d %s", s.A, p)
			return finish("mismatch")
		}
	}
	if !b.Done {
		res.Detail = "behaviour of the verified model does not end in its final state"
		return finish("unknown_event")
	}
	// all actors are at "done": let them go and compare the final table through the public API
	d.free.Store(true)
	d.drain()
	for a := range d.parked {
		d.release(a)
	}
	doneCh := make(chan struct{})
	go func() { wg.Wait(); close(doneCh) }()
	select {
	case <-doneCh:
	case <-time.After(stepWait):
		res.Detail = "goroutines did not finish after the last gate"
		res.Outcome = "blocked"
		res.Events = d.events
		return res
	}
	for _, n := range j.Names {
		want := b.Final.Names[n]
		s, ok := table.Get(n)
		got := int(s)
		if !ok {
			got = -1
		}
		if got != want || table.Exists(n) != (want != -1) {
			res.Want = fmt.Sprintf("final Get(%q) = %d", n, want)
			res.Got = fmt.Sprintf("%d", got)
			res.Outcome = "final_mismatch"
			res.Events = d.events
			return res
		}
	}
	for k := -1; k <= len(b.Final.Ids)+1; k++ {
		n, ok := table.GetName(value.Symbol(k))
		wantOk := k >= 0 && k < len(b.Final.Ids)
		wantN := ""
		if wantOk {
			wantN = b.Final.Ids[k]
		}
		if ok != wantOk || n != wantN {
			res.Want = fmt.Sprintf("final GetName(%d) = %q,%v", k, wantN, wantOk)
			res.Got = fmt.Sprintf("%q,%v", n, ok)
			res.Outcome = "final_mismatch"
			res.Events = d.events
			return res
		}
	}
	res.Outcome = "ok"
	return res
}
