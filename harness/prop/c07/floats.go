package c07

import (
	"encoding/json"
	"fmt"
	"math"
	"path/filepath"
	"strconv"
	"strings"
	"time"

	"github.com/elk-language/elk/value"

	"elkverif/internal/core"
	"elkverif/internal/elkrun"
	"elkverif/internal/tlc"
)

// Float half of C07 (spec/FloatExact): dyadic operands whose exact result is representable, plus the
// NaN / infinity / signed-zero rules; Float, Float64 and Float32; direct Go API and constant folding.
// The typed-opcode path of Float is not used here: it belongs to C08 (SUBTRACT_FLOAT, LESS_FLOAT read
// their operand as an Int, EQUAL on typed Floats kills the process).

type fval struct {
	C string `json:"c"`
	N int64  `json:"n"`
}

type frec struct {
	Op string `json:"op"`
	A  fval   `json:"a"`
	B  fval   `json:"b"`
	R  fval   `json:"r"`
}

var floatWidths = []struct{ Name, Suf string }{{"Float", ""}, {"Float64", "f64"}, {"Float32", "f32"}}

func (v fval) f64() float64 {
	switch v.C {
	case "nan":
		return math.NaN()
	case "inf":
		return math.Inf(1)
	case "ninf":
		return math.Inf(-1)
	case "nzero":
		return math.Copysign(0, -1)
	}
	return float64(v.N) / 64
}

func mkFloat(w string, v fval) value.Value {
	switch w {
	case "Float64":
		return value.Float64(v.f64()).ToValue()
	case "Float32":
		return value.Float32(v.f64()).ToValue()
	}
	return value.Float(v.f64()).ToValue()
}

// readFloat parses an inspected Float/Float64/Float32/Bool into the model's value.
func readFloat(text, suf string) (fval, string) {
	switch {
	case text == "true":
		return fval{"fin", 64}, ""
	case text == "false":
		return fval{"fin", 0}, ""
	case strings.HasSuffix(text, "::NAN"):
		return fval{"nan", 0}, ""
	case strings.HasSuffix(text, "::NEG_INF"):
		return fval{"ninf", 0}, ""
	case strings.HasSuffix(text, "::INF"):
		return fval{"inf", 0}, ""
	}
	if suf != "" {
		if !strings.HasSuffix(text, suf) {
			return fval{}, "result " + text + " does not have the operand's width"
		}
		text = strings.TrimSuffix(text, suf)
	}
	f, err := strconv.ParseFloat(text, 64)
	if err != nil {
		return fval{}, "unreadable result " + text
	}
	if f == 0 {
		if math.Signbit(f) {
			return fval{"nzero", 0}, ""
		}
		return fval{"fin", 0}, ""
	}
	n := f * 64
	if n != math.Trunc(n) || math.Abs(n) > 1e15 {
		return fval{}, "result " + text + " is not the exact dyadic rational"
	}
	return fval{"fin", int64(n)}, ""
}

type floatJob struct {
	W    string
	Recs []frec
}

func init() {
	core.RegisterJob("c07.float", func(p json.RawMessage) (any, error) {
		var j floatJob
		if err := json.Unmarshal(p, &j); err != nil {
			return nil, err
		}
		elkrun.Setup()
		out := make([]string, len(j.Recs))
		for i, r := range j.Recs {
			out[i] = func() (text string) {
				defer func() {
					if p := recover(); p != nil {
						text = fmt.Sprintf("!panic %v", p)
					}
				}()
				res, err := valOps[r.Op](mkFloat(j.W, r.A), mkFloat(j.W, r.B))
				if !err.IsUndefined() {
					cls, msg := elkrun.DescribeError(err)
					return "!error " + cls + ": " + msg
				}
				if res.IsUndefined() {
					return "!error no builtin implementation"
				}
				return res.Inspect()
			}()
		}
		return out, nil
	})
}

func flit(v fval, suf string) string {
	if v.C == "nzero" {
		return "(-0.0" + suf + ")"
	}
	s := strconv.FormatFloat(float64(v.N)/64, 'f', -1, 64)
	if !strings.Contains(s, ".") {
		s += ".0"
	}
	if strings.HasPrefix(s, "-") {
		return "(" + s + suf + ")"
	}
	return s + suf
}

func runFloats(c *core.Ctx, pool *core.Pool) error {
	maxM := c.Pick(10, 24)
	cfg := fmt.Sprintf("CONSTANTS\n  MaxM = %d\nINIT Init\nNEXT Next\nINVARIANTS FiniteIsReal NaNContagious Trichotomy SelfDifference\nCHECK_DEADLOCK FALSE\n", maxM)
	var recs []frec
	var perr error
	t0 := time.Now()
	res, err := tlc.Run(tlc.Opts{
		SpecDir: filepath.Join(core.VerifRoot, "spec", "FloatExact"), Module: "FloatExact", Cfg: "MC.cfg", Scratch: c.Scratch,
		Workers: min(c.Workers, 8), Timeout: 10 * time.Minute, Extra: map[string][]byte{"MC.cfg": []byte(cfg)},
		OnGen: func(b []byte) {
			var r frec
			if e := json.Unmarshal(b, &r); e != nil {
				perr = fmt.Errorf("bad GEN record: %v: %s", e, b)
				return
			}
			recs = append(recs, r)
		},
	})
	if err != nil {
		return err
	}
	if perr != nil {
		return perr
	}
	if !res.OK {
		return core.Inconclusivef("TLC on FloatExact: verdict=%s %s\n%s", res.Verdict, res.What, tailStr(res.Output, 2000))
	}
	c.Logf("TLC FloatExact (operands m/8, |m| <= %d, and -0, +-inf, NaN): %d states, %d records, %.1fs", maxM, res.Distinct, len(recs), time.Since(t0).Seconds())
	c.CovAdd("states", int(res.Distinct))
	c.CovAdd("transitions", int(res.Generated))
	c.Cov("float_half", "exact dyadic results and special values only; rounding of inexact results is not decided")

	compared, agree := 0, 0
	report := func(w, path string, r *frec, got fval, problem, raw string) {
		compared++
		if problem == "" && got == r.R {
			agree++
			if agree%20011 == 1 {
				c.Sample(map[string]any{"type": w, "op": r.Op, "a": r.A, "b": r.B, "path": path, "spec_and_real": r.R})
			}
			return
		}
		o := &Out{K: "val", V: raw, Detail: problem}
		viol := map[string]any{"kind": "float_wrong_result", "instance": "float", "type": w, "op": r.Op, "a": fmt.Sprintf("%s %d/64", r.A.C, r.A.N),
			"b": fmt.Sprintf("%s %d/64", r.B.C, r.B.N), "right_type": w, "path": path, "expected": map[string]any{"k": r.R.C, "v": fmt.Sprintf("%d/64", r.R.N)}, "observed": o}
		viol["summary"] = summary(viol)
		c.Violation(viol)
	}
	// direct API
	var jobs []core.Job
	const chunk = 8000
	type jk struct {
		w      string
		lo, hi int
	}
	var keys []jk
	for _, w := range floatWidths {
		for i := 0; i < len(recs); i += chunk {
			j := min(i+chunk, len(recs))
			jobs = append(jobs, core.Job{Kind: "c07.float", Payload: floatJob{W: w.Name, Recs: recs[i:j]}, TimeoutMs: 120000})
			keys = append(keys, jk{w.Name, i, j})
		}
	}
	sufOf := map[string]string{"Float": "", "Float64": "f64", "Float32": "f32"}
	for ji, jr := range pool.Map(jobs, nil) {
		if jr.Crashed || jr.Timeout || jr.Panic != "" || jr.Err != "" {
			return core.Inconclusivef("float worker failed: %s %s", jr.Err, firstLines(jr.Panic+jr.CrashLog, 3))
		}
		var outs []string
		if err := jr.Decode(&outs); err != nil {
			return err
		}
		k := keys[ji]
		for i, text := range outs {
			r := &recs[k.lo+i]
			if strings.HasPrefix(text, "!") {
				report(k.w, "direct value.XxxVal", r, fval{}, text, text)
				continue
			}
			got, problem := readFloat(text, sufOf[k.w])
			report(k.w, "direct value.XxxVal", r, got, problem, text)
		}
	}
	// constant folding on finite literal operands (seeded sample)
	var fin []int
	for i, r := range recs {
		if (r.A.C == "fin" || r.A.C == "nzero") && (r.B.C == "fin" || r.B.C == "nzero") {
			fin = append(fin, i)
		}
	}
	pick := c.SampleIdx(len(fin), c.Pick(1500, 9000))
	const per = 300
	for _, w := range floatWidths {
		var fjobs []core.Job
		for i := 0; i < len(pick); i += per {
			var sb strings.Builder
			for _, pi := range pick[i:min(i+per, len(pick))] {
				r := recs[fin[pi]]
				fmt.Fprintf(&sb, "println \"F %d x #{%s}\"\n", fin[pi], expr(r.Op, flit(r.A, w.Suf), flit(r.B, w.Suf)))
			}
			fjobs = append(fjobs, core.Job{Kind: "elk", Payload: elkrun.Job{Src: sb.String(), RunMs: 30000}, TimeoutMs: 90000})
		}
		for ji, jr := range pool.Map(fjobs, nil) {
			var r elkrun.Result
			if jr.Crashed || jr.Timeout || jr.Panic != "" || jr.Err != "" {
				return core.Inconclusivef("folded float program failed: %s %s", jr.Err, firstLines(jr.Panic+jr.CrashLog, 3))
			}
			if err := jr.Decode(&r); err != nil {
				return err
			}
			if !r.Accepted || r.GoPanic != "" || r.ErrClass != "" {
				return core.Inconclusivef("folded float program: accepted=%v %s %s %s", r.Accepted, firstLines(r.Diags, 2), r.ErrClass, firstLines(r.GoPanic, 2))
			}
			lines := map[string]string{}
			for _, l := range strings.Split(r.Stdout, "\n") {
				f := strings.SplitN(l, " ", 4)
				if len(f) == 4 && f[0] == "F" {
					lines[f[1]] = f[3]
				}
			}
			for _, pi := range pick[ji*per : min((ji+1)*per, len(pick))] {
				rr := &recs[fin[pi]]
				text, ok := lines[fmt.Sprint(fin[pi])]
				if !ok {
					report(w.Name, "constant folding", rr, fval{}, "no output line", "")
					continue
				}
				got, problem := readFloat(text, w.Suf)
				report(w.Name, "constant folding", rr, got, problem, text)
			}
		}
	}
	c.CovAdd("traces_validated_against_impl", compared)
	c.CovAdd("float_agreements", agree)
	c.Logf("floats: %d comparisons (3 widths x {direct API, constant folding}), %d agree; violations so far %d", compared, agree, c.Violations())
	return nil
}
