package c07

import "elkverif/internal/core"

func runFloats(c *core.Ctx, pool *core.Pool) error {
	return nil
}
