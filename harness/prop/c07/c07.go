// Package c07: fixed-width integers wrap modulo 2^n for every admitted right operand type
// (spec/FixedInt). The operand-type matrix is read from the real checker (i.e. the real std
// headers); the 8-bit types are enumerated by TLC on FixedIntMachine and every exported record is
// replayed on the real code (direct Go API, typed Elk code, constant folding); the 16/32/64-bit types
// are run on boundary/seeded operands and the recorded outcomes are validated by Apalache against the
// same specification.
package c07

import (
	"encoding/json"
	"fmt"
	"math/big"
	"path/filepath"
	"sort"
	"strings"
	"time"

	"elkverif/internal/core"
	"elkverif/internal/elkrun"
	"elkverif/internal/tlc"
	"elkverif/prop/c06/apa"
)

func init() {
	core.Register(&core.Check{ID: "C07", Level: "model_checking", Run: run})
}

var specDir = filepath.Join(core.VerifRoot, "spec", "FixedInt")

func devsOf(op string) []string {
	switch {
	case isShift(op):
		return []string{"lshl_uint_count_type_error", "big_count_shift_zero"}
	case op == "pow":
		return []string{"pow_max_exponent_hangs"}
	}
	return nil
}

type Matrix_ = map[string]map[string][]string

func run(c *core.Ctx) error {
	pool := c.NewPool(c.Workers)
	matrix, err := Matrix(pool)
	if err != nil {
		return err
	}
	// the matrix the property quantifies over, as found in the real headers
	cells := 0
	var desc []string
	for _, t := range Fixed {
		for _, op := range BinaryOps {
			us := matrix[t.Name][op]
			cells += len(us)
			if op == "eq" || op == "ne" {
				continue // == and != accept any value; only the same-type case is arithmetic
			}
			if !isShift(op) {
				if len(us) != 1 || us[0] != t.Name {
					return core.Inconclusivef("model drift: %s#%s admits right operand types %v; the specification defines it for %s only", t.Name, elkOp[op], us, t.Name)
				}
			} else if len(us) == 0 {
				return core.Inconclusivef("%s#%s admits no right operand type", t.Name, elkOp[op])
			}
		}
		desc = append(desc, fmt.Sprintf("%s: shifts x {%s}", t.Name, strings.Join(matrix[t.Name]["shl"], ",")))
	}
	c.Cov("operand_type_matrix_cells_admitted", cells)
	c.Cov("operand_type_matrix", strings.Join(desc[:1], "; ")+"; ... (arithmetic, bitwise and ordering operators admit the same type only)")
	c.Logf("operand-type matrix: %d admitted (left type, operator, right type) cells", cells)

	for _, t := range []Ty{Fixed[0], Fixed[4]} {
		if err := runN8(c, pool, matrix, t); err != nil {
			return err
		}
	}
	if err := runWide(c, pool, matrix); err != nil {
		return err
	}
	if err := runFloats(c, pool); err != nil {
		return err
	}
	if c.CovInt("traces_validated_against_impl") == 0 {
		return core.Inconclusivef("nothing was compared")
	}
	return nil
}

// ---- 8-bit types: TLC -> real code ------------------------------------------------------------------

type devPred struct {
	Op string `json:"op"`
	Ct string `json:"ct"`
	D  string `json:"d"`
	K  string `json:"k"`
	V  int64  `json:"v"`
}

type rec struct {
	A   int64             `json:"a"`
	B   int64             `json:"b"`
	R   map[string]int64  `json:"r"`
	K   map[string]string `json:"k"`
	Dev []devPred         `json:"dev"`
}

// cell: one operator, one right operand type, a grid of operands.
type cell struct {
	T, U   Ty
	Op     string
	As, Bs []string
}

func (cl cell) chunks(limit int) []cell {
	per := max(1, limit/max(1, len(cl.Bs)))
	var out []cell
	for i := 0; i < len(cl.As); i += per {
		x := cl
		x.As = cl.As[i:min(i+per, len(cl.As))]
		out = append(out, x)
	}
	return out
}

type gridJob struct {
	T, U, Op string
	As, Bs   []string
}

func init() {
	core.RegisterJob("c07.grid", func(p json.RawMessage) (any, error) {
		var g gridJob
		if err := json.Unmarshal(p, &g); err != nil {
			return nil, err
		}
		elkrun.Setup()
		out := make([]string, 0, len(g.As)*len(g.Bs))
		for _, a := range g.As {
			for _, b := range g.Bs {
				o := runDirect(Vec{T: g.T, U: g.U, Op: g.Op, A: a, B: b})
				out = append(out, o.K+" "+o.V+" "+firstLines(o.Detail, 1))
			}
		}
		return out, nil
	})
}

func runN8(c *core.Ctx, pool *core.Pool, matrix Matrix_, t Ty) error {
	var operands []int64
	lo, hi := t.Min().Int64(), t.Max().Int64()
	if c.Thorough() {
		for v := lo; v <= hi; v++ {
			operands = append(operands, v)
		}
	} else {
		set := map[int64]bool{}
		for _, v := range []int64{lo, lo + 1, lo + 2, hi - 2, hi - 1, hi, 0, 1, 2, 3, 7, 8, 15, 16, 63, 64, 100, 127, 128, 129, 200, -1, -2, -3, -7, -8, -64, -100} {
			if v >= lo && v <= hi {
				set[v] = true
			}
		}
		for len(set) < 40 {
			set[lo+int64(c.Rand.Intn(int(hi-lo+1)))] = true
		}
		for v := range set {
			operands = append(operands, v)
		}
		sort.Slice(operands, func(i, j int) bool { return operands[i] < operands[j] })
	}
	var os []string
	for _, v := range operands {
		os = append(os, fmt.Sprint(v))
	}
	signed := "FALSE"
	if t.Signed {
		signed = "TRUE"
	}
	mc := fmt.Sprintf("---- MODULE MC_FixedInt ----\nEXTENDS FixedIntMachine\nMCSigned == %s\nMCOperands == {%s}\nMCCounts == -10..10\nMCDeviations == {}\nMCExplain == AllDeviations\n====\n", signed, strings.Join(os, ", "))
	recs := map[[2]int64]*rec{}
	var perr error
	t0 := time.Now()
	res, err := tlc.Run(tlc.Opts{
		SpecDir: specDir, Module: "MC_FixedInt", Cfg: "I8.cfg", Scratch: c.Scratch, Workers: min(c.Workers, 8),
		Timeout: 20 * time.Minute, Extra: map[string][]byte{"MC_FixedInt.tla": []byte(mc)},
		OnGen: func(b []byte) {
			var r rec
			if e := json.Unmarshal(b, &r); e != nil {
				perr = fmt.Errorf("bad GEN record: %v: %s", e, b)
				return
			}
			recs[[2]int64{r.A, r.B}] = &r
		},
	})
	if err != nil {
		return err
	}
	if perr != nil {
		return perr
	}
	if !res.OK {
		return core.Inconclusivef("TLC on FixedIntMachine (%s): verdict=%s %s\n%s", t.Name, res.Verdict, res.What, tailStr(res.Output, 2500))
	}
	c.Logf("TLC FixedIntMachine %s: %d operand values, %d states, %d distinct, %d records, %.1fs", t.Name, len(operands), res.Generated, res.Distinct, len(recs), time.Since(t0).Seconds())
	c.CovAdd("states", int(res.Distinct))
	c.CovAdd("transitions", int(res.Generated))

	// the cells to evaluate
	var cells []cell
	countStrs := func(u Ty) []string {
		var out []string
		for k := -10; k <= 10; k++ {
			if u.Fits(fmt.Sprint(k)) {
				out = append(out, fmt.Sprint(k))
			}
		}
		return out
	}
	for _, op := range AllOps {
		switch {
		case isShift(op):
			for _, un := range matrix[t.Name][op] {
				u := TyByName(un)
				cells = append(cells, cell{T: t, U: u, Op: op, As: os, Bs: countStrs(u)})
			}
		case isUnary(op):
			cells = append(cells, cell{T: t, U: t, Op: op, As: os, Bs: []string{"0"}})
		default:
			var bs []string
			for _, b := range operands {
				if (op == "div" || op == "mod") && b == 0 {
					continue
				}
				if op == "pow" && (b < 0 || b > 3) {
					continue
				}
				bs = append(bs, fmt.Sprint(b))
			}
			cells = append(cells, cell{T: t, U: t, Op: op, As: os, Bs: bs})
		}
	}
	var chunks []cell
	for _, cl := range cells {
		chunks = append(chunks, cl.chunks(12000)...)
	}
	// real runs: direct grid + typed Elk grid
	t1 := time.Now()
	var jobs []core.Job
	for _, ch := range chunks {
		jobs = append(jobs, core.Job{Kind: "c07.grid", Payload: gridJob{T: ch.T.Name, U: ch.U.Name, Op: ch.Op, As: ch.As, Bs: ch.Bs}, TimeoutMs: 120000})
	}
	for _, ch := range chunks {
		jobs = append(jobs, core.Job{Kind: "elk", Payload: elkrun.Job{Src: cellProgram(ch.T, ch.U, ch.Op, ch.As, ch.Bs), RunMs: 90000}, TimeoutMs: 150000})
	}
	results := pool.Map(jobs, nil)
	c.Logf("%s: %d grid chunks x {direct API, typed Elk code} in %.1fs", t.Name, len(chunks), time.Since(t1).Seconds())

	compared, agree := 0, 0
	check := func(ch cell, path, a, b string, o *Out) {
		ai, _ := new(big.Int).SetString(a, 10)
		bi, _ := new(big.Int).SetString(b, 10)
		r := recs[[2]int64{ai.Int64(), bi.Int64()}]
		if r == nil {
			perr = fmt.Errorf("no TLC record for %s %s", a, b)
			return
		}
		ek, ok := r.K[ch.Op]
		if !ok {
			perr = fmt.Errorf("TLC record %s %s has no outcome for %s", a, b, ch.Op)
			return
		}
		ev := fmt.Sprint(r.R[ch.Op])
		compared++
		if o.K == ek && o.V == ev {
			agree++
			if agree%150001 == 1 {
				c.Sample(map[string]any{"type": t.Name, "op": ch.Op, "a": a, "b": b, "right_type": ch.U.Name, "path": path, "spec_and_real": o.V})
			}
			return
		}
		viol := map[string]any{"kind": kindOf(o), "instance": "8-bit", "type": t.Name, "op": ch.Op, "a": a, "b": b, "right_type": ch.U.Name,
			"path": path, "expected": map[string]any{"k": ek, "v": ev}, "observed": o}
		for _, d := range r.Dev {
			if d.Op == ch.Op && d.Ct == ch.U.Name && d.K == o.K && fmt.Sprint(d.V) == o.V {
				viol["deviation"] = d.D
				break
			}
		}
		viol["summary"] = summary(viol)
		c.Violation(viol)
	}
	for i, ch := range chunks {
		// direct
		jr := results[i]
		if jr.Crashed || jr.Timeout || jr.Panic != "" || jr.Err != "" {
			return core.Inconclusivef("direct grid %s %s %s failed: %s %s timeout=%v", ch.T.Name, ch.Op, ch.U.Name, jr.Err, firstLines(jr.Panic, 2), jr.Timeout)
		}
		var outs []string
		if err := jr.Decode(&outs); err != nil {
			return err
		}
		k := 0
		for _, a := range ch.As {
			for _, b := range ch.Bs {
				f := strings.SplitN(outs[k], " ", 3)
				k++
				check(ch, "direct value.XxxVal", a, b, &Out{K: f[0], V: f[1], Detail: f[2]})
			}
		}
		// typed Elk code
		jr = results[len(chunks)+i]
		var r elkrun.Result
		if jr.Crashed || jr.Timeout || jr.Panic != "" {
			r.GoPanic = "worker died / timed out: " + firstLines(jr.Panic+jr.CrashLog, 3)
		} else if jr.Err != "" {
			return core.Inconclusivef("worker problem: %s", jr.Err)
		} else if err := jr.Decode(&r); err != nil {
			return err
		}
		if !r.Accepted && r.GoPanic == "" {
			return core.Inconclusivef("cell program %s %s %s rejected by the checker: %s", ch.T.Name, ch.Op, ch.U.Name, firstLines(r.Diags, 3))
		}
		got := parse(r.Stdout, ch.T, ch.Op)
		for _, a := range ch.As {
			for _, b := range ch.Bs {
				o := got[insp(ch.T, a)+" "+insp(ch.U, b)]
				if o == nil {
					o = &Out{K: "err", V: "0", Detail: "no output line"}
					switch {
					case r.GoPanic != "":
						o = &Out{K: "panic", V: "0", Detail: firstLines(r.GoPanic, 1)}
					case r.Hung:
						o = &Out{K: "hang", V: "0"}
					case r.ErrClass != "":
						o.Detail = "program died: " + r.ErrClass + ": " + r.ErrMsg
					}
				}
				check(ch, "typed Elk code", a, b, o)
			}
		}
	}
	if perr != nil {
		return core.Inconclusivef("%v", perr)
	}

	// constant folding: seeded sample of (cell, a, b)
	var fv []Vec
	nf := c.Pick(1500, 8000)
	for len(fv) < nf {
		cl := cells[c.Rand.Intn(len(cells))]
		if len(cl.Bs) == 0 {
			continue
		}
		fv = append(fv, Vec{ID: len(fv), T: cl.T.Name, U: cl.U.Name, Op: cl.Op, A: cl.As[c.Rand.Intn(len(cl.As))], B: cl.Bs[c.Rand.Intn(len(cl.Bs))]})
	}
	fouts, err := runFolded(pool, fv)
	if err != nil {
		return err
	}
	for i, v := range fv {
		check(cell{T: TyByName(v.T), U: TyByName(v.U), Op: v.Op}, "constant folding", v.A, v.B, fouts[i])
	}
	if perr != nil {
		return core.Inconclusivef("%v", perr)
	}
	c.CovAdd("traces_validated_against_impl", compared)
	c.CovAdd("agreements_8bit", agree)
	c.Logf("%s: %d comparisons (every operand pair x operator x admitted right type x path), %d agree; violations so far %d", t.Name, compared, agree, c.Violations())
	return nil
}

// runFolded evaluates literal expressions, 300 per program.
func runFolded(pool *core.Pool, vs []Vec) ([]*Out, error) {
	const per = 300
	var jobs []core.Job
	for i := 0; i < len(vs); i += per {
		jobs = append(jobs, core.Job{Kind: "elk", Payload: elkrun.Job{Src: foldedProgram(vs[i:min(i+per, len(vs))]), RunMs: 30000}, TimeoutMs: 90000})
	}
	outs := make([]*Out, len(vs))
	for ji, jr := range pool.Map(jobs, nil) {
		var r elkrun.Result
		if jr.Crashed || jr.Timeout || jr.Panic != "" {
			r.GoPanic = "worker died / timed out: " + firstLines(jr.Panic+jr.CrashLog, 3)
		} else if jr.Err != "" {
			return nil, core.Inconclusivef("worker problem: %s", jr.Err)
		} else if err := jr.Decode(&r); err != nil {
			return nil, err
		}
		if !r.Accepted && r.GoPanic == "" {
			return nil, core.Inconclusivef("folded program rejected by the checker: %s", firstLines(r.Diags, 3))
		}
		for i := ji * per; i < min((ji+1)*per, len(vs)); i++ {
			v := vs[i]
			got := parse(r.Stdout, TyByName(v.T), v.Op)
			o := got[fmt.Sprintf("%d x", v.ID)]
			if o == nil {
				o = &Out{K: "err", V: "0", Detail: "no output line"}
				switch {
				case r.GoPanic != "":
					o = &Out{K: "panic", V: "0", Detail: firstLines(r.GoPanic, 1)}
				case r.Hung:
					o = &Out{K: "hang", V: "0"}
				}
			}
			outs[i] = o
		}
	}
	return outs, nil
}

func kindOf(o *Out) string {
	switch o.K {
	case "val":
		return "wrong_result"
	case "type_error":
		return "type_error"
	case "hang":
		return "hang"
	case "panic":
		return "go_panic"
	}
	return "error"
}

func summary(v map[string]any) string {
	o, _ := v["observed"].(*Out)
	s := fmt.Sprintf("%v: %v %v %v (right operand type %v) on path %v: real = %s %s", v["type"], v["a"], v["op"], v["b"], v["right_type"], v["path"], o.K, o.V)
	if o.Detail != "" {
		s += " [" + firstLines(o.Detail, 1) + "]"
	}
	if e, ok := v["expected"].(map[string]any); ok {
		s += fmt.Sprintf("; spec = %v %v", e["k"], e["v"])
	}
	if d, ok := v["deviation"]; ok {
		s += fmt.Sprintf("; explained by deviation %v", d)
	}
	return s
}

// ---- 16/32/64-bit types: real code -> Apalache ------------------------------------------------------

var wideCounts = []string{"0", "1", "2", "3", "7", "8", "15", "16", "17", "31", "32", "33", "63", "64", "65", "100", "127", "200",
	"-1", "-2", "-7", "-15", "-16", "-31", "-32", "-33", "-63", "-64", "-65", "-100",
	"9223372036854775808", "18446744073709551616", "-9223372036854775809", "-18446744073709551616"}

var wideWitnesses = []Vec{
	{T: "Int8", U: "Int8", Op: "pow", A: "2", B: "127"},
	{T: "UInt8", U: "UInt8", Op: "pow", A: "3", B: "255"},
	{T: "Int16", U: "UInt", Op: "lshl", A: "1", B: "2"},
	{T: "Int64", U: "UInt", Op: "lshl", A: "-5", B: "3"},
	{T: "Int32", U: "Int", Op: "shr", A: "-1", B: "18446744073709551616"},
	{T: "Int64", U: "Int", Op: "shl", A: "-8", B: "-18446744073709551616"},
}

func widePool(t Ty, c *core.Ctx) []string {
	h := new(big.Int).Lsh(big.NewInt(1), uint(t.N/2))
	cand := []*big.Int{t.Min(), new(big.Int).Add(t.Min(), big.NewInt(1)), new(big.Int).Sub(t.Max(), big.NewInt(1)), t.Max(),
		big.NewInt(0), big.NewInt(1), big.NewInt(2), big.NewInt(3), big.NewInt(7), big.NewInt(10), big.NewInt(-1), big.NewInt(-2), big.NewInt(-3), big.NewInt(-7),
		h, new(big.Int).Sub(h, big.NewInt(1)), new(big.Int).Add(h, big.NewInt(1)), new(big.Int).Neg(h)}
	span := new(big.Int).Add(new(big.Int).Sub(t.Max(), t.Min()), big.NewInt(1))
	for i := 0; i < 6; i++ {
		cand = append(cand, new(big.Int).Add(t.Min(), new(big.Int).Rand(c.Rand, span)))
	}
	var out []string
	for _, v := range cand {
		if t.Fits(v.String()) {
			out = append(out, v.String())
		}
	}
	return out
}

func tlaBool(b bool) string {
	if b {
		return "TRUE"
	}
	return "FALSE"
}

func claimText(dev string, v Vec, o *Out) string {
	t := TyByName(v.T)
	d := "{}"
	if dev != "" {
		d = fmt.Sprintf("{%q}", dev)
	}
	switch {
	case isShift(v.Op):
		return fmt.Sprintf("I_%s(%s, %d, %s, %s, %s, %q) = [k |-> %q, v |-> %s]", v.Op, d, t.N, tlaBool(t.Signed), v.A, v.B, v.U, o.K, o.V)
	case v.Op == "pow":
		return fmt.Sprintf("I_pow(%s, %d, %s, %s, %s) = [k |-> %q, v |-> %s]", d, t.N, tlaBool(t.Signed), v.A, v.B, o.K, o.V)
	}
	return fmt.Sprintf("F_%s(%d, %s, %s, %s) = %s", v.Op, t.N, tlaBool(t.Signed), v.A, v.B, o.V)
}

func runWide(c *core.Ctx, pool *core.Pool, matrix Matrix_) error {
	var vecs []Vec
	vecs = append(vecs, wideWitnesses...)
	per := c.Pick(45, 280)
	for _, t := range Fixed {
		if t.N == 8 {
			continue
		}
		vals := widePool(t, c)
		for n := 0; n < per; n++ {
			op := AllOps[c.Rand.Intn(len(AllOps))]
			v := Vec{T: t.Name, U: t.Name, Op: op, A: vals[c.Rand.Intn(len(vals))], B: vals[c.Rand.Intn(len(vals))]}
			switch {
			case isShift(op):
				us := matrix[t.Name][op]
				v.U = us[c.Rand.Intn(len(us))]
				v.B = wideCounts[c.Rand.Intn(len(wideCounts))]
				if !TyByName(v.U).Fits(v.B) {
					n--
					continue
				}
			case isUnary(op):
				v.B = "0"
			case op == "div" || op == "mod":
				if v.B == "0" {
					n--
					continue
				}
			case op == "pow":
				v.B = fmt.Sprint(c.Rand.Intn(13))
			}
			vecs = append(vecs, v)
		}
	}
	for i := range vecs {
		vecs[i].ID = i
	}
	c.Logf("wide types: %d vectors (boundary pools min,min+1,max-1,max,0,+-1,2,3,7,10,2^(n/2)+-1 + seeded random; counts on both sides of n, 64 and 2^63)", len(vecs))
	t0 := time.Now()
	// direct API: one job per vector, so that a hang costs one worker
	var jobs []core.Job
	for _, v := range vecs {
		jobs = append(jobs, core.Job{Kind: "c07.direct", Payload: []Vec{v}, TimeoutMs: 4000})
	}
	for _, v := range vecs {
		t, u := TyByName(v.T), TyByName(v.U)
		src := cellProgram(t, u, v.Op, []string{v.A}, []string{v.B}) + foldedProgram([]Vec{v})
		jobs = append(jobs, core.Job{Kind: "elk", Payload: elkrun.Job{Src: src, RunMs: 4000}, TimeoutMs: 20000})
	}
	results := pool.Map(jobs, nil)
	// a time-out is only a "hang" if a second, dedicated run with a long deadline does not answer either
	// (the first deadline is short so that a real hang is cheap; on a loaded machine it can be missed)
	var again []int
	for i, jr := range results {
		if jr.Timeout {
			again = append(again, i)
			continue
		}
		if i >= len(vecs) && !jr.Crashed && jr.Panic == "" && jr.Err == "" {
			var r elkrun.Result
			if jr.Decode(&r) == nil && r.Hung {
				again = append(again, i)
			}
		}
	}
	if len(again) > 0 {
		var rejobs []core.Job
		for _, i := range again {
			j := jobs[i]
			j.TimeoutMs = 75000
			if p, ok := j.Payload.(elkrun.Job); ok {
				p.RunMs = 45000
				j.Payload = p
			}
			rejobs = append(rejobs, j)
		}
		for k, jr := range pool.Map(rejobs, nil) {
			results[again[k]] = jr
		}
		c.Logf("wide types: %d evaluations exceeded the short deadline and were repeated with a 45-75 s deadline", len(again))
	}
	type obs struct {
		v    Vec
		path string
		o    *Out
	}
	var all []obs
	for i, v := range vecs {
		jr := results[i]
		switch {
		case jr.Timeout:
			all = append(all, obs{v, "direct value.XxxVal", &Out{K: "hang", V: "0"}})
		case jr.Crashed || jr.Panic != "" || jr.Err != "":
			return core.Inconclusivef("direct worker failed on %+v: %s %s", v, jr.Err, firstLines(jr.Panic+jr.CrashLog, 3))
		default:
			var outs []*Out
			if err := jr.Decode(&outs); err != nil {
				return err
			}
			all = append(all, obs{v, "direct value.XxxVal", outs[0]})
		}
		jr = results[len(vecs)+i]
		var r elkrun.Result
		if jr.Timeout {
			r.Hung = true
		} else if jr.Crashed || jr.Panic != "" {
			r.GoPanic = firstLines(jr.Panic+jr.CrashLog, 3)
		} else if jr.Err != "" {
			return core.Inconclusivef("worker problem: %s", jr.Err)
		} else if err := jr.Decode(&r); err != nil {
			return err
		}
		if !r.Accepted && r.GoPanic == "" && !r.Hung {
			return core.Inconclusivef("program for %+v rejected by the checker: %s", v, firstLines(r.Diags, 3))
		}
		t, u := TyByName(v.T), TyByName(v.U)
		got := parse(r.Stdout, t, v.Op)
		for _, p := range [][2]string{{"typed Elk code", insp(t, v.A) + " " + insp(u, v.B)}, {"constant folding", fmt.Sprintf("%d x", v.ID)}} {
			o := got[p[1]]
			if o == nil {
				switch {
				case r.Hung:
					o = &Out{K: "hang", V: "0"}
				case r.GoPanic != "":
					o = &Out{K: "panic", V: "0", Detail: firstLines(r.GoPanic, 1)}
				default:
					o = &Out{K: "err", V: "0", Detail: "no output line " + r.ErrClass + " " + r.ErrMsg}
				}
			}
			all = append(all, obs{v, p[0], o})
		}
	}
	c.Logf("wide types: real runs in %.1fs", time.Since(t0).Seconds())

	// claims
	idx := map[string]int{}
	var texts []string
	textOf := make([]string, len(all))
	for i, ob := range all {
		modelled := ob.o.K == "val" || ((isShift(ob.v.Op) || ob.v.Op == "pow") && (ob.o.K == "type_error" || ob.o.K == "hang"))
		if !modelled {
			continue
		}
		tx := claimText("", ob.v, ob.o)
		textOf[i] = tx
		if _, ok := idx[tx]; !ok {
			idx[tx] = len(texts)
			texts = append(texts, tx)
		}
	}
	mod := apa.Module{SpecDir: specDir, Header: "EXTENDS FixedInt\n"}
	par := max(1, c.Workers/2)
	t1 := time.Now()
	res, err := apa.Check(mod, c.Scratch, texts, 200, par, 25*time.Minute)
	if err != nil {
		if c.Violations() > 0 {
			c.Note(fmt.Sprintf("Apalache stage not completed (%v); verdict rests on the violations found before it", err))
			return nil
		}
		return core.Inconclusivef("Apalache: %v", err)
	}
	// explanations
	var etexts []string
	type ek struct{ base, dev string }
	var ekeys []ek
	seen := map[string]bool{}
	for i, ob := range all {
		tx := textOf[i]
		if tx == "" || res.Verdicts[idx[tx]] || seen[tx] {
			continue
		}
		seen[tx] = true
		for _, d := range devsOf(ob.v.Op) {
			etexts = append(etexts, claimText(d, ob.v, ob.o))
			ekeys = append(ekeys, ek{tx, d})
		}
	}
	expl := map[string]string{}
	if len(etexts) > 0 {
		eres, err := apa.Check(mod, c.Scratch, etexts, 200, par, 25*time.Minute)
		if err != nil {
			return core.Inconclusivef("Apalache (explanation run): %v", err)
		}
		for i, ok := range eres.Verdicts {
			if ok && expl[ekeys[i].base] == "" {
				expl[ekeys[i].base] = ekeys[i].dev
			}
		}
	}
	c.Logf("Apalache: %d distinct claims + %d explanation claims against FixedInt in %.1fs", len(texts), len(etexts), time.Since(t1).Seconds())
	c.CovAdd("apalache_claims", len(texts)+len(etexts))
	accepted := 0
	for i, ob := range all {
		tx := textOf[i]
		if tx != "" && res.Verdicts[idx[tx]] {
			accepted++
			if accepted%701 == 1 {
				c.Sample(map[string]any{"type": ob.v.T, "op": ob.v.Op, "a": ob.v.A, "b": ob.v.B, "right_type": ob.v.U, "path": ob.path, "accepted_claim": tx})
			}
			continue
		}
		viol := map[string]any{"kind": kindOf(ob.o), "instance": "wide", "type": ob.v.T, "op": ob.v.Op, "a": ob.v.A, "b": ob.v.B, "right_type": ob.v.U,
			"path": ob.path, "observed": ob.o, "claim": tx}
		if d := expl[tx]; tx != "" && d != "" {
			viol["deviation"] = d
		}
		viol["summary"] = summary(viol)
		c.Violation(viol)
	}
	c.CovAdd("traces_validated_against_impl", len(all))
	c.CovAdd("wide_accepted", accepted)
	c.Logf("wide types: %d observations, %d accepted by the specification; violations so far %d", len(all), accepted, c.Violations())
	return nil
}

func tailStr(s string, n int) string {
	if len(s) <= n {
		return s
	}
	return s[len(s)-n:]
}
