package c07

import (
	"encoding/json"
	"fmt"
	"math/big"
	"regexp"
	"runtime/debug"
	"strings"

	"github.com/elk-language/elk/value"

	"elkverif/internal/core"
	"elkverif/internal/elkrun"
	"elkverif/prop/c06"
)

// Ty is one integer type of the std library.
type Ty struct {
	Name   string // Elk class name
	N      int    // width (0: Int, arbitrary precision; 64 for UInt)
	Signed bool
	Suf    string // literal suffix
}

var (
	Fixed = []Ty{{"Int8", 8, true, "i8"}, {"Int16", 16, true, "i16"}, {"Int32", 32, true, "i32"}, {"Int64", 64, true, "i64"},
		{"UInt8", 8, false, "u8"}, {"UInt16", 16, false, "u16"}, {"UInt32", 32, false, "u32"}, {"UInt64", 64, false, "u64"}}
	IntTy  = Ty{"Int", 0, true, ""}
	UIntTy = Ty{"UInt", 64, false, "u"}
	// AnyInt: the right operand types the headers admit for shifts
	AnyInt = append(append([]Ty{IntTy}, Fixed...), UIntTy)
)

func TyByName(n string) Ty {
	for _, t := range AnyInt {
		if t.Name == n {
			return t
		}
	}
	panic("unknown type " + n)
}

func (t Ty) Min() *big.Int {
	if !t.Signed {
		return big.NewInt(0)
	}
	return new(big.Int).Neg(new(big.Int).Lsh(big.NewInt(1), uint(t.N-1)))
}
func (t Ty) Max() *big.Int {
	if t.Signed {
		return new(big.Int).Sub(new(big.Int).Lsh(big.NewInt(1), uint(t.N-1)), big.NewInt(1))
	}
	return new(big.Int).Sub(new(big.Int).Lsh(big.NewInt(1), uint(t.N)), big.NewInt(1))
}

// Fits: the decimal is a value of the type (every integer is an Int).
func (t Ty) Fits(dec string) bool {
	if t.N == 0 {
		return true
	}
	z, _ := new(big.Int).SetString(dec, 10)
	return z.Cmp(t.Min()) >= 0 && z.Cmp(t.Max()) <= 0
}

// Vec: left type, operator, operands, right operand type.
type Vec struct {
	ID int    `json:"id"`
	T  string `json:"t"`
	Op string `json:"op"`
	A  string `json:"a"`
	B  string `json:"b"`
	U  string `json:"u"`
}

// Out: k = val | type_error | hang | err | panic ; v decimal (1/0 for booleans).
type Out struct {
	K      string `json:"k"`
	V      string `json:"v"`
	Detail string `json:"detail,omitempty"`
}

func mk(t Ty, dec string) value.Value {
	z, ok := new(big.Int).SetString(dec, 10)
	if !ok {
		panic("bad decimal " + dec)
	}
	switch t.Name {
	case "Int":
		return c06.Canonical(dec)
	case "Int8":
		return value.Int8(z.Int64()).ToValue()
	case "Int16":
		return value.Int16(z.Int64()).ToValue()
	case "Int32":
		return value.Int32(z.Int64()).ToValue()
	case "Int64":
		return value.Int64(z.Int64()).ToValue()
	case "UInt8":
		return value.UInt8(z.Uint64()).ToValue()
	case "UInt16":
		return value.UInt16(z.Uint64()).ToValue()
	case "UInt32":
		return value.UInt32(z.Uint64()).ToValue()
	case "UInt64":
		return value.UInt64(z.Uint64()).ToValue()
	case "UInt":
		return value.UInt(z.Uint64()).ToValue()
	}
	panic("type " + t.Name)
}

type binVal func(l, r value.Value) (value.Value, value.Value)

func noErr(f func(l, r value.Value) value.Value) binVal {
	return func(l, r value.Value) (value.Value, value.Value) { return f(l, r), value.Undefined }
}
func unary(f func(o value.Value) value.Value) binVal {
	return func(l, r value.Value) (value.Value, value.Value) { return f(l), value.Undefined }
}

var valOps = map[string]binVal{
	"add": value.AddVal, "sub": value.SubtractVal, "mul": value.MultiplyVal, "div": value.DivideVal,
	"mod": value.ModuloVal, "pow": value.ExponentiateVal,
	"shl": value.LeftBitshiftVal, "shr": value.RightBitshiftVal,
	"lshl": value.LogicalLeftBitshiftVal, "lshr": value.LogicalRightBitshiftVal,
	"and": value.BitwiseAndVal, "or": value.BitwiseOrVal, "xor": value.BitwiseXorVal, "andnot": value.BitwiseAndNotVal,
	"cmp": value.CompareVal, "eq": noErr(value.EqualVal), "ne": noErr(value.NotEqualVal),
	"lt": value.LessThanVal, "le": value.LessThanEqualVal, "gt": value.GreaterThanVal, "ge": value.GreaterThanEqualVal,
	"neg": unary(value.NegateVal), "not": unary(value.BitwiseNotVal),
}

var reNum = regexp.MustCompile(`^(-?\d+)(i8|i16|i32|i64|u8|u16|u32|u64|u)?$`)

// decode reads an inspected result: the number and, for non-comparison operators, the check that the
// result has the left operand's type.
func decode(text string, t Ty, op string) *Out {
	switch text {
	case "true":
		return &Out{K: "val", V: "1"}
	case "false":
		return &Out{K: "val", V: "0"}
	}
	m := reNum.FindStringSubmatch(text)
	if m == nil {
		return &Out{K: "err", V: "0", Detail: "unreadable result " + text}
	}
	want := t.Suf
	if op == "cmp" {
		want = ""
	}
	if m[2] != want {
		return &Out{K: "err", V: "0", Detail: fmt.Sprintf("result %s is not of type %s", text, t.Name)}
	}
	return &Out{K: "val", V: m[1]}
}

func errOut(cls, msg string) *Out {
	if strings.HasSuffix(cls, "TypeError") {
		return &Out{K: "type_error", V: "0", Detail: cls + ": " + msg}
	}
	return &Out{K: "err", V: "0", Detail: cls + ": " + msg}
}

func runDirect(v Vec) (out *Out) {
	defer func() {
		if p := recover(); p != nil {
			out = &Out{K: "panic", V: "0", Detail: fmt.Sprintf("%v\n%s", p, string(debug.Stack()[:min(1200, len(debug.Stack()))]))}
		}
	}()
	t, u := TyByName(v.T), TyByName(v.U)
	f := valOps[v.Op]
	res, err := f(mk(t, v.A), mk(u, v.B))
	if !err.IsUndefined() {
		cls, msg := elkrun.DescribeError(err)
		return errOut(cls, msg)
	}
	if res.IsUndefined() {
		return &Out{K: "err", V: "0", Detail: "no builtin implementation"}
	}
	return decode(res.Inspect(), t, v.Op)
}

func init() {
	core.RegisterJob("c07.direct", func(p json.RawMessage) (any, error) {
		var vs []Vec
		if err := json.Unmarshal(p, &vs); err != nil {
			return nil, err
		}
		elkrun.Setup()
		outs := make([]*Out, len(vs))
		for i, v := range vs {
			outs[i] = runDirect(v)
		}
		return outs, nil
	})
}
