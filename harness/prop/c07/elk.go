package c07

import (
	"fmt"
	"regexp"
	"strconv"
	"strings"

	"elkverif/internal/core"
	"elkverif/internal/elkrun"
)

var elkOp = map[string]string{
	"add": "+", "sub": "-", "mul": "*", "div": "/", "mod": "%", "pow": "**",
	"shl": "<<", "shr": ">>", "lshl": "<<<", "lshr": ">>>",
	"and": "&", "or": "|", "xor": "^", "andnot": "&~", "cmp": "<=>", "eq": "==", "ne": "!=",
	"lt": "<", "le": "<=", "gt": ">", "ge": ">=", "neg": "-", "not": "~",
}

var BinaryOps = []string{"add", "sub", "mul", "div", "mod", "pow", "shl", "shr", "lshl", "lshr", "and", "or", "xor", "andnot",
	"cmp", "eq", "ne", "lt", "le", "gt", "ge"}
var AllOps = append(append([]string{}, BinaryOps...), "neg", "not")

func isUnary(op string) bool { return op == "neg" || op == "not" }
func isShift(op string) bool { return op == "shl" || op == "shr" || op == "lshl" || op == "lshr" }

// insp is the inspect form of a value (what Elk prints); lit a source expression denoting it. The
// least value of a signed type has no literal (the lexer rejects 128i8), so it is written as a
// subtraction; the literal -9223372036854775808 of Int is avoided for the reason given in C06.
func insp(t Ty, dec string) string { return dec + t.Suf }

func lit(t Ty, dec string) string {
	if !strings.HasPrefix(dec, "-") {
		return dec + t.Suf
	}
	if t.N > 0 && t.Signed && dec == t.Min().String() {
		return fmt.Sprintf("(-%s%s - 1%s)", t.Max().String(), t.Suf, t.Suf)
	}
	if t.N == 0 && dec == "-9223372036854775808" {
		return "(-9223372036854775807 - 1)"
	}
	return "(" + dec + t.Suf + ")"
}

func expr(op, a, b string) string {
	if isUnary(op) {
		return elkOp[op] + a
	}
	return a + " " + elkOp[op] + " " + b
}

// matrixProgram: one method per (operator, right operand type) for the left type t, one per line, so
// that the checker's diagnostics name the rejected cells by line.
func matrixProgram(t Ty) (string, [][2]string) {
	var sb strings.Builder
	var cells [][2]string
	for _, op := range BinaryOps {
		for _, u := range AnyInt {
			fmt.Fprintf(&sb, "def m%d(a: %s, b: %s) then a %s b\n", len(cells), t.Name, u.Name, elkOp[op])
			cells = append(cells, [2]string{op, u.Name})
		}
	}
	return sb.String(), cells
}

var reDiagLine = regexp.MustCompile(`(?m)^(\d+):\d+:`)

// Matrix asks the real checker (which reads the real std headers) which right operand types each
// operator of each fixed-width type admits. Result: type -> operator -> admitted right types.
func Matrix(pool *core.Pool) (map[string]map[string][]string, error) {
	var jobs []core.Job
	var cellsOf [][][2]string
	for _, t := range Fixed {
		src, cells := matrixProgram(t)
		cellsOf = append(cellsOf, cells)
		jobs = append(jobs, core.Job{Kind: "elk", Payload: elkrun.Job{Src: src, CheckOnly: true}, TimeoutMs: 120000})
	}
	out := map[string]map[string][]string{}
	for i, jr := range pool.Map(jobs, nil) {
		if jr.Crashed || jr.Timeout || jr.Panic != "" || jr.Err != "" {
			return nil, core.Inconclusivef("operand-type matrix probe failed for %s: %s %s", Fixed[i].Name, jr.Err, firstLines(jr.Panic, 2))
		}
		var r elkrun.Result
		if err := jr.Decode(&r); err != nil {
			return nil, err
		}
		if r.GoPanic != "" {
			return nil, core.Inconclusivef("checker panicked on the matrix probe of %s: %s", Fixed[i].Name, firstLines(r.GoPanic, 2))
		}
		rejected := map[int]bool{}
		for _, m := range reDiagLine.FindAllStringSubmatch(r.Diags, -1) {
			n, _ := strconv.Atoi(m[1])
			rejected[n-1] = true
		}
		adm := map[string][]string{}
		for ci, cell := range cellsOf[i] {
			if !rejected[ci] {
				adm[cell[0]] = append(adm[cell[0]], cell[1])
			}
		}
		out[Fixed[i].Name] = adm
	}
	return out, nil
}

// cellProgram evaluates one operator of left type t with right type u on every pair of as x bs
// (typed opcode / typed call path); every call has its own handler, so an Elk error is an outcome.
func cellProgram(t, u Ty, op string, as, bs []string) string {
	var sb strings.Builder
	fmt.Fprintf(&sb, "def f(a: %s, b: %s)\n  do\n    r := %s\n    println \"T #{a} #{b} #{r}\"\n  catch e\n    println \"E #{a} #{b} #{e}\"\n  end\nend\n", t.Name, u.Name, expr(op, "a", "b"))
	la := make([]string, len(as))
	for i, a := range as {
		la[i] = lit(t, a)
	}
	lb := make([]string, len(bs))
	for i, b := range bs {
		lb[i] = lit(u, b)
	}
	fmt.Fprintf(&sb, "for a in [%s]\n  for b in [%s]\n    f(a, b)\n  end\nend\n", strings.Join(la, ", "), strings.Join(lb, ", "))
	return sb.String()
}

// foldedProgram: literal expressions, one handler each.
func foldedProgram(vs []Vec) string {
	var sb strings.Builder
	for _, v := range vs {
		t, u := TyByName(v.T), TyByName(v.U)
		fmt.Fprintf(&sb, "do\n  println \"F %d x #{%s}\"\ncatch e\n  println \"E %d x #{e}\"\nend\n", v.ID, expr(v.Op, lit(t, v.A), lit(u, v.B)), v.ID)
	}
	return sb.String()
}

// parse reads "T a b r" / "F id x r" / "E a b error-inspect" lines into key "a b" -> outcome.
func parse(stdout string, t Ty, op string) map[string]*Out {
	m := map[string]*Out{}
	for _, line := range strings.Split(stdout, "\n") {
		f := strings.SplitN(line, " ", 4)
		if len(f) < 4 {
			continue
		}
		key := f[1] + " " + f[2]
		switch f[0] {
		case "T", "F":
			m[key] = decode(f[3], t, op)
		case "E":
			cls := f[3]
			if i := strings.IndexByte(cls, '{'); i >= 0 {
				cls = cls[:i]
			}
			msg := ""
			if i := strings.Index(f[3], "message: "); i >= 0 {
				msg = strings.TrimSuffix(f[3][i+9:], "}")
			}
			m[key] = errOut(cls, msg)
		}
	}
	return m
}

func firstLines(s string, n int) string {
	l := strings.SplitN(s, "\n", n+1)
	if len(l) > n {
		l = l[:n]
	}
	return strings.Join(l, "\n")
}
