package c31

import (
	"fmt"
	"strings"
)

// Stmt is one statement of a quoted macro body (an element of Hygiene!Alphabet).
type Stmt struct {
	K string `json:"k"`
	N string `json:"n"`
}

// Obs is what a machine of spec/Hygiene predicts: the checker's verdict and the printed integers.
type Obs struct {
	Verdict string   `json:"verdict"`
	Out     []int    `json:"out"`
	Corrupt bool     `json:"corrupt"`
	Fuzzy   bool     `json:"fuzzy"` // the caller's uninitialised variable only counts as initialised: its value is garbage
	Fired   []string `json:"fired"`
	Res     []string `json:"res"` // per executed statement: own | caller | undef
}

// Prog is one GEN record of spec/Hygiene: a call site, one or two macro bodies, both predictions.
type Prog struct {
	ID   int `json:"-"`
	Site struct {
		X string `json:"x"`
		Y string `json:"y"`
	} `json:"site"`
	Calls [][]Stmt `json:"calls"`
	Idx   [][]int  `json:"idx"`
	Ref   Obs      `json:"ref"`
	Impl  Obs      `json:"impl"`
}

const Prelude = `def o(v: any) then println "#{v}"
def t(s: String) then println s
def cnd: Bool then true
def hh: Int then 3
using Std::Elk::AST::*
`

func k(mi, i int) int { return 100*mi + 10*i }

// Describe renders the program compactly for reports.
func (p *Prog) Describe() string {
	var calls []string
	for _, c := range p.Calls {
		var ss []string
		for _, s := range c {
			ss = append(ss, s.K+" "+s.N)
		}
		calls = append(calls, "{"+strings.Join(ss, "; ")+"}")
	}
	return fmt.Sprintf("site x=%s y=%s, macro bodies %s", p.Site.X, p.Site.Y, strings.Join(calls, " then "))
}

// quoted statement text inside the macro definition
func quoted(s Stmt, mi, i int) []string {
	v := k(mi, i)
	switch s.K {
	case "bind":
		return []string{fmt.Sprintf("%s := %d", s.N, v)}
	case "read":
		return []string{fmt.Sprintf("o(%s)", s.N)}
	case "write":
		return []string{fmt.Sprintf("%s = %d", s.N, v+5)}
	case "uread":
		return []string{fmt.Sprintf("o(!{unhygienic(quote %s)})", s.N)}
	case "uwrite_e":
		return []string{fmt.Sprintf("o(!{unhygienic(quote %s = %d)})", s.N, v+5)}
	case "uwrite_s":
		return []string{fmt.Sprintf("!{unhygienic(quote %s = %d)}", s.N, v+5)}
	case "arg":
		return []string{"o(!{e})"}
	case "uarg":
		return []string{"o(!{unhygienic(e)})"}
	case "cwrite":
		return []string{"if cnd()", fmt.Sprintf("  %s = %d", s.N, v+5), "else", fmt.Sprintf("  %s = %d", s.N, v+5), "end"}
	case "mcall":
		return []string{"o(hh())"}
	case "umcall":
		return []string{"o(!{unhygienic(quote hh())})"}
	}
	panic("unknown statement " + s.K)
}

// the same statement written by hand, the identifier renamed according to what the REFERENCE says
// it denotes: a local of the expansion (renamed <n>m<mi>) or the caller's variable
func byHand(s Stmt, mi, i int, owner string) []string {
	v := k(mi, i)
	n := s.N
	if owner == "own" {
		n = fmt.Sprintf("%sm%d", s.N, mi)
	}
	switch s.K {
	case "mcall", "umcall":
		if owner == "undef" {
			return []string{"o(self.hh())"} // the method, whatever locals are in scope
		}
		return []string{"o(hh())"} // the callable local the reference resolves to
	case "bind":
		return []string{fmt.Sprintf("%s := %d", n, v)}
	case "read", "uread", "arg", "uarg":
		return []string{fmt.Sprintf("o(%s)", n)}
	case "write", "uwrite_s":
		return []string{fmt.Sprintf("%s = %d", n, v+5)}
	case "uwrite_e":
		return []string{fmt.Sprintf("o(%s = %d)", n, v+5)}
	case "cwrite":
		return []string{"if cnd()", fmt.Sprintf("  %s = %d", n, v+5), "else", fmt.Sprintf("  %s = %d", n, v+5), "end"}
	}
	panic("unknown statement " + s.K)
}

// UnitText emits the program: variant "macro" (macro definitions + calls) or "hand" (the expansion
// written by hand with the macro's locals renamed). tag distinguishes the two in one file.
func (p *Prog) UnitText(variant string) (text string, call string) {
	var b strings.Builder
	fn := fmt.Sprintf("f%d%c", p.ID, variant[0])
	w := func(ind int, s string) {
		b.WriteString(strings.Repeat("  ", ind))
		b.WriteString(s)
		b.WriteByte('\n')
	}
	if variant == "macro" {
		for mi, body := range p.Calls {
			w(0, fmt.Sprintf("macro m%d_%d(e: ExpressionNode)", p.ID, mi+1))
			w(1, "quote")
			for i, s := range body {
				for _, l := range quoted(s, mi+1, i+1) {
					w(2, l)
				}
			}
			w(2, "nil")
			w(1, "end")
			w(0, "end")
		}
	}
	params := ""
	callArgs := ""
	if p.Site.X == "param" {
		params, callArgs = "(x: Int)", "1"
	}
	w(0, "def "+fn+params)
	switch p.Site.X {
	case "local", "captured", "inclosure":
		w(1, "x := 1")
	case "uninit":
		w(1, "var x: Int")
	}
	if p.Site.X == "captured" {
		w(1, "g := ||: Int -> x")
	}
	if p.Site.Y == "local" {
		w(1, "y := 2")
	}
	if p.Site.Y == "callable" {
		w(1, "hh := ||: Int -> 7")
	}
	ind := 1
	if p.Site.X == "inclosure" {
		w(1, "h := ||: nil ->")
		ind = 2
	}
	resIdx := 0
	for mi, body := range p.Calls {
		if variant == "macro" {
			w(ind, fmt.Sprintf("m%d_%d!(x)", p.ID, mi+1))
			continue
		}
		w(ind, "do")
		for i, s := range body {
			owner := "caller"
			if resIdx < len(p.Ref.Res) {
				owner = p.Ref.Res[resIdx]
			}
			resIdx++
			for _, l := range byHand(s, mi+1, i+1, owner) {
				w(ind+1, l)
			}
		}
		w(ind+1, "nil")
		w(ind, "end")
	}
	switch p.Site.X {
	case "local", "param", "inclosure":
		w(ind, "o(x)")
	case "captured":
		w(ind, "o(x)")
		w(ind, "o(g.())")
	}
	if p.Site.Y == "local" || p.Site.Y == "probe" {
		w(ind, "o(y)")
	}
	if p.Site.Y == "callable" {
		w(ind, "o(hh())")
	}
	if p.Site.X == "inclosure" {
		w(2, "nil")
		w(1, "end")
		w(1, "h.()")
	}
	w(1, "nil")
	w(0, "end")
	return b.String(), fmt.Sprintf("t(\"@u %s\")\n%s(%s)\n", fn, fn, callArgs)
}
