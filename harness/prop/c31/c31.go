// Package c31: macro expansion is hygienic except where explicitly unhygienic (spec/Hygiene).
package c31

import (
	"encoding/json"
	"fmt"
	"path/filepath"
	"runtime/debug"
	"sort"
	"strings"
	"time"

	"github.com/elk-language/elk"
	"github.com/elk-language/elk/bitfield"
	"github.com/elk-language/elk/position/diagnostic"
	"github.com/elk-language/elk/types/checker"

	"elkverif/internal/core"
	"elkverif/internal/elkrun"
	"elkverif/internal/tlc"
)

func init() {
	core.Register(&core.Check{ID: "C31", Level: "model_checking", Run: run})
	core.RegisterJob("c31check", func(p json.RawMessage) (any, error) {
		var j checkJob
		if err := json.Unmarshal(p, &j); err != nil {
			return nil, err
		}
		return checkOnly(&j), nil
	})
}

// AllDeviations are the named deviation branches of spec/Hygiene that reproduce the pinned tree.
var AllDeviations = []string{"origin_blind_resolution", "uninit_local_leaks_into_conditional", "unhygienic_statement_stack_imbalance"}

// ---- worker job: check only, failures with their lines -------------------------------------------

type checkJob struct {
	Src string `json:"src"`
}
type failure struct {
	Line int    `json:"line"`
	Msg  string `json:"msg"`
}
type checkResult struct {
	Accepted bool      `json:"accepted"`
	Failures []failure `json:"failures"`
	GoPanic  string    `json:"go_panic,omitempty"`
}

func checkOnly(j *checkJob) (res *checkResult) {
	elkrun.Setup()
	res = &checkResult{}
	defer func() {
		if r := recover(); r != nil {
			res.GoPanic = fmt.Sprintf("%v\n%s", r, debug.Stack())
		}
	}()
	checker.MethodCheckConcurrencyLimit = 1
	elk.InitGlobalEnvironment()
	var flags bitfield.BitField16
	bc, diags := checker.CheckSource("main.elk", j.Src, nil, flags, nil)
	for _, d := range diags {
		if d.Severity == diagnostic.FAIL {
			line := 0
			if d.Location != nil {
				line = d.Location.StartPos.Line
			}
			res.Failures = append(res.Failures, failure{Line: line, Msg: d.Message})
		}
	}
	res.Accepted = bc != nil && len(res.Failures) == 0
	return res
}

// ---- units ----------------------------------------------------------------------------------------

type unit struct {
	p       *Prog
	variant string // macro | hand
	text    string
	call    string
	// results
	verdict string // ok | rejected | "" (unknown)
	diag    string
	out     []string
	crash   string
	errMsg  string
	ran     bool
}

func (u *unit) name() string { return fmt.Sprintf("f%d%c", u.p.ID, u.variant[0]) }

type span struct{ from, to int }

func buildFile(us []*unit, withCalls bool) (string, []span) {
	var b strings.Builder
	b.WriteString(Prelude)
	line := strings.Count(Prelude, "\n") + 1
	spans := make([]span, len(us))
	for i, u := range us {
		n := strings.Count(u.text, "\n")
		spans[i] = span{line, line + n - 1}
		b.WriteString(u.text)
		line += n
	}
	if withCalls {
		for _, u := range us {
			b.WriteString(u.call)
		}
	}
	return b.String(), spans
}

// verdicts decides accepted/rejected for every unit. Units predicted to be rejected are checked one
// per file; the others in batches: a batch without failures accepts all its units; otherwise the
// failures are attributed to units by line, those units are rejected and the REST IS CHECKED AGAIN
// (the checker reports only the first failing macro expansion of a file, so the absence of a
// diagnostic in a failing file proves nothing).
func verdicts(c *core.Ctx, pool *core.Pool, units []*unit, batch int) error {
	var batches [][]*unit
	var cur []*unit
	for _, u := range units {
		if predicted(u) != "ok" {
			batches = append(batches, []*unit{u})
			continue
		}
		cur = append(cur, u)
		if len(cur) == batch {
			batches = append(batches, cur)
			cur = nil
		}
	}
	if len(cur) > 0 {
		batches = append(batches, cur)
	}
	for round := 0; len(batches) > 0; round++ {
		if round > 60 {
			return core.Inconclusivef("verdict attribution does not converge")
		}
		var jobs []core.Job
		var spans [][]span
		for _, b := range batches {
			src, sp := buildFile(b, false)
			spans = append(spans, sp)
			jobs = append(jobs, core.Job{Kind: "c31check", Payload: checkJob{Src: src}, TimeoutMs: 120000})
		}
		results := pool.Map(jobs, nil)
		var next [][]*unit
		split := func(b []*unit) {
			for _, u := range b {
				next = append(next, []*unit{u})
			}
		}
		for bi, jr := range results {
			b := batches[bi]
			var r checkResult
			crash := ""
			switch {
			case jr.Crashed:
				crash = "worker process died:\n" + jr.CrashLog
			case jr.Timeout:
				crash = "checker did not terminate"
			case jr.Panic != "":
				crash = jr.Panic
			case jr.Err != "":
				return core.Inconclusivef("worker: %s", jr.Err)
			default:
				if err := jr.Decode(&r); err != nil {
					return core.Inconclusivef("worker result: %v", err)
				}
			}
			if r.GoPanic != "" {
				crash = r.GoPanic
			}
			if crash != "" {
				if len(b) == 1 {
					b[0].crash = crash
				} else {
					split(b)
				}
				continue
			}
			if len(r.Failures) == 0 {
				for _, u := range b {
					u.verdict = "ok"
				}
				continue
			}
			if len(b) == 1 {
				b[0].verdict = "rejected"
				b[0].diag = r.Failures[0].Msg
				continue
			}
			hit := make([]string, len(b))
			nHit := 0
			for _, f := range r.Failures {
				for i, sp := range spans[bi] {
					if f.Line >= sp.from && f.Line <= sp.to && hit[i] == "" {
						hit[i] = f.Msg
						nHit++
					}
				}
			}
			if nHit == 0 {
				split(b)
				continue
			}
			var rest []*unit
			for i, u := range b {
				if hit[i] != "" {
					u.verdict = "rejected"
					u.diag = hit[i]
				} else {
					rest = append(rest, u)
				}
			}
			if len(rest) > 0 {
				next = append(next, rest)
			}
		}
		batches = next
	}
	return nil
}

// runAccepted runs the accepted units (batched) and splits the output by unit markers.
func runAccepted(c *core.Ctx, pool *core.Pool, units []*unit, batch int) error {
	var acc []*unit
	var batches [][]*unit
	for _, u := range units {
		if u.verdict != "ok" {
			continue
		}
		if u.variant == "macro" && u.p.Impl.Corrupt {
			// the shape of the known stack corruption may take the whole file down: run it alone
			batches = append(batches, []*unit{u})
		} else {
			acc = append(acc, u)
		}
	}
	for i := 0; i < len(acc); i += batch {
		j := i + batch
		if j > len(acc) {
			j = len(acc)
		}
		batches = append(batches, acc[i:j])
	}
	for round := 0; len(batches) > 0 && round < 2; round++ {
		c.Logf("run round %d: %d files", round, len(batches))
		var jobs []core.Job
		for _, b := range batches {
			src, _ := buildFile(b, true)
			jobs = append(jobs, core.Job{Kind: "elk", Payload: elkrun.Job{Src: src, RunMs: 30000}, TimeoutMs: 90000})
		}
		results := pool.Map(jobs, nil)
		var next [][]*unit
		for bi, jr := range results {
			b := batches[bi]
			var r elkrun.Result
			crash := ""
			switch {
			case jr.Crashed:
				crash = "worker process died:\n" + jr.CrashLog
			case jr.Timeout:
				crash = "program did not terminate"
			case jr.Panic != "":
				crash = jr.Panic
			case jr.Err != "":
				return core.Inconclusivef("worker: %s", jr.Err)
			default:
				if err := jr.Decode(&r); err != nil {
					return core.Inconclusivef("worker result: %v", err)
				}
			}
			if r.GoPanic != "" {
				crash = r.GoPanic
			}
			if r.Hung {
				crash = "program did not terminate"
			}
			per := map[string][]string{}
			cur := ""
			for _, l := range strings.Split(strings.TrimRight(r.Stdout, "\n"), "\n") {
				if strings.HasPrefix(l, "@u ") {
					cur = l[3:]
					per[cur] = []string{}
				} else if cur != "" {
					per[cur] = append(per[cur], l)
				}
			}
			clean := crash == "" && r.Accepted && r.ErrClass == "" && len(per) == len(b)
			if !clean && len(b) > 1 {
				if len(next) == 0 {
					c.Logf("batch split: crash=%q accepted=%v err=%s %s markers=%d/%d diags=%s", firstLine(crash), r.Accepted, r.ErrClass, r.ErrMsg, len(per), len(b), firstLine(r.Diags))
				}
				for _, u := range b {
					next = append(next, []*unit{u})
				}
				continue
			}
			for _, u := range b {
				u.ran = true
				u.out = per[u.name()]
				u.crash = crash
				if !r.Accepted && crash == "" {
					// the checker accepted the unit inside its batch but not alone (or vice versa)
					u.verdict = "rejected"
					u.diag = firstLine(r.Diags)
				}
				if r.ErrClass != "" {
					u.errMsg = r.ErrClass + ": " + r.ErrMsg
				}
			}
		}
		batches = next
	}
	return nil
}

func firstLine(s string) string {
	if i := strings.IndexByte(s, '\n'); i >= 0 {
		return s[:i]
	}
	return s
}

func outStrings(o []int) []string {
	out := []string{}
	for _, v := range o {
		out = append(out, fmt.Sprint(v))
	}
	return out
}

func same(a, b []string) bool {
	if len(a) != len(b) {
		return false
	}
	for i := range a {
		if a[i] != b[i] {
			return false
		}
	}
	return true
}

// ---- model ----------------------------------------------------------------------------------------

func tlaSeq(xs []int) string {
	var p []string
	for _, x := range xs {
		p = append(p, fmt.Sprint(x))
	}
	return "<<" + strings.Join(p, ", ") + ">>"
}

const alphabetLen = 15

func runModel(c *core.Ctx, maxLen int, extra [][]int, pairs [][2][]int, deviations []string, coverage bool) ([]*Prog, *tlc.Result, error) {
	var ex, pr, dv []string
	for _, b := range extra {
		ex = append(ex, tlaSeq(b))
	}
	for _, p := range pairs {
		pr = append(pr, "<<"+tlaSeq(p[0])+", "+tlaSeq(p[1])+">>")
	}
	for _, d := range deviations {
		dv = append(dv, fmt.Sprintf("%q", d))
	}
	mc := fmt.Sprintf("---- MODULE MC_Hygiene ----\nEXTENDS Hygiene\nMCMaxLen == %d\nMCExtraBodies == {%s}\nMCPairs == {%s}\nMCDeviations == {%s}\n====\n",
		maxLen, strings.Join(ex, ", "), strings.Join(pr, ", "), strings.Join(dv, ", "))
	var progs []*Prog
	var perr error
	res, err := tlc.Run(tlc.Opts{
		SpecDir: filepath.Join(core.VerifRoot, "spec", "Hygiene"), Module: "MC_Hygiene", Cfg: "Hygiene.cfg",
		Scratch: c.Scratch, Workers: c.Workers, Timeout: 20 * time.Minute, HeapMB: 5000, Coverage: coverage,
		Extra: map[string][]byte{"MC_Hygiene.tla": []byte(mc)},
		OnGen: func(rec []byte) {
			var p Prog
			if e := json.Unmarshal(rec, &p); e != nil {
				perr = fmt.Errorf("bad GEN record: %v: %s", e, rec)
				return
			}
			progs = append(progs, &p)
		},
	})
	if err != nil {
		return nil, nil, err
	}
	if perr != nil {
		return nil, nil, perr
	}
	if !res.OK {
		return nil, res, core.Inconclusivef("TLC on Hygiene (deviations=%v): verdict=%s %s\n%s", deviations, res.Verdict, res.What, tail(res.Output+"\n"+res.ErrorTrace, 3000))
	}
	// deterministic order and ids
	sort.Slice(progs, func(i, j int) bool { return progKey(progs[i]) < progKey(progs[j]) })
	for i, p := range progs {
		p.ID = i + 1
	}
	return progs, res, nil
}

func progKey(p *Prog) string { return fmt.Sprintf("%v|%s|%s", p.Idx, p.Site.X, p.Site.Y) }

func tail(s string, n int) string {
	if len(s) <= n {
		return s
	}
	return s[len(s)-n:]
}

// ---- the check ------------------------------------------------------------------------------------

func run(c *core.Ctx) error {
	if c.Replay != "" {
		return replay(c)
	}
	// instance: all bodies up to MaxLen statements x all 18 call sites, a seeded sample of longer
	// bodies, and a seeded sample of two-macro programs
	maxLen := 2
	nExtra, nPairs := c.Pick(25, 400), c.Pick(20, 300)
	if c.Thorough() {
		maxLen = 3
		nExtra = 150 // bodies of 4 statements
	}
	var extra [][]int
	for k := 0; k < nExtra; k++ {
		n := maxLen + 1
		b := make([]int, n)
		for i := range b {
			b[i] = 1 + c.Rand.Intn(alphabetLen)
		}
		extra = append(extra, b)
	}
	var pairs [][2][]int
	for k := 0; k < nPairs; k++ {
		var pr [2][]int
		for h := 0; h < 2; h++ {
			n := 1 + c.Rand.Intn(2)
			b := make([]int, n)
			for i := range b {
				b[i] = 1 + c.Rand.Intn(alphabetLen)
			}
			pr[h] = b
		}
		pairs = append(pairs, pr)
	}
	t0 := time.Now()
	progs, res, err := runModel(c, maxLen, extra, pairs, AllDeviations, false)
	if err != nil {
		return err
	}
	c.Logf("TLC: %d states generated, %d distinct, %d programs, %.1fs", res.Generated, res.Distinct, len(progs), time.Since(t0).Seconds())
	c.CovAdd("states", int(res.Distinct))
	c.CovAdd("transitions", int(res.Generated))
	c.Cov("spec", "spec/Hygiene/Hygiene.tla + Hygiene.cfg (TypeOK, MacroLocalsInvisibleOutside, CallerVarsOnlyChangeUnhygienically, ImplIsRefWithoutDeviations)")

	// self-check of the model: with every deviation switched off the implementation machine must BE
	// the reference (ImplIsRefWithoutDeviations is only meaningful then), and every action fires
	{
		var selfPairs [][2][]int
		if c.Thorough() {
			selfPairs = pairs[:min(len(pairs), 20)]
		}
		small, cres, err := runModel(c, c.Pick(1, 2), nil, selfPairs, nil, true)
		if err != nil {
			return err
		}
		for _, a := range []string{"Prologue", "ExpandStep", "LeaveExpansion", "Finish"} {
			if cres.ActionCov[a] == 0 {
				return core.Inconclusivef("vacuous: action %s never fired", a)
			}
		}
		c.CovAdd("states", int(cres.Distinct))
		c.CovAdd("transitions", int(cres.Generated))
		c.Cov("reference_only_programs", len(small))
	}

	// programs that both machines reject (an undefined local in the expansion or at the probe) need one
	// checker run each: replay a seeded sample of them (700 quick / 8000 thorough); every program on
	// which the machines differ or that the reference accepts is replayed
	{
		var rej []int
		for i, p := range progs {
			if p.Ref.Verdict == "rejected" && p.Impl.Verdict == "rejected" {
				rej = append(rej, i)
			}
		}
		drop := map[int]bool{}
		for _, i := range rej {
			drop[i] = true
		}
		for _, k := range c.SampleIdx(len(rej), c.Pick(700, 8000)) {
			delete(drop, rej[k])
		}
		var kept []*Prog
		for i, p := range progs {
			if !drop[i] {
				kept = append(kept, p)
			}
		}
		c.Cov("rejected_programs_not_replayed", len(drop))
		progs = kept
	}

	// ---- real runs: the macro program always; the hand-written renamed expansion when the reference accepts
	var units []*unit
	byProg := map[int][2]*unit{}
	for _, p := range progs {
		mu := &unit{p: p, variant: "macro"}
		mu.text, mu.call = p.UnitText("macro")
		units = append(units, mu)
		var hu *unit
		if p.Ref.Verdict == "ok" {
			hu = &unit{p: p, variant: "hand"}
			hu.text, hu.call = p.UnitText("hand")
			units = append(units, hu)
		}
		byProg[p.ID] = [2]*unit{mu, hu}
	}
	// the programs of the shape of the known stack corruption each need a file of their own (the VM
	// may crash): replay a seeded sample of them (40 quick / 500 thorough)
	{
		var corrupt []int
		for i, u := range units {
			if u.variant == "macro" && u.p.Impl.Corrupt && u.p.Impl.Verdict == "ok" {
				corrupt = append(corrupt, i)
			}
		}
		keep := map[int]bool{}
		for _, k := range c.SampleIdx(len(corrupt), c.Pick(40, 500)) {
			keep[corrupt[k]] = true
		}
		skipProg := map[int]bool{}
		for _, i := range corrupt {
			if !keep[i] {
				skipProg[units[i].p.ID] = true
			}
		}
		var kept []*unit
		for _, u := range units {
			if !skipProg[u.p.ID] {
				kept = append(kept, u)
			}
		}
		c.Cov("skipped_known_corrupt_shape", len(skipProg))
		units = kept
		var keptProgs []*Prog
		for _, p := range progs {
			if !skipProg[p.ID] {
				keptProgs = append(keptProgs, p)
			}
		}
		progs = keptProgs
	}
	// group by predicted verdict so that accepted batches are not poisoned
	sort.SliceStable(units, func(i, j int) bool { return predicted(units[i]) < predicted(units[j]) })
	pool := c.NewPool(c.Workers)
	t1 := time.Now()
	if err := verdicts(c, pool, units, 40); err != nil {
		return err
	}
	c.Logf("verdicts of %d units in %.1fs", len(units), time.Since(t1).Seconds())
	t2 := time.Now()
	if err := runAccepted(c, pool, units, 40); err != nil {
		return err
	}
	c.Logf("accepted units run in %.1fs", time.Since(t2).Seconds())

	// ---- compare
	agree, handAgree, refRejected, refAccepted := 0, 0, 0, 0
	for _, p := range progs {
		mu, hu := byProg[p.ID][0], byProg[p.ID][1]
		if p.Ref.Verdict == "ok" {
			refAccepted++
		} else {
			refRejected++
		}
		rec := func(kind, summary string, u *unit) map[string]any {
			src, _ := buildFile([]*unit{u}, true)
			return map[string]any{"kind": kind, "program": p.Describe(), "site_x": p.Site.X, "site_y": p.Site.Y, "variant": u.variant,
				"ref": p.Ref, "impl_model": p.Impl, "observed_verdict": u.verdict, "observed_out": u.out, "diag": u.diag,
				"source": src, "summary": summary}
		}
		for _, u := range []*unit{mu, hu} {
			if u == nil {
				continue
			}
			if u.crash != "" {
				r := rec("go_panic", fmt.Sprintf("Go panic / hang on the %s variant of %s: %s", u.variant, p.Describe(), firstLine(u.crash)), u)
				r["panic"] = u.crash
				if u.variant == "macro" && p.Impl.Corrupt {
					r["deviation"] = "unhygienic_statement_stack_imbalance"
				}
				c.Violation(r)
			}
			if u.verdict == "" && u.crash == "" {
				return core.Inconclusivef("no verdict for %s", u.name())
			}
		}
		if mu.crash != "" || (hu != nil && hu.crash != "") {
			continue
		}
		// the hand-written renamed expansion validates the reference itself against plain Elk scoping
		if hu != nil {
			if hu.verdict != "ok" || hu.errMsg != "" || !same(hu.out, outStrings(p.Ref.Out)) {
				c.Violation(rec("hand_expansion_mismatch", fmt.Sprintf("hand-written renamed expansion of %s: reference predicts ok %v, real %s %v %s %s",
					p.Describe(), p.Ref.Out, hu.verdict, hu.out, hu.errMsg, hu.diag), hu))
				continue
			}
			handAgree++
		}
		okMacro := mu.verdict == p.Ref.Verdict && mu.errMsg == "" && (mu.verdict != "ok" || same(mu.out, outStrings(p.Ref.Out)))
		if okMacro {
			agree++
			if agree%397 == 1 {
				c.Sample(map[string]any{"program": p.Describe(), "verdict": mu.verdict, "out": mu.out, "hand_variant_compared": hu != nil})
			}
			continue
		}
		r := rec("hygiene_mismatch", fmt.Sprintf("%s: reference (renamed hand expansion) %s %v, macro expansion %s %v %s %s",
			p.Describe(), p.Ref.Verdict, p.Ref.Out, mu.verdict, mu.out, mu.errMsg, mu.diag), mu)
		// is it exactly what the implementation model with its named deviations predicts?
		implSame := mu.verdict == p.Impl.Verdict && (mu.verdict != "ok" || same(mu.out, outStrings(p.Impl.Out)))
		fired := append([]string{}, p.Impl.Fired...)
		sort.Strings(fired)
		var exact []string
		for _, f := range fired {
			if f != "unhygienic_statement_stack_imbalance" {
				exact = append(exact, f)
			}
		}
		switch {
		case implSame && len(exact) > 0:
			r["deviation"] = exact[0]
		case p.Impl.Fuzzy && contains(fired, "uninit_local_leaks_into_conditional"):
			// the model knows the caller's variable holds garbage, not which
			r["deviation"] = "uninit_local_leaks_into_conditional"
		case p.Impl.Corrupt && contains(fired, "unhygienic_statement_stack_imbalance"):
			// the model does not predict WHICH local is lost, only that the run is corrupted
			r["deviation"] = "unhygienic_statement_stack_imbalance"
		}
		r["deviations_fired"] = fired
		c.Violation(r)
	}
	c.CovAdd("traces_validated_against_impl", agree+handAgree)
	c.CovAdd("programs", len(progs))
	c.CovAdd("macro_variants_agreeing", agree)
	c.CovAdd("hand_expansions_agreeing", handAgree)
	c.CovAdd("reference_accepts", refAccepted)
	c.CovAdd("reference_rejects", refRejected)
	c.Logf("programs=%d (reference accepts %d, rejects %d) macro agree=%d hand agree=%d violations=%d", len(progs), refAccepted, refRejected, agree, handAgree, c.Violations())
	if agree == 0 || handAgree == 0 {
		return core.Inconclusivef("nothing compared")
	}
	return nil
}

func predicted(u *unit) string {
	if u.variant == "hand" {
		return "ok"
	}
	return u.p.Impl.Verdict
}

func contains(xs []string, s string) bool {
	for _, x := range xs {
		if x == s {
			return true
		}
	}
	return false
}
