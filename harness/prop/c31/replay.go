package c31

import (
	"encoding/json"
	"os"
	"strings"

	"elkverif/internal/core"
	"elkverif/internal/elkrun"
)

// replay re-runs the emitted source of one recorded counterexample (`./run C31 --replay <path>`)
// and reports it again if the real implementation still shows the recorded verdict and output.
func replay(c *core.Ctx) error {
	b, err := os.ReadFile(c.Replay)
	if err != nil {
		return core.Inconclusivef("cannot read replay file: %v", err)
	}
	var rec map[string]any
	if err := json.Unmarshal(b, &rec); err != nil {
		return core.Inconclusivef("bad replay file: %v", err)
	}
	src, _ := rec["source"].(string)
	if src == "" {
		return core.Inconclusivef("replay file has no source")
	}
	pool := c.NewPool(1)
	jr := pool.Map([]core.Job{{Kind: "elk", Payload: elkrun.Job{Src: src, RunMs: 30000}, TimeoutMs: 90000}}, nil)[0]
	var r elkrun.Result
	crashed := jr.Crashed || jr.Timeout || jr.Panic != ""
	if !crashed && jr.Err == "" {
		if err := jr.Decode(&r); err != nil {
			return core.Inconclusivef("worker result: %v", err)
		}
	}
	crashed = crashed || r.GoPanic != "" || r.Hung
	var out []string
	seen := false
	for _, l := range strings.Split(strings.TrimRight(r.Stdout, "\n"), "\n") {
		if strings.HasPrefix(l, "@u ") {
			seen = true
			continue
		}
		if seen {
			out = append(out, l)
		}
	}
	verdict := "rejected"
	if r.Accepted {
		verdict = "ok"
	}
	c.Logf("replay: verdict=%s out=%v diags=%q error=%s %s crashed=%v", verdict, out, r.Diags, r.ErrClass, r.ErrMsg, crashed)
	reproduced := false
	if rec["kind"] == "go_panic" {
		reproduced = crashed
	} else {
		var want []string
		if l, ok := rec["observed_out"].([]any); ok {
			for _, x := range l {
				want = append(want, x.(string))
			}
		}
		reproduced = !crashed && verdict == rec["observed_verdict"] && (verdict != "ok" || same(out, want))
	}
	c.Cov("replayed", c.Replay)
	c.Cov("reproduced", reproduced)
	if reproduced {
		c.Violation(rec)
	} else {
		c.Logf("the recorded behaviour is NOT reproduced on this tree")
	}
	return nil
}
