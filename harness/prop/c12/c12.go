// Package c12: type-checking verdicts survive meaning-preserving edits. Edits (insert an unused
// local bound to a value / a closure at a statement position, rename a local consistently, add
// redundant parentheses, reverse the order of the top-level method definitions) are applied to
// programs of the ElkCore corpora. TLC executes the original and the edited program on the
// reference machine: equal observations PROVE the edit meaning-preserving for that program (a
// differing pair is a generator bug, exit 2, never a violation). The real checker must give both the
// same verdict and the real VM the same output.
package c12

import (
	"encoding/json"
	"fmt"
	"strings"
	"time"

	"elkverif/internal/core"
	. "elkverif/internal/elkcore"
	"elkverif/prop/c13"
	"elkverif/prop/c14"
	"elkverif/prop/c15"
)

func init() {
	core.Register(&core.Check{ID: "C12", Level: "model_checking", Run: run})
}

func clone(p M) M {
	b, _ := json.Marshal(p)
	var out any
	json.Unmarshal(b, &out)
	return norm(out).(M)
}

// norm converts decoded JSON (float64, []any, map[string]any) back to the builder's types.
func norm(v any) any {
	switch x := v.(type) {
	case map[string]any:
		m := M{}
		for k, e := range x {
			m[k] = norm(e)
		}
		return m
	case []any:
		l := L{}
		for _, e := range x {
			l = append(l, norm(e))
		}
		return l
	case float64:
		return int(x)
	}
	return v
}

// bodies lists every statement list of the program (method bodies and nested blocks).
func blocks(p M) []*L {
	var out []*L
	var walk func(owner M, key string)
	walk = func(owner M, key string) {
		l, ok := owner[key].(L)
		if !ok {
			return
		}
		ref := l
		out = append(out, &ref)
		_ = ref
		for _, s := range l {
			m := s.(M)
			for _, k := range []string{"body", "a", "b", "fin"} {
				if _, ok := m[k].(L); ok {
					walk(m, k)
				}
			}
			if cs, ok := m["catches"].(L); ok {
				for _, c := range cs {
					walk(c.(M), "body")
				}
			}
		}
	}
	for _, d := range p["defs"].(M) {
		walk(d.(M), "body")
	}
	return out
}

type site struct {
	owner M
	key   string
}

func sites(p M) []site {
	var out []site
	var walk func(owner M, key string)
	walk = func(owner M, key string) {
		l, ok := owner[key].(L)
		if !ok {
			return
		}
		out = append(out, site{owner, key})
		for _, s := range l {
			m := s.(M)
			if m["k"] == "forgen" {
				continue // sugar: the expansion must stay in step with the printed form
			}
			for _, k := range []string{"body", "a", "b", "fin"} {
				if _, ok := m[k].(L); ok {
					walk(m, k)
				}
			}
			if cs, ok := m["catches"].(L); ok {
				for _, c := range cs {
					walk(c.(M), "body")
				}
			}
		}
	}
	names := []string{}
	for n := range p["defs"].(M) {
		names = append(names, n)
	}
	for _, n := range sortStrings(names) {
		walk(p["defs"].(M)[n].(M), "body")
	}
	return out
}

func sortStrings(s []string) []string {
	for i := range s {
		for j := i + 1; j < len(s); j++ {
			if s[j] < s[i] {
				s[i], s[j] = s[j], s[i]
			}
		}
	}
	return s
}

// insertAt inserts stmt at position pos of the block.
func insertAt(st site, pos int, stmt M) {
	l := st.owner[st.key].(L)
	n := append(L{}, l[:pos]...)
	n = append(n, stmt)
	n = append(n, l[pos:]...)
	st.owner[st.key] = n
}

func renameAll(v any, from, to string) {
	switch x := v.(type) {
	case M:
		for k, e := range x {
			if s, ok := e.(string); ok && s == from {
				switch k {
				case "n", "dst", "var", "g", "c":
					x[k] = to
				}
			}
			renameAll(e, from, to)
		}
		if ps, ok := x["params"].(L); ok {
			for i, p := range ps {
				if p == from {
					ps[i] = to
				}
			}
		}
	case L:
		for _, e := range x {
			renameAll(e, from, to)
		}
	}
}

// firstLocal finds a variable declared by a let in the program
func firstLocal(p M, skip int) string {
	found := ""
	n := 0
	var walk func(v any)
	walk = func(v any) {
		switch x := v.(type) {
		case M:
			if x["k"] == "let" && found == "" {
				if n == skip {
					found = x["n"].(string)
				}
				n++
			}
			for _, k := range sortStrings(keys(x)) {
				walk(x[k])
			}
		case L:
			for _, e := range x {
				walk(e)
			}
		}
	}
	walk(p["defs"])
	return found
}

func keys(m M) []string {
	var out []string
	for k := range m {
		out = append(out, k)
	}
	return out
}

// parenFirst wraps the expression of the k-th print/let/set/return statement in parentheses
func parenNth(p M, k int) bool {
	n := 0
	done := false
	var walk func(v any)
	walk = func(v any) {
		if done {
			return
		}
		switch x := v.(type) {
		case M:
			switch x["k"] {
			case "print", "let", "set", "return":
				if e, ok := x["e"].(M); ok {
					if n == k {
						x["e"] = Paren(e)
						done = true
						return
					}
					n++
				}
			}
			for _, key := range sortStrings(keys(x)) {
				walk(x[key])
			}
		case L:
			for _, e := range x {
				walk(e)
			}
		}
	}
	walk(p["defs"])
	return done
}

type pair struct {
	orig, edit M
	what       string
}

func run(c *core.Ctx) error {
	// base programs
	var base []M
	id := 0
	chains := c14.AllChains(2)
	for _, i := range c.SampleIdx(len(chains), c.Pick(40, 225)) {
		exs := []c14.Exit{{Kind: "none"}, {Kind: "return"}, {Kind: "throw_a"}, {Kind: "break"}}
		ex := exs[c.Rand.Intn(len(exs))]
		if ex.Kind == "break" {
			hasLoop := false
			for _, p := range chains[i] {
				switch p {
				case "loop", "while", "until", "forin", "fornum":
					hasLoop = true
				case "call", "callc":
					hasLoop = false
				}
			}
			if !hasLoop {
				ex = c14.Exit{Kind: "return"}
			}
		}
		id++
		base = append(base, c14.Spine(id, chains[i], ex))
	}
	cl := c13.Corpus(c.Rand, c.Pick(30, 300), id+1, 40)
	base = append(base, cl...)
	id += len(cl)
	ga := c15.Corpus(c, 1, c.Pick(4, 60), id+1)
	if !c.Thorough() && len(ga) > 120 {
		ga = ga[:120]
	}
	base = append(base, ga...)
	id += len(ga)

	var pairs []pair
	var all []M
	nextID := id
	mk := func(o M, what string, f func(e M) bool) {
		e := clone(o)
		nextID++
		e["id"] = nextID
		if !f(e) {
			nextID--
			return
		}
		e["desc"] = fmt.Sprintf("%v + edit: %s", o["desc"], what)
		pairs = append(pairs, pair{o, e, what})
		all = append(all, e)
	}
	for _, o := range base {
		all = append(all, o)
		st := sites(o)
		// unused locals at seeded statement positions (every kind of unused binding)
		for k, stmt := range []func(n string) M{
			func(n string) M { return Let(n, "", Int(5)) },
			func(n string) M { return Lam(n, nil, "", B(Return(Int(5)))) },
			func(n string) M { return Lam(n, []string{"q"}, "", B(Return(Var("q")))) },
		} {
			si := c.Rand.Intn(len(st))
			pos := c.Rand.Intn(len(st[si].owner[st[si].key].(L)) + 1)
			kk, stmtf := k, stmt
			mk(o, fmt.Sprintf("unused local kind %d in block %d at %d", kk, si, pos), func(e M) bool {
				es := sites(e)
				l := es[si].owner[es[si].key].(L)
				// never after a jump statement that makes the rest unreachable: still meaning preserving, allowed
				_ = l
				insertAt(es[si], pos, stmtf(fmt.Sprintf("unused_%d", kk)))
				return true
			})
		}
		skip := c.Rand.Intn(3)
		mk(o, "rename a local", func(e M) bool {
			v := firstLocal(e, skip)
			if v == "" {
				return false
			}
			renameAll(e["defs"], v, v+"_renamed")
			return true
		})
		pk := c.Rand.Intn(4)
		mk(o, "redundant parentheses", func(e M) bool { return parenNth(e, pk) })
		if len(o["defs"].(M)) > 1 {
			mk(o, "reverse the order of method definitions", func(e M) bool { e["def_order"] = "reverse"; return true })
		}
	}
	c.Logf("instance: %d base programs, %d edited variants", len(base), len(pairs))

	MaxSteps = 20000
	for i := 0; i < len(all); i += 1 {
		EmitBatch(all[i : i+1])
	}
	mr, err := Predict(c, all, "C14.cfg", MaxSteps, 15*time.Minute)
	if err != nil {
		return err
	}
	c.Cov("states", int(mr.TLC.Distinct))
	c.Cov("transitions", int(mr.TLC.Generated))
	c.Cov("spec", "spec/ElkCore/ElkCore.tla: the original and the edited program are both executed; equal observations show the edit is meaning preserving")
	for _, pr := range pairs {
		a, b := mr.Obs[pr.orig["id"].(int)], mr.Obs[pr.edit["id"].(int)]
		if Diff(a.Lines(), b.Lines()) != "" || a.Outcome.K != b.Outcome.K {
			return core.Inconclusivef("the reference machine distinguishes an edit that should be meaning preserving (%s on %v): generator bug", pr.what, pr.orig["desc"])
		}
	}
	pool := c.NewPool(c.Workers)
	real := RunReal(c, pool, all, 1, nil)
	same, skipped := 0, 0
	for _, pr := range pairs {
		r0, r1 := real[pr.orig["id"].(int)], real[pr.edit["id"].(int)]
		if r0.Broken != "" || r1.Broken != "" {
			return core.Inconclusivef("worker problem: %s %s", r0.Broken, r1.Broken)
		}
		if r0.Res.GoPanic != "" || r0.Res.Hung {
			skipped++ // the original crashes: another property's finding
			continue
		}
		rec := map[string]any{"kind": "", "edit": pr.what, "desc": pr.edit["desc"], "original_source": r0.Src, "edited_source": r1.Src}
		switch {
		case r0.Res.Accepted != r1.Res.Accepted:
			rec["kind"] = "verdict_changed"
			rec["summary"] = fmt.Sprintf("%s: accepted=%v before, %v after the edit: %s%s", pr.edit["desc"], r0.Res.Accepted, r1.Res.Accepted, firstLine(r0.Res.Diags), firstLine(r1.Res.Diags))
			c.Violation(rec)
		case !r0.Res.Accepted:
			same++
		case r1.Res.GoPanic != "" || r1.Res.Hung:
			rec["kind"] = "crash_after_edit"
			rec["summary"] = fmt.Sprintf("%s: the edited program crashes: %s", pr.edit["desc"], firstLine(r1.Res.GoPanic))
			rec["panic"] = r1.Res.GoPanic
			c.Violation(rec)
		case strings.Join(r0.Lines, "|") != strings.Join(r1.Lines, "|") || r0.Res.ErrClass != r1.Res.ErrClass:
			rec["kind"] = "output_changed"
			rec["summary"] = fmt.Sprintf("%s\n  before: %s\n  after:  %s", pr.edit["desc"], strings.Join(r0.Lines, " | "), strings.Join(r1.Lines, " | "))
			c.Violation(rec)
		default:
			same++
			if same%307 == 1 {
				c.Sample(map[string]any{"edit": pr.what, "base": pr.orig["desc"], "output": r1.Lines})
			}
		}
	}
	c.Cov("traces_validated_against_impl", same)
	c.Cov("base_programs", len(base))
	c.Cov("edits", len(pairs))
	c.Cov("skipped_original_crashes", skipped)
	c.Logf("%d edits compared, %d preserve verdict and output, %d skipped, %d violations", len(pairs), same, skipped, c.Violations())
	if same == 0 {
		return core.Inconclusivef("nothing compared")
	}
	return nil
}

func firstLine(s string) string {
	if i := strings.IndexByte(s, '\n'); i >= 0 {
		return s[:i]
	}
	return s
}
