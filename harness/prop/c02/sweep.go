package c02

import (
	"encoding/json"
	"fmt"
	"regexp"
	"sort"
	"strconv"
	"strings"

	"elkverif/internal/core"
)

// Call is one std-library call `recv.method(args)` of the sweep.
type Call struct {
	Idx    int    `json:"idx"`
	NS     string `json:"ns"` // declaring namespace
	Method string `json:"m"`
	Argc   int    `json:"argc"`
	Recv   string `json:"recv"` // receiver expression
	Expr   string `json:"expr"` // the whole call expression
	Decl   int    `json:"decl"` // line of the Decl fact
}

// CallResult is what the worker reports for one call.
type CallResult struct {
	Idx      int     `json:"idx"`
	Accepted bool    `json:"accepted"` // the real checker accepts the call
	Diag     string  `json:"diag,omitempty"`
	Static   *Static `json:"static,omitempty"` // static type of the call expression (typed AST)
	Ret      *Event  `json:"ret,omitempty"`    // the value it evaluated to
	Thrown   *Event  `json:"thrown,omitempty"` // the value it threw
	Panic    string  `json:"panic,omitempty"`  // Go panic while it ran
	Hung     bool    `json:"hung,omitempty"`
	NoRun    bool    `json:"norun,omitempty"` // not reached (an earlier call of the batch killed the run)
}

type SweepJob struct {
	Calls []Call `json:"calls"`
}

func init() {
	core.RegisterJob("c28sweep", func(p json.RawMessage) (any, error) {
		var j SweepJob
		if err := json.Unmarshal(p, &j); err != nil {
			return nil, err
		}
		return RunSweep(&j), nil
	})
}

var reDiagLine = regexp.MustCompile(`(?m)^main\.elk:(\d+):\d+: (.*)$`)

func sweepSource(calls []Call) (string, map[int]int) {
	var sb strings.Builder
	lineOf := map[int]int{} // source line -> call position
	line := 1
	emit := func(s string, pos int) {
		sb.WriteString(s)
		sb.WriteByte('\n')
		if pos >= 0 {
			lineOf[line] = pos
		}
		line++
	}
	for i, c := range calls {
		emit(fmt.Sprintf("def c%d", i), i)
		emit("  do", i)
		emit(fmt.Sprintf("    vp(%d, %s)", 2*i, c.Expr), i)
		emit("  catch e_", i)
		emit(fmt.Sprintf("    vp(%d, e_)", 2*i+1), i)
		emit("  end", i)
		emit("  nil", i)
		emit("end", i)
	}
	for i := range calls {
		emit(fmt.Sprintf("c%d()", i), i)
	}
	return sb.String(), lineOf
}

// RunSweep checks the calls with the real checker (calls it rejects are dropped and reported as
// such), runs the accepted ones and attributes results, thrown values and Go panics to calls.
func RunSweep(j *SweepJob) []CallResult {
	out := make([]CallResult, len(j.Calls))
	for i, c := range j.Calls {
		out[i].Idx = c.Idx
	}
	live := make([]int, len(j.Calls)) // positions still in play
	for i := range live {
		live[i] = i
	}
	for round := 0; round < 12 && len(live) > 0; round++ {
		calls := make([]Call, len(live))
		for k, pos := range live {
			calls[k] = j.Calls[pos]
		}
		src, lineOf := sweepSource(calls)
		res := RunProbe(&Job{Src: src, RunMs: 8000})
		if !res.Accepted && res.GoPanic == "" {
			// drop the calls named by the diagnostics
			bad := map[int]string{}
			for _, m := range reDiagLine.FindAllStringSubmatch(res.Diags, -1) {
				ln, _ := strconv.Atoi(m[1])
				if k, ok := lineOf[ln]; ok {
					if _, dup := bad[k]; !dup {
						bad[k] = m[2]
					}
				}
			}
			if len(bad) == 0 {
				for _, pos := range live {
					out[pos].Diag = "batch rejected: " + firstLineOf(res.Diags)
				}
				return out
			}
			var next []int
			for k, pos := range live {
				if d, ok := bad[k]; ok {
					out[pos].Diag = d
				} else {
					next = append(next, pos)
				}
			}
			live = next
			continue
		}
		if res.GoPanic != "" && res.Stage == "check" {
			// the checker itself panicked: bisect by dropping the first half
			if len(live) == 1 {
				out[live[0]].Panic = "checker: " + res.GoPanic
				out[live[0]].Accepted = true
				return out
			}
			h := &SweepJob{Calls: calls[:len(calls)/2]}
			t := &SweepJob{Calls: calls[len(calls)/2:]}
			merge := func(rs []CallResult, ps []int) {
				for k, r := range rs {
					out[ps[k]] = r
				}
			}
			merge(RunSweep(h), live[:len(live)/2])
			merge(RunSweep(t), live[len(live)/2:])
			return out
		}
		statics := map[int]*Static{}
		for i := range res.Statics {
			s := res.Statics[i]
			statics[s.ID] = &s
		}
		got := map[int]bool{}
		for i := range res.Events {
			e := res.Events[i]
			k := e.ID / 2
			if k < 0 || k >= len(live) {
				continue
			}
			pos := live[k]
			if e.ID%2 == 0 {
				out[pos].Ret = &e
			} else {
				out[pos].Thrown = &e
			}
			got[k] = true
		}
		stopped := res.GoPanic != "" || res.Hung || res.ErrClass != ""
		culprit := -1
		for k, pos := range live {
			out[pos].Accepted = true
			out[pos].Static = statics[2*k]
			if !got[k] && stopped && culprit < 0 {
				culprit = k
				switch {
				case res.GoPanic != "":
					out[pos].Panic = res.GoPanic
				case res.Hung:
					out[pos].Hung = true
				default:
					out[pos].Panic = "uncaught: " + res.ErrClass + " " + res.ErrMsg
				}
			}
		}
		if culprit < 0 {
			return out
		}
		// the calls after the culprit did not run: run them again
		live = append([]int{}, live[culprit+1:]...)
		if res.Hung {
			for _, pos := range live {
				out[pos].NoRun = true
			}
			return out
		}
	}
	for _, pos := range live {
		out[pos].NoRun = true
	}
	return out
}

func firstLineOf(s string) string {
	if i := strings.IndexByte(s, '\n'); i >= 0 {
		return s[:i]
	}
	return s
}

// ---- generation of the sweep from the facts -----------------------------------------------------

// Receivers: expressions whose value is an instance of the named std class. The pool is validated
// by the real checker and VM (an expression that is rejected, or whose runtime class differs, is
// dropped), so a wrong entry costs coverage, never a false alarm.
var Receivers = []string{
	"3", "-7", "0", "2.5", `"héllo"`, `""`, `"a1b2"`, ":foo", "`a`", "true", "false", "nil",
	"[1, 2, 3]", `["a", "b"]`, "%[1, 2]", `{ "a" => 1 }`, "%{ a: 1 }", "^[1, 2]",
	"(1...5)", "(1<.<5)", "(1<..5)", "(1..<5)", "(...5)", "(..<5)", "(1...)", "(1<..)",
	"%/a+/", `Pair(1, "a")`, "3i64", "3i32", "3i16", "3i8", "3u64", "3u32", "3u16", "3u8", "3u",
	"2.5f64", "2.5f32", "2.5bf", "10 ** 20",
	"[1, 2].iter", "%[1, 2].iter", `"ab".char_iter`, `"ab".byte_iter`, "(1...3).iter", `{ "a" => 1 }.iter`, "^[1].iter",
	"Date(2024, 1, 31)", `Timezone.get("UTC")`, "Result.ok(1)", `Result.err("e")`, "ImmutableBox(1)", "Box(1)",
	"Duration::SECOND", "Duration.seconds(5)", "Time.now", "DateTime.now",
	"Date::Span(10, 2, 9)", "Date(2024, 3, 1) - Date(2023, 1, 15)", "DateTime::Span(Date::Span(1, 2, 3), Time::Span.seconds(5))", "Time::Span.seconds(90)",
}

// Arguments, tried in rotating order for every parameter (the real checker decides which fit).
var Arguments = []struct{ Expr, Hint string }{
	{"2", "Int"}, {"0", "Int"}, {"-1", "Int"}, {"1.5", "Float"}, {"2.0", "Float"}, {`"ab"`, "String"}, {`""`, "String"}, {":a", "Symbol"}, {"`b`", "Char"},
	{"true", "ool"}, {"nil", "nil"}, {"[1, 2]", "List"}, {"%[1, 2]", "Tuple"}, {`{ "a" => 1 }`, "Map"}, {"%{ a: 1 }", "Record"},
	{"^[1]", "Set"}, {"(0...1)", "Range"}, {"%/a/", "Regex"}, {"|x| -> x", "|"}, {"|x, y| -> x", "|"}, {"|x| -> true", "|"},
	{"3i64", "Int64"}, {"3i32", "Int32"}, {"3i16", "Int16"}, {"3i8", "Int8"}, {"3u64", "UInt64"}, {"3u32", "UInt32"}, {"3u16", "UInt16"},
	{"3u8", "UInt8"}, {"3u", "UInt"}, {"2.5f64", "Float64"}, {"2.5f32", "Float32"}, {"2.5bf", "BigFloat"}, {"10 ** 20", "Int"},
	{`Pair(1, 2)`, "Pair"}, {"[1, 2].iter", "Iterator"}, {`Timezone.get("UTC")`, "Timezone"}, {"Date(2024, 2, 29)", "Date"},
}

// ExcludedNS: namespaces with side effects outside the process, blocking or concurrency, and the
// compiler's own object model (hundreds of AST node classes) are not swept dynamically.
func ExcludedNS(ns string) string {
	for _, p := range []string{"Std::FS", "Std::Kernel", "Std::Thread", "Std::ThreadPool", "Std::Channel", "Std::Promise", "Std::Sync",
		"Std::Debug", "Std::Elk", "Std::Runtime", "Std::Test", "Std::Generator", "Std::Aborter", "Std::Process", "Std::IO", "Std::Colorizer",
		"Std::ReadChannel", "Std::WriteChannel", "Std::Lockable", "Std::Weak", "Std::Macro", "Std::StackTrace", "Std::CallFrame"} {
		if ns == p || strings.HasPrefix(ns, p+"::") {
			return p
		}
	}
	return ""
}

func excludedMethod(m string) bool {
	switch m {
	case "sleep", "exit", "print", "println", "puts", "wait", "lock", "unlock", "close", "#init":
		return true
	case "unwrap":
		// Result#unwrap rethrows the caller-supplied Err value as an UNCHECKED error by design
		// (headers/result.elh): any value may be thrown, outside the throw-type relation
		return true
	}
	return strings.Contains(m, "@")
}

var reIdent = regexp.MustCompile(`^[a-z_][a-zA-Z0-9_]*[?!]?$`)

// callExpr renders recv.method(args) (operators, subscripts and setters in their own syntax).
func callExpr(recv, m string, args []string) string {
	a := strings.Join(args, ", ")
	switch {
	case reIdent.MatchString(m):
		if len(args) == 0 {
			return fmt.Sprintf("(%s).%s", recv, m)
		}
		return fmt.Sprintf("(%s).%s(%s)", recv, m, a)
	case m == "[]":
		if len(args) == 1 {
			return fmt.Sprintf("(%s)[%s]", recv, a)
		}
	case m == "[]=":
		if len(args) == 2 {
			return fmt.Sprintf("(%s)[%s] = %s", recv, args[0], args[1])
		}
	case m == "call":
		return fmt.Sprintf("(%s).(%s)", recv, a)
	case m == "-@" || m == "+@" || m == "~" || m == "!":
		if len(args) == 0 {
			return fmt.Sprintf("%s(%s)", strings.TrimSuffix(m, "@"), recv)
		}
	case strings.HasSuffix(m, "=") && reIdent.MatchString(strings.TrimSuffix(m, "=")):
		if len(args) == 1 {
			return fmt.Sprintf("(%s).%s = %s", recv, strings.TrimSuffix(m, "="), a)
		}
	default:
		if len(args) == 1 {
			return fmt.Sprintf("(%s) %s (%s)", recv, m, a)
		}
	}
	return ""
}

// BuildSweep generates the calls: every declared method of every non-excluded namespace that has a
// validated receiver x every admitted argument count (a rest parameter: 0, 1 and 2 extra) x up to
// `variants` argument tuples.
func BuildSweep(facts *Facts, recvByClass map[string][]string, variants int, seed int64) (calls []Call, skipped map[string]int) {
	skipped = map[string]int{}
	anc := map[string]map[string]bool{}
	for _, r := range facts.Lattice {
		anc[r.C] = map[string]bool{}
		for _, a := range r.A {
			anc[r.C][a] = true
		}
	}
	classes := make([]string, 0, len(recvByClass))
	for c := range recvByClass {
		classes = append(classes, c)
	}
	sort.Strings(classes)
	done := map[string]bool{}
	for di := range facts.Decls {
		d := &facts.Decls[di]
		dk := fmt.Sprintf("%s %v %s", d.NS, d.Singleton, d.Method)
		if done[dk] {
			continue // a mixin method has one fact per including class
		}
		done[dk] = true
		switch {
		case d.Singleton || d.NSKind == "module":
			skipped["singleton_or_module_method"]++
			continue
		case d.Macro:
			skipped["macro"]++
			continue
		case ExcludedNS(d.NS) != "":
			skipped["excluded_namespace"]++
			continue
		case excludedMethod(d.Method):
			skipped["excluded_method"]++
			continue
		case d.Async || d.Generator:
			skipped["async_or_generator"]++
			continue
		}
		// receivers: instances of the declaring class, or of a class that includes the declaring mixin
		var recvs []string
		if rs, ok := recvByClass[d.NS]; ok {
			recvs = rs
		} else {
			for _, c := range classes {
				if anc[c][d.NS] {
					recvs = append(recvs, recvByClass[c][0])
					if len(recvs) >= 3 {
						break
					}
				}
			}
		}
		if len(recvs) == 0 {
			skipped["no_receiver"]++
			continue
		}
		maxArgs := d.NParams
		if d.NamedRest {
			maxArgs--
		}
		var counts []int
		if d.Rest {
			for n := d.Min; n <= d.Min+2+d.Opt; n++ {
				counts = append(counts, n)
			}
		} else {
			for n := d.Min; n <= maxArgs; n++ {
				counts = append(counts, n)
			}
		}
		for _, argc := range counts {
			made := 0
			for v := 0; v < variants*3 && made < variants; v++ {
				recv := recvs[v%len(recvs)]
				args := make([]string, argc)
				for p := 0; p < argc; p++ {
					ptype := ""
					if p < len(d.Params) {
						ptype = d.Params[p].Type
					} else if len(d.Params) > 0 {
						ptype = d.Params[len(d.Params)-1].Type
					}
					args[p] = pickArg(ptype, recv, v, p, seed)
				}
				expr := callExpr(recv, d.Method, args)
				if expr == "" {
					skipped["no_call_syntax"]++
					break
				}
				dup := false
				for _, c := range calls[max(0, len(calls)-made):] {
					if c.Expr == expr {
						dup = true
					}
				}
				if dup {
					continue
				}
				calls = append(calls, Call{Idx: len(calls), NS: d.NS, Method: d.Method, Argc: argc, Recv: recv, Expr: expr, Decl: d.Line})
				made++
			}
		}
	}
	return calls, skipped
}

// pickArg chooses the v-th candidate for a parameter of the given declared type: candidates whose
// hint occurs in the type text first (then the receiver itself for `self`-like parameters), then all.
func pickArg(ptype, recv string, v, p int, seed int64) string {
	var first, rest []string
	for _, a := range Arguments {
		if strings.Contains(ptype, a.Hint) {
			first = append(first, a.Expr)
		} else {
			rest = append(rest, a.Expr)
		}
	}
	cands := append([]string{}, first...)
	cands = append(cands, recv)
	if len(first) == 0 {
		// unknown parameter type (type parameter, any, interface): rotate through everything
		off := int((seed + int64(p)*7) % int64(len(rest)))
		if off < 0 {
			off = -off
		}
		cands = append(cands, rest[off:]...)
		cands = append(cands, rest[:off]...)
	}
	return cands[v%len(cands)]
}
