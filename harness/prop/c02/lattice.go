package c02

import (
	"bytes"
	"encoding/json"
	"sort"
	"strings"

	"github.com/elk-language/elk"
	"github.com/elk-language/elk/types"

	"elkverif/internal/core"
	"elkverif/internal/elkrun"
)

// LatticeRow is one line of lattice.ndjson: a namespace of the live type environment and the names
// of itself, its superclasses, included mixins and implemented interfaces.
type LatticeRow struct {
	C string   `json:"c"`
	A []string `json:"a"`
}

func init() {
	core.RegisterJob("c02lattice", func(json.RawMessage) (any, error) {
		elkrun.Setup()
		elk.InitGlobalEnvironment()
		return ExportLattice(NewEnv()), nil
	})
}

// BaseName strips type arguments ("Std::Tuple[Val]" -> "Std::Tuple").
func BaseName(n string) string {
	if i := strings.IndexByte(n, '['); i >= 0 {
		return n[:i]
	}
	return n
}

// ExportLattice walks every namespace reachable from the root of env.
func ExportLattice(env *types.GlobalEnvironment) []LatticeRow {
	seen := map[string]bool{}
	var rows []LatticeRow
	var walk func(ns types.Namespace, depth int)
	walk = func(ns types.Namespace, depth int) {
		if ns == nil || depth > 8 {
			return
		}
		name := ns.Name()
		if seen[name] {
			return
		}
		seen[name] = true
		switch ns.(type) {
		case *types.Class, *types.Mixin, *types.Interface, *types.Module:
			anc := map[string]bool{name: true}
			for p := range types.Parents(ns) {
				if n := BaseName(p.Name()); n != "" {
					anc[n] = true
				}
			}
			row := LatticeRow{C: name}
			for a := range anc {
				row.A = append(row.A, a)
			}
			sort.Strings(row.A)
			rows = append(rows, row)
		}
		for _, sub := range ns.Subtypes() {
			if child, ok := sub.Type.(types.Namespace); ok {
				walk(child, depth+1)
			}
		}
	}
	walk(env.Root, 0)
	sort.Slice(rows, func(i, j int) bool { return rows[i].C < rows[j].C })
	return rows
}

func LatticeNDJSON(rows []LatticeRow) []byte {
	var b bytes.Buffer
	for i := range rows {
		x, _ := json.Marshal(&rows[i])
		b.Write(x)
		b.WriteByte('\n')
	}
	return b.Bytes()
}
