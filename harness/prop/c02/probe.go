// Package c02: static types describe runtime values (spec/Types).
//
// probe.go is the binding to the real code: one source text is parsed, type checked with the real
// checker (the typed AST gives the static type of every probe argument), compiled and run on the real
// VM; a native identity method `vp(id, v)` records the runtime class and a value tag of v each time a
// probe is evaluated.
package c02

import (
	"encoding/json"
	"fmt"
	"runtime/debug"
	"strconv"
	"strings"
	"sync"
	"time"

	"github.com/elk-language/elk"
	"github.com/elk-language/elk/bitfield"
	"github.com/elk-language/elk/parser"
	"github.com/elk-language/elk/parser/ast"
	"github.com/elk-language/elk/types"
	"github.com/elk-language/elk/types/checker"
	"github.com/elk-language/elk/value"
	"github.com/elk-language/elk/vm"

	"elkverif/internal/core"
	"elkverif/internal/elkrun"
)

// ProbeName is the name of the native generic identity method `def vp[T](id: Int, v: T): T`
// added to Std::Kernel (type environment and runtime) by the harness.
const ProbeName = "vp"

// T is the JSON form of a static type handed to the TLA+ relation InstanceOf (spec/Types/Types.tla).
//
//	k: any never nil bool true false void | class(n) | lit(n = class, v = inspect text) |
//	   nilable(e[1]) union(e) inter(e) not(e[1]) | opaque(n = why)
type T struct {
	K string `json:"k"`
	N string `json:"n"`
	V string `json:"v"`
	E []T    `json:"e"`
}

type Static struct {
	ID   int    `json:"id"`
	Type T      `json:"type"`
	Text string `json:"text"` // the checker's own rendering of the type
	Line int    `json:"line"`
}

type Event struct {
	ID    int    `json:"id"`
	Class string `json:"cls"` // runtime class of the value (of a class/module object: Std::Class, Std::Module, ...)
	Tag   string `json:"tag"` // inspect text for nil/bool/numbers/strings/symbols/chars, "" otherwise
	Obj   string `json:"obj"` // name of the namespace when the value is a class/module/mixin/interface object
	Err   bool   `json:"err"` // the runtime class descends from the runtime's Std::Error
}

// V is the abstraction of a runtime value used by spec/Types.
type V struct {
	Class string `json:"cls"`
	Tag   string `json:"tag"`
	Obj   string `json:"obj"`
	Err   bool   `json:"err"`
}

func (e *Event) V() V { return V{e.Class, e.Tag, e.Obj, e.Err} }

// Abstract maps a runtime value to its abstraction.
func Abstract(v value.Value) V {
	cls, obj := ClassName(v)
	isErr := false
	if !v.IsUndefined() && obj == "" {
		func() {
			defer func() { recover() }()
			isErr = value.IsA(v, value.ErrorClass)
		}()
	}
	return V{Class: cls, Tag: Tag(v), Obj: obj, Err: isErr}
}

type Job struct {
	Src   string `json:"src"`
	RunMs int    `json:"run_ms,omitempty"`
}

type Result struct {
	Accepted bool     `json:"accepted"`
	Diags    string   `json:"diags,omitempty"`
	Statics  []Static `json:"statics"`
	Events   []Event  `json:"events"`
	Stdout   string   `json:"stdout,omitempty"`
	ErrClass string   `json:"err_class,omitempty"`
	ErrMsg   string   `json:"err_msg,omitempty"`
	GoPanic  string   `json:"go_panic,omitempty"`
	Stage    string   `json:"stage,omitempty"`
	Hung     bool     `json:"hung,omitempty"`
}

func init() {
	core.RegisterJob("c02probe", func(p json.RawMessage) (any, error) {
		var j Job
		if err := json.Unmarshal(p, &j); err != nil {
			return nil, err
		}
		return RunProbe(&j), nil
	})
}

var (
	evMu   sync.Mutex
	events []Event
)

// NewEnv builds a fresh type environment from the std headers and declares the probe in it.
func NewEnv() *types.GlobalEnvironment {
	env := types.NewGlobalEnvironment()
	kernel := env.StdSubtype(value.ToSymbol("Kernel")).(*types.Module)
	tp := func() *types.TypeParameter {
		return types.NewTypeParameter(value.ToSymbol("T"), types.NewTypeParamNamespace("Type Parameter Container of :"+ProbeName, true), types.Never{}, types.Any{}, nil, types.INVARIANT)
	}
	kernel.DefineMethod("verification probe", types.METHOD_NATIVE_FLAG, value.ToSymbol(ProbeName),
		[]*types.TypeParameter{tp()},
		[]*types.Parameter{
			types.NewParameter(value.ToSymbol("id"), types.NameToType("Std::Int", env), types.NormalParameterKind, false),
			types.NewParameter(value.ToSymbol("v"), tp(), types.NormalParameterKind, false),
		}, tp(), types.Never{})
	return env
}

// DefineRuntimeProbe (re)defines the native side of the probe; call after elk.InitGlobalEnvironment().
func DefineRuntimeProbe() {
	c := &value.KernelModule.SingletonClass().MethodContainer
	vm.Def(c, ProbeName, func(_ *vm.Thread, args []value.Value) (value.Value, value.Value) {
		id := -1
		if args[1].IsSmallInt() {
			id = int(args[1].AsSmallInt())
		}
		v := args[2]
		a := Abstract(v)
		ev := Event{ID: id, Class: a.Class, Tag: a.Tag, Obj: a.Obj, Err: a.Err}
		evMu.Lock()
		if len(events) < 100000 {
			events = append(events, ev)
		}
		evMu.Unlock()
		return v, value.Undefined
	}, vm.DefWithParameters(2))
}

// ClassName is the name of the runtime class of v; for class/module/mixin/interface objects obj is
// the name of that namespace and cls the class of the object itself.
func ClassName(v value.Value) (cls, obj string) {
	if v.IsUndefined() {
		return "<undefined>", ""
	}
	if v.IsReference() {
		switch o := v.AsReference().(type) {
		case *value.Class:
			switch {
			case o.IsMixin():
				return "Std::Mixin", o.Name
			default:
				return "Std::Class", o.Name
			}
		case *value.Module:
			return "Std::Module", o.Name
		case *value.Interface:
			return "Std::Interface", o.Name
		}
	}
	c := v.Class()
	for c != nil && (c.IsSingleton() || c.IsMixinProxy()) {
		c = c.Parent
	}
	if c == nil {
		return "<noclass>", ""
	}
	return c.Name, ""
}

// Tag is the literal text of simple values (what a literal type pins down), "" for everything else.
func Tag(v value.Value) string {
	if v.IsUndefined() {
		return ""
	}
	cls, obj := ClassName(v)
	if obj != "" {
		return ""
	}
	switch cls {
	case "Std::Nil", "Std::True", "Std::False", "Std::Int", "Std::String", "Std::Symbol", "Std::Char",
		"Std::Int64", "Std::Int32", "Std::Int16", "Std::Int8", "Std::UInt64", "Std::UInt32", "Std::UInt16", "Std::UInt8",
		"Std::UInt":
		s := v.Inspect()
		if len(s) > 200 {
			s = s[:200]
		}
		return s
	}
	return ""
}

// RunProbe checks and runs one source text and returns the static side (typed AST) and the dynamic
// side (probe events) of every probe.
func RunProbe(j *Job) *Result {
	elkrun.Setup()
	res := &Result{Statics: []Static{}, Events: []Event{}}
	checker.MethodCheckConcurrencyLimit = 1
	var bc *vm.BytecodeFunction
	res.Stage = "check"
	func() {
		defer func() {
			if r := recover(); r != nil {
				res.GoPanic = fmt.Sprintf("%v\n%s", r, trim(debug.Stack()))
			}
		}()
		elk.InitGlobalEnvironment()
		DefineRuntimeProbe()
		env := NewEnv()
		prog, perr := parser.Parse("main.elk", j.Src)
		if perr != nil {
			res.Diags = diagText(perr)
			return
		}
		var flags bitfield.BitField16
		b, d := checker.CheckAST("main.elk", prog, env, flags, nil)
		bc = b
		if d != nil {
			res.Diags = diagText(d)
		}
		res.Accepted = bc != nil && (d == nil || !d.IsFailure())
		if res.Accepted {
			res.Statics = CollectStatics(prog, env)
		}
	}()
	if res.GoPanic != "" || !res.Accepted {
		return res
	}
	res.Stage = "run"
	evMu.Lock()
	events = nil
	evMu.Unlock()
	stdout := &strings.Builder{}
	var outMu sync.Mutex
	w := writerFunc(func(p []byte) (int, error) {
		outMu.Lock()
		defer outMu.Unlock()
		if stdout.Len() < 1<<18 {
			stdout.Write(p)
		}
		return len(p), nil
	})
	type runOut struct {
		val, err value.Value
		pan      string
	}
	done := make(chan runOut, 1)
	go func() {
		var out runOut
		defer func() {
			if r := recover(); r != nil {
				out.pan = fmt.Sprintf("%v\n%s", r, trim(debug.Stack()))
			}
			done <- out
		}()
		v := vm.New(vm.WithStdout(w), vm.WithStderr(w))
		out.val, out.err = v.InterpretTopLevel(bc)
	}()
	runMs := j.RunMs
	if runMs == 0 {
		runMs = 10000
	}
	select {
	case out := <-done:
		if out.pan != "" {
			res.GoPanic = out.pan
		} else if !out.err.IsUndefined() {
			func() {
				defer func() {
					if r := recover(); r != nil {
						res.ErrClass, res.ErrMsg = "<unprintable>", fmt.Sprint(r)
					}
				}()
				res.ErrClass, res.ErrMsg = elkrun.DescribeError(out.err)
			}()
		}
	case <-time.After(time.Duration(runMs) * time.Millisecond):
		res.Hung = true
		core.RequestWorkerRestart()
	}
	evMu.Lock()
	res.Events = append(res.Events, events...)
	events = nil
	evMu.Unlock()
	outMu.Lock()
	res.Stdout = stdout.String()
	outMu.Unlock()
	return res
}

type writerFunc func(p []byte) (int, error)

func (f writerFunc) Write(p []byte) (int, error) { return f(p) }

func diagText(d interface{ Error() string }) string {
	s := d.Error()
	if len(s) > 3000 {
		s = s[:3000]
	}
	return s
}

func trim(b []byte) string {
	s := string(b)
	if len(s) > 5000 {
		s = s[:5000]
	}
	return s
}

// CollectStatics walks the typed AST and returns, for every call `vp(<int literal>, e)`, the static
// type the checker stored on e.
func CollectStatics(prog *ast.ProgramNode, env *types.GlobalEnvironment) []Static {
	out := []Static{}
	ast.Traverse(prog, func(n, _ ast.Node) ast.TraverseOption {
		call, ok := n.(*ast.MethodCallNode)
		if !ok || len(call.PositionalArguments) != 2 {
			return ast.TraverseContinue
		}
		name, ok := call.MethodName.(*ast.PublicIdentifierNode)
		if !ok || name.Value != ProbeName {
			return ast.TraverseContinue
		}
		lit, ok := call.PositionalArguments[0].(*ast.IntLiteralNode)
		if !ok {
			return ast.TraverseContinue
		}
		id, err := strconv.Atoi(strings.ReplaceAll(lit.Value, "_", ""))
		if err != nil {
			return ast.TraverseContinue
		}
		arg := call.PositionalArguments[1]
		typ := arg.Type(env)
		st := Static{ID: id, Line: call.Location().StartPos.Line}
		if typ == nil {
			st.Type = T{K: "opaque", N: "untyped-node"}
			st.Text = "<nil>"
		} else {
			st.Type = Encode(typ, env, 0)
			st.Text = types.Inspect(typ)
		}
		out = append(out, st)
		return ast.TraverseContinue
	}, nil)
	return out
}

// Encode translates a checker type to the JSON form of spec/Types. Types whose membership cannot be
// decided from (runtime class, tag) — interfaces (structural), type parameters, self, closures'
// signatures, type arguments of generics — are erased to their class or to "opaque" (accepts
// everything; counted in the evidence).
func Encode(t types.Type, env *types.GlobalEnvironment, depth int) T {
	if depth > 12 {
		return T{K: "opaque", N: "depth"}
	}
	enc := func(x types.Type) T { return Encode(x, env, depth+1) }
	list := func(xs []types.Type) []T {
		out := make([]T, len(xs))
		for i, x := range xs {
			out[i] = enc(x)
		}
		return out
	}
	lit := func(x types.Type) T {
		cls := "?"
		if ns, ok := x.ToNonLiteral(env).(types.Namespace); ok {
			cls = ns.Name()
		}
		switch cls {
		case "Std::Float", "Std::Float64", "Std::Float32", "Std::BigFloat":
			// float literal texts are not canonical (1.0e10 vs 10000000000.0): class only
			return T{K: "lit", N: cls, E: []T{}}
		}
		return T{K: "lit", N: cls, V: types.Inspect(x), E: []T{}}
	}
	switch x := t.(type) {
	case types.Any:
		return T{K: "any"}
	case types.Void:
		return T{K: "void"}
	case types.Never:
		return T{K: "never"}
	case types.Nil:
		return T{K: "nil"}
	case types.Bool:
		return T{K: "bool"}
	case types.True:
		return T{K: "true"}
	case types.False:
		return T{K: "false"}
	case types.Untyped:
		return T{K: "opaque", N: "untyped"}
	case types.Self:
		return T{K: "opaque", N: "self"}
	case *types.Nilable:
		return T{K: "nilable", E: []T{enc(x.Type)}}
	case *types.Union:
		return T{K: "union", E: list(x.Elements)}
	case *types.Intersection:
		return T{K: "inter", E: list(x.Elements)}
	case *types.Not:
		return T{K: "not", E: []T{enc(x.Type)}}
	case *types.NamedType:
		return enc(x.Type)
	case *types.Exact:
		switch in := x.Type.(type) {
		case *types.SingletonClass:
			return T{K: "singleton", N: in.AttachedObject.Name()}
		case *types.Module:
			return T{K: "singleton", N: in.Name()}
		case *types.Interface:
			return T{K: "opaque", N: "interface " + in.Name()}
		}
		return T{K: "exact", N: x.Type.Name()}
	case *types.SingletonClass:
		return T{K: "singleton", N: x.AttachedObject.Name()}
	case *types.Class:
		return T{K: "class", N: x.Name()}
	case *types.Mixin:
		return T{K: "class", N: x.Name()}
	case *types.Module:
		return T{K: "singleton", N: x.Name()}
	case *types.Interface:
		return T{K: "opaque", N: "interface " + x.Name()}
	case *types.Generic:
		switch ns := x.Namespace.(type) {
		case *types.Class:
			return T{K: "class", N: ns.Name()}
		case *types.Mixin:
			return T{K: "class", N: ns.Name()}
		}
		return T{K: "opaque", N: "generic " + x.Namespace.Name()}
	case *types.Callable:
		if x.IsClosure {
			return T{K: "opaque", N: "closure"}
		}
		return T{K: "opaque", N: "callable"}
	case *types.TypeParameter:
		return T{K: "opaque", N: "type-parameter"}
	case *types.InstanceOf, *types.SingletonOf:
		return T{K: "opaque", N: "instance-of/singleton-of"}
	case types.SimpleLiteral:
		return lit(x)
	}
	return T{K: "opaque", N: fmt.Sprintf("%T", t)}
}

// MarshalJSON never emits null for the element list (TLC's JSON reader has no null).
func (t T) MarshalJSON() ([]byte, error) {
	type plain struct {
		K string `json:"k"`
		N string `json:"n"`
		V string `json:"v"`
		E []T    `json:"e"`
	}
	p := plain{t.K, t.N, t.V, t.E}
	if p.E == nil {
		p.E = []T{}
	}
	return json.Marshal(p)
}

// HasOpaque reports whether membership in t is (partly) outside the modelled relation.
func (t *T) HasOpaque() bool {
	if t.K == "opaque" {
		return true
	}
	for i := range t.E {
		if t.E[i].HasOpaque() {
			return true
		}
	}
	return false
}
