package c02

import (
	"encoding/json"
	"fmt"
	"os"
	"sort"

	"elkverif/internal/core"
)

// SweepRun is the result of a std-call sweep on the real code.
type SweepRun struct {
	Facts       *Facts
	RecvByClass map[string][]string
	Calls       []Call
	Results     []CallResult
	Skipped     map[string]int
}

func FetchFacts(pool *core.Pool) (*Facts, error) {
	rs := pool.Map([]core.Job{{Kind: "c28facts", Payload: map[string]any{}, TimeoutMs: 120000}}, nil)
	if rs[0].Err != "" || rs[0].Panic != "" || rs[0].Crashed || rs[0].Timeout {
		return nil, core.Inconclusivef("fact extraction failed: %s %s %s", rs[0].Err, firstLine(rs[0].Panic), tailStr(rs[0].CrashLog, 800))
	}
	var f Facts
	if err := rs[0].Decode(&f); err != nil {
		return nil, err
	}
	if len(f.Decls) < 500 || len(f.Lattice) < 50 {
		return nil, core.Inconclusivef("fact extraction returned %d declarations, %d namespaces", len(f.Decls), len(f.Lattice))
	}
	return &f, nil
}

// runCalls executes calls in batches on the pool; a batch whose worker dies is re-run call by call.
func runCalls(c *core.Ctx, pool *core.Pool, calls []Call, batch int) ([]CallResult, error) {
	results := make([]CallResult, len(calls))
	type span struct{ lo, hi int }
	var spans []span
	for i := 0; i < len(calls); i += batch {
		j := i + batch
		if j > len(calls) {
			j = len(calls)
		}
		spans = append(spans, span{i, j})
	}
	for pass := 0; pass < 2 && len(spans) > 0; pass++ {
		jobs := make([]core.Job, len(spans))
		for k, sp := range spans {
			jobs[k] = core.Job{Kind: "c28sweep", Payload: SweepJob{Calls: calls[sp.lo:sp.hi]}, TimeoutMs: 180000}
		}
		rs := pool.Map(jobs, nil)
		var again []span
		for k, jr := range rs {
			sp := spans[k]
			if jr.Crashed || jr.Timeout {
				if sp.hi-sp.lo > 1 {
					for i := sp.lo; i < sp.hi; i++ {
						again = append(again, span{i, i + 1})
					}
					continue
				}
				results[sp.lo] = CallResult{Idx: calls[sp.lo].Idx, Accepted: true, Panic: "worker process died / timed out: " + tailStr(jr.CrashLog, 1200), Hung: jr.Timeout}
				continue
			}
			if jr.Err != "" || jr.Panic != "" {
				return nil, core.Inconclusivef("sweep worker: %s %s", jr.Err, firstLine(jr.Panic))
			}
			var out []CallResult
			if err := jr.Decode(&out); err != nil {
				return nil, err
			}
			if len(out) != sp.hi-sp.lo {
				return nil, core.Inconclusivef("sweep worker returned %d results for %d calls", len(out), sp.hi-sp.lo)
			}
			copy(results[sp.lo:sp.hi], out)
		}
		spans = again
	}
	return results, nil
}

// RunStdSweep extracts the facts, validates the receiver pool and runs the sweep (a seeded sample of
// `limit` calls when limit > 0).
func RunStdSweep(c *core.Ctx, pool *core.Pool, variants, limit int) (*SweepRun, error) {
	facts, err := FetchFacts(pool)
	if err != nil {
		return nil, err
	}
	run := &SweepRun{Facts: facts, RecvByClass: map[string][]string{}}
	// validate the receiver pool on the real code
	rc := make([]Call, len(Receivers))
	for i, r := range Receivers {
		rc[i] = Call{Idx: i, Recv: r, Expr: r}
	}
	rr, err := runCalls(c, pool, rc, 15)
	if err != nil {
		return nil, err
	}
	for i, r := range rr {
		if r.Accepted && r.Ret != nil && r.Ret.Obj == "" {
			run.RecvByClass[r.Ret.Class] = append(run.RecvByClass[r.Ret.Class], Receivers[i])
		}
	}
	if len(run.RecvByClass) < 20 {
		return nil, core.Inconclusivef("only %d receiver classes validated", len(run.RecvByClass))
	}
	calls, skipped := BuildSweep(facts, run.RecvByClass, variants, c.Seed)
	run.Skipped = skipped
	if limit > 0 && len(calls) > limit {
		// a seeded sample; the calls of Std::Regex (the candidate named by the property) always stay
		take := map[int]bool{}
		for _, i := range c.SampleIdx(len(calls), limit) {
			take[i] = true
		}
		var sel []Call
		for i := range calls {
			if take[i] || calls[i].NS == "Std::Regex" {
				cl := calls[i]
				cl.Idx = len(sel)
				sel = append(sel, cl)
			}
		}
		calls = sel
	}
	run.Calls = calls
	run.Results, err = runCalls(c, pool, calls, 30)
	if err != nil {
		return nil, err
	}
	return run, nil
}

func (r *SweepRun) ReceiverClasses() []string {
	var out []string
	for c := range r.RecvByClass {
		out = append(out, c)
	}
	sort.Strings(out)
	return out
}

// ---- C02 part 2: the static type of std calls vs the value they return ---------------------------

type stdRun struct {
	call Call
	res  CallResult
	line int
}

func stdProbes(c *core.Ctx, pool *core.Pool, pairs *PairSet) ([]*stdRun, error) {
	limit := c.Pick(450, 0)
	if os.Getenv("VERIF_C02_STD_ALL") != "" {
		limit = 0
	}
	run, err := RunStdSweep(c, pool, c.Pick(1, 2), limit)
	if err != nil {
		return nil, err
	}
	var out []*stdRun
	acc := 0
	for i, r := range run.Results {
		if !r.Accepted || r.Static == nil || r.Ret == nil {
			continue
		}
		acc++
		sr := &stdRun{call: run.Calls[i], res: r}
		sr.line = pairs.Add("probe", r.Static.Type, r.Ret.V())
		out = append(out, sr)
		if acc%997 == 1 {
			c.Sample(map[string]any{"std_call": run.Calls[i].Expr, "static_type": r.Static.Text, "runtime_class": r.Ret.Class})
		}
	}
	c.Cov("std_calls_generated", len(run.Calls))
	c.Cov("std_calls_probed", len(out))
	c.Logf("std-call probes: %d calls generated, %d accepted and evaluated to a value (%d receiver classes)", len(run.Calls), len(out), len(run.RecvByClass))
	if len(out) < len(run.Calls)/20 {
		return nil, core.Inconclusivef("only %d of %d generated std calls were accepted and returned", len(out), len(run.Calls))
	}
	return out, nil
}

func reportStd(c *core.Ctx, runs []*stdRun, pairs *PairSet, tr *TraceResult) {
	seen := map[string]bool{}
	for _, r := range runs {
		if !tr.Rejected[r.line] {
			continue
		}
		key := r.call.NS + "#" + r.call.Method
		if seen[key] {
			continue
		}
		seen[key] = true
		rec := map[string]any{"kind": "std_return_type_violated", "class": r.call.NS, "method": r.call.Method, "call": r.call.Expr,
			"static_type": r.res.Static.Text, "runtime_class": r.res.Ret.Class, "runtime_value": r.res.Ret.Tag,
			"summary": fmt.Sprintf("%s: static type `%s` but the value is a %s %s (method %s#%s)", r.call.Expr, r.res.Static.Text, r.res.Ret.Class, r.res.Ret.Tag, r.call.NS, r.call.Method)}
		if f := os.Getenv("VERIF_C02_KNOWN_OUT"); f != "" {
			b, _ := json.Marshal(map[string]any{"status": "known", "property": "C02", "id": fmt.Sprintf("std-return-type:%s#%s:%s", r.call.NS, r.call.Method, r.res.Ret.Class),
				"match": map[string]any{"kind": "std_return_type_violated", "class": r.call.NS, "method": r.call.Method, "runtime_class": r.res.Ret.Class}, "what": rec["summary"]})
			fh, _ := os.OpenFile(f, os.O_APPEND|os.O_CREATE|os.O_WRONLY, 0o644)
			fh.Write(append(b, '\n'))
			fh.Close()
		}
		c.Violation(rec)
	}
}
