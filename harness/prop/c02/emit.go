package c02

import (
	"fmt"
	"sort"
	"strings"
)

// Site is one probe of an emitted program.
type Site struct {
	ID      int    // probe id in the emitted file
	Key     string // static site of Narrow ("1.1.0"); derived probes: the key of the plain probe they follow
	Derived string // "" for the plain read of `a`, else the name of the derived form
}

var valLit = map[string]string{"nil": "nil", "false": "false", "int": "1", "str": `"s"`}
var valClass = map[string]string{"nil": "Std::Nil", "false": "Std::False", "int": "Std::Int", "str": "Std::String"}
var valType = map[string]string{"nil": "nil", "false": "false", "int": "Int", "str": "String"}

// DeclText renders the declared type of `a`.
func DeclText(decl []string) string {
	d := append([]string{}, decl...)
	sort.Slice(d, func(i, j int) bool { return order(d[i]) < order(d[j]) })
	if len(d) == 2 && d[1] == "nil" {
		return valType[d[0]] + "?"
	}
	parts := make([]string, len(d))
	for i, x := range d {
		parts[i] = valType[x]
	}
	return strings.Join(parts, " | ")
}

func order(v string) int {
	switch v {
	case "int":
		return 0
	case "str":
		return 1
	case "false":
		return 2
	}
	return 3
}

// DerivedForms are the narrowing forms that produce a value from `a` (the statement's "??, must,
// as, &&"): each is emitted right after a plain probe, reads `a` once and never assigns it.
var DerivedForms = []string{"coalesce", "or", "and", "must", "as", "isa", "not", "switch", "ternary", "listmod"}

type emitter struct {
	sb      strings.Builder
	base    int
	sites   []Site
	decl    []string
	pick    func(siteIdx int, key string) string // derived form for a site ("" = none)
	nextID  int
	nextDer int
}

func (e *emitter) line(ind int, s string) {
	e.sb.WriteString(strings.Repeat("  ", ind))
	e.sb.WriteString(s)
	e.sb.WriteByte('\n')
}

func (e *emitter) probe(ind int, site []int) {
	key := siteKey(site)
	id := e.base + e.nextID
	e.nextID++
	e.sites = append(e.sites, Site{ID: id, Key: key})
	e.line(ind, fmt.Sprintf("vp(%d, a)", id))
	form := e.pick(len(e.sites), key)
	if form == "" {
		return
	}
	did := e.base + 500 + e.nextDer
	e.nextDer++
	e.sites = append(e.sites, Site{ID: did, Key: key, Derived: form})
	switch form {
	case "coalesce":
		e.line(ind, fmt.Sprintf("vp(%d, a ?? 0)", did))
	case "or":
		e.line(ind, fmt.Sprintf("vp(%d, a || 0)", did))
	case "and":
		e.line(ind, fmt.Sprintf("a && vp(%d, a)", did))
	case "must":
		e.line(ind, "do")
		e.line(ind+1, fmt.Sprintf("vp(%d, must a)", did))
		e.line(ind, "catch _e")
		e.line(ind+1, "nil")
		e.line(ind, "end")
	case "as":
		e.line(ind, "do")
		e.line(ind+1, fmt.Sprintf("vp(%d, a as ::Std::Int)", did))
		e.line(ind, "catch _e")
		e.line(ind+1, "nil")
		e.line(ind, "end")
	case "isa":
		did2 := e.base + 500 + e.nextDer
		e.nextDer++
		e.sites = append(e.sites, Site{ID: did2, Key: key, Derived: form})
		e.line(ind, "if a <: ::Std::Int")
		e.line(ind+1, fmt.Sprintf("vp(%d, a)", did))
		e.line(ind, "else")
		e.line(ind+1, fmt.Sprintf("vp(%d, a)", did2))
		e.line(ind, "end")
	case "not":
		did2 := e.base + 500 + e.nextDer
		e.nextDer++
		e.sites = append(e.sites, Site{ID: did2, Key: key, Derived: form})
		e.line(ind, "if !a")
		e.line(ind+1, fmt.Sprintf("vp(%d, a)", did2))
		e.line(ind, "else")
		e.line(ind+1, fmt.Sprintf("vp(%d, a)", did))
		e.line(ind, "end")
	case "switch":
		e.line(ind, "switch a")
		e.line(ind, fmt.Sprintf("case ::Std::Int() then vp(%d, a)", did))
		e.line(ind, "case nil then nil")
		e.line(ind, "case _ then nil")
		e.line(ind, "end")
	case "ternary":
		e.line(ind, fmt.Sprintf("vp(%d, if a then a else 0)", did))
	case "listmod":
		// the two-armed modifier inside a collection literal narrows `a` in each element separately
		did2 := e.base + 500 + e.nextDer
		e.nextDer++
		e.sites = append(e.sites, Site{ID: did2, Key: key, Derived: form})
		e.line(ind, fmt.Sprintf("_lm%d := [vp(%d, a) if a else vp(%d, a), :pad, 0, nil]", did, did, did2)) // :pad keeps the list a generic ArrayList (a typed native list would turn a stale narrowing into a TypeError)
	}
}

func pathName(p []int) string {
	parts := make([]string, len(p))
	for i, x := range p {
		parts[i] = fmt.Sprint(x)
	}
	return strings.Join(parts, "_")
}

func (e *emitter) block(ind int, b []Stmt, bp []int) {
	for i, s := range b {
		sp := append(append([]int{}, bp...), i+1)
		e.stmt(ind, &s, sp)
		e.probe(ind, sp)
	}
}

func (e *emitter) stmt(ind int, s *Stmt, sp []int) {
	body := append(append([]int{}, sp...), 1)
	hand := append(append([]int{}, sp...), 2)
	entry := func(bp []int) []int { return append(append([]int{}, bp...), 0) }
	nm := pathName(sp)
	switch s.Op {
	case "set":
		e.line(ind, "a = "+valLit[s.V])
	case "call":
		e.line(ind, "f_"+s.V+".()")
	case "if", "unless", "eqnil":
		head := map[string]string{"if": "if a", "unless": "unless a", "eqnil": "if a == nil"}[s.Op]
		e.line(ind, head)
		e.probe(ind+1, entry(body))
		e.block(ind+1, s.B, body)
		e.line(ind, "end")
	case "while":
		e.line(ind, "n_"+nm+" := 0")
		e.line(ind, "while a")
		e.probe(ind+1, entry(body))
		e.block(ind+1, s.B, body)
		e.line(ind+1, "n_"+nm+" += 1")
		e.line(ind+1, "break if n_"+nm+" >= 2")
		e.line(ind, "end")
	case "loop":
		e.line(ind, fmt.Sprintf("fornum i_%s := 0; i_%s < 2; i_%s += 1", nm, nm, nm))
		e.probe(ind+1, entry(body))
		e.block(ind+1, s.B, body)
		e.line(ind, "end")
	case "try":
		e.line(ind, "do")
		e.probe(ind+1, entry(body))
		e.block(ind+1, s.B, body)
		e.line(ind+1, "throw unchecked :x")
		e.line(ind, "catch :x")
		e.probe(ind+1, entry(hand))
		e.block(ind+1, s.H, hand)
		e.line(ind, "end")
	case "fin":
		e.line(ind, "do")
		e.probe(ind+1, entry(body))
		e.block(ind+1, s.B, body)
		e.line(ind, "finally")
		e.probe(ind+1, entry(hand))
		e.block(ind+1, s.H, hand)
		e.line(ind, "end")
	case "late":
		gsite := append(append([]int{}, sp...), 3, 0)
		id := e.base + e.nextID
		e.nextID++
		e.sites = append(e.sites, Site{ID: id, Key: siteKey(gsite)})
		e.line(ind, fmt.Sprintf("g_%s := || -> vp(%d, a)", nm, id))
		e.probe(ind+1, entry(body))
		e.block(ind+1, s.B, body)
		e.line(ind, "g_"+nm+".()")
	default:
		e.line(ind, "# unknown statement "+s.Op)
	}
}

// EmitProgram renders one Narrow program as the body of `def t<k>` (or at the top level with
// mangled names when topLevel is set). base is the first probe id.
func EmitProgram(p *Prog, decl []string, k, base int, pick func(int, string) string) (string, []Site) {
	e := &emitter{base: base, decl: decl, pick: pick}
	e.line(0, fmt.Sprintf("def t%d", k))
	e.line(1, fmt.Sprintf("var a: %s = %s", DeclText(decl), valLit[p.Init]))
	for _, v := range decl {
		e.line(1, fmt.Sprintf("f_%s := || -> a = %s", v, valLit[v]))
	}
	e.probe(1, []int{0})
	e.block(1, p.Body, nil)
	e.line(1, "nil")
	e.line(0, "end")
	return e.sb.String(), e.sites
}
