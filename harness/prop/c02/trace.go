package c02

import (
	"bytes"
	"encoding/json"
	"fmt"
	"path/filepath"
	"sync"
	"time"

	"elkverif/internal/core"
	"elkverif/internal/tlc"
)

// Pair is one line of a trace handed to spec/Types/TypesTrace.tla.
type Pair struct {
	Line int    `json:"line"`
	Kind string `json:"kind"` // probe | ret | throw
	T    T      `json:"T"`
	V    V      `json:"v"`
}

// PairSet deduplicates (kind, static type, runtime abstraction) pairs: many evaluated probes map to
// one trace line.
type PairSet struct {
	idx   map[string]int
	Pairs []Pair
	Uses  []int
}

func NewPairSet() *PairSet { return &PairSet{idx: map[string]int{}} }

// Add returns the line number (1-based) of the pair.
func (ps *PairSet) Add(kind string, t T, v V) int {
	kb, _ := json.Marshal([]any{kind, t, v})
	k := string(kb)
	if i, ok := ps.idx[k]; ok {
		ps.Uses[i-1]++
		return i
	}
	i := len(ps.Pairs) + 1
	ps.idx[k] = i
	ps.Pairs = append(ps.Pairs, Pair{Line: i, Kind: kind, T: t, V: v})
	ps.Uses = append(ps.Uses, 1)
	return i
}

type TraceResult struct {
	Rejected map[int]bool
	States   int64
	Lines    int
	Runs     int
}

// ValidateTrace runs TypesTrace on the pairs (sharded) and returns the rejected line numbers.
func ValidateTrace(c *core.Ctx, ps *PairSet, lattice []LatticeRow) (*TraceResult, error) {
	out := &TraceResult{Rejected: map[int]bool{}, Lines: len(ps.Pairs)}
	if len(ps.Pairs) == 0 {
		return out, nil
	}
	lat := LatticeNDJSON(lattice)
	const shard = 4000
	var shards [][]Pair
	for i := 0; i < len(ps.Pairs); i += shard {
		j := i + shard
		if j > len(ps.Pairs) {
			j = len(ps.Pairs)
		}
		shards = append(shards, ps.Pairs[i:j])
	}
	var mu sync.Mutex
	var firstErr error
	sem := make(chan struct{}, 3)
	var wg sync.WaitGroup
	for _, sh := range shards {
		wg.Add(1)
		sem <- struct{}{}
		go func(sh []Pair) {
			defer wg.Done()
			defer func() { <-sem }()
			var nd bytes.Buffer
			for i := range sh {
				b, _ := json.Marshal(&sh[i])
				nd.Write(b)
				nd.WriteByte('\n')
			}
			var rej []int
			res, err := tlc.Run(tlc.Opts{
				SpecDir: filepath.Join(core.VerifRoot, "spec", "Types"), Module: "TypesTrace", Scratch: c.Scratch,
				Workers: 1, Timeout: 5 * time.Minute, HeapMB: 3000,
				Extra: map[string][]byte{"trace.ndjson": nd.Bytes(), "lattice.ndjson": lat},
				OnGen: func(rec []byte) {
					var r struct {
						Line int `json:"line"`
					}
					if json.Unmarshal(rec, &r) == nil && r.Line > 0 {
						rej = append(rej, r.Line)
					}
				},
			})
			mu.Lock()
			defer mu.Unlock()
			if err != nil {
				firstErr = err
				return
			}
			if !res.OK {
				firstErr = core.Inconclusivef("TypesTrace: TLC verdict %s: %s\n%s", res.Verdict, res.What, tailStr(res.Output, 1500))
				return
			}
			if int(res.Distinct) != len(sh)+1 {
				firstErr = core.Inconclusivef("TypesTrace consumed %d of %d lines", res.Distinct-1, len(sh))
				return
			}
			out.States += res.Distinct
			out.Runs++
			for _, l := range rej {
				out.Rejected[l] = true
			}
		}(sh)
	}
	wg.Wait()
	if firstErr != nil {
		return nil, firstErr
	}
	return out, nil
}

func tailStr(s string, n int) string {
	if len(s) <= n {
		return s
	}
	return s[len(s)-n:]
}

func (p *Pair) String() string {
	t, _ := json.Marshal(p.T)
	return fmt.Sprintf("%s: value [class %s tag %q obj %q] vs type %s", p.Kind, p.V.Class, p.V.Tag, p.V.Obj, t)
}
