package c02

import "fmt"

func fmtT(v any) string { return fmt.Sprintf("%T", v) }
