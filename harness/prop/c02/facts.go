package c02

import (
	"encoding/json"
	"sort"
	"strings"

	"github.com/elk-language/elk/types"
	"github.com/elk-language/elk/value"

	"elkverif/internal/core"
)

// Param / Decl / RT are the facts of spec/Types/StdConformance.tla (property C28), extracted from the
// live type environment (std headers) and the live runtime.
type Param struct {
	Name string `json:"name"`
	Kind string `json:"kind"` // normal | optional | rest | named_rest
	Type string `json:"type"`
}

type Decl struct {
	Line      int     `json:"line"`
	NS        string  `json:"ns"`
	On        string  `json:"on"`     // the runtime class on whose instances the method is resolved (a class including the mixin; ns itself otherwise)
	NSKind    string  `json:"nskind"` // class | mixin | module | interface
	Singleton bool    `json:"singleton"`
	Method    string  `json:"m"`
	Min       int     `json:"min"`     // required positional arguments
	NParams   int     `json:"nparams"` // declared parameters (optional and rest ones included)
	Opt       int     `json:"opt"`     // optional parameters
	Rest      bool    `json:"rest"`
	NamedRest bool    `json:"named_rest"`
	Params    []Param `json:"params"`
	Ret       T       `json:"ret"`
	Throws    T       `json:"throws"`
	RetText   string  `json:"ret_text"`
	ThrowText string  `json:"throw_text"`
	Abstract  bool    `json:"abstract"`
	Native    bool    `json:"native"`
	Macro     bool    `json:"macro"`
	Generator bool    `json:"generator"`
	Async     bool    `json:"async"`
	Generic   int     `json:"generic"`
	// runtime side of the same (namespace, method)
	Found    bool   `json:"found"`     // the runtime resolves the method on the namespace
	RTKind   string `json:"rt_kind"`   // Go type of the runtime method
	RTParams int    `json:"rt_params"` // ParameterCount()
	RTOpt    int    `json:"rt_opt"`    // OptionalParameterCount()
	NSFound  bool   `json:"ns_found"`  // the runtime has the namespace
}

type Facts struct {
	Decls   []Decl       `json:"decls"`
	Lattice []LatticeRow `json:"lattice"`
}

func init() {
	core.RegisterJob("c28facts", func(json.RawMessage) (any, error) {
		// a first program loads lib/builtin into the runtime; then a fresh type environment is read
		r := RunProbe(&Job{Src: "nil\n"})
		if !r.Accepted || r.GoPanic != "" {
			return nil, core.Inconclusivef("cannot run the empty program: %s %s", r.Diags, r.GoPanic)
		}
		env := NewEnv()
		return &Facts{Decls: ExtractDecls(env), Lattice: ExportLattice(env)}, nil
	})
}

func runtimeContainer(name string, singleton bool) (*value.MethodContainer, bool) {
	v := value.RootModule.Constants.Get(value.ToSymbol(name))
	if v.IsUndefined() || !v.IsReference() {
		return nil, false
	}
	switch o := v.AsReference().(type) {
	case *value.Class:
		if singleton {
			return &o.SingletonClass().MethodContainer, true
		}
		return &o.MethodContainer, true
	case *value.Module:
		return &o.SingletonClass().MethodContainer, true
	case *value.Interface:
		return nil, true
	}
	return nil, false
}

func lookup(c *value.MethodContainer, name value.Symbol) value.Method {
	if c == nil {
		return nil
	}
	if m, ok := c.Methods[name]; ok {
		return m
	}
	if c.Parent == nil {
		return nil
	}
	return c.LookupMethod(name)
}

// ExtractDecls lists every method declared directly under every namespace of env.
func ExtractDecls(env *types.GlobalEnvironment) []Decl {
	var out []Decl
	seen := map[string]bool{}
	// concrete classes including each mixin (type environment), restricted to those the runtime has
	including := map[string][]string{}
	for _, row := range ExportLattice(env) {
		if _, isClass := types.NameToNamespace(row.C, env).(*types.Class); !isClass {
			continue
		}
		if _, ok := runtimeContainer(row.C, false); !ok {
			continue
		}
		for _, a := range row.A {
			if a != row.C {
				including[a] = append(including[a], row.C)
			}
		}
	}
	var add func(ns types.Namespace, nsName, kind string, singleton bool, on string)
	add = func(ns types.Namespace, nsName, kind string, singleton bool, on string) {
		if kind == "mixin" && !singleton && on == "" && len(including[nsName]) > 0 {
			for _, c := range including[nsName] {
				add(ns, nsName, kind, singleton, c)
			}
			return
		}
		target := nsName
		if on != "" {
			target = on
		}
		cont, nsFound := runtimeContainer(target, singleton)
		for name, m := range types.SortedOwnMethods(ns) {
			if m == nil || m.IsPlaceholder() {
				continue
			}
			d := Decl{NS: nsName, On: target, NSKind: kind, Singleton: singleton, Method: name.String(), NSFound: nsFound,
				Min: m.RequiredParamCount(), NParams: len(m.Params), Opt: m.OptionalParamCount,
				Rest: m.HasPositionalRestParam(), NamedRest: m.HasNamedRestParam(),
				Abstract: m.IsAbstract(), Native: m.IsNative(), Macro: m.IsMacro(), Generator: m.IsGenerator(), Async: m.IsAsync(),
				Generic: len(m.TypeParameters), Params: []Param{}}
			for _, p := range m.Params {
				k := "normal"
				switch p.Kind {
				case types.DefaultValueParameterKind:
					k = "optional"
				case types.PositionalRestParameterKind:
					k = "rest"
				case types.NamedRestParameterKind:
					k = "named_rest"
				}
				d.Params = append(d.Params, Param{Name: p.Name.String(), Kind: k, Type: types.Inspect(p.Type)})
			}
			if m.ReturnType == nil {
				d.Ret, d.RetText = T{K: "void"}, "void"
			} else {
				d.Ret, d.RetText = Encode(m.ReturnType, env, 0), types.Inspect(m.ReturnType)
			}
			if m.ThrowType == nil {
				d.Throws, d.ThrowText = T{K: "never"}, "never"
			} else {
				d.Throws, d.ThrowText = Encode(m.ThrowType, env, 0), types.Inspect(m.ThrowType)
			}
			if rm := lookup(cont, name); rm != nil {
				d.Found = true
				d.RTParams = rm.ParameterCount()
				d.RTOpt = rm.OptionalParameterCount()
				d.RTKind = strings.TrimPrefix(strings.TrimPrefix(typeName(rm), "*vm."), "*value.")
			}
			out = append(out, d)
		}
	}
	var walk func(ns types.Namespace, depth int)
	walk = func(ns types.Namespace, depth int) {
		if ns == nil || depth > 8 {
			return
		}
		name := ns.Name()
		if seen[name] {
			return
		}
		seen[name] = true
		kind := ""
		switch ns.(type) {
		case *types.Class:
			kind = "class"
		case *types.Mixin:
			kind = "mixin"
		case *types.Module:
			kind = "module"
		case *types.Interface:
			kind = "interface"
		}
		if kind != "" && name != "" && name != "Root" {
			add(ns, name, kind, false, "")
			if s := ns.Singleton(); s != nil && kind != "module" {
				add(s, name, kind, true, "")
			}
		}
		for _, sub := range ns.Subtypes() {
			if child, ok := sub.Type.(types.Namespace); ok {
				walk(child, depth+1)
			}
		}
	}
	walk(env.Root, 0)
	sort.SliceStable(out, func(i, j int) bool {
		if out[i].NS != out[j].NS {
			return out[i].NS < out[j].NS
		}
		if out[i].Singleton != out[j].Singleton {
			return !out[i].Singleton
		}
		if out[i].On != out[j].On {
			return out[i].On < out[j].On
		}
		return out[i].Method < out[j].Method
	})
	for i := range out {
		out[i].Line = i + 1
	}
	return out
}

func typeName(v any) string { return fmtT(v) }
