package c02

import (
	"bytes"
	"encoding/json"
	"fmt"
	"path/filepath"
	"sort"
	"strings"
	"time"

	"elkverif/internal/core"
	"elkverif/internal/tlc"
)

// Stmt / Prog mirror the records of spec/Types/Narrow.tla.
type Stmt struct {
	Op string `json:"op"`
	V  string `json:"v"`
	B  []Stmt `json:"b"`
	H  []Stmt `json:"h"`
}

type Prog struct {
	Init string `json:"init"`
	Body []Stmt `json:"body"`
}

type Visit struct {
	Site []int    `json:"site"`
	Val  string   `json:"val"`
	Ft   []string `json:"ft"`
}

func (v *Visit) Key() string { return siteKey(v.Site) }

func (v *Visit) Stale() bool {
	for _, x := range v.Ft {
		if x == v.Val {
			return false
		}
	}
	return true
}

// Behaviour is one GEN record of Narrow: a program and the probes of its execution.
type Behaviour struct {
	Prog Prog    `json:"prog"`
	Hist []Visit `json:"hist"`
}

func siteKey(site []int) string {
	parts := make([]string, len(site))
	for i, x := range site {
		parts[i] = fmt.Sprint(x)
	}
	return strings.Join(parts, ".")
}

func (p *Prog) Key() string {
	b, _ := json.Marshal(p)
	return string(b)
}

func tlaSet(xs []string) string {
	ys := append([]string{}, xs...)
	sort.Strings(ys)
	for i, y := range ys {
		ys[i] = fmt.Sprintf("%q", y)
	}
	return "{" + strings.Join(ys, ", ") + "}"
}

// Instance is one bounded instance of Narrow.
type Instance struct {
	Decl       []string // abstract values of the declared type
	N, M, L    int      // Family(N, M, L); ignored when Progs != nil
	Deviations []string
	Progs      []Prog // explicit program set (re-runs with a deviation enabled)
	CheckSound bool   // put Sound/StoreTyped into the cfg (the reference must satisfy them)
}

func (in *Instance) String() string {
	if in.Progs != nil {
		return fmt.Sprintf("Decl=%v %d explicit programs Deviations=%v", in.Decl, len(in.Progs), in.Deviations)
	}
	return fmt.Sprintf("Decl=%v Family(%d,%d,%d) Deviations=%v", in.Decl, in.N, in.M, in.L, in.Deviations)
}

// RunNarrow model-checks one instance of spec/Types/Narrow.tla and hands every behaviour to on.
func RunNarrow(c *core.Ctx, in *Instance, timeout time.Duration, coverage bool, on func(*Behaviour)) (*tlc.Result, error) {
	var mc bytes.Buffer
	mc.WriteString("---- MODULE MC_Narrow_gen ----\nEXTENDS Narrow\n")
	fmt.Fprintf(&mc, "MCDecl == %s\nMCDev == %s\n", tlaSet(in.Decl), tlaSet(in.Deviations))
	extra := map[string][]byte{}
	if in.Progs != nil {
		var nd bytes.Buffer
		for i := range in.Progs {
			b, _ := json.Marshal(&in.Progs[i])
			nd.Write(b)
			nd.WriteByte('\n')
		}
		extra["progs.ndjson"] = nd.Bytes()
		mc.WriteString("MCPrograms == LET ps == ndJsonDeserialize(\"progs.ndjson\") IN {ps[i] : i \\in DOMAIN ps}\n")
	} else {
		fmt.Fprintf(&mc, "MCPrograms == Family(%d, %d, %d)\n", in.N, in.M, in.L)
	}
	mc.WriteString("====\n")
	cfg := "CONSTANTS\n  Decl <- MCDecl\n  Deviations <- MCDev\n  Programs <- MCPrograms\nINIT Init\nNEXT Next\nCHECK_DEADLOCK TRUE\n"
	if in.CheckSound {
		cfg += "INVARIANTS Sound StoreTyped TypeOK\n"
	} else {
		cfg += "INVARIANTS TypeOK\n"
	}
	extra["MC_Narrow_gen.tla"] = mc.Bytes()
	extra["MC_Narrow_gen.cfg"] = []byte(cfg)
	var perr error
	res, err := tlc.Run(tlc.Opts{
		SpecDir: filepath.Join(core.VerifRoot, "spec", "Types"), Module: "MC_Narrow_gen", Scratch: c.Scratch,
		Workers: c.Workers, Timeout: timeout, Extra: extra, Coverage: coverage,
		OnGen: func(rec []byte) {
			var b Behaviour
			if e := json.Unmarshal(rec, &b); e != nil {
				perr = fmt.Errorf("bad GEN record: %v: %.200s", e, rec)
				return
			}
			on(&b)
		},
	})
	if err != nil {
		return nil, err
	}
	if perr != nil {
		return nil, perr
	}
	return res, nil
}

// RandomPrograms draws n distinct programs (seeded) from the grammar of Narrow.tla with blocks of up
// to two statements at the top level, in bodies and in nested bodies, handlers of up to one simple
// statement.
func RandomPrograms(c *core.Ctx, decl []string, n int) []Prog {
	r := c.Rand
	val := func() string { return decl[r.Intn(len(decl))] }
	simple := func() Stmt {
		op := "set"
		if r.Intn(2) == 0 {
			op = "call"
		}
		return Stmt{Op: op, V: val(), B: []Stmt{}, H: []Stmt{}}
	}
	ops := []string{"if", "unless", "eqnil", "while", "loop", "late", "try", "fin"}
	var block func(depth, max int) []Stmt
	block = func(depth, max int) []Stmt {
		k := r.Intn(max + 1)
		out := []Stmt{}
		for i := 0; i < k; i++ {
			if depth >= 2 || r.Intn(3) == 0 {
				out = append(out, simple())
				continue
			}
			s := Stmt{Op: ops[r.Intn(len(ops))], V: "nil", B: block(depth+1, 2), H: []Stmt{}}
			if s.Op == "try" || s.Op == "fin" {
				if r.Intn(2) == 0 {
					s.H = []Stmt{simple()}
				}
			}
			out = append(out, s)
		}
		return out
	}
	seen := map[string]bool{}
	var progs []Prog
	for tries := 0; len(progs) < n && tries < n*20; tries++ {
		p := Prog{Init: val(), Body: block(0, 2)}
		if len(p.Body) == 0 {
			continue
		}
		k := p.Key()
		if seen[k] {
			continue
		}
		seen[k] = true
		progs = append(progs, p)
	}
	return progs
}
