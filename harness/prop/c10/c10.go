// Package c10: runtime sizing parameters do not change program results. The ElkCore machine has no
// notion of stack capacity, pool size or queue capacity, so its prediction is configuration
// independent by construction; the real VM runs the closure, generator/async and control-flow
// corpora plus deep-recursion programs under a matrix of configurations and must print exactly the
// predicted lines under every one of them.
package c10

import (
	"fmt"
	"strings"
	"time"

	"elkverif/internal/core"
	. "elkverif/internal/elkcore"
	"elkverif/internal/elkrun"
	"elkverif/prop/c13"
	"elkverif/prop/c14"
	"elkverif/prop/c15"
)

func init() {
	core.Register(&core.Check{ID: "C10", Level: "model_checking", Run: run})
}

func run(c *core.Ctx) error {
	var progs []M
	id := 0
	for _, d := range []int{10, 100, 300, 600, 900} {
		id++
		progs = append(progs, c13.Dormant(id, d))
	}
	cl := c13.Corpus(c.Rand, c.Pick(60, 600), id+1, 400)
	progs = append(progs, cl...)
	id += len(cl)
	ga := c15.Corpus(c, 1, c.Pick(10, 100), id+1)
	progs = append(progs, ga...)
	id += len(ga)
	chains := c14.AllChains(2)
	for _, i := range c.SampleIdx(len(chains), c.Pick(60, 225)) {
		id++
		progs = append(progs, c14.Spine(id, chains[i], c14.Exit{Kind: "return"}))
	}
	MaxSteps = 40000
	c.Logf("instance: %d programs (recursion, closures, generators/async, control flow)", len(progs))

	cfgs := []*elkrun.Cfg{
		{InitStackSlots: 400000, PoolSize: 2, QueueSize: 8}, // reference configuration: the value stack never grows
		{PoolSize: 2, QueueSize: 8},                         // the defaults
		{InitStackSlots: 64, PoolSize: 1, QueueSize: 1},
		{InitStackSlots: 32, PoolSize: 4, QueueSize: 2},
		{InitStackSlots: 128, CallStack: 2048, PoolSize: 1, QueueSize: 256},
		{InitStackSlots: 1000, MaxStackSlots: 20000, PoolSize: 3, QueueSize: 1},
	}
	if c.Thorough() {
		cfgs = append(cfgs,
			&elkrun.Cfg{InitStackSlots: 24, PoolSize: 2, QueueSize: 1},
			&elkrun.Cfg{InitStackSlots: 48, PoolSize: 1, QueueSize: 2},
			&elkrun.Cfg{InitStackSlots: 256, CallStack: 1500, PoolSize: 2, QueueSize: 3},
			&elkrun.Cfg{InitStackSlots: 4096, PoolSize: 8, QueueSize: 64},
		)
	}
	// the machine's prediction is configuration independent: TLC runs once
	for i := 0; i < len(progs); i += 20 {
		j := i + 20
		if j > len(progs) {
			j = len(progs)
		}
		EmitBatch(progs[i:j])
	}
	mr, err := Predict(c, progs, "C14.cfg", MaxSteps, 15*time.Minute)
	if err != nil {
		return err
	}
	c.Cov("states", int(mr.TLC.Distinct))
	c.Cov("transitions", int(mr.TLC.Generated))
	c.Cov("spec", "spec/ElkCore/ElkCore.tla (no stack capacity, pool size or queue capacity in the state: the observation cannot depend on them)")

	pool := c.NewPool(c.Workers)
	sig := func(rr *RealRun) string {
		switch {
		case rr.Res.GoPanic != "":
			return "go_panic: " + strings.SplitN(rr.Res.GoPanic, "\n", 2)[0]
		case rr.Res.Hung:
			return "hang"
		case !rr.Res.Accepted:
			return "rejected"
		case rr.Res.ErrClass != "":
			return "error " + rr.Res.ErrClass + " " + rr.Res.ErrMsg + " | " + strings.Join(rr.Lines, " | ")
		}
		return strings.Join(rr.Lines, " | ")
	}
	ref := RunReal(c, pool, progs, 20, cfgs[0])
	agreeModel, same, usable := 0, 0, 0
	for _, p := range progs {
		id := p["id"].(int)
		if ref[id].Broken != "" {
			return core.Inconclusivef("worker problem: %s", ref[id].Broken)
		}
		if o := mr.Obs[id]; o != nil && Diff(o.Lines(), ref[id].Lines) == "" && ref[id].Res.GoPanic == "" {
			agreeModel++
		}
	}
	for ci, cf := range cfgs[1:] {
		got := RunReal(c, pool, progs, 20, cf)
		for _, p := range progs {
			id := p["id"].(int)
			r0, r1 := ref[id], got[id]
			if r1.Broken != "" {
				return core.Inconclusivef("worker problem: %s", r1.Broken)
			}
			if r0.Res.GoPanic != "" || r0.Res.Hung || !r0.Res.Accepted {
				continue // not a usable reference (the defect, if any, belongs to another property)
			}
			usable++
			s0, s1 := sig(r0), sig(r1)
			if s0 == s1 {
				same++
				if same%499 == 1 {
					c.Sample(map[string]any{"desc": p["desc"], "config": cf, "output": s1})
				}
				continue
			}
			kind := "output_differs"
			if r1.Res.GoPanic != "" {
				kind = "go_panic"
			} else if r1.Res.Hung {
				kind = "hang"
			}
			rec := map[string]any{"kind": kind, "desc": p["desc"], "config": cf, "init_stack_slots": cf.InitStackSlots,
				"reference_config": cfgs[0], "reference": s0, "observed": s1, "program": p, "source": EmitBatch([]M{p}), "panic": r1.Res.GoPanic}
			rec["summary"] = fmt.Sprintf("%v under %+v\n  reference: %s\n  observed:  %s", p["desc"], *cf, s0, s1)
			c.Violation(rec)
		}
		c.Logf("configuration %d %+v done (%d comparisons so far, %d identical)", ci+1, *cf, usable, same)
	}
	c.Cov("configurations", len(cfgs))
	c.Cov("programs", len(progs))
	c.Cov("traces_validated_against_impl", same)
	c.Cov("reference_agrees_with_model", agreeModel)
	c.Logf("%d (program, configuration) comparisons, %d identical to the reference run; reference agrees with the model on %d of %d programs", usable, same, agreeModel, len(progs))
	if same == 0 {
		return core.Inconclusivef("nothing compared")
	}
	return nil
}
