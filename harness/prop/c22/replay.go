package c22

import (
	"encoding/json"
	"fmt"
	"runtime/debug"
	"sync"
	"time"

	"github.com/elk-language/elk"
	"github.com/elk-language/elk/value"
	"github.com/elk-language/elk/vm"

	"elkverif/internal/core"
	"elkverif/internal/elkrun"
)

// Val is a calendar value of spec/Calendar (record [k, y, m, d, sod, ns, off]).
type Val struct {
	K   string `json:"k"` // date | dt | err | any | none
	Y   int    `json:"y"`
	M   int    `json:"m"`
	D   int    `json:"d"`
	Sod int    `json:"sod"`
	Ns  int    `json:"ns"`
	Off int    `json:"off"` // zone offset in minutes
}

// SpanV is a span of spec/Calendar (record [k, mo, dy, sg, h, s, n]).
type SpanV struct {
	K  string `json:"k"` // dspan | tspan | dtspan
	Mo int    `json:"mo"`
	Dy int    `json:"dy"`
	Sg int    `json:"sg"`
	H  int    `json:"h"`
	S  int    `json:"s"`
	N  int    `json:"n"`
}

// Case is the part of a GEN record the real code needs.
type Case struct {
	Op   string          `json:"op"`
	From json.RawMessage `json:"from"`
	Arg  json.RawMessage `json:"arg"`
}

// Outcome is what the real code did.
type Outcome struct {
	K     string `json:"k"` // date | dt | err | panic | span_equal | span_differs
	V     Val    `json:"v"`
	Text  string `json:"text,omitempty"`  // formatted text (round trips)
	Text2 string `json:"text2,omitempty"` // text of the parsed-back span
	Err   string `json:"err,omitempty"`   // error class: message
	Stage string `json:"stage,omitempty"` // where the error / panic happened
}

func init() {
	core.RegisterJob("c22replay", func(p json.RawMessage) (any, error) {
		var cases []Case
		if err := json.Unmarshal(p, &cases); err != nil {
			return nil, err
		}
		setup()
		out := make([]Outcome, len(cases))
		for i := range cases {
			out[i] = runCase(&cases[i])
		}
		return out, nil
	})
}

var setupOnce sync.Once

func setup() {
	setupOnce.Do(func() {
		elkrun.Setup()
		elk.InitGlobalEnvironment()
	})
}

// ---- calling the natives the VM calls ----------------------------------------------------------

func native(c *value.Class, name string) vm.NativeFunction {
	m := c.LookupMethod(value.ToSymbol(name))
	if m == nil {
		panic(fmt.Sprintf("harness: no method %s#%s", c.Name, name))
	}
	nm, ok := m.(*vm.NativeMethod)
	if !ok {
		panic(fmt.Sprintf("harness: %s#%s is not native", c.Name, name))
	}
	return nm.Function
}

func singleton(c *value.Class, name string) vm.NativeFunction {
	return native(c.SingletonClass(), name)
}

type elkErr struct {
	stage string
	err   value.Value
}

// call invokes a native and panics with elkErr on an Elk error (caught in runCase).
func call(stage string, f vm.NativeFunction, args ...value.Value) value.Value {
	r, err := f(nil, args)
	if !err.IsUndefined() {
		panic(elkErr{stage, err})
	}
	return r
}

func i(n int) value.Value { return value.SmallInt(n).ToValue() }
func str(s string) value.Value { return value.Ref(value.String(s)) }

func mkDate(v Val) value.Value {
	return call("Date#init", native(value.DateClass, "#init"), value.Undefined, i(v.Y), i(v.M), i(v.D))
}

func mkStamp(v Val) value.Value {
	zone := value.Undefined
	if v.Off != 0 {
		zone = value.Ref(value.NewTimezoneFromOffset(value.TimeSpan(v.Off) * value.Minute))
	}
	return call("DateTime#init", native(value.DateTimeClass, "#init"), value.Undefined,
		i(v.Y), i(v.M), i(v.D), i(v.Sod/3600), i(v.Sod/60%60), i(v.Sod%60), i(0), i(0), i(v.Ns), zone)
}

func mkVal(v Val) value.Value {
	if v.K == "date" {
		return mkDate(v)
	}
	return mkStamp(v)
}

func intSpan(unit string, n int) value.Value {
	return call("Int#"+unit, native(value.IntClass, unit), i(n))
}

func clockSpan(c []int) value.Value {
	return call("Time::Span#init", native(value.TimeSpanClass, "#init"), value.Undefined,
		i(c[0]*24), i(0), i(c[1]), i(0), i(0), i(c[2]))
}

func readVal(v value.Value) Val {
	if v.IsDate() {
		d := v.AsDate()
		return Val{K: "date", Y: d.Year(), M: d.Month(), D: d.Day()}
	}
	if v.IsReference() {
		if t, ok := v.AsReference().(*value.DateTime); ok {
			return Val{K: "dt", Y: t.Year(), M: t.Month(), D: t.Day(),
				Sod: t.Hour()*3600 + t.Minute()*60 + t.Second(), Ns: t.NanosecondsInSecond(), Off: t.ZoneOffsetSeconds() / 60}
		}
	}
	return Val{K: "other:" + v.Class().Name}
}

func runCase(c *Case) (out Outcome) {
	defer func() {
		if r := recover(); r != nil {
			if e, ok := r.(elkErr); ok {
				cls, msg := elkrun.DescribeError(e.err)
				out = Outcome{K: "err", Err: cls + ": " + msg, Stage: e.stage, Text: out.Text}
				return
			}
			s := string(debug.Stack())
			if len(s) > 3000 {
				s = s[:3000]
			}
			out = Outcome{K: "panic", Err: fmt.Sprintf("%v\n%s", r, s)}
		}
	}()
	if c.Op == "rt_span" {
		return runSpan(c)
	}
	var from Val
	if err := json.Unmarshal(c.From, &from); err != nil {
		panic(err)
	}
	isDate := from.K == "date"
	cls := value.DateTimeClass
	if isDate {
		cls = value.DateClass
	}
	self := mkVal(from)
	pick := func(date, stamp string) vm.NativeFunction {
		if isDate {
			return native(value.DateClass, date)
		}
		return native(value.DateTimeClass, stamp)
	}
	ints := func() []int {
		var a []int
		if err := json.Unmarshal(c.Arg, &a); err != nil {
			panic(err)
		}
		return a
	}
	var res value.Value
	switch c.Op {
	case "add_days", "add_months", "add_years":
		span := intSpan(c.Op[4:], ints()[0])
		res = call("+", pick("+", "+@3"), self, span)
	case "sub_days", "sub_months", "sub_years":
		span := intSpan(c.Op[4:], ints()[0])
		res = call("-", pick("-", "-@3"), self, span)
	case "add_days_dyn": // DateTime#+ : the run-time dispatched entry point
		res = call("+ (dynamic)", native(value.DateTimeClass, "+"), self, intSpan("days", ints()[0]))
	case "sub_days_dyn":
		res = call("- (dynamic)", native(value.DateTimeClass, "-"), self, intSpan("days", ints()[0]))
	case "add_clock":
		res = call("+", native(value.DateTimeClass, "+@2"), self, clockSpan(ints()))
	case "sub_clock":
		res = call("-", native(value.DateTimeClass, "-@2"), self, clockSpan(ints()))
	case "diff_add":
		t := ints()
		target := Val{K: from.K, Y: t[0], M: t[1], D: t[2], Off: from.Off}
		if !isDate {
			target.Sod, target.Ns = t[3], t[4]
		}
		other := mkVal(target)
		diff := call("target - value", pick("-@1", "-@4"), other, self)
		res = call("value + difference", pick("+", "+@1"), self, diff)
	case "rt_to_string":
		text := call("to_string", native(cls, "to_string"), self)
		out.Text = string(text.AsReference().(value.String))
		res = call("parse", singleton(cls, "parse"), value.Ref(cls), text, value.Undefined)
	case "rt_format":
		var f string
		if err := json.Unmarshal(c.Arg, &f); err != nil {
			panic(err)
		}
		text := call("format", native(cls, "format"), self, str(f))
		out.Text = string(text.AsReference().(value.String))
		res = call("parse", singleton(cls, "parse"), value.Ref(cls), text, str(f))
	default:
		panic("harness: unknown op " + c.Op)
	}
	v := readVal(res)
	out.K = v.K
	out.V = v
	return out
}

func runSpan(c *Case) (out Outcome) {
	var s SpanV
	if err := json.Unmarshal(c.From, &s); err != nil {
		panic(err)
	}
	var cls *value.Class
	var self value.Value
	switch s.K {
	case "dspan":
		cls = value.DateSpanClass
		self = call("Date::Span#init", native(cls, "#init"), value.Undefined, i(0), i(s.Mo), i(s.Dy))
	case "tspan":
		cls = value.TimeSpanClass
		self = call("Time::Span#init", native(cls, "#init"), value.Undefined, i(s.Sg*s.H), i(0), i(s.Sg*s.S), i(0), i(0), i(s.Sg*s.N))
	case "dtspan":
		cls = value.DateTimeSpanClass
		self = call("DateTime::Span#init", native(cls, "#init"), value.Undefined, i(0), i(s.Mo), i(s.Dy), i(0), i(0), i(s.Sg*s.S), i(0), i(0), i(s.Sg*s.N))
	default:
		panic("harness: unknown span kind " + s.K)
	}
	text := call("to_string", native(cls, "to_string"), self)
	out.Text = string(text.AsReference().(value.String))
	back := call("parse", singleton(cls, "parse"), value.Ref(cls), text)
	text2 := call("to_string", native(cls, "to_string"), back)
	out.Text2 = string(text2.AsReference().(value.String))
	eq := call("==", native(cls, "=="), self, back)
	if value.Truthy(eq) {
		out.K = "span_equal"
	} else {
		out.K = "span_differs"
	}
	return out
}

// instant returns the absolute time a value denotes (dates: midnight UTC).
func (v Val) instant() time.Time {
	return time.Date(v.Y, time.Month(v.M), v.D, 0, 0, v.Sod, v.Ns, time.UTC).Add(-time.Duration(v.Off) * time.Minute)
}

func (v Val) String() string {
	switch v.K {
	case "date":
		return fmt.Sprintf("Date(%d, %d, %d)", v.Y, v.M, v.D)
	case "dt":
		return fmt.Sprintf("DateTime(%d-%02d-%02d %02d:%02d:%02d.%09d %+03d:%02d)", v.Y, v.M, v.D, v.Sod/3600, v.Sod/60%60, v.Sod%60, v.Ns, v.Off/60, abs(v.Off)%60)
	case "err":
		return "error"
	case "any":
		return "some unrelated value"
	}
	return v.K
}

func abs(n int) int {
	if n < 0 {
		return -n
	}
	return n
}
