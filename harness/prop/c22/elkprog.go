package c22

import (
	"encoding/json"
	"fmt"
	"strings"

	"elkverif/internal/core"
	"elkverif/internal/elkrun"
)

// End-to-end replay: a seeded sample of the GEN records is emitted as Elk source (the expressions a
// user would write: `Date(y, m, d) + n.days`, `Date.parse(d.strftime(f), f)`, ...) and run through
// the real checker, compiler and VM; the printed fields are judged exactly like the native replay.

const elkPrelude = `def pd(d: Date) then println "D #{d.year} #{d.month} #{d.day}"
def pt(t: DateTime) then println "T #{t.year} #{t.month} #{t.day} #{t.hour} #{t.minute} #{t.second} #{t.nanoseconds_in_second} #{t.zone_offset.total_seconds}"
def pb(b: bool) then println "B #{b}"
def t(s: String) then println s
`

func elkInt(n int) string {
	if n < 0 {
		return fmt.Sprintf("(%d)", n)
	}
	return fmt.Sprint(n)
}

func elkVal(v Val) string {
	if v.K == "date" {
		return fmt.Sprintf("Date(%d, %d, %d)", v.Y, v.M, v.D)
	}
	return fmt.Sprintf("DateTime(%d, %d, %d, %d, %d, %d, 0, 0, %d)", v.Y, v.M, v.D, v.Sod/3600, v.Sod/60%60, v.Sod%60, v.Ns)
}

func elkString(s string) string {
	r := strings.NewReplacer(`\`, `\\`, `"`, `\"`, "#", `\#`)
	return `"` + r.Replace(s) + `"`
}

// emit returns the Elk statements of one record ("" if the record is not expressible: zone offsets).
func emit(g *Gen) string {
	if g.Op == "rt_span" {
		var s SpanV
		json.Unmarshal(g.From, &s)
		var ctor, cls string
		switch s.K {
		case "dspan":
			cls, ctor = "Date::Span", fmt.Sprintf("Date::Span(0, %d, %d)", s.Mo, s.Dy)
		case "tspan":
			cls, ctor = "Time::Span", fmt.Sprintf("Time::Span(%d, 0, %d, 0, 0, %d)", s.Sg*s.H, s.Sg*s.S, s.Sg*s.N)
		case "dtspan":
			cls, ctor = "DateTime::Span", fmt.Sprintf("DateTime::Span(0, %d, %d, 0, 0, %d, 0, 0, %d)", s.Mo, s.Dy, s.Sg*s.S, s.Sg*s.N)
		}
		return fmt.Sprintf("  s := %s\n  pb(%s.parse(s.to_string) == s)\n", ctor, cls)
	}
	var from Val
	json.Unmarshal(g.From, &from)
	if from.Off != 0 {
		return ""
	}
	pr, cls := "pt", "DateTime"
	if from.K == "date" {
		pr, cls = "pd", "Date"
	}
	var ints []int
	var text string
	if json.Unmarshal(g.Arg, &ints) != nil {
		json.Unmarshal(g.Arg, &text)
	}
	v := elkVal(from)
	switch g.Op {
	case "add_days", "add_months", "add_years":
		return fmt.Sprintf("  %s(%s + %s.%s)\n", pr, v, elkInt(ints[0]), g.Op[4:])
	case "sub_days", "sub_months", "sub_years":
		return fmt.Sprintf("  %s(%s - %s.%s)\n", pr, v, elkInt(ints[0]), g.Op[4:])
	case "add_days_dyn", "sub_days_dyn":
		op := "+"
		if g.Op == "sub_days_dyn" {
			op = "-"
		}
		return fmt.Sprintf("  var s: Date::Span | Time::Span = %s.days\n  %s(%s %s s)\n", elkInt(ints[0]), pr, v, op)
	case "add_clock", "sub_clock":
		op := "+"
		if g.Op == "sub_clock" {
			op = "-"
		}
		return fmt.Sprintf("  %s(%s %s Time::Span(%d, 0, %d, 0, 0, %d))\n", pr, v, op, ints[0]*24, ints[1], ints[2])
	case "diff_add":
		target := Val{K: from.K, Y: ints[0], M: ints[1], D: ints[2]}
		if from.K != "date" {
			target.Sod, target.Ns = ints[3], ints[4]
		}
		return fmt.Sprintf("  a := %s\n  b := %s\n  %s(a + (b - a))\n", v, elkVal(target), pr)
	case "rt_to_string":
		return fmt.Sprintf("  v := %s\n  %s(%s.parse(v.to_string))\n", v, pr, cls)
	case "rt_format":
		f := elkString(text)
		return fmt.Sprintf("  v := %s\n  %s(%s.parse(v.strftime(%s), %s))\n", v, pr, cls, f, f)
	}
	return ""
}

func elkSource(gens []*Gen, ids []int) string {
	var b strings.Builder
	b.WriteString(elkPrelude)
	for k, g := range gens {
		fmt.Fprintf(&b, "t(\"@case %d\")\ndo\n%scatch e\n  t(\"E\")\nend\n", ids[k], emit(g))
	}
	return b.String()
}

// parseElkOutcome turns the lines printed for one case into an Outcome.
func parseElkOutcome(lines []string) (Outcome, bool) {
	if len(lines) != 1 {
		return Outcome{}, false
	}
	l := lines[0]
	var v Val
	switch {
	case l == "E":
		return Outcome{K: "err", Err: "an error was thrown", Stage: "Elk program"}, true
	case l == "B true":
		return Outcome{K: "span_equal"}, true
	case l == "B false":
		return Outcome{K: "span_differs"}, true
	case strings.HasPrefix(l, "D "):
		if n, _ := fmt.Sscanf(l, "D %d %d %d", &v.Y, &v.M, &v.D); n != 3 {
			return Outcome{}, false
		}
		v.K = "date"
		return Outcome{K: "date", V: v}, true
	case strings.HasPrefix(l, "T "):
		var h, mi, s, off int
		if n, _ := fmt.Sscanf(l, "T %d %d %d %d %d %d %d %d", &v.Y, &v.M, &v.D, &h, &mi, &s, &v.Ns, &off); n != 8 {
			return Outcome{}, false
		}
		v.K, v.Sod, v.Off = "dt", h*3600+mi*60+s, off/60
		return Outcome{K: "dt", V: v}, true
	}
	return Outcome{}, false
}

func runElkSample(c *core.Ctx, sample []*Gen, ta *tally) error {
	var gens []*Gen
	for _, g := range sample {
		if emit(g) != "" {
			gens = append(gens, g)
		}
	}
	if len(gens) == 0 {
		return core.Inconclusivef("no record could be emitted as an Elk program")
	}
	const per = 40
	pool := c.NewPool(c.Workers, "TZ=UTC")
	type batch struct {
		lo, hi int
	}
	runBatches := func(bs []batch) ([]core.JobResult, []string) {
		var jobs []core.Job
		var srcs []string
		for _, b := range bs {
			ids := make([]int, b.hi-b.lo)
			for k := range ids {
				ids[k] = b.lo + k
			}
			src := elkSource(gens[b.lo:b.hi], ids)
			srcs = append(srcs, src)
			jobs = append(jobs, core.Job{Kind: "elk", Payload: elkrun.Job{Src: src, RunMs: 20000}, TimeoutMs: 60000})
		}
		return pool.Map(jobs, nil), srcs
	}
	var bs []batch
	for lo := 0; lo < len(gens); lo += per {
		bs = append(bs, batch{lo, min(lo+per, len(gens))})
	}
	done := map[int]bool{}
	rejected := 0
	handle := func(bs []batch, final bool) ([]batch, error) {
		var retry []batch
		results, srcs := runBatches(bs)
		for bi, jr := range results {
			b := bs[bi]
			var r elkrun.Result
			switch {
			case jr.Crashed:
				r.GoPanic = "worker process died:\n" + jr.CrashLog
			case jr.Timeout:
				r.Hung = true
			case jr.Panic != "":
				r.GoPanic = jr.Panic
			case jr.Err != "":
				return nil, core.Inconclusivef("worker problem: %s", jr.Err)
			default:
				if err := jr.Decode(&r); err != nil {
					return nil, core.Inconclusivef("bad worker result: %v", err)
				}
			}
			per := splitCases(r.Stdout)
			clean := r.Accepted && r.GoPanic == "" && !r.Hung && r.ErrClass == "" && len(per) == b.hi-b.lo
			if !clean && !final {
				for k := b.lo; k < b.hi; k++ {
					retry = append(retry, batch{k, k + 1})
				}
				continue
			}
			for k := b.lo; k < b.hi; k++ {
				g := gens[k]
				done[k] = true
				switch {
				case r.GoPanic != "":
					judge(c, ta, g, &Outcome{K: "panic", Err: r.GoPanic}, "elk program")
				case r.Hung:
					judge(c, ta, g, &Outcome{K: "panic", Err: "the program did not terminate"}, "elk program")
				case !r.Accepted:
					rejected++
					if rejected <= 3 {
						c.Note("emitted program rejected by the checker: " + firstLine(r.Diags) + "\n" + srcs[bi])
					}
				default:
					o, ok := parseElkOutcome(per[k])
					if !ok {
						return nil, core.Inconclusivef("cannot read the output of case %d: %q (err %s %s)\n%s", k, per[k], r.ErrClass, r.ErrMsg, srcs[bi])
					}
					judge(c, ta, g, &o, "elk program")
				}
			}
		}
		return retry, nil
	}
	retry, err := handle(bs, false)
	if err != nil {
		return err
	}
	if len(retry) > 0 {
		if _, err := handle(retry, true); err != nil {
			return err
		}
	}
	c.Cov("elk_programs_cases", len(done))
	c.Logf("end-to-end: %d cases run as Elk programs (%d rejected)", len(done), rejected)
	if rejected*5 > len(gens) {
		return core.Inconclusivef("%d of %d emitted Elk cases were rejected by the checker", rejected, len(gens))
	}
	return nil
}

func splitCases(stdout string) map[int][]string {
	per := map[int][]string{}
	cur := -1
	for _, line := range strings.Split(strings.TrimRight(stdout, "\n"), "\n") {
		var id int
		if strings.HasPrefix(line, "@case ") {
			if n, _ := fmt.Sscanf(line, "@case %d", &id); n == 1 {
				cur = id
				per[cur] = []string{}
				continue
			}
		}
		if cur >= 0 {
			per[cur] = append(per[cur], line)
		}
	}
	return per
}
