// Package c22: calendar arithmetic is exact, never wraps, and formatting round-trips
// (spec/Calendar). TLC checks the calendar laws on the bounded instance and emits one GEN record
// per operation; every record is replayed on the natives of Std::Date, Std::DateTime and the span
// classes (the functions the VM calls) and a seeded sample again as Elk programs through the
// checker, compiler and VM.
package c22

import (
	"encoding/json"
	"fmt"
	"os"
	"path/filepath"
	"strings"
	"time"

	"elkverif/internal/core"
	"elkverif/internal/tlc"
)

func init() {
	core.Register(&core.Check{ID: "C22", Level: "model_checking", Run: run})
}

// Gen is one GEN record of spec/Calendar.
type Gen struct {
	Op   string          `json:"op"`
	From json.RawMessage `json:"from"`
	Arg  json.RawMessage `json:"arg"`
	Exp  []Val           `json:"exp"`
	Devs []struct {
		Name string `json:"name"`
		Out  Val    `json:"out"`
	} `json:"devs"`
}

type tally struct {
	compared, agree, known int
	byOp                   map[string]int
	sampled                map[string]bool
}

func run(c *core.Ctx) error {
	th := c.Thorough()
	devs := c.KnownDeviations()
	offsets := []int{0, 0, 120, -330, 345, 840, -720, -30, 30, -59, -1} // minutes; -59..-1: the sign is not carried by the hour part
	ta := &tally{byOp: map[string]int{}, sampled: map[string]bool{}}
	var elkSample []*Gen

	mags := []int{1, 28, 29, 30, 31, 365, 366, 146097}
	dates := startDates(th, c.Rand)
	arith := &instance{
		dates:      dates,
		stamps:     startStamps(th, []int{0, 0, 0, 120, -330}, c.Rand),
		daySpans:   signed(append([]int{7, 106751, 106752}, mags...)...),
		monthSpans: signed(append([]int{11, 12, 13}, mags...)...),
		yearSpans:  signed(mags...),
		clockSpans: [][]int{{0, 0, 1}, {0, 0, -1}, {0, 1, 0}, {0, -1, 0}, {0, 86399, 999999999}, {0, -86399, -999999999},
			{1, 0, 0}, {-1, 0, 0}, {0, 3600, 500000000}, {0, -45296, -123456789}, {365, 1, 1}, {-366, -1, -1},
			{106751, 0, 0}, {-106751, 0, 0}, {106751, 84436, 854775807}, {-106751, -84436, -854775807}, {36524, 43200, 0}, {-36525, -43199, -1}},
		targets:  diffTargets(th, c.Rand),
		maxDepth: 1, fmtLevel: -1, deviations: devs,
	}
	if err := runInstance(c, "arithmetic", arith, ta, &elkSample); err != nil {
		return err
	}

	ds, ts, dts := spanValues(th, c.Rand)
	rt := &instance{
		dates:  dates,
		stamps: startStamps(th, offsets, c.Rand),
		dspans: ds, tspans: ts, dtspans: dts,
		maxDepth: 0, fmtLevel: c.Pick(1, 2), deviations: devs,
	}
	if th && len(rt.dates) > 1000 {
		rt.dates = rt.dates[:1000]
	}
	if err := runInstance(c, "round trips", rt, ta, &elkSample); err != nil {
		return err
	}

	if th {
		// a longer walk (two operations in a row) over a small start set
		walk := &instance{
			dates:      startDates(false, c.Rand)[:160],
			stamps:     startStamps(false, []int{0}, c.Rand)[:40],
			daySpans:   signed(1, 31, 366, 146097),
			monthSpans: signed(1, 13),
			yearSpans:  signed(1, 400),
			clockSpans: [][]int{{0, 0, 1}, {0, -86399, -999999999}, {400, 1, 1}},
			targets:    diffTargets(false, c.Rand)[:8],
			maxDepth:   2, fmtLevel: -1, deviations: devs,
		}
		if err := runInstance(c, "walk of two operations", walk, ta, &elkSample); err != nil {
			return err
		}
	}

	if err := runElkSample(c, elkSample, ta); err != nil {
		return err
	}

	c.Cov("traces_validated_against_impl", ta.compared)
	c.Cov("agree", ta.agree)
	c.Cov("known_deviation_hits", ta.known)
	c.Cov("by_operation", ta.byOp)
	c.Cov("spec", "spec/Calendar/Calendar.tla + Calendar.cfg (TypeOK CalendarBijection ArithmeticExact DifferenceLaw RoundTripLaw SpanComponentsLaw on every reachable value)")
	c.Logf("compared=%d agree=%d known-deviation=%d violations=%d", ta.compared, ta.agree, ta.known, c.Violations())
	for _, op := range []string{"add_days", "sub_days", "add_days_dyn", "sub_days_dyn", "add_months", "sub_months", "add_years", "sub_years",
		"add_clock", "sub_clock", "diff_add", "rt_to_string", "rt_format", "rt_span"} {
		if ta.byOp[op] == 0 {
			return core.Inconclusivef("vacuous: no %s operation was generated and compared", op)
		}
	}
	if ta.agree == 0 {
		return core.Inconclusivef("nothing agreed with the real code: the binding is broken")
	}
	return nil
}

// runInstance model-checks one bounded instance and replays its GEN records on the real code while
// TLC is still running (records are flushed to the workers in blocks, so memory stays bounded).
func runInstance(c *core.Ctx, name string, in *instance, ta *tally, elkSample *[]*Gen) error {
	t0 := time.Now()
	if dir := os.Getenv("C22_DUMP_DIR"); dir != "" { // developer aid: keep the generated instance
		os.WriteFile(filepath.Join(dir, "MC_Calendar_"+strings.ReplaceAll(name, " ", "_")+".tla"), in.module(), 0o644)
	}
	pool := c.NewPool(c.Workers, "TZ=UTC") // Date uses the local zone: pin it
	var gens []*Gen
	var flushErr error
	total, replayS := 0, 0.0
	flush := func() {
		if len(gens) == 0 || flushErr != nil {
			gens = nil
			return
		}
		t1 := time.Now()
		flushErr = replay(c, pool, gens, ta)
		replayS += time.Since(t1).Seconds()
		// seeded sample for the end-to-end replay as Elk programs
		for _, idx := range c.SampleIdx(len(gens), 1+len(gens)/c.Pick(250, 900)) {
			*elkSample = append(*elkSample, gens[idx])
		}
		total += len(gens)
		gens = nil
	}
	res, err := tlc.Run(tlc.Opts{
		SpecDir: filepath.Join(core.VerifRoot, "spec", "Calendar"), Module: "MC_Calendar", Cfg: "Calendar.cfg",
		Scratch: c.Scratch, Workers: c.Workers, Timeout: time.Duration(c.Pick(400, 1300)) * time.Second, HeapMB: 6000,
		Extra: map[string][]byte{"MC_Calendar.tla": in.module()},
		OnGen: func(rec []byte) {
			g := &Gen{}
			if err := json.Unmarshal(rec, g); err != nil {
				if flushErr == nil {
					flushErr = core.Inconclusivef("bad GEN record: %v: %s", err, rec)
				}
				return
			}
			gens = append(gens, g)
			if len(gens) >= 60000 {
				flush()
			}
		},
	})
	if err != nil {
		return err
	}
	if !res.OK {
		if res.Verdict == "invariant" {
			// a law fails on the reference semantics itself: the model is wrong, not the code
			return core.Inconclusivef("spec/Calendar (%s): law %s does not hold on the model\n%s", name, res.What, tailStr(res.ErrorTrace, 3000))
		}
		return core.Inconclusivef("TLC on spec/Calendar (%s): verdict=%s %s\n%s", name, res.Verdict, res.What, tailStr(res.Output, 3000))
	}
	flush()
	if flushErr != nil {
		return flushErr
	}
	c.Logf("%s: TLC %d states generated, %d distinct, depth %d; %d GEN records replayed on the natives (%.1fs of %.1fs)",
		name, res.Generated, res.Distinct, res.Depth, total, replayS, time.Since(t0).Seconds())
	c.CovAdd("states", int(res.Distinct))
	c.CovAdd("transitions", int(res.Generated))
	if total == 0 {
		return core.Inconclusivef("%s: the specification generated no behaviour", name)
	}
	return nil
}

// replay runs the records on the natives, in chunks, inside crash-isolated workers, and judges them.
func replay(c *core.Ctx, pool *core.Pool, gens []*Gen, ta *tally) error {
	const chunk = 4000
	var jobs []core.Job
	for i := 0; i < len(gens); i += chunk {
		j := min(i+chunk, len(gens))
		cases := make([]Case, 0, j-i)
		for _, g := range gens[i:j] {
			cases = append(cases, Case{Op: g.Op, From: g.From, Arg: g.Arg})
		}
		jobs = append(jobs, core.Job{Kind: "c22replay", Payload: cases, TimeoutMs: 120000})
	}
	results := pool.Map(jobs, nil)
	for bi, jr := range results {
		lo := bi * chunk
		hi := min(lo+chunk, len(gens))
		var outs []Outcome
		switch {
		case jr.Crashed || jr.Timeout || jr.Panic != "":
			// attribute the failure to one case: re-run the chunk one case per job
			outs = make([]Outcome, hi-lo)
			var single []core.Job
			for _, g := range gens[lo:hi] {
				single = append(single, core.Job{Kind: "c22replay", Payload: []Case{{Op: g.Op, From: g.From, Arg: g.Arg}}, TimeoutMs: 20000})
			}
			for k, r := range pool.Map(single, nil) {
				var o []Outcome
				switch {
				case r.Crashed:
					outs[k] = Outcome{K: "panic", Err: "worker process died:\n" + r.CrashLog}
				case r.Timeout:
					outs[k] = Outcome{K: "panic", Err: "no answer within 20 s"}
				case r.Panic != "":
					outs[k] = Outcome{K: "panic", Err: r.Panic}
				case r.Err != "":
					return core.Inconclusivef("worker problem: %s", r.Err)
				default:
					if err := r.Decode(&o); err != nil || len(o) != 1 {
						return core.Inconclusivef("bad worker result: %v", err)
					}
					outs[k] = o[0]
				}
			}
		case jr.Err != "":
			return core.Inconclusivef("worker problem: %s", jr.Err)
		default:
			if err := jr.Decode(&outs); err != nil || len(outs) != hi-lo {
				return core.Inconclusivef("bad worker result (%d outcomes for %d cases): %v", len(outs), hi-lo, err)
			}
		}
		for k, g := range gens[lo:hi] {
			judge(c, ta, g, &outs[k], "native")
		}
	}
	return nil
}

// matches says whether the observed outcome is the expected value e.
func matches(e Val, o *Outcome) bool {
	switch e.K {
	case "any":
		return true
	case "err":
		return o.K == "err"
	case "date":
		return o.K == "date" && o.V.Y == e.Y && o.V.M == e.M && o.V.D == e.D
	case "dt":
		// the same value = the same instant (what Elk's == compares)
		return o.K == "dt" && o.V.instant().Equal(e.instant())
	case "dspan", "tspan", "dtspan":
		return o.K == "span_equal"
	}
	return false
}

// judge compares one observed outcome with what the specification allows.
func judge(c *core.Ctx, ta *tally, g *Gen, o *Outcome, via string) {
	ta.compared++
	ta.byOp[g.Op]++
	for _, e := range g.Exp {
		if matches(e, o) {
			ta.agree++
			if !ta.sampled[g.Op+via] && len(ta.sampled) < 6 {
				ta.sampled[g.Op+via] = true
				c.Sample(map[string]any{"op": g.Op, "via": via, "from": g.From, "arg": g.Arg, "expected": g.Exp, "observed": o})
			}
			return
		}
	}
	var exp []string
	for _, e := range g.Exp {
		if strings.HasSuffix(e.K, "span") {
			exp = append(exp, "an equal span")
		} else {
			exp = append(exp, e.String())
		}
	}
	rec := map[string]any{
		"kind": "wrong_result", "op": g.Op, "via": via, "from": g.From, "arg": g.Arg,
		"expected": g.Exp, "observed": o,
	}
	obs := o.V.String()
	switch o.K {
	case "panic":
		rec["kind"] = "go_panic"
		obs = "Go panic: " + firstLine(o.Err)
	case "err":
		obs = "error " + o.Err + " (in " + o.Stage + ")"
	case "span_differs":
		obs = fmt.Sprintf("%q parsed back as %q", o.Text, o.Text2)
	case "date", "dt":
		if o.Text != "" {
			obs = fmt.Sprintf("%q parsed back as %s", o.Text, o.V.String())
		}
	}
	if o.K != "panic" {
		for _, d := range g.Devs {
			if matches(d.Out, o) {
				rec["deviation"] = d.Name
				ta.known++
				break
			}
		}
	}
	rec["summary"] = fmt.Sprintf("%s from=%s arg=%s: spec allows %s, real code (%s): %s", g.Op, g.From, g.Arg, strings.Join(exp, " or "), via, obs)
	c.Violation(rec)
}

func firstLine(s string) string {
	if i := strings.IndexByte(s, '\n'); i >= 0 {
		return s[:i]
	}
	return s
}

func tailStr(s string, n int) string {
	if len(s) <= n {
		return s
	}
	return s[len(s)-n:]
}
