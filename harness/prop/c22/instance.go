package c22

import (
	"fmt"
	"math/rand"
	"sort"
	"strings"
)

// The bounded instance of spec/Calendar: boundary values the property's quantifier names (range
// boundaries, negative years, year 0, century and 400-year marks, every month end, leap days) plus
// seeded random values. Everything here is *input* to TLC; expected outcomes come from the spec.

const (
	minYear = -4194304
	maxYear = 4194303
)

type instance struct {
	dates      [][]int // y m d
	stamps     [][]int // y m d sod ns off
	daySpans   []int
	monthSpans []int
	yearSpans  []int
	clockSpans [][]int // days secs ns (one sign)
	targets    [][]int // y m d sod ns
	dspans     [][]int // months days
	tspans     [][]int // sign hours secs ns
	dtspans    [][]int // months days sign secs ns
	maxDepth   int
	fmtLevel   int
	deviations []string
}

func isLeap(y int) bool { return (y%4 == 0 && y%100 != 0) || y%400 == 0 }

func daysIn(y, m int) int {
	switch m {
	case 2:
		if isLeap(y) {
			return 29
		}
		return 28
	case 4, 6, 9, 11:
		return 30
	}
	return 31
}

var boundaryYears = []int{
	minYear, minYear + 1, minYear + 2, maxYear - 2, maxYear - 1, maxYear,
	0, 1, -1, 4, -4, 100, -100, 400, -400,
	-5, 5, 99, 999, 1000, 1582, 1600, 1899, 1900, 1970, 1999, 2000, 2020, 2023, 2024, 2038, 2100,
	9999, 10000, 12345, -9999, -10000, 99999, 292277, -292277,
}

func randomYear(r *rand.Rand) int {
	switch r.Intn(5) {
	case 0:
		return r.Intn(6001) - 3000
	case 1:
		return r.Intn(20001) - 10000
	case 2:
		return 1 + r.Intn(9999)
	case 3:
		return minYear + r.Intn(maxYear-minYear+1)
	default:
		if r.Intn(2) == 0 {
			return minYear + r.Intn(500)
		}
		return maxYear - r.Intn(500)
	}
}

func randomDate(r *rand.Rand) []int {
	y := randomYear(r)
	m := 1 + r.Intn(12)
	return []int{y, m, 1 + r.Intn(daysIn(y, m))}
}

func startDates(thorough bool, r *rand.Rand) [][]int {
	seen := map[string]bool{}
	var out [][]int
	add := func(y, m, d int) {
		if d > daysIn(y, m) {
			d = daysIn(y, m)
		}
		k := fmt.Sprint(y, m, d)
		if !seen[k] {
			seen[k] = true
			out = append(out, []int{y, m, d})
		}
	}
	for yi, y := range boundaryYears {
		if !thorough && yi >= 15 && yi%2 == 0 {
			continue // quick: the range boundaries, 0, +-1, +-4, +-100, +-400 and every other ordinary year
		}
		if thorough {
			for m := 1; m <= 12; m++ {
				add(y, m, 1)
				add(y, m, 31)
			}
			add(y, 2, 28)
			for d := 2; d <= 7; d++ {
				add(y, 1, d)
			}
			for d := 24; d <= 30; d++ {
				add(y, 12, d)
			}
			add(y, 3, 30)
			add(y, 5, 15)
		} else {
			for _, md := range [][2]int{{1, 1}, {1, 31}, {2, 29}, {3, 1}, {3, 31}, {12, 31}} {
				add(y, md[0], md[1])
			}
		}
		m := 1 + r.Intn(12)
		add(y, m, 1+r.Intn(daysIn(y, m)))
	}
	n := 40
	if thorough {
		n = 800
	}
	for k := 0; k < n; k++ {
		d := randomDate(r)
		add(d[0], d[1], d[2])
	}
	return out
}

var clocks = [][]int{{0, 0}, {1, 1}, {3600, 5}, {43200, 0}, {86399, 999999999}, {45296, 123456789}, {0, 1000}, {7322, 500000000}, {46800, 250000}}

func startStamps(thorough bool, offsets []int, r *rand.Rand) [][]int {
	years := []int{0, 1, -1, 4, -5, 100, 1582, 1900, 1970, 1999, 2000, 2020, 2024, 2038, 9999, 10000, 12345, -9999, 99999}
	var out [][]int
	seen := map[string]bool{}
	add := func(y, m, d, sod, ns, off int) {
		if d > daysIn(y, m) {
			d = daysIn(y, m)
		}
		k := fmt.Sprint(y, m, d, sod, ns, off)
		if !seen[k] {
			seen[k] = true
			out = append(out, []int{y, m, d, sod, ns, off})
		}
	}
	for i, y := range years {
		if !thorough && i%2 == 1 {
			continue
		}
		mds := [][2]int{{1, 1}, {2, 29}, {12, 31}}
		if thorough {
			mds = [][2]int{{1, 1}, {1, 31}, {2, 28}, {2, 29}, {3, 31}, {6, 30}, {10, 31}, {12, 31}}
		}
		for j, md := range mds {
			c := clocks[(i+j)%len(clocks)]
			add(y, md[0], md[1], c[0], c[1], offsets[(i+j)%len(offsets)])
			c = clocks[r.Intn(len(clocks))]
			add(y, md[0], md[1], c[0], c[1], offsets[r.Intn(len(offsets))])
		}
	}
	n := 24
	if thorough {
		n = 300
	}
	for k := 0; k < n; k++ {
		y := r.Intn(20001) - 10000
		m := 1 + r.Intn(12)
		ns := []int{0, r.Intn(1000) * 1000000, r.Intn(1000000) * 1000, r.Intn(1000000000)}[r.Intn(4)]
		add(y, m, 1+r.Intn(daysIn(y, m)), r.Intn(86400), ns, offsets[r.Intn(len(offsets))])
	}
	return out
}

func signed(mags ...int) []int {
	var out []int
	for _, m := range mags {
		out = append(out, m, -m)
	}
	return out
}

func diffTargets(thorough bool, r *rand.Rand) [][]int {
	out := [][]int{
		{2020, 1, 31, 0, 0}, {2020, 2, 1, 1, 1}, {2020, 2, 29, 86399, 999999999}, {2020, 3, 31, 43200, 0},
		{2019, 12, 31, 3600, 5}, {2021, 2, 28, 0, 1}, {0, 1, 1, 0, 0}, {-1, 12, 31, 45296, 123456789},
		{maxYear, 12, 31, 0, 0}, {minYear, 1, 1, 0, 0}, {1999, 12, 31, 86399, 0}, {2000, 1, 1, 0, 0},
	}
	n := 4
	if thorough {
		n = 48
	}
	for k := 0; k < n; k++ {
		d := randomDate(r)
		c := clocks[r.Intn(len(clocks))]
		out = append(out, []int{d[0], d[1], d[2], c[0], c[1]})
	}
	return out
}

func spanValues(thorough bool, r *rand.Rand) (ds, ts, dts [][]int) {
	months := []int{0, 1, -1, 11, -11, 12, -12, 13, -13, 100, -2400, 2147483647, -2147483647}
	days := []int{0, 1, -1, 30, -31, 366, 2147483647, -2147483647}
	for _, m := range months {
		for _, d := range days {
			ds = append(ds, []int{m, d})
		}
	}
	hours := []int{0, 1, 23, 24, 25, 1000, 2562047}
	secs := []int{0, 1, 59, 60, 61, 3599}
	nss := []int{0, 1, 999, 1000, 999999, 1000000, 123456789, 999999999}
	for _, h := range hours {
		for _, s := range secs {
			for _, n := range nss {
				if (!thorough && (h+s+n)%3 != 0) || (h == 2562047 && s > 2000) {
					continue // (2562047 h 47 min 16.85 s is the largest Time::Span)
				}
				for _, sg := range []int{1, -1} {
					ts = append(ts, []int{sg, h, s, n})
				}
			}
		}
	}
	for _, m := range []int{0, 1, -13, 2147483647} {
		for _, d := range []int{0, 1, -1, 400, -2147483647} {
			for _, s := range []int{0, 1, 3661, 86399} {
				for _, n := range []int{0, 1, 999999999, 1001000} {
					for _, sg := range []int{1, -1} {
						if !thorough && (m+d+s+n)%2 != 0 {
							continue
						}
						dts = append(dts, []int{m, d, sg, s, n})
					}
				}
			}
		}
	}
	k := 20
	if thorough {
		k = 400
	}
	for j := 0; j < k; j++ {
		ds = append(ds, []int{r.Intn(200001) - 100000, r.Intn(200001) - 100000})
		ts = append(ts, []int{1 - 2*r.Intn(2), r.Intn(2562047), r.Intn(3600), r.Intn(1000000000)})
		dts = append(dts, []int{r.Intn(2001) - 1000, r.Intn(2001) - 1000, 1 - 2*r.Intn(2), r.Intn(86400), r.Intn(1000000000)})
	}
	return
}

// ---- TLA+ text -------------------------------------------------------------------------------

func tlaTuple(t []int) string {
	s := make([]string, len(t))
	for i, x := range t {
		s[i] = fmt.Sprint(x)
	}
	return "<<" + strings.Join(s, ", ") + ">>"
}

func tlaTupleSet(ts [][]int) string {
	s := make([]string, len(ts))
	for i, t := range ts {
		s[i] = tlaTuple(t)
	}
	return "{" + strings.Join(s, ", ") + "}"
}

func tlaIntSet(xs []int) string {
	s := make([]string, len(xs))
	for i, x := range xs {
		s[i] = fmt.Sprint(x)
	}
	return "{" + strings.Join(s, ", ") + "}"
}

func (in *instance) module() []byte {
	var b strings.Builder
	b.WriteString("---- MODULE MC_Calendar ----\nEXTENDS Calendar\n")
	fmt.Fprintf(&b, "MCStartDates == %s\n", tlaTupleSet(in.dates))
	fmt.Fprintf(&b, "MCStartStamps == %s\n", tlaTupleSet(in.stamps))
	fmt.Fprintf(&b, "MCDaySpans == %s\n", tlaIntSet(in.daySpans))
	fmt.Fprintf(&b, "MCMonthSpans == %s\n", tlaIntSet(in.monthSpans))
	fmt.Fprintf(&b, "MCYearSpans == %s\n", tlaIntSet(in.yearSpans))
	fmt.Fprintf(&b, "MCClockSpans == %s\n", tlaTupleSet(in.clockSpans))
	fmt.Fprintf(&b, "MCTargets == %s\n", tlaTupleSet(in.targets))
	fmt.Fprintf(&b, "MCDateSpanVals == %s\n", tlaTupleSet(in.dspans))
	fmt.Fprintf(&b, "MCTimeSpanVals == %s\n", tlaTupleSet(in.tspans))
	fmt.Fprintf(&b, "MCStampSpanVals == %s\n", tlaTupleSet(in.dtspans))
	fmt.Fprintf(&b, "MCMaxDepth == %d\nMCFormatLevel == %d\n", in.maxDepth, in.fmtLevel)
	devs := append([]string{}, in.deviations...)
	sort.Strings(devs)
	for i := range devs {
		devs[i] = fmt.Sprintf("%q", devs[i])
	}
	fmt.Fprintf(&b, "MCDeviations == {%s}\n====\n", strings.Join(devs, ", "))
	return []byte(b.String())
}
