// Package c17: hash maps, hash records and hash sets behave as finite maps and sets.
//
// spec/HashColl/HashColl.tla is a two-layer model (abstract finite maps + the open-addressing table of
// vm/hash_map.go / vm/hash_set.go). TLC checks the refinement invariants on every history of the
// bounded instances and emits one record per transition; every record is replayed against the real
// Go API (real tables driven with keys that impose the model's hash function, and the native Go-map
// backed variants) and, through generated Elk programs, against the user-visible operations. The
// abstract layer is the oracle. Differences are then explained - or not - by executing the same
// history on the specification with the recorded deviations switched on (a model of the actual code).
package c17

import (
	"fmt"
	"os"
	"sort"
	"strings"
	"time"

	"elkverif/internal/core"
)

func init() {
	core.Register(&core.Check{ID: "C17", Level: "model_checking", Run: run})
}

var mapPrimary = []Config{
	{[2]string{"MapOV", "MapOV"}, "obj"},
	{[2]string{"MapOV", "MapOV"}, "int"},
	{[2]string{"RecOV", "RecOV"}, "str"},
	{[2]string{"MapOV", "RecOV"}, "mixed"},
}
var mapSecondary = []Config{
	{[2]string{"MapOV", "MapOV"}, "big"},
	{[2]string{"RecOV", "MapOV"}, "float"},
	{[2]string{"NKMapStr", "NKMapStr"}, "str"},
	{[2]string{"NMapStrI64", "NMapStrI64"}, "str"},
	{[2]string{"NKMapStr", "MapOV"}, "str"},
	{[2]string{"MapOV", "NMapStrI64"}, "str"},
	{[2]string{"NKRecStr", "NKRecStr"}, "str"},
	{[2]string{"NRecStrI64", "NRecStrI64"}, "str"},
	{[2]string{"NRecStrI64", "RecOV"}, "str"},
	{[2]string{"NKMapSym", "NKMapSym"}, "sym"},
	{[2]string{"NMapSymI64", "MapOV"}, "sym"},
	{[2]string{"NKMapI64", "NKMapI64"}, "i64"},
	{[2]string{"NKMapFloat", "MapOV"}, "float"},
}
var setPrimary = []Config{
	{[2]string{"SetOV", "SetOV"}, "obj"},
	{[2]string{"SetOV", "SetOV"}, "int"},
	{[2]string{"SetOV", "SetOV"}, "mixed"},
}
var setSecondary = []Config{
	{[2]string{"SetOV", "SetOV"}, "str"},
	{[2]string{"NSetStr", "NSetStr"}, "str"},
	{[2]string{"NSetStr", "SetOV"}, "str"},
	{[2]string{"SetOV", "NSetSym"}, "sym"},
	{[2]string{"NSetI64", "NSetI64"}, "i64"},
}

func instances(c *core.Ctx) []*Instance {
	caps := [][2]int{{0, 0}, {3, 2}}
	capsRec := [][2]int{{0, 0}, {1, 1}, {2, 1}} // {1,1}, {2,1}: the capacities of 1- and 2-pair record literals
	collide3 := []int{0, 0, 0}
	wrap3 := []int{M - 1, M - 1, 0} // keys 1,2 hash to the last slot of every table, key 3 to the first
	var out []*Instance
	if !c.Thorough() {
		out = append(out,
			&Instance{Name: "map-collide", Kind: "map", NKeys: 3, Vals: []int{1, 2}, Hash: collide3, Caps0: capsRec, MaxOps: 4},
			&Instance{Name: "map-wrap", Kind: "map", NKeys: 3, Vals: []int{1, 2}, Hash: wrap3, Caps0: caps, MaxOps: 3},
			&Instance{Name: "set-collide", Kind: "set", NKeys: 3, Vals: []int{1}, Hash: collide3, Caps0: caps, MaxOps: 4},
			&Instance{Name: "set-wrap", Kind: "set", NKeys: 3, Vals: []int{1}, Hash: wrap3, Caps0: caps, MaxOps: 3},
			// three colliding members, two removals, a lookup: the shortest history in which a probe run is cut behind two deleted slots
			&Instance{Name: "set-collide5", Kind: "set", NKeys: 3, Vals: []int{1}, Hash: collide3, Caps0: [][2]int{{0, 0}}, MaxOps: 5},
			&Instance{Name: "map-sim", Kind: "map", NKeys: 4, Vals: []int{1, 2}, Hash: []int{0, 5, M - 1, 0}, Caps0: [][2]int{{0, 0}, {2, 5}, {3, 1}}, MaxOps: 10, Simulate: 15},
			&Instance{Name: "set-sim", Kind: "set", NKeys: 4, Vals: []int{1}, Hash: []int{0, 5, M - 1, 0}, Caps0: [][2]int{{0, 0}, {2, 5}, {3, 1}}, MaxOps: 10, Simulate: 15},
		)
		return out
	}
	out = append(out,
		&Instance{Name: "map-collide", Kind: "map", NKeys: 3, Vals: []int{1, 2}, Hash: collide3, Caps0: [][2]int{{0, 0}}, MaxOps: 5},
		&Instance{Name: "map-collide32", Kind: "map", NKeys: 3, Vals: []int{1, 2}, Hash: collide3, Caps0: [][2]int{{3, 2}}, MaxOps: 4},
		&Instance{Name: "map-reclit", Kind: "map", NKeys: 3, Vals: []int{1, 2}, Hash: collide3, Caps0: [][2]int{{1, 1}, {2, 1}}, MaxOps: 4},
		&Instance{Name: "map-wrap", Kind: "map", NKeys: 3, Vals: []int{1, 2}, Hash: wrap3, Caps0: caps, MaxOps: 4},
		&Instance{Name: "map-distinct", Kind: "map", NKeys: 3, Vals: []int{1, 2}, Hash: []int{0, 1, 2}, Caps0: [][2]int{{0, 0}, {1, 5}}, MaxOps: 4},
		&Instance{Name: "map-4keys", Kind: "map", NKeys: 4, Vals: []int{1}, Hash: []int{0, 0, M - 1, 5}, Caps0: [][2]int{{0, 0}, {4, 1}}, MaxOps: 4},
		&Instance{Name: "set-collide", Kind: "set", NKeys: 3, Vals: []int{1}, Hash: collide3, Caps0: caps, MaxOps: 5},
		&Instance{Name: "set-wrap", Kind: "set", NKeys: 3, Vals: []int{1}, Hash: wrap3, Caps0: caps, MaxOps: 5},
		&Instance{Name: "set-4keys", Kind: "set", NKeys: 4, Vals: []int{1}, Hash: []int{0, 0, M - 1, 5}, Caps0: [][2]int{{0, 0}, {4, 1}}, MaxOps: 4},
		&Instance{Name: "map-sim", Kind: "map", NKeys: 4, Vals: []int{1, 2}, Hash: []int{0, 5, M - 1, 0}, Caps0: [][2]int{{0, 0}, {2, 5}, {3, 1}}, MaxOps: 16, Simulate: 150},
		&Instance{Name: "map-sim5", Kind: "map", NKeys: 5, Vals: []int{1, 2}, Hash: []int{0, 0, 0, 4, M - 1}, Caps0: [][2]int{{0, 0}, {5, 5}}, MaxOps: 20, Simulate: 80},
		&Instance{Name: "set-sim", Kind: "set", NKeys: 5, Vals: []int{1}, Hash: []int{0, 0, 0, 4, M - 1}, Caps0: [][2]int{{0, 0}, {2, 5}, {3, 1}}, MaxOps: 20, Simulate: 120},
	)
	return out
}

// a replay unit: one history under one configuration
type unit struct {
	inst  *Instance
	cfg   Config
	rec   *GenRec
	fault Fault // fault stage only
}

type mismatch struct {
	u      unit
	got    Obs
	fields []string
	detail []string
}

type instData struct {
	inst  *Instance
	recs  []GenRec
	byKey map[string]*GenRec
}

func run(c *core.Ctx) error {
	insts := instances(c)
	devs := c.KnownDeviations()
	sort.Strings(devs)
	var data []*instData
	totalStates, totalTrans := 0, 0
	t0 := time.Now()
	for i, in := range insts {
		recs, res, err := generate(c, in, devs, os.Getenv("C17_COVERAGE") != "" && i == 0)
		if err != nil {
			return err
		}
		d := &instData{inst: in, recs: recs, byKey: map[string]*GenRec{}}
		for ri := range recs {
			b := recs[ri].Beh()
			k := b.Key()
			if _, dup := d.byKey[k]; !dup {
				d.byKey[k] = &recs[ri]
			}
		}
		data = append(data, d)
		c.Logf("TLC %-12s %s keys=%d hash=%v maxops=%d sim=%d: %d states generated, %d distinct, %d histories, %.1fs",
			in.Name, in.Kind, in.NKeys, in.Hash, in.MaxOps, in.Simulate, res.Generated, res.Distinct, len(recs), res.WallS)
		if in.Simulate == 0 {
			totalStates += int(res.Distinct)
			totalTrans += int(res.Generated)
		} else {
			c.CovAdd("simulated_steps", len(recs))
		}
		if len(res.ActionCov) > 0 && res.ActionCov["Next"] == 0 {
			return core.Inconclusivef("coverage: action Next never fired on instance %s (vacuous model)", in.Name)
		}
		if len(recs) == 0 {
			return core.Inconclusivef("TLC emitted no history for instance %s", in.Name)
		}
	}
	c.Cov("states", totalStates)
	c.Cov("transitions", totalTrans)
	c.Cov("spec", "spec/HashColl/HashColl.tla + Gen.cfg: invariants Refines OneSlotPerKey Counts LookupAgrees Findable EqAgrees NoPanic ResAgrees ActualIsIntended on every state")
	c.Cov("deviations_in_actual_layer", devs)
	c.Cov("instances", insts)
	c.Logf("model checking done in %.1fs: %d distinct states, %d transitions", time.Since(t0).Seconds(), totalStates, totalTrans)

	pool := c.NewPool(c.Workers)
	if os.Getenv("C17_ONLY_ELK") != "" { // developer aid
		return elkLevel(c, pool, data)
	}
	// ---- API-level replay
	var units []unit
	perPrimary := c.Pick(15000, 60000)
	perSecondary := c.Pick(1500, 6000)
	for _, d := range data {
		prim, sec := mapPrimary, mapSecondary
		if d.inst.Kind == "set" {
			prim, sec = setPrimary, setSecondary
		}
		for _, cfg := range prim {
			for _, i := range c.SampleIdx(len(d.recs), perPrimary) {
				units = append(units, unit{inst: d.inst, cfg: cfg, rec: &d.recs[i]})
			}
		}
		for _, cfg := range sec {
			for _, i := range c.SampleIdx(len(d.recs), perSecondary) {
				units = append(units, unit{inst: d.inst, cfg: cfg, rec: &d.recs[i]})
			}
		}
	}
	c.Logf("API replay: %d (history, implementation) units", len(units))
	t1 := time.Now()
	got, err := replayUnits(c, pool, units, false)
	if err != nil {
		return err
	}
	c.Logf("API replay done in %.1fs", time.Since(t1).Seconds())
	var unexplained []mismatch
	compared, skipped, layCmp, layDrift, agree, known := 0, 0, 0, 0, 0, 0
	cfgCount := map[string]int{}
	knownPerDev := map[string]int{}
	for i, u := range units {
		g := got[i].Last
		if g.Skip != "" {
			skipped++
			continue
		}
		compared++
		cfgCount[u.cfg.String()]++
		nops := len(u.rec.Ops)
		fields, detail := compareObs(u.inst, &u.rec.Last.Exp, &g, nops)
		// binding: is the real table laid out like the actual layer's table?
		if g.Panic == "" && g.Err == "" && !strings.HasPrefix(u.cfg.Impl[0], "N") && !strings.HasPrefix(u.cfg.Impl[1], "N") {
			lc, ld := compareLayout(&u.rec.Last.Act, &g)
			layCmp += lc
			layDrift += ld
			if ld > 0 && layDrift <= 3 {
				b := u.rec.Beh()
				c.Note(fmt.Sprintf("layout differs from the model's: [%s] %s: real %v, model %v", u.cfg, b.Text(), g.Lay, u.rec.Last.Act.Lay))
			}
		}
		if len(fields) == 0 {
			agree++
			if agree%20011 == 1 {
				b := u.rec.Beh()
				c.Sample(map[string]any{"level": "api", "impl": u.cfg.String(), "instance": u.inst.Name, "history": b.Text(),
					"expected_and_observed": map[string]any{"len": g.Len, "get": g.Get, "eq": g.Eq, "iter": g.It}, "real_table": g.Lay, "model_table": u.rec.Last.Act.Lay})
			}
			continue
		}
		// the abstract layer disagrees with the real code: does the actual layer (recorded deviations) predict it?
		if predictedByActual(u.inst, u.rec, &u.rec.Last.Act, &g, nops) {
			known++
			dev := devTag(u.rec.Fired, fields)
			knownPerDev[dev]++
			if knownPerDev[dev] <= 40 {
				b := u.rec.Beh()
				c.Violation(map[string]any{
					"level": "api", "kind": fields[0], "fields": strings.Join(uniq(fields), ","), "impl": u.cfg.String(),
					"types": strings.Join(g.Types[:], ","), "collection": u.inst.Kind, "instance": u.inst.Name, "hash": u.inst.Hash,
					"caps": b.Caps, "ops": b.Ops, "history": b.Text(), "observed": g, "deviation": dev, "explained": "actual_layer",
					"summary": fmt.Sprintf("%s [%s] %s\n  %s", u.inst.Kind, u.cfg, b.Text(), strings.Join(detail, "\n  ")),
				})
			}
			continue
		}
		if dev, ok := knownInNativeMix(devs, u, &g); ok {
			known++
			knownPerDev[dev+" (native mix)"]++
			if knownPerDev[dev+" (native mix)"] <= 40 {
				b := u.rec.Beh()
				c.Violation(map[string]any{
					"level": "api", "kind": fields[0], "fields": strings.Join(uniq(fields), ","), "impl": u.cfg.String(),
					"types": strings.Join(g.Types[:], ","), "collection": u.inst.Kind, "instance": u.inst.Name, "hash": u.inst.Hash,
					"caps": b.Caps, "ops": b.Ops, "history": b.Text(), "observed": g, "deviation": dev, "explained": "native_mix_field_rules",
					"summary": fmt.Sprintf("%s [%s] %s\n  %s", u.inst.Kind, u.cfg, b.Text(), strings.Join(detail, "\n  ")),
				})
			}
			continue
		}
		unexplained = append(unexplained, mismatch{u: u, got: g, fields: fields, detail: detail})
	}
	c.CovAdd("traces_validated_against_impl", compared)
	c.Cov("api_units_per_config", cfgCount)
	c.Cov("api_agree_with_abstract_layer", agree)
	c.Cov("api_differences_predicted_by_recorded_deviations", knownPerDev)
	c.Cov("api_skipped_no_such_operation", skipped)
	c.Cov("layout_tables_compared", layCmp)
	c.Cov("layout_tables_differing", layDrift)
	c.Logf("API replay: %d compared (%d agree with the abstract layer, %d differ exactly as the recorded deviations predict %v, %d unexplained), %d skipped; real table layout equal to the model's in %d of %d tables",
		compared, agree, known, knownPerDev, len(unexplained), skipped, layCmp-layDrift, layCmp)
	if compared == 0 {
		return core.Inconclusivef("nothing was compared")
	}
	if skipped*2 > len(units) {
		return core.Inconclusivef("%d of %d units skipped: the generator left the implementations' domain", skipped, len(units))
	}
	if err := reportUnexplained(c, pool, data, unexplained); err != nil {
		return err
	}

	if err := faultStage(c, pool, data); err != nil {
		return err
	}

	// ---- Elk-level replay
	return elkLevel(c, pool, data)
}

// faultStage: atomicity under key faults. Histories of the specification are replayed on the table
// implementations with keys of a user-defined class; during the LAST operation the hash or the == of
// one model key raises (a crash point inside Index / SetCapacity / Copy ...). The abstract layer says
// what is allowed: an operation that reports the error is a stuttering step of the abstract map (the
// state predicted for the history without its last operation), an operation that completes is the
// full step (the state predicted for the whole history). Anything else - pairs lost, a half-moved
// table, counters out of step - is a violation.
func faultStage(c *core.Ctx, pool *core.Pool, data []*instData) error {
	var units []unit
	var pres []*GenRec
	perCfg := c.Pick(2500, 8000)
	for _, d := range data {
		cfgs := []Config{{[2]string{"MapOV", "MapOV"}, "obj"}, {[2]string{"RecOV", "RecOV"}, "obj"}}
		if d.inst.Kind == "set" {
			cfgs = []Config{{[2]string{"SetOV", "SetOV"}, "obj"}}
		}
		var elig []int
		for i := range d.recs {
			r := &d.recs[i]
			if len(r.Ops) < 2 || len(r.Fired) > 0 || r.Last.Exp.Bad == 1 {
				continue
			}
			pb := Beh{Caps: r.Caps, Ops: r.Ops[:len(r.Ops)-1]}
			pre := d.byKey[pb.Key()]
			if pre == nil || len(pre.Fired) > 0 || pre.Last.Exp.Bad == 1 {
				continue
			}
			elig = append(elig, i)
		}
		for _, cfg := range cfgs {
			for _, k := range c.SampleIdx(len(elig), perCfg) {
				r := &d.recs[elig[k]]
				pb := Beh{Caps: r.Caps, Ops: r.Ops[:len(r.Ops)-1]}
				pre := d.byKey[pb.Key()]
				for key := 1; key <= d.inst.NKeys; key++ {
					for mode := 1; mode <= 2; mode++ {
						units = append(units, unit{d.inst, cfg, r, Fault{Key: key, Mode: mode}})
						pres = append(pres, pre)
					}
				}
			}
		}
	}
	if len(units) == 0 {
		return core.Inconclusivef("fault stage: no eligible history")
	}
	t0 := time.Now()
	got, err := replayUnits(c, pool, units, false)
	if err != nil {
		return err
	}
	raised, completed, skipped, bad := 0, 0, 0, 0
	for i, u := range units {
		g := got[i].Last
		if g.Skip != "" {
			skipped++
			continue
		}
		nops := len(u.rec.Ops)
		var fields, detail []string
		kind, against := "", ""
		switch {
		case g.Panic != "" || g.Err != "":
			fields, detail = compareObs(u.inst, &u.rec.Last.Exp, &g, nops)
			kind = "fault_panic"
			if g.Panic == "" {
				kind = "fault_unusable_afterwards"
			}
			if len(fields) == 0 {
				fields, detail = []string{"error"}, []string{g.Err}
			}
		case g.FaultErr != "":
			raised++
			g2 := g
			g2.Res = -1
			fields, detail = compareObs(u.inst, &pres[i].Last.Exp, &g2, nops-1)
			kind, against = "fault_not_atomic", "the operation reported `"+g.FaultErr+"`, so both collections must be as before it"
		default:
			completed++
			fields, detail = compareObs(u.inst, &u.rec.Last.Exp, &g, nops)
			kind, against = "fault_lost_update", "the operation completed without reporting an error, so it must have taken full effect"
		}
		if len(fields) == 0 {
			continue
		}
		bad++
		if bad <= 30 {
			b := u.rec.Beh()
			what := map[int]string{1: "hash", 2: "=="}[u.fault.Mode]
			c.Violation(map[string]any{
				"level": "api-fault", "kind": kind, "fields": strings.Join(uniq(fields), ","), "impl": u.cfg.String(), "collection": u.inst.Kind,
				"instance": u.inst.Name, "hash": u.inst.Hash, "caps": b.Caps, "ops": b.Ops, "history": b.Text(), "fault": u.fault, "observed": g,
				"summary": fmt.Sprintf("%s [%s] %s with `%s` of k%d raising during the last operation: %s\n  %s", u.inst.Kind, u.cfg, b.Text(), what, u.fault.Key, against, strings.Join(detail, "\n  ")),
			})
		}
	}
	c.Cov("fault_units", len(units))
	c.Cov("fault_last_op_raised", raised)
	c.Cov("fault_last_op_completed", completed)
	c.CovAdd("traces_validated_against_impl", len(units)-skipped)
	c.Logf("fault stage: %d (history, implementation, faulty key, hash/==) units in %.1fs: last operation raised in %d (collections must equal the pre-state), completed in %d (must equal the post-state), %d skipped, %d violations",
		len(units), time.Since(t0).Seconds(), raised, completed, skipped, bad)
	if raised == 0 {
		return core.Inconclusivef("fault stage: no injected fault was ever reached")
	}
	return nil
}

// predictedByActual: does the specification's actual layer (the table algorithm with the recorded
// deviations) predict exactly what the real code showed? One relaxation: when the two registers are of
// different Go types (a native Go-map variant against a table) and the recorded length over-count is in
// effect, == walks whichever operand the mixed-type path picks, which the single-table model does not
// describe; the == verdict is then not required to match.
func predictedByActual(in *Instance, rec *GenRec, act *ObsT, g *Obs, nops int) bool {
	if len(rec.Fired) == 0 {
		return false
	}
	af, _ := compareObs(in, act, g, nops)
	lenCorrupt := rec.Last.Act.Len != rec.Last.Exp.Len
	for _, f := range af {
		if f == "eq" && g.Types[0] != g.Types[1] && lenCorrupt {
			continue
		}
		return false
	}
	return true
}

// knownInNativeMix recognises the recorded findings in configurations that mix a native Go-map variant
// with a table. There the binary operations go through other code paths (fresh table + bulk copies,
// whichever operand the mixed-type == walks) than the single-table actual layer describes, so its exact
// prediction does not apply. A difference is accepted only field by field, each tied to a recorded
// deviation that is in force, on a register that really is a table:
//   length larger than the true one after a concatenation            -> CopyCountsEveryEntry
//   lookup of an absent key yields `true`                             -> GetReturnsTombstoneMarker
//   the set iterator yields extra deleted-slot markers, nothing else  -> SetIteratorYieldsTombstones
//   == when a length is over-counted or a marker leaks               -> consequence of the above
// Contents (contains, All(), present keys' values, results) must be exactly right.
func knownInNativeMix(devs []string, u unit, g *Obs) (string, bool) {
	if !(strings.HasPrefix(u.cfg.Impl[0], "N") || strings.HasPrefix(u.cfg.Impl[1], "N")) || g.Panic != "" || g.Err != "" {
		return "", false
	}
	on := map[string]bool{}
	for _, d := range devs {
		on[d] = true
	}
	exp := &u.rec.Last.Exp
	cat := false
	for _, o := range u.rec.Ops {
		cat = cat || o.Op == "cat"
	}
	used := map[string]bool{}
	corrupt := false
	for c := 0; c < 2; c++ {
		table := strings.Contains(g.Types[c], "OfValue")
		switch {
		case g.Len[c] == exp.Len[c]:
		case g.Len[c] > exp.Len[c] && table && cat && on["CopyCountsEveryEntry"] && u.inst.Kind == "map":
			used["CopyCountsEveryEntry"] = true
			corrupt = true
		default:
			return "", false
		}
		for k := range exp.Get[c] {
			switch {
			case g.Get[c][k] == exp.Get[c][k]:
			case g.Get[c][k] == -1 && exp.Get[c][k] == 0 && table && on["GetReturnsTombstoneMarker"] && u.inst.Kind == "map":
				used["GetReturnsTombstoneMarker"] = true
				corrupt = true
			default:
				return "", false
			}
		}
		if !eqInts(g.Has[c], exp.Has[c]) {
			return "", false
		}
		want := expectedEntries(exp.Get[c], exp.Has[c])
		if !eqInts(g.All[c], want) {
			return "", false
		}
		it := g.It[c]
		if u.inst.Kind == "set" && table && on["SetIteratorYieldsTombstones"] {
			it = nil
			for _, e := range g.It[c] {
				if e == -1 {
					used["SetIteratorYieldsTombstones"] = true
				} else {
					it = append(it, e)
				}
			}
			if it == nil {
				it = []int{}
			}
		}
		if !eqInts(it, want) {
			return "", false
		}
		if g.HasP[c] != nil {
			for k, v := range exp.Get[c] {
				if g.HasP[c][k] != b2i(v == 1) {
					return "", false
				}
			}
		}
	}
	if g.Cls[0] == g.Cls[1] && !corrupt && (g.Eq[0] != exp.Eq[0] || g.Eq[1] != exp.Eq[1]) {
		return "", false
	}
	if g.Res >= 0 && g.Res != exp.Res {
		return "", false
	}
	if len(used) == 0 {
		return "", false
	}
	var names []string
	for n := range used {
		names = append(names, n)
	}
	sort.Strings(names)
	return strings.Join(names, "+"), true
}

// devTag names the deviations responsible for a difference. SubscriptAbsentUndefined is in force for
// every map history but only concerns the `[]` operator.
func devTag(fired, fields []string) string {
	hasSub, onlySub := false, true
	for _, f := range fields {
		if f == "subscript" {
			hasSub = true
		} else {
			onlySub = false
		}
	}
	var out []string
	for _, d := range sortedCopy(fired) {
		if d == "SubscriptAbsentUndefined" {
			if hasSub {
				out = append(out, d)
			}
			continue
		}
		if hasSub && onlySub {
			continue
		}
		out = append(out, d)
	}
	if len(out) == 0 {
		return strings.Join(sortedCopy(fired), "+")
	}
	return strings.Join(out, "+")
}

func sortedCopy(xs []string) []string {
	out := append([]string{}, xs...)
	sort.Strings(out)
	return out
}

func replayUnits(c *core.Ctx, pool *core.Pool, units []unit, allObs bool) ([]BehResult, error) {
	// group by (instance, config), chunk
	type grp struct {
		inst *Instance
		cfg  Config
		idx  []int
	}
	groups := map[string]*grp{}
	var order []string
	for i, u := range units {
		k := u.inst.Name + "|" + u.cfg.String()
		g := groups[k]
		if g == nil {
			g = &grp{inst: u.inst, cfg: u.cfg}
			groups[k] = g
			order = append(order, k)
		}
		g.idx = append(g.idx, i)
	}
	const chunk = 1500
	faults := false
	for _, u := range units {
		if u.fault.Key > 0 {
			faults = true
		}
	}
	var jobs []core.Job
	var jobIdx [][]int
	for _, k := range order {
		g := groups[k]
		for lo := 0; lo < len(g.idx); lo += chunk {
			hi := minInt(lo+chunk, len(g.idx))
			j := APIJob{Kind: g.inst.Kind, NKeys: g.inst.NKeys, Hash: g.inst.Hash, M: M, Cfg: g.cfg, AllObs: allObs}
			for _, i := range g.idx[lo:hi] {
				j.Behs = append(j.Behs, units[i].rec.Beh())
				if faults {
					j.Faults = append(j.Faults, units[i].fault)
				}
			}
			jobs = append(jobs, core.Job{Kind: "c17api", Payload: j, TimeoutMs: 120000})
			jobIdx = append(jobIdx, g.idx[lo:hi])
		}
	}
	results := pool.Map(jobs, nil)
	out := make([]BehResult, len(units))
	for ji, r := range results {
		if r.Err != "" || r.Panic != "" || r.Crashed || r.Timeout {
			return nil, core.Inconclusivef("API replay job failed: err=%q panic=%.300q crashed=%v timeout=%v log=%.600s", r.Err, r.Panic, r.Crashed, r.Timeout, r.CrashLog)
		}
		var brs []BehResult
		if err := r.Decode(&brs); err != nil {
			return nil, core.Inconclusivef("bad API job result: %v", err)
		}
		if len(brs) != len(jobIdx[ji]) {
			return nil, core.Inconclusivef("API job returned %d results for %d histories", len(brs), len(jobIdx[ji]))
		}
		for k, i := range jobIdx[ji] {
			out[i] = brs[k]
		}
	}
	return out, nil
}

func eqInts(a, b []int) bool {
	if len(a) != len(b) {
		return false
	}
	for i := range a {
		if a[i] != b[i] {
			return false
		}
	}
	return true
}

func expectedEntries(get, has []int) []int {
	out := []int{}
	for k, v := range get {
		if has[k] == 1 {
			out = append(out, (k+1)*100+v)
		}
	}
	sort.Ints(out)
	return out
}

// compareObs compares the observation of the real collections with the specification's prediction
// for the last step of a history. It returns the names of the differing fields.
func compareObs(in *Instance, exp *ObsT, g *Obs, nops int) (fields, detail []string) {
	add := func(f, d string) {
		fields = append(fields, f)
		detail = append(detail, d)
	}
	if g.Panic != "" {
		if exp.Bad == 1 && g.Step == nops {
			return nil, nil // the model (with deviations) predicts this panic
		}
		add("panic", fmt.Sprintf("Go panic at step %d: %s", g.Step, firstLine(g.Panic)))
		return
	}
	if exp.Bad == 1 {
		add("panic", "the model predicts a panic, the implementation did not panic")
		return
	}
	if g.Err != "" {
		add("error", fmt.Sprintf("step %d: %s", g.Step, g.Err))
		return
	}
	for c := 0; c < 2; c++ {
		if g.Len[c] != exp.Len[c] {
			add("len", fmt.Sprintf("r%d.length = %d, expected %d", c+1, g.Len[c], exp.Len[c]))
		}
		if g.Get[c] != nil && !eqInts(g.Get[c], exp.Get[c]) {
			add("get", fmt.Sprintf("r%d lookups of k1..k%d = %v, expected %v (0 = nil, -1 = true, -2 = undefined)", c+1, in.NKeys, g.Get[c], exp.Get[c]))
		}
		if g.Sub[c] != nil && !eqInts(g.Sub[c], exp.Sub[c]) {
			add("subscript", fmt.Sprintf("r%d[k1..k%d] = %v, expected %v (0 = nil, -2 = undefined)", c+1, in.NKeys, g.Sub[c], exp.Sub[c]))
		}
		if g.Has[c] != nil && !eqInts(g.Has[c], exp.Has[c]) {
			add("has", fmt.Sprintf("r%d contains(k1..k%d) = %v, expected %v", c+1, in.NKeys, g.Has[c], exp.Has[c]))
		}
		if in.Kind == "map" && g.HasP[c] != nil {
			want := make([]int, len(exp.Get[c]))
			for k, v := range exp.Get[c] {
				if v == 1 {
					want[k] = 1
				}
			}
			if !eqInts(g.HasP[c], want) {
				add("contains_pair", fmt.Sprintf("r%d contains(k => 1) = %v, expected %v", c+1, g.HasP[c], want))
			}
		}
		want := expectedEntries(exp.Get[c], exp.Has[c])
		if g.All[c] != nil && !eqInts(g.All[c], want) {
			add("iter", fmt.Sprintf("r%d All() yields %v, expected each live entry once: %v", c+1, g.All[c], want))
		}
		if exp.It[c] != nil { // the actual layer predicts the iterator object separately
			want = append([]int{}, exp.It[c]...)
			sort.Ints(want)
		}
		if g.It[c] != nil && !eqInts(g.It[c], want) {
			add("iter", fmt.Sprintf("r%d iterator yields %v, expected each live entry once: %v (-1 = a deleted slot)", c+1, g.It[c], want))
		}
	}
	if g.Cls[0] == g.Cls[1] {
		for d := 0; d < 2; d++ {
			if g.Eq[d] != exp.Eq[d] {
				add("eq", fmt.Sprintf("r%d == r%d is %d, expected %d", d+1, 2-d, g.Eq[d], exp.Eq[d]))
			}
		}
	}
	if g.Res >= 0 && g.Res != exp.Res {
		add("res", fmt.Sprintf("result of the last operation = %d, expected %d", g.Res, exp.Res))
	}
	return
}

// compareLayout: binding check - is the real table laid out like the model's table?
func compareLayout(exp *ObsT, g *Obs) (compared, differing int) {
	for c := 0; c < 2; c++ {
		if g.Lay[c] == nil {
			continue
		}
		n := len(exp.Lay[c])
		if n == 0 && len(g.Lay[c]) == 0 {
			continue
		}
		if n > 0 && M%n != 0 {
			continue // beyond the capacities for which the hash is imposed
		}
		compared++
		if !eqInts(g.Lay[c], exp.Lay[c]) {
			differing++
		}
	}
	return
}

func firstLine(s string) string {
	if i := strings.IndexByte(s, '\n'); i >= 0 {
		return s[:i]
	}
	return s
}

// ---- unexplained differences --------------------------------------------------------------------------

// reportUnexplained reduces differing histories that the actual layer does not predict to their
// shortest such prefix (re-running them with an observation after every step) and reports them.
func reportUnexplained(c *core.Ctx, pool *core.Pool, data []*instData, mism []mismatch) error {
	if len(mism) == 0 {
		return nil
	}
	byInst := map[string]*instData{}
	for _, d := range data {
		byInst[d.inst.Name] = d
	}
	total := len(mism)
	sort.SliceStable(mism, func(i, j int) bool { return len(mism[i].u.rec.Ops) < len(mism[j].u.rec.Ops) })
	if len(mism) > 400 {
		mism = mism[:400]
	}
	units := make([]unit, len(mism))
	for i, m := range mism {
		units[i] = m.u
	}
	steps, err := replayUnits(c, pool, units, true)
	if err != nil {
		return err
	}
	seen := map[string]bool{}
	reported := 0
	for i, m := range mism {
		d := byInst[m.u.inst.Name]
		full := m.u.rec.Beh()
		pre, fields, detail, last := full, m.fields, m.detail, m.got
		for s := 1; s <= len(full.Ops) && s <= len(steps[i].Steps); s++ {
			p := Beh{Caps: full.Caps, Ops: full.Ops[:s]}
			exp := d.byKey[p.Key()]
			if exp == nil {
				break // prefix not among the emitted histories (simulation mode emits all of them; BFS too)
			}
			ob := steps[i].Steps[s-1]
			if ob.Skip != "" {
				break
			}
			f, dt := compareObs(m.u.inst, &exp.Last.Exp, &ob, s)
			if len(f) == 0 {
				continue
			}
			if predictedByActual(m.u.inst, exp, &exp.Last.Act, &ob, s) {
				continue // this step is a recorded deviation
			}
			pre, fields, detail, last = p, f, dt, ob
			break
		}
		k := m.u.inst.Name + "|" + m.u.cfg.String() + "|" + pre.Key()
		if seen[k] {
			continue
		}
		seen[k] = true
		reported++
		c.Violation(map[string]any{
			"level": "api", "kind": fields[0], "fields": strings.Join(uniq(fields), ","), "impl": m.u.cfg.String(),
			"types": strings.Join(last.Types[:], ","), "collection": m.u.inst.Kind, "instance": m.u.inst.Name, "hash": m.u.inst.Hash,
			"caps": pre.Caps, "ops": pre.Ops, "history": pre.Text(), "last_op": pre.Ops[len(pre.Ops)-1].Op, "observed": last,
			"summary": fmt.Sprintf("%s [%s] %s\n  %s", m.u.inst.Kind, m.u.cfg, pre.Text(), strings.Join(detail, "\n  ")),
		})
	}
	c.Cov("api_unexplained_differences", total)
	c.Logf("API: %d differences not predicted by the recorded deviations; %d distinct shortest histories reported", total, reported)
	return nil
}

func uniq(xs []string) []string {
	seen := map[string]bool{}
	var out []string
	for _, x := range xs {
		if !seen[x] {
			seen[x] = true
			out = append(out, x)
		}
	}
	return out
}
