package c17

import (
	"fmt"
	"sort"
	"strconv"
	"strings"

	"elkverif/internal/core"
	"elkverif/internal/elkrun"
)

// ---- Elk-level replay: the user-visible operations ---------------------------------------------------
//
// Histories that only use operations the language offers (maps: []=, +; records: literal, +; sets:
// push, remove, +, &) are emitted as Elk programs; after the last operation the program prints
// length, `[]` (SUBSCRIPT instruction), `[]` through an interface-typed variable (method call),
// contains_key / contains, iteration with `for`, and == both ways.

const elkKeyClass = `def t(s: String) then println s
class K
  attr id: Int, h: UInt64
  init(@id: Int, @h: UInt64); end
  pure def hash: UInt64 then @h
  sealed def ==(other: any): bool
    switch other
    case K() as k then return k.id == @id
    end
    false
  end
end
def kid(v: any): Int
  switch v
  case K() as k then return k.id
  case Int() as i then return i - 10
  case String() as s then return s.length
  end
  -1
end
def asset(v: any): HashSet[any]
  switch v
  case HashSet() as s then return s
  end
  ^[]
end
`

// elkShape: which Elk collection a history is run on
type elkShape struct {
	Name   string // map rec set
	Family string // obj int str
}

func (s elkShape) String() string { return "elk:" + s.Name + "/" + s.Family }

func elkKey(in *Instance, fam string, k int) string {
	switch fam {
	case "obj":
		return fmt.Sprintf("K(%d, %du64)", k, in.Hash[k-1])
	case "int":
		return fmt.Sprint(10 + k)
	default: // str: key k is a string of length k
		return `'` + strings.Repeat("x", k) + `'` // raw string: the only kind allowed inside an interpolation
	}
}

func elkKeyType(fam string) string {
	switch fam {
	case "obj":
		return "K"
	case "int":
		return "Int"
	}
	return "String"
}

// eligible: can the history be expressed with the language-level operations of the shape?
func eligible(sh elkShape, caps [2]int, ops []OpT) bool {
	seenCat := false
	if sh.Name == "rec" {
		// an empty record literal has no usable static type: both registers need an insertion; a literal
		// of n pairs is built as NewHashRecordOfValue(n) + n insertions, so the history must start from
		// exactly those capacities for the actual layer's prediction to apply
		n := [3]int{}
		for _, o := range ops {
			if o.Op == "set" {
				n[o.C]++
			}
		}
		if n[1] == 0 || n[2] == 0 || caps[0] != n[1] || caps[1] != n[2] {
			return false
		}
	} else if caps != [2]int{0, 0} {
		return false // `{}` and `^[]` start with capacity 0
	}
	for _, o := range ops {
		switch o.Op {
		case "dup", "cln":
			return false
		case "del":
			if sh.Name != "set" {
				return false
			}
		case "and":
			if sh.Name != "set" {
				return false
			}
		case "set":
			if sh.Name == "rec" && seenCat {
				return false // records are immutable: all insertions must be part of the literal
			}
		case "cat":
			seenCat = true
		}
	}
	return true
}

func emitHistory(pre, sb *strings.Builder, in *Instance, sh elkShape, n int, b *Beh) {
	kt := elkKeyType(sh.Family)
	key := func(k int) string { return elkKey(in, sh.Family, k) }
	sb.WriteString("do\n")
	reg := []string{"", "a", "b"}
	switch sh.Name {
	case "map":
		fmt.Fprintf(sb, "  var a: HashMap[%s, Int] = {}\n  var b: HashMap[%s, Int] = {}\n", kt, kt)
	case "set":
		sb.WriteString("  var a: HashSet[any] = ^[]\n  var b: HashSet[any] = ^[]\n")
	case "rec":
		// the leading insertions become the literals
		lit := [3][]string{}
		for _, o := range b.Ops {
			if o.Op == "set" {
				lit[o.C] = append(lit[o.C], fmt.Sprintf("%s => %d", key(o.K), o.V))
			}
		}
		// every literal lives in a function of its own: two static native-keyed record literals in one
		// function body crash the bytecode compiler (BytecodeFunction.AddValue compares Go maps) - not C17's business
		for c := 1; c <= 2; c++ {
			fmt.Fprintf(pre, "def lit%d_%s: HashRecord[%s, Int] then %%{%s}\n", n, reg[c], kt, strings.Join(lit[c], ", "))
			fmt.Fprintf(sb, "  var %s: HashRecord[%s, Int] = lit%d_%s()\n", reg[c], kt, n, reg[c])
		}
	}
	fmt.Fprintf(sb, "  t(\"H %d\")\n", n)
	for i, o := range b.Ops {
		last := i == len(b.Ops)-1
		switch o.Op {
		case "set":
			switch sh.Name {
			case "map":
				fmt.Fprintf(sb, "  %s[%s] = %d\n", reg[o.C], key(o.K), o.V)
			case "set":
				if last {
					fmt.Fprintf(sb, "  t(\"res #{%s.push(%s)}\")\n", reg[o.C], key(o.K))
				} else if i%2 == 0 {
					fmt.Fprintf(sb, "  %s << %s\n", reg[o.C], key(o.K))
				} else {
					fmt.Fprintf(sb, "  %s.push(%s)\n", reg[o.C], key(o.K))
				}
			}
		case "del":
			if last {
				fmt.Fprintf(sb, "  t(\"res #{%s.remove(%s)}\")\n", reg[o.C], key(o.K))
			} else {
				fmt.Fprintf(sb, "  %s.remove(%s)\n", reg[o.C], key(o.K))
			}
		case "cat":
			op := "+"
			if sh.Name == "set" && i%2 == 1 {
				op = "|"
			}
			fmt.Fprintf(sb, "  %s = %s %s %s\n", reg[o.C], reg[o.X], op, reg[o.Y])
		case "and":
			fmt.Fprintf(sb, "  %s = asset(%s & %s)\n", reg[o.C], reg[o.X], reg[o.Y])
		}
	}
	fmt.Fprintf(sb, "  obs_%s_%s(a, b)\nend\n", sh.Name, sh.Family)
}

func emitObsFn(sb *strings.Builder, in *Instance, sh elkShape) {
	kt := elkKeyType(sh.Family)
	key := func(k int) string { return elkKey(in, sh.Family, k) }
	list := func(f func(r string, k int) string) string {
		var parts []string
		for _, r := range []string{"a", "b"} {
			for k := 1; k <= in.NKeys; k++ {
				parts = append(parts, "#{"+f(r, k)+"}")
			}
		}
		return strings.Join(parts, " ")
	}
	switch sh.Name {
	case "map", "rec":
		cls, iface := "HashMap", "Map"
		if sh.Name == "rec" {
			cls, iface = "HashRecord", "Record"
		}
		fmt.Fprintf(sb, "def obs_%s_%s(a: %s[%s, Int], b: %s[%s, Int])\n", sh.Name, sh.Family, cls, kt, cls, kt)
		sb.WriteString("  t(\"len #{a.length} #{b.length}\")\n")
		fmt.Fprintf(sb, "  t(\"sub %s\")\n", list(func(r string, k int) string { return r + "[" + key(k) + "]" }))
		fmt.Fprintf(sb, "  var ia: %s[%s, Int] = a\n  var ib: %s[%s, Int] = b\n", iface, kt, iface, kt)
		fmt.Fprintf(sb, "  t(\"get %s\")\n", list(func(r string, k int) string { return "i" + r + "[" + key(k) + "]" }))
		fmt.Fprintf(sb, "  t(\"has %s\")\n", list(func(r string, k int) string { return r + ".contains_key(" + key(k) + ")" }))
		sb.WriteString("  for p in a\n    t(\"ia #{kid(p.key)} #{p.value}\")\n  end\n")
		sb.WriteString("  for p in b\n    t(\"ib #{kid(p.key)} #{p.value}\")\n  end\n")
	case "set":
		fmt.Fprintf(sb, "def obs_%s_%s(a: HashSet[any], b: HashSet[any])\n", sh.Name, sh.Family)
		sb.WriteString("  t(\"len #{a.length} #{b.length}\")\n")
		fmt.Fprintf(sb, "  t(\"has %s\")\n", list(func(r string, k int) string { return r + ".contains(" + key(k) + ")" }))
		sb.WriteString("  for e in a\n    t(\"ia #{kid(e)} 1\")\n  end\n")
		sb.WriteString("  for e in b\n    t(\"ib #{kid(e)} 1\")\n  end\n")
	}
	sb.WriteString("  t(\"eq #{a == b} #{b == a}\")\nend\n")
}

type elkUnit struct {
	inst *Instance
	sh   elkShape
	rec  *GenRec
}

func elkProgram(in *Instance, sh elkShape, us []elkUnit) string {
	var sb strings.Builder
	sb.WriteString(elkKeyClass)
	emitObsFn(&sb, in, sh)
	var body strings.Builder
	for i, u := range us {
		b := u.rec.Beh()
		emitHistory(&sb, &body, in, sh, i, &b)
	}
	return sb.String() + body.String()
}

func parseWord(w string) int {
	switch w {
	case "nil":
		return 0
	case "undefined":
		return -2
	case "true":
		return 1
	case "false":
		return 0
	}
	n, err := strconv.Atoi(w)
	if err != nil {
		return -9
	}
	return n
}

// parseElkOutput splits the program's output into one observation per history.
func parseElkOutput(in *Instance, sh elkShape, out string, n int) ([]*Obs, error) {
	res := make([]*Obs, n)
	var cur *Obs
	for _, line := range strings.Split(out, "\n") {
		f := strings.Fields(line)
		if len(f) == 0 {
			continue
		}
		if f[0] == "H" {
			i, err := strconv.Atoi(f[1])
			if err != nil || i < 0 || i >= n {
				return nil, fmt.Errorf("bad marker %q", line)
			}
			cur = &Obs{Res: -1, Cls: [2]string{"x", "x"}}
			cur.It = [2][]int{{}, {}}
			res[i] = cur
			continue
		}
		if cur == nil {
			return nil, fmt.Errorf("output before the first marker: %q", line)
		}
		split := func() ([2][]int, error) {
			var o [2][]int
			if len(f)-1 != 2*in.NKeys {
				return o, fmt.Errorf("bad line %q", line)
			}
			for i, w := range f[1:] {
				o[i/in.NKeys] = append(o[i/in.NKeys], parseWord(w))
			}
			return o, nil
		}
		var err error
		switch f[0] {
		case "res":
			cur.Res = parseWord(f[1])
		case "len":
			cur.Len = [2]int{parseWord(f[1]), parseWord(f[2])}
		case "sub":
			cur.Sub, err = split()
		case "get":
			cur.Get, err = split()
		case "has":
			cur.Has, err = split()
			if sh.Name == "set" {
				cur.Get = cur.Has
			}
		case "ia", "ib":
			c := 0
			if f[0] == "ib" {
				c = 1
			}
			k := parseWord(f[1])
			if k == -1 {
				cur.It[c] = append(cur.It[c], -1) // not one of our keys: the deleted-slot marker
			} else {
				cur.It[c] = append(cur.It[c], k*100+parseWord(f[2]))
			}
		case "eq":
			cur.Eq = [2]int{parseWord(f[1]), parseWord(f[2])}
			cur.Step = 1 // complete
		default:
			return nil, fmt.Errorf("unexpected line %q", line)
		}
		if err != nil {
			return nil, err
		}
	}
	for _, o := range res {
		if o != nil {
			sort.Ints(o.It[0])
			sort.Ints(o.It[1])
		}
	}
	return res, nil
}

func elkLevel(c *core.Ctx, pool *core.Pool, data []*instData) error {
	shapes := map[string][]elkShape{
		"map": {{"map", "obj"}, {"map", "int"}, {"map", "str"}, {"rec", "obj"}, {"rec", "str"}},
		"set": {{"set", "obj"}, {"set", "int"}, {"set", "str"}},
	}
	perShape := c.Pick(360, 6000)
	const batch = 40
	type batchT struct {
		inst *Instance
		sh   elkShape
		us   []elkUnit
	}
	var batches []batchT
	for _, d := range data {
		if d.inst.Simulate > 0 && !c.Thorough() {
			continue
		}
		for _, sh := range shapes[d.inst.Kind] {
			var elig []int
			for i := range d.recs {
				if eligible(sh, d.recs[i].Caps, d.recs[i].Ops) {
					elig = append(elig, i)
				}
			}
			var us []elkUnit
			for _, j := range c.SampleIdx(len(elig), perShape) {
				us = append(us, elkUnit{d.inst, sh, &d.recs[elig[j]]})
			}
			for lo := 0; lo < len(us); lo += batch {
				batches = append(batches, batchT{d.inst, sh, us[lo:minInt(lo+batch, len(us))]})
			}
		}
	}
	if len(batches) == 0 {
		return core.Inconclusivef("no history is expressible at the Elk level")
	}
	run := func(bs []batchT) ([]*elkrun.Result, error) {
		jobs := make([]core.Job, len(bs))
		for i, b := range bs {
			jobs[i] = core.Job{Kind: "elk", Payload: elkrun.Job{Src: elkProgram(b.inst, b.sh, b.us), RunMs: 20000}, TimeoutMs: 60000}
		}
		rs := pool.Map(jobs, nil)
		out := make([]*elkrun.Result, len(bs))
		for i, r := range rs {
			if r.Err != "" || r.Panic != "" || r.Timeout || (r.Crashed && !core.IsGoFatal(r.CrashLog)) {
				return nil, core.Inconclusivef("Elk job failed: err=%q panic=%.300q timeout=%v crashed=%v", r.Err, r.Panic, r.Timeout, r.Crashed)
			}
			if r.Crashed {
				out[i] = &elkrun.Result{Accepted: true, GoPanic: "fatal: " + tailStr(r.CrashLog, 1500), PanicStage: "run"}
				continue
			}
			var er elkrun.Result
			if err := r.Decode(&er); err != nil {
				return nil, core.Inconclusivef("bad Elk job result: %v", err)
			}
			out[i] = &er
		}
		return out, nil
	}
	c.Logf("Elk level: %d programs", len(batches))
	results, err := run(batches)
	if err != nil {
		return err
	}
	// batches that did not run to completion are re-run one history per program
	var final []batchT
	var finalRes []*elkrun.Result
	var redo []batchT
	for i, b := range batches {
		r := results[i]
		if !r.Accepted {
			return core.Inconclusivef("generated Elk program rejected by the checker (%s): %s %s\n%s", b.sh, firstLine(r.Diags), firstLine(r.GoPanic), tailStr(elkProgram(b.inst, b.sh, b.us[:1]), 1500))
		}
		if r.Outcome() != "ok" && len(b.us) > 1 {
			for _, u := range b.us {
				redo = append(redo, batchT{b.inst, b.sh, []elkUnit{u}})
			}
			continue
		}
		final = append(final, b)
		finalRes = append(finalRes, r)
	}
	if len(redo) > 0 {
		rr, err := run(redo)
		if err != nil {
			return err
		}
		final = append(final, redo...)
		finalRes = append(finalRes, rr...)
	}
	compared, agree, known, violations := 0, 0, 0, 0
	knownPerDev := map[string]int{}
	perShapeCount := map[string]int{}
	for i, b := range final {
		r := finalRes[i]
		var obs []*Obs
		if r.Outcome() == "ok" {
			obs, err = parseElkOutput(b.inst, b.sh, r.Stdout, len(b.us))
			if err != nil {
				return core.Inconclusivef("cannot parse the output of an Elk program (%s): %v", b.sh, err)
			}
		}
		for ui, u := range b.us {
			beh := u.rec.Beh()
			rec := map[string]any{
				"level": "elk", "impl": b.sh.String(), "collection": b.inst.Kind, "instance": b.inst.Name, "hash": b.inst.Hash,
				"caps": beh.Caps, "ops": beh.Ops, "history": beh.Text(),
			}
			var g *Obs
			if obs != nil {
				g = obs[ui]
			}
			if g == nil || g.Step == 0 {
				// the program did not get through this history
				if r.Outcome() == "ok" {
					return core.Inconclusivef("Elk program printed no complete observation for %s (%s)", beh.Text(), b.sh)
				}
				compared++
				violations++
				rec["kind"] = r.Outcome()
				rec["source"] = elkProgram(b.inst, b.sh, []elkUnit{u})
				rec["error"] = r.ErrClass + ": " + r.ErrMsg
				rec["panic"] = r.GoPanic
				rec["summary"] = fmt.Sprintf("%s %s: program outcome %s %s %s %s", b.sh, beh.Text(), r.Outcome(), r.ErrClass, r.ErrMsg, firstLine(r.GoPanic))
				c.Violation(rec)
				continue
			}
			compared++
			perShapeCount[b.sh.String()]++
			exp := elkExpect(b.sh, &u.rec.Last.Exp)
			fields, detail := compareObs(b.inst, exp, g, 0)
			if len(fields) == 0 {
				agree++
				if agree%1501 == 1 {
					c.Sample(map[string]any{"level": "elk", "impl": b.sh.String(), "history": beh.Text(), "expected_and_observed": map[string]any{"len": g.Len, "sub": g.Sub, "get": g.Get, "iter": g.It, "eq": g.Eq}})
				}
				continue
			}
			rec["kind"] = fields[0]
			rec["fields"] = strings.Join(uniq(fields), ",")
			rec["observed"] = g
			rec["source"] = elkProgram(b.inst, b.sh, []elkUnit{u})
			rec["summary"] = fmt.Sprintf("%s %s\n  %s", b.sh, beh.Text(), strings.Join(detail, "\n  "))
			act := elkExpect(b.sh, &u.rec.Last.Act)
			if b.sh.Name != "set" && b.sh.Family == "str" {
				// String-keyed literals compile to the native Go-map variants: of the recorded deviations
				// only the SUBSCRIPT one concerns them (the table deviations do not exist there)
				act = elkExpect(b.sh, &u.rec.Last.Exp)
				for _, f := range u.rec.Fired {
					if f == "SubscriptAbsentUndefined" {
						act.Sub = u.rec.Last.Act.Sub
						for c := 0; c < 2; c++ {
							act.Sub[c] = append([]int{}, act.Sub[c]...)
							for k, v := range act.Get[c] {
								if v == 0 {
									act.Sub[c][k] = -2
								} else {
									act.Sub[c][k] = v
								}
							}
						}
					}
				}
			}
			predicted := predictedByActual(b.inst, u.rec, act, g, 0)
			dev := devTag(u.rec.Fired, fields)
			if !predicted && b.sh.Name == "set" && b.sh.Family != "obj" && inForce(c, "SetIteratorYieldsTombstones") {
				// Int and String elements do not impose the model's hash, so which deleted slots get reused
				// differs from the model's table: accept extra deleted-slot markers from the iterator, nothing else
				g2 := *g
				for r := 0; r < 2; r++ {
					g2.It[r] = []int{}
					for _, e := range g.It[r] {
						if e != -1 {
							g2.It[r] = append(g2.It[r], e)
						}
					}
				}
				if f2, _ := compareObs(b.inst, exp, &g2, 0); len(f2) == 0 {
					predicted, dev = true, "SetIteratorYieldsTombstones"
				}
			}
			if predicted {
				known++
				knownPerDev[dev]++
				if knownPerDev[dev] > 40 {
					continue
				}
				rec["deviation"] = dev
				rec["explained"] = "actual_layer"
			} else {
				violations++
			}
			c.Violation(rec)
		}
	}
	c.CovAdd("traces_validated_against_impl", compared)
	c.Cov("elk_programs", len(final))
	c.Cov("elk_histories_per_shape", perShapeCount)
	c.Cov("elk_agree_with_abstract_layer", agree)
	c.Cov("elk_differences_predicted_by_recorded_deviations", knownPerDev)
	c.Logf("Elk level: %d histories compared (%d agree with the abstract layer, %d differ exactly as the recorded deviations predict %v, %d unexplained)", compared, agree, known, knownPerDev, violations)
	if compared == 0 {
		return core.Inconclusivef("no Elk-level history was compared")
	}
	return nil
}

func inForce(c *core.Ctx, dev string) bool {
	for _, d := range c.KnownDeviations() {
		if d == dev {
			return true
		}
	}
	return false
}

// elkExpect adapts a prediction to what the Elk level can observe: the native (Go map backed)
// variants and the literal-built records have no table layout and no result of []=.
func elkExpect(sh elkShape, p *ObsT) *ObsT {
	e := *p
	e.Bad = 0
	e.Lay = [2][]int{}
	if sh.Name != "set" {
		e.Res = -1
	}
	return &e
}
