package c17

import (
	"encoding/json"
	"fmt"
	"math/big"
	"reflect"
	"runtime/debug"
	"sort"
	"strings"
	"sync"
	"unsafe"

	"github.com/elk-language/elk"
	"github.com/elk-language/elk/bitfield"
	"github.com/elk-language/elk/types/checker"
	"github.com/elk-language/elk/value"
	"github.com/elk-language/elk/value/symbol"
	"github.com/elk-language/elk/vm"

	"elkverif/internal/core"
	"elkverif/internal/elkrun"
)

// ---- replay of TLC-generated histories at the Go API level (inside a worker process) --------------

// OpT is one operation of a history: the tuple <<op, c, x, y, k, v>> of spec/HashColl.
type OpT struct {
	Op         string
	C, X, Y    int
	K, V       int
}

func (o *OpT) UnmarshalJSON(b []byte) error {
	var raw []any
	if err := json.Unmarshal(b, &raw); err != nil {
		return err
	}
	if len(raw) != 6 {
		return fmt.Errorf("op tuple of length %d", len(raw))
	}
	o.Op, _ = raw[0].(string)
	n := func(i int) int { f, _ := raw[i].(float64); return int(f) }
	o.C, o.X, o.Y, o.K, o.V = n(1), n(2), n(3), n(4), n(5)
	return nil
}

func (o OpT) MarshalJSON() ([]byte, error) {
	return json.Marshal([]any{o.Op, o.C, o.X, o.Y, o.K, o.V})
}

func (o OpT) String() string {
	switch o.Op {
	case "set":
		return fmt.Sprintf("r%d[k%d]=%d", o.C, o.K, o.V)
	case "del":
		return fmt.Sprintf("r%d.del(k%d)", o.C, o.K)
	case "cat":
		return fmt.Sprintf("r%d=r%d+r%d", o.C, o.X, o.Y)
	case "and":
		return fmt.Sprintf("r%d=r%d&r%d", o.C, o.X, o.Y)
	case "dup":
		return fmt.Sprintf("r%d=copy(r%d)", o.C, o.X)
	case "cln":
		return fmt.Sprintf("r%d=clone(r%d,cap=%d)", o.C, o.X, o.K)
	}
	return o.Op
}

type Beh struct {
	Caps [2]int `json:"caps"`
	Ops  []OpT  `json:"ops"`
}

func (b *Beh) Key() string {
	var sb strings.Builder
	fmt.Fprintf(&sb, "%d,%d", b.Caps[0], b.Caps[1])
	for _, o := range b.Ops {
		fmt.Fprintf(&sb, "|%s,%d,%d,%d,%d,%d", o.Op, o.C, o.X, o.Y, o.K, o.V)
	}
	return sb.String()
}

func (b *Beh) Text() string {
	var parts []string
	for _, o := range b.Ops {
		parts = append(parts, o.String())
	}
	return fmt.Sprintf("caps=%v: %s", b.Caps, strings.Join(parts, "; "))
}

// Config selects the real implementation under the two registers and the key family.
type Config struct {
	Impl   [2]string `json:"impl"`   // MapOV RecOV NKMapStr NMapStrI64 NKRecStr NRecStrI64 NKMapI64 NKMapSym NKMapFloat | SetOV NSetStr NSetSym NSetI64
	Family string    `json:"family"` // int str obj big float sym i64 mixed
}

func (c Config) String() string { return c.Impl[0] + "/" + c.Impl[1] + "/" + c.Family }

type APIJob struct {
	Kind   string `json:"kind"` // map | set
	NKeys  int    `json:"nkeys"`
	Hash   []int  `json:"hash"` // model hash of key k (index k-1)
	M      int    `json:"m"`    // real hashes are congruent to the model hash modulo M
	Cfg    Config `json:"cfg"`
	Behs   []Beh  `json:"behs"`
	AllObs bool   `json:"all_obs,omitempty"` // return the observation after every step (explanation pass)
	// Faults (fault stage; parallel to Behs when present): during the LAST operation of the history the
	// user-defined hash (mode 1) or == (mode 2) of every object standing for model key Key raises.
	Faults []Fault `json:"faults,omitempty"`
}

type Fault struct {
	Key  int `json:"key"`
	Mode int `json:"mode"`
}

// Obs is what is observed on the real collections after a step.
type Obs struct {
	Step  int      `json:"step"` // number of ops executed (the last one is the observed step)
	Len   [2]int   `json:"len"`
	Get   [2][]int `json:"get"`  // maps: value under key k via GetValNil (0 nil, -1 `true`, -2 undefined, -9 other); sets: contains
	Has   [2][]int `json:"has"`  // ContainsKey / Contains
	HasP  [2][]int `json:"hasp"` // maps: Contains(Pair(k, 1))
	Sub   [2][]int `json:"sub,omitempty"` // Elk level: the `[]` operator
	All   [2][]int `json:"all"`  // entries yielded by All(), as sorted codes k*100+v
	It    [2][]int `json:"it"`   // entries yielded by the iterator object
	Eq    [2]int   `json:"eq"`   // r1 == r2, r2 == r1
	Lay   [2][]int `json:"lay"`  // slot codes of the real table (nil when not an open-addressing table)
	Res   int      `json:"res"`  // result of the step: set(sets)/del -> 0/1, otherwise -1
	Types [2]string `json:"types"`
	Cls   [2]string `json:"cls"`
	Panic string   `json:"panic,omitempty"`
	Err   string   `json:"err,omitempty"`
	FaultErr string `json:"fault_err,omitempty"` // fault stage: the error the faulted last operation reported (observation follows after the repair)
	Skip  string   `json:"skip,omitempty"` // the history uses an operation this implementation does not have
}

type BehResult struct {
	Last  Obs   `json:"last"`
	Steps []Obs `json:"steps,omitempty"`
}

func init() {
	core.RegisterJob("c17api", func(p json.RawMessage) (any, error) {
		var j APIJob
		if err := json.Unmarshal(p, &j); err != nil {
			return nil, err
		}
		return runAPIJob(&j)
	})
}

// ---- keys ------------------------------------------------------------------------------------------

const keyClassSrc = `
class K
  attr id: Int, h: UInt64
  init(@id: Int, @h: UInt64); end
  pure def hash: UInt64 then @h
  sealed def ==(other: any): bool
    switch other
    case K() as k then return k.id == @id
    end
    false
  end
end
`

// keyClassFaultSrc: the same key class with a switch that makes hash (1) or == (2) raise.
const keyClassFaultSrc = `
class K
  attr id: Int, h: UInt64, broken: Int
  init(@id: Int, @h: UInt64)
    @broken = 0
  end
  pure def hash: UInt64
    throw unchecked "key fault: hash" if @broken == 1
    @h
  end
  sealed def ==(other: any): bool
    throw unchecked "key fault: ==" if @broken == 2
    switch other
    case K() as k then return k.id == @id
    end
    false
  end
end
`

const copiesPerKey = 3

type keyset struct {
	thread *vm.Thread
	// reps[k-1] = several distinct-but-equal real values for model key k
	reps   [][]value.Value
	decode map[string]int // Inspect() of a builtin key -> k
	next   int
}

var idSym value.Symbol
var idOnce sync.Once

func (ks *keyset) key(k int) value.Value {
	ks.next++
	r := ks.reps[k-1]
	return r[ks.next%len(r)]
}

func (ks *keyset) decodeKey(v value.Value) int {
	if v.IsReference() {
		if _, ok := v.AsReference().(*value.Object); ok {
			idOnce.Do(func() { idSym = value.ToSymbol("id") })
			r, err := ks.thread.CallMethodByName(idSym, v)
			if err.IsUndefined() && r.IsSmallInt() {
				return int(r.AsSmallInt())
			}
			return -7
		}
	}
	if k, ok := ks.decode[v.Inspect()]; ok {
		return k
	}
	return -8
}

func realHash(v value.Value) uint64 {
	h, err := value.Hash(v)
	if !err.IsUndefined() {
		panic("key is not hashable by value.Hash: " + v.Inspect())
	}
	return uint64(h)
}

// search finds the first value of the sequence gen(0), gen(1), ... whose real hash is congruent to want mod m.
func search(gen func(i int) value.Value, want, m int, start int) (value.Value, int) {
	for i := start; i < start+400*m+1000; i++ {
		v := gen(i)
		if int(realHash(v)%uint64(m)) == want%m {
			return v, i
		}
	}
	panic(fmt.Sprintf("no key with hash %d mod %d found", want, m))
}

var bigBase = new(big.Int).Lsh(big.NewInt(1), 70)

func genFor(family string) func(i int) value.Value {
	switch family {
	case "int":
		return func(i int) value.Value { return value.SmallInt(i + 1).ToValue() }
	case "str":
		return func(i int) value.Value { return value.Ref(value.String(fmt.Sprintf("k%d", i))) }
	case "big":
		return func(i int) value.Value {
			b := new(big.Int).Add(bigBase, big.NewInt(int64(i)))
			return value.Ref((*value.BigInt)(b))
		}
	case "float":
		return func(i int) value.Value { return value.Float(float64(i) + 0.5).ToValue() }
	case "sym":
		return func(i int) value.Value { return value.ToSymbol(fmt.Sprintf("s%d", i)).ToValue() }
	case "i64":
		return func(i int) value.Value { return value.Int64(i + 1).ToValue() }
	}
	panic("family " + family)
}

var mixedFamilies = []string{"int", "str", "obj", "float", "sym", "big"}

type keyCacheKey struct {
	family string
	want   int
	m      int
	nth    int
}

var keyCache = map[keyCacheKey]value.Value{}
var keyCacheIdx = map[keyCacheKey]int{}

func builtinKey(family string, want, m, nth int) value.Value {
	ck := keyCacheKey{family, want, m, nth}
	if family != "sym" { // symbol ids are per process but stable within it; cache all
	}
	if v, ok := keyCache[ck]; ok {
		return v
	}
	start := 0
	if nth > 0 {
		builtinKey(family, want, m, nth-1)
		start = keyCacheIdx[keyCacheKey{family, want, m, nth - 1}] + 1
	}
	v, i := search(genFor(family), want, m, start)
	keyCache[ck] = v
	keyCacheIdx[ck] = i
	return v
}

// fresh returns an equal but distinct value (another box) where the representation allows it.
func fresh(family string, v value.Value) value.Value {
	switch family {
	case "str":
		s := string(v.AsReference().(value.String))
		return value.Ref(value.String(strings.Clone(s)))
	case "big":
		b := v.AsReference().(*value.BigInt)
		return value.Ref((*value.BigInt)(new(big.Int).Set(b.ToGoBigInt())))
	}
	return v
}

// buildKeys makes the real keys of a job: key k gets a value whose hash is Hash[k] mod M; two model
// keys with the same hash get different values.
func buildKeys(j *APIJob) (*keyset, error) {
	elkrun.Setup()
	ks := &keyset{decode: map[string]int{}}
	famOf := func(k int) string {
		if j.Cfg.Family == "mixed" {
			return mixedFamilies[(k-1)%len(mixedFamilies)]
		}
		return j.Cfg.Family
	}
	needObj := false
	for k := 1; k <= j.NKeys; k++ {
		if famOf(k) == "obj" {
			needObj = true
		}
	}
	var objs []value.Value
	if needObj {
		var sb strings.Builder
		if len(j.Faults) > 0 {
			sb.WriteString(keyClassFaultSrc)
		} else {
			sb.WriteString(keyClassSrc)
		}
		sb.WriteString("[")
		first := true
		for k := 1; k <= j.NKeys; k++ {
			for c := 0; c < copiesPerKey; c++ {
				if !first {
					sb.WriteString(", ")
				}
				first = false
				fmt.Fprintf(&sb, "K(%d, %du64)", k, j.Hash[k-1])
			}
		}
		sb.WriteString("]\n")
		elk.InitGlobalEnvironment()
		checker.MethodCheckConcurrencyLimit = 1
		var flags bitfield.BitField16
		bc, diags := checker.CheckSource("keys.elk", sb.String(), nil, flags, nil)
		if bc == nil || (diags != nil && diags.IsFailure()) {
			return nil, fmt.Errorf("key class program rejected: %v", diags)
		}
		ks.thread = vm.New()
		val, err := ks.thread.InterpretTopLevel(bc)
		if !err.IsUndefined() {
			return nil, fmt.Errorf("key class program failed: %s", err.Inspect())
		}
		l, ok := val.SafeAsReference().(value.ArrayTuple)
		if !ok || l.Length() != j.NKeys*copiesPerKey {
			return nil, fmt.Errorf("key class program returned %s", val.Inspect())
		}
		for i := 0; i < l.Length(); i++ {
			objs = append(objs, l.AtVal(i))
		}
	} else {
		ks.thread = vm.New()
	}
	seen := map[string]int{} // family+hash -> how many keys so far
	for k := 1; k <= j.NKeys; k++ {
		f := famOf(k)
		if f == "obj" {
			ks.reps = append(ks.reps, objs[(k-1)*copiesPerKey:k*copiesPerKey])
			continue
		}
		tag := fmt.Sprintf("%s/%d", f, j.Hash[k-1]%j.M)
		nth := seen[tag]
		seen[tag]++
		v := builtinKey(f, j.Hash[k-1], j.M, nth)
		ks.reps = append(ks.reps, []value.Value{v, fresh(f, v), fresh(f, v)})
		ks.decode[v.Inspect()] = k
	}
	return ks, nil
}

// ---- registers -------------------------------------------------------------------------------------

type reg struct {
	m vm.HashRecord
	s vm.HashSet
}

func newReg(impl string, cap int) (reg, error) {
	switch impl {
	case "MapOV":
		return reg{m: vm.NewHashMapOfValue(cap)}, nil
	case "RecOV":
		return reg{m: vm.NewHashRecordOfValue(cap)}, nil
	case "NKMapStr":
		return reg{m: vm.NewNativeKeyHashMap[value.String](cap)}, nil
	case "NKMapI64":
		return reg{m: vm.NewNativeKeyHashMap[value.Int64](cap)}, nil
	case "NKMapSym":
		return reg{m: vm.NewNativeKeyHashMap[value.Symbol](cap)}, nil
	case "NKMapFloat":
		return reg{m: vm.NewNativeKeyHashMap[value.Float](cap)}, nil
	case "NMapStrI64":
		return reg{m: vm.NewNativeHashMap[value.String, value.Int64](cap)}, nil
	case "NMapSymI64":
		return reg{m: vm.NewNativeHashMap[value.Symbol, value.Int64](cap)}, nil
	case "NKRecStr":
		return reg{m: vm.MakeNativeKeyHashRecord[value.String](cap)}, nil
	case "NRecStrI64":
		return reg{m: vm.MakeNativeHashRecord[value.String, value.Int64](cap)}, nil
	case "SetOV":
		return reg{s: vm.NewHashSetOfValue(cap)}, nil
	case "NSetStr":
		return reg{s: vm.NewNativeHashSet[value.String](cap)}, nil
	case "NSetSym":
		return reg{s: vm.NewNativeHashSet[value.Symbol](cap)}, nil
	case "NSetI64":
		return reg{s: vm.NewNativeHashSet[value.Int64](cap)}, nil
	}
	return reg{}, fmt.Errorf("unknown implementation %q", impl)
}

func i64Valued(impl string) bool { return strings.HasSuffix(impl, "I64") && strings.HasPrefix(impl, "N") && !strings.HasPrefix(impl, "NK") && !strings.HasPrefix(impl, "NSet") }

type runner struct {
	j     *APIJob
	ks    *keyset
	th    *vm.Thread
	i64   bool
	r     [2]reg
}

func (rn *runner) val(v int) value.Value {
	if rn.i64 {
		return value.Int64(v).ToValue()
	}
	return value.SmallInt(v).ToValue()
}

func decodeVal(v value.Value) int {
	switch {
	case v.IsUndefined():
		return -2
	case v.IsNil():
		return 0
	case v.IsSmallInt():
		return int(v.AsSmallInt())
	case v.IsTrue():
		return -1
	}
	if i, ok := value.Downcast[value.Int64](v); ok {
		return int(i)
	}
	return -9
}

func errText(err value.Value) string {
	c, m := elkrun.DescribeError(err)
	return c + ": " + m
}

type stepFail struct {
	err  string
	skip string
}

// apply executes one operation on the real collections; returns the op's result (-1 = none).
func (rn *runner) apply(o OpT) (res int, fail *stepFail) {
	res = -1
	th := rn.th
	c := o.C - 1
	if rn.j.Kind == "set" {
		switch o.Op {
		case "set":
			added, err := rn.r[c].s.AppendVal(th, rn.ks.key(o.K))
			if !err.IsUndefined() {
				return res, &stepFail{err: errText(err)}
			}
			return b2i(added), nil
		case "del":
			removed, err := rn.r[c].s.RemoveVal(th, rn.ks.key(o.K))
			if !err.IsUndefined() {
				return res, &stepFail{err: errText(err)}
			}
			return b2i(removed), nil
		case "cat", "and":
			x, y := rn.r[o.X-1].s, rn.r[o.Y-1].s
			var v, err value.Value
			if o.Op == "cat" {
				v, err = x.UnionVal(th, y.ToValue())
			} else {
				v, err = x.IntersectionVal(th, y.ToValue())
			}
			if !err.IsUndefined() {
				return res, &stepFail{err: errText(err)}
			}
			s, ok := v.SafeAsReference().(vm.HashSet)
			if !ok {
				return res, &stepFail{err: "result is not a HashSet: " + v.Inspect()}
			}
			rn.r[c].s = s
		case "dup":
			cp, ok := rn.r[o.X-1].s.(value.Reference).Copy().(vm.HashSet)
			if !ok {
				return res, &stepFail{err: "Copy() is not a HashSet"}
			}
			rn.r[c].s = cp
		case "cln":
			cp, err := rn.r[o.X-1].s.CloneHashSet(th, o.K)
			if !err.IsUndefined() {
				return res, &stepFail{err: errText(err)}
			}
			rn.r[c].s = cp
		default:
			return res, &stepFail{err: "unknown op " + o.Op}
		}
		return res, nil
	}
	switch o.Op {
	case "set":
		err := rn.r[c].m.SetVal(th, rn.ks.key(o.K), rn.val(o.V))
		if !err.IsUndefined() {
			return res, &stepFail{err: errText(err)}
		}
	case "del":
		var removed bool
		var err value.Value
		switch m := rn.r[c].m.(type) {
		case *vm.HashMapOfValue:
			removed, err = vm.HashMapOfValueDelete(th, m, rn.ks.key(o.K))
		case *vm.HashRecordOfValue:
			removed, err = vm.HashRecordOfValueDelete(th, m, rn.ks.key(o.K))
		default:
			return res, &stepFail{skip: fmt.Sprintf("%T has no delete", m)}
		}
		if !err.IsUndefined() {
			return res, &stepFail{err: errText(err)}
		}
		return b2i(removed), nil
	case "cat":
		v, err := rn.r[o.X-1].m.ConcatVal(th, rn.r[o.Y-1].m.ToValue())
		if !err.IsUndefined() {
			return res, &stepFail{err: errText(err)}
		}
		m, ok := v.SafeAsReference().(vm.HashRecord)
		if !ok {
			return res, &stepFail{err: "result is not a HashRecord: " + v.Inspect()}
		}
		rn.r[c].m = m
	case "dup":
		switch m := rn.r[o.X-1].m.(type) {
		case *vm.HashRecordOfValue:
			// records are immutable at the language level (Copy() returns the receiver); clone the table
			rn.r[c].m = (*vm.HashRecordOfValue)((*vm.HashMapOfValue)(m).Clone())
		default:
			cp, ok := m.(value.Reference).Copy().(vm.HashRecord)
			if !ok {
				return res, &stepFail{err: "Copy() is not a HashRecord"}
			}
			if sameObject(cp, m) {
				cl, err := m.CloneHashRecord(th, m.Length())
				if !err.IsUndefined() {
					return res, &stepFail{err: errText(err)}
				}
				cp = cl
			}
			rn.r[c].m = cp
		}
	case "cln":
		cp, err := rn.r[o.X-1].m.CloneHashRecord(th, o.K)
		if !err.IsUndefined() {
			return res, &stepFail{err: errText(err)}
		}
		rn.r[c].m = cp
	default:
		return res, &stepFail{err: "unknown op " + o.Op}
	}
	return res, nil
}

func sameObject(a, b any) bool {
	va, vb := reflect.ValueOf(a), reflect.ValueOf(b)
	if va.Kind() != vb.Kind() {
		return false
	}
	switch va.Kind() {
	case reflect.Pointer, reflect.Map:
		return va.Pointer() == vb.Pointer()
	}
	return false
}

func b2i(b bool) int {
	if b {
		return 1
	}
	return 0
}

func (rn *runner) observe(o *Obs) {
	th := rn.th
	n := rn.j.NKeys
	for c := 0; c < 2; c++ {
		o.Get[c] = make([]int, n)
		o.Has[c] = make([]int, n)
		o.All[c] = []int{}
		o.It[c] = []int{}
		if rn.j.Kind == "set" {
			s := rn.r[c].s
			o.Types[c] = fmt.Sprintf("%T", s)
			o.Cls[c] = s.Class().Name
			o.Len[c] = s.Length()
			for k := 1; k <= n; k++ {
				has, err := s.Contains(th, rn.ks.key(k))
				if !err.IsUndefined() {
					o.Err = "contains: " + errText(err)
					return
				}
				o.Get[c][k-1] = b2i(has)
				o.Has[c][k-1] = b2i(has)
			}
			for v := range s.All() {
				o.All[c] = append(o.All[c], rn.ks.decodeKey(v)*100+1)
			}
			it := s.IterSet()
			for guard := 0; guard < 10000; guard++ {
				v, err := it.NextValue()
				if !err.IsUndefined() {
					if err != symbol.L_stop_iteration.ToValue() {
						o.Err = "iterator: " + err.Inspect()
					}
					break
				}
				if v == vm.DeletedHashSetValue {
					o.It[c] = append(o.It[c], -1)
					continue
				}
				o.It[c] = append(o.It[c], rn.ks.decodeKey(v)*100+1)
			}
			if ov, ok := s.(*vm.HashSetOfValue); ok {
				o.Lay[c] = rn.setLayout(ov)
			}
		} else {
			m := rn.r[c].m
			o.Types[c] = fmt.Sprintf("%T", m)
			o.Cls[c] = m.Class().Name
			o.Len[c] = m.Length()
			o.HasP[c] = make([]int, n)
			for k := 1; k <= n; k++ {
				v, err := m.GetValNil(th, rn.ks.key(k))
				if !err.IsUndefined() {
					o.Err = "get: " + errText(err)
					return
				}
				o.Get[c][k-1] = decodeVal(v)
				has, err := m.ContainsKey(th, rn.ks.key(k))
				if !err.IsUndefined() {
					o.Err = "contains_key: " + errText(err)
					return
				}
				o.Has[c][k-1] = b2i(has)
				hasp, err := m.Contains(th, value.NewPairOfValue(rn.ks.key(k), rn.val(1)))
				if !err.IsUndefined() {
					o.Err = "contains: " + errText(err)
					return
				}
				o.HasP[c][k-1] = b2i(hasp)
			}
			for p := range m.All() {
				o.All[c] = append(o.All[c], rn.ks.decodeKey(p.Key())*100+decodeVal(p.Value()))
			}
			it := m.IterRecord()
			for guard := 0; guard < 10000; guard++ {
				v, err := it.NextValue()
				if !err.IsUndefined() {
					if err != symbol.L_stop_iteration.ToValue() {
						o.Err = "iterator: " + err.Inspect()
					}
					break
				}
				p, ok := v.SafeAsReference().(value.Pair)
				if !ok {
					o.Err = "iterator yielded " + v.Inspect()
					break
				}
				o.It[c] = append(o.It[c], rn.ks.decodeKey(p.Key())*100+decodeVal(p.Value()))
			}
			switch ov := m.(type) {
			case *vm.HashMapOfValue:
				o.Lay[c] = rn.mapLayout(ov.Table)
			case *vm.HashRecordOfValue:
				o.Lay[c] = rn.mapLayout(ov.Table)
			}
		}
		sort.Ints(o.All[c])
		sort.Ints(o.It[c])
	}
	for d := 0; d < 2; d++ {
		var eq bool
		var err value.Value
		if rn.j.Kind == "set" {
			eq, err = rn.r[d].s.Equal(th, rn.r[1-d].s.ToValue())
		} else {
			eq, err = rn.r[d].m.Equal(th, rn.r[1-d].m.ToValue())
		}
		if !err.IsUndefined() {
			o.Err = "==: " + errText(err)
			return
		}
		o.Eq[d] = b2i(eq)
	}
}

func (rn *runner) mapLayout(tb []value.PairOfValue) []int {
	out := make([]int, len(tb))
	for i, p := range tb {
		switch {
		case !p.Key().IsUndefined():
			out[i] = rn.ks.decodeKey(p.Key())*100 + decodeVal(p.Value())
		case p.Value().IsUndefined():
			out[i] = 0
		default:
			out[i] = -1
		}
	}
	return out
}

func (rn *runner) setLayout(s *vm.HashSetOfValue) []int {
	f := reflect.ValueOf(s).Elem().FieldByName("table")
	if !f.IsValid() {
		return nil
	}
	tb := *(*[]value.Value)(unsafe.Pointer(f.UnsafeAddr()))
	out := make([]int, len(tb))
	for i, v := range tb {
		switch {
		case v.IsUndefined():
			out[i] = 0
		case v == vm.DeletedHashSetValue:
			out[i] = -1
		default:
			out[i] = rn.ks.decodeKey(v)*100 + 1
		}
	}
	return out
}

func runAPIJob(j *APIJob) (any, error) {
	ks, err := buildKeys(j)
	if err != nil {
		return nil, err
	}
	out := make([]BehResult, len(j.Behs))
	if len(j.Faults) > 0 && len(j.Faults) != len(j.Behs) {
		return nil, fmt.Errorf("%d faults for %d histories", len(j.Faults), len(j.Behs))
	}
	for bi := range j.Behs {
		var f Fault
		if len(j.Faults) > 0 {
			f = j.Faults[bi]
		}
		out[bi] = runBeh(j, ks, &j.Behs[bi], f)
	}
	return out, nil
}

var brokenSym value.Symbol
var brokenOnce sync.Once

// setBroken flips the fault switch of every object standing for model key k.
func (ks *keyset) setBroken(k, mode int) error {
	brokenOnce.Do(func() { brokenSym = value.ToSymbol("broken=") })
	for _, v := range ks.reps[k-1] {
		if _, err := ks.thread.CallMethodByName(brokenSym, v, value.SmallInt(mode).ToValue()); !err.IsUndefined() {
			return fmt.Errorf("broken=: %s", err.Inspect())
		}
	}
	return nil
}

func runBeh(j *APIJob, ks *keyset, b *Beh, fault Fault) (br BehResult) {
	rn := &runner{j: j, ks: ks, th: ks.thread, i64: i64Valued(j.Cfg.Impl[0]) || i64Valued(j.Cfg.Impl[1])}
	for c := 0; c < 2; c++ {
		r, err := newReg(j.Cfg.Impl[c], b.Caps[c])
		if err != nil {
			br.Last.Err = err.Error()
			return
		}
		rn.r[c] = r
	}
	for i, o := range b.Ops {
		var ob Obs
		ob.Step = i + 1
		ob.Res = -1
		stop := false
		func() {
			defer func() {
				if r := recover(); r != nil {
					st := string(debug.Stack())
					if len(st) > 3000 {
						st = st[:3000]
					}
					ob.Panic = fmt.Sprintf("%v\n%s", r, st)
					stop = true
				}
			}()
			faulted := fault.Key > 0 && i == len(b.Ops)-1
			if faulted {
				if err := ks.setBroken(fault.Key, fault.Mode); err != nil {
					ob.Err = err.Error()
					stop = true
					return
				}
			}
			res, fail := func() (int, *stepFail) {
				if faulted {
					defer ks.setBroken(fault.Key, 0)
				}
				return rn.apply(o)
			}()
			ob.Res = res
			if faulted && fail != nil && fail.skip == "" {
				ob.FaultErr, ob.Res, fail = fail.err, -1, nil
			}
			if fail != nil {
				ob.Err, ob.Skip = fail.err, fail.skip
				stop = true
				return
			}
			if j.AllObs || i == len(b.Ops)-1 {
				rn.observe(&ob)
			}
		}()
		if j.AllObs {
			br.Steps = append(br.Steps, ob)
		}
		br.Last = ob
		if stop {
			return
		}
	}
	return
}
