package c17

import (
	"encoding/json"
	"fmt"
	"os"
	"path/filepath"
	"sort"
	"strings"
	"time"

	"elkverif/internal/core"
	"elkverif/internal/tlc"
)

// M: the real keys' hashes are congruent to the model's Hash modulo M = lcm(1..12), so that the real
// table probes exactly like the model's table for every capacity that divides M.
const M = 27720

// Instance is one bounded instance of spec/HashColl (the constants of MC_HashColl).
type Instance struct {
	Name     string   `json:"name"`
	Kind     string   `json:"kind"` // map | set
	NKeys    int      `json:"nkeys"`
	Vals     []int    `json:"vals"`
	Hash     []int    `json:"hash"`
	Caps0    [][2]int `json:"caps0"`
	MaxOps   int      `json:"max_ops"`
	Simulate int      `json:"simulate,omitempty"` // >0: tlc -simulate num=<n> with depth MaxOps instead of BFS
}

// ObsT are observations predicted by the specification after a step: by the abstract layer (the
// oracle; Lay/Bad unused) or by the actual layer (the table algorithm with the recorded deviations).
type ObsT struct {
	Len [2]int   `json:"len"`
	Get [2][]int `json:"get"`
	Has [2][]int `json:"has"`
	Sub [2][]int `json:"sub"`          // `[]` operator as compiled to the SUBSCRIPT instruction (Elk level only)
	It  [2][]int `json:"it,omitempty"` // actual layer: what the iterator object yields, in table order
	Eq  [2]int   `json:"eq"`
	Res int      `json:"res"`
	Lay [2][]int `json:"lay,omitempty"`
	Bad int      `json:"bad,omitempty"`
}

type LastT struct {
	Tres int  `json:"tres"`
	Exp  ObsT `json:"exp"`
	Act  ObsT `json:"act"`
}

// GenRec is one GEN record: a history (initial capacities + operations) and the specification's
// predictions for its last step.
type GenRec struct {
	Caps  [2]int   `json:"caps"`
	Ops   []OpT    `json:"ops"`
	Last  LastT    `json:"last"`
	Fired []string `json:"fired"`
}

func (g *GenRec) Beh() Beh { return Beh{Caps: g.Caps, Ops: g.Ops} }

func tlaSeq(xs []int) string {
	s := make([]string, len(xs))
	for i, x := range xs {
		s[i] = fmt.Sprint(x)
	}
	return "<<" + strings.Join(s, ", ") + ">>"
}

func tlaSet(xs []string) string { return "{" + strings.Join(xs, ", ") + "}" }

// mcModule renders MC_HashColl.tla for an instance; deviations are those of the actual layer.
func mcModule(in *Instance, deviations []string) []byte {
	var sb strings.Builder
	sb.WriteString("---- MODULE MC_HashColl ----\nEXTENDS HashColl\n")
	fmt.Fprintf(&sb, "MCNKeys == %d\n", in.NKeys)
	vals := make([]string, len(in.Vals))
	for i, v := range in.Vals {
		vals[i] = fmt.Sprint(v)
	}
	fmt.Fprintf(&sb, "MCVals == %s\n", tlaSet(vals))
	fmt.Fprintf(&sb, "MCHash == %s\n", tlaSeq(in.Hash))
	var caps []string
	for _, c := range in.Caps0 {
		caps = append(caps, tlaSeq(c[:]))
	}
	fmt.Fprintf(&sb, "MCCaps0 == %s\n", tlaSet(caps))
	fmt.Fprintf(&sb, "MCMaxOps == %d\n", in.MaxOps)
	fmt.Fprintf(&sb, "MCKind == %q\n", in.Kind)
	var devs []string
	for _, d := range deviations {
		devs = append(devs, fmt.Sprintf("%q", d))
	}
	sort.Strings(devs)
	fmt.Fprintf(&sb, "MCDeviations == %s\n", tlaSet(devs))
	sb.WriteString("====\n")
	return []byte(sb.String())
}

func specDir() string { return filepath.Join(core.VerifRoot, "spec", "HashColl") }

// generate runs TLC on the instance, checking the refinement invariants (abstract layer vs intended
// table) on every state, and returns the histories it emitted with both predictions. deviations are
// the recorded deviations in force in the actual layer.
func generate(c *core.Ctx, in *Instance, deviations []string, coverage bool) ([]GenRec, *tlc.Result, error) {
	// developer aid (off by default): C17_CACHE=<dir> keeps TLC's output per instance, so that mutants of
	// the implementation can be tried without re-running the (implementation-independent) model checking
	cache := ""
	if dir := os.Getenv("C17_CACHE"); dir != "" {
		cache = filepath.Join(dir, fmt.Sprintf("%s-%s-%d-%s.json", in.Name, c.Tier, c.Seed, strings.Join(deviations, "+")))
		if b, err := os.ReadFile(cache); err == nil {
			var cf struct {
				Recs []GenRec
				Res  tlc.Result
			}
			if json.Unmarshal(b, &cf) == nil && len(cf.Recs) > 0 {
				return cf.Recs, &cf.Res, nil
			}
		}
	}
	var recs []GenRec
	var perr error
	opts := tlc.Opts{
		SpecDir: specDir(), Module: "MC_HashColl", Cfg: "Gen.cfg", Scratch: c.Scratch,
		Workers: minInt(c.Workers, 8), Timeout: 20 * time.Minute, Coverage: coverage,
		Extra: map[string][]byte{"MC_HashColl.tla": mcModule(in, deviations)},
		OnGen: func(b []byte) {
			var g GenRec
			if err := json.Unmarshal(b, &g); err != nil {
				if perr == nil {
					perr = fmt.Errorf("bad GEN record: %v: %.200s", err, b)
				}
				return
			}
			recs = append(recs, g)
		},
	}
	if in.Simulate > 0 {
		opts.Simulate = fmt.Sprintf("num=%d", in.Simulate)
		opts.Depth = in.MaxOps + 1
		opts.Seed = c.Seed
		opts.Workers = 1
	}
	res, err := tlc.Run(opts)
	if err != nil {
		return nil, nil, core.Inconclusivef("TLC could not run on instance %s: %v", in.Name, err)
	}
	if perr != nil {
		return nil, res, core.Inconclusivef("%v", perr)
	}
	if !res.OK {
		return nil, res, core.Inconclusivef("TLC on instance %s (intended algorithm): %s %s\n%s", in.Name, res.Verdict, res.What, tailStr(res.ErrorTrace+res.Output, 3000))
	}
	if cache != "" {
		res.Output, res.ErrorTrace = "", ""
		if b, err := json.Marshal(map[string]any{"Recs": recs, "Res": res}); err == nil {
			os.WriteFile(cache, b, 0o644)
		}
	}
	return recs, res, nil
}

func minInt(a, b int) int {
	if a < b {
		return a
	}
	return b
}

func tailStr(s string, n int) string {
	if len(s) <= n {
		return s
	}
	return s[len(s)-n:]
}
