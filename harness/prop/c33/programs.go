package c33

import (
	"fmt"
	"strings"
)

// Prog is one non-terminating program shape.
type Prog struct {
	Name  string // shape id, e.g. "while/continue"
	Class string // loop | recursion | blocking
	Src   string
}

const prelude = "def o(v: any) then println \"#{v}\"\n"

// loop heads: how each loop kind is written so that it never terminates (the condition is not a
// compile-time constant where the syntax allows, so that the general loop code is emitted too)
type loopKind struct {
	name, pre, head string
}

var loopKinds = []loopKind{
	{"loop", "", "loop"},
	{"while_true", "", "while true"},
	{"while_var", "var go_on: Bool = true\n", "while go_on"},
	{"until_false", "", "until false"},
	{"until_var", "var stop: Bool = false\n", "until stop"},
	{"fornum_endless", "", "fornum ;;"},
	{"fornum_cond", "", "fornum j := 0; j >= 0; j = j + 1"},
	{"fornum_noinc", "", "fornum j := 0; j >= 0;"},
	{"forin_endless_range", "", "for j in 1..."},
}

// loop bodies (the variable n exists; the body must not terminate the loop)
var bodies = []struct{ name, text string }{
	{"arith", "n = n + 1"},
	{"continue", "n = n + 1\ncontinue"},
	{"continue_if", "n = n + 1\ncontinue if n % 2 == 0\nn = n + 2"},
	{"continue_in_do", "do\n  n = n + 1\n  continue\ncatch :a\n  n = 0\nend"},
	{"continue_in_finally_body", "do\n  n = n + 1\n  continue\nfinally\n  n = n + 1\nend"},
	{"catch_every_iteration", "do\n  throw unchecked :a\ncatch :a\n  n = n + 1\nend"},
	{"call", "n = inc(n)"},
	{"closure_call", "n = k.(n)"},
	{"inner_finite_loop", "for q in 1...3\n  n = n + q\nend"},
	{"inner_endless_loop", "loop\n  n = n + 1\nend"},
	{"inner_endless_continue", "loop\n  n = n + 1\n  continue\nend"},
	{"list_comprehension", "l := [q * n for q in 1...3]\nn = n + l.length"},
}

func indent(s string, by string) string {
	return by + strings.ReplaceAll(s, "\n", "\n"+by)
}

// LoopPrograms: every loop kind x body, at top level and inside a method.
func LoopPrograms() []Prog {
	var out []Prog
	for _, k := range loopKinds {
		for _, b := range bodies {
			common := "def inc(a: Int): Int then a + 1\nk := |a: Int|: Int -> a + 1\n"
			top := prelude + common + "var n: Int = 0\n" + k.pre + k.head + "\n" + indent(b.text, "  ") + "\nend\n"
			out = append(out, Prog{Name: fmt.Sprintf("top/%s/%s", k.name, b.name), Class: "loop", Src: top})
			inMethod := prelude + "def inc(a: Int): Int then a + 1\ndef run: Int\n  k := |a: Int|: Int -> a + 1\n  var n: Int = 0\n" +
				indent(k.pre+k.head+"\n"+indent(b.text, "  ")+"\nend", "  ") + "\n  n\nend\nrun()\n"
			out = append(out, Prog{Name: fmt.Sprintf("method/%s/%s", k.name, b.name), Class: "loop", Src: inMethod})
		}
	}
	// modifier loops
	for _, m := range []struct{ name, text string }{
		{"modifier_while_true", "n = n + 1 while true"},
		{"modifier_until_false", "n = n + 1 until false"},
		{"modifier_while_var", "var go_on: Bool = true\nn = n + 1 while go_on"},
		{"modifier_until_var", "var stop: Bool = false\nn = n + 1 until stop"},
		{"modifier_for_endless", "(n = n + j) for j in 1..."},
	} {
		out = append(out, Prog{Name: "top/" + m.name, Class: "loop", Src: prelude + "var n: Int = 0\n" + m.text + "\n"})
	}
	return out
}

func RecursionPrograms() []Prog {
	p := func(name, body string) Prog { return Prog{Name: "recursion/" + name, Class: "recursion", Src: prelude + body} }
	return []Prog{
		p("tail_explicit_return", "def spin(n: Int): Int\n  return spin(n + 1)\nend\nspin(0)\n"),
		p("tail_implicit", "def spin(n: Int): Int\n  spin(n + 1)\nend\nspin(0)\n"),
		p("tail_one_liner", "def spin(n: Int): Int then spin(n + 1)\nspin(0)\n"),
		p("tail_in_if", "def spin(n: Int): Int\n  if n >= 0\n    spin(n + 1)\n  else\n    0\n  end\nend\nspin(0)\n"),
		p("mutual_tail", "def ping(n: Int): Int\n  pong(n + 1)\nend\ndef pong(n: Int): Int\n  ping(n + 1)\nend\nping(0)\n"),
		p("mutual_tail_explicit", "def ping(n: Int): Int\n  return pong(n + 1)\nend\ndef pong(n: Int): Int\n  return ping(n + 1)\nend\nping(0)\n"),
		p("method_tail_on_object", "class Sp\n  def spin(n: Int): Int\n    self.spin(n + 1)\n  end\nend\nSp().spin(0)\n"),
		p("closure_self_call_loop", "var f: (|n: Int|: Int)? = nil\ng := |n: Int|: Int -> n + 1\nvar n: Int = 0\nloop\n  n = g.(n)\nend\n"),
		p("recursion_with_loop_inside", "def walk(d: Int): Int\n  var n: Int = 0\n  loop\n    n = n + 1\n  end\n  walk(d + 1)\nend\nwalk(0)\n"),
	}
}

func BlockingPrograms() []Prog {
	p := func(name, body string) Prog { return Prog{Name: "blocking/" + name, Class: "blocking", Src: prelude + body} }
	return []Prog{
		p("channel_pop_operator", "ch := Channel::[Int]()\nv := <<ch\no(v)\n"),
		p("channel_pop_in_method", "def take(ch: Channel[Int]): Int\n  v := <<ch\n  1\nend\no(take(Channel::[Int]()))\n"),
		p("channel_pop_method", "ch := Channel::[Int]()\ndo\n  v := ch.pop\n  o(v)\ncatch Channel::ClosedError() as e\n  o(0)\nend\n"),
		p("channel_push_unbuffered", "ch := Channel::[Int]()\nch << 1\no(1)\n"),
		p("channel_push_full", "ch := Channel::[Int](1)\nch << 1\nch << 2\no(1)\n"),
		p("channel_iterate", "ch := Channel::[Int]()\nfor v in ch\n  o(v)\nend\n"),
		p("channel_iterate_in_method", "def drain(ch: Channel[Int]): Int\n  var n: Int = 0\n  for v in ch\n    n = n + v\n  end\n  n\nend\no(drain(Channel::[Int]()))\n"),
		p("select_nothing_ready", "a := Channel::[Int]()\nb := Channel::[Int]()\nselect\ncase v := <<a\n  o(v)\ncase b << 1\n  o(2)\nend\n"),
		p("select_in_loop", "a := Channel::[Int]()\nloop\n  select\n  case v := <<a\n    o(v)\n  end\nend\n"),
		p("await_sync_never_resolved", "async def stuck(ch: Channel[Int]): Int\n  v := <<ch\n  1\nend\nch := Channel::[Int]()\no(stuck(ch).await_sync)\n"),
		p("await_in_async_never_resolved", "async def stuck(ch: Channel[Int]): Int\n  v := <<ch\n  1\nend\nasync def outer(ch: Channel[Int]): Int\n  await stuck(ch)\nend\nch := Channel::[Int]()\no(outer(ch).await_sync)\n"),
		p("waitgroup_wait", "wg := Sync::WaitGroup(1)\nwg.wait\no(1)\n"),
		p("sleep_long", "sleep 60.seconds\no(1)\n"),
		p("sleep_in_loop", "loop\n  sleep 10.milliseconds\nend\n"),
		// one check site, slow iterations: a check that polls the context only every n-th time it is reached keeps
		// this loop alive for n x 60 ms (the confirmation grace is 20 s); the first iterations are fast so that the check
		// site has been reached before any cancellation delay expires
		p("slow_iterations_single_check_site", "var n: Int = 0\nloop\n  sleep 60.milliseconds if n > 5\n  n = n + 1\nend\n"),
		p("mutex_lock_twice", "m := Sync::Mutex()\nm.lock\nm.lock\no(1)\n"),
		p("thread_spinning_child_and_waiting_parent", "wg := Sync::WaitGroup(1)\ngo\n  var n: Int = 0\n  loop\n    n = n + 1\n  end\nend\nwg.wait\n"),
	}
}
