// Package c33: cancellation stops any running program (spec/Bytecode/Cancel.tla + cancelled runs).
package c33

import (
	"encoding/json"
	"fmt"
	"path/filepath"
	"regexp"
	"sort"
	"strconv"
	"strings"
	"time"

	"elkverif/internal/core"
	"elkverif/internal/elkrun"
	"elkverif/internal/tlc"
	"elkverif/prop/c29"
)

func init() {
	core.Register(&core.Check{ID: "C33", Level: "model_checking", Run: run})
	core.RegisterJob("c33.run", func(p json.RawMessage) (any, error) {
		var j elkrun.Job
		if err := json.Unmarshal(p, &j); err != nil {
			return nil, err
		}
		r := elkrun.Run(&j)
		if r.Hung || r.GoPanic != "" {
			core.RequestWorkerRestart() // a spinning goroutine was left behind
		}
		return r, nil
	})
}

const maxDepth = 14

type cycle struct {
	F   int    `json:"f"`
	K   string `json:"k"`
	Q   int    `json:"q"`
	N   int    `json:"n"`
	Via string `json:"via"`
	P   int    `json:"p"`
	G   int    `json:"g"`
}

func run(c *core.Ctx) error {
	pool := c.NewPool(c.Workers)
	progs := append(append(LoopPrograms(), RecursionPrograms()...), BlockingPrograms()...)
	if !c.Thorough() {
		// quick: a seeded eighth of the loop shapes, every recursion and blocking shape
		var pick []Prog
		var loops []Prog
		for _, p := range progs {
			if p.Class == "loop" {
				loops = append(loops, p)
			} else {
				pick = append(pick, p)
			}
		}
		for _, i := range c.SampleIdx(len(loops), len(loops)/8) {
			pick = append(pick, loops[i])
		}
		progs = pick
	}
	sort.SliceStable(progs, func(i, j int) bool { return progs[i].Name < progs[j].Name })

	// ================= static half: TLC over the CFG of every function compiled with abort checks
	var srcs []c29.Source
	for _, p := range progs {
		srcs = append(srcs, c29.Source{Desc: p.Name, Text: p.Src})
	}
	cp, err := c29.CompileOpt(c, pool, srcs, true, 12, false)
	if err != nil {
		return err
	}
	c.Logf("static: %d programs, %d accepted, %d rejected, %d functions", len(progs), cp.Accepted, cp.Rejected, len(cp.Fns))
	for _, n := range cp.RejNotes {
		c.Note("rejected by the checker (out of domain): " + n)
	}
	if cp.Rejected*4 > len(progs) {
		return core.Inconclusivef("%d of %d program shapes were rejected by the checker", cp.Rejected, len(progs))
	}
	tot := struct{ states, transitions int64 }{}
	cycles, res, err := runCancel(c, cp.Fns, cp.OpNames, "Cycles.cfg")
	if err != nil {
		return err
	}
	if !res.OK {
		return core.Inconclusivef("TLC Cycles.cfg: verdict=%s %s\n%s", res.Verdict, res.What, tail(res.Output, 2000))
	}
	tot.states += res.Distinct
	tot.transitions += res.Generated
	// per program: does the specification predict a checkpoint-free cycle?
	predicted := map[string]*cycle{} // program name -> first cycle
	badSrc := map[int]bool{}
	for i := range cycles {
		cy := &cycles[i]
		f := cp.Fns[cy.F-1]
		name := cp.Origin[f.ID].Desc
		if predicted[name] == nil {
			predicted[name] = cy
		}
		badSrc[f.Src] = true
	}
	c.Logf("static: TLC found checkpoint-free cycles in %d programs (%d states, %d transitions)", len(predicted), res.Distinct, res.Generated)

	// liveness proper on the programs without a cycle: EventuallyCheckpoint must hold
	var good []*c29.Fn
	remap := map[int]int{}
	for _, f := range cp.Fns {
		if !badSrc[f.Src] {
			g := *f
			g.ID = len(good) + 1
			remap[f.ID] = g.ID
			good = append(good, &g)
		}
	}
	for _, g := range good {
		vt := make([]int, len(g.VTail))
		for i, t := range g.VTail {
			vt[i] = remap[t]
		}
		g.VTail = vt
	}
	liveOK := 0
	if len(good) > 0 {
		_, lres, err := runCancel(c, good, cp.OpNames, "Live.cfg")
		if err != nil {
			return err
		}
		tot.states += lres.Distinct
		tot.transitions += lres.Generated
		if !lres.OK {
			if lres.Verdict == "temporal" || lres.Verdict == "invariant" {
				return core.Inconclusivef("TLC Live.cfg contradicts Cycles.cfg on the cycle-free programs: %s %s\n%s", lres.Verdict, lres.What, tail(lres.ErrorTrace, 2500))
			}
			return core.Inconclusivef("TLC Live.cfg: verdict=%s %s\n%s", lres.Verdict, lres.What, tail(lres.Output, 2000))
		}
		liveOK = len(good)
		c.Logf("static: EventuallyCheckpoint holds on %d functions of the cycle-free programs (%d states)", len(good), lres.Distinct)
	}

	// ================= dynamic half: cancel the running programs
	delays := [][2]int{{3, 40}, {60, 160}, {250, 450}}
	type runT struct {
		prog  Prog
		delay int
	}
	var runs []runT
	for _, p := range progs {
		if c.Thorough() {
			for _, d := range delays {
				runs = append(runs, runT{p, d[0] + c.Rand.Intn(d[1]-d[0])})
			}
		} else {
			d := delays[c.Rand.Intn(len(delays))]
			runs = append(runs, runT{p, d[0] + c.Rand.Intn(d[1]-d[0])})
		}
	}
	exec := func(rs []runT, graceMs int) []elkrun.Result {
		var jobs []core.Job
		for _, r := range rs {
			jobs = append(jobs, core.Job{Kind: "c33.run", Payload: elkrun.Job{Src: r.prog.Src, AbortCheck: true, CancelMs: r.delay, RunMs: r.delay + graceMs}, TimeoutMs: r.delay + graceMs + 30000})
		}
		out := make([]elkrun.Result, len(rs))
		for i, jr := range pool.Map(jobs, nil) {
			switch {
			case jr.Crashed:
				out[i].Accepted = true
				out[i].GoPanic = "worker process died: " + first(jr.CrashLog, 600)
			case jr.Timeout:
				out[i].Accepted = true
				out[i].Hung = true
			case jr.Err != "" || jr.Panic != "":
				out[i].GoPanic = "harness: " + jr.Err + first(jr.Panic, 300)
			default:
				jr.Decode(&out[i])
			}
		}
		return out
	}
	t0 := time.Now()
	results := exec(runs, 2500)
	c.Logf("dynamic: %d cancelled runs in %.1fs", len(runs), time.Since(t0).Seconds())

	aborted, ood, slow := 0, 0, 0
	var hung []int
	classes := map[string]int{}
	for i, r := range results {
		p := runs[i].prog
		switch {
		case !r.Accepted:
			ood++
		case isAborted(&r):
			aborted++
			classes[p.Class]++
			if aborted%37 == 1 {
				c.Sample(map[string]any{"program": p.Name, "cancel_after_ms": runs[i].delay, "outcome": r.ErrClass, "wall_ms": r.WallMs})
			}
		case r.Hung:
			hung = append(hung, i)
		default:
			// finished by itself / failed for another reason before the cancellation: not a cancellation run
			ood++
			c.Note(fmt.Sprintf("not a non-terminating run: %s ended with %s %s %s", p.Name, r.Outcome(), r.ErrClass, first(r.ErrMsg+r.GoPanic, 120)))
		}
	}
	// confirm hangs with a 20 s grace: all that the specification does not predict, and a few that it does
	var confirm []int
	nPred := 0
	for _, i := range hung {
		if predicted[runs[i].prog.Name] == nil {
			confirm = append(confirm, i)
		} else if nPred < c.Pick(2, 12) {
			nPred++
			confirm = append(confirm, i)
		}
	}
	confirmed := map[int]string{}
	if len(confirm) > 0 {
		var rs []runT
		for _, i := range confirm {
			rs = append(rs, runs[i])
		}
		t1 := time.Now()
		again := exec(rs, 20000)
		c.Logf("dynamic: %d hangs re-run with 20 s grace in %.1fs", len(confirm), time.Since(t1).Seconds())
		for k, i := range confirm {
			switch {
			case again[k].Hung:
				confirmed[i] = "still running 20 s after the cancellation"
			case isAborted(&again[k]):
				confirmed[i] = ""
				slow++
			default:
				confirmed[i] = ""
				ood++
			}
		}
	}
	for _, i := range hung {
		p := runs[i].prog
		how, wasConfirmed := confirmed[i]
		if wasConfirmed && how == "" {
			continue // aborted within 20 s: slow machine, not a hang
		}
		cy := predicted[p.Name]
		rec := map[string]any{
			"kind": "runs_on_after_cancel", "program": p.Name, "class": p.Class, "cancel_after_ms": runs[i].delay, "source": p.Src,
			"static": "no checkpoint-free cycle predicted", "cause": "",
		}
		if p.Class == "blocking" {
			rec["cause"] = "blocking_operation_ignores_the_context"
		}
		if !wasConfirmed {
			how = "still running 3 s after the cancellation (the specification predicts it; representatives of this finding were confirmed at 20 s)"
		}
		if cy != nil {
			f := cp.Fns[cy.F-1]
			rec["static"] = fmt.Sprintf("checkpoint-free cycle in %s: offset %d is executed again via %s at %d after %d instructions without a checkpoint", f.Name, cy.Q, cy.Via, cy.P, cy.N)
			rec["cause"] = causeOf(cy, cp.Fns[cy.G-1], cp.OpNames)
			rec["code"] = f.Code
		}
		rec["summary"] = fmt.Sprintf("%s: %s; static: %v", p.Name, how, rec["static"])
		c.Violation(rec)
	}
	// a predicted cycle that was not observed as a hang is reported as well (the static property is violated)
	for name, cy := range predicted {
		seenHang := false
		for _, i := range hung {
			if runs[i].prog.Name == name {
				seenHang = true
			}
		}
		if seenHang {
			continue
		}
		f := cp.Fns[cy.F-1]
		c.Violation(map[string]any{
			"kind": "checkpoint_free_cycle", "program": name, "function": f.Name, "cause": causeOf(cy, cp.Fns[cy.G-1], cp.OpNames), "code": f.Code,
			"source": cp.Origin[f.ID].Text,
			"summary": fmt.Sprintf("%s: checkpoint-free cycle in %s: offset %d is executed again via %s at %d (not observed as a hang in this run)", name, f.Name, cy.Q, cy.Via, cy.P),
		})
	}

	c.Cov("spec", "spec/Bytecode/Cancel.tla (EXTENDS Bytecode): Cycles.cfg (safety form, one GEN record per checkpoint-free cycle), Live.cfg (PROPERTY EventuallyCheckpoint under WF, INVARIANT NoCheckpointFreeCycle)")
	c.Cov("states", int(tot.states))
	c.Cov("transitions", int(tot.transitions))
	c.Cov("functions_checked", len(cp.Fns))
	c.Cov("functions_live_ok", liveOK)
	c.Cov("programs_with_predicted_cycle", len(predicted))
	c.Cov("traces_validated_against_impl", aborted+len(hung))
	c.Cov("cancelled_runs", len(runs))
	c.Cov("aborted_promptly", aborted)
	c.Cov("aborted_by_class", classes)
	c.Cov("hung", len(hung))
	c.Cov("slow_aborts", slow)
	c.Cov("not_cancellation_runs", ood)
	c.Logf("dynamic: aborted=%d hung=%d slow=%d other=%d; violations=%d", aborted, len(hung), slow, ood, c.Violations())
	if aborted == 0 {
		return core.Inconclusivef("no run was aborted")
	}
	if ood*3 > len(runs) {
		return core.Inconclusivef("%d of %d runs were not cancellation runs (rejected or terminated by themselves)", ood, len(runs))
	}
	return nil
}

func isAborted(r *elkrun.Result) bool {
	return strings.Contains(r.ErrClass, "ExecutionAbortedError") || strings.Contains(r.ErrMsg, "ExecutionAbortedError") ||
		strings.Contains(r.ErrClass+r.ErrMsg, "execution aborted") || strings.Contains(strings.ToLower(r.ErrMsg), "aborted")
}

// causeOf names the shape of a checkpoint-free cycle for the known-findings key.
func causeOf(cy *cycle, g *c29.Fn, opnames []string) string {
	hasCheck := false
	for _, off := range g.DisOff {
		if off < len(g.Code) && opnames[g.Code[off]] == "CHECK_ABORT" {
			hasCheck = true
		}
	}
	switch {
	case !hasCheck:
		// compiled with AdditionalAbortChecks, yet the function contains no CHECK_ABORT at all (not even before its return)
		return "function_compiled_without_abort_checks"
	case cy.G != cy.F || (cy.Q == 0 && strings.HasPrefix(cy.Via, "CALL_METHOD")):
		return "tail_call_before_check"
	case cy.Via == "LOOP":
		// Is this the back-edge of a `continue`? Then the loop's regular back-edge (a later LOOP to the same
		// target) exists and is preceded by CHECK_ABORT. Otherwise the loop itself was compiled without a check.
		target := func(p int) int { return p + 3 - (g.Code[p+1]*256 + g.Code[p+2]) }
		for _, off := range g.DisOff {
			if off > cy.P && off+2 < len(g.Code) && opnames[g.Code[off]] == "LOOP" && target(off) == target(cy.P) &&
				off >= 1 && opnames[g.Code[off-1]] == "CHECK_ABORT" {
				return "continue_jumps_back_past_the_check"
			}
		}
		return "loop_backedge_without_check"
	case cy.Via == "JUMP_TO_FINALLY":
		return "continue_through_finally_past_the_check"
	}
	return "other:" + cy.Via
}

var reState = regexp.MustCompile(`(?m)^/\\ fi = (\d+)`)

func runCancel(c *core.Ctx, fns []*c29.Fn, opnames []string, cfg string) ([]cycle, *tlc.Result, error) {
	var cycles []cycle
	var perr error
	res, err := tlc.Run(tlc.Opts{
		SpecDir: filepath.Join(core.VerifRoot, "spec", "Bytecode"), Module: "MC_Cancel", Cfg: cfg,
		Scratch: c.Scratch, Workers: c.Workers, Timeout: 10 * time.Minute, HeapMB: 4000,
		Extra: c29.SpecFiles("Cancel", fns, opnames, nil, nil, maxDepth),
		OnGen: func(b []byte) {
			var cy cycle
			if e := json.Unmarshal(b, &cy); e != nil {
				perr = fmt.Errorf("bad GEN record: %v: %s", e, b)
				return
			}
			if cy.K == "cycle" {
				cycles = append(cycles, cy)
			}
		},
	})
	if err != nil {
		return nil, nil, err
	}
	if perr != nil {
		return nil, nil, perr
	}
	_ = strconv.Itoa
	_ = reState
	return cycles, res, nil
}

func first(s string, n int) string {
	if len(s) > n {
		return s[:n]
	}
	return s
}

func tail(s string, n int) string {
	if len(s) > n {
		return s[len(s)-n:]
	}
	return s
}
