// Package c13: closures capture variables, not values. Programs over the cell-based closure
// fragment of spec/ElkCore (closures capture CELLS; calls create fresh cells; loops create a fresh
// cell per iteration), replayed on the real VM under several initial value-stack sizes so that
// upvalues are also exercised across stack growth.
package c13

import (
	"fmt"
	"math/rand"

	"elkverif/internal/core"
	. "elkverif/internal/elkcore"
	"elkverif/internal/elkrun"
)

func init() {
	core.Register(&core.Check{ID: "C13", Level: "model_checking", Run: run})
}

const cloTy = "||: Int"

type gen struct {
	rng  *rand.Rand
	n    int
	defs map[string]M
}

func (g *gen) v(p string) string { g.n++; return fmt.Sprintf("%s%d", p, g.n) }

type svar struct {
	name string
	kind string // int | clo
}

func ints(sc []svar) []string {
	var out []string
	for _, v := range sc {
		if v.kind == "int" {
			out = append(out, v.name)
		}
	}
	return out
}
func clos(sc []svar) []string {
	var out []string
	for _, v := range sc {
		if v.kind == "clo" {
			out = append(out, v.name)
		}
	}
	return out
}

func (g *gen) expr(sc []svar) M {
	is := ints(sc)
	if len(is) == 0 || g.rng.Intn(4) == 0 {
		return Int(g.rng.Intn(5))
	}
	a := Var(is[g.rng.Intn(len(is))])
	switch g.rng.Intn(3) {
	case 0:
		return a
	case 1:
		return Bin("+", a, Int(1+g.rng.Intn(3)))
	default:
		// reduced modulo a prime: a value fed back through several closure calls must stay inside TLC's 32-bit integers
		return Bin("%", Bin("+", Bin("*", a, Int(10)), Var(is[g.rng.Intn(len(is))])), Int(99991))
	}
}

// block generates statements; closures nest up to depth levels.
func (g *gen) block(sc []svar, depth int, n int) (L, []svar) {
	var out L
	for i := 0; i < n; i++ {
		is := ints(sc)
		cs := clos(sc)
		switch k := g.rng.Intn(10); {
		case k < 2 || len(is) == 0:
			nm := g.v("x")
			out = append(out, Let(nm, "Int", g.expr(sc)))
			sc = append(sc, svar{nm, "int"})
		case k < 4:
			out = append(out, Set(is[g.rng.Intn(len(is))], g.expr(sc)))
		case k < 5:
			out = append(out, Print(Var(is[g.rng.Intn(len(is))])))
		case k < 7 && depth > 0:
			nm := g.v("k")
			var params []string
			inner := append([]svar{}, sc...)
			if g.rng.Intn(2) == 0 {
				p := g.v("a")
				params = []string{p}
				inner = append(inner, svar{p, "int"})
			}
			body, bsc := g.block(inner, depth-1, 1+g.rng.Intn(3))
			body = append(body, Return(g.expr(bsc)))
			out = append(out, Lam(nm, params, "Int", body))
			kind := "clo"
			if len(params) > 0 {
				kind = "clo1"
			}
			sc = append(sc, svar{nm, kind})
		case len(cs) > 0 && k < 9:
			r := g.v("r")
			out = append(out, CallCDecl(r, cs[g.rng.Intn(len(cs))]), Print(Var(r)))
			sc = append(sc, svar{r, "int"})
		default:
			var c1 []string
			for _, v := range sc {
				if v.kind == "clo1" {
					c1 = append(c1, v.name)
				}
			}
			if len(c1) > 0 {
				r := g.v("r")
				out = append(out, CallCDecl(r, c1[g.rng.Intn(len(c1))], g.expr(sc)), Print(Var(r)))
				sc = append(sc, svar{r, "int"})
			} else if len(is) > 0 {
				out = append(out, Print(g.expr(sc)))
			}
		}
	}
	return out, sc
}

// random program: nested closures reading and writing captured variables
func (g *gen) random(id int) M {
	g.n = 0
	g.defs = map[string]M{}
	body, sc := g.block(nil, 3, 6+g.rng.Intn(6))
	// call every closure once more at the end and print every int
	for _, c := range clos(sc) {
		r := g.v("r")
		body = append(body, CallCDecl(r, c), Print(Var(r)))
	}
	for _, i := range ints(sc) {
		body = append(body, Print(Var(i)))
	}
	body = append(body, Return(Int(0)))
	g.defs["main_"] = Def(nil, "Int", false, body)
	p := Prog(id, g.defs)
	p["desc"] = "random nested closures"
	p["tags"] = ""
	return p
}

// ---- fixed shapes ------------------------------------------------------------------------------

// maker: a method returns a closure over its parameter and a local; two instances are independent,
// each keeps its variables after the defining frame returned; deep: the maker is reached through a
// recursion of `deep` frames so that the frame sits high on the value stack (stack growth).
func maker(id int, calls int, deep int) M {
	defs := map[string]M{}
	defs["mk"] = Def([]string{"a"}, cloTy, false, B(
		Let("x", "Int", Bin("*", Var("a"), Int(10))),
		Lam("inc", nil, "Int", B(Set("x", Bin("+", Var("x"), Var("a"))), Return(Var("x")))),
		CallCDecl("r0", "inc"), Print(Var("r0")), Print(Var("x")),
		Return(Var("inc")),
	))
	defs["rec"] = Def([]string{"n", "a"}, cloTy, false, B(
		Let("pad", "Int", Bin("+", Var("n"), Int(1))),
		If(Bin("<=", Var("n"), Int(0)), B(CallDecl("c", "mk", Var("a")), Return(Var("c"))), L{}),
		CallDecl("c2", "rec", Bin("-", Var("n"), Int(1)), Var("a")),
		Print(Var("pad")),
		Return(Var("c2")),
	))
	body := B(CallDecl("c1", "rec", Int(deep), Int(1)), CallDecl("c2", "rec", Int(deep), Int(2)))
	for i := 0; i < calls; i++ {
		body = append(body, CallCDecl(fmt.Sprintf("a%d", i), "c1"), Print(Var(fmt.Sprintf("a%d", i))),
			CallCDecl(fmt.Sprintf("b%d", i), "c2"), Print(Var(fmt.Sprintf("b%d", i))))
	}
	body = append(body, Return(Int(0)))
	defs["main_"] = Def(nil, "Int", false, body)
	p := Prog(id, defs)
	p["desc"] = fmt.Sprintf("maker calls=%d deep=%d", calls, deep)
	p["tags"] = ""
	return p
}

// Dormant: a closure over a local of main stays dormant while a plain recursion of the given depth
// grows the value stack under it; afterwards the closure and the frame must still share the variable.
func Dormant(id, depth int) M {
	defs := map[string]M{
		"down": Def([]string{"n"}, "Int", false, B(
			Let("loc", "Int", Bin("*", Var("n"), Int(2))),
			If(Bin("<=", Var("n"), Int(0)), B(Return(Int(0))), L{}),
			CallDecl("r", "down", Bin("-", Var("n"), Int(1))),
			Return(Bin("+", Bin("+", Var("r"), Int(1)), Bin("-", Var("loc"), Var("loc")))))),
	}
	body := B(Let("x", "Int", Int(7)), Let("y", "Int", Int(100)),
		Lam("inc", nil, "Int", B(Set("x", Bin("+", Var("x"), Int(1))), Return(Var("x")))),
		Lam("get", nil, "Int", B(Return(Bin("+", Var("x"), Var("y"))))),
		CallCDecl("a", "inc"), Print(Var("a")),
		CallDecl("d", "down", Int(depth)), Print(Var("d")),
		Set("x", Bin("+", Var("x"), Int(10))), Set("y", Int(200)),
		CallCDecl("b", "inc"), Print(Var("b")), Print(Var("x")),
		CallCDecl("g", "get"), Print(Var("g")), Return(Int(0)))
	defs["main_"] = Def(nil, "Int", false, body)
	p := Prog(id, defs)
	p["desc"] = fmt.Sprintf("dormant closures across a recursion of depth %d", depth)
	p["tags"] = ""
	return p
}

// nested3b: the innermost closure reaches two variables of the outermost scope through the middle
// closure's upvalues and also uses the middle closure's parameter and local (slot numbers collide).
func nested3b(id int, variant int) M {
	inner := Lam("k3", nil, "Int", B(
		Set("x", Bin("+", Var("x"), Var("p"))), Set("z", Bin("+", Var("z"), Var("y"))),
		Return(Bin("+", Bin("*", Var("x"), Int(1000)), Bin("+", Bin("*", Var("z"), Int(10)), Var("p"))))))
	midBody := B(Let("y", "Int", Bin("+", Var("p"), Int(1))), inner, CallCDecl("a", "k3"), Print(Var("a")), CallCDecl("b", "k3"), Print(Var("p")), Print(Var("y")), Return(Var("b")))
	if variant == 1 {
		midBody = B(inner2(), CallCDecl("a", "k3"), Print(Var("a")), Print(Var("p")), Return(Var("a")))
	}
	mid := Lam("k2", []string{"p"}, "Int", midBody)
	body := B(Let("x", "Int", Int(1)), Let("z", "Int", Int(2)), mid,
		CallCDecl("r1", "k2", Int(3)), Print(Var("r1")), Print(Var("x")), Print(Var("z")),
		CallCDecl("r2", "k2", Int(5)), Print(Var("r2")), Print(Var("x")), Print(Var("z")), Return(Int(0)))
	p := Prog(id, map[string]M{"main_": Def(nil, "Int", false, body)})
	p["desc"] = fmt.Sprintf("nested3b variant=%d", variant)
	p["tags"] = ""
	return p
}

func inner2() M {
	return Lam("k3", nil, "Int", B(
		Set("x", Bin("+", Var("x"), Int(100))), Set("z", Bin("+", Var("z"), Int(1000))),
		Return(Bin("+", Bin("+", Var("x"), Var("z")), Var("p")))))
}

// tailCapture: a method captures a local in a closure and then leaves through a tail call that
// passes the closure on; the captured variable must survive the re-use of the frame.
func tailCapture(id int, variant int) M {
	defs := map[string]M{}
	idDef := Def([]string{"c", "pad"}, cloTy, false, B(Let("q", "Int", Bin("*", Var("pad"), Int(3))), Print(Var("q")), Return(Var("c"))))
	idDef["ptypes"] = L{cloTy, "Int"}
	defs["pass"] = idDef
	body := B(Let("x", "Int", Bin("*", Var("a"), Int(10))),
		Lam("inc", nil, "Int", B(Set("x", Bin("+", Var("x"), Int(1))), Return(Var("x")))))
	if variant%2 == 1 {
		body = append(body, CallCDecl("r0", "inc"), Print(Var("r0")))
	}
	body = append(body, TCall("pass", Var("inc"), Int(100+variant)))
	defs["mk"] = Def([]string{"a"}, cloTy, false, body)
	main := B(CallDecl("c1", "mk", Int(3)), CallCDecl("v1", "c1"), Print(Var("v1")), CallCDecl("v2", "c1"), Print(Var("v2")),
		CallDecl("c2", "mk", Int(4)), CallCDecl("w1", "c2"), Print(Var("w1")), CallCDecl("v3", "c1"), Print(Var("v3")), Return(Int(0)))
	defs["main_"] = Def(nil, "Int", false, main)
	p := Prog(id, defs)
	p["desc"] = fmt.Sprintf("closure over a local survives a tail call variant=%d", variant)
	p["tags"] = "capture_then_tail_call"
	return p
}

// shared: two closures and the enclosing scope share one variable
func shared(id int, order int) M {
	ops := []M{
		CallCDecl("r1", "inc"), Print(Var("r1")),
		Set("x", Bin("*", Var("x"), Int(2))), Print(Var("x")),
		CallCDecl("r2", "get"), Print(Var("r2")),
		CallCDecl("r3", "inc"), Print(Var("r3")),
	}
	body := B(Let("x", "Int", Int(1)),
		Lam("inc", nil, "Int", B(Set("x", Bin("+", Var("x"), Int(1))), Return(Var("x")))),
		Lam("get", nil, "Int", B(Return(Bin("*", Var("x"), Int(100))))))
	// rotate the four operation groups
	for i := 0; i < 4; i++ {
		j := (i + order) % 4
		body = append(body, ops[2*j], ops[2*j+1])
	}
	body = append(body, Print(Var("x")), Return(Int(0)))
	p := Prog(id, map[string]M{"main_": Def(nil, "Int", false, body)})
	p["desc"] = fmt.Sprintf("shared variable order=%d", order)
	p["tags"] = ""
	return p
}

// loopCapture: closures created in different iterations of a loop capture that iteration's variable
func loopCapture(id int, kind string, mutate bool) M {
	mk := func(v string) L {
		body := B(Return(Bin("+", Bin("*", Var(v), Int(10)), Var("base"))))
		if mutate {
			body = B(Set("base", Bin("+", Var("base"), Int(1))), Return(Bin("+", Bin("*", Var(v), Int(10)), Var("base"))))
		}
		return B(Lam("k", nil, "Int", body),
			If(Bin("==", Var(v), Int(1)), B(Set("keep1", Var("k"))), B(Set("keep2", Var("k")))))
	}
	body := B(Let("base", "Int", Int(5)),
		Lam("dummy", nil, "Int", B(Return(Int(0)))),
		Let("keep1", cloTy, Var("dummy")), Let("keep2", cloTy, Var("dummy")))
	switch kind {
	case "forin":
		body = append(body, ForIn("", "i", L{Int(1), Int(2)}, mk("i")))
	case "fornum":
		body = append(body, ForNum("", "i", Int(1), Bin("<=", Var("i"), Int(2)), Bin("+", Var("i"), Int(1)), mk("i")))
	case "while":
		body = append(body, Let("c", "Int", Int(0)), While("", Bin("<", Var("c"), Int(2)),
			B(Set("c", Bin("+", Var("c"), Int(1))), Let("j", "Int", Var("c")), mk("j"))))
	case "loop":
		body = append(body, Let("c", "Int", Int(0)), Loop("", B(If(Bin(">=", Var("c"), Int(2)), B(Break("")), L{}),
			Set("c", Bin("+", Var("c"), Int(1))), Let("j", "Int", Var("c")), mk("j"))))
	}
	body = append(body, CallCDecl("r1", "keep1"), Print(Var("r1")), CallCDecl("r2", "keep2"), Print(Var("r2")),
		CallCDecl("r3", "keep1"), Print(Var("r3")), Print(Var("base")), Return(Int(0)))
	p := Prog(id, map[string]M{"main_": Def(nil, "Int", false, body)})
	p["desc"] = fmt.Sprintf("loop capture %s mutate=%v", kind, mutate)
	p["tags"] = ""
	return p
}

// nested3: three levels, the innermost writes a variable of the outermost, through a parameter too
func nested3(id int, variant int) M {
	inner := Lam("k3", nil, "Int", B(Set("x", Bin("+", Var("x"), Var("y"))), Set("y", Bin("+", Var("y"), Int(1))), Return(Bin("+", Var("x"), Var("p")))))
	mid := Lam("k2", []string{"p"}, "Int", B(Let("y", "Int", Bin("*", Var("p"), Int(2))), inner,
		CallCDecl("a", "k3"), CallCDecl("b", "k3"), Print(Var("y")), Return(Bin("+", Var("a"), Var("b")))))
	body := B(Let("x", "Int", Int(variant)), mid,
		CallCDecl("r1", "k2", Int(1)), Print(Var("r1")), Print(Var("x")),
		CallCDecl("r2", "k2", Int(2)), Print(Var("r2")), Print(Var("x")), Return(Var("x")))
	p := Prog(id, map[string]M{"main_": Def(nil, "Int", false, body)})
	p["desc"] = fmt.Sprintf("nested3 variant=%d", variant)
	p["tags"] = ""
	return p
}

// Corpus returns the fixed capture shapes plus nRandom seeded random closure programs, ids from firstID.
func Corpus(rng *rand.Rand, nRandom int, firstID int, deepMax int) []M {
	var progs []M
	id := firstID - 1
	add := func(p M) { progs = append(progs, p) }
	for calls := 1; calls <= 3; calls++ {
		for _, deep := range []int{0, 3, 40, 400} {
			if deep > deepMax {
				continue
			}
			id++
			add(maker(id, calls, deep))
		}
	}
	for o := 0; o < 4; o++ {
		id++
		add(shared(id, o))
	}
	for v := 0; v < 2; v++ {
		id++
		add(tailCapture(id, v))
		id++
		add(nested3b(id, v))
	}
	for _, d := range []int{5, 60, 400, 900} {
		if d > deepMax*3 {
			continue
		}
		id++
		add(Dormant(id, d))
	}
	for _, k := range []string{"forin", "fornum", "while", "loop"} {
		for _, m := range []bool{false, true} {
			id++
			add(loopCapture(id, k, m))
		}
	}
	for v := 0; v < 3; v++ {
		id++
		add(nested3(id, v))
	}
	g := &gen{rng: rng}
	for i := 0; i < nRandom; i++ {
		id++
		add(g.random(id))
	}
	return progs
}

func run(c *core.Ctx) error {
	nRandom := c.Pick(400, 6000)
	progs := Corpus(c.Rand, nRandom, 1, 400)
	c.Logf("instance: %d fixed shapes + %d seeded random closure programs", len(progs)-nRandom, nRandom)
	// default stack, and small initial stacks: every program becomes a reallocation test
	MaxSteps = 20000
	cfgs := []*elkrun.Cfg{nil, {InitStackSlots: 32}, {InitStackSlots: 64}}
	if c.Thorough() {
		cfgs = append(cfgs, &elkrun.Cfg{InitStackSlots: 24}, &elkrun.Cfg{InitStackSlots: 128})
	}
	for i, cf := range cfgs {
		sub := progs
		if i > 0 && !c.Thorough() {
			sub = progs[:len(progs)-nRandom+nRandom/4]
		}
		if err := RunAndCompareCfg(c, sub, "C14.cfg", 25, cf); err != nil {
			return err
		}
	}
	c.Cov("exhaustive", false)
	return nil
}
