package c16

import (
	"crypto/sha1"
	"encoding/json"
	"fmt"
	"path/filepath"
	"strings"
	"time"

	"elkverif/internal/core"
	"elkverif/internal/tlc"
)

func init() {
	core.Register(&core.Check{ID: "C16", Level: "model_checking", Run: run})
}

const invariants = "TypeOK SettledOnce SettledExactlyOnceAtEnd QueueNoDup NoDoubleRun SingleRunner ResumedOnce ResumedExactlyAtEnd ResumeOK NoLostWakeup RegisteredOnlyUnresolved"

func cfgText(blocking bool, sim bool) string {
	b := "FALSE"
	if blocking {
		b = "TRUE"
	}
	s := fmt.Sprintf("CONSTANTS\n  Blocking = %s\n  EarlyUnlock = FALSE\n  Graphs <- MCGraphs\n  Configs <- MCConfigs\n", b)
	if sim {
		return s + "INIT Init\nNEXT NextSim\nINVARIANTS EmitAtEnd " + invariants + "\nCHECK_DEADLOCK FALSE\n"
	}
	return s + "SPECIFICATION Spec\nVIEW View\nINVARIANTS " + invariants + "\nPROPERTY Termination\nCHECK_DEADLOCK TRUE\n"
}

type behaviour struct {
	Gi   int    `json:"gi"`
	NW   int    `json:"nw"`
	QCap int    `json:"qcap"`
	Hist []Step `json:"hist"`
	Done bool   `json:"done"`
}

func run(c *core.Ctx) error {
	specDir := filepath.Join(core.VerifRoot, "spec", "Async")
	graphs := FixedGraphs()
	nRandom := c.Pick(4, 10)
	for i := 0; i < nRandom; i++ {
		graphs = append(graphs, RandomGraph(c.Rand, 4+c.Rand.Intn(2), fmt.Sprintf("random-%d-%d", c.Seed, i)))
	}
	configs := [][2]int{{1, 1}, {1, 2}, {2, 1}, {2, 2}}
	simConfigs := configs
	if c.Thorough() {
		// exhaustive search with up to two workers (the 5-task fan-in graphs at three workers take TLC past 40 minutes
		// on the shared machine); the simulation (whose behaviours are replayed) covers all nine
		// configurations and checks the same invariants on every state it visits
		configs = append(configs, [2]int{1, 3})
		simConfigs = append(append([][2]int{}, configs...), [2]int{3, 1}, [2]int{3, 2}, [2]int{2, 3}, [2]int{3, 3})
	}
	nSim := c.Pick(400, 4000)

	// ---- negative control of the specification: with blocking sends (the behaviour of the pinned
	// code, kept as the named deviation Blocking = TRUE) TLC must find the deadlock at NW=1, QCap=1
	r, err := tlc.Run(tlc.Opts{SpecDir: specDir, Module: "MC_Async", Cfg: "MC_Async.cfg", Scratch: c.Scratch, Workers: 2, Timeout: 3 * time.Minute,
		Extra: map[string][]byte{"MC_Async.tla": []byte(MC("MC_Async", graphs[:1], [][2]int{{1, 1}})), "MC_Async.cfg": []byte(cfgText(true, false))}})
	if err != nil {
		return err
	}
	if r.Verdict != "deadlock" {
		return core.Inconclusivef("negative control failed: with Blocking=TRUE at NW=1,QCap=1 TLC should find a deadlock, got %s %s", r.Verdict, r.What)
	}
	c.Note("negative control: Async with Blocking=TRUE (send blocks on a full queue) deadlocks at NW=1,QCap=1 (TLC), as the pinned code did before fix bdf2800")

	// ---- second negative control: releasing the promise lock between the pending check and the
	// registration of the continuation (seeded change C15-1) loses a wake-up
	r, err = tlc.Run(tlc.Opts{SpecDir: specDir, Module: "MC_Async", Cfg: "MC_Async.cfg", Scratch: c.Scratch, Workers: 2, Timeout: 3 * time.Minute,
		Extra: map[string][]byte{"MC_Async.tla": []byte(MC("MC_Async", graphs[:1], [][2]int{{2, 2}})),
			"MC_Async.cfg": []byte(strings.Replace(cfgText(false, false), "EarlyUnlock = FALSE", "EarlyUnlock = TRUE", 1))}})
	if err != nil {
		return err
	}
	if r.OK {
		return core.Inconclusivef("negative control failed: with EarlyUnlock=TRUE TLC should find a lost wake-up, got %s %s", r.Verdict, r.What)
	}
	c.Note(fmt.Sprintf("negative control: Async with EarlyUnlock=TRUE (lock released between the pending check and the registration) violates %s %s at NW=2,QCap=2 (TLC)", r.Verdict, r.What))

	// ---- model checking of every (graph, NW, QCap) instance: safety, deadlock freedom, termination
	mc := []byte(MC("MC_Async", graphs, configs))
	bfs, err := tlc.Run(tlc.Opts{SpecDir: specDir, Module: "MC_Async", Cfg: "MC_Async.cfg", Scratch: c.Scratch, Workers: c.Workers, Timeout: 40 * time.Minute,
		Extra: map[string][]byte{"MC_Async.tla": mc, "MC_Async.cfg": []byte(cfgText(false, false))}})
	if err != nil {
		return err
	}
	if !bfs.OK {
		// the specification itself violates a property: the design (as modelled from the code) is
		// wrong, or the model is. Either way it cannot be used as an oracle before this is settled.
		return core.Inconclusivef("TLC: Async violates %s %s\n%s", bfs.Verdict, bfs.What, tail(bfs.ErrorTrace, 3000))
	}
	c.Cov("states", int(bfs.Distinct))
	c.Cov("transitions", int(bfs.Generated))
	c.Cov("instances", len(graphs)*len(configs))
	c.Cov("spec", "spec/Async/Async.tla: invariants "+invariants+"; PROPERTY Termination under WF; deadlock check; Blocking=FALSE")
	c.Logf("TLC: %d graphs x %d configurations verified: %d distinct states, depth %d, %.0fs", len(graphs), len(configs), bfs.Distinct, bfs.Depth, bfs.WallS)

	// ---- behaviours (schedules) of the verified model, by TLC simulation
	var behs []behaviour
	seen := map[[20]byte]bool{}
	// two simulations: all instances, and (targeted) the graphs in which several continuations are
	// registered on one promise, at the small queue capacities, where a settling thread finds the queue
	// full in the middle of enqueueContinuations
	var fanIdx []int
	var fanGraphs []*Graph
	for i, g := range graphs {
		if strings.Contains(g.Name, "pressure") {
			fanIdx = append(fanIdx, i+1)
			fanGraphs = append(fanGraphs, g)
		}
	}
	type simRun struct {
		mc   []byte
		n    int
		gmap []int // index in this run -> index in graphs (1-based); nil = identity
	}
	runs := []simRun{{[]byte(MC("MC_Async", graphs, simConfigs)), nSim, nil}, {[]byte(MC("MC_Async", fanGraphs, [][2]int{{1, 1}, {2, 1}, {3, 1}})), c.Pick(2500, 12000), fanIdx}}
	var sim *tlc.Result
	for ri, sr := range runs {
		sim, err = tlc.Run(tlc.Opts{SpecDir: specDir, Module: "MC_Async", Cfg: "MC_Async.cfg", Scratch: c.Scratch, Workers: 1, Timeout: 10 * time.Minute,
			Simulate: fmt.Sprintf("num=%d", sr.n), Depth: 400, Seed: c.Seed + int64(ri),
			Extra: map[string][]byte{"MC_Async.tla": sr.mc, "MC_Async.cfg": []byte(cfgText(false, true))},
			OnGen: func(rec []byte) {
				var b behaviour
				if json.Unmarshal(rec, &b) != nil {
					return
				}
				if sr.gmap != nil {
					b.Gi = sr.gmap[b.Gi-1]
				}
				key, _ := json.Marshal(b)
				h := sha1.Sum(key)
				if seen[h] {
					return
				}
				seen[h] = true
				behs = append(behs, b)
			}})
		if err != nil {
			return err
		}
	}
	// how often do the behaviours reach the corner: a continuation goes to a helper goroutine (queue
	// full) while further continuations of the same promise are still to be enqueued
	midFull := 0
	for _, b := range behs {
	scan:
		for i := 1; i < len(b.Hist); i++ {
			if b.Hist[i].E != "enqueue.ok" || b.Hist[i].Ov <= b.Hist[i-1].Ov {
				continue
			}
			for j := i + 1; j < len(b.Hist); j++ {
				if b.Hist[j].A == b.Hist[i].A {
					if b.Hist[j].E == "enqueue.try" {
						midFull++
						break scan
					}
					break
				}
			}
		}
	}
	c.Cov("behaviours_with_queue_full_in_mid_enqueue", midFull)
	if len(behs) == 0 {
		return core.Inconclusivef("TLC simulation produced no behaviour: %s %s", sim.Verdict, tail(sim.Output, 1500))
	}
	var jobs []core.Job
	for _, b := range behs {
		if !b.Done {
			return core.Inconclusivef("simulation of the verified model ended in a non-final state (graph %d)", b.Gi)
		}
		g := graphs[b.Gi-1]
		jobs = append(jobs, core.Job{Kind: "c16.replay", TimeoutMs: 120000,
			Payload: ReplayJob{Src: g.Elk(), NW: b.NW, QCap: b.QCap, Schedule: b.Hist, Done: true}})
	}
	c.Logf("%d distinct behaviours to replay", len(jobs))

	pool := c.NewPool(c.Workers)
	results := pool.Map(jobs, nil)
	ok := 0
	covered := map[string]bool{}
	for k, jr := range results {
		beh := behs[k]
		g := graphs[beh.Gi-1]
		rec := map[string]any{"graph": g, "nw": beh.NW, "qcap": beh.QCap, "schedule": beh.Hist, "source": g.Elk()}
		where := fmt.Sprintf("%s NW=%d QCap=%d", g.Name, beh.NW, beh.QCap)
		if jr.Crashed || jr.Panic != "" {
			rec["kind"] = "go_crash"
			rec["summary"] = "runtime crashed replaying a schedule of " + where
			rec["log"] = jr.CrashLog + jr.Panic
			c.Violation(rec)
			continue
		}
		if jr.Timeout {
			return core.Inconclusivef("replay job timed out (%s)", where)
		}
		if jr.Err != "" {
			return core.Inconclusivef("replay job failed: %s", jr.Err)
		}
		var rr ReplayResult
		if err := jr.Decode(&rr); err != nil {
			return err
		}
		rec["result"] = rr
		switch rr.Outcome {
		case "ok":
			bad := ""
			if rr.Stdout != g.ExpectedOutput() {
				bad = fmt.Sprintf("output %q, expected %q", rr.Stdout, g.ExpectedOutput())
			}
			for _, t := range g.Tasks {
				if rr.Settles[t.Name] != 1 {
					bad = fmt.Sprintf("promise %s settled %d times", t.Name, rr.Settles[t.Name])
				}
			}
			if bad != "" {
				rec["kind"] = "wrong_result"
				rec["summary"] = where + ": " + bad
				c.Violation(rec)
				continue
			}
			ok++
			covered[where] = true
			if ok%211 == 1 {
				c.Sample(map[string]any{"graph": g.Name, "nw": beh.NW, "qcap": beh.QCap, "schedule_len": len(beh.Hist), "first_events": firstN(rr.Events, 12)})
			}
		case "mismatch":
			rec["kind"] = "trace_rejected"
			rec["summary"] = fmt.Sprintf("%s step %d: the spec allows only [%s], the runtime did [%s]", where, rr.At, rr.Want, rr.Got)
			c.Violation(rec)
		case "blocked":
			rec["kind"] = "blocked_where_enabled"
			rec["summary"] = fmt.Sprintf("%s step %d: %s -- %s", where, rr.At, rr.Want, rr.Detail)
			c.Violation(rec)
		case "panic":
			rec["kind"] = "go_crash"
			rec["summary"] = where + ": " + rr.Detail
			c.Violation(rec)
		default: // unknown_event, rejected: the binding is broken, not the property
			return core.Inconclusivef("replay binding broken (%s): %s %s (%s)", rr.Outcome, rr.Got, rr.Detail, where)
		}
	}
	c.Cov("traces_validated_against_impl", ok)
	c.Cov("behaviours_replayed", len(jobs))
	c.Cov("instances_replayed", len(covered))
	c.Logf("replayed %d behaviours gate by gate, %d conform (covering %d instances), %d violations", len(jobs), ok, len(covered), c.Violations())
	if ok == 0 && c.Violations() == 0 {
		return core.Inconclusivef("nothing replayed")
	}
	return nil
}

func firstN(l []string, n int) []string {
	if len(l) > n {
		return l[:n]
	}
	return l
}

func tail(s string, n int) string {
	if len(s) <= n {
		return s
	}
	return s[len(s)-n:]
}
