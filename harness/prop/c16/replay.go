package c16

import (
	"bytes"
	"encoding/json"
	"fmt"
	"runtime"
	"sort"
	"strconv"
	"strings"
	"sync"
	"sync/atomic"
	"time"

	"github.com/elk-language/elk"
	"github.com/elk-language/elk/bitfield"
	"github.com/elk-language/elk/types/checker"
	"github.com/elk-language/elk/value"
	"github.com/elk-language/elk/vm"

	"elkverif/internal/core"
	"elkverif/internal/elkrun"
)

// Step is one event of a TLC behaviour of spec/Async (hist record).
type Step struct {
	A   int      `json:"a"` // 0 main, 1..NW model worker, -1 helper goroutine
	E   string   `json:"e"`
	O   string   `json:"o"`
	Q   int      `json:"q"`
	Ov  int      `json:"ov"`
	Res []string `json:"res"`
}

type ReplayJob struct {
	Src      string `json:"src"`
	NW       int    `json:"nw"`
	QCap     int    `json:"qcap"`
	Schedule []Step `json:"schedule"`
	Done     bool   `json:"done"`      // the behaviour ends in the final state (else: in a model deadlock)
	FreeRun  bool   `json:"free_run"`  // no schedule: let the runtime run with seeded yields, record the trace
	Seed     int64  `json:"seed"`
	StepMs   int    `json:"step_ms"`   // per-step wait (default 3000)
}

type ReplayResult struct {
	Outcome  string   `json:"outcome"` // ok | mismatch | blocked | unknown_event | deadlock_confirmed | deadlock_not_reproduced | rejected | panic
	At       int      `json:"at"`      // index of the failing step
	Want     string   `json:"want,omitempty"`
	Got      string   `json:"got,omitempty"`
	Detail   string   `json:"detail,omitempty"`
	Stdout   string   `json:"stdout"`
	Events   []string `json:"events,omitempty"` // real events in order
	Settles  map[string]int `json:"settles,omitempty"`
	Trace    []Step   `json:"trace,omitempty"` // free run: recorded trace
}

var knownEvents = map[string]bool{
	"start": true, "done": true, "take.try": true, "taken": true, "addtask.try": true, "addtask.ok": true,
	"await.lock.try": true, "await.lock.ok": true, "await.fast": true, "await.suspended": true,
	"await.registered": true, "await.unlocked": true, "settle.lock.try": true, "settle.lock.ok": true,
	"settle.published": true, "enqueue.try": true, "enqueue.ok": true, "settle.unlocked": true,
	"awaitsync.try": true, "awaitsync.ok": true, "helper.try": true, "helper.sent": true,
}

type park struct {
	actor string
	ev    string
	obj   string
	rel   chan struct{}
}

type driver struct {
	mu       sync.Mutex
	parkCh   chan *park
	parked   map[string]*park
	gidActor map[int64]string
	promName map[*vm.Promise]string
	proms    map[string]*vm.Promise
	nReal    int
	free     atomic.Bool
	events   []string
	settles  map[string]int
}

func gid() int64 {
	var buf [64]byte
	n := runtime.Stack(buf[:], false)
	// "goroutine 123 [running]:"
	s := strings.TrimPrefix(string(buf[:n]), "goroutine ")
	if i := strings.IndexByte(s, ' '); i > 0 {
		id, _ := strconv.ParseInt(s[:i], 10, 64)
		return id
	}
	return -1
}

func (d *driver) nameOf(p *vm.Promise) string {
	d.mu.Lock()
	defer d.mu.Unlock()
	if n, ok := d.promName[p]; ok {
		return n
	}
	n := fmt.Sprintf("anon%d", len(d.promName)+1)
	if g, ok := p.Body.(*vm.Generator); ok && g != nil && g.Bytecode != nil {
		s := g.Bytecode.Name().String()
		if i := strings.LastIndexAny(s, ":#."); i >= 0 {
			s = s[i+1:]
		}
		n = s
	}
	d.promName[p] = n
	d.proms[n] = p
	return n
}

// hook is installed as vm.VerifHook: it identifies the actor (by goroutine) and the object
// (a promise, named after its async method), reports the park to the driver and blocks until released.
func (d *driver) hook(ev string, args ...any) {
	if d.free.Load() {
		return
	}
	obj := ""
	var proms []*vm.Promise
	for _, a := range args {
		if p, ok := a.(*vm.Promise); ok && p != nil {
			proms = append(proms, p)
		}
	}
	// the object of the event: enqueue.* and await.registered/unlocked carry (promise, continuation)
	switch ev {
	case "enqueue.try", "enqueue.ok":
		if len(proms) == 2 {
			obj = d.nameOf(proms[1])
		}
	default:
		if len(proms) >= 1 {
			obj = d.nameOf(proms[0])
		}
	}
	g := gid()
	d.mu.Lock()
	actor, ok := d.gidActor[g]
	if !ok {
		switch ev {
		case "helper.try":
			actor = "h:" + obj
		default:
			d.nReal++
			actor = fmt.Sprintf("rw%d", d.nReal)
		}
		d.gidActor[g] = actor
	}
	if ev == "settle.published" {
		d.settles[obj]++
	}
	d.mu.Unlock()
	pk := &park{actor: actor, ev: ev, obj: obj, rel: make(chan struct{})}
	d.parkCh <- pk
	<-pk.rel
}

// waitPark waits until the actor is parked and returns its park (nil on timeout).
func (d *driver) waitPark(actor string, timeout time.Duration) *park {
	deadline := time.After(timeout)
	for {
		if p, ok := d.parked[actor]; ok {
			return p
		}
		select {
		case p := <-d.parkCh:
			d.parked[p.actor] = p
			d.events = append(d.events, p.actor+" "+p.ev+" "+p.obj)
		case <-deadline:
			return nil
		}
	}
}

// drain collects parks that arrive within the given time.
func (d *driver) drain(dur time.Duration) int {
	n := 0
	deadline := time.After(dur)
	for {
		select {
		case p := <-d.parkCh:
			d.parked[p.actor] = p
			d.events = append(d.events, p.actor+" "+p.ev+" "+p.obj)
			n++
		case <-deadline:
			return n
		}
	}
}

func (d *driver) release(actor string) {
	p := d.parked[actor]
	delete(d.parked, actor)
	close(p.rel)
}

func init() {
	core.RegisterJob("c16.replay", func(raw json.RawMessage) (any, error) {
		var j ReplayJob
		if err := json.Unmarshal(raw, &j); err != nil {
			return nil, err
		}
		return replay(&j), nil
	})
}

func replay(j *ReplayJob) *ReplayResult {
	elkrun.Setup()
	res := &ReplayResult{At: -1}
	stepWait := time.Duration(j.StepMs) * time.Millisecond
	if stepWait == 0 {
		stepWait = 3 * time.Second
	}

	elk.InitGlobalEnvironment()
	checker.MethodCheckConcurrencyLimit = 1
	bc, diags := checker.CheckSource("main.elk", j.Src, nil, bitfield.BitField16{}, nil)
	if bc == nil || (diags != nil && diags.IsFailure()) {
		res.Outcome = "rejected"
		if diags != nil {
			res.Detail = diags.Error()
		}
		return res
	}

	d := &driver{parkCh: make(chan *park, 256), parked: map[string]*park{}, gidActor: map[int64]string{},
		promName: map[*vm.Promise]string{}, proms: map[string]*vm.Promise{}, settles: map[string]int{}}
	vm.VerifHook = d.hook
	defer func() { d.free.Store(true) }()

	var stdout lockedBuf
	tp := vm.NewThreadPool(j.NW, j.QCap, vm.WithStdout(&stdout), vm.WithStderr(&stdout))
	// the NW workers park at their first take.try
	realWorkers := []string{}
	for i := 0; i < j.NW; i++ {
		var got *park
		deadline := time.Now().Add(stepWait)
		for got == nil && time.Now().Before(deadline) {
			d.drain(2 * time.Millisecond)
			for a, p := range d.parked {
				if strings.HasPrefix(a, "rw") && p.ev == "take.try" && !contains(realWorkers, a) {
					got = p
					break
				}
			}
		}
		if got == nil {
			res.Outcome = "unknown_event"
			res.Detail = "worker threads did not reach take.try (hook missing?)"
			return res
		}
		realWorkers = append(realWorkers, got.actor)
	}
	sort.Strings(realWorkers)

	// main goroutine: synthetic gates "start" and "done" around the interpreter
	mainDone := make(chan string, 1)
	go func() {
		g := gid()
		d.mu.Lock()
		d.gidActor[g] = "main"
		d.mu.Unlock()
		d.hook("start")
		out := ""
		func() {
			defer func() {
				if r := recover(); r != nil {
					out = fmt.Sprintf("go panic: %v", r)
				}
			}()
			v := vm.New(vm.WithStdout(&stdout), vm.WithStderr(&stdout), vm.WithThreadPool(tp))
			_, err := v.InterpretTopLevel(bc)
			if !err.IsUndefined() {
				c, m := elkrun.DescribeError(err)
				out = "elk error: " + c + " " + m
			}
		}()
		mainDone <- out
		d.hook("done")
	}()
	if d.waitPark("main", stepWait) == nil {
		res.Outcome = "unknown_event"
		res.Detail = "main did not start"
		return res
	}

	modelW := map[int]string{} // model worker -> real worker
	actorOf := func(s Step) string {
		switch {
		case s.A == 0:
			return "main"
		case s.A < 0:
			return "h:" + s.O
		}
		if a, ok := modelW[s.A]; ok {
			return a
		}
		for _, rw := range realWorkers {
			used := false
			for _, v := range modelW {
				if v == rw {
					used = true
				}
			}
			if !used {
				modelW[s.A] = rw
				return rw
			}
		}
		return "?"
	}

	finish := func(outcome string) *ReplayResult {
		if outcome != "ok" {
			// the runtime is left with parked or blocked goroutines: never reuse this process
			core.RequestWorkerRestart()
		} else {
			// let every parked goroutine go and shut the pool down
			d.free.Store(true)
			for a := range d.parked {
				d.release(a)
			}
			tp.Close()
		}
		res.Outcome = outcome
		res.Stdout = stdout.String()
		res.Events = d.events
		res.Settles = d.settles
		return res
	}

	for i, s := range j.Schedule {
		actor := actorOf(s)
		if d.waitPark(actor, stepWait) == nil {
			res.At = i
			res.Want = fmt.Sprintf("%s parked before %s %s", actor, s.E, s.O)
			res.Detail = "actor is not at a gate although the model lets it move"
			return finish("blocked")
		}
		d.release(actor)
		p := d.waitPark(actor, stepWait)
		if p == nil {
			// nobody else is running: every other actor is parked, so the released actor is
			// blocked inside the operation the model says is enabled (or died)
			select {
			case out := <-mainDone:
				if out != "" {
					res.At = i
					res.Detail = out
					return finish("panic")
				}
			default:
			}
			// confirm with a much longer wait before calling it blocked
			p = d.waitPark(actor, 4*stepWait)
		}
		if p == nil {
			res.At = i
			res.Want = fmt.Sprintf("%s %s %s", actor, s.E, s.O)
			res.Detail = "the released actor did not reach its next event while all other actors were parked"
			return finish("blocked")
		}
		if !knownEvents[p.ev] {
			res.At = i
			res.Got = p.ev
			return finish("unknown_event")
		}
		if p.ev != s.E || p.obj != s.O {
			res.At = i
			res.Want = fmt.Sprintf("%s %s", s.E, s.O)
			res.Got = fmt.Sprintf("%s %s", p.ev, p.obj)
			return finish("mismatch")
		}
		// projection of the real state after the step (the system is quiescent: every actor is parked)
		if q := len(tp.TaskQueue); q != s.Q {
			res.At = i
			res.Want = fmt.Sprintf("queue length %d after %s %s", s.Q, s.E, s.O)
			res.Got = fmt.Sprintf("queue length %d", q)
			return finish("mismatch")
		}
		d.drain(0)
		ov := 0
		for a, pk := range d.parked {
			if strings.HasPrefix(a, "h:") && pk.ev == "helper.try" {
				ov++
			}
		}
		// helper goroutines are started with `go` and park at their first hook asynchronously: while FEWER are parked
		// than the specification says, wait (up to 3 s on a loaded machine) before calling it a difference; more
		// than specified is a difference at once. (One behaviour in 15 595 of a thorough run on a machine at load 40
		// needed more than the 20 ms this used to wait: a false alarm.)
		for wait := 0; ov < s.Ov && wait < 150; wait++ {
			d.drain(20 * time.Millisecond)
			ov = 0
			for a, pk := range d.parked {
				if strings.HasPrefix(a, "h:") && pk.ev == "helper.try" {
					ov++
				}
			}
		}
		if ov != s.Ov {
			res.At = i
			res.Want = fmt.Sprintf("%d helper goroutines waiting after %s %s", s.Ov, s.E, s.O)
			res.Got = fmt.Sprintf("%d", ov)
			return finish("mismatch")
		}
		var resolved []string
		d.mu.Lock()
		for n, pr := range d.proms {
			if pr.IsResolved() {
				resolved = append(resolved, n)
			}
		}
		d.mu.Unlock()
		sort.Strings(resolved)
		want := append([]string{}, s.Res...)
		sort.Strings(want)
		if strings.Join(resolved, ",") != strings.Join(want, ",") {
			res.At = i
			res.Want = fmt.Sprintf("resolved=%v after %s %s", want, s.E, s.O)
			res.Got = fmt.Sprintf("resolved=%v", resolved)
			return finish("mismatch")
		}
		if p.ev == "helper.sent" {
			d.release(actor) // the helper goroutine ends
		}
	}

	if j.Done {
		// the model reached its final state: main is at "done", the output is complete
		select {
		case out := <-mainDone:
			if out != "" {
				res.Detail = out
				return finish("panic")
			}
		case <-time.After(stepWait):
			res.Detail = "main reached the gate done but the interpreter did not return"
			return finish("blocked")
		}
		return finish("ok")
	}
	// the model is deadlocked here: release everybody and watch whether anything moves
	before := len(d.events)
	actors := []string{}
	for a := range d.parked {
		actors = append(actors, a)
	}
	for _, a := range actors {
		d.release(a)
	}
	d.drain(300 * time.Millisecond)
	moved := len(d.events) - before
	if moved == 0 {
		d.drain(2 * time.Second)
		moved = len(d.events) - before
	}
	if moved == 0 {
		return finish("deadlock_confirmed")
	}
	res.Detail = fmt.Sprintf("%d events after releasing all actors", moved)
	return finish("deadlock_not_reproduced")
}

func contains(l []string, s string) bool {
	for _, x := range l {
		if x == s {
			return true
		}
	}
	return false
}

type lockedBuf struct {
	mu sync.Mutex
	b  bytes.Buffer
}

func (l *lockedBuf) Write(p []byte) (int, error) {
	l.mu.Lock()
	defer l.mu.Unlock()
	return l.b.Write(p)
}
func (l *lockedBuf) String() string {
	l.mu.Lock()
	defer l.mu.Unlock()
	return l.b.String()
}

var _ = value.Undefined
