// Package c16: awaiting never loses a wake-up or deadlocks the runtime (spec/Async), decided by
// TLC on all interleavings of bounded task graphs and bound to the real runtime by gate-scheduled
// replay of TLC behaviours (every hook of the real promise/await/queue code is a scheduler gate).
package c16

import (
	"fmt"
	"math/rand"
	"sort"
	"strings"
)

type Op struct {
	Kind string   `json:"kind"` // spawn | await | awaitsync
	Arg  string   `json:"arg"`  // task name
	Pass []string `json:"pass"` // spawn: promises passed to the spawned task (its parameters)
}

type Task struct {
	Name   string   `json:"name"`
	Params []string `json:"params"` // promises (task names) received as parameters
	Ops    []Op     `json:"ops"`
	// Fails: the body ends by throwing, so the promise is settled by Reject and every await of it
	// rethrows (the awaiters catch). The protocol of spec/Async is the same for both ways of settling.
	Fails bool `json:"fails,omitempty"`
}

type Graph struct {
	Name  string  `json:"name"`
	Tasks []*Task `json:"tasks"`
	Main  []Op    `json:"main"`
}

func (g *Graph) task(n string) *Task {
	for _, t := range g.Tasks {
		if t.Name == n {
			return t
		}
	}
	return nil
}

func tlaSeq(ops []Op) string {
	var parts []string
	for _, o := range ops {
		parts = append(parts, fmt.Sprintf("<<%q, %q>>", o.Kind, o.Arg))
	}
	return "<<" + strings.Join(parts, ", ") + ">>"
}

func (g *Graph) tla() string {
	var fields []string
	for _, t := range g.Tasks {
		fields = append(fields, fmt.Sprintf("%s |-> %s", t.Name, tlaSeq(t.Ops)))
	}
	return fmt.Sprintf("[prog |-> [%s], main |-> %s]", strings.Join(fields, ", "), tlaSeq(g.Main))
}

// MC renders the instance module: the Graphs and Configs constants.
func MC(module string, graphs []*Graph, configs [][2]int) string {
	var gs, cs []string
	for _, g := range graphs {
		gs = append(gs, g.tla())
	}
	for _, c := range configs {
		cs = append(cs, fmt.Sprintf("<<%d, %d>>", c[0], c[1]))
	}
	return fmt.Sprintf("---- MODULE %s ----\nEXTENDS Async\nMCGraphs == <<\n  %s\n>>\nMCConfigs == {%s}\n====\n",
		module, strings.Join(gs, ",\n  "), strings.Join(cs, ", "))
}

// Value of a task: its index + 10 * sum of the values it awaited (schedule independent).
func (g *Graph) Value(n string) int {
	t := g.task(n)
	idx := 0
	fmt.Sscanf(n, "t%d", &idx)
	if t.Fails {
		return -idx // what an awaiter computes after catching the rethrown error
	}
	v := idx
	for _, o := range t.Ops {
		if o.Kind == "await" {
			v += 10 * g.Value(o.Arg)
		}
	}
	return v
}

// Elk renders the task graph as an Elk program: one async method per task.
func (g *Graph) Elk() string {
	var sb strings.Builder
	sb.WriteString("def o(v: any) then println \"#{v}\"\n")
	for _, t := range g.Tasks {
		var ps []string
		for _, p := range t.Params {
			ps = append(ps, fmt.Sprintf("p_%s: Promise[Int]", p))
		}
		head := "async def " + t.Name
		if len(ps) > 0 {
			head += "(" + strings.Join(ps, ", ") + ")"
		}
		sb.WriteString(head + ": Int\n")
		sb.WriteString("  acc := 0\n")
		for _, o := range t.Ops {
			switch o.Kind {
			case "spawn":
				sb.WriteString(fmt.Sprintf("  p_%s := %s\n", o.Arg, callOf(o)))
			case "await":
				if a := g.task(o.Arg); a != nil && a.Fails {
					sb.WriteString(fmt.Sprintf("  do\n    acc = acc + 10 * (await p_%s) + 1000000\n  catch e\n    acc = acc + 10 * %d\n  end\n", o.Arg, g.Value(o.Arg)))
				} else {
					sb.WriteString(fmt.Sprintf("  acc = acc + 10 * (await p_%s)\n", o.Arg))
				}
			}
		}
		idx := 0
		fmt.Sscanf(t.Name, "t%d", &idx)
		if t.Fails {
			sb.WriteString(fmt.Sprintf("  throw unchecked \"%s\" if acc < 1000000000\n", t.Name))
		}
		sb.WriteString(fmt.Sprintf("  acc + %d\nend\n", idx))
	}
	for _, o := range g.Main {
		switch o.Kind {
		case "spawn":
			sb.WriteString(fmt.Sprintf("p_%s := %s\n", o.Arg, callOf(o)))
		case "awaitsync":
			if a := g.task(o.Arg); a != nil && a.Fails {
				sb.WriteString(fmt.Sprintf("do\n  o(p_%s.await_sync + 1000000)\ncatch e\n  o(%d)\nend\n", o.Arg, g.Value(o.Arg)))
			} else {
				sb.WriteString(fmt.Sprintf("o(p_%s.await_sync)\n", o.Arg))
			}
		}
	}
	return sb.String()
}

func callOf(o Op) string {
	var as []string
	for _, p := range o.Pass {
		as = append(as, "p_"+p)
	}
	return fmt.Sprintf("%s(%s)", o.Arg, strings.Join(as, ", "))
}

// ExpectedOutput is what main prints: the value of every awaited root, in order.
func (g *Graph) ExpectedOutput() string {
	var sb strings.Builder
	for _, o := range g.Main {
		if o.Kind == "awaitsync" {
			sb.WriteString(fmt.Sprintf("%d\n", g.Value(o.Arg)))
		}
	}
	return sb.String()
}

// ---- fixed shapes ------------------------------------------------------------------------------

func sp(t string, pass ...string) Op { return Op{Kind: "spawn", Arg: t, Pass: append([]string{}, pass...)} }
func aw(t string) Op                 { return Op{Kind: "await", Arg: t, Pass: []string{}} }
func as(t string) Op                 { return Op{Kind: "awaitsync", Arg: t, Pass: []string{}} }
func failing(t *Task) *Task { t.Fails = true; return t }

func tk(n string, params []string, ops ...Op) *Task {
	if params == nil {
		params = []string{}
	}
	if ops == nil {
		ops = []Op{}
	}
	return &Task{Name: n, Params: params, Ops: ops}
}

func FixedGraphs() []*Graph {
	return []*Graph{
		{Name: "spawn-await+sibling", // the shape that deadlocks a blocking queue at NW=1,QCap=1
			Tasks: []*Task{tk("t1", nil, sp("t2"), aw("t2")), tk("t2", nil), tk("t3", nil)},
			Main:  []Op{sp("t1"), sp("t3"), as("t1"), as("t3")}},
		{Name: "fan-in", // two continuations registered on one promise
			Tasks: []*Task{tk("t1", nil), tk("t2", []string{"t1"}, aw("t1")), tk("t3", []string{"t1"}, aw("t1"))},
			Main:  []Op{sp("t1"), sp("t2", "t1"), sp("t3", "t1"), as("t2"), as("t3")}},
		{Name: "chain",
			Tasks: []*Task{tk("t1", nil, sp("t2"), aw("t2")), tk("t2", nil, sp("t3"), aw("t3")), tk("t3", nil)},
			Main:  []Op{sp("t1"), as("t1")}},
		{Name: "two-children-reverse-await",
			Tasks: []*Task{tk("t1", nil, sp("t2"), sp("t3"), aw("t3"), aw("t2")), tk("t2", nil), tk("t3", nil)},
			Main:  []Op{sp("t1"), as("t1")}},
		{Name: "queue-pressure",
			Tasks: []*Task{tk("t1", nil, sp("t3"), sp("t4"), aw("t3"), aw("t4")), tk("t2", nil), tk("t3", nil), tk("t4", nil)},
			Main:  []Op{sp("t1"), sp("t2"), as("t2"), as("t1")}},
		{Name: "await-twice", // the second await of the same promise takes the fast path
			Tasks: []*Task{tk("t1", nil, sp("t2"), aw("t2"), aw("t2")), tk("t2", nil)},
			Main:  []Op{sp("t1"), as("t1")}},
		{Name: "await-rejected-three-times", // suspend path, then the fast path twice, on a promise settled by Reject
			Tasks: []*Task{tk("t1", nil, sp("t2"), aw("t2"), aw("t2"), aw("t2")), failing(tk("t2", nil))},
			Main:  []Op{sp("t1"), as("t1")}},
		{Name: "fan-in-rejected+pressure", // two continuations on a rejected promise, a sibling keeps the queue occupied
			Tasks: []*Task{failing(tk("t1", nil)), tk("t2", []string{"t1"}, aw("t1")), tk("t3", []string{"t1"}, aw("t1"), aw("t1")), tk("t4", nil)},
			Main:  []Op{sp("t1"), sp("t2", "t1"), sp("t3", "t1"), sp("t4"), as("t2"), as("t3"), as("t4"), as("t1")}},
		{Name: "fan-in-late-pressure", // t1 is resumed late, fills the queue with t5 and settles at once: with one worker both continuations meet a full queue
			Tasks: []*Task{tk("t1", nil, sp("t4"), aw("t4"), sp("t5")), tk("t2", []string{"t1"}, aw("t1")), tk("t3", []string{"t1"}, aw("t1")), tk("t4", nil), tk("t5", nil)},
			Main:  []Op{sp("t1"), sp("t2", "t1"), sp("t3", "t1"), as("t2"), as("t3"), as("t1")}},
		{Name: "fan-in3+pressure", // three continuations enqueued while the queue may be full at any of them
			Tasks: []*Task{tk("t1", nil), tk("t2", []string{"t1"}, aw("t1")), tk("t3", []string{"t1"}, aw("t1")), tk("t4", []string{"t1"}, aw("t1")), tk("t5", nil)},
			Main:  []Op{sp("t1"), sp("t2", "t1"), sp("t3", "t1"), sp("t4", "t1"), sp("t5"), as("t2"), as("t3"), as("t4"), as("t5")}},
	}
}

// RandomGraph builds a well-scoped random task graph with at most n tasks.
func RandomGraph(rng *rand.Rand, n int, name string) *Graph {
	g := &Graph{Name: name}
	type scope struct {
		t     *Task
		known []string // promises in scope
	}
	next := 1
	newName := func() string { s := fmt.Sprintf("t%d", next); next++; return s }
	var build func(sc *scope, depth int)
	build = func(sc *scope, depth int) {
		nops := rng.Intn(4)
		for i := 0; i < nops; i++ {
			if next <= n && depth < 3 && rng.Intn(2) == 0 {
				// spawn a child, maybe passing known promises
				cn := newName()
				var pass []string
				for _, k := range sc.known {
					if rng.Intn(3) == 0 && len(pass) < 2 {
						pass = append(pass, k)
					}
				}
				child := tk(cn, append([]string{}, pass...))
				child.Fails = rng.Intn(4) == 0
				g.Tasks = append(g.Tasks, child)
				csc := &scope{t: child, known: append([]string{}, pass...)}
				build(csc, depth+1)
				sc.t.Ops = append(sc.t.Ops, sp(cn, pass...))
				sc.known = append(sc.known, cn)
			} else if len(sc.known) > 0 {
				sc.t.Ops = append(sc.t.Ops, aw(sc.known[rng.Intn(len(sc.known))]))
			}
		}
	}
	var known []string
	roots := 1 + rng.Intn(2)
	for r := 0; r < roots && next <= n; r++ {
		rn := newName()
		var pass []string
		for _, k := range known {
			if rng.Intn(2) == 0 && len(pass) < 2 {
				pass = append(pass, k)
			}
		}
		root := tk(rn, append([]string{}, pass...))
		root.Fails = rng.Intn(5) == 0
		g.Tasks = append(g.Tasks, root)
		build(&scope{t: root, known: append([]string{}, pass...)}, 1)
		g.Main = append(g.Main, sp(rn, pass...))
		known = append(known, rn)
	}
	for _, k := range known {
		g.Main = append(g.Main, as(k))
	}
	sort.Slice(g.Tasks, func(i, j int) bool {
		var a, b int
		fmt.Sscanf(g.Tasks[i].Name, "t%d", &a)
		fmt.Sscanf(g.Tasks[j].Name, "t%d", &b)
		return a < b
	})
	return g
}
