package c24

import (
	"fmt"
	"strconv"
	"strings"

	"elkverif/internal/core"
	"elkverif/internal/elkrun"
)

// Replay of ArrayList behaviours as Elk programs (checker + compiler + VM). One method per
// behaviour, many behaviours per source file; after every step the program prints the result, the
// capacity, the contents and the snapshot (the collection produced by the last + * or slice).

type pool struct {
	name string
	typ  string
	lit  func(int) string
}

var pools = map[string]*pool{
	"int": {"int", "Int", func(i int) string { return strconv.Itoa(i) }},
	"str": {"str", "String", func(i int) string { return fmt.Sprintf("\"s%d\"", i) }},
}

func (p *pool) decode(tok string) (int, bool) {
	tok = strings.TrimSpace(tok)
	if p.name == "str" {
		if len(tok) >= 4 && strings.HasPrefix(tok, "\"s") && strings.HasSuffix(tok, "\"") {
			n, err := strconv.Atoi(tok[2 : len(tok)-1])
			return n, err == nil
		}
		return 0, false
	}
	n, err := strconv.Atoi(tok)
	return n, err == nil
}

func (p *pool) lits(q []int) string {
	parts := make([]string, len(q))
	for i, x := range q {
		parts[i] = p.lit(x)
	}
	return strings.Join(parts, ", ")
}

// parseTuple parses the inspect text of a tuple of pool values: %[1, 2]
func (p *pool) parseTuple(s string) ([]int, bool) {
	s = strings.TrimSpace(s)
	if !strings.HasPrefix(s, "%[") || !strings.HasSuffix(s, "]") {
		return nil, false
	}
	body := strings.TrimSpace(s[2 : len(s)-1])
	out := []int{}
	if body == "" {
		return out, true
	}
	for _, tok := range strings.Split(body, ",") {
		n, ok := p.decode(tok)
		if !ok {
			return nil, false
		}
		out = append(out, n)
	}
	return out, true
}

func paren(i int) string {
	if i < 0 {
		return fmt.Sprintf("(%d)", i)
	}
	return strconv.Itoa(i)
}

func elkPrelude(p *pool) string {
	t := p.typ
	return "def st(a: ArrayList[" + t + "], b: Tuple[" + t + "]) then println \"= #{a.capacity} #{a.left_capacity} #{a.to_tuple} | #{b.to_tuple}\"\n" +
		"def stt(a: ArrayTuple[" + t + "], b: Tuple[" + t + "]) then println \"= -1 0 #{a.to_tuple} | #{b.to_tuple}\"\n"
}

// emitBeh writes the method of one behaviour.
func emitBeh(sb *strings.Builder, b *Beh, p *pool) {
	t := p.typ
	isList := b.Kind == "list"
	state := "stt(a, b)"
	fmt.Fprintf(sb, "def b%d\n  println \"@b %d\"\n", b.ID, b.ID)
	if isList {
		state = "st(a, b)"
		fmt.Fprintf(sb, "  var a: ArrayList[%s] = [%s]\n", t, p.lits(b.Init))
		if b.Spare > 0 {
			fmt.Fprintf(sb, "  a.grow(%d)\n", b.Spare)
		}
	} else {
		fmt.Fprintf(sb, "  var a: ArrayTuple[%s] = %%[%s]\n", t, p.lits(b.Init))
	}
	fmt.Fprintf(sb, "  var b: Tuple[%s] = %%[]\n  var el: ArrayList[%s] = []\n  var et: ArrayTuple[%s] = %%[]\n", t, t, t)
	fmt.Fprintf(sb, "  %s\n", state)
	for i := range b.Steps {
		st := &b.Steps[i]
		sb.WriteString("  println \"s\"\n  do\n")
		r := fmt.Sprintf("r%d", i)
		switch st.Op {
		case "get":
			fmt.Fprintf(sb, "    %s := a[%d]\n    println \"r #{%s}\"\n", r, st.A, r)
		case "set":
			fmt.Fprintf(sb, "    a[%d] = %s\n", st.A, p.lit(st.B))
		case "push":
			fmt.Fprintf(sb, "    a.push(%s)\n", p.lit(st.A))
		case "shl":
			fmt.Fprintf(sb, "    a << %s\n", p.lit(st.A))
		case "append":
			fmt.Fprintf(sb, "    a.append(%s)\n", p.lits(st.Q))
		case "pop":
			fmt.Fprintf(sb, "    %s := a.pop\n    println \"r #{%s}\"\n", r, r)
		case "clear":
			sb.WriteString("    a.clear\n")
		case "remove":
			fmt.Fprintf(sb, "    %s := a.remove(%s)\n    println \"r #{%s}\"\n", r, p.lit(st.A), r)
		case "remove_at":
			fmt.Fprintf(sb, "    a.remove_at(%d)\n", st.A)
		case "grow":
			fmt.Fprintf(sb, "    a.grow(%d)\n", st.A)
		case "slice":
			fmt.Fprintf(sb, "    b = a[%s]\n    println \"r #{b.to_tuple}\"\n", RangeText(st.Rk, paren(st.A), paren(st.B)))
		case "concat":
			other := ""
			switch {
			case len(st.Q) == 0 && st.Rk == "list":
				other = "el"
			case len(st.Q) == 0:
				other = "et"
			case st.Rk == "list":
				other = "[" + p.lits(st.Q) + "]"
			default:
				other = "%[" + p.lits(st.Q) + "]"
			}
			fmt.Fprintf(sb, "    b = a + %s\n    println \"r #{b.to_tuple}\"\n", other)
		case "repeat":
			fmt.Fprintf(sb, "    b = a * %s\n    println \"r #{b.to_tuple}\"\n", paren(st.A))
		case "eq":
			other := ""
			switch {
			case len(st.Q) == 0 && isList:
				other = "el"
			case len(st.Q) == 0:
				other = "et"
			case isList:
				other = "[" + p.lits(st.Q) + "]"
			default:
				other = "%[" + p.lits(st.Q) + "]"
			}
			fmt.Fprintf(sb, "    %s := a == %s\n    println \"r #{%s}\"\n", r, other, r)
		case "contains":
			fmt.Fprintf(sb, "    %s := a.contains(%s)\n    println \"r #{%s}\"\n", r, p.lit(st.A), r)
		case "length":
			fmt.Fprintf(sb, "    %s := a.length\n    println \"r #{%s}\"\n", r, r)
		default:
			panic("emit: unknown op " + st.Op)
		}
		sb.WriteString("  catch Std::Error() as e\n    println \"e #{e.class}: #{e.message}\"\n  end\n")
		fmt.Fprintf(sb, "  %s\n", state)
		// continue from the specification's state when the step's alternatives leave different contents
		if isList && st.NeedsResync() && i < len(b.Steps)-1 {
			fmt.Fprintf(sb, "  a = [%s]\n", p.lits(st.Alts[st.Pick-1].After))
			if st.Slack > 0 {
				fmt.Fprintf(sb, "  a.grow(%d)\n", st.Slack)
			}
			fmt.Fprintf(sb, "  %s\n", state)
		}
	}
	sb.WriteString("end\n")
}

func emitFile(behs []*Beh, p *pool) string {
	var sb strings.Builder
	sb.WriteString(elkPrelude(p))
	for _, b := range behs {
		emitBeh(&sb, b, p)
	}
	for _, b := range behs {
		fmt.Fprintf(&sb, "b%d()\n", b.ID)
	}
	return sb.String()
}

// stateLine parses "= <cap> <left> %[..] | %[..]"
func parseStateLine(line string, p *pool) (capacity, left int, elems, snap []int, ok bool) {
	if !strings.HasPrefix(line, "= ") {
		return
	}
	rest := line[2:]
	parts := strings.SplitN(rest, " ", 3)
	if len(parts) != 3 {
		return
	}
	var err1, err2 error
	capacity, err1 = strconv.Atoi(parts[0])
	left, err2 = strconv.Atoi(parts[1])
	if err1 != nil || err2 != nil {
		return
	}
	halves := strings.SplitN(parts[2], " | ", 2)
	if len(halves) != 2 {
		return
	}
	var ok1, ok2 bool
	elems, ok1 = p.parseTuple(halves[0])
	snap, ok2 = p.parseTuple(halves[1])
	ok = ok1 && ok2
	return
}

// judgeElk walks the lines one behaviour printed and compares its steps with the specification.
// crashed: the run ended with a Go panic / uncaught error (text in crash) somewhere in this behaviour.
func judgeElk(b *Beh, p *pool, lines []string, crash string, judgeAll bool, variant string) (findings []Finding, compared int, harnessErr string) {
	isList := b.Kind == "list"
	snapValid := true
	pos := 0
	next := func() (string, bool) {
		if pos < len(lines) {
			pos++
			return lines[pos-1], true
		}
		return "", false
	}
	l, ok := next()
	capPrev, _, elems0, _, ok2 := parseStateLine(l, p)
	if !ok || !ok2 {
		if crash != "" {
			return nil, 0, "the program stopped before the first step: " + firstLine(crash)
		}
		return nil, 0, "cannot parse the initial state line: " + l
	}
	if !eqInts(elems0, b.Init) {
		return nil, 0, fmt.Sprintf("initial contents %v differ from %v", elems0, b.Init)
	}
	for i := range b.Steps {
		st := &b.Steps[i]
		o := &Obs{Cap: -1, CapPrev: -1}
		if isList {
			o.CapPrev = capPrev
		}
		l, ok := next()
		if !ok || l != "s" {
			return findings, compared, fmt.Sprintf("step %d: missing step marker (got %q)", i, l)
		}
		o.T = "n"
		stopped := false
		for {
			l, ok = next()
			if !ok {
				stopped = true
				break
			}
			if strings.HasPrefix(l, "r ") {
				val := l[2:]
				switch st.Op {
				case "get", "pop", "length":
					n, good := p.decode(val)
					if st.Op == "length" {
						var err error
						n, err = strconv.Atoi(val)
						good = err == nil
					}
					if !good {
						o.Note = "unparsable result " + val
					}
					o.T, o.V = "v", n
				case "remove", "eq", "contains":
					o.T = "b"
					switch val {
					case "true":
						o.V = 1
					case "false":
						o.V = 0
					default:
						o.Note = "result is not a bool: " + val
					}
				case "slice", "concat", "repeat":
					s, good := p.parseTuple(val)
					if !good {
						o.Note = "unparsable result " + val
					}
					o.T, o.S = "s", s
				}
				continue
			}
			if strings.HasPrefix(l, "e ") {
				o.T = "err"
				rest := strings.TrimPrefix(l[2:], "class ")
				if k := strings.Index(rest, ": "); k >= 0 {
					o.ErrMsg = strings.Trim(rest[k+2:], "\"")
					rest = rest[:k]
				}
				if k := strings.Index(rest, " <"); k >= 0 {
					rest = rest[:k]
				}
				o.ErrClass = rest
				continue
			}
			break
		}
		if stopped {
			if crash == "" {
				return findings, compared, fmt.Sprintf("step %d: output ends inside the step", i)
			}
			o.T = "crash"
			o.Panic = crash
			o.Elems = nil
			compared++
			pick := st.Alts[st.Pick-1]
			_ = pick
			findings = append(findings, Finding{BehID: b.ID, StepIdx: i, Variant: variant, Kind: "go_panic", What: firstLine(crash), Obs: *o})
			return findings, compared, ""
		}
		c, left, elems, snap, good := parseStateLine(l, p)
		if !good {
			return findings, compared, fmt.Sprintf("step %d: cannot parse state line %q", i, l)
		}
		o.Elems = elems
		if isList {
			o.Cap = c
			if left != c-len(elems) {
				o.Note = fmt.Sprintf("left_capacity %d != capacity %d - length %d", left, c, len(elems))
			}
		}
		o.Snap, o.HasSnap = snap, st.Snap.Has
		capPrev = c
		last := i == len(b.Steps)-1
		if judgeAll || last {
			compared++
			v := Judge(st, o, isList, snapValid)
			snapValid = snapAfter(st, v.Alt, snapValid)
			if !v.OK {
				findings = append(findings, Finding{BehID: b.ID, StepIdx: i, Variant: variant, Kind: v.Kind, Deviation: v.Deviation, What: v.What, Obs: *o})
				if !last && !st.NeedsResync() && !eqInts(elems, st.Alts[st.Pick-1].After) {
					return findings, compared, "" // the program continues from another state than the behaviour
				}
			}
		} else if snapValid = snapAfter(st, Judge(st, o, isList, false).Alt, snapValid); !st.NeedsResync() && !eqInts(elems, st.Alts[st.Pick-1].After) {
			// a prefix step went another way (it is reported by the record that ends with it)
			return findings, compared, ""
		}
		if isList && st.NeedsResync() && !last {
			l, _ = next()
			c, _, elems, _, good = parseStateLine(l, p)
			if !good || !eqInts(elems, st.Alts[st.Pick-1].After) {
				return findings, compared, fmt.Sprintf("step %d: bad resync line %q", i, l)
			}
			capPrev = c
		}
	}
	return findings, compared, ""
}

type elkOutcome struct {
	findings  []Finding
	compared  int
	behs      int
	outOfDom  int
	harness   []string
	sampleSrc string
}

// splitByBeh splits stdout at the "@b <id>" markers.
func splitByBeh(stdout string) map[int][]string {
	per := map[int][]string{}
	cur := -1
	for _, line := range strings.Split(strings.TrimRight(stdout, "\n"), "\n") {
		if strings.HasPrefix(line, "@b ") {
			if id, err := strconv.Atoi(line[3:]); err == nil {
				cur = id
				per[cur] = []string{}
				continue
			}
		}
		if cur >= 0 {
			per[cur] = append(per[cur], line)
		}
	}
	return per
}

// runElk replays the behaviours as Elk programs, `batch` per file; a file that does not run cleanly
// is re-run one behaviour per file.
func runElk(c *core.Ctx, pool *core.Pool, behs []*Beh, p *pool, batch int, judgeAll bool) (*elkOutcome, error) {
	out := &elkOutcome{}
	variant := "elk/" + p.name
	type unit struct{ behs []*Beh }
	var units []unit
	for i := 0; i < len(behs); i += batch {
		j := i + batch
		if j > len(behs) {
			j = len(behs)
		}
		units = append(units, unit{behs[i:j]})
	}
	run := func(units []unit) ([]unit, error) {
		var jobs []core.Job
		var srcs []string
		for _, u := range units {
			src := emitFile(u.behs, p)
			srcs = append(srcs, src)
			jobs = append(jobs, core.Job{Kind: "elk", Payload: elkrun.Job{Src: src, RunMs: 20000}, TimeoutMs: 90000})
		}
		results := pool.Map(jobs, nil)
		var retry []unit
		for ui, jr := range results {
			u := units[ui]
			var r elkrun.Result
			switch {
			case jr.Crashed:
				r.Accepted = true
				r.GoPanic = "worker process died:\n" + jr.CrashLog
			case jr.Timeout:
				r.Accepted = true
				r.Hung = true
			case jr.Panic != "":
				r.Accepted = true
				r.GoPanic = jr.Panic
			case jr.Err != "":
				return nil, core.Inconclusivef("worker error: %s", jr.Err)
			default:
				if err := jr.Decode(&r); err != nil {
					return nil, core.Inconclusivef("bad worker result: %v", err)
				}
			}
			per := splitByBeh(r.Stdout)
			clean := r.Accepted && r.GoPanic == "" && !r.Hung && r.ErrClass == "" && len(per) == len(u.behs)
			if !clean && len(u.behs) > 1 {
				for _, b := range u.behs {
					retry = append(retry, unit{[]*Beh{b}})
				}
				continue
			}
			if out.sampleSrc == "" && clean {
				out.sampleSrc = srcs[ui]
			}
			for _, b := range u.behs {
				out.behs++
				if !r.Accepted {
					out.outOfDom++
					if out.outOfDom <= 3 {
						c.Note(fmt.Sprintf("out of domain (rejected by the checker): %s: %s", b.Describe(), firstLine(r.Diags)))
					}
					continue
				}
				crash := ""
				switch {
				case r.GoPanic != "":
					crash = "Go panic: " + r.GoPanic
				case r.Hung:
					crash = "the program did not terminate"
				case r.ErrClass != "":
					crash = "uncaught " + r.ErrClass + ": " + r.ErrMsg
				}
				f, n, herr := judgeElk(b, p, per[b.ID], crash, judgeAll, variant)
				out.compared += n
				for i := range f {
					f[i].Source = srcs[ui]
					if len(u.behs) > 1 {
						f[i].Source = emitFile([]*Beh{b}, p)
					}
				}
				out.findings = append(out.findings, f...)
				if herr != "" {
					out.harness = append(out.harness, fmt.Sprintf("%s: %s", b.Describe(), herr))
				}
			}
		}
		return retry, nil
	}
	retry, err := run(units)
	if err != nil {
		return nil, err
	}
	if len(retry) > 0 {
		if _, err := run(retry); err != nil {
			return nil, err
		}
	}
	return out, nil
}
