package c24

import (
	"encoding/json"
	"fmt"
	"path/filepath"
	"sort"
	"strings"
	"time"

	"elkverif/internal/core"
	"elkverif/internal/tlc"
)

func init() {
	core.Register(&core.Check{ID: "C24", Level: "model_checking", Run: run})
}

// instance = the constants of one bounded instance of spec/ArrayList.
type instance struct {
	Vals       string
	MaxLen     int
	InitLen    int
	Spares     string
	Idx        string
	Bnd        string
	RangeKinds string
	GrowBy     string
	RepBy      string
	Others     string
	MaxHist    int
	MaxSlack   int
	Kinds      string
	EmitAll    bool
}

const allRangeKinds = `{"closed", "open", "lopen", "ropen", "bl_closed", "bl_open", "el_closed", "el_open"}`

func (in *instance) module(devs []string) []byte {
	var d []string
	for _, x := range devs {
		d = append(d, fmt.Sprintf("%q", x))
	}
	emit := "FALSE"
	if in.EmitAll {
		emit = "TRUE"
	}
	return []byte(fmt.Sprintf(`---- MODULE MC_ArrayList ----
EXTENDS ArrayList
MCVals == %s
MCMaxLen == %d
MCInitLen == %d
MCSpares == %s
MCIdx == %s
MCBnd == %s
MCRangeKinds == %s
MCGrowBy == %s
MCRepBy == %s
MCOthers == %s
MCMaxHist == %d
MCMaxSlack == %d
MCKinds == %s
MCEmitAll == %s
MCDeviations == {%s}
====
`, in.Vals, in.MaxLen, in.InitLen, in.Spares, in.Idx, in.Bnd, in.RangeKinds, in.GrowBy, in.RepBy, in.Others,
		in.MaxHist, in.MaxSlack, in.Kinds, emit, strings.Join(d, ", ")))
}

func (in *instance) text() string {
	return fmt.Sprintf("Vals=%s MaxLen=%d InitLen=%d Spares=%s Idx=%s Bnd=%s GrowBy=%s RepBy=%s Others=%s MaxHist=%d Kinds=%s",
		in.Vals, in.MaxLen, in.InitLen, in.Spares, in.Idx, in.Bnd, in.GrowBy, in.RepBy, in.Others, in.MaxHist, in.Kinds)
}

func runTLC(c *core.Ctx, in *instance, simulate string, depth int, timeout time.Duration, firstID int) ([]*Beh, *tlc.Result, error) {
	var behs []*Beh
	var perr error
	res, err := tlc.Run(tlc.Opts{
		SpecDir: filepath.Join(core.VerifRoot, "spec", "ArrayList"), Module: "MC_ArrayList", Cfg: "ArrayList.cfg",
		Scratch: c.Scratch, Workers: c.Workers, Timeout: timeout, HeapMB: 4000,
		Extra:    map[string][]byte{"MC_ArrayList.tla": in.module(c.KnownDeviations())},
		Simulate: simulate, Depth: depth, Seed: c.Seed,
		OnGen: func(rec []byte) {
			b := &Beh{}
			if e := json.Unmarshal(rec, b); e != nil {
				perr = fmt.Errorf("bad GEN record: %v: %.300s", e, rec)
				return
			}
			b.ID = firstID + len(behs)
			behs = append(behs, b)
		},
	})
	if err != nil {
		return nil, nil, err
	}
	if perr != nil {
		return nil, res, perr
	}
	if !res.OK {
		return nil, res, core.Inconclusivef("TLC on ArrayList: verdict=%s %s\n%s", res.Verdict, res.What, tailStr(res.Output, 3000))
	}
	return behs, res, nil
}

func tailStr(s string, n int) string {
	if len(s) <= n {
		return s
	}
	return s[len(s)-n:]
}

type report struct {
	c        *core.Ctx
	byID     map[int]*Beh
	reported map[string]int
}

// violation turns a finding into a violation record (deduplicated by its shape: the same operation
// with the same arguments on the same contents in the same variant is reported once).
func (r *report) violation(f *Finding) {
	b := r.byID[f.BehID]
	st := &b.Steps[f.StepIdx]
	before := b.Init
	if f.StepIdx > 0 {
		p := &b.Steps[f.StepIdx-1]
		before = p.Alts[p.Pick-1].After
	}
	level := "go"
	if strings.HasPrefix(f.Variant, "elk/") {
		level = "elk"
	}
	key := fmt.Sprintf("%s|%s|%s|%v|%s|%s", f.Variant, f.Kind, st.Describe(), before, b.Kind, f.Deviation)
	r.reported[key]++
	if r.reported[key] > 1 {
		return
	}
	rec := map[string]any{
		"kind": f.Kind, "op": st.Op, "variant": f.Variant, "level": level, "collection": b.Kind,
		"contents_before": fmt.Sprint(before), "call": st.Describe(), "allowed": allowedText(st), "observed": obsText(&f.Obs),
		"observed_contents": fmt.Sprint(f.Obs.Elems), "what": f.What, "behaviour": b, "step": f.StepIdx,
		"summary": fmt.Sprintf("[%s %s] %s on %s %v: %s (behaviour: %s)", f.Variant, f.Kind, st.Describe(), b.Kind, before, f.What, b.Describe()),
	}
	if f.Deviation != "" {
		rec["deviation"] = f.Deviation
	}
	if level == "elk" && f.Variant == "elk/str" && st.Op == "concat" && st.Rk != b.Kind {
		// String literals are compiled to native (element-type-specialised) lists/tuples: list + tuple
		// and tuple + list are concatenations of two different native representations
		rec["mixed_native"] = "yes"
	}
	if f.Obs.Panic != "" {
		rec["panic"] = f.Obs.Panic
	}
	if f.Obs.RecvType != "" {
		rec["recv_type"], rec["arg_type"] = f.Obs.RecvType, f.Obs.ArgType
		// receiver and operand are different concrete implementations and one of them is a native
		// (element-type-specialised) array
		if f.Obs.RecvType != f.Obs.ArgType && (strings.Contains(f.Obs.RecvType, "Native") || strings.Contains(f.Obs.ArgType, "Native")) {
			rec["mixed_native"] = "yes"
		}
	}
	if f.Source != "" {
		rec["source"] = f.Source
	}
	r.c.Violation(rec)
}

// goReplay replays the behaviours on every Go-level variant.
func goReplay(c *core.Ctx, pool *core.Pool, behs []*Beh, judgeAll bool, rep *report) (steps int, err error) {
	const shard = 1000
	var jobs []core.Job
	for i := 0; i < len(behs); i += shard {
		j := i + shard
		if j > len(behs) {
			j = len(behs)
		}
		part := make([]Beh, 0, j-i)
		for _, b := range behs[i:j] {
			part = append(part, *b)
		}
		jobs = append(jobs, core.Job{Kind: "c24go", Payload: GoJob{Variants: Variants(), Behs: part, JudgeAll: judgeAll}, TimeoutMs: 300000})
	}
	results := pool.Map(jobs, nil)
	for i, jr := range results {
		switch {
		case jr.Crashed || jr.Timeout:
			// a Go fatal error inside the real code: run the shard's behaviours one by one to find it
			gj := jobs[i].Payload.(GoJob)
			var single []core.Job
			type one struct {
				b Beh
				v string
			}
			var ones []one
			for _, b := range gj.Behs {
				for _, v := range gj.Variants {
					ones = append(ones, one{b, v})
					single = append(single, core.Job{Kind: "c24go", Payload: GoJob{Variants: []string{v}, Behs: []Beh{b}, JudgeAll: judgeAll}, TimeoutMs: 60000})
				}
			}
			for k, sr := range pool.Map(single, nil) {
				if sr.Crashed || sr.Timeout {
					b := ones[k].b
					what := "the worker process died (Go fatal error)"
					if sr.Timeout {
						what = "the call did not return"
					}
					f := Finding{BehID: b.ID, StepIdx: len(b.Steps) - 1, Variant: ones[k].v, Kind: "go_fatal", What: what, Obs: Obs{T: "crash", Panic: tailStr(sr.CrashLog, 3000)}}
					rep.violation(&f)
					continue
				}
				var r GoResult
				if e := sr.Decode(&r); e != nil || sr.Err != "" || sr.Panic != "" {
					return steps, core.Inconclusivef("c24go worker: %s %s %v", sr.Err, sr.Panic, e)
				}
				steps += r.Steps
				for k := range r.Findings {
					rep.violation(&r.Findings[k])
				}
			}
		case jr.Err != "" || jr.Panic != "":
			return steps, core.Inconclusivef("c24go worker: %s %s", jr.Err, firstLine(jr.Panic))
		default:
			var r GoResult
			if e := jr.Decode(&r); e != nil {
				return steps, core.Inconclusivef("c24go result: %v", e)
			}
			steps += r.Steps
			for k := range r.Findings {
				rep.violation(&r.Findings[k])
			}
		}
	}
	return steps, nil
}

// elkSample picks the behaviours replayed as Elk programs: stratified by (kind, last operation) so
// that every operation is covered, seeded.
func elkSample(c *core.Ctx, behs []*Beh, perStratum int, crashing map[string]bool) []*Beh {
	strata := map[string][]*Beh{}
	for _, b := range behs {
		if len(b.Steps) == 0 {
			continue
		}
		skip := false
		for i := 0; i < len(b.Steps)-1; i++ {
			if crashing[b.Steps[i].Op] {
				skip = true // the program would stop at that prefix step (reported by its own record)
			}
		}
		if skip {
			continue
		}
		last := &b.Steps[len(b.Steps)-1]
		key := b.Kind + "/" + last.Op
		if last.Op == "slice" {
			key += "/" + last.Rk
		}
		strata[key] = append(strata[key], b)
	}
	var keys []string
	for k := range strata {
		keys = append(keys, k)
	}
	sort.Strings(keys)
	var out []*Beh
	for _, k := range keys {
		s := strata[k]
		n := perStratum
		if crashing[s[0].Steps[len(s[0].Steps)-1].Op] && n > 4 {
			n = 4 // every one of them ends in the same crash and needs a source file of its own
		}
		for _, i := range c.SampleIdx(len(s), n) {
			out = append(out, s[i])
		}
	}
	return out
}

func run(c *core.Ctx) error {
	rep := &report{c: c, byID: map[int]*Beh{}, reported: map[string]int{}}
	pool := c.NewPool(c.Workers)

	// ---- 1. exhaustive bounded instance: TLC checks the specification's own properties on every
	// state/transition and emits one behaviour per transition
	in := &instance{
		Vals: "0..2", MaxLen: 3, InitLen: 1, Spares: "{0, 2}", Idx: "-4..4", Bnd: "{-4, -3, -1, 0, 1, 2, 3}",
		RangeKinds: allRangeKinds, GrowBy: "{0, 2}", RepBy: "{-1, 0, 2}", Others: "{<<>>, <<1>>, <<0, 2>>}",
		MaxHist: 5, MaxSlack: 2, Kinds: `{"list", "tuple"}`, EmitAll: true,
	}
	if c.Thorough() {
		in.MaxLen, in.InitLen, in.Idx, in.Bnd = 4, 2, "-5..5", "-5..5"
		in.MaxHist, in.MaxSlack, in.GrowBy, in.RepBy = 6, 4, "{0, 1, 3}", "{-1, 0, 1, 3}"
		in.Others = "{<<>>, <<1>>, <<0, 2>>, <<2, 2, 1>>}"
	}
	t0 := time.Now()
	behs, res, err := runTLC(c, in, "", 0, time.Duration(c.Pick(150, 900))*time.Second, 1)
	if err != nil {
		return err
	}
	c.Logf("TLC (exhaustive): %d states generated, %d distinct, depth %d, %d behaviours, %.1fs", res.Generated, res.Distinct, res.Depth, len(behs), time.Since(t0).Seconds())
	c.CovAdd("states", int(res.Distinct))
	c.CovAdd("transitions", int(res.Generated))
	c.Cov("spec", "spec/ArrayList/ArrayList.tla + ArrayList.cfg (TypeOK, NegativeIndexAgrees, TupleImmutable, FailedOpsChangeNothing, ReadOpsChangeNothing, LengthAccounting checked by TLC)")
	c.Cov("instance_exhaustive", in.text())
	if len(behs) == 0 {
		return core.Inconclusivef("the specification emitted no behaviour")
	}
	ops := map[string]int{}
	for _, b := range behs {
		rep.byID[b.ID] = b
		ops[b.Kind+"/"+b.Steps[len(b.Steps)-1].Op]++
	}
	c.Cov("transitions_by_operation", ops)
	for _, want := range []string{"get", "set", "push", "shl", "append", "pop", "clear", "remove", "remove_at", "grow", "slice", "concat", "repeat", "eq", "contains", "length"} {
		if ops["list/"+want] == 0 {
			return core.Inconclusivef("vacuous instance: no list transition for operation %s", want)
		}
	}

	t1 := time.Now()
	steps, err := goReplay(c, pool, behs, false, rep)
	if err != nil {
		return err
	}
	c.Logf("Go-level replay: %d behaviours x %d variants, %d transitions compared, %.1fs", len(behs), len(Variants()), steps, time.Since(t1).Seconds())
	c.CovAdd("traces_validated_against_impl", len(behs)*len(Variants()))
	c.CovAdd("go_level_steps_compared", steps)
	c.Cov("go_level_variants", Variants())

	// ---- 2. the same behaviours as Elk programs (stratified seeded sample)
	crashing := map[string]bool{}
	{
		// which operations stop the program (Go panic)? Behaviours with such a step in their prefix
		// cannot be continued at the Elk level; the crash itself is reported by the records ending in it.
		var probes []*Beh
		for _, b := range behs {
			if b.Kind == "list" && len(b.Steps) == 1 && len(b.Init) == 1 && b.Spare == 0 {
				seen := false
				for _, p := range probes {
					if p.Steps[0].Op == b.Steps[0].Op {
						seen = true
					}
				}
				if !seen {
					probes = append(probes, b)
				}
			}
		}
		o, err := runElk(c, pool, probes, pools["int"], 1, false)
		if err != nil {
			return err
		}
		for _, f := range o.findings {
			if f.Kind == "go_panic" {
				crashing[rep.byID[f.BehID].Steps[0].Op] = true
			}
		}
	}
	t2 := time.Now()
	elkCompared, elkBehs, ood := 0, 0, 0
	for _, pn := range []string{"int", "str"} {
		per := c.Pick(40, 400)
		if pn == "str" {
			per = c.Pick(12, 120)
		}
		sample := elkSample(c, behs, per, crashing)
		o, err := runElk(c, pool, sample, pools[pn], 40, false)
		if err != nil {
			return err
		}
		if len(o.harness) > 0 {
			return core.Inconclusivef("Elk replay (%s): %d behaviours could not be read back, e.g. %s", pn, len(o.harness), o.harness[0])
		}
		for k := range o.findings {
			rep.violation(&o.findings[k])
		}
		elkCompared += o.compared
		elkBehs += o.behs
		ood += o.outOfDom
		if pn == "int" && o.sampleSrc != "" {
			c.Sample(map[string]any{"elk_program_of_a_batch_first_lines": firstLines(o.sampleSrc, 40)})
		}
	}
	c.Logf("Elk-level replay: %d behaviours, %d transitions compared, %d rejected, %.1fs", elkBehs, elkCompared, ood, time.Since(t2).Seconds())
	c.CovAdd("traces_validated_against_impl", elkBehs-ood)
	c.CovAdd("elk_level_behaviours", elkBehs)
	c.CovAdd("elk_level_steps_compared", elkCompared)
	c.CovAdd("out_of_domain", ood)
	if ood*5 > elkBehs {
		return core.Inconclusivef("%d of %d Elk programs were rejected by the checker", ood, elkBehs)
	}

	// ---- 3. long random histories (TLC simulation of the same specification, larger bounds): every
	// step of every behaviour is compared
	sim := &instance{
		Vals: "0..2", MaxLen: 6, InitLen: 2, Spares: "{0, 1, 3}", Idx: "-7..7", Bnd: "{-7, -4, -1, 0, 1, 3, 6}",
		RangeKinds: allRangeKinds, GrowBy: "{0, 1, 2, 5}", RepBy: "{-1, 0, 1, 2}", Others: "{<<>>, <<1>>, <<0, 2>>, <<2, 2, 1>>}",
		MaxHist: c.Pick(12, 25), MaxSlack: 8, Kinds: `{"list"}`, EmitAll: false,
	}
	nSim := c.Pick(150, 3000)
	t3 := time.Now()
	simBehs, sres, err := runTLC(c, sim, fmt.Sprintf("num=%d", nSim), sim.MaxHist+2, time.Duration(c.Pick(120, 600))*time.Second, len(behs)+1)
	if err != nil {
		return err
	}
	if len(simBehs) == 0 {
		return core.Inconclusivef("TLC simulation emitted no behaviour")
	}
	for _, b := range simBehs {
		rep.byID[b.ID] = b
	}
	c.Logf("TLC (simulation, seed %d): %d behaviours of %d operations, %d states, %.1fs", c.Seed, len(simBehs), sim.MaxHist, sres.Generated, time.Since(t3).Seconds())
	c.CovAdd("transitions", int(sres.Generated))
	c.Cov("instance_simulation", sim.text()+fmt.Sprintf(" behaviours=%d", len(simBehs)))
	ssteps, err := goReplay(c, pool, simBehs, true, rep)
	if err != nil {
		return err
	}
	c.CovAdd("traces_validated_against_impl", len(simBehs)*len(Variants()))
	c.CovAdd("go_level_steps_compared", ssteps)
	// a part of them as Elk programs too (those that avoid the crashing operations)
	var simElk []*Beh
	for _, b := range simBehs {
		ok := true
		for i := range b.Steps {
			if crashing[b.Steps[i].Op] {
				ok = false
			}
		}
		if ok {
			simElk = append(simElk, b)
		}
	}
	if n := c.Pick(60, 600); len(simElk) > n {
		simElk = simElk[:n]
	}
	if len(simElk) > 0 {
		o, err := runElk(c, pool, simElk, pools["int"], 10, true)
		if err != nil {
			return err
		}
		if len(o.harness) > 0 {
			return core.Inconclusivef("Elk replay (simulation): %d behaviours could not be read back, e.g. %s", len(o.harness), o.harness[0])
		}
		for k := range o.findings {
			rep.violation(&o.findings[k])
		}
		c.CovAdd("traces_validated_against_impl", o.behs-o.outOfDom)
		c.CovAdd("elk_level_behaviours", o.behs)
		c.CovAdd("elk_level_steps_compared", o.compared)
	}
	c.Logf("simulation replay: %d Go-level steps, %d Elk programs, %.1fs", ssteps, len(simElk), time.Since(t3).Seconds())

	c.Sample(map[string]any{"behaviour": behs[len(behs)/2].Describe(), "last_step_allowed": allowedText(&behs[len(behs)/2].Steps[len(behs[len(behs)/2].Steps)-1])})
	c.Sample(map[string]any{"simulated_behaviour": simBehs[0].Describe()})
	c.Assume("trusted: TLC/SANY, the JSON decoding of GEN records, the Elk emitter of prop/c24/elkreplay.go, inspect of Int/String/Bool/Tuple used to read results back")
	c.Assume("capacity is compared only against the documented contract: capacity >= length, grow(n) adds exactly n, an append that fits does not reallocate")
	c.Cov("distinct_differences_reported", len(rep.reported))
	return nil
}

func firstLines(s string, n int) string {
	lines := strings.Split(s, "\n")
	if len(lines) > n {
		lines = lines[:n]
	}
	return strings.Join(lines, "\n")
}
