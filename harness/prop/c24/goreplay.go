package c24

import (
	"math"
	"encoding/json"
	"fmt"
	"runtime/debug"
	"strings"

	"github.com/elk-language/elk"
	"github.com/elk-language/elk/value"
	"github.com/elk-language/elk/vm"

	"elkverif/internal/core"
	"elkverif/internal/elkrun"
)

// Replay of ArrayList behaviours at the Go API level: the `value` package's list/tuple
// implementations (ArrayListOfValue, ArrayTupleOfValue, NativeArrayList[T], NativeArrayTuple[T])
// driven either through their exported methods ("direct") or through the VM's method wrappers of
// vm/array_list.go, vm/array_tuple.go, vm/tuple.go, vm/iterable.go ("vm": the same native functions
// an Elk program reaches, called with Thread.CallMethod).

type GoJob struct {
	Variants []string `json:"variants"`
	Behs     []Beh    `json:"behs"`
	// JudgeAll: compare every step (complete behaviours from simulation). Otherwise only the last step
	// of each behaviour is compared: in per-transition mode every prefix step is the last step of
	// another record.
	JudgeAll bool `json:"judge_all"`
}

type GoResult struct {
	Behs     int       `json:"behs"`
	Steps    int       `json:"steps"`
	Findings []Finding `json:"findings"`
}

func init() {
	core.RegisterJob("c24go", func(p json.RawMessage) (any, error) {
		var j GoJob
		if err := json.Unmarshal(p, &j); err != nil {
			return nil, err
		}
		return RunGoJob(&j)
	})
}

// variant = element type x container implementation (receiver, operands) x API level
type variant struct {
	name    string
	level   string // direct | vm
	val     func(int) value.Value
	mkList  func(elems []int, spare int) value.ArrayList
	mkTuple func(elems []int) value.ArrayTuple
	// right operands of + and ==
	mkOtherList  func(elems []int, spare int) value.ArrayList
	mkOtherTuple func(elems []int) value.ArrayTuple
	dec          map[string]int
}

func (v *variant) decode(x value.Value) (int, bool) {
	if x.IsUndefined() {
		return 0, false
	}
	i, ok := v.dec[x.Inspect()]
	return i, ok
}

// impl = one container implementation for one element type
type impl struct {
	val     func(int) value.Value
	mkList  func(elems []int, spare int) value.ArrayList
	mkTuple func(elems []int) value.ArrayTuple
}

func ofValueImpl(val func(int) value.Value) *impl {
	mk := func(e []int) []value.Value {
		out := make([]value.Value, len(e))
		for i, x := range e {
			out[i] = val(x)
		}
		return out
	}
	return &impl{
		val: val,
		mkList: func(e []int, spare int) value.ArrayList {
			return value.NewArrayListOfValueWithElements(spare, mk(e)...)
		},
		mkTuple: func(e []int) value.ArrayTuple { return value.NewArrayTupleOfValueWithElements(0, mk(e)...) },
	}
}

func nativeImpl[T value.ValueInterface](conv func(int) T) *impl {
	mk := func(e []int) []T {
		out := make([]T, len(e))
		for i, x := range e {
			out[i] = conv(x)
		}
		return out
	}
	return &impl{
		val: func(i int) value.Value { return conv(i).ToValue() },
		mkList: func(e []int, spare int) value.ArrayList {
			return value.NewNativeArrayListWithElements[T](spare, mk(e)...)
		},
		mkTuple: func(e []int) value.ArrayTuple { return value.NewNativeArrayTupleWithElements[T](0, mk(e)...) },
	}
}

// Variants lists the names understood by the job: <receiver>[+<operands>]/<level>.
// "value" = ArrayListOfValue/ArrayTupleOfValue of Int; "string", "int64", "symbol" =
// NativeArrayList[T]/NativeArrayTuple[T]; "string+value": native receiver, ...OfValue right operands
// of + and == (holding the same String elements); "value+string": the other way round.
func Variants() []string {
	return []string{
		"value/direct", "value/vm",
		"string/direct", "string/vm", "int64/direct", "int64/vm", "symbol/vm",
		"string+value/direct", "int64+value/vm", "value+string/direct", "value+int64/vm",
	}
}

func nativeFor(elem string) *impl {
	switch elem {
	case "string":
		return nativeImpl(func(i int) value.String { return value.String(fmt.Sprintf("s%d", i)) })
	case "int64":
		return nativeImpl(func(i int) value.Int64 { return value.Int64(i) })
	case "symbol":
		return nativeImpl(func(i int) value.Symbol { return value.ToSymbol(fmt.Sprintf("y%d", i)) })
	}
	return nil
}

func newVariant(name string) (*variant, error) {
	parts := strings.Split(name, "/")
	if len(parts) != 2 || (parts[1] != "direct" && parts[1] != "vm") {
		return nil, fmt.Errorf("bad variant %q", name)
	}
	reprs := strings.Split(parts[0], "+")
	var recv, other *impl
	switch {
	case len(reprs) == 1 && reprs[0] == "value":
		recv = ofValueImpl(func(i int) value.Value { return value.SmallInt(i).ToValue() })
		other = recv
	case len(reprs) == 1:
		recv = nativeFor(reprs[0])
		other = recv
	case len(reprs) == 2 && reprs[1] == "value":
		recv = nativeFor(reprs[0])
		if recv != nil {
			other = ofValueImpl(recv.val)
		}
	case len(reprs) == 2 && reprs[0] == "value":
		other = nativeFor(reprs[1])
		if other != nil {
			recv = ofValueImpl(other.val)
		}
	}
	if recv == nil || other == nil {
		return nil, fmt.Errorf("bad variant %q", name)
	}
	v := &variant{name: name, level: parts[1], val: recv.val, mkList: recv.mkList, mkTuple: recv.mkTuple,
		mkOtherList: other.mkList, mkOtherTuple: other.mkTuple, dec: map[string]int{}}
	for i := -2; i <= 9; i++ {
		v.dec[v.val(i).Inspect()] = i
	}
	return v, nil
}

func (v *variant) makeOther(kind string, elems []int) value.ArrayTuple {
	if kind == "list" {
		return v.mkOtherList(elems, 0)
	}
	return v.mkOtherTuple(elems)
}

func (v *variant) make(kind string, elems []int, spare int) value.ArrayTuple {
	if kind == "list" {
		return v.mkList(elems, spare)
	}
	return v.mkTuple(elems)
}

func RunGoJob(j *GoJob) (*GoResult, error) {
	elkrun.Setup()
	elk.InitGlobalEnvironment()
	res := &GoResult{}
	for _, name := range j.Variants {
		v, err := newVariant(name)
		if err != nil {
			return nil, err
		}
		th := vm.New()
		for i := range j.Behs {
			f, n := replayGo(v, th, &j.Behs[i], j.JudgeAll)
			res.Behs++
			res.Steps += n
			res.Findings = append(res.Findings, f...)
		}
	}
	return res, nil
}

type goState struct {
	v    *variant
	th   *vm.Thread
	obj  value.ArrayTuple
	snap value.Value
	nidx int
}

func replayGo(v *variant, th *vm.Thread, b *Beh, judgeAll bool) (findings []Finding, steps int) {
	s := &goState{v: v, th: th, obj: v.make(b.Kind, b.Init, b.Spare)}
	isList := b.Kind == "list"
	snapValid := true
	for i := range b.Steps {
		st := &b.Steps[i]
		o := &Obs{Cap: -1, CapPrev: -1}
		if l, ok := s.obj.(value.ArrayList); ok && isList {
			o.CapPrev = l.Capacity()
		}
		s.exec(st, o)
		s.observe(o, isList)
		if !judgeAll && i < len(b.Steps)-1 {
			snapValid = snapAfter(st, Judge(st, o, isList, false).Alt, snapValid)
			if st.NeedsResync() || !eqInts(o.Elems, st.Alts[st.Pick-1].After) {
				s.obj = v.make(b.Kind, st.Alts[st.Pick-1].After, st.Slack)
			}
			continue
		}
		steps++
		verdict := Judge(st, o, isList, snapValid)
		snapValid = snapAfter(st, verdict.Alt, snapValid)
		if !verdict.OK {
			findings = append(findings, Finding{BehID: b.ID, StepIdx: i, Variant: v.name, Kind: verdict.Kind, Deviation: verdict.Deviation, What: verdict.What, Obs: *o})
		}
		if !verdict.OK || verdict.Alt != st.Pick || st.NeedsResync() {
			// continue from the state the behaviour continues with
			s.obj = v.make(b.Kind, st.Alts[st.Pick-1].After, st.Slack)
		}
	}
	return findings, steps
}

// observe reads the contents back through three independent paths: Length/AtVal, Elements() and the
// iterator's NextValue; they must agree.
func (s *goState) observe(o *Obs, isList bool) {
	defer func() {
		if r := recover(); r != nil {
			o.Note = fmt.Sprintf("Go panic while reading the contents back: %v", r)
		}
	}()
	read := func(t value.ArrayTuple) ([]int, string) {
		n := t.Length()
		out := make([]int, 0, n)
		for i := 0; i < n; i++ {
			x, ok := s.v.decode(t.AtVal(i))
			if !ok {
				return out, fmt.Sprintf("element %d is %s, not a value of the alphabet", i, t.AtVal(i).Inspect())
			}
			out = append(out, x)
		}
		var viaElements []int
		for _, e := range t.Elements() {
			x, _ := s.v.decode(e)
			viaElements = append(viaElements, x)
		}
		if !eqInts(out, viaElements) {
			return out, fmt.Sprintf("Elements() yields %v but indexing gives %v", viaElements, out)
		}
		var viaIter []int
		it := t.IterTuple()
		for k := 0; k <= n+1; k++ {
			e, err := it.NextValue()
			if !err.IsUndefined() {
				break
			}
			x, _ := s.v.decode(e)
			viaIter = append(viaIter, x)
		}
		if !eqInts(out, viaIter) {
			return out, fmt.Sprintf("the iterator yields %v but indexing gives %v", viaIter, out)
		}
		return out, ""
	}
	var note string
	o.Elems, note = read(s.obj)
	if note != "" {
		o.Note = note
	}
	if l, ok := s.obj.(value.ArrayList); ok && isList {
		o.Cap = l.Capacity()
		if l.LeftCapacity() != l.Capacity()-l.Length() {
			o.Note = fmt.Sprintf("left_capacity %d != capacity %d - length %d", l.LeftCapacity(), l.Capacity(), l.Length())
		}
	}
	if !s.snap.IsUndefined() {
		if t, ok := s.snap.SafeAsReference().(value.ArrayTuple); ok {
			o.HasSnap = true
			o.Snap, _ = read(t)
		}
	}
}

func (s *goState) call(name string, args ...value.Value) (res, err value.Value, missing bool) {
	recv := s.obj.ToValue()
	m := recv.DirectClass().LookupMethod(value.ToSymbol(name))
	if m == nil {
		return value.Undefined, value.Undefined, true
	}
	all := append([]value.Value{recv}, args...)
	res, err = s.th.CallMethod(m, all...)
	return res, err, false
}

func (s *goState) rangeValue(rk string, lo, hi int) value.Value {
	l, h := value.SmallInt(lo).ToValue(), value.SmallInt(hi).ToValue()
	switch rk {
	case "closed":
		return value.Ref(value.NewClosedRange(l, h))
	case "open":
		return value.Ref(value.NewOpenRange(l, h))
	case "lopen":
		return value.Ref(value.NewLeftOpenRange(l, h))
	case "ropen":
		return value.Ref(value.NewRightOpenRange(l, h))
	case "bl_closed":
		return value.Ref(value.NewBeginlessClosedRange(h))
	case "bl_open":
		return value.Ref(value.NewBeginlessOpenRange(h))
	case "el_closed":
		return value.Ref(value.NewEndlessClosedRange(l))
	case "el_open":
		return value.Ref(value.NewEndlessOpenRange(l))
	}
	panic("range kind " + rk)
}

// stretch: the specification treats every index outside -len..len-1 alike (IndexError, nothing changes),
// but TLC's index domain is a small interval. Two of every three out-of-range indices of a behaviour are
// therefore replaced by a representative from the far ends of the Int range before they reach the real code
// (the overflow corners of index normalisation); in-range indices are never touched.
var farNeg = []int{math.MinInt64, math.MinInt64 + 1, -(1 << 62), -(1 << 32), -(1 << 31) - 1}
var farPos = []int{math.MaxInt64, math.MaxInt64 - 1, 1 << 62, 1 << 32, 1 << 31}

func (s *goState) stretch(i int) int {
	n := s.obj.Length()
	s.nidx++
	switch {
	case i < -n && s.nidx%3 != 0:
		return farNeg[(s.nidx/3+i+64)%len(farNeg)]
	case i >= n && s.nidx%3 != 0:
		return farPos[(s.nidx/3+i)%len(farPos)]
	}
	return i
}

func (s *goState) exec(st0 *Step, o *Obs) {
	st := st0
	if st.Op == "get" || st.Op == "set" || st.Op == "remove_at" {
		cp := *st0
		cp.A = s.stretch(st0.A)
		if cp.A != st0.A {
			o.Stretched = cp.A
		}
		st = &cp
	}
	defer func() {
		if r := recover(); r != nil {
			stack := string(debug.Stack())
			if len(stack) > 2500 {
				stack = stack[:2500]
			}
			o.T = "crash"
			o.Panic = fmt.Sprintf("Go panic: %v\n%s", r, stack)
		}
	}()
	v := s.v
	direct := v.level == "direct"
	list, _ := s.obj.(value.ArrayList)
	var res, err value.Value
	missing := false
	want := "n" // how to decode res: v b s n
	switch st.Op {
	case "get":
		want = "v"
		if direct {
			res, err = s.obj.SubscriptInt(st.A)
		} else {
			res, err, missing = s.call("[]", value.SmallInt(st.A).ToValue())
		}
	case "set":
		if direct {
			err = list.SubscriptSetInt(st.A, v.val(st.B))
		} else {
			_, err, missing = s.call("[]=", value.SmallInt(st.A).ToValue(), v.val(st.B))
		}
	case "push", "shl":
		if direct {
			err = list.AppendVal(v.val(st.A))
		} else if st.Op == "push" {
			_, err, missing = s.call("push", v.val(st.A))
		} else {
			_, err, missing = s.call("<<", v.val(st.A))
		}
	case "append":
		vals := make([]value.Value, len(st.Q))
		for i, x := range st.Q {
			vals[i] = v.val(x)
		}
		if direct {
			err = list.AppendVal(vals...)
		} else {
			_, err, missing = s.call("append", value.Ref(value.NewArrayTupleOfValueWithElements(0, vals...)))
		}
	case "pop":
		want = "v"
		res, err, missing = s.call("pop")
	case "clear":
		_, err, missing = s.call("clear")
	case "remove":
		want = "b"
		res, err, missing = s.call("remove", v.val(st.A))
	case "remove_at":
		if direct {
			err = list.RemoveAtErr(st.A)
		} else {
			_, err, missing = s.call("remove_at", value.SmallInt(st.A).ToValue())
		}
	case "grow":
		if direct {
			list.Grow(st.A)
		} else {
			_, err, missing = s.call("grow", value.SmallInt(st.A).ToValue())
		}
	case "slice":
		want = "s"
		res, err, missing = s.call("slice", s.rangeValue(st.Rk, st.A, st.B))
	case "concat":
		want = "s"
		otherObj := v.makeOther(st.Rk, st.Q)
		other := otherObj.ToValue()
		o.RecvType, o.ArgType = fmt.Sprintf("%T", s.obj), fmt.Sprintf("%T", otherObj)
		if direct {
			res, err = s.obj.ConcatVal(other)
		} else {
			res, err, missing = s.call("+", other)
		}
	case "repeat":
		want = "s"
		if direct {
			res, err = s.obj.RepeatVal(value.SmallInt(st.A).ToValue())
		} else {
			res, err, missing = s.call("*", value.SmallInt(st.A).ToValue())
		}
	case "eq":
		want = "b"
		kind := "tuple"
		if list != nil {
			kind = "list"
		}
		otherObj := v.makeOther(kind, st.Q)
		o.RecvType, o.ArgType = fmt.Sprintf("%T", s.obj), fmt.Sprintf("%T", otherObj)
		res, err, missing = s.call("==", otherObj.ToValue())
	case "contains":
		want = "b"
		res, err, missing = s.call("contains", v.val(st.A))
	case "length":
		want = "v"
		if direct {
			o.T, o.V = "v", s.obj.Length()
			return
		}
		res, err, missing = s.call("length")
		if !missing && err.IsUndefined() {
			if !res.IsSmallInt() {
				o.T, o.Panic = "crash", "length returned "+res.Inspect()
				return
			}
			o.T, o.V = "v", int(res.AsSmallInt())
			return
		}
	default:
		panic("unknown op " + st.Op)
	}
	switch {
	case missing:
		o.T = "crash"
		o.Panic = fmt.Sprintf("tried to call an invalid method: method `%s` is declared by the header but not defined on %s at run time", vmName(st.Op), s.obj.Class().Name)
	case !err.IsUndefined():
		o.T = "err"
		o.ErrClass, o.ErrMsg = elkrun.DescribeError(err)
	default:
		switch want {
		case "n":
			o.T = "n"
		case "v":
			x, ok := v.decode(res)
			if !ok {
				o.T, o.Panic = "crash", "result is "+inspectSafe(res)+", not an element"
				return
			}
			o.T, o.V = "v", x
		case "b":
			switch {
			case res == value.True.ToValue():
				o.T, o.V = "b", 1
			case res == value.False.ToValue():
				o.T, o.V = "b", 0
			default:
				o.T, o.Panic = "crash", "result is "+inspectSafe(res)+", not a bool"
			}
		case "s":
			t, ok := res.SafeAsReference().(value.ArrayTuple)
			if !ok {
				o.T, o.Panic = "crash", "result is "+inspectSafe(res)+", not a list/tuple"
				return
			}
			o.T = "s"
			o.S = []int{}
			for i := 0; i < t.Length(); i++ {
				x, ok := v.decode(t.AtVal(i))
				if !ok {
					x = -99
				}
				o.S = append(o.S, x)
			}
			s.snap = res
		}
	}
}

func vmName(op string) string {
	switch op {
	case "get":
		return "[]"
	case "set":
		return "[]="
	case "shl":
		return "<<"
	case "concat":
		return "+"
	case "repeat":
		return "*"
	case "eq":
		return "=="
	}
	return op
}

func inspectSafe(v value.Value) (s string) {
	defer func() {
		if r := recover(); r != nil {
			s = "<uninspectable>"
		}
	}()
	if v.IsUndefined() {
		return "undefined"
	}
	return v.Inspect()
}
