// Package c24: ArrayList / ArrayTuple behave as plain sequences (spec/ArrayList).
package c24

import (
	"fmt"
	"strings"
)

// ---- the behaviours emitted by spec/ArrayList (GEN records) ---------------------------------------

// Out is an outcome of the specification: t = v value | b bool | s new sequence | n not observed |
// e out-of-range error | x any Elk error.
type Out struct {
	T string `json:"t"`
	V int    `json:"v"`
	S []int  `json:"s"`
}

type Alt struct {
	Out   Out   `json:"out"`
	After []int `json:"after"`
}

type Dev struct {
	Name  string `json:"name"`
	Out   Out    `json:"out"`
	After []int  `json:"after"`
}

type Snap struct {
	Has bool  `json:"has"`
	S   []int `json:"s"`
}

type Step struct {
	Op    string `json:"op"`
	A     int    `json:"a"`
	B     int    `json:"b"`
	Rk    string `json:"rk"`
	Q     []int  `json:"q"`
	Alts  []Alt  `json:"alts"`
	Pick  int    `json:"pick"` // 1-based: the alternative the behaviour continues with
	Dev   []Dev  `json:"dev"`
	Slack int    `json:"slack"`
	Capr  string `json:"capr"` // same | grow | any
	Snap  Snap   `json:"snap"`
}

type Beh struct {
	ID    int    `json:"id"`
	Kind  string `json:"kind"` // list | tuple
	Init  []int  `json:"init"`
	Spare int    `json:"spare"`
	Steps []Step `json:"steps"`
}

// NeedsResync: the alternatives / described deviations of this step leave different contents behind, so
// after it the real object is re-created from the state the behaviour continues with.
func (s *Step) NeedsResync() bool {
	pick := s.Alts[s.Pick-1].After
	for _, a := range s.Alts {
		if !eqInts(a.After, pick) {
			return true
		}
	}
	for _, d := range s.Dev {
		if !eqInts(d.After, pick) {
			return true
		}
	}
	return false
}

func (s *Step) Describe() string {
	switch s.Op {
	case "get", "remove_at", "grow", "repeat", "contains", "remove", "push", "shl":
		return fmt.Sprintf("%s(%d)", s.Op, s.A)
	case "set":
		return fmt.Sprintf("set(%d, %d)", s.A, s.B)
	case "slice":
		return fmt.Sprintf("slice(%s)", RangeText(s.Rk, fmt.Sprint(s.A), fmt.Sprint(s.B)))
	case "concat":
		return fmt.Sprintf("concat(%s %v)", s.Rk, s.Q)
	case "eq", "append":
		return fmt.Sprintf("%s(%v)", s.Op, s.Q)
	}
	return s.Op
}

func (b *Beh) Describe() string {
	var sb strings.Builder
	fmt.Fprintf(&sb, "%s %v spare=%d:", b.Kind, b.Init, b.Spare)
	for i := range b.Steps {
		sb.WriteString(" " + b.Steps[i].Describe())
	}
	return sb.String()
}

// RangeText renders a range of the given kind in Elk syntax.
func RangeText(rk, lo, hi string) string {
	switch rk {
	case "closed":
		return lo + "..." + hi
	case "open":
		return lo + "<.<" + hi
	case "lopen":
		return lo + "<.." + hi
	case "ropen":
		return lo + "..<" + hi
	case "bl_closed":
		return "..." + hi
	case "bl_open":
		return "..<" + hi
	case "el_closed":
		return lo + "..."
	case "el_open":
		return lo + "<.."
	}
	return "?" + rk
}

// ---- observations of the real code ----------------------------------------------------------------

// Obs is what one step did on the real implementation.
type Obs struct {
	Stretched int `json:"stretched,omitempty"` // the far-end representative an out-of-range index was replaced by
	// result: v | b | s | n (nothing observed) | err (an Elk error: ErrClass/ErrMsg) |
	// crash (Go panic / missing method: Panic)
	T        string `json:"t"`
	V        int    `json:"v,omitempty"`
	S        []int  `json:"s,omitempty"`
	ErrClass string `json:"err_class,omitempty"`
	ErrMsg   string `json:"err_msg,omitempty"`
	Panic    string `json:"panic,omitempty"`
	// state afterwards
	Elems   []int  `json:"elems"`
	Cap     int    `json:"cap"` // -1: not observable (tuples)
	CapPrev int    `json:"cap_prev"`
	Snap    []int  `json:"snap,omitempty"`
	HasSnap bool   `json:"has_snap,omitempty"`
	Note    string `json:"note,omitempty"` // harness-level inconsistency between two observation paths
	// Go types of the receiver and of the right operand (Go-level replay of + and ==)
	RecvType string `json:"recv_type,omitempty"`
	ArgType  string `json:"arg_type,omitempty"`
}

func isRangeErrorClass(c string) bool {
	return strings.Contains(c, "IndexError") || strings.Contains(c, "OutOfRangeError")
}

func eqInts(a, b []int) bool {
	if len(a) != len(b) {
		return false
	}
	for i := range a {
		if a[i] != b[i] {
			return false
		}
	}
	return true
}

// matches: does the observed result + contents agree with one allowed outcome?
func matches(o *Obs, out *Out, after []int) bool {
	if !eqInts(o.Elems, after) {
		return false
	}
	switch out.T {
	case "n":
		return o.T != "err" && o.T != "crash"
	case "v":
		return o.T == "v" && o.V == out.V
	case "b":
		return o.T == "b" && o.V == out.V
	case "s":
		return o.T == "s" && eqInts(o.S, out.S)
	case "e":
		return o.T == "err" && isRangeErrorClass(o.ErrClass)
	case "x":
		return o.T == "err"
	}
	return false
}

// Verdict of one step.
type Verdict struct {
	OK        bool
	Kind      string // go_panic | wrong_result | wrong_contents | wrong_error | capacity | snapshot_changed | harness
	Deviation string // name of the described deviation the observation equals, if any
	Alt       int    // index (1-based) of the matching alternative when OK
	What      string
}

// Judge compares one observed step with the specification's step.
// snapValid: the harness' snapshot is the one the behaviour expects (false after a step whose real
// outcome was an allowed alternative that produced no / another collection).
func Judge(st *Step, o *Obs, isList bool, snapValid bool) Verdict {
	if o.Note != "" {
		return Verdict{Kind: "inconsistent_observation", What: o.Note}
	}
	for i := range st.Alts {
		if matches(o, &st.Alts[i].Out, st.Alts[i].After) {
			// capacity contract
			if isList && o.Cap >= 0 {
				if o.Cap < len(o.Elems) {
					return Verdict{Kind: "capacity", What: fmt.Sprintf("capacity %d < length %d", o.Cap, len(o.Elems))}
				}
				if o.Cap-len(o.Elems) < st.Slack {
					return Verdict{Kind: "capacity", What: fmt.Sprintf("left capacity %d, but %d slots were reserved by grow", o.Cap-len(o.Elems), st.Slack)}
				}
				switch st.Capr {
				case "same":
					if o.Cap != o.CapPrev {
						return Verdict{Kind: "capacity", What: fmt.Sprintf("capacity changed %d -> %d although the elements fit / nothing was added", o.CapPrev, o.Cap)}
					}
				case "grow":
					if o.Cap != o.CapPrev+st.A {
						return Verdict{Kind: "capacity", What: fmt.Sprintf("grow(%d): capacity %d -> %d", st.A, o.CapPrev, o.Cap)}
					}
				}
			}
			// the snapshot (result of the last + * or slice) must still hold its elements
			if snapValid && i+1 == st.Pick && st.Snap.Has && o.HasSnap && !eqInts(st.Snap.S, o.Snap) {
				return Verdict{Kind: "snapshot_changed", What: fmt.Sprintf("an earlier result changed: expected %v, now %v", st.Snap.S, o.Snap)}
			}
			return Verdict{OK: true, Alt: i + 1}
		}
	}
	v := Verdict{}
	for _, d := range st.Dev {
		if matches(o, &d.Out, d.After) {
			v.Deviation = d.Name
		}
	}
	pick := st.Alts[st.Pick-1]
	switch {
	case o.T == "crash":
		v.Kind = "go_panic"
		v.What = firstLine(o.Panic)
	case o.T == "err" && pick.Out.T != "e" && pick.Out.T != "x":
		v.Kind = "wrong_error"
		v.What = fmt.Sprintf("unexpected error %s: %s", o.ErrClass, o.ErrMsg)
	case o.T == "err":
		v.Kind = "wrong_error"
		v.What = fmt.Sprintf("error class %s (%s) is not an out-of-range error", o.ErrClass, o.ErrMsg)
	case !eqInts(o.Elems, pick.After) && (len(st.Alts) == 1 || !anyAfter(st, o.Elems)):
		v.Kind = "wrong_contents"
		v.What = fmt.Sprintf("contents %v, allowed %s", o.Elems, allowedText(st))
	default:
		v.Kind = "wrong_result"
		v.What = fmt.Sprintf("result %s, allowed %s", obsText(o), allowedText(st))
	}
	return v
}

func anyAfter(st *Step, e []int) bool {
	for _, a := range st.Alts {
		if eqInts(a.After, e) {
			return true
		}
	}
	return false
}

func outText(o *Out) string {
	switch o.T {
	case "v":
		return fmt.Sprint(o.V)
	case "b":
		return fmt.Sprint(o.V == 1)
	case "s":
		return fmt.Sprint(o.S)
	case "n":
		return "-"
	case "e":
		return "out-of-range error"
	case "x":
		return "error"
	}
	return "?"
}

func obsText(o *Obs) string {
	switch o.T {
	case "v":
		return fmt.Sprint(o.V)
	case "b":
		return fmt.Sprint(o.V == 1)
	case "s":
		return fmt.Sprint(o.S)
	case "n":
		return "-"
	case "err":
		return "error " + o.ErrClass + ": " + o.ErrMsg
	case "crash":
		return "CRASH " + firstLine(o.Panic)
	}
	return "?"
}

func allowedText(st *Step) string {
	var parts []string
	for _, a := range st.Alts {
		parts = append(parts, fmt.Sprintf("%s -> %v", outText(&a.Out), a.After))
	}
	return strings.Join(parts, " | ")
}

func firstLine(s string) string {
	if i := strings.IndexByte(s, '\n'); i >= 0 {
		return s[:i]
	}
	return s
}

// Finding is one difference between the real code and the specification.
type Finding struct {
	BehID     int    `json:"beh"`
	StepIdx   int    `json:"step"`
	Variant   string `json:"variant"`
	Kind      string `json:"kind"`
	Deviation string `json:"deviation,omitempty"`
	What      string `json:"what"`
	Obs       Obs    `json:"obs"`
	Source    string `json:"source,omitempty"`
}

// snapAfter tells whether the snapshot held by the harness is still the one the behaviour expects
// after this step, given the alternative the real code took (0 = none matched).
func snapAfter(st *Step, alt int, valid bool) bool {
	pickOut := st.Alts[st.Pick-1].Out.T
	if alt == st.Pick {
		if pickOut == "s" {
			return true // a fresh collection, the expected one
		}
		return valid
	}
	if pickOut == "s" {
		return false // the behaviour expects a new collection that the real code did not produce
	}
	if alt > 0 && st.Alts[alt-1].Out.T == "s" {
		return false
	}
	return valid && alt > 0
}
