package c08

import (
	"encoding/json"
	"fmt"
	"path/filepath"
	"strings"
	"time"

	"elkverif/internal/core"
	"elkverif/internal/elkrun"
	"elkverif/internal/tlc"
)

// Dispatch stage (spec/Dispatch): for every class hierarchy of the instance TLC prints the owner of each
// (runtime class, method); the hierarchy is rendered as an Elk program that performs each call through
// every call form (receiver typed as each ancestor-or-self: statically bound where the compiler decides
// so; by name `recv.+(x)`; through an interface; through `self`) and every form must run the owner.

type dispRec struct {
	Parent  []int             `json:"parent"`
	Defs    []map[string]bool `json:"defs"`
	Generic bool              `json:"generic"`
	Owner   []map[string]int  `json:"owner"`
}

func (r *dispRec) anc(c int) []int {
	var out []int
	for c != 0 {
		out = append(out, c)
		c = r.Parent[c-1]
	}
	return out
}

func (r *dispRec) elk() (src string, want []string) {
	var b strings.Builder
	w := func(f string, a ...any) { fmt.Fprintf(&b, f+"\n", a...) }
	g, ga := "", ""
	if r.Generic {
		g, ga = "[V]", "[Int]"
	}
	w("interface Desc\n  def describe: String; end\nend")
	for c := 1; c <= len(r.Parent); c++ {
		if p := r.Parent[c-1]; p == 0 {
			w("class K%d%s", c, g)
			if r.Generic {
				w("  init(@value: V); end")
			} else {
				w("  init(@value: Int); end")
			}
			w("  def describe_via_self: String then self.describe")
			w("  def plus_via_self(o: Int): Int then self + o")
		} else {
			w("class K%d%s < K%d%s", c, g, p, g)
		}
		if r.Defs[c-1]["describe"] {
			w("  def describe: String then \"K%d\"", c)
		}
		if r.Defs[c-1]["plus"] {
			w("  def +(other: Int): Int then other + %d", 100*c)
		}
		w("end")
	}
	line := func(c, s int, form, m, expr string, owner int) {
		tag := fmt.Sprintf("D c=%d s=%d %s %s", c, s, form, m)
		w("println \"%s \" + (%s)", tag, expr)
		if m == "describe" {
			want = append(want, fmt.Sprintf("%s K%d", tag, owner))
		} else {
			want = append(want, fmt.Sprintf("%s %d", tag, 1+100*owner))
		}
	}
	for c := 1; c <= len(r.Parent); c++ {
		if r.Generic {
			w("o%d := K%d::[Int](5)", c, c)
		} else {
			w("o%d := K%d(5)", c, c)
		}
		w("var i%d: Desc = o%d", c, c)
		od, op := r.Owner[c-1]["describe"], r.Owner[c-1]["plus"]
		line(c, 0, "interface", "describe", fmt.Sprintf("i%d.describe", c), od)
		for _, s := range r.anc(c) {
			v := fmt.Sprintf("t%d_%d", s, c)
			w("var %s: K%d%s = o%d", v, s, ga, c)
			line(c, s, "typed", "describe", v+".describe", od)
			line(c, s, "self", "describe", v+".describe_via_self", od)
			line(c, s, "typed", "plus", "("+v+" + 1).inspect", op)
			line(c, s, "byname", "plus", v+".+(1).inspect", op)
			line(c, s, "self", "plus", v+".plus_via_self(1).inspect", op)
		}
	}
	return b.String(), want
}

func dispatchStage(c *core.Ctx, pool *core.Pool) error {
	specDir := filepath.Join(core.VerifRoot, "spec", "Dispatch")
	n := c.Pick(3, 4)
	cfg := func(dev string) []byte {
		return []byte(fmt.Sprintf("SPECIFICATION Spec\nCONSTANTS\n  N = %d\n  Deviations = {%s}\nINVARIANTS PathIndependent DynamicDispatch\nCHECK_DEADLOCK FALSE\n", n, dev))
	}
	// negative control: static binding through a generic parent type breaks PathIndependent in the model
	neg, err := tlc.Run(tlc.Opts{SpecDir: specDir, Module: "Dispatch", Cfg: "MC.cfg", Scratch: c.Scratch, Workers: 2, Timeout: 5 * time.Minute,
		Extra: map[string][]byte{"MC.cfg": cfg(`"static_binding_through_generic_parent"`)}})
	if err != nil {
		return err
	}
	if neg.OK {
		return core.Inconclusivef("Dispatch negative control: the deviation static_binding_through_generic_parent does not violate PathIndependent")
	}
	var recs []dispRec
	res, err := tlc.Run(tlc.Opts{SpecDir: specDir, Module: "Dispatch", Cfg: "MC.cfg", Scratch: c.Scratch, Workers: 2, Timeout: 10 * time.Minute,
		Extra: map[string][]byte{"MC.cfg": cfg("")},
		OnGen: func(b []byte) {
			var r dispRec
			if json.Unmarshal(b, &r) == nil && len(r.Parent) == n {
				recs = append(recs, r)
			}
		}})
	if err != nil {
		return err
	}
	if !res.OK || len(recs) == 0 {
		return core.Inconclusivef("Dispatch: TLC verdict %s %s, %d hierarchies", res.Verdict, res.What, len(recs))
	}
	c.CovAdd("states", int(res.Distinct))
	c.CovAdd("transitions", int(res.Generated))
	var jobs []core.Job
	var wants [][]string
	var srcs []string
	for i := range recs {
		src, want := recs[i].elk()
		jobs = append(jobs, core.Job{Kind: "elk", Payload: elkrun.Job{Src: src, RunMs: 20000}, TimeoutMs: 60000})
		wants = append(wants, want)
		srcs = append(srcs, src)
	}
	calls, bad := 0, 0
	for i, jr := range pool.Map(jobs, nil) {
		var r elkrun.Result
		switch {
		case jr.Crashed:
			r.GoPanic = "worker process died: " + jr.CrashLog
		case jr.Timeout:
			r.Hung = true
		case jr.Err != "" || jr.Panic != "":
			return core.Inconclusivef("dispatch program failed to run: %s %s", jr.Err, jr.Panic)
		default:
			if err := jr.Decode(&r); err != nil {
				return err
			}
		}
		if !r.Accepted && r.GoPanic == "" && !r.Hung {
			return core.Inconclusivef("dispatch program rejected by the checker (generator left the language): %s\n%s", r.Diags, srcs[i])
		}
		got := map[string]string{}
		for _, l := range strings.Split(r.Stdout, "\n") {
			if strings.HasPrefix(l, "D ") {
				k := l[:strings.LastIndex(l, " ")]
				got[k] = l
			}
		}
		var diffs []string
		for _, wl := range wants[i] {
			calls++
			k := wl[:strings.LastIndex(wl, " ")]
			if got[k] != wl {
				diffs = append(diffs, fmt.Sprintf("expected `%s`, observed `%s`", wl, got[k]))
			}
		}
		if len(diffs) > 0 || r.GoPanic != "" || r.ErrClass != "" {
			bad++
			if bad <= 25 {
				rr := recs[i]
				c.Violation(map[string]any{"stage": "dispatch", "kind": "call_form_runs_another_method", "hierarchy": rr, "source": srcs[i], "differences": diffs, "go_panic": r.GoPanic, "error": r.ErrClass + " " + r.ErrMsg,
					"summary": fmt.Sprintf("classes parent=%v generic=%v defs=%v: %d of %d calls ran another method than dynamic dispatch selects (c = runtime class, s = static receiver type): %s %s %s",
						rr.Parent, rr.Generic, rr.Defs, len(diffs), len(wants[i]), strings.Join(firstN(diffs, 3), "; "), r.ErrClass, firstLineOf(r.GoPanic))})
			}
		}
	}
	c.Cov("dispatch_hierarchies", len(recs))
	c.Cov("dispatch_calls_compared", calls)
	c.Logf("dispatch: %d hierarchies of %d classes (generic and plain), %d calls through typed/by-name/interface/self forms compared with the owner the spec selects, %d hierarchies differ", len(recs), n, calls, bad)
	return nil
}

func firstN(xs []string, n int) []string {
	if len(xs) > n {
		return xs[:n]
	}
	return xs
}

func firstLineOf(s string) string {
	if i := strings.IndexByte(s, '\n'); i >= 0 {
		return s[:i]
	}
	return s
}
