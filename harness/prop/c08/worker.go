package c08

import (
	"bytes"
	"encoding/json"
	"fmt"
	"runtime/debug"
	"strings"

	"github.com/elk-language/elk"
	"github.com/elk-language/elk/bitfield"
	"github.com/elk-language/elk/types/checker"
	"github.com/elk-language/elk/vm"

	"elkverif/internal/core"
	"elkverif/internal/elkrun"
)

// RunJob compiles one source file with the real checker+compiler, disassembles every method and
// runs the program.
type RunJob struct {
	Src   string `json:"src"`
	NoRun bool   `json:"no_run,omitempty"` // compile and disassemble only
}

type RunOut struct {
	Accepted bool              `json:"accepted"`
	Diags    string            `json:"diags,omitempty"`
	Stdout   string            `json:"stdout"`
	Panic    string            `json:"panic,omitempty"`
	ErrClass string            `json:"err_class,omitempty"`
	ErrMsg   string            `json:"err_msg,omitempty"`
	Ops      map[string]string `json:"ops,omitempty"` // method name -> space separated opcode names
}

func init() {
	core.RegisterJob("c08run", func(p json.RawMessage) (any, error) {
		var j RunJob
		if err := json.Unmarshal(p, &j); err != nil {
			return nil, err
		}
		return runJob(&j), nil
	})
}

func runJob(j *RunJob) *RunOut {
	elkrun.Setup()
	out := &RunOut{}
	checker.MethodCheckConcurrencyLimit = 1
	var bc *vm.BytecodeFunction
	func() {
		defer func() {
			if r := recover(); r != nil {
				out.Panic = fmt.Sprintf("check: %v\n%s", r, trim(debug.Stack()))
			}
		}()
		elk.InitGlobalEnvironment()
		var flags bitfield.BitField16
		b, d := checker.CheckSource("main.elk", j.Src, nil, flags, nil)
		bc = b
		failed := false
		if d != nil {
			var lines []string
			for _, x := range d {
				lines = append(lines, fmt.Sprintf("%s: %s", x.Location.StartPos.String(), x.Message))
			}
			out.Diags = strings.Join(lines, "\n")
			failed = d.IsFailure()
		}
		out.Accepted = bc != nil && !failed
	}()
	if out.Panic != "" || !out.Accepted {
		return out
	}
	if dis, err := bc.DisassembleString(); err == nil {
		out.Ops = parseDisassembly(dis)
	} else {
		out.Panic = "disassembly: " + err.Error()
		return out
	}
	if j.NoRun {
		return out
	}
	var stdout, stderr bytes.Buffer
	th := vm.New(vm.WithStdout(&stdout), vm.WithStderr(&stderr))
	func() {
		defer func() {
			if r := recover(); r != nil {
				out.Panic = fmt.Sprintf("run: %v\n%s", r, trim(debug.Stack()))
			}
		}()
		_, errv := th.InterpretTopLevel(bc)
		if !errv.IsUndefined() {
			out.ErrClass, out.ErrMsg = elkrun.DescribeError(errv)
		}
	}()
	out.Stdout = stdout.String()
	return out
}

// parseDisassembly maps every disassembled function to the opcode names it contains, in order.
func parseDisassembly(dis string) map[string]string {
	ops := map[string]string{}
	cur := ""
	for _, line := range strings.Split(dis, "\n") {
		if strings.HasPrefix(line, "== Disassembly of ") {
			cur = strings.TrimPrefix(line, "== Disassembly of ")
			if i := strings.Index(cur, " at: "); i >= 0 {
				cur = cur[:i]
			}
			continue
		}
		if cur == "" {
			continue
		}
		// "0000  1       03             LOAD_VALUE_8 ..." : the opcode is the first all-caps word
		for _, f := range strings.Fields(line) {
			if len(f) >= 3 && f[0] >= 'A' && f[0] <= 'Z' && strings.ToUpper(f) == f && strings.Trim(f, "ABCDEFGHIJKLMNOPQRSTUVWXYZ_0123456789") == "" && strings.ContainsAny(f, "ABCDEFGHIJKLMNOPQRSTUVWXYZ") {
				if _, numeric := isHex(f); numeric && len(f) != 3 {
					continue // an offset (4 hex digits) or an operand byte (2 hex digits); ADD has 3 letters
				}
				ops[cur] += f + " "
				break
			}
		}
	}
	return ops
}

func isHex(s string) (int, bool) {
	for _, c := range s {
		if !((c >= '0' && c <= '9') || (c >= 'A' && c <= 'F')) {
			return 0, false
		}
	}
	return 0, true
}

func trim(b []byte) string {
	if len(b) > 3000 {
		return string(b[:3000])
	}
	return string(b)
}
