// Package c08: results do not depend on which evaluation path the compiler chose (spec/EvalPaths).
package c08

import (
	"bytes"
	"encoding/json"
	"fmt"
	"path/filepath"
	"regexp"
	"sort"
	"strings"
	"time"

	"elkverif/internal/core"
	"elkverif/internal/tlc"
)

func init() {
	core.Register(&core.Check{ID: "C08", Level: "model_checking", Run: run})
}

// Case is one operation: operator, operand kinds, operand literals.
type Case struct {
	ID    int    `json:"id"`
	Op    string `json:"op"` // add sub ... (name in spec/EvalPaths Table)
	LK    string `json:"lk"`
	RK    string `json:"rk"`
	A     string `json:"a"`
	B     string `json:"b"`
	NZ    int    `json:"nz"`    // an operand literal is -0.0
	Folds int    `json:"folds"` // observed: the literal form contains no operator opcode (resolve() answered)
}

var opSym = map[string]string{
	"add": "+", "sub": "-", "mul": "*", "div": "/", "pow": "**", "mod": "%", "shl": "<<", "shr": ">>",
	"and": "&", "or": "|", "xor": "^", "lax": "=~", "eq": "==", "ne": "!=", "gt": ">", "ge": ">=", "lt": "<", "le": "<=", "cmp": "<=>",
}
var opOrder = []string{"add", "sub", "mul", "div", "mod", "pow", "shl", "shr", "and", "or", "xor", "lax", "eq", "ne", "gt", "ge", "lt", "le", "cmp"}

var values = map[string][]string{
	"Int":      {"7", "-3", "0", "2", "18446744073709551617", "9007199254740993"},
	"Float":    {"3.5", "1.25", "-0.5", "0.0", "-0.0", "9007199254740992.0", "2.0"},
	"BigFloat": {"2.5bf", "-1.5bf", "2.0bf"},
	"Int64":    {"7i64", "-3i64", "0i64", "9223372036854775807i64"},
	"Int32":    {"7i32", "-3i32", "2147483647i32"},
	"Int16":    {"7i16", "-3i16", "32767i16"},
	"Int8":     {"100i8", "-3i8", "0i8", "2i8"},
	"UInt64":   {"7u64", "18446744073709551615u64", "2u64"},
	"UInt32":   {"7u32", "4294967295u32"},
	"UInt16":   {"7u16", "65535u16"},
	"UInt8":    {"200u8", "3u8", "0u8"},
	"UInt":     {"7u", "2u"},
	"Float64":  {"3.5f64", "-0.5f64", "2.0f64"},
	"Float32":  {"1.5f32", "2.0f32"},
	"String":   {`"ab"`, `"b"`, `""`},
	"Char":     {"`a`", "`b`"},
}
var kindOrder = []string{"Int", "Float", "BigFloat", "Int64", "Int32", "Int16", "Int8", "UInt64", "UInt32", "UInt16", "UInt8", "UInt", "Float64", "Float32", "String", "Char"}
var coercible = map[string]bool{"Int": true, "Float": true, "BigFloat": true}
var intKinds = map[string]bool{"Int": true, "Int64": true, "Int32": true, "Int16": true, "Int8": true, "UInt64": true, "UInt32": true, "UInt16": true, "UInt8": true, "UInt": true}
var numeric = map[string]bool{"Float": true, "BigFloat": true, "Float64": true, "Float32": true}

func isNumeric(k string) bool { return intKinds[k] || numeric[k] }

// rightKinds lists the right operand kinds tried for (op, lk); the checker has the last word
// (a rejected combination is out of the domain).
func rightKinds(op, lk string) []string {
	switch op {
	case "shl", "shr":
		if !intKinds[lk] {
			return nil
		}
		if lk == "Int" {
			return []string{"Int"}
		}
		return []string{lk, "Int"}
	case "and", "or", "xor":
		if !intKinds[lk] {
			return nil
		}
		return []string{lk}
	case "add":
		if lk == "String" {
			return []string{"String", "Char"}
		}
		if lk == "Char" {
			return []string{"Char", "String"}
		}
	case "mul":
		if lk == "String" || lk == "Char" {
			return []string{"Int"}
		}
	case "sub", "div", "mod", "pow":
		if !isNumeric(lk) {
			return nil
		}
	case "gt", "ge", "lt", "le", "cmp":
		if lk == "String" {
			return []string{"String"}
		}
		if lk == "Char" {
			return []string{"Char"}
		}
	case "eq", "ne":
		return []string{lk}
	case "lax":
		if coercible[lk] {
			return []string{"Int", "Float", "BigFloat", "Int64", "UInt8"}
		}
		if isNumeric(lk) {
			return []string{lk, "Int", "Float"}
		}
		return []string{lk}
	}
	if coercible[lk] {
		return []string{"Int", "Float", "BigFloat"}
	}
	return []string{lk}
}

func unionOf(lk string) string {
	switch lk {
	case "Int", "Float":
		return "Int | Float"
	case "BigFloat":
		return "Float | BigFloat"
	}
	return ""
}

var unionOps = map[string]bool{"add": true, "sub": true, "mul": true, "div": true, "gt": true, "ge": true, "lt": true, "le": true, "cmp": true, "eq": true, "ne": true, "lax": true}

func applicable(form string, c *Case) bool {
	if form == "union" {
		return unionOf(c.LK) != "" && unionOps[c.Op] && coercible[c.RK]
	}
	return true
}

var forms = []string{"lit", "typed", "union", "call"}

// proposed fix C08-typed-float-opcodes: what the two (sic) cells of the Table become for a Float
var fixedFloatOpcode = map[string]string{"EQUAL_INT": "EQUAL_FLOAT", "NOT_EQUAL": "NOT_EQUAL_FLOAT"}

var smallRight = map[string]bool{"pow": true, "shl": true, "shr": true}
var isSmall = map[string]bool{}

func init() {
	for _, v := range []string{"7", "0", "2", "2.0", "3.5", "1.25", "2.5bf", "2.0bf", "7i64", "0i64", "7i32", "7i16", "0i8", "2i8", "7u64", "2u64", "7u32", "7u16", "3u8", "0u8", "7u", "2u", "3.5f64", "2.0f64", "1.5f32", "2.0f32"} {
		isSmall[v] = true
	}
}

func emitCase(sb *strings.Builder, c *Case) {
	sym := opSym[c.Op]
	fmt.Fprintf(sb, "def c%d_lit: any then (%s) %s (%s)\n", c.ID, c.A, sym, c.B)
	fmt.Fprintf(sb, "def c%d_typed: any\n  var a: %s = %s\n  var b: %s = %s\n  a %s b\nend\n", c.ID, c.LK, c.A, c.RK, c.B, sym)
	if applicable("union", c) {
		fmt.Fprintf(sb, "def c%d_union: any\n  var a: %s = %s\n  var b: %s = %s\n  a %s b\nend\n", c.ID, unionOf(c.LK), c.A, c.RK, c.B, sym)
	}
	fmt.Fprintf(sb, "def c%d_call: any\n  var a: %s = %s\n  var b: %s = %s\n  a.%s(b)\nend\n", c.ID, c.LK, c.A, c.RK, c.B, sym)
}

func emitBatch(cs []*Case) string {
	var sb strings.Builder
	sb.WriteString("def o(v: any) then println \"#{v}\"\ndef t(s: String) then println s\n")
	for _, c := range cs {
		emitCase(&sb, c)
	}
	for _, c := range cs {
		for _, f := range forms {
			if !applicable(f, c) {
				continue
			}
			fmt.Fprintf(&sb, "t(\"@C %d %s\")\ndo\n  o(c%d_%s())\ncatch e\n  t(\"thrown\")\n  o(e)\nend\n", c.ID, f, c.ID, f)
		}
	}
	return sb.String()
}

var rePtr = regexp.MustCompile(`0x[0-9a-f]+`)

// opcodes that can compute a binary operation (everything the spec's Table mentions + calls)
var pathOpcodes = map[string]bool{}

func init() {
	for _, n := range []string{"ADD_INT", "ADD_FLOAT", "ADD", "SUBTRACT_INT", "SUBTRACT_FLOAT", "SUBTRACT", "MULTIPLY_INT", "MULTIPLY_FLOAT", "MULTIPLY",
		"DIVIDE_INT", "DIVIDE_FLOAT", "DIVIDE", "EXPONENTIATE_INT", "EXPONENTIATE", "MODULO_INT", "MODULO_FLOAT", "MODULO",
		"LBITSHIFT_INT", "LBITSHIFT", "RBITSHIFT_INT", "RBITSHIFT", "BITWISE_AND_INT", "BITWISE_AND", "BITWISE_OR_INT", "BITWISE_OR", "BITWISE_XOR_INT", "BITWISE_XOR",
		"LAX_EQUAL", "EQUAL_INT", "EQUAL_FLOAT", "EQUAL", "NOT_EQUAL_INT", "NOT_EQUAL_FLOAT", "NOT_EQUAL", "GREATER_INT", "GREATER_FLOAT", "GREATER",
		"GREATER_EQUAL_I", "GREATER_EQUAL_F", "GREATER_EQUAL", "LESS_INT", "LESS_FLOAT", "LESS", "LESS_EQUAL_INT", "LESS_EQUAL_FLOAT", "LESS_EQUAL", "COMPARE"} {
		pathOpcodes[n] = true
	}
}

// observedPath extracts the path from the opcodes of one form's method.
func observedPath(ops string) string {
	var found []string
	for _, f := range strings.Fields(ops) {
		if pathOpcodes[f] {
			found = append(found, f)
		} else if strings.HasPrefix(f, "CALL_METHOD") || strings.HasPrefix(f, "CALL_") {
			found = append(found, "CALL")
		}
	}
	switch len(found) {
	case 0:
		return "FOLD"
	case 1:
		return found[0]
	}
	return strings.Join(found, "+")
}

type obs struct {
	out  map[string]string // form -> outcome
	path map[string]string // form -> observed path
	ood  string            // out of domain: rejected by the checker (first diagnostic)
	lost string
}

func run(c *core.Ctx) error {
	// ---- the bounded instance: every operator x kind pair, values sampled per tier
	per := c.Pick(3, 6) // value pairs per (op, lk, rk)
	var cases []*Case
	type combo struct{ from, to int }
	var combos []combo
	for _, op := range opOrder {
		for _, lk := range kindOrder {
			for _, rk := range rightKinds(op, lk) {
				var pairs [][2]string
				for _, a := range values[lk] {
					for _, b := range values[rk] {
						if smallRight[op] || ((lk == "String" || lk == "Char") && op == "mul") {
							// exponents, shift counts and repeat counts stay small: the operation must terminate
							if !isSmall[b] {
								continue
							}
						}
						pairs = append(pairs, [2]string{a, b})
					}
				}
				c.Rand.Shuffle(len(pairs), func(i, j int) { pairs[i], pairs[j] = pairs[j], pairs[i] })
				if len(pairs) > per {
					pairs = pairs[:per]
				}
				from := len(cases)
				for _, p := range pairs {
					nz := 0
					if p[0] == "-0.0" || p[1] == "-0.0" {
						nz = 1
					}
					cases = append(cases, &Case{ID: len(cases) + 1, Op: op, LK: lk, RK: rk, A: p[0], B: p[1], NZ: nz})
				}
				combos = append(combos, combo{from, len(cases)})
			}
		}
	}
	c.Logf("instance: %d cases (%d operator x kind-pair combinations, <= %d value pairs each), up to 4 forms each", len(cases), len(combos), per)

	// ---- real compiler + VM: one batch per combination; a batch that is rejected / crashes is split
	pool := c.NewPool(c.Workers)
	if err := dispatchStage(c, pool); err != nil {
		return err
	}
	res := map[int]*obs{}
	runBatches := func(batches [][]*Case) [][]*Case {
		var jobs []core.Job
		for _, b := range batches {
			jobs = append(jobs, core.Job{Kind: "c08run", Payload: RunJob{Src: emitBatch(b)}, TimeoutMs: 40000})
		}
		results := pool.Map(jobs, nil)
		var retry [][]*Case
		for bi, jr := range results {
			b := batches[bi]
			var out RunOut
			problem := ""
			switch {
			case jr.Crashed:
				problem = "CRASH " + crashLine(jr.CrashLog)
			case jr.Timeout:
				problem = "HANG"
			case jr.Err != "" || jr.Panic != "":
				problem = "WORKER " + jr.Err + jr.Panic
			default:
				if err := jr.Decode(&out); err != nil {
					problem = "WORKER " + err.Error()
				}
			}
			if problem == "" && out.Panic != "" && !strings.HasPrefix(out.Panic, "run:") {
				problem = "PANIC " + firstLine(out.Panic)
			}
			if (problem != "" || !out.Accepted) && len(b) > 1 {
				for _, cs := range b {
					retry = append(retry, []*Case{cs})
				}
				continue
			}
			for _, cs := range b {
				o := &obs{out: map[string]string{}, path: map[string]string{}}
				res[cs.ID] = o
				if strings.HasPrefix(problem, "WORKER") {
					o.lost = problem
					continue
				}
				if problem == "" && !out.Accepted {
					o.ood = firstLine(out.Diags)
					continue
				}
			}
			if problem == "" && !out.Accepted {
				continue
			}
			// outcomes per marker
			per := splitMarkers(out.Stdout)
			died := false // set at the form that was running when a Go panic ended the program
			for _, cs := range b {
				o := res[cs.ID]
				if o.lost != "" {
					continue
				}
				for _, f := range forms {
					if !applicable(f, cs) {
						continue
					}
					o.path[f] = observedPath(out.Ops[fmt.Sprintf("Std::Kernel::c%d_%s", cs.ID, f)])
					lines, ok := per[fmt.Sprintf("%d %s", cs.ID, f)]
					switch {
					case problem != "":
						o.out[f] = "" // the process died (no output survives): every form is re-run alone
					case ok && len(lines) > 0:
						o.out[f] = rePtr.ReplaceAllString(strings.Join(lines, " "), "PTR")
					case died:
						o.out[f] = "" // not reached: re-run alone
					case out.Panic != "":
						died = true // the Go panic happened while this form was running
						o.out[f] = "GOPANIC " + firstLine(out.Panic)
					default:
						o.out[f] = "NOOUTPUT"
					}
				}
			}
		}
		return retry
	}
	var batches [][]*Case
	for _, cb := range combos {
		if cb.to > cb.from {
			batches = append(batches, cases[cb.from:cb.to])
		}
	}
	t0 := time.Now()
	retry := runBatches(batches)
	if len(retry) > 0 {
		runBatches(retry)
	}
	// a case whose program died in one form: re-run the later forms alone (one form per program)
	var later []core.Job
	type lf struct {
		c *Case
		f string
	}
	var laterOf []lf
	for _, cs := range cases {
		o := res[cs.ID]
		if o == nil || o.ood != "" || o.lost != "" {
			continue
		}
		for _, f := range forms {
			if applicable(f, cs) {
				if v, ok := o.out[f]; ok && v == "" {
					var sb strings.Builder
					sb.WriteString("def o(v: any) then println \"#{v}\"\ndef t(s: String) then println s\n")
					emitCase(&sb, cs)
					fmt.Fprintf(&sb, "t(\"@C %d %s\")\ndo\n  o(c%d_%s())\ncatch e\n  t(\"thrown\")\n  o(e)\nend\n", cs.ID, f, cs.ID, f)
					later = append(later, core.Job{Kind: "c08run", Payload: RunJob{Src: sb.String()}, TimeoutMs: 60000})
					laterOf = append(laterOf, lf{cs, f})
				}
			}
		}
	}
	var crashed []core.Job
	var crashedOf []lf
	for i, jr := range pool.Map(later, nil) {
		cs, f := laterOf[i].c, laterOf[i].f
		o := res[cs.ID]
		var out RunOut
		switch {
		case jr.Crashed, jr.Timeout:
			o.out[f] = "CRASH " + crashLine(jr.CrashLog)
			if jr.Timeout {
				o.out[f] = "HANG"
			}
			crashed = append(crashed, core.Job{Kind: "c08run", Payload: RunJob{Src: later[i].Payload.(RunJob).Src, NoRun: true}, TimeoutMs: 60000})
			crashedOf = append(crashedOf, laterOf[i])
		case jr.Err != "" || jr.Panic != "":
			o.lost = jr.Err + jr.Panic
		default:
			if err := jr.Decode(&out); err != nil {
				o.lost = err.Error()
				break
			}
			o.path[f] = observedPath(out.Ops[fmt.Sprintf("Std::Kernel::c%d_%s", cs.ID, f)])
			lines := splitMarkers(out.Stdout)[fmt.Sprintf("%d %s", cs.ID, f)]
			switch {
			case len(lines) > 0:
				o.out[f] = rePtr.ReplaceAllString(strings.Join(lines, " "), "PTR")
			case out.Panic != "":
				o.out[f] = "GOPANIC " + firstLine(out.Panic)
			default:
				o.out[f] = "NOOUTPUT"
			}
		}
	}
	// the opcodes of a form that kills the process: compile and disassemble without running
	for i, jr := range pool.Map(crashed, nil) {
		cs, f := crashedOf[i].c, crashedOf[i].f
		var out RunOut
		if jr.Crashed || jr.Timeout || jr.Err != "" || jr.Panic != "" || jr.Decode(&out) != nil {
			res[cs.ID].lost = "cannot disassemble a crashing form"
			continue
		}
		res[cs.ID].path[f] = observedPath(out.Ops[fmt.Sprintf("Std::Kernel::c%d_%s", cs.ID, f)])
	}
	c.Logf("real compiler+VM: %d cases in %.1fs", len(cases), time.Since(t0).Seconds())

	// ---- in-domain cases; the observed FOLD attribute of the literal form feeds the spec
	var dom []*Case
	ood, lost := 0, 0
	oodReasons := map[string]int{}
	for _, cs := range cases {
		o := res[cs.ID]
		switch {
		case o == nil || o.lost != "":
			lost++
		case o.ood != "":
			ood++
			oodReasons[cs.Op+" "+cs.LK+" "+cs.RK+": "+o.ood]++
		default:
			if o.path["lit"] == "FOLD" {
				cs.Folds = 1
			}
			dom = append(dom, cs)
		}
	}
	if lost > 0 {
		return core.Inconclusivef("%d cases lost by worker problems", lost)
	}
	c.CovAdd("cases", len(cases))
	c.CovAdd("out_of_domain_rejected_by_checker", ood)
	if len(oodReasons) > 0 {
		var l []string
		for k, v := range oodReasons {
			l = append(l, fmt.Sprintf("%s (%d)", k, v))
		}
		sort.Strings(l)
		if len(l) > 12 {
			l = l[:12]
		}
		c.Cov("out_of_domain_examples", l)
	}
	if len(dom)*2 < len(cases) {
		return core.Inconclusivef("only %d of %d cases were accepted by the checker: the generator left the domain", len(dom), len(cases))
	}
	// renumber the in-domain cases 1..n for the spec (ids are positions in cases.ndjson)
	specID := map[int]int{}
	var cnd bytes.Buffer
	for i, cs := range dom {
		specID[cs.ID] = i + 1
		b, _ := json.Marshal(map[string]any{"id": i + 1, "op": cs.Op, "lk": cs.LK, "rk": cs.RK, "folds": cs.Folds, "nz": cs.NZ})
		cnd.Write(b)
		cnd.WriteByte('\n')
	}

	// ---- TLC 1: the behaviours (case x form) of EvalPaths with the predicted path; invariants = sanity of the transcription
	pred := map[string]string{}
	var perr error
	r1, err := tlc.Run(tlc.Opts{
		SpecDir: filepath.Join(core.VerifRoot, "spec", "EvalPaths"), Module: "EvalPathsMC", Cfg: "EvalPathsMC.cfg",
		Scratch: c.Scratch, Workers: c.Workers, Timeout: 10 * time.Minute, HeapMB: 3000,
		Extra: map[string][]byte{"cases.ndjson": cnd.Bytes()},
		OnGen: func(b []byte) {
			var g struct {
				ID   int    `json:"id"`
				Form string `json:"form"`
				Path string `json:"path"`
			}
			if e := json.Unmarshal(b, &g); e != nil {
				perr = e
				return
			}
			pred[fmt.Sprintf("%d %s", g.ID, g.Form)] = g.Path
		},
	})
	if err != nil {
		return err
	}
	if perr != nil {
		return perr
	}
	if !r1.OK {
		return core.Inconclusivef("TLC on EvalPathsMC: %s %s\n%s", r1.Verdict, r1.What, tail(r1.Output, 2500))
	}
	c.Logf("TLC EvalPathsMC: %d states, %d behaviours (case x form)", r1.Distinct, len(pred))
	c.CovAdd("states", int(r1.Distinct))
	c.CovAdd("transitions", int(r1.Generated))

	// ---- binding (i): the opcode emitted by the real compiler is the predicted path
	drift := map[string]int{}
	matched := 0
	for _, cs := range dom {
		o := res[cs.ID]
		for _, f := range forms {
			if !applicable(f, cs) {
				continue
			}
			want, ok := pred[fmt.Sprintf("%d %s", specID[cs.ID], f)]
			if !ok {
				return core.Inconclusivef("no prediction for case %d form %s", cs.ID, f)
			}
			if want == o.path[f] || (cs.LK == "Float" && fixedFloatOpcode[want] == o.path[f] && want != "") {
				// the (sic) cells of the spec's Table repaired: == / != on a Float select their own opcode
				matched++
			} else {
				drift[fmt.Sprintf("%s %s left=%s: spec %s, compiler %s", f, cs.Op, cs.LK, want, o.path[f])]++
			}
		}
	}
	c.CovAdd("opcode_predictions_matched", matched)
	// ---- TLC 2: trace validation of the recorded outcomes against the agreement law
	var ond bytes.Buffer
	for _, cs := range dom {
		o := res[cs.ID]
		out := map[string]string{}
		for _, f := range forms {
			out[f] = o.out[f]
		}
		b, _ := json.Marshal(map[string]any{"id": specID[cs.ID], "out": out})
		ond.Write(b)
		ond.WriteByte('\n')
	}
	byID := map[int]*Case{}
	for _, cs := range dom {
		byID[specID[cs.ID]] = cs
	}
	agree, rows := 0, 0
	type grp struct {
		rec   map[string]any
		count int
	}
	groups := map[string]*grp{}
	var order []string
	r2, err := tlc.Run(tlc.Opts{
		SpecDir: filepath.Join(core.VerifRoot, "spec", "EvalPaths"), Module: "EvalPathsTrace", Cfg: "EvalPathsTrace.cfg",
		Scratch: c.Scratch, Workers: c.Workers, Timeout: 10 * time.Minute, HeapMB: 3000,
		Extra: map[string][]byte{"cases.ndjson": cnd.Bytes(), "outcomes.ndjson": ond.Bytes()},
		OnGen: func(b []byte) {
			var g struct {
				ID       int      `json:"id"`
				Disagree bool     `json:"disagree"`
				Dev      []string `json:"dev"`
			}
			if e := json.Unmarshal(b, &g); e != nil {
				perr = e
				return
			}
			rows++
			if !g.Disagree {
				agree++
				return
			}
			cs := byID[g.ID]
			o := res[cs.ID]
			sort.Strings(g.Dev)
			dev := strings.Join(g.Dev, "+")
			if dev == "" {
				dev = "none"
			}
			// which forms differ from the majority outcome
			cnt := map[string]int{}
			for _, f := range forms {
				if o.out[f] != "" {
					cnt[o.out[f]]++
				}
			}
			major, mc := "", 0
			for k, v := range cnt {
				if v > mc || (v == mc && k < major) {
					major, mc = k, v
				}
			}
			var odd []string
			for _, f := range forms {
				if o.out[f] != "" && o.out[f] != major {
					odd = append(odd, f+"["+o.path[f]+"]")
				}
			}
			shape := fmt.Sprintf("%s left=%s odd=%s", cs.Op, cs.LK, strings.Join(odd, ","))
			key := dev + "|" + shape
			gr := groups[key]
			if gr == nil {
				var sb strings.Builder
				emitCase(&sb, cs)
				gr = &grp{rec: map[string]any{
					"kind": "forms_disagree", "op": cs.Op, "lk": cs.LK, "rk": cs.RK, "a": cs.A, "b": cs.B, "deviation": dev,
					"odd_forms": strings.Join(odd, ","), "outcomes": o.out, "paths": o.path, "source": sb.String(),
				}}
				groups[key] = gr
				order = append(order, key)
			}
			gr.count++
		},
	})
	if err != nil {
		return err
	}
	if perr != nil {
		return perr
	}
	if !r2.OK {
		return core.Inconclusivef("TLC on EvalPathsTrace: %s %s\n%s", r2.Verdict, r2.What, tail(r2.Output, 2500))
	}
	if rows != len(dom) {
		return core.Inconclusivef("EvalPathsTrace validated %d rows, expected %d", rows, len(dom))
	}
	c.CovAdd("states", int(r2.Distinct))
	c.CovAdd("transitions", int(r2.Generated))
	c.CovAdd("traces_validated_against_impl", rows)
	c.CovAdd("cases_all_forms_agree", agree)
	c.Logf("TLC EvalPathsTrace: %d cases validated, %d agree, %d disagree in %d shapes", rows, agree, rows-agree, len(groups))
	sort.Strings(order)
	for _, key := range order {
		gr := groups[key]
		gr.rec["count"] = gr.count
		gr.rec["summary"] = fmt.Sprintf("(%v) %s (%v) with kinds %s/%s: forms disagree: %v; odd forms: %v; %d cases of this shape; explained by deviation: %s",
			gr.rec["a"], opSym[gr.rec["op"].(string)], gr.rec["b"], gr.rec["lk"], gr.rec["rk"], gr.rec["outcomes"], gr.rec["odd_forms"], gr.count, gr.rec["deviation"])
		c.Violation(gr.rec)
	}
	for i, cs := range dom {
		if i%(len(dom)/5+1) == 0 {
			c.Sample(map[string]any{"case": fmt.Sprintf("(%s) %s (%s)", cs.A, opSym[cs.Op], cs.B), "kinds": cs.LK + "/" + cs.RK, "paths": res[cs.ID].path, "outcomes": res[cs.ID].out})
		}
	}
	if agree == 0 {
		return core.Inconclusivef("no case was compared")
	}
	if len(drift) > 0 && c.Violations() == 0 {
		// the outcomes agree but the compiler selects paths differently from the transcription:
		// the model must be updated before its predictions mean anything (not a violation)
		var l []string
		for k, v := range drift {
			l = append(l, fmt.Sprintf("%s (%d)", k, v))
		}
		sort.Strings(l)
		return core.Inconclusivef("model drift: the compiler's path selection differs from spec/EvalPaths in %d shapes:\n  %s", len(l), strings.Join(l, "\n  "))
	}
	if len(drift) > 0 {
		c.Note(fmt.Sprintf("path selection also differs from spec/EvalPaths in %d shapes", len(drift)))
	}
	return nil
}

func splitMarkers(stdout string) map[string][]string {
	per := map[string][]string{}
	cur := ""
	for _, l := range strings.Split(strings.TrimRight(stdout, "\n"), "\n") {
		if strings.HasPrefix(l, "@C ") {
			cur = l[3:]
			per[cur] = []string{}
			continue
		}
		if cur != "" {
			per[cur] = append(per[cur], l)
		}
	}
	return per
}

func crashLine(log string) string {
	for _, l := range strings.Split(log, "\n") {
		if strings.HasPrefix(l, "fatal error:") || strings.HasPrefix(l, "panic:") {
			return l
		}
	}
	return firstLine(log)
}

func firstLine(s string) string {
	if i := strings.IndexByte(s, '\n'); i >= 0 {
		return s[:i]
	}
	return s
}

func tail(s string, n int) string {
	if len(s) <= n {
		return s
	}
	return s[len(s)-n:]
}
