package c19

import (
	"encoding/json"
	"fmt"
	"path/filepath"
	"strings"
	"time"
	"unicode/utf8"

	"elkverif/internal/core"
	"elkverif/internal/tlc"
)

// Desc is a value descriptor of spec/Inspect (Str, Sym, Chr, IntV, Flt, FltSpecial, Lit, Coll, Rng).
type Desc struct {
	K     string   `json:"k"`
	A     []int    `json:"a,omitempty"`    // str sym chr: atom indices
	Base  int      `json:"base,omitempty"` // int
	Pre   string   `json:"pre,omitempty"`
	DS    []string `json:"ds,omitempty"`
	SF    string   `json:"sf,omitempty"`
	Neg   bool     `json:"neg,omitempty"`
	Lit   string   `json:"lit,omitempty"`  // flt
	Name  string   `json:"name,omitempty"` // fsp lit
	T     string   `json:"t,omitempty"`    // coll
	Items []*Desc  `json:"items,omitempty"`
	Op    string   `json:"op,omitempty"` // rng
	Lo    *Desc    `json:"lo,omitempty"`
	Hi    *Desc    `json:"hi,omitempty"`
}

// Rec is one GEN record of Inspect.tla.
type Rec struct {
	V *Desc `json:"v"`
	T *struct {
		Bytes   []int `json:"bytes"`
		Text    []int `json:"text"`    // reference inspect text (code points)
		Denotes []int `json:"denotes"` // what the lexer model says the text denotes
	} `json:"t,omitempty"`
	N *struct {
		Base  int   `json:"base"`
		Value []int `json:"value"` // decimal digits of Denote(ds, base)
	} `json:"n,omitempty"`
}

func (r *Rec) Key() string {
	b, _ := json.Marshal(r.V)
	return string(b)
}

type Bounds struct{ MaxLen, MaxDigits, MaxDepth int }

type Model struct {
	Recs []*Rec
	By   map[string]*Rec
	TLC  *tlc.Result
}

func mcModule(b Bounds, devs []string) []byte {
	var q []string
	for _, d := range devs {
		q = append(q, fmt.Sprintf("%q", d))
	}
	return []byte(fmt.Sprintf(`---- MODULE MC_Inspect ----
EXTENDS Inspect
MCMaxLen == %d
MCMaxDigits == %d
MCMaxDepth == %d
MCDeviations == {%s}
MCEmit == TRUE
====
`, b.MaxLen, b.MaxDigits, b.MaxDepth, strings.Join(q, ", ")))
}

// RunModel runs TLC on spec/Inspect (cfg's invariants on every state) and collects the GEN records.
func RunModel(c *core.Ctx, b Bounds, devs []string, cfg string, workers int, timeout time.Duration) (*Model, error) {
	m := &Model{By: map[string]*Rec{}}
	var perr error
	res, err := tlc.Run(tlc.Opts{
		SpecDir: filepath.Join(core.VerifRoot, "spec", "Inspect"), Module: "MC_Inspect", Cfg: cfg,
		Scratch: c.Scratch, Workers: workers, Timeout: timeout, HeapMB: 4000,
		Extra: map[string][]byte{"MC_Inspect.tla": mcModule(b, devs)},
		OnGen: func(rec []byte) {
			var r Rec
			if e := json.Unmarshal(rec, &r); e != nil || r.V == nil {
				perr = fmt.Errorf("bad GEN record: %v: %.300s", e, rec)
				return
			}
			k := r.Key()
			if m.By[k] == nil {
				m.By[k] = &r
				m.Recs = append(m.Recs, &r)
			}
		},
	})
	if err != nil {
		return nil, err
	}
	m.TLC = res
	if perr != nil {
		return nil, perr
	}
	if !res.OK {
		return m, core.Inconclusivef("TLC on Inspect (%s, deviations %v): verdict=%s %s\n%s", cfg, devs, res.Verdict, res.What, tailStr(res.Output, 2500))
	}
	if len(m.Recs) == 0 {
		return m, core.Inconclusivef("Inspect produced no GEN records")
	}
	return m, nil
}

func tailStr(s string, n int) string {
	if len(s) <= n {
		return s
	}
	return s[len(s)-n:]
}

func toBytes(n []int) []byte {
	b := make([]byte, len(n))
	for i, x := range n {
		b[i] = byte(x)
	}
	return b
}

func cpString(cps []int) string {
	var sb strings.Builder
	for _, c := range cps {
		sb.WriteRune(rune(c))
	}
	return sb.String()
}

// escape renders bytes as the body of an Elk literal using only \uXXXX, \UXXXXXXXX (code points)
// and \xNN (ill-formed bytes) besides ASCII letters: the construction expression never uses the
// escapes whose round trip is under test.
func escape(b []byte) string {
	var sb strings.Builder
	for len(b) > 0 {
		r, n := utf8.DecodeRune(b)
		switch {
		case r == utf8.RuneError && n == 1:
			fmt.Fprintf(&sb, `\x%02x`, b[0])
		case (r >= 'a' && r <= 'z') || (r >= 'A' && r <= 'Z'):
			sb.WriteRune(r)
		case r < 0x10000:
			fmt.Fprintf(&sb, `\u%04x`, r)
		default:
			fmt.Fprintf(&sb, `\U%08X`, r)
		}
		b = b[n:]
	}
	return sb.String()
}

// Expr renders the Elk construction expression of a descriptor. bytesOf gives the bytes of a
// str/sym/chr descriptor (taken from the model's records).
func Expr(d *Desc, bytesOf func(*Desc) []byte) string {
	switch d.K {
	case "str":
		return `"` + escape(bytesOf(d)) + `"`
	case "sym":
		return `:"` + escape(bytesOf(d)) + `"`
	case "chr":
		return "`" + escape(bytesOf(d)) + "`"
	case "int":
		s := strings.Join(d.DS, "")
		if d.Pre != "" {
			s = "0" + d.Pre + s
		}
		s += d.SF
		if d.Neg {
			s = "-" + s
		}
		return s
	case "flt":
		s := d.Lit + d.SF
		if d.Neg {
			s = "-" + s
		}
		return s
	case "fsp":
		switch d.Name {
		case "NEG_ZERO":
			return "(0.0" + d.SF + " * -1.0" + d.SF + ")"
		default:
			return "Float::" + d.Name
		}
	case "imin":
		max := map[string]string{"i8": "127", "i16": "32767", "i32": "2147483647", "i64": "9223372036854775807"}[d.SF]
		return "(-" + max + d.SF + " - 1" + d.SF + ")"
	case "rgx":
		return "%/" + d.Lit + "/" + d.SF
	case "lit":
		return d.Name
	case "rng":
		lo, hi := "", ""
		if d.Lo != nil && d.Lo.K != "lit" {
			lo = Expr(d.Lo, bytesOf)
		}
		if d.Hi != nil && d.Hi.K != "lit" {
			hi = Expr(d.Hi, bytesOf)
		}
		return "(" + lo + d.Op + hi + ")"
	case "coll":
		var parts []string
		switch d.T {
		case "map", "record":
			for i := 0; i+1 < len(d.Items); i += 2 {
				parts = append(parts, Expr(d.Items[i], bytesOf)+" => "+Expr(d.Items[i+1], bytesOf))
			}
		default:
			for _, it := range d.Items {
				parts = append(parts, Expr(it, bytesOf))
			}
		}
		body := strings.Join(parts, ", ")
		switch d.T {
		case "list":
			return "[" + body + "]"
		case "tuple":
			return "%[" + body + "]"
		case "set":
			return "^[" + body + "]"
		case "map":
			return "({" + body + "})"
		case "record":
			return "%{" + body + "}"
		}
	}
	panic("c19: unknown descriptor kind " + d.K)
}

// leaves lists the str/sym/chr leaves of a descriptor.
func leaves(d *Desc, out *[]*Desc) {
	if d == nil {
		return
	}
	switch d.K {
	case "str", "sym", "chr":
		*out = append(*out, d)
	case "coll":
		for _, it := range d.Items {
			leaves(it, out)
		}
	case "rng":
		leaves(d.Lo, out)
		leaves(d.Hi, out)
	}
}
