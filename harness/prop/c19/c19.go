// Package c19: inspect output is Elk source that evaluates back to an equal value; integer literals
// and String#to_int denote the written value (spec/Inspect: value grammar, lexer model + reference
// inspect with the RoundTrip law, Denote).
package c19

import (
	"encoding/base64"
	"encoding/json"
	"fmt"
	"os"
	"strings"
	"time"

	"elkverif/internal/core"
	"elkverif/internal/elkrun"
)

func init() {
	core.Register(&core.Check{ID: "C19", Level: "exploration", Run: run})
	core.RegisterJob("c19.elk", func(p json.RawMessage) (any, error) {
		var j elkrun.Job
		if err := json.Unmarshal(p, &j); err != nil {
			return nil, err
		}
		r := elkrun.Run(&j)
		out := rawResult{Res: *r, Stdout: base64.StdEncoding.EncodeToString([]byte(r.Stdout))}
		out.Res.Stdout = ""
		return out, nil
	})
}

type rawResult struct {
	Res    elkrun.Result `json:"res"`
	Stdout string        `json:"stdout_b64"`
}

const prelude = `def w(v: String::Convertible)
  print(v.to_string)
  print("\x1f")
end
def wb(b: bool)
  if b then w "1" else w "0"
end
def p(id: Int, v: Value)
  w "@v"
  w id
  w v.inspect
  w v.class.name
end
def q(id: Int, a: Value, b: Value)
  w "@q"
  w id
  wb a == b
  wb b == a
  w a.class.name
  w b.class.name
  w b.inspect
end
def ti(id: Int, s: String, base: Int)
  w "@t"
  w id
  do
    w s.to_int(base).inspect
  catch FormatError() as e
    w "!FormatError"
  end
end
`

type call struct {
	id  int
	src string
}

type outcome struct {
	fields map[int][]string // call id -> fields after marker and id
	failed map[int]string   // call id -> why it did not run when alone in a file
}

func parseStdout(out []byte) (map[int][]string, error) {
	fields := strings.Split(string(out), "\x1f")
	if len(fields) > 0 && fields[len(fields)-1] == "" {
		fields = fields[:len(fields)-1]
	} else if len(out) > 0 {
		return nil, fmt.Errorf("output does not end with a field terminator")
	}
	res := map[int][]string{}
	cur := -1
	for i := 0; i < len(fields); i++ {
		f := fields[i]
		if (f == "@v" || f == "@q" || f == "@t") && i+1 < len(fields) {
			var id int
			if _, err := fmt.Sscanf(fields[i+1], "%d", &id); err == nil {
				cur = id
				res[cur] = []string{}
				i++
				continue
			}
		}
		if cur < 0 {
			return nil, fmt.Errorf("output before the first marker")
		}
		res[cur] = append(res[cur], f)
	}
	return res, nil
}

// runCalls runs calls in batches; an unclean batch is re-run one call per file.
func runCalls(c *core.Ctx, pool *core.Pool, calls []call, batch int) (*outcome, error) {
	out := &outcome{fields: map[int][]string{}, failed: map[int]string{}}
	var batches [][]call
	for i := 0; i < len(calls); i += batch {
		j := i + batch
		if j > len(calls) {
			j = len(calls)
		}
		batches = append(batches, calls[i:j])
	}
	var harnessErr error
	run := func(bs [][]call) [][]call {
		var jobs []core.Job
		for _, b := range bs {
			var sb strings.Builder
			sb.WriteString(prelude)
			for _, cl := range b {
				sb.WriteString(cl.src)
				sb.WriteByte('\n')
			}
			jobs = append(jobs, core.Job{Kind: "c19.elk", Payload: elkrun.Job{Src: sb.String(), RunMs: 60000}, TimeoutMs: 120000})
		}
		results := pool.Map(jobs, nil)
		var retry [][]call
		for bi, jr := range results {
			b := bs[bi]
			var rr rawResult
			problem := ""
			switch {
			case jr.Crashed:
				problem = "go_fatal: worker process died: " + tailStr(jr.CrashLog, 1200)
			case jr.Timeout:
				problem = "hung"
			case jr.Panic != "":
				problem = "go_panic: " + jr.Panic
			case jr.Err != "":
				harnessErr = fmt.Errorf("worker error: %s", jr.Err)
				continue
			default:
				if err := jr.Decode(&rr); err != nil {
					harnessErr = err
					continue
				}
				switch {
				case rr.Res.GoPanic != "":
					problem = "go_panic (" + rr.Res.PanicStage + "): " + firstLines(rr.Res.GoPanic, 3)
				case rr.Res.Hung:
					problem = "hung"
				case !rr.Res.Accepted:
					problem = "rejected: " + rr.Res.Diags
				case rr.Res.ErrClass != "":
					problem = "error " + rr.Res.ErrClass + ": " + rr.Res.ErrMsg
				}
			}
			var per map[int][]string
			if problem == "" {
				raw, err := base64.StdEncoding.DecodeString(rr.Stdout)
				if err != nil {
					harnessErr = err
					continue
				}
				per, err = parseStdout(raw)
				if err != nil {
					problem = "unparsable output: " + err.Error()
				} else if len(per) != len(b) {
					problem = fmt.Sprintf("%d of %d calls produced output", len(per), len(b))
				}
			}
			if problem != "" {
				if len(b) > 1 {
					// bisect: halves first, single calls at the end
					h := len(b) / 2
					retry = append(retry, b[:h], b[h:])
					continue
				}
				out.failed[b[0].id] = problem
				continue
			}
			for _, cl := range b {
				out.fields[cl.id] = per[cl.id]
			}
		}
		return retry
	}
	todo := batches
	for round := 0; len(todo) > 0 && harnessErr == nil; round++ {
		if round > 14 {
			return nil, core.Inconclusivef("bisection of failing batches did not terminate")
		}
		todo = run(todo)
	}
	if harnessErr != nil {
		return nil, core.Inconclusivef("%v", harnessErr)
	}
	return out, nil
}

func firstLines(s string, n int) string {
	l := strings.SplitN(s, "\n", n+1)
	if len(l) > n {
		l = l[:n]
	}
	return strings.Join(l, " | ")
}

// closure wraps an expression so that it is compiled as a function of its own (parenthesised: a
// leading `{` would otherwise open a block).
func closure(expr string) string { return "(-> (" + expr + ")).()" }

func run(c *core.Ctx) error {
	b := Bounds{MaxLen: 2, MaxDigits: 2, MaxDepth: 2}
	if c.Thorough() {
		b = Bounds{MaxLen: 3, MaxDigits: 3, MaxDepth: 2}
	}
	c.Cov("rule", "for every value v of the bounded grammar of spec/Inspect: eval(inspect(v)) has v's class and is == v (NaN and Regex: same inspect again); int literal / String#to_int value = Denote(digits, base)")
	c.Cov("spec", "spec/Inspect/Inspect.tla + Inspect.cfg (invariants TypeOK RoundTrip DenoteLaw)")
	c.Cov("bounds", fmt.Sprintf("%+v", b))
	c.Assume("inspect and evaluation are the implementation; the specification is the value generator, the lexer model with the RoundTrip law for the reference escaping, and Denote")
	c.Assume("float literal shapes are enumerated, their IEEE-754 meaning is not modelled: floats are judged by == between the original and the re-evaluated value")

	// reference model and, concurrently, the model under the recorded named deviations
	devs := c.KnownDeviations()
	var dm *Model
	var derr error
	done := make(chan struct{})
	if len(devs) > 0 {
		go func() {
			defer close(done)
			dm, derr = RunModel(c, b, devs, "Deviant.cfg", 2, 20*time.Minute)
		}()
	} else {
		close(done)
	}
	t0 := time.Now()
	m, err := RunModel(c, b, nil, "Inspect.cfg", c.Workers, 20*time.Minute)
	<-done
	if err != nil {
		return err
	}
	if derr != nil {
		return derr
	}
	c.Logf("TLC: %d states generated, %d distinct, depth %d, %d value records (%.1fs)", m.TLC.Generated, m.TLC.Distinct, m.TLC.Depth, len(m.Recs), time.Since(t0).Seconds())
	c.Cov("states", int(m.TLC.Distinct))
	c.Cov("transitions", int(m.TLC.Generated))

	bytesOf := func(d *Desc) []byte {
		k, _ := json.Marshal(d)
		if r := m.By[string(k)]; r != nil && r.T != nil {
			return toBytes(r.T.Bytes)
		}
		panic("c19: no record for leaf " + string(k))
	}

	// thorough: all records; quick: all text/number records, a seeded sample of the collections
	recs := m.Recs
	if !c.Thorough() {
		var keep, colls []*Rec
		for _, r := range recs {
			if r.V.K == "coll" {
				colls = append(colls, r)
			} else {
				keep = append(keep, r)
			}
		}
		for _, i := range c.SampleIdx(len(colls), 1500) {
			keep = append(keep, colls[i])
		}
		recs = keep
	}

	// ---- program 1: evaluate the construction expression, print inspect and class; to_int probes
	pool := c.NewPool(c.Workers)
	var calls1 []call
	exprs := map[int]string{}
	type tiProbe struct {
		rec  *Rec
		text string
		base int
		want string
	}
	probes := map[int]*tiProbe{}
	id := 0
	for i, r := range recs {
		exprs[i] = Expr(r.V, bytesOf)
		calls1 = append(calls1, call{id: i, src: fmt.Sprintf("p(%d, %s)", i, closure(exprs[i]))})
	}
	id = len(recs)
	seenProbe := map[string]bool{}
	for _, r := range recs {
		if r.V.K != "int" || r.V.SF != "" || r.N == nil {
			continue
		}
		digits := strings.Join(r.V.DS, "")
		if strings.Contains(digits, "_") {
			continue
		}
		want := decimal(r.N.Value)
		sign := ""
		if r.V.Neg && want != "0" {
			want = "-" + want
		}
		if r.V.Neg {
			sign = "-"
		}
		add := func(text string, base int) {
			k := fmt.Sprintf("%s/%d", text, base)
			if seenProbe[k] {
				return
			}
			seenProbe[k] = true
			probes[id] = &tiProbe{rec: r, text: text, base: base, want: want}
			calls1 = append(calls1, call{id: id, src: fmt.Sprintf("ti(%d, %q, %d)", id, text, base)})
			id++
		}
		add(sign+digits, r.V.Base)
		if len(digits) >= 8 {
			// the same numeral with `_` separators between groups of three digits (counted from the right): the
			// separators are skipped, whichever machine word of the parser's chunking they fall into
			var g strings.Builder
			for i, ch := range digits {
				if i > 0 && (len(digits)-i)%3 == 0 {
					g.WriteByte('_')
				}
				g.WriteRune(ch)
			}
			add(sign+g.String(), r.V.Base)
		}
		// prefix inference (base 0) for the prefixes the documentation of to_int lists
		if r.V.Pre == "x" || r.V.Pre == "d" || r.V.Pre == "o" || r.V.Pre == "b" {
			add(sign+"0"+r.V.Pre+digits, 0)
		}
		if r.V.Pre == "" {
			add(sign+digits, 0)
		}
	}
	t1 := time.Now()
	out1, err := runCalls(c, pool, calls1, 250)
	if err != nil {
		return err
	}
	c.Logf("program 1: %d values inspected, %d to_int probes (%.1fs)", len(recs), len(probes), time.Since(t1).Seconds())

	// ---- program 2: evaluate the printed text and compare with the original, in Elk
	type verdict struct {
		kind string // "" = holds
		rec  map[string]any
	}
	verdicts := map[string]*verdict{} // by record key
	var calls2 []call
	ood := 0
	texts := map[int]string{}
	classes := map[int]string{}
	for i, r := range recs {
		if why, failed := out1.failed[i]; failed {
			if strings.HasPrefix(why, "rejected") || strings.HasPrefix(why, "error") {
				// the construction expression is not a value of the grammar (e.g. a literal that overflows its type)
				ood++
				if ood <= 5 {
					c.Note(fmt.Sprintf("out of domain: %s: %s", exprs[i], firstLines(why, 1)))
				}
				continue
			}
			verdicts[r.Key()] = &verdict{"crash", map[string]any{"kind": "crash", "type": r.V.K, "expr": exprs[i], "problem": why,
				"summary": fmt.Sprintf("evaluating %s crashed: %s", exprs[i], firstLines(why, 1))}}
			continue
		}
		f := out1.fields[i]
		if len(f) != 2 {
			return core.Inconclusivef("program 1: call %d (%s) printed %d fields", i, exprs[i], len(f))
		}
		texts[i], classes[i] = f[0], f[1]
		calls2 = append(calls2, call{id: i, src: fmt.Sprintf("q(%d, %s, %s)", i, closure(exprs[i]), closure(f[0]))})
	}
	if ood*4 > len(recs) {
		return core.Inconclusivef("%d of %d generated values were rejected: the generator left its domain", ood, len(recs))
	}
	t2 := time.Now()
	out2, err := runCalls(c, pool, calls2, 250)
	if err != nil {
		return err
	}
	c.Logf("program 2: %d inspect texts evaluated and compared (%.1fs)", len(calls2), time.Since(t2).Seconds())

	// ---- judge
	evaluations, holds, reinspectDiffers, refSame := 0, 0, 0, 0
	classesSeen := map[string]bool{}
	judge := func(i int, r *Rec) *verdict {
		text := texts[i]
		base := map[string]any{"type": r.V.K, "expr": exprs[i], "inspect": text, "class": classes[i]}
		if r.T != nil {
			base["reference_inspect"] = cpString(r.T.Text)
			if dm != nil {
				if d := dm.By[r.Key()]; d != nil && d.T != nil {
					dt := cpString(d.T.Text)
					if dt == text && dt != cpString(r.T.Text) {
						base["deviation"] = devs[0]
					}
				}
			}
		}
		mk := func(kind, summary string) *verdict {
			base["kind"] = kind
			base["summary"] = summary
			return &verdict{kind, base}
		}
		if why, failed := out2.failed[i]; failed {
			base["problem"] = why
			switch {
			case strings.HasPrefix(why, "rejected"):
				return mk("not_source", fmt.Sprintf("inspect of %s is %s, which is not accepted as Elk source: %s", exprs[i], text, firstLines(strings.TrimPrefix(why, "rejected: "), 1)))
			case strings.HasPrefix(why, "error"):
				return mk("eval_error", fmt.Sprintf("inspect of %s is %s, whose evaluation raises %s", exprs[i], text, firstLines(why, 1)))
			default:
				return mk("crash", fmt.Sprintf("evaluating the inspect text %s of %s crashed: %s", text, exprs[i], firstLines(why, 1)))
			}
		}
		f := out2.fields[i]
		if len(f) != 5 {
			return mk("crash", fmt.Sprintf("program 2 printed %d fields for %s", len(f), exprs[i]))
		}
		eq, eqRev, ca, cb, again := f[0] == "1", f[1] == "1", f[2], f[3], f[4]
		base["reinspect"] = again
		base["equal"] = eq
		if ca != cb {
			return mk("class_mismatch", fmt.Sprintf("%s is a %s, its inspect %s evaluates to a %s", exprs[i], ca, text, cb))
		}
		byText := cb == "Std::Regex" || (r.V.K == "fsp" && r.V.Name == "NAN") // no structural ==
		if byText {
			if again != text {
				return mk("roundtrip_mismatch", fmt.Sprintf("%s inspects as %s, which evaluates to a value inspecting as %s", exprs[i], text, again))
			}
		} else if !eq || !eqRev {
			return mk("roundtrip_mismatch", fmt.Sprintf("%s inspects as %s, which evaluates to a different value (== is %v/%v; it inspects as %s)", exprs[i], text, eq, eqRev, again))
		}
		if again != text {
			reinspectDiffers++
		}
		return &verdict{"", base}
	}
	// leaves first (collections are explained by their leaves)
	order := make([]int, 0, len(recs))
	for i, r := range recs {
		if r.V.K != "coll" && r.V.K != "rng" {
			order = append(order, i)
		}
	}
	for i, r := range recs {
		if r.V.K == "coll" || r.V.K == "rng" {
			order = append(order, i)
		}
	}
	for _, i := range order {
		r := recs[i]
		if _, ok := texts[i]; !ok {
			continue
		}
		evaluations++
		classesSeen[classes[i]] = true
		v := judge(i, r)
		verdicts[r.Key()] = v
		if v.kind == "" {
			holds++
			if r.T != nil && cpString(r.T.Text) == texts[i] {
				refSame++
			}
			if holds%1201 == 1 {
				c.Sample(map[string]any{"expr": exprs[i], "inspect": texts[i], "class": classes[i], "evaluates_back_equal": true})
			}
			continue
		}
		if r.V.K == "coll" || r.V.K == "rng" {
			// a collection/range whose leaf does not round-trip on its own inherits the leaf's finding
			var ls []*Desc
			leaves(r.V, &ls)
			for _, l := range ls {
				k, _ := json.Marshal(l)
				if lv := verdicts[string(k)]; lv != nil && lv.kind != "" {
					v.rec["via_leaf"] = lv.rec["expr"]
					v.rec["leaf_kind"] = lv.rec["kind"]
					v.rec["leaf_type"] = lv.rec["type"]
					if d, ok := lv.rec["deviation"]; ok {
						v.rec["deviation"] = d
					}
					break
				}
			}
		}
	}
	var dump []map[string]any
	for _, i := range order {
		if v := verdicts[recs[i].Key()]; v != nil && v.kind != "" {
			c.Violation(v.rec)
			dump = append(dump, v.rec)
		}
	}
	if f := os.Getenv("VERIF_DUMP"); f != "" { // developer aid: every differing case, one JSON object per line
		var sb strings.Builder
		for _, d := range dump {
			b, _ := json.Marshal(d)
			sb.Write(b)
			sb.WriteByte('\n')
		}
		os.WriteFile(f, []byte(sb.String()), 0o644)
	}

	// ---- integer literals and String#to_int denote the written value
	denoted := 0
	for i, r := range recs {
		if r.V.K != "int" || r.N == nil {
			continue
		}
		text, ok := texts[i]
		if !ok {
			continue
		}
		want := decimal(r.N.Value)
		if r.V.Neg && want != "0" {
			want = "-" + want
		}
		want += r.V.SF
		evaluations++
		if text != want {
			c.Violation(map[string]any{"kind": "literal_value", "type": "int", "expr": exprs[i], "base": r.V.Base, "spec": want, "real": text,
				"summary": fmt.Sprintf("the literal %s denotes %s (Denote, base %d) but evaluates to %s", exprs[i], want, r.V.Base, text)})
		} else {
			denoted++
		}
	}
	toInt := 0
	for pid, pr := range probes {
		if why, failed := out1.failed[pid]; failed {
			c.Violation(map[string]any{"kind": "crash", "type": "to_int", "expr": fmt.Sprintf("%q.to_int(%d)", pr.text, pr.base), "problem": why,
				"summary": fmt.Sprintf("%q.to_int(%d) did not run: %s", pr.text, pr.base, firstLines(why, 1))})
			continue
		}
		f := out1.fields[pid]
		if len(f) != 1 {
			return core.Inconclusivef("to_int probe %d printed %d fields", pid, len(f))
		}
		evaluations++
		if f[0] != pr.want {
			c.Violation(map[string]any{"kind": "to_int_value", "type": "to_int", "expr": fmt.Sprintf("%q.to_int(%d)", pr.text, pr.base), "spec": pr.want, "real": f[0],
				"summary": fmt.Sprintf("%q.to_int(%d): spec %s (Denote), real %s", pr.text, pr.base, pr.want, f[0])})
		} else {
			toInt++
		}
	}

	c.Cov("evaluations", evaluations)
	c.Cov("distinct_nontrivial", len(classesSeen))
	c.Cov("traces_validated_against_impl", holds+denoted+toInt)
	c.Cov("round_trips_hold", holds)
	c.Cov("inspect_equals_reference_text", refSame)
	c.Cov("reinspect_differs_but_equal", reinspectDiffers)
	c.Cov("literals_denote", denoted)
	c.Cov("to_int_denote", toInt)
	c.Cov("out_of_domain", ood)
	c.Logf("evaluations=%d round trips hold=%d literal denotations=%d to_int=%d out_of_domain=%d classes=%d violations=%d",
		evaluations, holds, denoted, toInt, ood, len(classesSeen), c.Violations())
	if holds == 0 || len(classesSeen) < 2 {
		return core.Inconclusivef("nothing was compared (holds=%d, classes=%d)", holds, len(classesSeen))
	}
	return nil
}

func decimal(ds []int) string {
	var sb strings.Builder
	for _, d := range ds {
		sb.WriteByte(byte('0' + d))
	}
	return sb.String()
}
