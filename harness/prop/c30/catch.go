package c30

import "math/rand"

type catchCand struct {
	ty    []string
	cases []M
}

// thrown types of the exhaustiveness family
func catchTypes() [][]string {
	return [][]string{
		{"Int"}, {"Int", "String", "nil"}, {"Int", "nil"}, {"String"}, {"Symbol"}, {"P", "Q"}, {"P"}, {"Int", "Float"},
		{"Bool"}, {"Bool", "nil"}, {"String", "Symbol"}, {"any"},
	}
}

// patterns the checker computes a "fully caught" type for (and some it must not)
func catchPatterns() []M {
	return []M{
		pType("Int"), pType("String"), pType("Float"), pType("Symbol"), pType("Bool"), pType("Nil"), pType("P"), pType("Q"),
		pLit(vNil()), pLit(vBool(true)), pLit(vBool(false)), pLit(vInt(1)), pLit(vStr("a")), pLit(vSym("a")), pLit(vInt(-1)),
		pLitInterp(vStr("a")), pLitInterp(vSym("b")),
		pMust(), pEq("!=", vNil()), pEq("==", vInt(1)), pEq("!=", vBool(true)), pEq("!=", vBool(false)), pBind("x"), pWild(),
		pAs(pType("Int"), "n"), pAs(pOr(pType("Int"), pType("String")), "n"),
		pNilable(pType("Int")), pNilable(pType("String")), pNilable(pLit(vInt(1))),
		pOr(pType("Int"), pType("String")), pOr(pLit(vBool(true)), pLit(vBool(false))), pOr(pType("String"), pLit(vNil())),
		pAnd(pType("Int"), pRel("<", vInt(2))), pAnd(pType("Int"), pBind("x")), pAnd(pBind("x"), pType("Int")), pAnd(pMust(), pType("String")),
		pObj("P", attr{"x", pBind("x"), true}), pObj("P", attr{"x", pBind("x"), false}), pObj("P", attr{"x", pLit(vInt(1)), false}),
		pObj("P", attr{"x", pType("Int"), false}), pObj("Q", attr{"x", pBind("x"), true}, attr{"y", pWild(), false}),
		pRel("<", vInt(2)), pRange("...", ip(1), ip(2)), pSeq("list", nil, "*", nil),
	}
}

func catchCandidates(r *rand.Rand, nMulti int) []catchCand {
	var out []catchCand
	ps := catchPatterns()
	for _, ty := range catchTypes() {
		for _, p := range ps {
			out = append(out, catchCand{ty, []M{uniq(p)}})
		}
	}
	tys := catchTypes()
	for k := 0; k < nMulti; k++ {
		ty := tys[r.Intn(len(tys))]
		n := 2 + r.Intn(2)
		var cs []M
		for i := 0; i < n; i++ {
			cs = append(cs, uniq(ps[r.Intn(len(ps))]))
		}
		out = append(out, catchCand{ty, cs})
	}
	return out
}
