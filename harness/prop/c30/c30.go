// Package c30: pattern matching selects the first matching case and binds correctly (spec/Match).
package c30

import (
	"bytes"
	"encoding/json"
	"fmt"
	"path/filepath"
	"sort"
	"strings"
	"sync"
	"time"

	"elkverif/internal/core"
	"elkverif/internal/elkrun"
	"elkverif/internal/tlc"
)

func init() {
	core.Register(&core.Check{ID: "C30", Level: "model_checking", Run: run})
}

// Pred is the model's prediction for one (switch, value) behaviour (a GEN record of spec/Match).
type Pred struct {
	Sw  int  `json:"sw"`
	Vi  int  `json:"vi"`
	Sel int  `json:"sel"`
	Exh bool `json:"exh"`
	B   []struct {
		N string `json:"n"`
		V M      `json:"v"`
	} `json:"b"`
}

type modelRun struct {
	preds       map[int]map[int]*Pred
	gen, dist   int64
	behaviours  int
	wall        float64
	actionCount map[string]int64
}

// runModel runs TLC on spec/Match for the given switches.
func runModel(c *core.Ctx, vals []M, sws []*Switch, cfg, missingKey string, deviations []string, coverage bool) (*modelRun, error) {
	const shard = 1200
	total := &modelRun{preds: map[int]map[int]*Pred{}, actionCount: map[string]int64{}}
	var shards [][]*Switch
	for i := 0; i < len(sws); i += shard {
		j := i + shard
		if j > len(sws) {
			j = len(sws)
		}
		shards = append(shards, sws[i:j])
	}
	par := 2
	if len(shards) < par {
		par = 1
	}
	w := c.Workers / par
	if w < 2 {
		w = 2
	}
	var vb bytes.Buffer
	for _, v := range vals {
		b, _ := json.Marshal(v)
		vb.Write(b)
		vb.WriteByte('\n')
	}
	var devs []string
	for _, d := range deviations {
		devs = append(devs, fmt.Sprintf("%q", d))
	}
	mc := fmt.Sprintf("---- MODULE MC_Match ----\nEXTENDS Match\nMCMissingKey == %q\nMCDeviations == {%s}\n====\n", missingKey, strings.Join(devs, ", "))
	var mu sync.Mutex
	var firstErr error
	sem := make(chan struct{}, par)
	var wg sync.WaitGroup
	t0 := time.Now()
	for _, sh := range shards {
		wg.Add(1)
		sem <- struct{}{}
		go func(sh []*Switch) {
			defer wg.Done()
			defer func() { <-sem }()
			var sb bytes.Buffer
			for _, s := range sh {
				b, _ := json.Marshal(s.Record())
				sb.Write(b)
				sb.WriteByte('\n')
			}
			local := map[int]map[int]*Pred{}
			var perr error
			n := 0
			res, err := tlc.Run(tlc.Opts{
				SpecDir: filepath.Join(core.VerifRoot, "spec", "Match"), Module: "MC_Match", Cfg: cfg,
				Scratch: c.Scratch, Workers: w, Timeout: 20 * time.Minute, HeapMB: 5000, Coverage: coverage,
				Extra: map[string][]byte{"vals.ndjson": vb.Bytes(), "switches.ndjson": sb.Bytes(), "MC_Match.tla": []byte(mc)},
				OnGen: func(rec []byte) {
					var p Pred
					if e := json.Unmarshal(rec, &p); e != nil {
						perr = fmt.Errorf("bad GEN record: %v: %s", e, rec)
						return
					}
					if local[p.Sw] == nil {
						local[p.Sw] = map[int]*Pred{}
					}
					local[p.Sw][p.Vi] = &p
					n++
				},
			})
			mu.Lock()
			defer mu.Unlock()
			if err == nil && perr != nil {
				err = perr
			}
			if err == nil && !res.OK {
				err = core.Inconclusivef("TLC on Match (%s, MissingKey=%s, deviations=%v): verdict=%s %s\n%s", cfg, missingKey, deviations, res.Verdict, res.What, tailStr(res.Output+"\n"+res.ErrorTrace, 3000))
			}
			if err != nil {
				if firstErr == nil {
					firstErr = err
				}
				return
			}
			for k, v := range local {
				total.preds[k] = v
			}
			total.gen += res.Generated
			total.dist += res.Distinct
			total.behaviours += n
			for a, k := range res.ActionCov {
				total.actionCount[a] += k
			}
		}(sh)
	}
	wg.Wait()
	total.wall = time.Since(t0).Seconds()
	return total, firstErr
}

func tailStr(s string, n int) string {
	if len(s) <= n {
		return s
	}
	return s[len(s)-n:]
}

// emitted function of one switch in one form
type unit struct {
	sw  *Switch
	idx []int // value indices (1-based) of the scrutinee type
}

func inhabits(v M, ty []string) bool {
	classes := map[string][]string{
		"nil": {"nil", "Nil"}, "bool": {"Bool"}, "int": {"Int"}, "float": {"Float"}, "str": {"String"}, "sym": {"Symbol"}, "char": {"Char"},
		"list": {"List", "Tuple"}, "tuple": {"Tuple"}, "map": {"Map", "Record"}, "record": {"Record"},
	}
	cs := classes[v["k"].(string)]
	if v["k"] == "obj" {
		cs = []string{v["c"].(string)}
		if v["c"] == "Q" {
			cs = append(cs, "P")
		}
	}
	for _, a := range ty {
		if a == "any" {
			return true
		}
		for _, c := range cs {
			if a == c {
				return true
			}
		}
	}
	return false
}

type batchResult struct {
	obs      map[string]map[int]*RealObs
	rejected map[string]string // fname -> diagnostics (function alone was rejected)
	crashed  map[string]string // fname -> Go panic / crash log (function alone)
	hung     map[string]bool
	errs     map[string]string // fname -> uncaught Elk error
	src      map[string]string // fname -> source it ran in (single-function file when re-run)
	broken   string
}

func (b *batchResult) merge(o *batchResult) {
	for k, v := range o.obs {
		b.obs[k] = v
	}
	for k, v := range o.rejected {
		b.rejected[k] = v
	}
	for k, v := range o.crashed {
		b.crashed[k] = v
	}
	for k, v := range o.hung {
		b.hung[k] = v
	}
	for k, v := range o.errs {
		b.errs[k] = v
	}
	for k, v := range o.src {
		b.src[k] = v
	}
	if o.broken != "" {
		b.broken = o.broken
	}
}

func fileText(us []*unit, vals []M) string {
	var b strings.Builder
	b.WriteString(Prelude)
	used := map[int]bool{}
	for _, u := range us {
		for _, vi := range u.idx {
			used[vi] = true
		}
	}
	b.WriteString(ValueFuncs(vals, used))
	for _, u := range us {
		b.WriteString(u.sw.FuncText())
	}
	for _, u := range us {
		b.WriteString(u.sw.CallsText(vals, u.idx))
	}
	return b.String()
}

// runReal runs the units in batches; a batch that is not clean is re-run one function per file.
func runReal(c *core.Ctx, pool *core.Pool, units []*unit, vals []M, batch int) *batchResult {
	br := &batchResult{obs: map[string]map[int]*RealObs{}, rejected: map[string]string{}, crashed: map[string]string{},
		hung: map[string]bool{}, errs: map[string]string{}, src: map[string]string{}}
	var batches [][]*unit
	for i := 0; i < len(units); i += batch {
		j := i + batch
		if j > len(units) {
			j = len(units)
		}
		batches = append(batches, units[i:j])
	}
	run := func(bs [][]*unit) [][]*unit {
		var jobs []core.Job
		var srcs []string
		for _, b := range bs {
			src := fileText(b, vals)
			srcs = append(srcs, src)
			jobs = append(jobs, core.Job{Kind: "elk", Payload: elkrun.Job{Src: src, RunMs: 30000}, TimeoutMs: 90000})
		}
		results := pool.Map(jobs, nil)
		var retry [][]*unit
		for bi, jr := range results {
			b := bs[bi]
			var r elkrun.Result
			crash := ""
			switch {
			case jr.Crashed:
				crash = "worker process died:\n" + jr.CrashLog
			case jr.Timeout:
				r.Hung = true
			case jr.Panic != "":
				crash = jr.Panic
			case jr.Err != "":
				br.broken = jr.Err
			default:
				if err := jr.Decode(&r); err != nil {
					br.broken = err.Error()
				}
			}
			if r.GoPanic != "" {
				crash = r.GoPanic
			}
			obs := ParseLines(r.Stdout)
			complete := true
			for _, u := range b {
				if len(obs[u.sw.fname()]) != len(u.idx) {
					complete = false
				}
			}
			clean := crash == "" && r.Accepted && !r.Hung && r.ErrClass == "" && complete
			if !clean && len(b) > 1 {
				for _, u := range b {
					retry = append(retry, []*unit{u})
				}
				continue
			}
			for _, u := range b {
				fn := u.sw.fname()
				br.src[fn] = srcs[bi]
				switch {
				case crash != "":
					br.crashed[fn] = crash
				case r.Hung:
					br.hung[fn] = true
				case !r.Accepted:
					br.rejected[fn] = r.Diags
				default:
					if r.ErrClass != "" {
						br.errs[fn] = r.ErrClass + ": " + r.ErrMsg
					}
					br.obs[fn] = obs[fn]
				}
			}
		}
		return retry
	}
	retry := run(batches)
	if len(retry) > 0 {
		run(retry)
	}
	return br
}

// agree compares one prediction with one observation: selected case, and every variable the
// reference match binds (variables of alternatives that did not match are unspecified).
func agree(p *Pred, o *RealObs) (bool, string) {
	if p.Sel != o.Sel {
		return false, fmt.Sprintf("selected case: spec %d, real %d", p.Sel, o.Sel)
	}
	want := map[string]M{}
	for _, b := range p.B {
		want[b.N] = b.V // later entries win
	}
	for _, n := range sortedKeys(want) {
		got, ok := o.Vars[n]
		if !ok {
			return false, fmt.Sprintf("variable %s not printed", n)
		}
		found := false
		alts := Inspect(fixInts(want[n]).(M))
		for _, a := range alts {
			if a == got {
				found = true
				break
			}
		}
		if !found {
			return false, fmt.Sprintf("binding %s: spec %s, real %s", n, alts[0], got)
		}
	}
	return true, ""
}

// fixInts converts JSON numbers (float64) of a decoded value to int.
func fixInts(x any) any {
	switch t := x.(type) {
	case map[string]any:
		n := M{}
		for k, v := range t {
			n[k] = fixInts(v)
		}
		return n
	case []any:
		n := make(L, len(t))
		for i, v := range t {
			n[i] = fixInts(v)
		}
		return n
	case float64:
		return int(t)
	}
	return x
}

func run(c *core.Ctx) error {
	if c.Replay != "" {
		return replay(c)
	}
	vals := ValuePool()
	uni := Universe(c.Rand, c.Pick(27, 81), c.Pick(150, 1500))
	c.Logf("instance: %d values (depth <= 2), %d patterns (all leaves, all depth-1 forms, seeded depth-2)", len(vals), len(uni))

	// ---- the switches of the instance
	var model []*Switch // one per model id
	var units []*unit
	allIdx := func(ty []string) []int {
		var idx []int
		for i, v := range vals {
			if inhabits(v, ty) {
				idx = append(idx, i+1)
			}
		}
		return idx
	}
	id := 0
	add := func(ty []string, cases []M, forms ...string) *Switch {
		id++
		s := &Switch{ID: id, Form: forms[0], Ty: ty, Cases: cases}
		model = append(model, s)
		idx := allIdx(ty)
		for _, f := range forms {
			cp := *s
			cp.Form = f
			units = append(units, &unit{sw: &cp, idx: idx})
		}
		return s
	}
	anyTy := []string{"any"}
	// every pattern alone: as a one-case switch and as a `match` expression
	for _, p := range uni {
		add(anyTy, []M{p}, "switch", "match")
	}
	// switches of 2 and 3 cases in every order (seeded sample of case sets)
	nTriples, nPairs := c.Pick(60, 600), c.Pick(40, 300)
	for k := 0; k < nTriples; k++ {
		ps := []M{uni[c.Rand.Intn(len(uni))], uni[c.Rand.Intn(len(uni))], uni[c.Rand.Intn(len(uni))]}
		for _, pm := range perms(3) {
			add(anyTy, []M{ps[pm[0]], ps[pm[1]], ps[pm[2]]}, "switch")
		}
	}
	for k := 0; k < nPairs; k++ {
		ps := []M{uni[c.Rand.Intn(len(uni))], uni[c.Rand.Intn(len(uni))]}
		add(anyTy, []M{ps[0], ps[1]}, "switch")
		add(anyTy, []M{ps[1], ps[0]}, "switch")
	}
	// typed scrutinees: the compiler chooses typed method calls / subscripts from the static type
	typedTys := [][]string{{"Int"}, {"Int", "String", "nil"}, {"P"}, {"P", "Q"}, {"Int", "Float"}, {"Bool", "nil"}, {"String", "Symbol"}}
	typedFrom := len(units)
	for _, ty := range typedTys {
		var cand []M
		cand = append(cand, uni[:len(Leaves())]...)
		for k := 0; k < c.Pick(25, 120); k++ {
			cand = append(cand, uni[c.Rand.Intn(len(uni))])
		}
		for _, p := range cand {
			if mayMatch(p, ty) {
				add(ty, []M{p}, "switch")
			}
		}
	}
	typedUnits := map[string]bool{}
	for _, u := range units[typedFrom:] {
		typedUnits[u.sw.fname()] = true
	}
	nSwitchUnits := len(units)

	// catch lists over typed thrown values: the construct on which the checker decides exhaustiveness
	var catchUnits []*unit
	for _, cand := range catchCandidates(c.Rand, c.Pick(100, 600)) {
		id++
		s := &Switch{ID: id, Form: "catch", Ty: cand.ty, Cases: cand.cases}
		catchUnits = append(catchUnits, &unit{sw: s, idx: allIdx(cand.ty)})
	}
	c.Logf("%d model switches, %d emitted switch/match functions, %d catch-list candidates", len(model), nSwitchUnits, len(catchUnits))

	// ---- the real implementation
	pool := c.NewPool(c.Workers)
	t1 := time.Now()
	// functions of the shape of the known compiler crash run alone (a crash takes the whole file down)
	var plain, alone []*unit
	for _, u := range units {
		if anySiblingRest(u.sw) {
			alone = append(alone, u)
		} else {
			plain = append(plain, u)
		}
	}
	br := runReal(c, pool, plain, vals, 40)
	br.merge(runReal(c, pool, alone, vals, 1))
	cbr := runReal(c, pool, catchUnits, vals, 1)
	if br.broken != "" || cbr.broken != "" {
		return core.Inconclusivef("worker problem: %s %s", br.broken, cbr.broken)
	}
	c.Logf("real runs done in %.1fs", time.Since(t1).Seconds())

	// catch lists the checker accepted without a throws clause are CLAIMED exhaustive
	claimed, notClaimed, catchOOD := 0, 0, 0
	var catchModel []*Switch
	var liveCatch []*unit
	for _, u := range catchUnits {
		fn := u.sw.fname()
		if d, rej := cbr.rejected[fn]; rej {
			if strings.Contains(d, "must be caught or added to the signature") && strings.Count(d, "\n") == 0 {
				notClaimed++
			} else {
				catchOOD++
				if catchOOD <= 3 {
					c.Note(fmt.Sprintf("catch candidate out of domain: %s: %s", describe(u.sw), firstLine(d)))
				}
			}
			continue
		}
		u.sw.Claimed = true
		claimed++
		catchModel = append(catchModel, u.sw)
		liveCatch = append(liveCatch, u)
	}
	c.Logf("catch lists: %d accepted as exhaustive by the checker, %d not claimed, %d out of domain", claimed, notClaimed, catchOOD)
	model = append(model, catchModel...)

	// ---- the model
	mr, err := runModel(c, vals, model, "Match.cfg", "fails", nil, false)
	if err != nil {
		return err
	}
	c.Logf("TLC: %d states generated, %d distinct, %d behaviours, %.1fs", mr.gen, mr.dist, mr.behaviours, mr.wall)
	c.CovAdd("states", int(mr.dist))
	c.CovAdd("transitions", int(mr.gen))
	c.Cov("spec", "spec/Match/Match.tla + Match.cfg (TypeOK, SelectsFirstMatch, SkippedDoNotMatch, BoundToMatchedParts on every state)")
	if c.Thorough() {
		// vacuity self-check on a slice of the instance: every action must fire
		n := 300
		if n > len(model) {
			n = len(model)
		}
		cr, err := runModel(c, vals, model[:n], "Match.cfg", "fails", nil, true)
		if err != nil {
			return err
		}
		for _, a := range []string{"CaseFails", "CaseMatches", "NoCaseLeft"} {
			if cr.actionCount[a] == 0 {
				return core.Inconclusivef("vacuous: action %s never fired", a)
			}
		}
	}

	// ---- compare
	type mism struct {
		u    *unit
		vi   int
		why  string
		obs  *RealObs
		pred *Pred
		res  *batchResult
	}
	var mismatches []*mism
	compared, ood, exhChecked, typedOOD := 0, 0, 0, 0
	reported := map[string]bool{}
	check := func(us []*unit, res *batchResult) error {
		for _, u := range us {
			fn := u.sw.fname()
			rec := func(kind, summary string) map[string]any {
				return map[string]any{"kind": kind, "form": u.sw.Form, "switch": describe(u.sw), "type": TyText(u.sw.Ty),
					"sibling_rest": anySiblingRest(u.sw), "source": singleSource(u, vals), "summary": summary}
			}
			if cr, ok := res.crashed[fn]; ok {
				r := rec("go_panic", fmt.Sprintf("Go panic compiling/running %s: %s", describe(u.sw), panicLine(cr)))
				r["panic"] = cr
				r["panic_site"] = panicSite(cr)
				c.Violation(r)
				continue
			}
			if res.hung[fn] {
				c.Violation(rec("hang", "did not terminate: "+describe(u.sw)))
				continue
			}
			if d, ok := res.rejected[fn]; ok {
				if typedUnits[fn] {
					typedOOD++ // the checker proved the pattern cannot match the static type
					continue
				}
				ood++
				if ood <= 5 {
					c.Note(fmt.Sprintf("out of domain (rejected): %s: %s", describe(u.sw), firstLine(d)))
				}
				continue
			}
			if e, ok := res.errs[fn]; ok {
				r := rec("escaped_error", fmt.Sprintf("error escaped while matching %s: %s", describe(u.sw), e))
				c.Violation(r)
				continue
			}
			preds := mr.preds[u.sw.ID]
			if len(preds) != len(u.idx) {
				return core.Inconclusivef("model produced %d behaviours for switch %d, expected %d", len(preds), u.sw.ID, len(u.idx))
			}
			for _, vi := range u.idx {
				o := res.obs[fn][vi]
				p := preds[vi]
				if o == nil || p == nil {
					return core.Inconclusivef("lost observation %s value %d", fn, vi)
				}
				if u.sw.Claimed {
					exhChecked++
					if !p.Exh && o.Sel == 0 && !reported[fn] {
						// the spec says no case matches a value of the thrown type, the checker accepted the
						// catch list as exhaustive, and the real run did let the value escape
						reported[fn] = true
						r := rec("exhaustive_escape", fmt.Sprintf("checker accepted `%s` as catching every %s, but %s escapes (spec: no case matches)",
							describe(u.sw), TyText(u.sw.Ty), ValText(vals[vi-1])))
						r["value"] = ValText(vals[vi-1])
						r["observed"] = o.Raw
						r["interpolated_literal"] = hasInterp(u.sw)
						c.Violation(r)
					}
				}
				if ok, why := agree(p, o); !ok {
					mismatches = append(mismatches, &mism{u: u, vi: vi, why: why, obs: o, pred: p, res: res})
				} else {
					compared++
					if compared%9973 == 1 {
						c.Sample(map[string]any{"switch": describe(u.sw), "form": u.sw.Form, "value": ValText(vals[vi-1]), "selected": p.Sel, "observed": o.Raw})
					}
				}
			}
		}
		return nil
	}
	if err := check(units, br); err != nil {
		return err
	}
	if err := check(liveCatch, cbr); err != nil {
		return err
	}

	// differences: the other admitted reading of a missing key, then the recorded deviations
	if len(mismatches) > 0 {
		c.Logf("%d differences under MissingKey=fails; trying the other reading and the recorded deviations", len(mismatches))
		need := map[int]*Switch{}
		for _, m := range mismatches {
			need[m.u.sw.ID] = m.u.sw
		}
		var sub []*Switch
		for _, k := range sortedInts(need) {
			sub = append(sub, need[k])
		}
		nilRun, err := runModel(c, vals, sub, "Match.cfg", "nil", nil, false)
		if err != nil {
			return err
		}
		c.CovAdd("states", int(nilRun.dist))
		c.CovAdd("transitions", int(nilRun.gen))
		var devRuns []*modelRun
		devs := c.KnownDeviations()
		for _, d := range devs {
			dr, err := runModel(c, vals, sub, "Deviant.cfg", "fails", []string{d}, false)
			if err != nil {
				return err
			}
			devRuns = append(devRuns, dr)
		}
		nilAgree := 0
		perSwitch := map[string]bool{}
		for _, m := range mismatches {
			if ok, _ := agree(nilRun.preds[m.u.sw.ID][m.vi], m.obs); ok {
				nilAgree++
				compared++
				continue
			}
			rec := map[string]any{"kind": "match_mismatch", "form": m.u.sw.Form, "switch": describe(m.u.sw), "type": TyText(m.u.sw.Ty),
				"value": ValText(vals[m.vi-1]), "observed": m.obs.Raw, "predicted_selected": m.pred.Sel,
				"source": singleSource(m.u, vals),
				"summary": fmt.Sprintf("%s on %s (%s): %s; real line: %s", describe(m.u.sw), ValText(vals[m.vi-1]), m.u.sw.Form, m.why, m.obs.Raw)}
			for i, dr := range devRuns {
				if ok, _ := agree(dr.preds[m.u.sw.ID][m.vi], m.obs); ok {
					rec["deviation"] = devs[i]
					break
				}
			}
			// one report per (switch, form): the first failing value
			key := m.u.sw.fname()
			if rec["deviation"] == nil && perSwitch[key] {
				continue
			}
			perSwitch[key] = true
			c.Violation(rec)
		}
		c.CovAdd("agree_under_nil_reading_of_missing_key", nilAgree)
	}

	c.CovAdd("traces_validated_against_impl", compared)
	c.CovAdd("patterns", len(uni))
	c.CovAdd("values", len(vals))
	c.CovAdd("switches", len(model))
	c.CovAdd("catch_lists_claimed_exhaustive", claimed)
	c.CovAdd("exhaustive_behaviours_checked", exhChecked)
	c.CovAdd("out_of_domain", ood+catchOOD)
	c.CovAdd("typed_switches", len(typedUnits))
	c.CovAdd("typed_switches_rejected_as_impossible", typedOOD)
	c.Logf("compared=%d differences=%d out_of_domain=%d violations=%d", compared, len(mismatches), ood, c.Violations())
	if ood*10 > len(units) {
		return core.Inconclusivef("%d of %d emitted functions were rejected by the checker: the generator left the domain", ood, len(units))
	}
	if compared == 0 || claimed == 0 {
		return core.Inconclusivef("nothing compared (compared=%d, claimed exhaustive=%d)", compared, claimed)
	}
	return nil
}

func sortedInts(m map[int]*Switch) []int {
	var ks []int
	for k := range m {
		ks = append(ks, k)
	}
	sort.Ints(ks)
	return ks
}

func describe(s *Switch) string {
	var parts []string
	for _, c := range s.Cases {
		parts = append(parts, PatText(c))
	}
	return strings.Join(parts, " | case ")
}

func singleSource(u *unit, vals []M) string { return fileText([]*unit{u}, vals) }

func anySiblingRest(s *Switch) bool {
	for _, c := range s.Cases {
		if siblingRest(c) {
			return true
		}
	}
	return false
}

func hasInterp(s *Switch) bool {
	found := false
	var walk func(p M)
	walk = func(p M) {
		if p["interp"] == true {
			found = true
		}
		forSub(p, func(q M, _ bool) { walk(q) })
	}
	for _, c := range s.Cases {
		walk(c)
	}
	return found
}

func firstLine(s string) string {
	if i := strings.IndexByte(s, '\n'); i >= 0 {
		return s[:i]
	}
	return s
}

func panicLine(log string) string {
	for _, l := range strings.Split(log, "\n") {
		if strings.HasPrefix(l, "panic:") || strings.HasPrefix(l, "fatal error:") {
			return l
		}
	}
	return firstLine(log)
}

// panicSite: the first frame of the crash inside the elk compiler/vm/checker.
func panicSite(log string) string {
	for _, l := range strings.Split(log, "\n") {
		if strings.HasPrefix(l, "github.com/elk-language/elk/") && !strings.Contains(l, "panic") {
			if i := strings.IndexByte(l, '('); i > 0 {
				rest := l[i:]
				if j := strings.Index(rest, ")."); j >= 0 {
					name := rest[j+2:]
					if k := strings.IndexByte(name, '('); k > 0 {
						return name[:k]
					}
				}
			}
			return l
		}
	}
	return ""
}
