package c30

import (
	"encoding/json"
	"os"
	"strings"

	"elkverif/internal/core"
	"elkverif/internal/elkrun"
)

// replay re-runs the emitted source of one recorded counterexample (`./run C30 --replay <path>`)
// and reports it again if the real implementation still shows the recorded behaviour.
func replay(c *core.Ctx) error {
	b, err := os.ReadFile(c.Replay)
	if err != nil {
		return core.Inconclusivef("cannot read replay file: %v", err)
	}
	var rec map[string]any
	if err := json.Unmarshal(b, &rec); err != nil {
		return core.Inconclusivef("bad replay file: %v", err)
	}
	src, _ := rec["source"].(string)
	if src == "" {
		return core.Inconclusivef("replay file has no source")
	}
	pool := c.NewPool(1)
	jr := pool.Map([]core.Job{{Kind: "elk", Payload: elkrun.Job{Src: src, RunMs: 30000}, TimeoutMs: 90000}}, nil)[0]
	var r elkrun.Result
	if !jr.Crashed && !jr.Timeout && jr.Panic == "" && jr.Err == "" {
		if err := jr.Decode(&r); err != nil {
			return core.Inconclusivef("worker result: %v", err)
		}
	}
	c.Logf("replay: accepted=%v diags=%q error=%s %s crashed=%v", r.Accepted, r.Diags, r.ErrClass, r.ErrMsg, jr.Crashed || r.GoPanic != "")
	os.Stdout.WriteString(r.Stdout)
	reproduced := false
	switch rec["kind"] {
	case "go_panic":
		reproduced = jr.Crashed || jr.Panic != "" || r.GoPanic != ""
	case "hang":
		reproduced = jr.Timeout || r.Hung
	case "escaped_error":
		reproduced = r.ErrClass != ""
	default:
		obs, _ := rec["observed"].(string)
		for _, l := range strings.Split(r.Stdout, "\n") {
			if obs != "" && l == obs {
				reproduced = true
			}
		}
	}
	c.Cov("replayed", c.Replay)
	c.Cov("reproduced", reproduced)
	if reproduced {
		c.Violation(rec)
	} else {
		c.Logf("the recorded behaviour is NOT reproduced on this tree")
	}
	return nil
}
