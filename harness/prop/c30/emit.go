package c30

import (
	"fmt"
	"regexp"
	"sort"
	"strings"
)

// Prelude of every emitted file: raw-text printer and the two classes of the instance.
const Prelude = `def t(s: String) then println s
class P
  attr x: any, y: any
  init(@x: any, @y: any); end
end
class Q < P
end
`

// ValText renders a value as an Elk expression.
func ValText(v M) string {
	switch v["k"] {
	case "nil":
		return "nil"
	case "bool":
		return fmt.Sprint(v["b"])
	case "int":
		return fmt.Sprint(v["n"])
	case "float":
		return floatText(v["h"].(int))
	case "str":
		return fmt.Sprintf("%q", v["s"])
	case "sym":
		return ":" + v["s"].(string)
	case "char":
		return "`" + v["s"].(string) + "`"
	case "list":
		return "[" + joinVals(v["es"].(L), ValText) + "]"
	case "tuple":
		return "%[" + joinVals(v["es"].(L), ValText) + "]"
	case "map", "record":
		var parts []string
		ks, vs := v["ks"].(L), v["vs"].(L)
		for i := range ks {
			parts = append(parts, ValText(ks[i].(M))+" => "+ValText(vs[i].(M)))
		}
		open := "{ "
		if v["k"] == "record" {
			open = "%{ "
		}
		if len(parts) == 0 {
			return strings.TrimSpace(open) + "}"
		}
		return open + strings.Join(parts, ", ") + " }"
	case "obj":
		return v["c"].(string) + "(" + joinVals(v["fs"].(L), ValText) + ")"
	}
	panic(fmt.Sprintf("ValText: %v", v))
}

func floatText(h int) string {
	if h%2 == 0 {
		return fmt.Sprintf("%d.0", h/2)
	}
	if h < 0 {
		return fmt.Sprintf("-%d.5", (-h)/2)
	}
	return fmt.Sprintf("%d.5", h/2)
}

func joinVals(l L, f func(M) string) string {
	var parts []string
	for _, e := range l {
		parts = append(parts, f(e.(M)))
	}
	return strings.Join(parts, ", ")
}

// Inspect renders a value the way Elk's inspect interpolation prints it. Hash maps with several
// entries print in table order: all orders are returned.
func Inspect(v M) []string {
	switch v["k"] {
	case "undef":
		return []string{"undefined"}
	case "str":
		return []string{fmt.Sprintf("%q", v["s"])}
	case "list", "tuple":
		open := "["
		if v["k"] == "tuple" {
			open = "%["
		}
		var out []string
		for _, alt := range product(v["es"].(L)) {
			out = append(out, open+strings.Join(alt, ", ")+"]")
		}
		return out
	case "map", "record":
		open := "{"
		if v["k"] == "record" {
			open = "%{"
		}
		ks, vs := v["ks"].(L), v["vs"].(L)
		var out []string
		for _, valt := range product(vs) {
			var parts []string
			for i := range ks {
				parts = append(parts, Inspect(ks[i].(M))[0]+" => "+valt[i])
			}
			for _, perm := range permStrings(parts) {
				out = append(out, open+strings.Join(perm, ", ")+"}")
			}
		}
		return out
	case "obj":
		var out []string
		for _, alt := range product(v["fs"].(L)) {
			out = append(out, fmt.Sprintf("%s{x: %s, y: %s}", v["c"], alt[0], alt[1]))
		}
		return out
	}
	return []string{ValText(v)}
}

func product(l L) [][]string {
	out := [][]string{{}}
	for _, e := range l {
		var next [][]string
		for _, pre := range out {
			for _, alt := range Inspect(e.(M)) {
				next = append(next, append(append([]string{}, pre...), alt))
			}
		}
		out = next
	}
	return out
}

func permStrings(parts []string) [][]string {
	if len(parts) <= 1 {
		return [][]string{parts}
	}
	var out [][]string
	for _, p := range perms(len(parts)) {
		var one []string
		for _, i := range p {
			one = append(one, parts[i])
		}
		out = append(out, one)
	}
	return out
}

var rePtr = regexp.MustCompile(`\{&: 0x[0-9a-f]+, `)
var reCap = regexp.MustCompile(`\]:\d+`)
var reNs = regexp.MustCompile(`Std::Kernel::`)

// NormInspect removes what is not part of any property from real inspect output: object addresses
// and the spare capacity suffix of ArrayList.
func NormInspect(s string) string {
	s = rePtr.ReplaceAllString(s, "{")
	s = reCap.ReplaceAllString(s, "]")
	s = reNs.ReplaceAllString(s, "")
	return s
}

// PatText renders a pattern as Elk source.
func PatText(p M) string {
	switch p["k"] {
	case "lit":
		v := p["v"].(M)
		if p["interp"] == true {
			switch v["k"] {
			case "str":
				return fmt.Sprintf("\"${'%s'}\"", v["s"])
			case "sym":
				return fmt.Sprintf(":\"${'%s'}\"", v["s"])
			}
		}
		return ValText(v)
	case "eq", "rel":
		return p["op"].(string) + " " + ValText(p["v"].(M))
	case "range":
		s := ""
		if p["haslo"].(bool) {
			s += fmt.Sprint(p["lo"])
		}
		s += p["op"].(string)
		if p["hashi"].(bool) {
			s += fmt.Sprint(p["hi"])
		}
		return s
	case "bind":
		return p["n"].(string)
	case "wild":
		return "_"
	case "must":
		return "must"
	case "type":
		return p["c"].(string) + "()"
	case "as":
		return sub(p["p"].(M), 3) + " as " + p["n"].(string)
	case "or":
		return sub(p["l"].(M), 2) + " || " + sub(p["r"].(M), 2)
	case "and":
		return sub(p["l"].(M), 1) + " && " + sub(p["r"].(M), 1)
	case "nilable":
		return sub(p["p"].(M), 0) + "?"
	case "list", "tuple":
		var parts []string
		for _, e := range p["pre"].(L) {
			parts = append(parts, PatText(e.(M)))
		}
		if p["rest"].(bool) {
			parts = append(parts, "*"+p["restn"].(string))
		}
		for _, e := range p["post"].(L) {
			parts = append(parts, PatText(e.(M)))
		}
		open := "["
		if p["k"] == "tuple" {
			open = "%["
		}
		return open + strings.Join(parts, ", ") + "]"
	case "map", "record":
		var parts []string
		for _, e := range p["es"].(L) {
			e := e.(M)
			key := e["key"].(M)
			switch {
			case e["short"].(bool):
				parts = append(parts, key["s"].(string))
			case key["k"] == "sym":
				parts = append(parts, key["s"].(string)+": "+PatText(e["p"].(M)))
			default:
				parts = append(parts, ValText(key)+" => "+PatText(e["p"].(M)))
			}
		}
		open := "{"
		if p["k"] == "record" {
			open = "%{"
		}
		if len(parts) == 0 {
			return open + "}"
		}
		return open + " " + strings.Join(parts, ", ") + " }"
	case "obj":
		var parts []string
		for _, e := range p["attrs"].(L) {
			e := e.(M)
			if e["short"].(bool) {
				parts = append(parts, e["a"].(string))
			} else {
				parts = append(parts, e["a"].(string)+": "+PatText(e["p"].(M)))
			}
		}
		return p["c"].(string) + "(" + strings.Join(parts, ", ") + ")"
	}
	panic(fmt.Sprintf("PatText: %v", p))
}

// precedence levels: 3 = as, 2 = ||, 1 = &&, 0 = postfix ? / unary; parenthesise a sub-pattern that
// binds looser than its context allows.
func level(p M) int {
	switch p["k"] {
	case "as":
		return 3
	case "or":
		return 2
	case "and":
		return 1
	case "nilable":
		return 0
	}
	return -1
}

func sub(p M, ctx int) string {
	s := PatText(p)
	l := level(p)
	// left operands of `as` may be `||` chains; operands of || are && chains; operands of && and ? are unary
	need := false
	switch ctx {
	case 3:
		need = l >= 3
	case 2:
		need = l >= 3
	case 1:
		need = l >= 2
	case 0:
		need = l >= 0
	}
	if need {
		return "(" + s + ")"
	}
	return s
}

var tyText = map[string]string{
	"any": "any", "nil": "nil", "Int": "Int", "Float": "Float", "String": "String", "Symbol": "Symbol", "Bool": "Bool",
	"Char": "Char", "P": "P", "Q": "Q", "List": "List[any]", "Tuple": "Tuple[any]", "Map": "Map[any, any]", "Record": "Record[any, any]",
}

func TyText(ty []string) string {
	var parts []string
	for _, a := range ty {
		parts = append(parts, tyText[a])
	}
	return strings.Join(parts, " | ")
}

func (s *Switch) fname() string { return fmt.Sprintf("%c%d", s.Form[0], s.ID) }

// line printed by case i (1-based; 0 = else): "<fname> <vi> <i> n1=<inspect>;n2=<inspect>"
func caseLine(fname string, i int, vars []string) string {
	var b strings.Builder
	fmt.Fprintf(&b, "t(\"%s #{vi} %d", fname, i)
	for j, n := range vars {
		if j == 0 {
			b.WriteString(" ")
		} else {
			b.WriteString(";")
		}
		fmt.Fprintf(&b, "%s=#{%s}", n, n)
	}
	b.WriteString("\")")
	return b.String()
}

// FuncText emits the function that runs the switch on its parameter and prints the selected case
// and the variables of the selected pattern.
func (s *Switch) FuncText() string {
	var b strings.Builder
	fn := s.fname()
	switch s.Form {
	case "switch":
		fmt.Fprintf(&b, "def %s(vi: Int, v: %s)\n  switch v\n", fn, TyText(s.Ty))
		for i, c := range s.Cases {
			fmt.Fprintf(&b, "  case %s\n    %s\n", PatText(c), caseLine(fn, i+1, names(c)))
		}
		fmt.Fprintf(&b, "  else\n    %s\n  end\nend\n", caseLine(fn, 0, nil))
	case "match":
		c := s.Cases[0]
		fmt.Fprintf(&b, "def %s(vi: Int, v: %s)\n  if v match %s\n    %s\n  else\n    %s\n  end\nend\n",
			fn, TyText(s.Ty), PatText(c), caseLine(fn, 1, names(c)), caseLine(fn, 0, nil))
	case "catch":
		fmt.Fprintf(&b, "def %s(vi: Int, v: %s)\n  do\n    throw v\n", fn, TyText(s.Ty))
		for i, c := range s.Cases {
			fmt.Fprintf(&b, "  catch %s\n    %s\n", PatText(c), caseLine(fn, i+1, names(c)))
		}
		b.WriteString("  end\nend\n")
	}
	return b.String()
}

// CallsText emits one call per value index.
func (s *Switch) CallsText(vals []M, idx []int) string {
	var b strings.Builder
	fn := s.fname()
	for _, vi := range idx {
		if s.Form == "catch" {
			fmt.Fprintf(&b, "do\n  %s(%d, w%d())\ncatch _\n  t(\"%s %d 0\")\nend\n", fn, vi, vi, fn, vi)
		} else {
			fmt.Fprintf(&b, "%s(%d, w%d())\n", fn, vi, vi)
		}
	}
	return b.String()
}

// ValueFuncs emits one constructor function per value: `def w<i>: T then <expr>`. (Values are not
// written inline at the call sites: two static `%{ sym: ... }` record literals in one chunk crash the
// compiler's constant pool, a defect that belongs to C01/C29.)
func ValueFuncs(vals []M, used map[int]bool) string {
	var b strings.Builder
	for i, v := range vals {
		if used == nil || used[i+1] {
			fmt.Fprintf(&b, "def w%d: %s then %s\n", i+1, valType(v), ValText(v))
		}
	}
	return b.String()
}

// valType: the static type the constructor of a value is declared with (precise enough to be passed
// to the typed scrutinee parameters of the instance).
func valType(v M) string {
	switch v["k"] {
	case "nil":
		return "nil"
	case "bool":
		return "Bool"
	case "int":
		return "Int"
	case "float":
		return "Float"
	case "str":
		return "String"
	case "sym":
		return "Symbol"
	case "char":
		return "Char"
	case "obj":
		return v["c"].(string)
	}
	return "any"
}

// Observation of one (switch, value) run on the real implementation.
type RealObs struct {
	Sel  int
	Vars map[string]string
	Raw  string
}

// ParseLines parses the stdout of a batch: fname -> vi -> observation.
func ParseLines(stdout string) map[string]map[int]*RealObs {
	out := map[string]map[int]*RealObs{}
	for _, line := range strings.Split(stdout, "\n") {
		f := strings.SplitN(line, " ", 4)
		if len(f) < 3 {
			continue
		}
		var vi, sel int
		if _, err := fmt.Sscanf(f[1]+" "+f[2], "%d %d", &vi, &sel); err != nil {
			continue
		}
		o := &RealObs{Sel: sel, Vars: map[string]string{}, Raw: line}
		if len(f) == 4 {
			for _, kv := range splitVars(f[3]) {
				if i := strings.IndexByte(kv, '='); i > 0 {
					o.Vars[kv[:i]] = NormInspect(kv[i+1:])
				}
			}
		}
		if out[f[0]] == nil {
			out[f[0]] = map[int]*RealObs{}
		}
		out[f[0]][vi] = o
	}
	return out
}

// splitVars splits "v1=...;v2=..." at the `;` that precede a variable name (values never contain `;vN=`).
var reVarSep = regexp.MustCompile(`;([a-z][a-z0-9]*)=`)

func splitVars(s string) []string {
	s = reVarSep.ReplaceAllString(s, "\x00$1=")
	return strings.Split(s, "\x00")
}

func sortedKeys[T any](m map[string]T) []string {
	var ks []string
	for k := range m {
		ks = append(ks, k)
	}
	sort.Strings(ks)
	return ks
}
