package c30

import (
	"fmt"
	"math/rand"
	"sort"
	"strings"
)

// M is a JSON record (a value, a pattern or a switch of spec/Match).
type M = map[string]any
type L = []any

// ---- values ---------------------------------------------------------------------------------------

func vNil() M           { return M{"k": "nil"} }
func vBool(b bool) M    { return M{"k": "bool", "b": b} }
func vInt(n int) M      { return M{"k": "int", "n": n} }
func vFloat(h int) M    { return M{"k": "float", "h": h} } // h = 2 * value
func vStr(s string) M   { return M{"k": "str", "s": s} }
func vSym(s string) M   { return M{"k": "sym", "s": s} }
func vChar(s string) M  { return M{"k": "char", "s": s} }
func vList(es ...any) M { return M{"k": "list", "es": append(L{}, es...)} }
func vTuple(es ...any) M {
	return M{"k": "tuple", "es": append(L{}, es...)}
}
func vMap(kv ...any) M    { return kvs("map", kv) }
func vRecord(kv ...any) M { return kvs("record", kv) }
func kvs(k string, kv []any) M {
	ks, vs := L{}, L{}
	for i := 0; i < len(kv); i += 2 {
		ks = append(ks, kv[i])
		vs = append(vs, kv[i+1])
	}
	return M{"k": k, "ks": ks, "vs": vs}
}
func vObj(c string, x, y any) M { return M{"k": "obj", "c": c, "fs": L{x, y}} }

// ValuePool: values of every built-in kind the patterns of the statement talk about, nesting depth <= 2.
func ValuePool() []M {
	a, b := vSym("a"), vSym("b")
	return []M{
		// scalars
		vNil(), vBool(true), vBool(false),
		vInt(-1), vInt(0), vInt(1), vInt(2), vInt(3), vInt(5),
		vFloat(3), vFloat(4), vFloat(2),
		vStr("a"), vStr("b"), a, b, vChar("c"),
		// depth 1
		vList(), vList(vInt(1)), vList(vInt(1), vInt(2)), vList(vInt(2), vInt(1)), vList(vInt(1), vInt(2), vInt(3)),
		vList(vStr("a")), vList(vNil()), vList(vInt(1), vStr("a")),
		vTuple(), vTuple(vInt(1)), vTuple(vInt(1), vInt(2)), vTuple(vInt(1), vStr("a")), vTuple(vInt(3), vInt(1), vInt(2)),
		vMap(), vMap(a, vInt(1)), vMap(b, vInt(1)), vMap(a, vInt(2), b, vInt(1)), vMap(vInt(1), vInt(2)), vMap(a, vNil()),
		vRecord(), vRecord(a, vInt(1)), vRecord(b, vInt(2)), vRecord(a, vNil()), vRecord(vInt(1), vStr("a")),
		vObj("P", vInt(1), vInt(2)), vObj("P", vInt(2), vStr("a")), vObj("Q", vInt(1), vInt(2)), vObj("P", vNil(), vInt(1)),
		// depth 2
		vList(vList(vInt(1)), vList(vInt(2))), vList(vList(vInt(1), vInt(2)), vInt(3)), vList(vInt(1), vList(vInt(2), vInt(3))),
		vList(vList(vInt(1), vInt(5)), vList(vInt(2), vInt(6), vInt(7))),
		vTuple(vList(vInt(1)), vInt(2)), vList(vTuple(vInt(1), vInt(2))), vList(vMap(a, vInt(1))),
		vMap(a, vList(vInt(1), vInt(2))), vMap(a, vMap(b, vInt(1))), vRecord(a, vTuple(vInt(1))),
		vObj("P", vList(vInt(1), vInt(2)), vRecord(a, vInt(1))), vObj("P", vObj("P", vInt(1), vInt(2)), vInt(3)),
		vList(vObj("P", vInt(1), vInt(2))), vMap(a, vObj("Q", vInt(1), vInt(2))),
	}
}

// ---- patterns -------------------------------------------------------------------------------------

func pLit(v M) M              { return M{"k": "lit", "v": v} }
func pLitInterp(v M) M        { return M{"k": "lit", "v": v, "interp": true} } // emitted as an interpolated literal
func pEq(op string, v M) M    { return M{"k": "eq", "op": op, "v": v} }
func pRel(op string, v M) M   { return M{"k": "rel", "op": op, "v": v} }
func pBind(n string) M        { return M{"k": "bind", "n": n} }
func pWild() M                { return M{"k": "wild"} }
func pMust() M                { return M{"k": "must"} }
func pType(c string) M        { return M{"k": "type", "c": c} }
func pAs(p M, n string) M     { return M{"k": "as", "p": p, "n": n} }
func pOr(l, r M) M            { return M{"k": "or", "l": l, "r": r} }
func pAnd(l, r M) M           { return M{"k": "and", "l": l, "r": r} }
func pNilable(p M) M          { return M{"k": "nilable", "p": p} }
func pRange(op string, lo, hi *int) M {
	p := M{"k": "range", "op": op, "haslo": lo != nil, "hashi": hi != nil, "lo": 0, "hi": 0}
	if lo != nil {
		p["lo"] = *lo
	}
	if hi != nil {
		p["hi"] = *hi
	}
	return p
}
func ip(n int) *int { return &n }

// pSeq builds a list/tuple pattern; rest: "" = none, "*" = anonymous rest, "*name" = named rest.
func pSeq(kind string, pre []M, rest string, post []M) M {
	p := M{"k": kind, "pre": toL(pre), "post": toL(post), "rest": rest != "", "restn": strings.TrimPrefix(rest, "*")}
	return p
}

type entry struct {
	key   M
	p     M
	short bool // `{ a }` shorthand: key :a, pattern bind a
}

func pKV(kind string, es ...entry) M {
	l := L{}
	for _, e := range es {
		l = append(l, M{"key": e.key, "p": e.p, "short": e.short})
	}
	return M{"k": kind, "es": l}
}

type attr struct {
	a     string
	p     M
	short bool
}

func pObj(c string, as ...attr) M {
	l := L{}
	for _, a := range as {
		l = append(l, M{"a": a.a, "p": a.p, "short": a.short})
	}
	return M{"k": "obj", "c": c, "attrs": l}
}

func toL(ps []M) L {
	l := L{}
	for _, p := range ps {
		l = append(l, p)
	}
	return l
}

func clone(x any) any {
	switch t := x.(type) {
	case M:
		n := M{}
		for k, v := range t {
			n[k] = clone(v)
		}
		return n
	case L:
		n := make(L, len(t))
		for i, v := range t {
			n[i] = clone(v)
		}
		return n
	}
	return x
}

// Leaves: the depth-0 patterns.
func Leaves() []M {
	return []M{
		pLit(vNil()), pLit(vBool(true)), pLit(vBool(false)), pLit(vInt(1)), pLit(vInt(2)), pLit(vInt(-1)),
		pLit(vFloat(3)), pLit(vStr("a")), pLit(vSym("a")), pLit(vChar("c")),
		pLitInterp(vStr("a")), pLitInterp(vSym("b")),
		pEq("==", vInt(1)), pEq("!=", vNil()), pEq("!=", vInt(1)), pEq("==", vStr("a")),
		pRel("<", vInt(2)), pRel(">=", vInt(2)), pRel(">", vFloat(3)), pRel("<=", vFloat(3)),
		pRange("...", ip(1), ip(2)), pRange("..<", ip(2), ip(5)), pRange("...", ip(2), nil), pRange("...", nil, ip(1)),
		pRange("<.<", ip(0), ip(3)), pRange("<..", ip(1), ip(3)), pRange("..<", nil, ip(1)),
		pBind("x"), pWild(), pMust(),
		pType("Int"), pType("Float"), pType("String"), pType("Symbol"), pType("Bool"), pType("Nil"), pType("Char"),
		pType("List"), pType("Tuple"), pType("Map"), pType("Record"), pType("P"), pType("Q"),
	}
}

// elems: the element alphabet composites are built from at depth 1.
func elems() []M {
	return []M{
		pLit(vInt(1)), pLit(vStr("a")), pLit(vNil()), pRel("<", vInt(2)), pBind("x"), pWild(), pType("Int"),
		pRange("...", ip(2), ip(5)), pEq("!=", vInt(1)),
	}
}

// composites builds every depth-(d+1) form over the given element patterns (pairs are taken from
// the cartesian product when `pairs` is nil, otherwise from the given pair list).
func composites(es []M, pairs [][2]M) []M {
	var out []M
	a, b := vSym("a"), vSym("b")
	for _, kind := range []string{"list", "tuple"} {
		out = append(out, pSeq(kind, nil, "", nil), pSeq(kind, nil, "*", nil), pSeq(kind, nil, "*r", nil))
		for _, e := range es {
			out = append(out,
				pSeq(kind, []M{e}, "", nil), pSeq(kind, []M{e}, "*", nil), pSeq(kind, nil, "*", []M{e}),
				pSeq(kind, []M{e}, "*r", nil), pSeq(kind, nil, "*r", []M{e}))
		}
		for _, pr := range pairs {
			out = append(out, pSeq(kind, []M{pr[0], pr[1]}, "", nil), pSeq(kind, []M{pr[0]}, "*r", []M{pr[1]}),
				pSeq(kind, []M{pr[0]}, "*", []M{pr[1]}))
		}
	}
	for _, kind := range []string{"map", "record"} {
		out = append(out, pKV(kind), pKV(kind, entry{a, pBind("a"), true}), pKV(kind, entry{a, pBind("a"), true}, entry{b, pBind("b"), true}))
		for _, e := range es {
			out = append(out, pKV(kind, entry{a, e, false}), pKV(kind, entry{vInt(1), e, false}), pKV(kind, entry{vStr("a"), e, false}))
		}
		for _, pr := range pairs {
			out = append(out, pKV(kind, entry{a, pr[0], false}, entry{b, pr[1], false}))
		}
	}
	out = append(out, pObj("P"), pObj("P", attr{"x", pBind("x"), true}), pObj("P", attr{"x", pBind("x"), true}, attr{"y", pBind("y"), true}),
		pObj("Q", attr{"y", pBind("y"), true}))
	for _, e := range es {
		out = append(out, pObj("P", attr{"x", e, false}), pObj("P", attr{"y", e, false}), pObj("Q", attr{"x", e, false}),
			pObj("P", attr{"y", pBind("y"), true}, attr{"x", e, false}))
	}
	for _, pr := range pairs {
		out = append(out, pObj("P", attr{"x", pr[0], false}, attr{"y", pr[1], false}))
	}
	for _, e := range es {
		out = append(out, pNilable(e))
		if !declares(e) {
			out = append(out, pAs(e, "n"))
		}
	}
	for _, pr := range pairs {
		out = append(out, pOr(pr[0], pr[1]), pAnd(pr[0], pr[1]))
	}
	return out
}

func allPairs(es []M) [][2]M {
	var out [][2]M
	for _, x := range es {
		for _, y := range es {
			out = append(out, [2]M{x, y})
		}
	}
	return out
}

// special shapes worth having in every run (alternatives binding the same name, guards as
// conjunctions with relational patterns, nested rest patterns)
func specials() []M {
	one, two := pLit(vInt(1)), pLit(vInt(2))
	return []M{
		pOr(pSeq("list", []M{one, pBind("x")}, "", nil), pSeq("list", []M{pBind("x"), two}, "", nil)),
		pOr(pSeq("list", []M{pBind("x"), one, pLit(vInt(7))}, "", nil), pSeq("list", []M{two, pBind("y"), pLit(vInt(3))}, "", nil)),
		pAnd(pAnd(pRel(">", vInt(1)), pRel("<", vInt(5))), pBind("n")),
		pAnd(pBind("n"), pRel(">=", vInt(2))),
		pAnd(pType("Int"), pEq("!=", vInt(2))),
		pAs(pOr(pLit(vInt(1)), pLit(vInt(2))), "q"),
		pKV("map", entry{vSym("a"), pAs(pOr(pLit(vInt(1)), pLit(vInt(2))), "q"), false}),
		pSeq("list", []M{pSeq("list", []M{one}, "*a", nil), pSeq("list", []M{two}, "*b", nil)}, "", nil),
		pSeq("list", []M{pSeq("list", []M{one}, "*", nil), pSeq("list", []M{two}, "*", nil)}, "", nil),
		pSeq("tuple", []M{pSeq("tuple", []M{pBind("x")}, "*", nil)}, "*r", nil),
		pObj("P", attr{"x", pObj("P", attr{"x", pBind("x"), true}), false}, attr{"y", pBind("y"), true}),
		pNilable(pType("String")), pNilable(pBind("x")),
		pOr(pType("Int"), pOr(pType("String"), pLit(vNil()))),
	}
}

// declares reports whether the pattern binds a variable.
func declares(p M) bool { return len(names(p)) > 0 }

// names lists the variables a pattern declares, in source order, without duplicates.
func names(p M) []string {
	var out []string
	seen := map[string]bool{}
	add := func(n string) {
		if n != "" && !seen[n] {
			seen[n] = true
			out = append(out, n)
		}
	}
	var walk func(p M)
	walk = func(p M) {
		switch p["k"] {
		case "bind":
			add(p["n"].(string))
		case "as":
			walk(p["p"].(M))
			add(p["n"].(string))
		case "or", "and":
			walk(p["l"].(M))
			walk(p["r"].(M))
		case "nilable":
			walk(p["p"].(M))
		case "list", "tuple":
			for _, e := range p["pre"].(L) {
				walk(e.(M))
			}
			add(p["restn"].(string))
			for _, e := range p["post"].(L) {
				walk(e.(M))
			}
		case "map", "record":
			for _, e := range p["es"].(L) {
				walk(e.(M)["p"].(M))
			}
		case "obj":
			for _, e := range p["attrs"].(L) {
				walk(e.(M)["p"].(M))
			}
		}
	}
	walk(p)
	return out
}

// uniq renames the variables of a pattern so that every declaring occurrence has its own name
// (shorthand elements keep theirs: the name is the key). Alternatives are left alone: both sides of
// `||` may bind the same name.
func uniq(p M) M {
	p = clone(p).(M)
	n := 0
	used := map[string]bool{}
	var collectShort func(p M)
	collectShort = func(p M) {
		forSub(p, func(q M, short bool) {
			if short {
				used[q["n"].(string)] = true
			} else {
				collectShort(q)
			}
		})
	}
	collectShort(p)
	fresh := func() string {
		for {
			n++
			nm := fmt.Sprintf("v%d", n)
			if !used[nm] {
				used[nm] = true
				return nm
			}
		}
	}
	// rec collects original -> new names; reuse maps the names the left side of an enclosing `||`
	// already declared (the right side binds the same variables).
	var walk func(p M, rec, reuse map[string]string)
	name := func(orig string, rec, reuse map[string]string, mayReuse bool) string {
		if nm, ok := reuse[orig]; ok && mayReuse {
			rec[orig] = nm
			return nm
		}
		nm := fresh()
		rec[orig] = nm
		return nm
	}
	walk = func(p M, rec, reuse map[string]string) {
		switch p["k"] {
		case "bind":
			p["n"] = name(p["n"].(string), rec, reuse, true)
			return
		case "as":
			p["n"] = name(p["n"].(string), rec, reuse, true)
		case "list", "tuple":
			if p["restn"].(string) != "" {
				p["restn"] = name(p["restn"].(string), rec, reuse, false)
			}
		case "or":
			recL := map[string]string{}
			walk(p["l"].(M), recL, reuse)
			merged := map[string]string{}
			for k, v := range reuse {
				merged[k] = v
			}
			for k, v := range recL {
				merged[k] = v
				rec[k] = v
			}
			walk(p["r"].(M), rec, merged)
			return
		}
		forSub(p, func(q M, short bool) {
			if !short {
				walk(q, rec, reuse)
			}
		})
	}
	walk(p, map[string]string{}, map[string]string{})
	return p
}

// forSub calls f on every direct sub-pattern.
func forSub(p M, f func(q M, short bool)) {
	switch p["k"] {
	case "as", "nilable":
		f(p["p"].(M), false)
	case "or", "and":
		f(p["l"].(M), false)
		f(p["r"].(M), false)
	case "list", "tuple":
		for _, e := range p["pre"].(L) {
			f(e.(M), false)
		}
		for _, e := range p["post"].(L) {
			f(e.(M), false)
		}
	case "map", "record":
		for _, e := range p["es"].(L) {
			f(e.(M)["p"].(M), e.(M)["short"].(bool))
		}
	case "obj":
		for _, e := range p["attrs"].(L) {
			f(e.(M)["p"].(M), e.(M)["short"].(bool))
		}
	}
}

func depth(p M) int {
	d := 0
	forSub(p, func(q M, _ bool) {
		if x := depth(q) + 1; x > d {
			d = x
		}
	})
	return d
}

// siblingRest reports whether two list/tuple patterns with a rest element are compiled at the same
// pattern nesting level inside one enclosing list/tuple/map/object pattern (the shape of the
// known compiler crash `sibling-rest-patterns`).
func siblingRest(p M) bool {
	found := false
	var walk func(p M, level int, seen map[int]int)
	walk = func(p M, level int, seen map[int]int) {
		k := p["k"].(string)
		inner := level
		switch k {
		case "list", "tuple":
			if p["rest"].(bool) {
				seen[level]++
				if seen[level] > 1 {
					found = true
				}
			}
			inner = level + 1
		case "map", "record", "obj":
			inner = level + 1
		}
		forSub(p, func(q M, _ bool) { walk(q, inner, seen) })
	}
	walk(p, 0, map[int]int{})
	return found
}

// Universe returns the bounded pattern universe: all leaves, all depth-1 composites over the element
// alphabet, the special shapes, and n2 seeded depth-2 patterns (composites over depth-1 composites).
func Universe(r *rand.Rand, nPairs, n2 int) []M {
	var out []M
	out = append(out, Leaves()...)
	pairs := allPairs(elems())
	if nPairs < len(pairs) {
		r.Shuffle(len(pairs), func(i, j int) { pairs[i], pairs[j] = pairs[j], pairs[i] })
		pairs = pairs[:nPairs]
	}
	d1 := composites(elems(), pairs)
	out = append(out, d1...)
	out = append(out, specials()...)
	// depth 2: composites whose elements are depth-<=1 patterns, sampled
	pool := append(append([]M{}, elems()...), d1...)
	pick := func() M { return pool[r.Intn(len(pool))] }
	for len(out) < len(Leaves())+len(d1)+len(specials())+n2 {
		e1, e2 := pick(), pick()
		cs := composites([]M{e1}, [][2]M{{e1, e2}})
		c := cs[r.Intn(len(cs))]
		if depth(c) != 2 {
			continue
		}
		out = append(out, c)
	}
	res := make([]M, 0, len(out))
	seen := map[string]bool{}
	for _, p := range out {
		u := uniq(p)
		key := PatText(u)
		if seen[key] {
			continue
		}
		seen[key] = true
		res = append(res, u)
	}
	return res
}

// ---- switches -------------------------------------------------------------------------------------

// Switch is one scrutinee type + case list, emitted in one of three forms.
type Switch struct {
	ID      int
	Form    string   // "switch" | "match" | "catch"
	Ty      []string // atoms of the scrutinee type; ["any"]
	Cases   []M
	Claimed bool // catch form: the real checker accepted the function without a throws clause
}

func (s *Switch) Record() M {
	ty := L{}
	for _, t := range s.Ty {
		ty = append(ty, t)
	}
	return M{"id": s.ID, "ty": ty, "cases": toL(s.Cases), "claimed": s.Claimed}
}

func perms(n int) [][]int {
	if n == 1 {
		return [][]int{{0}}
	}
	var out [][]int
	for _, p := range perms(n - 1) {
		for i := 0; i <= len(p); i++ {
			q := append(append(append([]int{}, p[:i]...), n-1), p[i:]...)
			out = append(out, q)
		}
	}
	sort.Slice(out, func(i, j int) bool { return fmt.Sprint(out[i]) < fmt.Sprint(out[j]) })
	return out
}

// mayMatch is a cheap over-approximation of the checker's "can this pattern ever match a value of
// the static type" test, used to keep obviously impossible typed switches out of the instance.
func mayMatch(p M, ty []string) bool {
	has := func(a string) bool {
		for _, t := range ty {
			if t == a || t == "any" {
				return true
			}
		}
		return false
	}
	kindAtom := map[string]string{"nil": "nil", "bool": "Bool", "int": "Int", "float": "Float", "str": "String", "sym": "Symbol", "char": "Char"}
	switch p["k"] {
	case "lit":
		return has(kindAtom[p["v"].(M)["k"].(string)])
	case "eq":
		if p["op"] == "!=" {
			return has(kindAtom[p["v"].(M)["k"].(string)])
		}
		return has(kindAtom[p["v"].(M)["k"].(string)])
	case "rel":
		return has(kindAtom[p["v"].(M)["k"].(string)])
	case "range":
		return has("Int")
	case "bind", "wild", "must":
		return true
	case "type":
		c := p["c"].(string)
		if c == "Nil" {
			return has("nil")
		}
		if c == "P" {
			return has("P") || has("Q")
		}
		return has(c)
	case "obj":
		c := p["c"].(string)
		if !(has(c) || (c == "P" && has("Q"))) {
			return false
		}
		return true
	case "as":
		return mayMatch(p["p"].(M), ty)
	case "nilable":
		return mayMatch(p["p"].(M), ty) && has("nil")
	case "or":
		return mayMatch(p["l"].(M), ty) && mayMatch(p["r"].(M), ty)
	case "and":
		return mayMatch(p["l"].(M), ty) && mayMatch(p["r"].(M), ty)
	}
	return false // collection patterns: none of the typed scrutinees is a collection
}
