// Package c06: Int arithmetic is exact and independent of the integer representation
// (spec/IntArith). Two instances of the same specification are bound to the real code:
//
//	small  TLC enumerates every operand pair of a range and every operator on IntArithMachine, checks
//	       the property on the model and exports one record per transition; every record is replayed
//	       on the real code through the direct Go API, the typed opcode, the generic opcode and
//	       constant folding (spec -> code);
//	big    operands on both sides of the 64-bit boundaries are run through the same paths, the
//	       recorded outcomes become closed claims `Impl({}, op, a, b) = outcome` that Apalache
//	       evaluates on the unbounded-integer specification (code -> spec).
//
// A difference is reported as a violation unless the specification, with exactly one NAMED
// deviation switched on, predicts the observed outcome; then the record carries that deviation
// and matches (or not) a known finding.
package c06

import (
	"encoding/json"
	"fmt"
	"path/filepath"
	"sort"
	"strings"
	"time"

	"elkverif/internal/core"
	"elkverif/internal/elkrun"
	"elkverif/internal/tlc"
	"elkverif/prop/c06/apa"
)

func init() {
	core.Register(&core.Check{ID: "C06", Level: "model_checking", Run: run})
}

var specDir = filepath.Join(core.VerifRoot, "spec", "IntArith")

// AllDeviations mirrors IntArith!AllDeviations (checked against the spec text at start-up).
var AllDeviations = []string{
	"euclid_div_on_big_path", "big_shift_clobbers_operand", "big_shl_negative_count_zero", "big_count_shift_zero",
	"small_shl_count_over_63_panics", "negate_big_not_normalised", "min_small_mod_big", "big_andnot_ints_is_and",
}

// devsOf: the deviations whose guarded branch sits in the model of the given operator.
func devsOf(op string) []string {
	switch op {
	case "div":
		return []string{"euclid_div_on_big_path"}
	case "mod":
		return []string{"min_small_mod_big"}
	case "shl":
		return []string{"big_shift_clobbers_operand", "big_shl_negative_count_zero", "big_count_shift_zero", "small_shl_count_over_63_panics"}
	case "shr":
		return []string{"big_shift_clobbers_operand", "big_count_shift_zero", "small_shl_count_over_63_panics"}
	case "neg":
		return []string{"negate_big_not_normalised"}
	case "andnot":
		return []string{"big_andnot_ints_is_and"}
	}
	return nil
}

type pred struct {
	D     string `json:"d,omitempty"`
	K     string `json:"k"`
	V     int64  `json:"v"`
	A2    int64  `json:"a2"`
	Canon bool   `json:"canon"`
}

// rec is one transition exported by TLC.
type rec struct {
	Op  string `json:"op"`
	A   int64  `json:"a"`
	B   int64  `json:"b"`
	pred
	Dev []pred `json:"dev"`
}

func (o *Out) matches(k, v, a2, b string, canon bool) bool {
	return o.K == k && o.V == v && (o.A2 == "" || o.A2 == a2) && (o.B2 == "" || o.B2 == b) && o.Canon == canon
}

func kindOf(o *Out, v, a2, b string, canon bool) string {
	switch {
	case o.K == "panic":
		return "go_panic"
	case o.K == "err":
		return "error"
	case o.V != v:
		return "wrong_result"
	case o.A2 != "" && o.A2 != a2, o.B2 != "" && o.B2 != b:
		return "operand_clobbered"
	case o.Canon != canon:
		return "non_canonical"
	}
	return "other"
}

var pathName = map[string]string{"val": "direct value.XxxVal", "ints": "direct value.XxxInts", "T": "typed opcode", "G": "generic opcode", "F": "constant folding"}

func run(c *core.Ctx) error {
	pool := c.NewPool(c.Workers)
	generic, err := probeGeneric(pool)
	if err != nil {
		return err
	}
	var gops []string
	for _, op := range OpOrder {
		if generic[op] {
			gops = append(gops, op)
		}
	}
	c.Cov("generic_path_operators", strings.Join(gops, " "))
	if err := runSmall(c, pool, generic); err != nil {
		return err
	}
	if err := runBig(c, pool, generic); err != nil {
		return err
	}
	if c.CovInt("traces_validated_against_impl") == 0 {
		return core.Inconclusivef("nothing was compared")
	}
	return nil
}

// probeGeneric asks the real checker which operators type-check on union-typed operands (the
// dynamically dispatched path).
func probeGeneric(pool *core.Pool) (map[string]bool, error) {
	var jobs []core.Job
	for _, op := range OpOrder {
		jobs = append(jobs, core.Job{Kind: "elk", Payload: elkrun.Job{Src: prelude + methodSrc("G", op), CheckOnly: true}, TimeoutMs: 180000})
	}
	res := pool.Map(jobs, nil)
	ok := map[string]bool{}
	for i, jr := range res {
		var r elkrun.Result
		if jr.Err != "" || jr.Crashed || jr.Timeout || jr.Panic != "" {
			return nil, core.Inconclusivef("probe of generic operator %s failed: %s %s", OpOrder[i], jr.Err, jr.Panic)
		}
		if err := jr.Decode(&r); err != nil {
			return nil, err
		}
		ok[OpOrder[i]] = r.Accepted && r.GoPanic == ""
	}
	if !ok["add"] || !ok["div"] {
		return nil, core.Inconclusivef("the union-typed form of + or / is rejected by the checker: the generic path cannot be exercised")
	}
	return ok, nil
}

// ---- small instance: TLC -> real code ------------------------------------------------------------

func runSmall(c *core.Ctx, pool *core.Pool, generic map[string]bool) error {
	lo, hi := -c.Pick(16, 40), c.Pick(16, 40)
	mc := fmt.Sprintf("---- MODULE MC_IntArith ----\nEXTENDS IntArithMachine\nMCDeviations == {}\nMCExplain == AllDeviations\nMCPairFile == \"\"\nMCLo == %d\nMCHi == %d\n====\n", lo, hi)
	var recs []rec
	var perr error
	t0 := time.Now()
	res, err := tlc.Run(tlc.Opts{
		SpecDir: specDir, Module: "MC_IntArith", Cfg: "Small.cfg", Scratch: c.Scratch, Workers: min(c.Workers, 8),
		Timeout: 15 * time.Minute, Extra: map[string][]byte{"MC_IntArith.tla": []byte(mc)}, Coverage: false,
		OnGen: func(b []byte) {
			var r rec
			if e := json.Unmarshal(b, &r); e != nil {
				perr = fmt.Errorf("bad GEN record: %v: %s", e, b)
				return
			}
			recs = append(recs, r)
		},
	})
	if err != nil {
		return err
	}
	if perr != nil {
		return perr
	}
	if !res.OK {
		return core.Inconclusivef("TLC on IntArithMachine: verdict=%s %s\n%s", res.Verdict, res.What, tailStr(res.Output, 2500))
	}
	c.Logf("TLC IntArithMachine %d..%d: %d states, %d distinct, %d records, %.1fs", lo, hi, res.Generated, res.Distinct, len(recs), time.Since(t0).Seconds())
	c.CovAdd("states", int(res.Distinct))
	c.CovAdd("transitions", len(recs))
	c.Cov("small_instance", fmt.Sprintf("operands %d..%d x %d operators, TLC invariants ExactResult PureOperandA/B CanonicalResult DivisionIdentity ShiftsAreScaling BooleanAlgebra TotalOrder", lo, hi, len(OpOrder)))
	if len(recs) == 0 {
		return core.Inconclusivef("TLC exported no record")
	}
	n := hi - lo + 1
	idOf := func(r *rec) int { return int(r.A-int64(lo))*n + int(r.B-int64(lo)) }

	// direct Go API
	t1 := time.Now()
	vecs := make([]Vec, len(recs))
	for i := range recs {
		vecs[i] = Vec{ID: i, Op: recs[i].Op, A: fmt.Sprint(recs[i].A), B: fmt.Sprint(recs[i].B)}
	}
	direct, err := runDirectAll(pool, vecs)
	if err != nil {
		return err
	}
	c.Logf("direct API: %d vectors x 2 entry families in %.1fs", len(vecs), time.Since(t1).Seconds())

	// typed and generic opcodes: one looping program per operator
	t2 := time.Now()
	loopOut := map[string]map[string]*Out{} // "T add" -> "T id" -> out
	var jobs []core.Job
	var jobKeys []string
	for _, op := range OpOrder {
		for _, p := range []string{"T", "G"} {
			if p == "G" && !generic[op] {
				continue
			}
			jobs = append(jobs, core.Job{Kind: "elk", Payload: elkrun.Job{Src: loopProgram(p, op, lo, hi, guardOf(op)), RunMs: 60000}, TimeoutMs: 120000})
			jobKeys = append(jobKeys, p+" "+op)
		}
	}
	results := pool.Map(jobs, nil)
	var fallback []Item
	for i, jr := range results {
		var r elkrun.Result
		clean := !jr.Crashed && !jr.Timeout && jr.Panic == "" && jr.Err == ""
		if clean {
			if err := jr.Decode(&r); err != nil {
				return err
			}
			if !r.Accepted && r.GoPanic == "" {
				return core.Inconclusivef("loop program %s rejected: %s", jobKeys[i], firstLines(r.Diags, 3))
			}
			clean = r.GoPanic == "" && !r.Hung && r.ErrClass == ""
		}
		m := map[string]*Out{}
		if clean {
			parseLines(r.Stdout, m)
		}
		loopOut[jobKeys[i]] = m
		if !clean {
			// attribute the failure: literal-operand programs for this operator and path
			p := strings.SplitN(jobKeys[i], " ", 2)
			for ri := range recs {
				if recs[ri].Op == p[1] {
					fallback = append(fallback, Item{V: Vec{ID: idOf(&recs[ri]), Op: p[1], A: vecs[ri].A, B: vecs[ri].B}, Path: p[0]})
				}
			}
		}
	}
	if len(fallback) > 0 {
		c.Logf("%d loop evaluations failed as a whole; re-running them one call per line", len(fallback))
		byOp := map[string][]Item{}
		for _, it := range fallback {
			byOp[it.Path+" "+it.V.Op] = append(byOp[it.Path+" "+it.V.Op], it)
		}
		for k, its := range byOp {
			m, err := RunLiteral(c, pool, its, 300)
			if err != nil {
				return err
			}
			loopOut[k] = m
		}
	}
	c.Logf("typed+generic opcodes: %d looping programs in %.1fs", len(jobs), time.Since(t2).Seconds())

	// constant folding: literal expressions (seeded sample in the quick tier)
	t3 := time.Now()
	fidx := c.SampleIdx(len(recs), c.Pick(6000, len(recs)))
	var fitems []Item
	for _, i := range fidx {
		fitems = append(fitems, Item{V: vecs[i], Path: "F"})
	}
	folded, err := RunLiteral(c, pool, fitems, 400)
	if err != nil {
		return err
	}
	c.Logf("constant folding: %d literal expressions in %.1fs", len(fitems), time.Since(t3).Seconds())

	// canonical hashes for the values printed by Elk programs
	var elkOuts []*Out
	for _, m := range loopOut {
		for _, o := range m {
			elkOuts = append(elkOuts, o)
		}
	}
	for _, o := range folded {
		elkOuts = append(elkOuts, o)
	}
	if err := checkHashes(pool, elkOuts); err != nil {
		return err
	}

	// compare
	compared, agree := 0, 0
	for i := range recs {
		r := &recs[i]
		obs := map[string]*Out{}
		for fam, o := range direct[i] {
			obs[fam] = o
		}
		id := idOf(r)
		for _, p := range []string{"T", "G"} {
			if m, ok := loopOut[p+" "+r.Op]; ok {
				if o := m[fmt.Sprintf("%s %d", p, id)]; o != nil {
					obs[p] = o
				} else {
					obs[p] = &Out{K: "err", V: "0", Canon: true, Detail: "no output line for this operand pair"}
				}
			}
		}
		if o := folded[fmt.Sprintf("F %d", i)]; o != nil {
			obs["F"] = o
		}
		for _, path := range sortedKeys(obs) {
			o := obs[path]
			compared++
			v, a2, b := fmt.Sprint(r.V), fmt.Sprint(r.A2), fmt.Sprint(r.B)
			if o.matches(r.K, v, a2, b, r.Canon) {
				agree++
				if agree%40009 == 1 {
					c.Sample(map[string]any{"instance": "small", "op": r.Op, "a": r.A, "b": r.B, "path": pathName[path], "spec_and_real": o.V})
				}
				continue
			}
			viol := map[string]any{
				"kind": kindOf(o, v, a2, b, r.Canon), "instance": "small", "op": r.Op, "a": fmt.Sprint(r.A), "b": b, "path": path,
				"expected": map[string]any{"k": r.K, "v": v, "a2": a2, "canon": r.Canon}, "observed": o,
			}
			for _, d := range r.Dev {
				if o.matches(d.K, fmt.Sprint(d.V), fmt.Sprint(d.A2), b, d.Canon) {
					viol["deviation"] = d.D
					break
				}
			}
			viol["summary"] = summary(viol)
			c.Violation(viol)
		}
	}
	c.CovAdd("traces_validated_against_impl", compared)
	c.CovAdd("small_instance_agreements", agree)
	c.Logf("small instance: %d (record, path) comparisons, %d agree, violations so far %d", compared, agree, c.Violations())
	return nil
}

func guardOf(op string) string {
	switch op {
	case "div", "mod":
		return "b != 0"
	case "pow":
		return "b >= 0 && b <= 5"
	case "shl":
		return "b <= 24"
	case "shr":
		return "b >= -24"
	case "neg", "not":
		return "b == 0"
	}
	return ""
}

func runDirectAll(pool *core.Pool, vecs []Vec) ([]map[string]*Out, error) {
	const chunk = 3000
	var jobs []core.Job
	for i := 0; i < len(vecs); i += chunk {
		j := min(i+chunk, len(vecs))
		jobs = append(jobs, core.Job{Kind: "c06.direct", Payload: directJob{Vecs: vecs[i:j]}, TimeoutMs: 120000})
	}
	var out []map[string]*Out
	for _, jr := range pool.Map(jobs, nil) {
		if jr.Crashed || jr.Timeout || jr.Panic != "" || jr.Err != "" {
			return nil, core.Inconclusivef("direct-API worker failed: err=%s panic=%s crashed=%v timeout=%v\n%s", jr.Err, firstLines(jr.Panic, 3), jr.Crashed, jr.Timeout, tailStr(jr.CrashLog, 1500))
		}
		var r directResult
		if err := jr.Decode(&r); err != nil {
			return nil, err
		}
		out = append(out, r.Outs...)
	}
	if len(out) != len(vecs) {
		return nil, core.Inconclusivef("direct API returned %d results for %d vectors", len(out), len(vecs))
	}
	return out, nil
}

// checkHashes replaces the hash text carried in Detail by the verdict "hash equals the hash of the
// canonical object of the printed value".
func checkHashes(pool *core.Pool, outs []*Out) error {
	seen := map[string]bool{}
	var decs []string
	for _, o := range outs {
		if o.K == "val" && o.Detail != "-" && o.Detail != "" && !seen[o.V] {
			seen[o.V] = true
			decs = append(decs, o.V)
		}
	}
	canon := map[string]string{}
	const chunk = 20000
	var jobs []core.Job
	for i := 0; i < len(decs); i += chunk {
		jobs = append(jobs, core.Job{Kind: "c06.canonhash", Payload: decs[i:min(i+chunk, len(decs))]})
	}
	pos := 0
	for _, jr := range pool.Map(jobs, nil) {
		if jr.Crashed || jr.Timeout || jr.Panic != "" || jr.Err != "" {
			return core.Inconclusivef("canonical hash worker failed: %s %s", jr.Err, firstLines(jr.Panic, 3))
		}
		var hs []string
		if err := jr.Decode(&hs); err != nil {
			return err
		}
		for _, h := range hs {
			canon[decs[pos]] = h
			pos++
		}
	}
	for _, o := range outs {
		if o.K != "val" || o.Detail == "-" || o.Detail == "" {
			continue
		}
		h := strings.TrimSuffix(o.Detail, "u64")
		if h == canon[o.V] {
			o.Detail = ""
		} else {
			o.Canon = false
			o.Detail = fmt.Sprintf("hash %s differs from the hash %s of the canonical object of %s", h, canon[o.V], o.V)
		}
	}
	return nil
}

// ---- big instance: real code -> Apalache ------------------------------------------------------------

type claim struct {
	text string
	vec  Vec
	path string
	out  *Out
}

func recordLit(o *Out, withA2 bool) string {
	canon := "FALSE"
	if o.Canon {
		canon = "TRUE"
	}
	if withA2 {
		return fmt.Sprintf("[k |-> %q, v |-> %s, a2 |-> %s, canon |-> %s]", o.K, o.V, o.A2, canon)
	}
	return fmt.Sprintf("o.k = %q /\\ o.v = %s /\\ o.canon = %s", o.K, o.V, canon)
}

func claimText(dev string, v Vec, o *Out) string {
	d := "{}"
	if dev != "" {
		d = fmt.Sprintf("{%q}", dev)
	}
	call := fmt.Sprintf("I_%s(%s, %s, %s)", v.Op, d, v.A, v.B)
	if o.A2 != "" {
		return call + " = " + recordLit(o, true)
	}
	return "LET o == " + call + " IN " + recordLit(o, false)
}

const bigHeader = `EXTENDS Integers
INSTANCE IntArith WITH WordBits <- 64, K <- 136, MaxShift <- 512
`

func runBig(c *core.Ctx, pool *core.Pool, generic map[string]bool) error {
	vecs := bigVectors(c.Rand, c.Pick(320, 1500)) // each distinct claim is one Apalache run (about 0.6 s idle, several seconds under load)
	c.Logf("big instance: %d operand vectors (boundary pool +-{0,1,2,3,7,10,2^31,2^32,2^62,2^63-1,2^63,2^63+1,2^64,10^30,2^127}+{-1,0,1}, seeded random up to 130 bits)", len(vecs))
	t0 := time.Now()
	direct, err := runDirectAll(pool, vecs)
	if err != nil {
		return err
	}
	var items []Item
	for _, v := range vecs {
		items = append(items, Item{V: v, Path: "T"})
		if generic[v.Op] {
			items = append(items, Item{V: v, Path: "G"})
		}
		items = append(items, Item{V: v, Path: "F"})
	}
	elk, err := RunLiteral(c, pool, items, 150)
	if err != nil {
		return err
	}
	var elkOuts []*Out
	for _, o := range elk {
		elkOuts = append(elkOuts, o)
	}
	if err := checkHashes(pool, elkOuts); err != nil {
		return err
	}
	c.Logf("real runs: direct API + %d Elk evaluations in %.1fs", len(items), time.Since(t0).Seconds())

	// observed outcomes -> claims
	var claims []claim
	var immediate []claim // outcomes the model can never produce (Elk errors, lost lines, changed right operand)
	for i, v := range vecs {
		obs := map[string]*Out{}
		for fam, o := range direct[i] {
			obs[fam] = o
		}
		for _, p := range []string{"T", "G", "F"} {
			if o := elk[fmt.Sprintf("%s %d", p, v.ID)]; o != nil {
				obs[p] = o
			}
		}
		for _, path := range sortedKeys(obs) {
			o := obs[path]
			cl := claim{vec: v, path: path, out: o}
			if o.K == "err" || (o.B2 != "" && o.B2 != v.B && !isUnary(v.Op)) {
				immediate = append(immediate, cl)
				continue
			}
			cl.text = claimText("", v, o)
			claims = append(claims, cl)
		}
		// an observation without the operand (constant folding) is implied by an observation of the
		// same vector with the same result and an unchanged operand: share that claim
		for ci := len(claims) - 1; ci >= 0 && claims[ci].vec.ID == v.ID; ci-- {
			f := &claims[ci]
			if f.out.A2 != "" {
				continue
			}
			for cj := len(claims) - 1; cj >= 0 && claims[cj].vec.ID == v.ID; cj-- {
				w := claims[cj].out
				if w.A2 == v.A && w.K == f.out.K && w.V == f.out.V && w.Canon == f.out.Canon {
					f.text = claims[cj].text
					break
				}
			}
		}
	}
	// distinct claim texts
	idx := map[string]int{}
	var texts []string
	for _, cl := range claims {
		if _, ok := idx[cl.text]; !ok {
			idx[cl.text] = len(texts)
			texts = append(texts, cl.text)
		}
	}
	mod := apa.Module{SpecDir: specDir, Header: bigHeader}
	par := max(1, c.Workers/2)
	t1 := time.Now()
	res, err := apa.Check(mod, c.Scratch, texts, 200, par, 25*time.Minute)
	if err != nil {
		if c.Violations() > 0 {
			// a tool failure must not mask violations that are already established
			c.Note(fmt.Sprintf("Apalache stage not completed (%v); verdict rests on the violations found before it", err))
			return nil
		}
		return core.Inconclusivef("Apalache: %v", err)
	}
	bad := 0
	for _, ok := range res.Verdicts {
		if !ok {
			bad++
		}
	}
	c.Logf("Apalache: %d distinct claims (from %d observations) against IntArith with Deviations={} in %.1fs: %d rejected", len(texts), len(claims), time.Since(t1).Seconds(), bad)
	c.CovAdd("apalache_claims", len(texts))
	c.CovAdd("traces_validated_against_impl", len(claims)+len(immediate))

	// explain rejected claims by single named deviations
	type rej struct {
		cl   claim
		devs []string
	}
	var rejected []*rej
	rejIdx := map[string]*rej{}
	for _, cl := range claims {
		if res.Verdicts[idx[cl.text]] {
			continue
		}
		r := &rej{cl: cl}
		rejected = append(rejected, r)
		if cur := rejIdx[cl.text]; cur == nil || (cur.cl.out.A2 == "" && cl.out.A2 != "") {
			rejIdx[cl.text] = r
		}
	}
	if len(rejIdx) > 0 {
		var etexts []string
		type ek struct {
			base string
			dev  string
		}
		var ekeys []ek
		var bases []string
		for t := range rejIdx {
			bases = append(bases, t)
		}
		sort.Strings(bases)
		for _, t := range bases {
			for _, d := range devsOf(rejIdx[t].cl.vec.Op) {
				etexts = append(etexts, claimText(d, rejIdx[t].cl.vec, rejIdx[t].cl.out))
				ekeys = append(ekeys, ek{t, d})
			}
		}
		eres, err := apa.Check(mod, c.Scratch, etexts, 200, par, 25*time.Minute)
		if err != nil {
			return core.Inconclusivef("Apalache (explanation run): %v", err)
		}
		expl := map[string][]string{}
		for i, ok := range eres.Verdicts {
			if ok {
				expl[ekeys[i].base] = append(expl[ekeys[i].base], ekeys[i].dev)
			}
		}
		for _, r := range rejected {
			r.devs = expl[r.cl.text]
		}
		c.CovAdd("apalache_claims", len(etexts))
	}
	for _, r := range rejected {
		viol := map[string]any{
			"kind": "rejected_by_spec", "instance": "big", "op": r.cl.vec.Op, "a": r.cl.vec.A, "b": r.cl.vec.B, "path": r.cl.path,
			"observed": r.cl.out, "claim": r.cl.text,
		}
		if r.cl.out.K == "panic" {
			viol["kind"] = "go_panic"
		}
		if len(r.devs) > 0 {
			viol["deviation"] = r.devs[0]
		}
		viol["summary"] = summary(viol)
		c.Violation(viol)
	}
	for _, cl := range immediate {
		viol := map[string]any{
			"kind": "error", "instance": "big", "op": cl.vec.Op, "a": cl.vec.A, "b": cl.vec.B, "path": cl.path, "observed": cl.out,
		}
		viol["summary"] = summary(viol)
		c.Violation(viol)
	}
	accepted := 0
	for _, cl := range claims {
		if res.Verdicts[idx[cl.text]] {
			accepted++
			if accepted%2003 == 1 {
				c.Sample(map[string]any{"instance": "big", "op": cl.vec.Op, "a": cl.vec.A, "b": cl.vec.B, "path": pathName[cl.path], "accepted_claim": cl.text})
			}
		}
	}
	c.CovAdd("big_instance_accepted", accepted)
	c.Logf("big instance: %d observations accepted by the specification, %d rejected, %d impossible outcomes; violations so far %d", accepted, len(rejected), len(immediate), c.Violations())
	return nil
}

func summary(v map[string]any) string {
	o, _ := v["observed"].(*Out)
	s := fmt.Sprintf("%v %v %v on path %v (%v): ", v["a"], v["op"], v["b"], v["path"], v["kind"])
	if o != nil {
		s += fmt.Sprintf("real = %s %s", o.K, o.V)
		if o.A2 != "" {
			s += " left operand afterwards " + o.A2
		}
		if !o.Canon {
			s += " (not canonical)"
		}
		if o.Detail != "" {
			s += " [" + firstLines(o.Detail, 1) + "]"
		}
	}
	if e, ok := v["expected"].(map[string]any); ok {
		s += fmt.Sprintf("; spec = %v %v", e["k"], e["v"])
	}
	if d, ok := v["deviation"]; ok {
		s += fmt.Sprintf("; explained by deviation %v", d)
	}
	return s
}

func sortedKeys(m map[string]*Out) []string {
	var ks []string
	for k := range m {
		ks = append(ks, k)
	}
	sort.Strings(ks)
	return ks
}

func tailStr(s string, n int) string {
	if len(s) <= n {
		return s
	}
	return s[len(s)-n:]
}
