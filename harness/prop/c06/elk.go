package c06

import (
	"fmt"
	"sort"
	"strings"

	"elkverif/internal/core"
	"elkverif/internal/elkrun"
)

// Elk spelling of the model's operators.
var elkOp = map[string]string{
	"add": "+", "sub": "-", "mul": "*", "div": "/", "mod": "%", "pow": "**", "shl": "<<", "shr": ">>",
	"and": "&", "or": "|", "xor": "^", "andnot": "&~", "cmp": "<=>", "eq": "==", "ne": "!=",
	"lt": "<", "le": "<=", "gt": ">", "ge": ">=", "neg": "-", "not": "~",
}

var OpOrder = []string{"add", "sub", "mul", "div", "mod", "pow", "shl", "shr", "and", "or", "xor", "andnot",
	"cmp", "eq", "ne", "lt", "le", "gt", "ge", "neg", "not"}

func isUnary(op string) bool { return op == "neg" || op == "not" }

// prelude: hs prints the hash of an Int result ("-" for booleans).
const prelude = `def hs(v: any): String
  if v <: Int
    return "#{v.hash}"
  end
  "-"
end
`

// Paths through the real checker+compiler+VM:
//
//	T  typed opcode: operands are parameters of static type Int (ADD_INT, DIVIDE_INT, ...)
//	G  generic opcode: operands have a union type, so the compiler emits the dynamically dispatched opcode
//	F  constant folding: both operands are literals, the compiler evaluates the expression (compiler/resolve.go)
func genericTypes(op string) (string, string) {
	switch op {
	case "shl", "shr":
		return "Int | Int8", "Int"
	case "and", "or", "xor", "andnot", "not":
		return "Int | Int8", "Int | Int8"
	}
	return "Int | Float", "Int | Float"
}

func methodSrc(path, op string) string {
	ta, tb := "Int", "Int"
	if path == "G" {
		ta, tb = genericTypes(op)
	}
	expr := "a " + elkOp[op] + " b"
	if isUnary(op) {
		expr = elkOp[op] + "a"
	}
	name := strings.ToLower(path) + "_" + op
	return fmt.Sprintf("def %s(i: Int, a: %s, b: %s)\n  r := %s\n  println \"%s #{i} #{r} #{hs(r)} #{a} #{b}\"\nend\n", name, ta, tb, expr, path)
}

// lit writes an integer literal. -2^63 is written as a subtraction: the literal -9223372036854775808
// is itself evaluated as the negation of a big integer (and is not normalised, see the known finding).
func lit(dec string) string {
	if dec == "-9223372036854775808" {
		return "(-9223372036854775807 - 1)"
	}
	if strings.HasPrefix(dec, "-") {
		return "(" + dec + ")"
	}
	return dec
}

func foldedExpr(v Vec) string {
	if isUnary(v.Op) {
		return "(" + elkOp[v.Op] + lit(v.A) + ")"
	}
	return "(" + lit(v.A) + " " + elkOp[v.Op] + " " + lit(v.B) + ")"
}

// Item is one (vector, path) evaluation.
type Item struct {
	V    Vec
	Path string // T | G | F
}

func (it Item) key() string { return fmt.Sprintf("%s %d", it.Path, it.V.ID) }

func literalProgram(items []Item) string {
	var sb strings.Builder
	sb.WriteString(prelude)
	need := map[string]bool{}
	for _, it := range items {
		if it.Path != "F" {
			need[it.Path+" "+it.V.Op] = true
		}
	}
	var ms []string
	for k := range need {
		ms = append(ms, k)
	}
	sort.Strings(ms)
	for _, k := range ms {
		p := strings.SplitN(k, " ", 2)
		sb.WriteString(methodSrc(p[0], p[1]))
	}
	for _, it := range items {
		switch it.Path {
		case "F":
			e := foldedExpr(it.V)
			fmt.Fprintf(&sb, "println \"F %d #{%s} #{hs(%s)}\"\n", it.V.ID, e, e)
		default:
			b := it.V.B
			if isUnary(it.V.Op) {
				b = "0"
			}
			fmt.Fprintf(&sb, "%s_%s(%d, %s, %s)\n", strings.ToLower(it.Path), it.V.Op, it.V.ID, lit(it.V.A), lit(b))
		}
	}
	return sb.String()
}

// parseLines reads the observation lines of a program: "P id r hash a b" / "F id r hash".
// The hash is kept in Detail until it has been compared with the canonical hash.
func parseLines(stdout string, into map[string]*Out) {
	for _, line := range strings.Split(stdout, "\n") {
		f := strings.Fields(line)
		if len(f) < 4 || (f[0] != "T" && f[0] != "G" && f[0] != "F") {
			continue
		}
		o := &Out{K: "val", V: f[2], Canon: true, Detail: strings.Trim(f[3], `"`)}
		switch f[2] {
		case "true":
			o.V = "1"
		case "false":
			o.V = "0"
		}
		if len(f) >= 6 {
			o.A2, o.B2 = f[4], f[5]
		}
		into[f[0]+" "+f[1]] = o
	}
}

// RunLiteral evaluates the items through literal-operand programs, batch items per source file. A batch
// that dies (Elk error, Go panic, hang) is split, so every failure is attributed to one item.
func RunLiteral(c *core.Ctx, pool *core.Pool, items []Item, batch int) (map[string]*Out, error) {
	out := map[string]*Out{}
	var groups [][]Item
	for i := 0; i < len(items); i += batch {
		j := i + batch
		if j > len(items) {
			j = len(items)
		}
		groups = append(groups, items[i:j])
	}
	for round := 0; len(groups) > 0 && round < 12; round++ {
		var jobs []core.Job
		for _, g := range groups {
			jobs = append(jobs, core.Job{Kind: "elk", Payload: elkrun.Job{Src: literalProgram(g), RunMs: 20000}, TimeoutMs: 60000})
		}
		results := pool.Map(jobs, nil)
		var next [][]Item
		for gi, jr := range results {
			g := groups[gi]
			var r elkrun.Result
			switch {
			case jr.Crashed:
				r.GoPanic = "worker process died:\n" + jr.CrashLog
			case jr.Timeout:
				r.Hung = true
			case jr.Panic != "":
				r.GoPanic = jr.Panic
			case jr.Err != "":
				return nil, core.Inconclusivef("worker problem: %s", jr.Err)
			default:
				if err := jr.Decode(&r); err != nil {
					return nil, core.Inconclusivef("worker result: %v", err)
				}
			}
			if !r.Accepted && r.GoPanic == "" && !r.Hung {
				return nil, core.Inconclusivef("generated program rejected by the checker: %s\n%s", firstLines(r.Diags, 3), firstLines(literalProgram(g), 40))
			}
			got := map[string]*Out{}
			parseLines(r.Stdout, got)
			failed := r.GoPanic != "" || r.Hung || r.ErrClass != ""
			var missing []Item
			for _, it := range g {
				if o := got[it.key()]; o != nil {
					out[it.key()] = o
				} else {
					missing = append(missing, it)
				}
			}
			if len(missing) == 0 {
				continue
			}
			if len(g) == 1 {
				o := &Out{K: "err", V: "0", Canon: true}
				switch {
				case r.GoPanic != "":
					o.K = "panic"
					o.Detail = "Go panic (" + r.PanicStage + "): " + firstLines(r.GoPanic, 1)
				case r.Hung:
					o.Detail = "hang"
				case r.ErrClass != "":
					o.Detail = r.ErrClass + ": " + r.ErrMsg
				default:
					o.Detail = "no output line"
				}
				out[g[0].key()] = o
				continue
			}
			if !failed {
				// lines lost without any failure: re-run those items alone
				for _, it := range missing {
					next = append(next, []Item{it})
				}
				continue
			}
			// the first missing item is the one that died; isolate it, re-run the rest together
			next = append(next, []Item{missing[0]})
			if len(missing) > 1 {
				rest := missing[1:]
				half := (len(rest) + 1) / 2
				next = append(next, rest[:half])
				if half < len(rest) {
					next = append(next, rest[half:])
				}
			}
		}
		groups = next
	}
	if len(groups) > 0 {
		return nil, core.Inconclusivef("could not isolate failing items after 12 rounds")
	}
	return out, nil
}

// loopProgram evaluates one operator on every operand pair of lo..hi on the T or G path; ids are
// (a-lo)*n + (b-lo).
func loopProgram(path, op string, lo, hi int, guard string) string {
	var sb strings.Builder
	sb.WriteString(prelude)
	sb.WriteString(methodSrc(path, op))
	n := hi - lo + 1
	fmt.Fprintf(&sb, "for a in %d...%d\n  for b in %d...%d\n", lo, hi, lo, hi)
	if guard != "" {
		fmt.Fprintf(&sb, "    if %s\n  ", guard)
	}
	fmt.Fprintf(&sb, "    %s_%s((a - (%d)) * %d + (b - (%d)), a, b)\n", strings.ToLower(path), op, lo, n, lo)
	if guard != "" {
		sb.WriteString("    end\n")
	}
	sb.WriteString("  end\nend\n")
	return sb.String()
}

func firstLines(s string, n int) string {
	l := strings.SplitN(s, "\n", n+1)
	if len(l) > n {
		l = l[:n]
	}
	return strings.Join(l, "\n")
}
