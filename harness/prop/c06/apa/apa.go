// Package apa discharges closed claims about recorded behaviour with Apalache: the claims become the
// elements of one Seq(Bool) state variable of a generated module that instantiates the
// specification, `apalache-mc check --length=0` evaluates them symbolically (unbounded integers),
// and the per-claim verdicts are read back from the counterexample (ITF) of the invariant
// "every element is TRUE".
package apa

import (
	"context"
	"encoding/json"
	"fmt"
	"os"
	"os/exec"
	"path/filepath"
	"strings"
	"sync"
	"time"
)

const Bin = "/usr/local/bin/apalache-mc"

// Module describes the generated module: Header is everything between the module line and the claim
// sequence (EXTENDS/INSTANCE lines, constant definitions).
type Module struct {
	SpecDir string // directory with the specification modules (copied next to the generated one)
	Header  string
}

type Result struct {
	Verdicts []bool // one per claim
	WallS    float64
}

// Check evaluates the claims (TLA+ Boolean expressions, closed) in shards of shardSize on up to par
// Apalache processes. An Apalache failure (parse/type error, timeout) is returned as error.
func Check(m Module, scratch string, claims []string, shardSize, par int, timeout time.Duration) (*Result, error) {
	start := time.Now()
	res := &Result{Verdicts: make([]bool, len(claims))}
	if len(claims) == 0 {
		return res, nil
	}
	type shard struct{ lo, hi int }
	var shards []shard
	for i := 0; i < len(claims); i += shardSize {
		j := i + shardSize
		if j > len(claims) {
			j = len(claims)
		}
		shards = append(shards, shard{i, j})
	}
	if par < 1 {
		par = 1
	}
	parent, cancelAll := context.WithCancel(context.Background())
	defer cancelAll()
	sem := make(chan struct{}, par)
	var wg sync.WaitGroup
	var mu sync.Mutex
	var firstErr error
	for si, sh := range shards {
		wg.Add(1)
		sem <- struct{}{}
		go func(si int, sh shard) {
			defer wg.Done()
			defer func() { <-sem }()
			if parent.Err() != nil {
				return
			}
			v, err := runShard(parent, m, scratch, si, claims[sh.lo:sh.hi], timeout)
			mu.Lock()
			defer mu.Unlock()
			if err != nil {
				if firstErr == nil {
					firstErr = err
					cancelAll()
				}
				return
			}
			copy(res.Verdicts[sh.lo:sh.hi], v)
		}(si, sh)
	}
	wg.Wait()
	res.WallS = time.Since(start).Seconds()
	return res, firstErr
}

func runShard(parent context.Context, m Module, scratch string, si int, claims []string, timeout time.Duration) ([]bool, error) {
	dir, err := os.MkdirTemp(scratch, fmt.Sprintf("apa-%d-", si))
	if err != nil {
		return nil, err
	}
	defer os.RemoveAll(dir)
	entries, err := os.ReadDir(m.SpecDir)
	if err != nil {
		return nil, err
	}
	for _, e := range entries {
		if !e.IsDir() && strings.HasSuffix(e.Name(), ".tla") {
			b, err := os.ReadFile(filepath.Join(m.SpecDir, e.Name()))
			if err != nil {
				return nil, err
			}
			if err := os.WriteFile(filepath.Join(dir, e.Name()), b, 0o644); err != nil {
				return nil, err
			}
		}
	}
	var sb strings.Builder
	sb.WriteString("---- MODULE Claims ----\n")
	sb.WriteString(m.Header)
	sb.WriteString("\nVARIABLE\n  \\* @type: Seq(Bool);\n  ok\nInit == ok = <<\n")
	for i, c := range claims {
		if i > 0 {
			sb.WriteString(",\n")
		}
		sb.WriteString("  ")
		sb.WriteString(c)
	}
	sb.WriteString("\n>>\nNext == UNCHANGED ok\nAllTrue == \\A i \\in DOMAIN ok : ok[i]\n====\n")
	if err := os.WriteFile(filepath.Join(dir, "Claims.tla"), []byte(sb.String()), 0o644); err != nil {
		return nil, err
	}
	ctx, cancel := context.WithTimeout(parent, timeout)
	defer cancel()
	cmd := exec.CommandContext(ctx, Bin, "check", "--length=0", "--inv=AllTrue", "--out-dir="+filepath.Join(dir, "out"), "Claims.tla")
	cmd.Dir = dir
	cmd.Env = append(os.Environ(), "JVM_ARGS=-Xmx3g", "TMPDIR="+dir)
	out, runErr := cmd.CombinedOutput()
	if parent.Err() != nil {
		return nil, fmt.Errorf("cancelled")
	}
	if ctx.Err() == context.DeadlineExceeded {
		return nil, fmt.Errorf("apalache timed out after %s on a shard of %d claims", timeout, len(claims))
	}
	text := string(out)
	verdicts := make([]bool, len(claims))
	switch {
	case strings.Contains(text, "The outcome is: NoError"):
		for i := range verdicts {
			verdicts[i] = true
		}
		return verdicts, nil
	case strings.Contains(text, "The outcome is: Error"):
		files, _ := filepath.Glob(filepath.Join(dir, "out", "*", "*", "violation1.itf.json"))
		if len(files) == 0 {
			files, _ = filepath.Glob(filepath.Join(dir, "out", "*", "*", "violation.itf.json"))
		}
		if len(files) == 0 {
			return nil, fmt.Errorf("apalache reported an error but wrote no counterexample:\n%s", tail(text, 1500))
		}
		b, err := os.ReadFile(files[0])
		if err != nil {
			return nil, err
		}
		var itf struct {
			States []struct {
				OK []bool `json:"ok"`
			} `json:"states"`
		}
		if err := json.Unmarshal(b, &itf); err != nil {
			return nil, fmt.Errorf("bad ITF trace: %v", err)
		}
		if len(itf.States) == 0 || len(itf.States[0].OK) != len(claims) {
			return nil, fmt.Errorf("ITF trace has %d states / wrong claim count", len(itf.States))
		}
		copy(verdicts, itf.States[0].OK)
		return verdicts, nil
	default:
		return nil, fmt.Errorf("apalache failed (%v):\n%s", runErr, tail(text, 2500))
	}
}

func tail(s string, n int) string {
	if len(s) <= n {
		return s
	}
	return s[len(s)-n:]
}
