package c06

import (
	"encoding/json"
	"fmt"
	"math/big"
	"runtime/debug"
	"strings"

	"github.com/elk-language/elk/value"

	"elkverif/internal/core"
	"elkverif/internal/elkrun"
)

// Vec is one operand vector: operator and operands as decimal strings (unary operators ignore B).
type Vec struct {
	ID int    `json:"id"`
	Op string `json:"op"`
	A  string `json:"a"`
	B  string `json:"b"`
}

// Out is the observed outcome of one operation on the real code, projected onto the model's outcome
// record [k, v, a2, canon].
type Out struct {
	K      string `json:"k"`            // val | panic | err
	V      string `json:"v"`            // decimal; 1/0 for booleans
	A2     string `json:"a2,omitempty"` // left operand after the operation ("" = not observable on this path)
	B2     string `json:"b2,omitempty"` // right operand after the operation
	Canon  bool   `json:"canon"`        // the result is indistinguishable from the canonical object of its value
	Detail string `json:"detail,omitempty"`
}

type directJob struct {
	Vecs []Vec `json:"vecs"`
}

// directResult: per vector, outcome per entry-point family ("val": value.XxxVal as used by the generic
// opcodes, the typed opcodes after dispatch and constant folding; "ints": value.XxxInts as used by
// the native Int methods).
type directResult struct {
	Outs []map[string]*Out `json:"outs"`
}

func init() {
	core.RegisterJob("c06.direct", func(p json.RawMessage) (any, error) {
		var j directJob
		if err := json.Unmarshal(p, &j); err != nil {
			return nil, err
		}
		elkrun.Setup()
		res := &directResult{}
		for _, v := range j.Vecs {
			m := map[string]*Out{}
			for _, fam := range []string{"val", "ints"} {
				if o := runDirect(fam, v); o != nil {
					m[fam] = o
				}
			}
			res.Outs = append(res.Outs, m)
		}
		return res, nil
	})
	core.RegisterJob("c06.canonhash", func(p json.RawMessage) (any, error) {
		var decs []string
		if err := json.Unmarshal(p, &decs); err != nil {
			return nil, err
		}
		out := make([]string, len(decs))
		for i, d := range decs {
			h, _ := value.Hash(Canonical(d))
			out[i] = fmt.Sprintf("%d", uint64(h))
		}
		return out, nil
	})
}

// Canonical builds the canonical Int object of a decimal string: a machine word when it fits,
// a big integer otherwise. This is the harness' only way of creating operands, so that what is
// tested is the operators, not the construction.
func Canonical(dec string) value.Value {
	z, ok := new(big.Int).SetString(dec, 10)
	if !ok {
		panic("bad decimal " + dec)
	}
	if z.IsInt64() {
		return value.SmallInt(z.Int64()).ToValue()
	}
	return value.Ref(value.ToElkBigInt(z))
}

// decOf reads back the integer held by an Int object, whatever its representation.
func decOf(v value.Value) (string, bool) {
	if v.IsSmallInt() {
		return fmt.Sprintf("%d", int64(v.AsSmallInt())), true
	}
	if v.IsReference() {
		if b, ok := v.AsReference().(*value.BigInt); ok {
			return b.ToGoBigInt().String(), true
		}
	}
	return "", false
}

type binVal func(l, r value.Value) (value.Value, value.Value)

func noErr(f func(l, r value.Value) value.Value) binVal {
	return func(l, r value.Value) (value.Value, value.Value) { return f(l, r), value.Undefined }
}
func boolFn(f func(l, r value.Value) bool) binVal {
	return func(l, r value.Value) (value.Value, value.Value) { return value.BoolVal(f(l, r)), value.Undefined }
}
func unary(f func(o value.Value) value.Value) binVal {
	return func(l, r value.Value) (value.Value, value.Value) { return f(l), value.Undefined }
}

var families = map[string]map[string]binVal{
	"val": {
		"add": value.AddVal, "sub": value.SubtractVal, "mul": value.MultiplyVal, "div": value.DivideVal,
		"mod": value.ModuloVal, "pow": value.ExponentiateVal, "shl": value.LeftBitshiftVal, "shr": value.RightBitshiftVal,
		"and": value.BitwiseAndVal, "or": value.BitwiseOrVal, "xor": value.BitwiseXorVal, "andnot": value.BitwiseAndNotVal,
		"cmp": value.CompareVal, "eq": noErr(value.EqualVal), "ne": noErr(value.NotEqualVal),
		"lt": value.LessThanVal, "le": value.LessThanEqualVal, "gt": value.GreaterThanVal, "ge": value.GreaterThanEqualVal,
		"neg": unary(value.NegateVal), "not": unary(value.BitwiseNotVal),
	},
	"ints": {
		"add": noErr(value.AddInts), "sub": noErr(value.SubtractInts), "mul": noErr(value.MultiplyInts),
		"div": value.DivideInts, "mod": value.ModuloInts, "pow": noErr(value.ExponentiateInts),
		"shl": noErr(value.LeftBitshiftInts), "shr": noErr(value.RightBitshiftInts),
		"and": noErr(value.BitwiseAndInts), "or": noErr(value.BitwiseOrInts), "xor": noErr(value.BitwiseXorInts),
		"andnot": noErr(value.BitwiseAndNotInts),
		"cmp": func(l, r value.Value) (value.Value, value.Value) {
			return value.CompareInts(l, r).ToValue(), value.Undefined
		},
		"eq": boolFn(value.EqualInts),
		"lt": boolFn(value.LessThanInts), "le": boolFn(value.LessThanEqualInts),
		"gt": boolFn(value.GreaterThanInts), "ge": boolFn(value.GreaterThanEqualInts),
	},
}

func runDirect(fam string, v Vec) (out *Out) {
	f := families[fam][v.Op]
	if f == nil {
		return nil
	}
	l := Canonical(v.A)
	r := Canonical(v.B)
	out = &Out{}
	defer func() {
		if p := recover(); p != nil {
			out.K = "panic"
			out.V = "0"
			out.Canon = true
			out.Detail = fmt.Sprintf("%v\n%s", p, trim(string(debug.Stack()), 1500))
			out.A2, _ = decOf(l)
			out.B2, _ = decOf(r)
		}
	}()
	res, err := f(l, r)
	out.A2, _ = decOf(l)
	out.B2, _ = decOf(r)
	if !err.IsUndefined() {
		cls, msg := elkrun.DescribeError(err)
		out.K = "err"
		out.V = "0"
		out.Canon = true
		out.Detail = cls + ": " + msg
		return out
	}
	out.K = "val"
	describeResult(res, out)
	return out
}

// describeResult fills V and Canon: the result must be THE canonical object of its value
// (representation, ==, hash, inspect all equal to those of Canonical(value)).
func describeResult(res value.Value, out *Out) {
	switch {
	case res.IsUndefined():
		out.K = "err"
		out.V = "0"
		out.Canon = true
		out.Detail = "no builtin implementation (undefined result)"
		return
	case res.IsTrue():
		out.V, out.Canon = "1", true
		return
	case res.IsFalse():
		out.V, out.Canon = "0", true
		return
	}
	dec, ok := decOf(res)
	if !ok {
		out.K = "err"
		out.V = "0"
		out.Canon = true
		out.Detail = "result is not an Int: " + res.Inspect()
		return
	}
	out.V = dec
	canon := Canonical(dec)
	var why []string
	if canon.IsSmallInt() != res.IsSmallInt() {
		why = append(why, "representation")
	}
	h1, _ := value.Hash(res)
	h2, _ := value.Hash(canon)
	if h1 != h2 {
		why = append(why, "hash")
	}
	if !value.Truthy(value.EqualVal(res, canon)) || !value.Truthy(value.EqualVal(canon, res)) {
		why = append(why, "==")
	}
	if res.Inspect() != dec || canon.Inspect() != dec {
		why = append(why, "inspect")
	}
	out.Canon = len(why) == 0
	if !out.Canon {
		out.Detail = "differs from the canonical object in: " + strings.Join(why, ", ")
	}
}

func trim(s string, n int) string {
	if len(s) > n {
		return s[:n]
	}
	return s
}
