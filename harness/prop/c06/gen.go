package c06

import (
	"math/big"
	"math/rand"
)

// Operand pool on both sides of the 32/64/128-bit boundaries (DESIGN §4 C06).
func boundaryPool() []*big.Int {
	p2 := func(k uint) *big.Int { return new(big.Int).Lsh(big.NewInt(1), k) }
	base := []*big.Int{big.NewInt(0), big.NewInt(1), big.NewInt(2), big.NewInt(3), big.NewInt(7), big.NewInt(10),
		p2(31), p2(32), p2(62), new(big.Int).Sub(p2(63), big.NewInt(1)), p2(63), new(big.Int).Add(p2(63), big.NewInt(1)),
		p2(64), new(big.Int).Exp(big.NewInt(10), big.NewInt(30), nil), p2(127)}
	seen := map[string]bool{}
	var out []*big.Int
	for _, b := range base {
		for _, s := range []int64{1, -1} {
			for _, d := range []int64{-1, 0, 1} {
				v := new(big.Int).Mul(b, big.NewInt(s))
				v.Add(v, big.NewInt(d))
				if !seen[v.String()] {
					seen[v.String()] = true
					out = append(out, v)
				}
			}
		}
	}
	return out
}

func randInt(rng *rand.Rand, maxBits int) *big.Int {
	bits := 1 + rng.Intn(maxBits)
	v := new(big.Int).Rand(rng, new(big.Int).Lsh(big.NewInt(1), uint(bits)))
	if rng.Intn(2) == 0 {
		v.Neg(v)
	}
	return v
}

var shiftCounts = []string{"0", "1", "2", "3", "31", "32", "33", "62", "63", "64", "65", "66", "70", "100", "127", "128", "200",
	"-1", "-2", "-3", "-31", "-32", "-62", "-63", "-64", "-65", "-70", "-100", "-128"}

// Witnesses: one fixed vector per deviation named in the specification, so that every run shows
// whether the recorded defects are still there.
var witnesses = []Vec{
	{Op: "div", A: "-7", B: "1000000000000000000000000000000"},
	{Op: "div", A: "-1000000000000000000000000000007", B: "10"},
	{Op: "shr", A: "1000000000000000000000000000000", B: "3"},
	{Op: "shl", A: "1000000000000000000000000000000", B: "3"},
	{Op: "shl", A: "1000000000000000000000000000000", B: "-1"},
	{Op: "shr", A: "-1", B: "18446744073709551616"},
	{Op: "shr", A: "-1000000000000000000000000000000", B: "18446744073709551616"},
	{Op: "shl", A: "0", B: "70"},
	{Op: "shl", A: "1", B: "64"},
	{Op: "neg", A: "9223372036854775808", B: "0"},
	{Op: "mod", A: "-9223372036854775808", B: "9223372036854775808"},
}

// edgeVectors: every pair over the 64-bit edge values for the arithmetic operators and negation. The
// overflow checks of the machine-word fast paths are decided by single operand pairs (e.g.
// -2^63 * -1, -2^63 / -1), which a random draw from the pool practically never hits.
func edgeVectors() []Vec {
	p63 := new(big.Int).Lsh(big.NewInt(1), 63)
	var edge []*big.Int
	for _, d := range []int64{-1, 0, 1} {
		edge = append(edge, new(big.Int).Add(p63, big.NewInt(d)), new(big.Int).Add(new(big.Int).Neg(p63), big.NewInt(d)))
	}
	edge = append(edge, big.NewInt(-2), big.NewInt(-1), big.NewInt(0), big.NewInt(1), big.NewInt(2))
	var out []Vec
	for _, a := range edge {
		out = append(out, Vec{Op: "neg", A: a.String(), B: "0"})
		for _, b := range edge {
			for _, op := range []string{"add", "sub", "mul", "div", "mod"} {
				if (op == "div" || op == "mod") && b.Sign() == 0 {
					continue
				}
				out = append(out, Vec{Op: op, A: a.String(), B: b.String()})
			}
		}
	}
	return out
}

// bigVectors draws n operand vectors for the unbounded-integer part (seeded).
func bigVectors(rng *rand.Rand, n int) []Vec {
	pool := boundaryPool()
	pick := func() *big.Int {
		if rng.Intn(3) == 0 {
			return randInt(rng, 130)
		}
		return pool[rng.Intn(len(pool))]
	}
	var out []Vec
	out = append(out, witnesses...)
	edges := edgeVectors()
	out = append(out, edges...)
	n += len(edges)
	for len(out) < n {
		op := OpOrder[rng.Intn(len(OpOrder))]
		a, b := pick(), pick()
		switch op {
		case "div", "mod":
			if b.Sign() == 0 {
				continue
			}
			switch rng.Intn(4) {
			case 0: // exact multiple
				q := randInt(rng, 70)
				a = new(big.Int).Mul(b, q)
			case 1: // multiple plus a small remainder of either sign
				q := randInt(rng, 70)
				a = new(big.Int).Mul(b, q)
				a.Add(a, big.NewInt(int64(rng.Intn(7)-3)))
			}
			if a.BitLen() > 134 {
				continue
			}
		case "pow":
			e := rng.Intn(8)
			if a.BitLen() <= 2 {
				e = rng.Intn(131)
			}
			if a.BitLen()*e > 400 {
				continue
			}
			b = big.NewInt(int64(e))
		case "shl", "shr":
			switch rng.Intn(12) {
			case 0: // a count that is not a machine word, in the direction that is defined
				b = new(big.Int).Lsh(big.NewInt(1), 64)
				if op == "shl" {
					b.Neg(b)
				}
			case 1:
				b = new(big.Int).Lsh(big.NewInt(1), 63)
				if op == "shl" {
					b.Neg(b)
					b.Sub(b, big.NewInt(1))
				}
			default:
				b, _ = new(big.Int).SetString(shiftCounts[rng.Intn(len(shiftCounts))], 10)
			}
		case "neg", "not":
			b = big.NewInt(0)
		}
		out = append(out, Vec{Op: op, A: a.String(), B: b.String()})
	}
	for i := range out {
		out[i].ID = i + 1
	}
	return out
}
