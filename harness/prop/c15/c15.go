// Package c15: generators and async functions preserve the semantics of their body.
// Three families over spec/ElkCore:
//   (1) yield-free bodies (the nesting chains of C14, every exit kind) wrapped as a plain method, as a
//       generator whose only value is the body's result, and as an async method whose promise is
//       awaited: the machine predicts the same value/error for all three, the real VM must agree;
//   (2) generator bodies with a yield at every level of the chain, consumed by explicit `next` calls
//       until (and beyond) the end, by `for in`, and abandoned half way;
//   (3) bodies with locals assigned from calls (the shape of the property's example).
// The settlement half (every promise settles exactly once under any interleaving) is decided by
// spec/Async and the gate replay of C16, which counts settle events per promise.
package c15

import (
	"fmt"

	"elkverif/internal/core"
	. "elkverif/internal/elkcore"
	"elkverif/internal/elkrun"
	"elkverif/prop/c14"
)

func init() {
	core.Register(&core.Check{ID: "C15", Level: "model_checking", Run: run})
}

// positions usable inside a generator/async body without tripping over the recorded C14 defects
// (abrupt exits from catch handlers and finally blocks entered by a throw belong to C14)
var bodyPositions = []string{"loop", "while", "until", "forin", "fornum", "try_cf", "try_f", "try_c", "fin", "if"}

func chains(depth int) [][]string {
	if depth == 0 {
		return [][]string{{}}
	}
	var out [][]string
	for _, rest := range chains(depth - 1) {
		for _, p := range bodyPositions {
			out = append(out, append([]string{p}, rest...))
		}
	}
	return out
}

// consume prints every value of generator variable g until stop_iteration, then calls next once more
func consume(g string, uniq string, extra bool) L {
	v := "v_" + uniq
	out := B(Loop("", B(
		Let(v, "Int", Int(0)),
		Try(B(Next(v, g), Print(Var(v))), L{CatchSym(4, B(Print(Sym(4)), Break("")))}, false, nil),
	)))
	if extra {
		out = append(out, Let(v+"x", "Int", Int(0)), Try(B(Next(v+"x", g), Print(Var(v+"x"))), L{CatchSym(4, B(Print(Sym(4))))}, false, nil))
	}
	return out
}

// wrap3 builds the three wrappings of one yield-free body.
func wrap3(id int, chain []string, ex c14.Exit) M {
	mk := func() L {
		p := c14.Spine(0, chain, ex)
		return p["defs"].(M)["main_"].(M)["body"].(L)
	}
	catchAll := func(tag int, b L) M {
		return Try(b, L{CatchAny(fmt.Sprintf("e%d", tag), B(Print(Int(-tag)), Print(Var(fmt.Sprintf("e%d", tag)))))}, false, nil)
	}
	defs := map[string]M{
		"plain": Def(nil, "Int", false, mk()),
		"genr":  Def(nil, "Int", true, mk()),
		"asyn":  AsyncDef(nil, "Int", mk()),
	}
	main := B(
		Let("r1", "Int", Int(0)), catchAll(1, B(Call("r1", "plain"), Print(Var("r1")))),
		catchAll(2, B(Gen("g", "genr"), Let("r2", "Int", Int(0)), Next("r2", "g"), Print(Var("r2")))),
		Let("r3", "Int", Int(0)), catchAll(3, B(ACall("r3", "asyn"), Print(Var("r3")))),
		Return(Int(0)),
	)
	defs["main_"] = Def(nil, "Int", false, main)
	p := Prog(id, defs)
	p["desc"] = fmt.Sprintf("plain/generator/async of %v exit=%s/%d", chain, ex.Kind, ex.Level)
	p["tags"] = ""
	return p
}

// yielding turns the prints of a chain body into yields and consumes the generator.
func yielding(id int, chain []string, ex c14.Exit, mode string) M {
	p0 := c14.Spine(0, chain, ex)
	body := p0["defs"].(M)["main_"].(M)["body"].(L)
	body = toYields(body)
	defs := map[string]M{"genr": Def(nil, "Int", true, body)}
	var main L
	switch mode {
	case "next":
		main = B(Gen("g", "genr"), consume("g", "a", true))
	case "forin":
		main = B(ForGen("", "w", "genr", L{}, B(Print(Var("w"))), "f"))
	case "abandon":
		main = B(Gen("g", "genr"), Let("a1", "Int", Int(0)),
			Try(B(Next("a1", "g"), Print(Var("a1")), Next("a1", "g"), Print(Var("a1"))), L{CatchSym(4, B(Print(Sym(4))))}, false, nil),
			Gen("h", "genr"), consume("h", "b", false))
	}
	main = B(Try(main, L{CatchAny("err", B(Print(Int(-9)), Print(Var("err"))))}, false, nil), Return(Int(0)))
	defs["main_"] = Def(nil, "Int", false, main)
	p := Prog(id, defs)
	p["desc"] = fmt.Sprintf("generator(%s) yielding at every level of %v exit=%s/%d", mode, chain, ex.Kind, ex.Level)
	p["tags"] = ""
	return p
}

// toYields replaces `o(n)` statements by `yield n` (recursively), leaving defers alone.
func toYields(b L) L {
	out := L{}
	for _, s := range b {
		m := s.(M)
		n := M{}
		for k, v := range m {
			n[k] = v
		}
		switch m["k"] {
		case "print":
			n = Yield(m["e"].(M))
		case "defer":
			continue // a defer inside a generator body is outside this family
		case "if":
			n["a"] = toYields(m["a"].(L))
			n["b"] = toYields(m["b"].(L))
		case "loop":
			n["body"] = toYields(m["body"].(L))
		case "try":
			n["body"] = toYields(m["body"].(L))
			n["fin"] = toYields(m["fin"].(L))
			cs := L{}
			for _, c := range m["catches"].(L) {
				cm := c.(M)
				cs = append(cs, M{"pat": cm["pat"], "body": toYields(cm["body"].(L))})
			}
			n["catches"] = cs
		}
		out = append(out, n)
	}
	return out
}

// localsFromCalls is the shape of the property's example: locals assigned from method calls inside
// generator and async bodies, used after a yield / an await.
func localsFromCalls(id int, k int) M {
	defs := map[string]M{
		"leaf": Def([]string{"n"}, "Int", false, B(Return(Bin("+", Var("n"), Int(1))))),
	}
	gb := B(CallDecl("p", "leaf", Int(k)), Yield(Var("p")), CallDecl("q", "leaf", Var("p")), Yield(Bin("+", Var("p"), Var("q"))),
		Let("z", "Int", Bin("*", Var("q"), Int(2))), Return(Var("z")))
	ab := B(CallDecl("p", "leaf", Int(k)), CallDecl("q", "leaf", Var("p")), Return(Bin("+", Var("p"), Var("q"))))
	defs["genr"] = Def(nil, "Int", true, gb)
	defs["asyn"] = AsyncDef(nil, "Int", ab)
	defs["plain"] = Def(nil, "Int", false, ab)
	main := B(Gen("g", "genr"), consume("g", "a", true),
		Let("r", "Int", Int(0)), ACall("r", "asyn"), Print(Var("r")), Call("r", "plain"), Print(Var("r")), Return(Int(0)))
	defs["main_"] = Def(nil, "Int", false, main)
	p := Prog(id, defs)
	p["desc"] = fmt.Sprintf("locals assigned from calls in generator and async bodies k=%d", k)
	p["tags"] = ""
	return p
}

func exits(chain []string) []c14.Exit {
	loops := 0
	for _, p := range chain {
		switch p {
		case "loop", "while", "until", "forin", "fornum":
			loops++
		}
	}
	ex := []c14.Exit{{Kind: "none"}, {Kind: "return"}, {Kind: "throw_a"}, {Kind: "throw_b"}}
	if loops > 0 {
		ex = append(ex, c14.Exit{Kind: "break"}, c14.Exit{Kind: "continue"}, c14.Exit{Kind: "break", Level: loops}, c14.Exit{Kind: "continue", Level: loops})
	}
	return ex
}

// Corpus builds the C15 program family. depth: chains enumerated completely; nDeeper: sampled one deeper.
// GenDeep: a generator whose body, between two yields, runs a recursion of the given depth (which makes
// a small value stack grow while the generator's frame is live on it) and then writes its locals before
// the next yield: what was written after the growth must be there when the generator is resumed.
func GenDeep(id, depth int) M {
	defs := map[string]M{
		"down": Def([]string{"n"}, "Int", false, B(
			Let("loc", "Int", Bin("*", Var("n"), Int(2))),
			If(Bin("<=", Var("n"), Int(0)), B(Return(Int(0))), L{}),
			CallDecl("r", "down", Bin("-", Var("n"), Int(1))),
			Return(Bin("+", Bin("+", Var("r"), Int(1)), Bin("-", Var("loc"), Var("loc")))))),
		"genr": Def([]string{"seed"}, "Int", true, B(
			Let("a", "Int", Bin("+", Var("seed"), Int(1))), Let("b", "Int", Int(5)),
			Yield(Var("a")),
			CallDecl("d", "down", Int(depth)),
			Set("a", Bin("+", Var("a"), Var("d"))), Set("b", Bin("*", Var("b"), Int(3))), Let("c", "Int", Bin("+", Var("a"), Var("b"))),
			Yield(Var("c")),
			Set("a", Bin("+", Var("a"), Int(1))), Yield(Var("a")), Yield(Var("b")),
			CallDecl("d2", "down", Int(depth/2)),
			Set("c", Bin("+", Var("c"), Var("d2"))), Yield(Var("c")),
			Return(Var("b")))),
	}
	main := B(Gen("g", "genr", Int(1000)), consume("g", "a", true), Gen("h", "genr", Int(2000)), consume("h", "b", false), Return(Int(0)))
	defs["main_"] = Def(nil, "Int", false, main)
	p := Prog(id, defs)
	p["desc"] = fmt.Sprintf("generator whose body runs a recursion of depth %d between yields and writes its locals afterwards", depth)
	p["tags"] = ""
	return p
}

func Corpus(c *core.Ctx, depth, nDeeper, firstID int) []M {
	var progs []M
	id := firstID - 1
	for k := 0; k < 3; k++ {
		id++
		progs = append(progs, localsFromCalls(id, k))
	}
	for _, d := range []int{40, 300, 700} {
		id++
		progs = append(progs, GenDeep(id, d))
	}
	var all [][]string
	for d := 1; d <= depth; d++ {
		all = append(all, chains(d)...)
	}
	deeper := chains(depth + 1)
	for _, i := range c.SampleIdx(len(deeper), nDeeper) {
		all = append(all, deeper[i])
	}
	for _, ch := range all {
		for _, ex := range exits(ch) {
			id++
			progs = append(progs, wrap3(id, ch, ex))
			for _, mode := range []string{"next", "forin", "abandon"} {
				if len(ch) > depth && c.Rand.Intn(3) != 0 {
					continue
				}
				id++
				progs = append(progs, yielding(id, ch, ex, mode))
			}
		}
	}
	return progs
}

func run(c *core.Ctx) error {
	depth := c.Pick(1, 2)
	progs := Corpus(c, depth, c.Pick(40, 600), 1)
	c.Logf("instance: %d programs (plain/generator/async wrappings and yielding generators over chains to depth %d + sampled deeper)", len(progs), depth)
	MaxSteps = 6000
	// a private thread pool per run; pool sizes 1 and 3 (the settlement protocol itself is C16's)
	for _, pool := range []int{1, 3} {
		sub := progs
		if pool != 1 && !c.Thorough() {
			sub = progs[:len(progs)/3]
		}
		if err := RunAndCompareCfg(c, sub, "C14.cfg", 20, &elkrun.Cfg{PoolSize: pool, QueueSize: 4}); err != nil {
			return err
		}
	}
	c.Cov("exhaustive", false)
	return nil
}
