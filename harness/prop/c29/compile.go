package c29

import (
	"fmt"

	"elkverif/internal/core"
)

// Corpus is the result of compiling sources with the real compiler: the distinct functions (by
// content) and where each came from.
type Corpus struct {
	OpNames  []string
	Fns      []*Fn          // distinct functions, ID = index+1
	Origin   map[int]Source // fn ID -> first source it was seen in
	Total    int            // functions before de-duplication
	Accepted int
	Rejected int
	RejNotes []string
	Panics   []map[string]any // compiler/checker Go panics (reported by C01/C03, noted here)
}

// Compile compiles the sources on the worker pool (with or without AdditionalAbortChecks).
func Compile(c *core.Ctx, pool *core.Pool, srcs []Source, abort bool, perJob int) (*Corpus, error) {
	return CompileOpt(c, pool, srcs, abort, perJob, true)
}

// CompileOpt: dedupe=false keeps every function of every source (C33 needs the call graph of each
// source: Fn.VTail is then rewritten from per-source ordinals to function IDs).
func CompileOpt(c *core.Ctx, pool *core.Pool, srcs []Source, abort bool, perJob int, dedupe bool) (*Corpus, error) {
	var jobs []core.Job
	var spans [][2]int
	for i := 0; i < len(srcs); i += perJob {
		j := i + perJob
		if j > len(srcs) {
			j = len(srcs)
		}
		var texts []string
		for _, s := range srcs[i:j] {
			texts = append(texts, s.Text)
		}
		jobs = append(jobs, core.Job{Kind: "c29.export", Payload: ExportJob{Srcs: texts, Abort: abort}, TimeoutMs: 180000})
		spans = append(spans, [2]int{i, j})
	}
	results := pool.Map(jobs, nil)
	cp := &Corpus{Origin: map[int]Source{}}
	seen := map[string]bool{}
	for k, jr := range results {
		if jr.Crashed || jr.Timeout || jr.Panic != "" || jr.Err != "" {
			return nil, core.Inconclusivef("export job %d failed: crashed=%v timeout=%v panic=%s err=%s log=%s", k, jr.Crashed, jr.Timeout, first(jr.Panic, 300), jr.Err, first(jr.CrashLog, 600))
		}
		var er ExportResult
		if err := jr.Decode(&er); err != nil {
			return nil, err
		}
		if cp.OpNames == nil {
			cp.OpNames = er.OpNames
		}
		for si, sr := range er.Srcs {
			src := srcs[spans[k][0]+si]
			switch {
			case sr.GoPanic != "":
				cp.Panics = append(cp.Panics, map[string]any{"desc": src.Desc, "panic": first(sr.GoPanic, 600)})
			case !sr.Accepted:
				cp.Rejected++
				if len(cp.RejNotes) < 3 {
					cp.RejNotes = append(cp.RejNotes, fmt.Sprintf("%s: %s", first(src.Desc, 80), first(sr.Diags, 160)))
				}
			default:
				cp.Accepted++
				ordToID := map[int]int{}
				for _, f := range sr.Fns {
					cp.Total++
					key := hashOf(f)
					if dedupe && seen[key] {
						continue
					}
					seen[key] = true
					f.ID = len(cp.Fns) + 1
					f.Src = spans[k][0] + si
					ordToID[f.Ord] = f.ID
					cp.Fns = append(cp.Fns, f)
					cp.Origin[f.ID] = src
				}
				if !dedupe {
					for _, f := range sr.Fns {
						for i, o := range f.VTail {
							f.VTail[i] = ordToID[o]
						}
					}
				}
			}
		}
	}
	return cp, nil
}

func first(s string, n int) string {
	if len(s) > n {
		return s[:n]
	}
	return s
}
