// Package c29: compiled bytecode is structurally valid (spec/Bytecode).
//
// export.go runs inside worker processes: it compiles Elk sources with the real checker+compiler
// and exports EVERY bytecode function reachable from the result (value pools, call-site records,
// closures, method bodies) as plain data: raw instruction bytes, the KIND of every constant, catch
// entries, and what the real disassembler does with the function (the offsets it visits, its error).
// No opcode knowledge lives here: widths, stack effects and successors are defined by the
// specification only; the byte -> opcode NAME table is read from the real bytecode package.
package c29

import (
	"crypto/sha1"
	"encoding/hex"
	"encoding/json"
	"fmt"
	"io"
	"reflect"
	"runtime/debug"
	"strings"

	"github.com/elk-language/elk"
	"github.com/elk-language/elk/bitfield"
	"github.com/elk-language/elk/bytecode"
	"github.com/elk-language/elk/types/checker"
	"github.com/elk-language/elk/value"
	"github.com/elk-language/elk/vm"

	"elkverif/internal/core"
	"elkverif/internal/elkrun"
)

// Fn is one compiled function as data. Field names are the ones spec/Bytecode reads.
type Fn struct {
	ID      int    `json:"id"`   // assigned by the driver
	Name    string `json:"name"` // function name (diagnostics only)
	Src     int    `json:"src"`  // index of the source it came from (diagnostics only)
	Abort   bool   `json:"abort"`
	Code    []int  `json:"code"`    // instruction bytes
	NParams int    `json:"nparams"` // declared parameters (frame = self + params)
	NUp     int    `json:"nup"`     // UpvalueCount
	VKind   []string `json:"vkind"` // kind of every constant: callsite|bc_callsite|nt_callsite|function|int|select|symbol|other
	VArg    []int  `json:"varg"`    // callsite*: argument count; select: operands popped; function: its UpvalueCount; int: the value (if it fits 0..100000, else -1)
	VBlock  []int  `json:"vblock"`  // nt_callsite: 1 if the native method takes the thread context (context-aware blocking op), filled for C33
	Catches [][]int `json:"catches"` // from, to, jump, finally(0/1)
	DisOff  []int  `json:"disoff"`  // offsets visited by the real DisassembleInstruction loop (in order)
	DisErr  string `json:"diserr"`  // its error / panic ("" = none)
	VName   []string `json:"vname"`   // callsite*: method name (diagnostics and C33)
	Ord     int      `json:"ord"`     // ordinal of the function inside its source (C33 call graph)
	VTail   []int    `json:"vtail"`   // bc_callsite with TailCall: Ord of the callee when it belongs to the same source, else 0
	Callees []string `json:"callees,omitempty"` // names of bc_callsite targets (C33 call graph), index-aligned with constants of kind bc_callsite
}

type ExportJob struct {
	Srcs  []string `json:"srcs"`
	Abort bool     `json:"abort"` // compile with AdditionalAbortChecks
}

type SrcResult struct {
	Accepted bool   `json:"accepted"`
	Diags    string `json:"diags,omitempty"`
	GoPanic  string `json:"go_panic,omitempty"`
	Fns      []*Fn  `json:"fns,omitempty"`
}

type ExportResult struct {
	OpNames []string     `json:"opnames"` // byte -> name, from the real bytecode package ("" = undefined opcode)
	Srcs    []*SrcResult `json:"srcs"`
}

func init() {
	core.RegisterJob("c29.export", func(p json.RawMessage) (any, error) {
		var j ExportJob
		if err := json.Unmarshal(p, &j); err != nil {
			return nil, err
		}
		return Export(&j), nil
	})
}

// OpNames returns the opcode name table of the real implementation.
func OpNames() []string {
	names := make([]string, 256)
	for i := 0; i < 256; i++ {
		func() {
			defer func() { recover() }()
			n := bytecode.OpCode(i).String()
			if n != "UNKNOWN" {
				names[i] = n
			}
		}()
	}
	return names
}

func Export(j *ExportJob) *ExportResult {
	elkrun.Setup()
	res := &ExportResult{OpNames: OpNames()}
	for si, src := range j.Srcs {
		res.Srcs = append(res.Srcs, compileOne(si, src, j.Abort))
	}
	return res
}

func compileOne(si int, src string, abort bool) (sr *SrcResult) {
	sr = &SrcResult{}
	defer func() {
		if r := recover(); r != nil {
			sr.GoPanic = fmt.Sprintf("%v\n%s", r, trim(string(debug.Stack()), 4000))
		}
	}()
	checker.MethodCheckConcurrencyLimit = 1
	var flags bitfield.BitField16
	if abort {
		flags.SetFlag(checker.AdditionalAbortChecks)
	}
	elk.InitGlobalEnvironment()
	bc, d := checker.CheckSource("main.elk", src, nil, flags, nil)
	if d != nil {
		var lines []string
		for _, x := range d {
			lines = append(lines, fmt.Sprintf("%s: %s", x.Location.StartPos.String(), x.Message))
		}
		sr.Diags = strings.Join(lines, "\n")
	}
	sr.Accepted = bc != nil && (d == nil || !d.IsFailure())
	if !sr.Accepted {
		return sr
	}
	seen := map[*vm.BytecodeFunction]bool{}
	ords := map[*vm.BytecodeFunction]int{}
	ordOf := func(f *vm.BytecodeFunction) int {
		if o, ok := ords[f]; ok {
			return o
		}
		ords[f] = len(ords) + 1
		return ords[f]
	}
	var walk func(f *vm.BytecodeFunction)
	walk = func(f *vm.BytecodeFunction) {
		if f == nil || seen[f] {
			return
		}
		seen[f] = true
		fn := exportFn(f)
		fn.Src = si
		fn.Abort = abort
		fn.Ord = ordOf(f)
		fn.VTail = make([]int, len(f.Values))
		for i, v := range f.Values {
			if r, ok := v.SafeAsReference().(*vm.BytecodeCallSiteInfo); ok && r.TailCall && r.Method != nil &&
				r.Method.Location != nil && r.Method.Location.FilePath == "main.elk" {
				fn.VTail[i] = ordOf(r.Method)
			}
		}
		sr.Fns = append(sr.Fns, fn)
		for _, v := range f.Values {
			switch r := v.SafeAsReference().(type) {
			case *vm.BytecodeFunction:
				walk(r)
			case *vm.BytecodeCallSiteInfo:
				// methods of the standard library compiled earlier are shared by every program:
				// export only functions that belong to this source file
				if r.Method != nil && r.Method.Location != nil && r.Method.Location.FilePath == "main.elk" {
					walk(r.Method)
				}
			}
		}
	}
	walk(bc)
	return sr
}

func exportFn(f *vm.BytecodeFunction) *Fn {
	fn := &Fn{Name: f.Name().String(), NParams: f.ParameterCount(), NUp: f.UpvalueCount}
	fn.Code = make([]int, len(f.Instructions))
	for i, b := range f.Instructions {
		fn.Code[i] = int(b)
	}
	fn.VKind = make([]string, len(f.Values))
	fn.VArg = make([]int, len(f.Values))
	fn.VBlock = make([]int, len(f.Values))
	fn.VName = make([]string, len(f.Values))
	fn.Callees = nil
	for i, v := range f.Values {
		kind, arg := "other", -1
		switch {
		case v.IsSmallInt():
			kind = "int"
			if n := int64(v.AsSmallInt()); n >= 0 && n <= 100000 {
				arg = int(n)
			}
		case v.IsReference():
			switch r := v.AsReference().(type) {
			case *vm.CallSiteInfo:
				kind, arg = "callsite", r.ArgumentCount
				fn.VName[i] = r.Name.String()
			case *vm.BytecodeCallSiteInfo:
				kind, arg = "bc_callsite", r.ArgumentCount
				if r.Method != nil {
					fn.Callees = append(fn.Callees, r.Method.Name().String())
					fn.VName[i] = r.Method.Name().String()
				}
			case *vm.NativeCallSiteInfo:
				kind, arg = "nt_callsite", r.ArgumentCount
				if r.Method != nil {
					fn.Callees = append(fn.Callees, "native:"+r.Method.Name().String())
					fn.VName[i] = r.Method.Name().String()
				}
			case *vm.BytecodeFunction:
				kind, arg = "function", r.UpvalueCount
			case *vm.Select:
				kind = "select"
				arg = 0
				for _, c := range r.Cases {
					switch c.Direction {
					case reflect.SelectRecv:
						arg++
					case reflect.SelectSend:
						arg += 2
					}
				}
			}
		default:
			if v.ValueFlag() == value.SYMBOL_FLAG {
				kind = "symbol"
			}
		}
		fn.VKind[i] = kind
		fn.VArg[i] = arg
	}
	for _, c := range f.CatchEntries {
		fin := 0
		if c.Finally {
			fin = 1
		}
		fn.Catches = append(fn.Catches, []int{c.From, c.To, c.JumpAddress, fin})
	}
	if fn.Catches == nil {
		fn.Catches = [][]int{}
	}
	fn.DisOff, fn.DisErr = realDisassembly(f)
	return fn
}

// hashOf identifies a function by everything the specification looks at.
func hashOf(fn *Fn) string {
	h := sha1.New()
	b, _ := json.Marshal([]any{fn.Abort, fn.Code, fn.NParams, fn.NUp, fn.VKind, fn.VArg, fn.Catches, fn.DisOff, fn.DisErr})
	h.Write(b)
	return hex.EncodeToString(h.Sum(nil))
}

// realDisassembly drives the real DisassembleInstruction over the function the way Disassemble
// does and records the instruction offsets it visits and the first error (or Go panic).
func realDisassembly(f *vm.BytecodeFunction) (offs []int, errText string) {
	offs = []int{}
	defer func() {
		if r := recover(); r != nil {
			errText = fmt.Sprintf("go panic: %v", r)
		}
	}()
	if len(f.Instructions) == 0 {
		return
	}
	off := 0
	for steps := 0; steps < 100000; steps++ {
		offs = append(offs, off)
		next, err := f.DisassembleInstruction(io.Discard, off)
		if err != nil {
			return offs, err.Error()
		}
		if next <= off {
			return offs, fmt.Sprintf("disassembler did not advance at offset %d", off)
		}
		off = next
		if off >= len(f.Instructions) {
			break
		}
	}
	return offs, ""
}

func trim(s string, n int) string {
	if len(s) > n {
		return s[:n]
	}
	return s
}
