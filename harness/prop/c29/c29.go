package c29

import (
	"encoding/json"
	"fmt"
	"os"
	"sort"
	"strings"

	"elkverif/internal/core"
	"elkverif/internal/elkrun"
)

func init() {
	core.Register(&core.Check{ID: "C29", Level: "model_checking", Run: run})
}

const (
	tightDepth = 14  // first exploration: operand depth bound that cuts leaking loops early
	wideDepth  = 120 // second exploration of the functions that only hit the bound
)

func run(c *core.Ctx) error {
	pool := c.NewPool(c.Workers)

	// ---- corpus: every function the real compiler produces for these sources
	srcs := FeatureSources()
	rs, err := RepoTestSources()
	if err != nil {
		return err
	}
	if !c.Thorough() {
		// quick: all feature programs, a seeded half of the repository's test sources
		var pick []Source
		for _, i := range c.SampleIdx(len(rs), len(rs)/2) {
			pick = append(pick, rs[i])
		}
		rs = pick
	}
	srcs = append(srcs, rs...)
	nOther := len(srcs)
	if c.Thorough() {
		srcs = append(srcs, SpineSources(c, 2, 2500, 10)...)
	} else {
		srcs = append(srcs, sampleSources(c, SpineSources(c, 2, 150, 10), 28)...)
	}
	c.Logf("corpus: %d sources (%d feature/repository-test sources, %d spine batches)", len(srcs), nOther, len(srcs)-nOther)

	cp, err := Compile(c, pool, srcs, false, 20)
	if err != nil {
		return err
	}
	all := cp
	if c.Thorough() {
		// the same sources compiled the way the REPL does (CHECK_ABORT instructions inserted)
		cpa, err := Compile(c, pool, srcs[:nOther], true, 20)
		if err != nil {
			return err
		}
		all = Merge(cp, cpa)
	}
	c.Logf("compiled: accepted=%d rejected=%d compiler_panics=%d functions=%d distinct=%d (%d bytes)", all.Accepted, all.Rejected, len(all.Panics), all.Total, len(all.Fns), codeBytes(all.Fns))
	c.Cov("sources_accepted", all.Accepted)
	c.Cov("sources_rejected", all.Rejected)
	c.Cov("functions_compiled", all.Total)
	c.Cov("functions_distinct", len(all.Fns))
	for _, n := range all.RejNotes {
		c.Note("rejected by the checker (out of domain): " + n)
	}
	for _, p := range all.Panics {
		c.Note(fmt.Sprintf("checker/compiler Go panic on %v (C01/C03 territory, not judged here): %v", p["desc"], first(fmt.Sprint(p["panic"]), 200)))
	}
	if p := os.Getenv("VERIF_C29_DUMP"); p != "" {
		b, _ := json.Marshal(all)
		os.WriteFile(p, b, 0o644)
	}
	if all.Accepted == 0 || len(all.Fns) == 0 {
		return core.Inconclusivef("nothing compiled")
	}
	if all.Rejected*2 > all.Accepted+all.Rejected {
		return core.Inconclusivef("%d of %d sources rejected: the corpus left the domain", all.Rejected, all.Accepted+all.Rejected)
	}

	tot := &Totals{}
	clean, findings, unverified, err := Decide(c, all, tot)
	if err != nil {
		return err
	}
	for _, rec := range findings {
		c.Violation(rec)
	}

	// ---- the named deviation: what the real VM does at a catch (keeps pending operands)
	if err := catchKeepsOperands(c, pool, all.OpNames, tot); err != nil {
		return err
	}

	c.Cov("spec", "spec/Bytecode/Bytecode.tla: Explore.cfg (one GEN record per transition -> depth certificate), Verify.cfg (invariants NoStructuralError OnBoundary DepthCertified DisasmAgrees CatchRangesOnBoundaries Verified)")
	c.Cov("states", int(tot.States))
	c.Cov("transitions", int(tot.Transitions))
	c.Cov("tlc_runs", tot.Runs)
	c.Cov("distinct_opcodes_interpreted", len(tot.Ops))
	if len(tot.Ops) < 60 {
		return core.Inconclusivef("only %d distinct opcodes were interpreted: the corpus is vacuous", len(tot.Ops))
	}
	c.Cov("max_behaviour_depth", tot.Depth)
	c.Cov("traces_validated_against_impl", clean+len(findings))
	c.Cov("functions_verified_clean", clean)
	c.Cov("functions_with_findings", len(findings))
	c.Cov("functions_unverified", unverified)
	c.Logf("functions: %d verified clean by TLC, %d with findings, %d unverified; TLC: %d states, %d transitions in %d runs; violations=%d",
		clean, len(findings), unverified, tot.States, tot.Transitions, tot.Runs, c.Violations())
	if clean == 0 {
		return core.Inconclusivef("no function was verified")
	}
	if unverified*5 > len(all.Fns) {
		return core.Inconclusivef("%d of %d functions could not be verified (unknown opcodes / bounds): the instruction table is incomplete", unverified, len(all.Fns))
	}
	return nil
}

// Decide runs the two TLC phases over a corpus and returns the number of functions verified clean,
// the violation records of the others, and the number of unverified functions.
func Decide(c *core.Ctx, cp *Corpus, tot *Totals) (clean int, findings []map[string]any, unverified int, err error) {
	res, err := Explore(c, cp.Fns, cp.OpNames, nil, tightDepth, tot)
	if err != nil {
		return 0, nil, 0, err
	}
	// functions that only ran into the tight operand bound: explore again with the wide one
	var again []*Fn
	for _, f := range cp.Fns {
		r := res[f.ID]
		if len(r.Unv) > 0 && len(r.Errs) == 0 && r.Conflict == nil && onlyDepthBound(r.Unv) {
			again = append(again, f)
		}
	}
	wide := map[int]bool{}
	if len(again) > 0 {
		c.Logf("re-exploring %d functions with operand bound %d", len(again), wideDepth)
		res2, err := Explore(c, again, cp.OpNames, nil, wideDepth, tot)
		if err != nil {
			return 0, nil, 0, err
		}
		for id, r := range res2 {
			res[id] = r
			wide[id] = true
		}
	}
	var cleanFns, cleanWide []*Fn
	unvKinds := map[string]int{}
	byID := map[int]*Fn{}
	for _, f := range cp.Fns {
		byID[f.ID] = f
		r := res[f.ID]
		recs := findingsOf(cp, f, r)
		switch {
		case len(recs) > 0:
			findings = append(findings, recs[0]) // one record per function: the first diagnosis
		case r.Clean():
			if wide[f.ID] {
				cleanWide = append(cleanWide, f)
			} else {
				cleanFns = append(cleanFns, f)
			}
		default:
			unverified++
			why := "unknown"
			if r.Static != nil && r.Static.Unk >= 0 {
				why = "unknown_opcode"
			} else if len(r.Unv) > 0 {
				why = r.Unv[0].Unv
			}
			unvKinds[why]++
		}
	}
	if len(unvKinds) > 0 {
		c.Note(fmt.Sprintf("unverified functions by reason: %v", unvKinds))
	}
	// ---- phase 2: TLC checks the invariants with the certificate
	if len(cleanFns) > 0 {
		if err := Verify(c, cleanFns, cp.OpNames, res, nil, tightDepth, tot); err != nil {
			return 0, nil, 0, err
		}
	}
	if len(cleanWide) > 0 {
		if err := Verify(c, cleanWide, cp.OpNames, res, nil, wideDepth, tot); err != nil {
			return 0, nil, 0, err
		}
	}
	clean = len(cleanFns) + len(cleanWide)
	if clean > 0 {
		f := cleanFns[0]
		if len(cleanFns) > 3 {
			f = cleanFns[len(cleanFns)/2]
		}
		c.Sample(map[string]any{"function": f.Name, "source": first(cp.Origin[f.ID].Desc, 120), "bytes": len(f.Code), "certificate_points": len(res[f.ID].Cert), "transitions": res[f.ID].Transitions, "verdict": "all invariants hold"})
	}
	for i, rec := range findings {
		if i < 3 {
			c.Sample(map[string]any{"function": rec["function"], "finding": rec["kind"], "summary": rec["summary"]})
		}
	}
	return clean, findings, unverified, nil
}

func onlyDepthBound(u []Rec) bool {
	for _, r := range u {
		if r.Unv != "depth_bound" {
			return false
		}
	}
	return true
}

// findingsOf turns the diagnoses of one function into violation records (most specific first).
func findingsOf(cp *Corpus, f *Fn, r *FnResult) []map[string]any {
	src := cp.Origin[f.ID]
	base := func(kind, summary string) map[string]any {
		return map[string]any{
			"kind": kind, "function": f.Name, "abort_checks": f.Abort, "origin": first(src.Desc, 300), "tags": src.Tags,
			"summary": fmt.Sprintf("%s in function %s (%s): %s", kind, f.Name, first(src.Desc, 80), summary),
			"source": first(src.Text, 6000), "code": f.Code, "catches": f.Catches, "cause": "",
		}
	}
	var out []map[string]any
	if r.Static != nil {
		if !r.Static.Dis {
			kind := "disassembly_error"
			if f.DisErr == "" {
				kind = "disassembly_desync"
			}
			rec := base(kind, fmt.Sprintf("the real disassembler reports %q and visits offsets %v; the instruction table gives other boundaries", f.DisErr, f.DisOff))
			rec["divop"] = ""
			if d := r.Static.Div; d >= 0 && d < len(f.Code) {
				rec["divop"] = cp.OpNames[f.Code[d]]
				rec["summary"] = fmt.Sprintf("%v; they part ways after %s at offset %d", rec["summary"], rec["divop"], d)
			}
			out = append(out, rec)
		}
		if !r.Static.Cat {
			out = append(out, base("catch_range_off_boundary", fmt.Sprintf("catch entries %v", f.Catches)))
		}
	}
	for _, e := range r.Errs {
		if e.Err == "stale_finally_activation" {
			continue // consequence of a leak; reported through the conflict it causes (below) or at the end
		}
		rec := base(e.Err, fmt.Sprintf("instruction %s at offset %d, operand depth %d, %d local slots", e.Op, e.P, e.D, 0))
		rec["pc"] = e.P
		rec["op"] = e.Op
		rec["callee"] = calleeAt(f, e.P)
		out = append(out, rec)
	}
	if r.Conflict != nil {
		// one depth conflict makes every later join of the function inconsistent too, and which of
		// them TLC's workers report first is not deterministic: classify every conflicting arrival and
		// report the function under its most specific cause (the smallest in a fixed order), the
		// unclassified "other" only when no arrival has a specific cause
		cf := r.Conflict
		bestCause := conflictCause(cp, f, cf)
		for i := range r.Conflicts {
			if cc := conflictCause(cp, f, &r.Conflicts[i]); cc != "other" && (bestCause == "other" || cc < bestCause) {
				bestCause, cf = cc, &r.Conflicts[i]
			}
		}
		rec := base("join_inconsistent", fmt.Sprintf("offset %d (mode %q) is reached with depth %d via %s at %d and with depth %d via %s at %d",
			cf.Pc, cf.Mode, cf.First.D, cf.First.Op, cf.First.P, cf.Second.D, cf.Second.Op, cf.Second.P))
		rec["pc"] = cf.Pc
		rec["cause"] = bestCause
		rec["via"] = cf.First.Op + "/" + cf.Second.Op
		out = append(out, rec)
	} else {
		for _, e := range r.Errs {
			if e.Err == "stale_finally_activation" {
				rec := base("join_inconsistent", fmt.Sprintf("the finally block entered at offset %d is entered again while the flag of its previous activation is still on the stack", e.P))
				rec["pc"] = e.P
				rec["cause"] = "abrupt_exit_from_handler_or_finally"
				out = append(out, rec)
				break
			}
		}
	}
	// most specific first: a join inconsistency whose cause is recognised explains the underflow it
	// leads to; otherwise structural errors come before the inconsistency they may cause
	sort.SliceStable(out, func(i, j int) bool { return rank(out[i]) < rank(out[j]) })
	return out
}

func rank(rec map[string]any) int {
	switch rec["kind"].(string) {
	case "join_inconsistent":
		if c, _ := rec["cause"].(string); c != "" && c != "other" {
			return 0
		}
		return 3
	case "disassembly_error", "disassembly_desync":
		return 2
	}
	return 1
}

// calleeAt: name of the method called by the call instruction at pc (8 bit call-site operand), "" otherwise.
func calleeAt(f *Fn, pc int) string {
	if pc+1 < len(f.Code) {
		if k := f.Code[pc+1]; k < len(f.VName) {
			return f.VName[k]
		}
	}
	return ""
}

// conflictCause classifies a join inconsistency for the known-findings key: does one of the two
// arrivals leave the handler / finally part of a do-expression (between the end of its protected
// body and the end of the expression) by a jump, a loop back-edge or a return-through-finally?
// The region is read off the compiler's layout: the JUMP just before the handler's address skips it.
func conflictCause(cp *Corpus, f *Fn, cf *Conflict) string {
	in := func(pc, lo, hi int) bool { return pc >= lo && pc < hi }
	// `recv?[key]`: the nil branch (JUMP_IF_NIL taken) reaches the join one slot lower than the other branch
	for _, p := range [][2]Rec{{cf.First, cf.Second}, {cf.Second, cf.First}} {
		a, b := p[0], p[1]
		if a.Op == "JUMP_IF_NIL" && a.Q != a.P+3 && b.Op == "JUMP" && b.D == a.D+1 {
			return "nil_branch_pushes_no_value"
		}
	}
	for _, ce := range f.Catches {
		if ce[3] != 0 {
			continue
		}
		j := ce[2]
		if j < 3 || j > len(f.Code) || cp.OpNames[f.Code[j-3]] != "JUMP" {
			continue
		}
		end := j + f.Code[j-2]*256 + f.Code[j-1]
		lo := ce[1]
		for _, a := range []Rec{cf.First, cf.Second} {
			if in(a.P, lo, end) && !in(cf.Pc, lo, end) {
				return "abrupt_exit_from_handler_or_finally"
			}
		}
	}
	return "other"
}

func codeBytes(fns []*Fn) int {
	n := 0
	for _, f := range fns {
		n += len(f.Code)
	}
	return n
}

func sampleSources(c *core.Ctx, s []Source, k int) []Source {
	var out []Source
	for _, i := range c.SampleIdx(len(s), k) {
		out = append(out, s[i])
	}
	return out
}

// Merge concatenates two corpora (function IDs are reassigned).
func Merge(a, b *Corpus) *Corpus {
	m := &Corpus{OpNames: a.OpNames, Origin: map[int]Source{}, Total: a.Total + b.Total, Accepted: a.Accepted + b.Accepted, Rejected: a.Rejected + b.Rejected}
	m.RejNotes = append(append([]string{}, a.RejNotes...), b.RejNotes...)
	m.Panics = append(append([]map[string]any{}, a.Panics...), b.Panics...)
	seen := map[string]bool{}
	for _, cp := range []*Corpus{a, b} {
		for _, f := range cp.Fns {
			h := hashOf(f)
			if seen[h] {
				continue
			}
			seen[h] = true
			src := cp.Origin[f.ID]
			g := *f
			g.ID = len(m.Fns) + 1
			m.Fns = append(m.Fns, &g)
			m.Origin[g.ID] = src
		}
	}
	return m
}

// ---- the deviation CatchKeepsOperands ---------------------------------------------------------------

const witnessSrc = elkrun.Prelude + `def thrower: Int
  throw unchecked :a
  1
end
def direct: Int
  10 + do
    throw unchecked :a
    1
  catch :a
    5
  end
end
def through_call: Int
  10 + do
    thrower()
  catch :a
    5
  end
end
o(direct())
o(through_call())
`

// catchKeepsOperands binds the named deviation of the specification to the real VM. The reference
// semantics (unwind the operand stack to the depth at the start of the protected range) makes the
// witness function consistent; the deviation (the handler is entered on top of whatever operands
// were pending: thread.go rethrow) predicts a depth conflict at the join after the do-expression.
// The witness is then run on the real VM: 10 + (do thrower() catch :a then 5 end) must be 15.
func catchKeepsOperands(c *core.Ctx, pool *core.Pool, opnames []string, tot *Totals) error {
	cp, err := Compile(c, pool, []Source{{Desc: "witness: do-expression in operand position whose body throws through a call", Text: witnessSrc}}, false, 1)
	if err != nil {
		return err
	}
	if len(cp.Fns) == 0 {
		return core.Inconclusivef("the catch witness was rejected: %v", cp.RejNotes)
	}
	ref, err := Explore(c, cp.Fns, cp.OpNames, nil, tightDepth, tot)
	if err != nil {
		return err
	}
	dev, err := Explore(c, cp.Fns, cp.OpNames, []string{"CatchKeepsOperands"}, tightDepth, tot)
	if err != nil {
		return err
	}
	var target *Fn
	for _, f := range cp.Fns {
		if strings.Contains(f.Name, "through_call") {
			target = f
		}
	}
	if target == nil {
		return core.Inconclusivef("witness function not found among %d functions", len(cp.Fns))
	}
	if recs := findingsOf(cp, target, ref[target.ID]); len(recs) > 0 {
		// the witness function itself is malformed under the reference semantics: a finding like any other
		c.Violation(recs[0])
		return nil
	}
	if dev[target.ID].Conflict == nil {
		return core.Inconclusivef("the deviation CatchKeepsOperands does not predict a depth conflict in the catch witness")
	}
	results := pool.Map([]core.Job{{Kind: "elk", Payload: elkrun.Job{Src: witnessSrc, RunMs: 10000}, TimeoutMs: 30000}}, nil)
	jr := results[0]
	var r elkrun.Result
	switch {
	case jr.Crashed:
		r.GoPanic = "worker process died: " + first(jr.CrashLog, 800)
	case jr.Timeout:
		r.Hung = true
	case jr.Err != "" || jr.Panic != "":
		return core.Inconclusivef("witness run failed: %s %s", jr.Err, first(jr.Panic, 300))
	default:
		if err := jr.Decode(&r); err != nil {
			return err
		}
	}
	c.CovAdd("witness_programs_run", 1)
	if r.Outcome() == "ok" && r.Stdout == "15\n15\n" {
		c.Note("catch witness: the real VM computes 15 for both forms (the handler is entered at the depth of the protected range)")
		return nil
	}
	cf := dev[target.ID].Conflict
	c.Violation(map[string]any{
		"kind": "join_inconsistent", "cause": "catch_keeps_operands", "deviation": "CatchKeepsOperands", "function": target.Name,
		"summary": fmt.Sprintf("a catch handler is entered on top of the operands pending at the throwing instruction: `10 + do thrower() catch :a then 5 end` gives outcome=%s stdout=%q %s (spec with deviation CatchKeepsOperands: offset %d reached with depths %d and %d)",
			r.Outcome(), r.Stdout, first(r.GoPanic, 160), cf.Pc, cf.First.D, cf.Second.D),
		"source": witnessSrc, "outcome": r.Outcome(), "stdout": r.Stdout, "panic": first(r.GoPanic, 1500),
	})
	return nil
}
