package c29

import (
	"bytes"
	"encoding/json"
	"fmt"
	"path/filepath"
	"sort"
	"sync"
	"time"

	"elkverif/internal/core"
	"elkverif/internal/tlc"
)

// Rec is one GEN record of spec/Bytecode: k="static" (once per function, in Init) or k="step" (one per transition).
type Rec struct {
	F      int    `json:"f"`
	K      string `json:"k"`
	P      int    `json:"p"`  // pc of the instruction executed
	Q      int    `json:"q"`  // pc reached
	D      int    `json:"d"`  // depth reached
	M      string `json:"m"`  // mode (active finally activations) reached
	End    bool   `json:"end"`
	Err    string `json:"err"`
	Unv    string `json:"unv"`
	Op     string `json:"op"`
	Dis    bool   `json:"dis"`
	Cat    bool   `json:"cat"`
	Unk    int    `json:"unk"`
	DisErr string `json:"diserr"`
	Div    int    `json:"div"`
}

// Conflict: two transitions reach the same (pc, mode) with different depths.
type Conflict struct {
	Pc     int
	Mode   string
	First  Rec
	Second Rec
}

// FnResult is what the explore phase established about one function.
type FnResult struct {
	Static      *Rec
	Cert        map[string]int // "pc|mode" -> depth (first arrival)
	Conflict    *Conflict      // a conflicting arrival, if any: the one at the smallest (pc, mode, arriving pc, depth) - independent of the order in which TLC's workers emit the records
	Conflicts   []Conflict     // every conflicting arrival (capped), for the cause classification
	Errs        []Rec
	Unv         []Rec
	Transitions int
}

// normalizeConflicts orders the conflicting arrivals canonically (within a conflict the arrival with
// the smaller (depth, pc) is First) and picks the smallest as the representative.
func (r *FnResult) normalizeConflicts() {
	less := func(a, b Rec) bool {
		if a.D != b.D {
			return a.D < b.D
		}
		return a.P < b.P
	}
	for i := range r.Conflicts {
		c := &r.Conflicts[i]
		if less(c.Second, c.First) {
			c.First, c.Second = c.Second, c.First
		}
	}
	sort.SliceStable(r.Conflicts, func(i, j int) bool {
		a, b := r.Conflicts[i], r.Conflicts[j]
		switch {
		case a.Pc != b.Pc:
			return a.Pc < b.Pc
		case a.Mode != b.Mode:
			return a.Mode < b.Mode
		case a.First.P != b.First.P:
			return a.First.P < b.First.P
		case a.Second.P != b.Second.P:
			return a.Second.P < b.Second.P
		}
		return a.Second.D < b.Second.D
	})
	if len(r.Conflicts) > 0 {
		c := r.Conflicts[0]
		r.Conflict = &c
	}
}

func (r *FnResult) Clean() bool {
	return r.Static != nil && r.Static.Dis && r.Static.Cat && r.Static.Unk < 0 && r.Conflict == nil && len(r.Errs) == 0 && len(r.Unv) == 0
}

type specFn struct {
	ID      int      `json:"id"`
	Code    []int    `json:"code"`
	NParams int      `json:"nparams"`
	NUp     int      `json:"nup"`
	VKind   []string `json:"vkind"`
	VArg    []int    `json:"varg"`
	VBlock  []int    `json:"vblock"`
	VTail   []int    `json:"vtail"`
	Catches [][]int  `json:"catches"`
	DisOff  []int    `json:"disoff"`
	DisErr  string   `json:"diserr"`
}

func fnsNdjson(fns []*Fn) []byte {
	var nd bytes.Buffer
	for _, f := range fns {
		s := specFn{ID: f.ID, Code: f.Code, NParams: f.NParams, NUp: f.NUp, VKind: f.VKind, VArg: f.VArg, VBlock: f.VBlock, Catches: f.Catches, DisOff: f.DisOff, DisErr: f.DisErr}
		if s.Code == nil {
			s.Code = []int{}
		}
		if s.VKind == nil {
			s.VKind = []string{}
		}
		if s.VArg == nil {
			s.VArg = []int{}
		}
		if s.VBlock == nil || len(s.VBlock) != len(s.VKind) {
			s.VBlock = make([]int, len(s.VKind))
		}
		if s.Catches == nil {
			s.Catches = [][]int{}
		}
		s.VTail = f.VTail
		if s.VTail == nil || len(s.VTail) != len(s.VKind) {
			s.VTail = make([]int, len(s.VKind))
		}
		if s.DisOff == nil {
			s.DisOff = []int{}
		}
		b, _ := json.Marshal(s)
		nd.Write(b)
		nd.WriteByte('\n')
	}
	return nd.Bytes()
}

func mcModule(module string, deviations []string, maxDepth int) []byte {
	devs := ""
	for i, d := range deviations {
		if i > 0 {
			devs += ", "
		}
		devs += fmt.Sprintf("%q", d)
	}
	return []byte(fmt.Sprintf("---- MODULE MC_%s ----\nEXTENDS %s\nMCDeviations == {%s}\nMCMaxDepth == %d\n====\n", module, module, devs, maxDepth))
}

// SpecFiles are the generated inputs shared by the Bytecode and Cancel modules.
func SpecFiles(module string, fns []*Fn, opnames []string, cert []byte, deviations []string, maxDepth int) map[string][]byte {
	ob, _ := json.Marshal(opnames)
	if cert == nil {
		var cb bytes.Buffer
		for range fns {
			cb.WriteString("{\"_\":0}\n")
		}
		cert = cb.Bytes()
	}
	return map[string][]byte{
		"fns.ndjson":              fnsNdjson(fns),
		"opnames.ndjson":          append(ob, '\n'),
		"cert.ndjson":             cert,
		"MC_" + module + ".tla":   mcModule(module, deviations, maxDepth),
	}
}

type Totals struct {
	mu                  sync.Mutex
	States, Transitions int64
	Depth               int
	Runs                int
	WallS               float64
	Ops                 map[string]int // opcode name -> transitions executed (which rules of Succ fired)
}

func (t *Totals) op(name string) {
	t.mu.Lock()
	defer t.mu.Unlock()
	if t.Ops == nil {
		t.Ops = map[string]int{}
	}
	t.Ops[name]++
}

func (t *Totals) add(r *tlc.Result) {
	t.mu.Lock()
	defer t.mu.Unlock()
	t.States += r.Distinct
	t.Transitions += r.Generated
	if r.Depth > t.Depth {
		t.Depth = r.Depth
	}
	t.Runs++
	t.WallS += r.WallS
}

func shardsOf(fns []*Fn, maxBytes int) [][]*Fn {
	var out [][]*Fn
	var cur []*Fn
	size := 0
	for _, f := range fns {
		if len(cur) > 0 && size+len(f.Code) > maxBytes {
			out = append(out, cur)
			cur, size = nil, 0
		}
		cur = append(cur, f)
		size += len(f.Code)
	}
	if len(cur) > 0 {
		out = append(out, cur)
	}
	return out
}

func parallel(n, par int, f func(i int) error) error {
	sem := make(chan struct{}, par)
	var wg sync.WaitGroup
	var mu sync.Mutex
	var first error
	for i := 0; i < n; i++ {
		wg.Add(1)
		sem <- struct{}{}
		go func(i int) {
			defer wg.Done()
			defer func() { <-sem }()
			if err := f(i); err != nil {
				mu.Lock()
				if first == nil {
					first = err
				}
				mu.Unlock()
			}
		}(i)
	}
	wg.Wait()
	return first
}

// Explore runs phase "explore" of spec/Bytecode on the functions: TLC interprets every function
// abstractly and emits one record per transition; the records are folded into a FnResult per
// function (keyed by Fn.ID).
func Explore(c *core.Ctx, fns []*Fn, opnames []string, deviations []string, maxDepth int, tot *Totals) (map[int]*FnResult, error) {
	shards := shardsOf(fns, 60000)
	out := map[int]*FnResult{}
	var mu sync.Mutex
	par := 2
	if c.Workers >= 12 {
		par = 4
	}
	w := c.Workers / par
	if w < 2 {
		w = 2
	}
	err := parallel(len(shards), par, func(si int) error {
		sh := shards[si]
		local := map[int]*FnResult{}
		first := map[string]Rec{}
		for _, f := range sh {
			local[f.ID] = &FnResult{Cert: map[string]int{}}
		}
		var perr error
		res, err := tlc.Run(tlc.Opts{
			SpecDir: filepath.Join(core.VerifRoot, "spec", "Bytecode"), Module: "MC_Bytecode", Cfg: "Explore.cfg",
			Scratch: c.Scratch, Workers: w, Timeout: 12 * time.Minute, HeapMB: 4000,
			Extra: SpecFiles("Bytecode", sh, opnames, nil, deviations, maxDepth),
			OnGen: func(b []byte) {
				var r Rec
				if e := json.Unmarshal(b, &r); e != nil {
					perr = fmt.Errorf("bad GEN record: %v: %s", e, b)
					return
				}
				if r.F < 1 || r.F > len(sh) {
					perr = fmt.Errorf("GEN record for unknown function %d", r.F)
					return
				}
				fr := local[sh[r.F-1].ID]
				if r.K == "static" {
					rr := r
					fr.Static = &rr
					return
				}
				fr.Transitions++
				tot.op(r.Op)
				switch {
				case r.Err != "":
					if len(fr.Errs) < 20 {
						fr.Errs = append(fr.Errs, r)
					}
				case r.Unv != "":
					if len(fr.Unv) < 20 {
						fr.Unv = append(fr.Unv, r)
					}
				case !r.End:
					key := fmt.Sprintf("%d|%s", r.Q, r.M)
					if d, ok := fr.Cert[key]; !ok {
						fr.Cert[key] = r.D
						first[fmt.Sprintf("%d/%s", r.F, key)] = r
					} else if d != r.D && len(fr.Conflicts) < 400 {
						fr.Conflicts = append(fr.Conflicts, Conflict{Pc: r.Q, Mode: r.M, First: first[fmt.Sprintf("%d/%s", r.F, key)], Second: r})
					}
				}
			},
		})
		if err != nil {
			return err
		}
		if perr != nil {
			return perr
		}
		if !res.OK {
			return core.Inconclusivef("TLC explore (Bytecode) shard %d: verdict=%s %s\n%s", si, res.Verdict, res.What, tailStr(res.Output, 2500))
		}
		tot.add(res)
		for _, v := range local {
			v.normalizeConflicts()
		}
		mu.Lock()
		for k, v := range local {
			if v.Static == nil {
				mu.Unlock()
				return core.Inconclusivef("no static record for function %d", k)
			}
			// the initial state of a function: depth 1+nparams at pc 0
			out[k] = v
		}
		mu.Unlock()
		return nil
	})
	if err != nil {
		return nil, err
	}
	// the entry state (pc 0, no transition leads to it unless a loop does) belongs to the certificate
	for _, f := range fns {
		fr := out[f.ID]
		if _, ok := fr.Cert["0|"]; !ok {
			fr.Cert["0|"] = 1 + f.NParams
		}
	}
	return out, nil
}

// Verify runs phase "verify": TLC re-explores the functions with the certificate and checks the
// invariants of Verify.cfg on every reachable state. Returns nil when TLC found no error.
func Verify(c *core.Ctx, fns []*Fn, opnames []string, results map[int]*FnResult, deviations []string, maxDepth int, tot *Totals) error {
	shards := shardsOf(fns, 60000)
	par := 2
	if c.Workers >= 12 {
		par = 4
	}
	w := c.Workers / par
	if w < 2 {
		w = 2
	}
	return parallel(len(shards), par, func(si int) error {
		sh := shards[si]
		var cb bytes.Buffer
		for _, f := range sh {
			b, _ := json.Marshal(results[f.ID].Cert)
			cb.Write(b)
			cb.WriteByte('\n')
		}
		res, err := tlc.Run(tlc.Opts{
			SpecDir: filepath.Join(core.VerifRoot, "spec", "Bytecode"), Module: "MC_Bytecode", Cfg: "Verify.cfg",
			Scratch: c.Scratch, Workers: w, Timeout: 12 * time.Minute, HeapMB: 4000,
			Extra: SpecFiles("Bytecode", sh, opnames, cb.Bytes(), deviations, maxDepth),
		})
		if err != nil {
			return err
		}
		if !res.OK {
			return core.Inconclusivef("TLC verify (Bytecode) shard %d disagrees with the explore phase: verdict=%s %s\n%s", si, res.Verdict, res.What, tailStr(res.ErrorTrace, 2500))
		}
		tot.add(res)
		return nil
	})
}

func tailStr(s string, n int) string {
	if len(s) <= n {
		return s
	}
	return s[len(s)-n:]
}

func sortedKeys(m map[string]int) []string {
	var ks []string
	for k := range m {
		ks = append(ks, k)
	}
	sort.Strings(ks)
	return ks
}
