package c29

import (
	"fmt"
	"os"
	"path/filepath"
	"regexp"
	"sort"
	"strings"

	"elkverif/internal/core"
	"elkverif/internal/elkcore"
	"elkverif/prop/c14"
)

// Source is one corpus entry.
type Source struct {
	Desc string
	Tags string // structural tags of the generator (spine programs), "" otherwise
	Text string
}

// SpineSources: the C14 program family (all nesting chains x exits), batched per source file.
func SpineSources(c *core.Ctx, fullDepth, deeper, batch int) []Source {
	var progs []elkcore.M
	id := 0
	add := func(chain []string, ex c14.Exit) {
		id++
		progs = append(progs, c14.Spine(id, chain, ex))
	}
	for d := 1; d <= fullDepth; d++ {
		for _, ch := range c14.AllChains(d) {
			for _, ex := range exitsFor(ch) {
				add(ch, ex)
			}
		}
	}
	if deeper > 0 {
		chains := c14.AllChains(fullDepth + 1)
		for _, i := range c.SampleIdx(len(chains), deeper) {
			exs := exitsFor(chains[i])
			add(chains[i], exs[c.Rand.Intn(len(exs))])
		}
	}
	var out []Source
	for i := 0; i < len(progs); i += batch {
		j := i + batch
		if j > len(progs) {
			j = len(progs)
		}
		var descs, tags []string
		for _, p := range progs[i:j] {
			descs = append(descs, fmt.Sprintf("%v", p["desc"]))
			if t, _ := p["tags"].(string); t != "" {
				tags = append(tags, t)
			}
		}
		out = append(out, Source{Desc: "spine: " + strings.Join(descs, "; "), Tags: strings.Join(tags, " "), Text: elkcore.EmitBatch(progs[i:j])})
	}
	return out
}

var reSource = regexp.MustCompile("(?s)source:\\s*`([^`]*)`")

// RepoTestSources: the Elk sources embedded in the repository's own VM tests (vm/vm_source_*_test.go
// tables) and the .elk.test files next to them. They cover macros, patterns, generators, async,
// closures, classes ... with sources the maintainers consider valid.
func RepoTestSources() ([]Source, error) {
	var out []Source
	files, _ := filepath.Glob(filepath.Join(core.RepoRoot, "vm", "vm_source_*_test.go"))
	sort.Strings(files)
	for _, f := range files {
		b, err := os.ReadFile(f)
		if err != nil {
			return nil, err
		}
		for i, m := range reSource.FindAllSubmatch(b, -1) {
			out = append(out, Source{Desc: fmt.Sprintf("%s#%d", filepath.Base(f), i), Text: string(m[1])})
		}
	}
	more, _ := filepath.Glob(filepath.Join(core.RepoRoot, "vm", "*.elk.test"))
	sort.Strings(more)
	for _, f := range more {
		b, err := os.ReadFile(f)
		if err != nil {
			return nil, err
		}
		out = append(out, Source{Desc: filepath.Base(f), Text: string(b)})
	}
	return out, nil
}

// exitsFor lists the exits applicable under a chain (same rule as prop/c14: break/continue need an
// enclosing loop in the same function).
func exitsFor(chain []string) []c14.Exit { return c14.ExitsFor(chain) }
