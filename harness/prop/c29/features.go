package c29

import "fmt"

// FeatureSources: hand-written programs that make the compiler emit the opcode families the other
// corpora rarely reach (wide upvalue / local operands, boxes, nil-safe forms, patterns, generators,
// async, select, collection comprehensions). A source the checker rejects is counted as out of
// domain, never as a finding.
func FeatureSources() []Source {
	var out []Source
	add := func(desc, text string) {
		out = append(out, Source{Desc: "feature: " + desc, Text: "def o(v: any) then println \"#{v}\"\n" + text})
	}

	add("closure assigning to its 1st..4th captured variable", `
a := 1
b := 2
c := 3
d := 4
f := ->
  a = a + 1
  b = b + 1
  c = c + 1
  d = d + a + b + c
end
f.()
println d.to_string
`)
	add("closure nest reading many upvalues", `
def mk: ||: Int
  a := 1
  b := 2
  c := 3
  d := 4
  e := 5
  -> a + b + c + d + e
end
println mk().().to_string
`)
	add("box of an instance variable in a method with a parameter and a local", `
class Foo
  attr bar: String?
  def bar_ptr(x: Int): ^String?
    y := x + 1
    &@bar
  end
end
f := ::Foo()
ptr := f.bar_ptr(3)
f.bar = "v"
o(ptr.get)
`)
	add("nil-safe subscript inside a list literal", `
var list: List[Int]? = nil
x := [1, list?[0], 3]
println x.length.to_string
`)
	add("nil-safe call and nil-safe subscript as statements and operands", `
var s: String? = nil
var l: List[Int]? = [1, 2]
a := s?.length
b := l?[1]
o(a)
o(b)
`)
	add("switch with literal, range, list and type patterns", `
def k(v: any): String
  switch v
  case 1 then "one"
  case 2...5 then "few"
  case [1, a] then "pair #{a}"
  case String() then "str"
  case nil then "nil"
  else "other"
  end
end
println k(1)
println k(3)
println k([1, 9])
println k("x")
println k(nil)
println k(2.5)
`)
	add("for-in with a tuple pattern, comprehension style loops in literals", `
pairs := [[1, 2], [3, 4]]
sum := 0
for [a, b] in pairs
  sum = sum + a + b
end
sq := [i * i for i in 1...4]
m := { i => i + 1 for i in 1...3 }
println sum.to_string
println sq.length.to_string
println m.length.to_string
`)
	add("generator with loop, do/finally and early return", `
def *gen(n: Int): Int
  i := 0
  while i < n
    do
      yield i
    finally
      i = i + 1
    end
  end
  return 99
end
g := gen(3)
o(g.next)
o(g.next)
`)
	add("async methods awaiting in a loop", `
async def one(i: Int): Int
  i + 1
end
async def many: Int
  s := 0
  for i in 1...3
    s = s + await one(i)
  end
  s
end
println many().await_sync.to_string
`)
	add("channels, go and select", `
ch := Channel::[Int](1)
done := Channel::[Int](1)
go ->
  ch << 5
end
select
case v := <<ch
  println v.to_string
case done << 1
  println "sent"
end
`)
	add("string, symbol and regex interpolation, ranges of every kind", `
n := 3
s := "a#{n}b#{n + 1}"
r1 := 1...n
r2 := 1..<n
r3 := 1<..n
r4 := 1<.<n
r5 := ...n
r6 := n...
println s
println r1.inspect
println r4.inspect
`)
	add("class with getter, setter, init, singleton and mixin", `
mixin Greets
  def hi: String then "hi"
end
class Pt
  include Greets
  attr x: Int, y: Int
  init(@x, @y); end
  def sum: Int then @x + @y
  def x2=(v: Int)
    @x = v
  end
end
p := Pt(1, 2)
p.x2 = 5
println p.sum.to_string
println p.hi
`)
	add("nested closures capturing loop variables, labelled break with value", `
var fs: List[||: Int] = []
r := $outer: loop
  for i in 1...3
    fs << -> i
    break[outer] i * 10 if i == 2
  end
end
println r.inspect
println fs.length.to_string
`)
	add("logical operators, ternary style if, until/while modifiers, unless", `
a := 0
a += 1 while a < 5
a -= 1 until a < 3
b := if a > 1 then "x" else "y"
c := nil ?? (false || (true && 3))
println "#{a} #{b} #{c.inspect}"
unless a == 0
  println "nz"
end
`)
	// functions with more than 255 locals / constants: the 16 bit operand forms
	big := "def wide: Int\n"
	for i := 0; i < 260; i++ {
		big += fmt.Sprintf("  v%d := %d\n", i, 70000+i)
	}
	big += "  f := -> v259 + v258\n  b := &v257\n  v0 + v259 + f.()\nend\nprintln wide().to_string\n"
	add("a method with 260 locals and 260 distinct constants (16 bit operand forms, BOX_LOCAL16)", big)
	return out
}
