package c11

import (
	"encoding/json"
	"fmt"
	"runtime/debug"
	"sort"
	"strings"

	"github.com/elk-language/elk"
	"github.com/elk-language/elk/bitfield"
	"github.com/elk-language/elk/concurrent"
	"github.com/elk-language/elk/types/checker"

	"elkverif/internal/core"
	"elkverif/internal/elkrun"
)

// Stress stage: the property itself ("the same verdict under any parallel schedule") evaluated on
// thousands of free, unhooked checks of sources with many method bodies that finish at the same
// instant. Shared structures the bodies update outside the Foreach protocol (diagnostic lists, method
// caches) have no hook, so the gate replay cannot order their updates; a lost update shows only as a
// verdict that differs from the Limit = 1 reference in a small fraction of the runs.

type StressJob struct {
	Src   string `json:"src"`
	Limit int    `json:"limit"`
	Runs  int    `json:"runs"`
}

type StressResult struct {
	Ref      []string `json:"ref"`
	Runs     int      `json:"runs"`
	Differ   int      `json:"differ"`
	Panics   int      `json:"panics"`
	Examples []string `json:"examples,omitempty"`
}

func init() {
	core.RegisterJob("c11.stress", func(raw json.RawMessage) (any, error) {
		var j StressJob
		if err := json.Unmarshal(raw, &j); err != nil {
			return nil, err
		}
		return runStress(&j), nil
	})
}

func checkOnce(src string, limit int) (diags []string, pan string) {
	defer func() {
		if r := recover(); r != nil {
			st := string(debug.Stack())
			if len(st) > 1500 {
				st = st[:1500]
			}
			pan = fmt.Sprintf("%v\n%s", r, st)
		}
	}()
	checker.MethodCheckConcurrencyLimit = limit
	_, dl := checker.CheckSource("main.elk", src, nil, bitfield.BitField16{}, nil)
	for _, x := range dl {
		diags = append(diags, fmt.Sprintf("%s: %s: %s", x.Location.StartPos.String(), x.Severity.String(), x.Message))
	}
	sort.Strings(diags)
	return
}

func runStress(j *StressJob) *StressResult {
	elkrun.Setup()
	elk.InitGlobalEnvironment()
	concurrent.VerifHook = nil
	res := &StressResult{Runs: j.Runs}
	ref, pan := checkOnce(j.Src, 1)
	if pan != "" {
		res.Panics++
		res.Examples = append(res.Examples, "reference run (Limit 1) panicked: "+pan)
		return res
	}
	res.Ref = ref
	want := strings.Join(ref, "\n")
	for r := 0; r < j.Runs; r++ {
		got, pan := checkOnce(j.Src, j.Limit)
		switch {
		case pan != "":
			res.Panics++
			if len(res.Examples) < 3 {
				res.Examples = append(res.Examples, fmt.Sprintf("run %d at Limit %d: Go panic: %s", r, j.Limit, pan))
			}
		case strings.Join(got, "\n") != want:
			res.Differ++
			if len(res.Examples) < 3 {
				res.Examples = append(res.Examples, fmt.Sprintf("run %d at Limit %d: %d diagnostics, the Limit 1 reference has %d; missing %v, extra %v", r, j.Limit, len(got), len(ref), diffStr(ref, got), diffStr(got, ref)))
			}
		}
	}
	core.RequestWorkerRestart()
	return res
}

func diffStr(a, b []string) []string {
	in := map[string]int{}
	for _, x := range b {
		in[x]++
	}
	var out []string
	for _, x := range a {
		if in[x] > 0 {
			in[x]--
			continue
		}
		if len(out) < 3 {
			out = append(out, x)
		}
	}
	return out
}

// StressSources: many bodies of the same size, each producing a diagnostic that goes through a
// structure shared by all bodies.
func StressSources() map[string]string {
	out := map[string]string{}
	var b strings.Builder
	n := 64
	// every constant is initialised by its own method, which reads it back: n circular-reference failures
	for i := 0; i < n; i++ {
		fmt.Fprintf(&b, "const C%d: Int = Foo.m%d\n", i, i)
	}
	b.WriteString("module Foo\n")
	for i := 0; i < n; i++ {
		fmt.Fprintf(&b, "  def m%d: Int\n    C%d\n  end\n", i, i)
	}
	b.WriteString("end\n")
	out["constant-cycles-64"] = b.String()
	// every body produces one warning and one failure of its own
	b.Reset()
	for i := 0; i < n; i++ {
		fmt.Fprintf(&b, "def w%d(a: Int): Int\n  if %d\n    a = a + 1\n  end\n  a + undefined_%d\nend\n", i, 100+i, i)
	}
	out["warning-and-failure-per-body-64"] = b.String()
	return out
}

func stressStage(c *core.Ctx, pool *core.Pool) error {
	srcs := StressSources()
	var names []string
	for n := range srcs {
		names = append(names, n)
	}
	sort.Strings(names)
	var jobs []core.Job
	var meta []string
	per := c.Pick(6, 18)
	for _, n := range names {
		for k := 0; k < per; k++ {
			jobs = append(jobs, core.Job{Kind: "c11.stress", Payload: StressJob{Src: srcs[n], Limit: []int{100, 16, 4}[k%3], Runs: c.Pick(400, 1000)}, TimeoutMs: 600000})
			meta = append(meta, n)
		}
	}
	results := pool.Map(jobs, nil)
	total := 0
	for i, jr := range results {
		if jr.Crashed || jr.Timeout || jr.Err != "" || jr.Panic != "" {
			return core.Inconclusivef("stress job failed: %s %s %s timeout=%v", jr.Err, jr.Panic, jr.CrashLog, jr.Timeout)
		}
		var r StressResult
		if err := jr.Decode(&r); err != nil {
			return err
		}
		if len(r.Ref) == 0 && r.Panics == 0 {
			return core.Inconclusivef("stress source %s produces no diagnostic", meta[i])
		}
		total += r.Runs
		if r.Differ > 0 || r.Panics > 0 {
			c.Violation(map[string]any{"stage": "stress", "kind": "verdict_depends_on_schedule", "source": meta[i], "runs": r.Runs, "differ": r.Differ, "panics": r.Panics, "examples": r.Examples,
				"summary": fmt.Sprintf("%s: %d of %d free parallel checks report other diagnostics than the Limit 1 check (%d Go panics); %s", meta[i], r.Differ, r.Runs, r.Panics, strings.Join(r.Examples, "; "))})
		}
	}
	c.Cov("stress_checks", total)
	c.Logf("stress: %d free parallel checks of %d sources with 64 bodies each, every verdict compared with the Limit 1 reference", total, len(names))
	return nil
}
