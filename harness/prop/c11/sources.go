package c11

import (
	"fmt"
	"math/rand"
	"strings"
)

// Method describes one generated method body.
type Method struct {
	Calls  []int `json:"calls"`  // callees (1-based), earlier and later definitions, possibly itself
	Locals bool  `json:"locals"` // results of the calls are assigned to locals (the function gets a PREP_LOCALS prologue)
	Warn   int   `json:"warn"`   // which diagnostic the body produces
}

type Source struct {
	Name    string   `json:"name"`
	Methods []Method `json:"methods"`
	Macros  int      `json:"macros"` // user macros (the macro Foreach has 1 + Macros items: one builtin macro)
	Text    string   `json:"text"`
}

// Render produces the Elk text: constants, the methods in definition order, macros, and a main part that
// prints every method's result.
func (s *Source) Render() {
	var b strings.Builder
	n := len(s.Methods)
	for i := 1; i <= n; i++ {
		fmt.Fprintf(&b, "const K%d = %d\n", i, 5+2*i)
	}
	for i, m := range s.Methods {
		id := i + 1
		fmt.Fprintf(&b, "def m%d(d: Int): Int\n", id)
		fmt.Fprintf(&b, "  return %d if d <= 0\n", id)
		lit := 100 + id
		if m.Locals {
			terms := []string{}
			for k, c := range m.Calls {
				fmt.Fprintf(&b, "  v%d := m%d(d - 1)\n", k+1, c)
				if k == 0 {
					terms = append(terms, "v1 * 3")
				} else {
					terms = append(terms, fmt.Sprintf("v%d", k+1))
				}
			}
			fmt.Fprintf(&b, "  acc := K%d\n", id)
			switch m.Warn % 3 {
			case 0:
				fmt.Fprintf(&b, "  if %d\n    acc = acc + %d\n  end\n", lit, id)
			case 1:
				fmt.Fprintf(&b, "  w := must %d\n  acc = acc + w\n", lit)
			case 2:
				fmt.Fprintf(&b, "  while false\n    acc = %d\n  end\n", lit)
			}
			terms = append(terms, "acc")
			fmt.Fprintf(&b, "  %s\n", strings.Join(terms, " + "))
		} else {
			terms := []string{}
			for k, c := range m.Calls {
				if k == 0 {
					terms = append(terms, fmt.Sprintf("m%d(d - 1) * 3", c))
				} else {
					terms = append(terms, fmt.Sprintf("m%d(d - 1)", c))
				}
			}
			terms = append(terms, fmt.Sprintf("(must %d)", lit), fmt.Sprintf("K%d", id))
			fmt.Fprintf(&b, "  %s\n", strings.Join(terms, " + "))
		}
		b.WriteString("end\n")
	}
	for k := 1; k <= s.Macros; k++ {
		fmt.Fprintf(&b, "macro mac%d(a: Elk::AST::ExpressionNode): Elk::AST::ExpressionNode\n", k)
		fmt.Fprintf(&b, "  if %d\n    return a\n  end\n  a\nend\n", 200+k)
	}
	for i := 1; i <= n; i++ {
		fmt.Fprintf(&b, "println m%d(3).inspect\n", i)
	}
	s.Text = b.String()
}

// FixedSources are small shapes chosen for the compile-order dependence of pending calls: a caller with
// locals that calls a method defined later / earlier, mutual recursion, self recursion.
func FixedSources() []*Source {
	l := []*Source{
		{Name: "forward-call-with-locals", Methods: []Method{{Calls: []int{2}, Locals: true, Warn: 0}, {Calls: nil, Locals: false, Warn: 1}}},
		{Name: "backward-call-with-locals", Methods: []Method{{Calls: nil, Locals: false, Warn: 1}, {Calls: []int{1}, Locals: true, Warn: 2}}},
		{Name: "mutual-recursion", Methods: []Method{{Calls: []int{2}, Locals: true, Warn: 1}, {Calls: []int{1}, Locals: true, Warn: 0}}},
		{Name: "self-recursion-and-chain", Methods: []Method{{Calls: []int{1, 3}, Locals: true, Warn: 2}, {Calls: []int{1}, Locals: false, Warn: 0}, {Calls: []int{2}, Locals: true, Warn: 1}}},
		{Name: "fan-in", Methods: []Method{{Calls: []int{4}, Locals: true, Warn: 0}, {Calls: []int{4}, Locals: false, Warn: 1}, {Calls: []int{4, 1}, Locals: true, Warn: 2}, {Calls: nil, Locals: true, Warn: 0}}},
		{Name: "macros", Methods: []Method{{Calls: []int{2}, Locals: true, Warn: 0}, {Calls: []int{1}, Locals: false, Warn: 1}}, Macros: 2},
	}
	for _, s := range l {
		s.Render()
	}
	return l
}

// RandomSource generates a source with n method bodies.
func RandomSource(r *rand.Rand, n int, name string) *Source {
	s := &Source{Name: name}
	for i := 1; i <= n; i++ {
		m := Method{Locals: r.Intn(4) != 0, Warn: r.Intn(3)}
		nc := r.Intn(3)
		if n >= 3 && r.Intn(3) == 0 {
			nc = 3
		}
		seen := map[int]bool{}
		for k := 0; k < nc; k++ {
			c := 1 + r.Intn(n)
			if seen[c] {
				continue
			}
			seen[c] = true
			m.Calls = append(m.Calls, c)
		}
		s.Methods = append(s.Methods, m)
	}
	if r.Intn(4) == 0 {
		s.Macros = 1 + r.Intn(2)
	}
	s.Render()
	return s
}
