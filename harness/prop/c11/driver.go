package c11

import (
	"bytes"
	"encoding/json"
	"fmt"
	"math/rand"
	"reflect"
	"runtime"
	"runtime/debug"
	"sort"
	"strconv"
	"strings"
	"sync"
	"sync/atomic"
	"time"

	"github.com/elk-language/elk"
	"github.com/elk-language/elk/bitfield"
	"github.com/elk-language/elk/concurrent"
	"github.com/elk-language/elk/types/checker"
	"github.com/elk-language/elk/vm"

	"elkverif/internal/core"
	"elkverif/internal/elkrun"
)

// Step is one event of a TLC behaviour of spec/ParCheck (hist record).
type Step struct {
	A int    `json:"a"` // 0 the goroutine that called Foreach, i the goroutine of item i (1-based)
	K string `json:"k"` // go | fire | arrive
	E string `json:"e"`
	I int    `json:"i"` // item index of the hook event (0-based), -1 none
}

type CheckJob struct {
	Src      string `json:"src"`
	Limit    int    `json:"limit"`
	Target   int    `json:"target"`   // which Foreach call of the check the schedule is imposed on: 1 macros, 2 method bodies
	N        int    `json:"n"`        // expected number of items of that call
	Schedule []Step `json:"schedule"` // nil: free run
	Perturb  int64  `json:"perturb"`  // free run: seed of random delays inside the hooks (0 = none)
	StepMs   int    `json:"step_ms"`
	NoRun    bool   `json:"no_run"`
}

// TraceEvent is one line of the trace validated against spec/ParCheck/ParCheckTrace.tla.
type TraceEvent struct {
	Ev    string `json:"ev"`
	I     int    `json:"i"`
	N     int    `json:"n"`
	Limit int    `json:"limit"`
	seq   int64
}

type CheckResult struct {
	Outcome  string       `json:"outcome"` // ok | mismatch | blocked | unknown_event | go_panic
	At       int          `json:"at"`
	Want     string       `json:"want,omitempty"`
	Got      string       `json:"got,omitempty"`
	Detail   string       `json:"detail,omitempty"`
	Accepted bool         `json:"accepted"`
	Diags    []string     `json:"diags"` // sorted
	Stdout   string       `json:"stdout"`
	Err      string       `json:"err,omitempty"` // uncaught Elk error (class: message) or Go panic of the run
	Trace    []TraceEvent `json:"trace,omitempty"`
	Events   []string     `json:"events,omitempty"`
	WallMs   int          `json:"wall_ms"`
}

var knownEvents = map[string]bool{
	"foreach.begin": true, "foreach.acquire.try": true, "foreach.acquired": true, "foreach.start": true, "foreach.done": true,
	"foreach.released": true, "foreach.drain.try": true, "foreach.drained": true, "foreach.return": true,
}

type park struct {
	actor int
	ev    string
	i     int
	rel   chan struct{}
}

type driver struct {
	mu       sync.Mutex
	job      *CheckJob
	callNo   int           // number of foreach.begin seen
	bodyCall map[int64]int // goroutine of a body -> Foreach call it belongs to
	elemType map[int]string
	seq      atomic.Int64
	trace    []TraceEvent
	rng      *rand.Rand
	parkCh   chan *park
	parked   map[int]*park
	free     atomic.Bool
	events   []string
	unknown  string
}

func gid() int64 {
	var buf [64]byte
	n := runtime.Stack(buf[:], false)
	s := strings.TrimPrefix(string(buf[:n]), "goroutine ")
	if i := strings.IndexByte(s, ' '); i > 0 {
		id, _ := strconv.ParseInt(s[:i], 10, 64)
		return id
	}
	return -1
}

func (d *driver) hook(ev string, args ...any) {
	idx, n, limit := -1, 0, 0
	if ev == "foreach.begin" {
		if len(args) >= 2 {
			n, _ = args[0].(int)
			limit, _ = args[1].(int)
		}
	} else if len(args) >= 1 {
		if v, ok := args[0].(int); ok {
			idx = v
		}
	}
	g := gid()
	d.mu.Lock()
	if !knownEvents[ev] && d.unknown == "" {
		d.unknown = ev
	}
	call := d.callNo
	switch ev {
	case "foreach.begin":
		d.callNo++
		call = d.callNo
	case "foreach.start":
		d.bodyCall[g] = d.callNo
		if len(args) >= 2 && args[1] != nil {
			d.elemType[d.callNo] = reflect.TypeOf(args[1]).Name()
		}
	case "foreach.done", "foreach.released":
		call = d.bodyCall[g]
	}
	d.trace = append(d.trace, TraceEvent{Ev: ev, I: idx, N: n, Limit: limit, seq: d.seq.Add(1)})
	delay := time.Duration(0)
	if d.rng != nil && d.rng.Intn(3) == 0 {
		delay = time.Duration(d.rng.Intn(400)) * time.Microsecond
	}
	d.mu.Unlock()
	if d.job.Schedule == nil || d.free.Load() || call != d.job.Target {
		if delay > 0 {
			time.Sleep(delay)
		} else if d.rng != nil {
			runtime.Gosched()
		}
		return
	}
	actor := 0
	switch ev {
	case "foreach.start", "foreach.done", "foreach.released":
		actor = idx + 1
	}
	pk := &park{actor: actor, ev: ev, i: idx, rel: make(chan struct{})}
	d.parkCh <- pk
	<-pk.rel
}

func (d *driver) note(p *park) {
	d.parked[p.actor] = p
	d.events = append(d.events, fmt.Sprintf("a%d %s %d", p.actor, p.ev, p.i))
}

func (d *driver) waitPark(actor int, timeout time.Duration) *park {
	deadline := time.After(timeout)
	for {
		if p, ok := d.parked[actor]; ok {
			return p
		}
		select {
		case p := <-d.parkCh:
			d.note(p)
		case <-deadline:
			return nil
		}
	}
}

func (d *driver) release(actor int) {
	p := d.parked[actor]
	delete(d.parked, actor)
	close(p.rel)
}

func (d *driver) releaseAll() {
	d.free.Store(true)
	for {
		select {
		case p := <-d.parkCh:
			d.note(p)
			continue
		default:
		}
		break
	}
	for a := range d.parked {
		d.release(a)
	}
}

func init() {
	core.RegisterJob("c11.check", func(raw json.RawMessage) (any, error) {
		var j CheckJob
		if err := json.Unmarshal(raw, &j); err != nil {
			return nil, err
		}
		return runCheck(&j), nil
	})
}

type checkOut struct {
	bc    *vm.BytecodeFunction
	diags []string
	fail  bool
	pan   string
}

func runCheck(j *CheckJob) *CheckResult {
	elkrun.Setup()
	start := time.Now()
	res := &CheckResult{At: -1}
	defer func() { res.WallMs = int(time.Since(start).Milliseconds()) }()
	stepWait := time.Duration(j.StepMs) * time.Millisecond
	if stepWait == 0 {
		stepWait = 10 * time.Second
	}
	d := &driver{job: j, bodyCall: map[int64]int{}, elemType: map[int]string{}, parkCh: make(chan *park, 256), parked: map[int]*park{}}
	if j.Perturb != 0 {
		d.rng = rand.New(rand.NewSource(j.Perturb))
	}
	concurrent.VerifHook = d.hook
	defer func() { concurrent.VerifHook = nil }()

	done := make(chan checkOut, 1)
	go func() {
		var out checkOut
		defer func() {
			if r := recover(); r != nil {
				out.pan = fmt.Sprintf("%v\n%s", r, trim(debug.Stack()))
			}
			done <- out
		}()
		elk.InitGlobalEnvironment()
		checker.MethodCheckConcurrencyLimit = j.Limit
		bc, dl := checker.CheckSource("main.elk", j.Src, nil, bitfield.BitField16{}, nil)
		out.bc = bc
		for _, x := range dl {
			out.diags = append(out.diags, fmt.Sprintf("%s: %s: %s", x.Location.StartPos.String(), x.Severity.String(), x.Message))
		}
		sort.Strings(out.diags)
		out.fail = dl.IsFailure()
	}()

	finish := func(outcome string) *CheckResult {
		d.releaseAll()
		res.Outcome = outcome
		res.Events = d.events
		core.RequestWorkerRestart()
		return res
	}
	var out checkOut
	haveOut := false
	if j.Schedule != nil {
		// the goroutine that calls Foreach parks at foreach.begin of the target call
		p := d.waitPark(0, 6*stepWait)
		if p == nil || p.ev != "foreach.begin" {
			select {
			case out = <-done:
				if out.pan != "" {
					res.Detail = out.pan
					return finish("go_panic")
				}
			default:
			}
			res.Detail = fmt.Sprintf("the checker did not reach foreach.begin of Foreach call %d (hook missing?)", j.Target)
			return finish("unknown_event")
		}
		d.mu.Lock()
		nReal := 0
		for _, e := range d.trace {
			if e.Ev == "foreach.begin" {
				nReal = e.N
			}
		}
		d.mu.Unlock()
		if nReal != j.N {
			res.Detail = fmt.Sprintf("Foreach call %d has %d items, the schedule is for %d", j.Target, nReal, j.N)
			return finish("unknown_event")
		}
		for i, s := range j.Schedule {
			want := fmt.Sprintf("a%d %s %d", s.A, s.E, s.I)
			if s.K == "go" || s.K == "fire" {
				if d.waitPark(s.A, stepWait) == nil {
					res.At = i
					res.Want = "a" + strconv.Itoa(s.A) + " at a gate before " + s.E
					res.Detail = "the actor is not at a gate although the spec lets it move"
					return finish("blocked")
				}
				d.release(s.A)
				if s.K == "fire" {
					continue
				}
			}
			p := d.waitPark(s.A, stepWait)
			if p == nil {
				select {
				case out = <-done:
					haveOut = true
				default:
				}
				if haveOut && out.pan != "" {
					res.At = i
					res.Detail = out.pan
					return finish("go_panic")
				}
				p = d.waitPark(s.A, 3*stepWait)
			}
			if p == nil {
				res.At = i
				res.Want = want
				res.Detail = "the actor did not reach its next event although the spec enables the step and nothing else has to move first"
				return finish("blocked")
			}
			if !knownEvents[p.ev] {
				res.At = i
				res.Got = p.ev
				return finish("unknown_event")
			}
			if got := fmt.Sprintf("a%d %s %d", p.actor, p.ev, p.i); got != want {
				res.At = i
				res.Want = want
				res.Got = got
				return finish("mismatch")
			}
		}
		d.free.Store(true)
	}
	if !haveOut {
		select {
		case out = <-done:
		case <-time.After(6 * stepWait):
			res.Detail = "the check did not return after the schedule (or within 60 s of a free run)"
			return finish("blocked")
		}
	}
	d.mu.Lock()
	unknown := d.unknown
	tr := append([]TraceEvent{}, d.trace...)
	et := d.elemType[j.Target]
	d.mu.Unlock()
	if unknown != "" {
		res.Got = unknown
		res.Outcome = "unknown_event"
		return res
	}
	if j.Schedule != nil {
		wantT := map[int]string{1: "macroCheckEntry", 2: "methodBodyCheckEntry"}[j.Target]
		if et != wantT {
			res.Detail = fmt.Sprintf("Foreach call %d iterates over %q, expected %q", j.Target, et, wantT)
			res.Outcome = "unknown_event"
			return res
		}
	}
	sort.Slice(tr, func(a, b int) bool { return tr[a].seq < tr[b].seq })
	res.Trace = tr
	if out.pan != "" {
		res.Detail = out.pan
		res.Outcome = "go_panic"
		return res
	}
	res.Diags = out.diags
	res.Accepted = out.bc != nil && !out.fail
	res.Outcome = "ok"
	if !res.Accepted || j.NoRun {
		return res
	}
	// behaviour of the compiled program
	var stdout lockedBuf
	runDone := make(chan string, 1)
	go func() {
		msg := ""
		defer func() {
			if r := recover(); r != nil {
				msg = fmt.Sprintf("go panic: %v", r)
			}
			runDone <- msg
		}()
		v := vm.New(vm.WithStdout(&stdout), vm.WithStderr(&stdout))
		_, err := v.InterpretTopLevel(out.bc)
		if !err.IsUndefined() {
			c, m := elkrun.DescribeError(err)
			msg = c + ": " + m
		}
	}()
	select {
	case msg := <-runDone:
		res.Err = msg
	case <-time.After(20 * time.Second):
		res.Err = "hung"
		core.RequestWorkerRestart()
	}
	res.Stdout = stdout.String()
	return res
}

func trim(b []byte) string {
	if len(b) > 3000 {
		b = b[:3000]
	}
	return string(b)
}

type lockedBuf struct {
	mu sync.Mutex
	b  bytes.Buffer
}

func (l *lockedBuf) Write(p []byte) (int, error) {
	l.mu.Lock()
	defer l.mu.Unlock()
	return l.b.Write(p)
}
func (l *lockedBuf) String() string {
	l.mu.Lock()
	defer l.mu.Unlock()
	return l.b.String()
}
