// Package c11 decides C11 (type checking gives the same verdict under any parallel schedule): spec/ParCheck
// model-checked by TLC, TLC behaviours of concurrent.Foreach imposed on the real checker through blocking
// hooks in concurrent/foreach.go, and trace validation of free-running checks against ParCheckTrace.
package c11

import (
	"bytes"
	"crypto/sha1"
	"encoding/json"
	"fmt"
	"os"
	"path/filepath"
	"sort"
	"strings"
	"sync"
	"time"

	"elkverif/internal/core"
	"elkverif/internal/tlc"
)

func init() {
	core.Register(&core.Check{ID: "C11", Level: "model_checking", Run: run})
}

const invariants = "TypeOK AtMostLimit SemOK AtMostOnce ExactlyOnce ReturnAfterAll DiagsOK CacheOK CodeOK"

func mcModule(configs [][2]int) string {
	var cf []string
	for _, c := range configs {
		cf = append(cf, fmt.Sprintf("<<%d, %d>>", c[0], c[1]))
	}
	return "---- MODULE MC_ParCheck ----\nEXTENDS ParCheck\n" +
		"MCConfigs == {" + strings.Join(cf, ", ") + "}\n" +
		"MCCalls == {<<1, 2>>, <<2, 1>>, <<1, 3>>, <<3, 1>>, <<2, 3>>, <<3, 3>>, <<4, 1>>, <<2, 4>>}\n" +
		"MCHasLocals == {1, 3, 4}\n====\n"
}

func cfgText(internal, record bool, variant, mode string) string {
	b := func(x bool) string {
		if x {
			return "TRUE"
		}
		return "FALSE"
	}
	s := fmt.Sprintf("CONSTANTS\n  Configs <- MCConfigs\n  Calls <- MCCalls\n  HasLocals <- MCHasLocals\n  Internal = %s\n  Record = %s\n  Variant = \"%s\"\n", b(internal), b(record), variant)
	switch mode {
	case "sim":
		return s + "INIT Init\nNEXT NextSim\nINVARIANT EmitAtEnd\nCHECK_DEADLOCK FALSE\n"
	case "live":
		return s + "SPECIFICATION Spec\nVIEW View\nINVARIANTS " + invariants + "\nPROPERTY Termination\nCHECK_DEADLOCK TRUE\n"
	}
	return s + "SPECIFICATION Spec\nVIEW View\nINVARIANTS " + invariants + "\nCHECK_DEADLOCK TRUE\n"
}

type behaviour struct {
	N     int    `json:"n"`
	Limit int    `json:"limit"`
	Hist  []Step `json:"hist"`
	Done  bool   `json:"done"`
}

type observation struct {
	Accepted bool
	Diags    string
	Stdout   string
	Err      string
}

func observe(r *CheckResult) observation {
	return observation{Accepted: r.Accepted, Diags: strings.Join(r.Diags, "\n"), Stdout: r.Stdout, Err: r.Err}
}

func run(c *core.Ctx) error {
	specDir := filepath.Join(core.VerifRoot, "spec", "ParCheck")
	w := c.Workers
	if w > 4 {
		w = 4
	}
	// ---- TLC: negative controls and all interleavings of the bounded instances (in the background)
	type spec struct {
		name          string
		configs       [][2]int
		variant, mode string
		want          string
		workers       int
	}
	runs := []spec{
		{"neg_stale_offset", [][2]int{{2, 2}}, "stale_offset", "bfs", "CodeOK", 1},
		{"neg_no_drain", [][2]int{{2, 2}}, "no_drain", "bfs", "ReturnAfterAll|ExactlyOnce", 1},
		{"neg_unsync_diags", [][2]int{{2, 2}}, "unsync_diags", "bfs", "DiagsOK", 1},
		{"mc_n2", [][2]int{{2, 1}, {2, 2}, {2, 3}, {0, 1}, {1, 1}, {1, 2}}, "ok", "live", "", 2},
		{"mc_n3", [][2]int{{3, 1}, {3, 2}, {3, 3}, {3, 4}}, "ok", "live", "", w},
	}
	if c.Thorough() {
		runs = append(runs, spec{"mc_n4", [][2]int{{4, 1}, {4, 2}, {4, 3}, {4, 4}}, "ok", "bfs", "", w})
	}
	results := make([]*tlc.Result, len(runs))
	errs := make([]error, len(runs))
	var wg sync.WaitGroup
	sem := make(chan bool, 3)
	for i, r := range runs {
		wg.Add(1)
		go func(i int, r spec) {
			defer wg.Done()
			sem <- true
			defer func() { <-sem }()
			results[i], errs[i] = tlc.Run(tlc.Opts{SpecDir: specDir, Module: "MC_ParCheck", Cfg: r.name + ".cfg", Scratch: c.Scratch, Workers: r.workers,
				Timeout: time.Duration(c.Pick(12, 40)) * time.Minute, HeapMB: 4000,
				Extra: map[string][]byte{"MC_ParCheck.tla": []byte(mcModule(r.configs)), r.name + ".cfg": []byte(cfgText(true, false, r.variant, r.mode))}})
		}(i, r)
	}

	// ---- sources
	sources := FixedSources()
	nRandom := c.Pick(8, 40)
	for i := 0; i < nRandom; i++ {
		sources = append(sources, RandomSource(c.Rand, 2+i%5, fmt.Sprintf("random-%d-%d", c.Seed, i)))
	}
	// ---- behaviours of Foreach (protocol only: the bodies run freely between start and done), by TLC simulation
	limits := []int{1, 2, 3, 100}
	var configs [][2]int
	for n := 2; n <= 6; n++ {
		for _, l := range limits {
			configs = append(configs, [2]int{n, l})
		}
	}
	nSim := c.Pick(160, 800)
	var behs []behaviour
	seen := map[[20]byte]bool{}
	sim, err := tlc.Run(tlc.Opts{SpecDir: specDir, Module: "MC_ParCheck", Cfg: "sim.cfg", Scratch: c.Scratch, Workers: 1, Timeout: 10 * time.Minute,
		Simulate: fmt.Sprintf("num=%d", nSim), Depth: 600, Seed: c.Seed, HeapMB: 2000,
		Extra: map[string][]byte{"MC_ParCheck.tla": []byte(mcModule(configs)), "sim.cfg": []byte(cfgText(false, true, "ok", "sim"))},
		OnGen: func(rec []byte) {
			h := sha1.Sum(rec)
			if seen[h] {
				return
			}
			seen[h] = true
			var b behaviour
			if json.Unmarshal(rec, &b) == nil {
				behs = append(behs, b)
			}
		}})
	if err != nil {
		return err
	}
	if len(behs) == 0 {
		return core.Inconclusivef("TLC simulation produced no behaviour: %s %s", sim.Verdict, tail(sim.Output, 1500))
	}
	c.Logf("TLC simulation: %d distinct behaviours of Foreach (%.0fs)", len(behs), sim.WallS)
	debug := os.Getenv("C11_DEBUG") != "" // developer aid: few schedules, every job result logged
	if debug && len(behs) > 4 {
		behs = behs[:4]
	}

	// ---- jobs: reference (Limit = 1, definition order), scheduled runs, free runs
	type meta struct {
		kind   string // ref | sched | free
		src    int
		limit  int
		beh    int
		target int
	}
	var jobs []core.Job
	var metas []meta
	add := func(m meta, j CheckJob) {
		metas = append(metas, m)
		jobs = append(jobs, core.Job{Kind: "c11.check", TimeoutMs: 240000, Payload: j})
	}
	byN := map[int][]int{}
	byMacroN := map[int][]int{}
	for i, s := range sources {
		add(meta{kind: "ref", src: i, limit: 1}, CheckJob{Src: s.Text, Limit: 1})
		byN[len(s.Methods)] = append(byN[len(s.Methods)], i)
		if s.Macros > 0 {
			byMacroN[1+s.Macros] = append(byMacroN[1+s.Macros], i)
		}
	}
	rot := map[int]int{}
	for bi, b := range behs {
		if !b.Done {
			return core.Inconclusivef("simulation of the verified model ended in a non-final state (n=%d limit=%d)", b.N, b.Limit)
		}
		cands := byN[b.N]
		if len(cands) > 0 {
			si := cands[rot[b.N]%len(cands)]
			rot[b.N]++
			add(meta{kind: "sched", src: si, limit: b.Limit, beh: bi, target: 2}, CheckJob{Src: sources[si].Text, Limit: b.Limit, Target: 2, N: b.N, Schedule: b.Hist})
		}
		// the same schedule on the macro bodies of a source with that many macros
		if mc := byMacroN[b.N]; len(mc) > 0 && bi%3 == 0 {
			si := mc[rot[-b.N]%len(mc)]
			rot[-b.N]++
			add(meta{kind: "sched", src: si, limit: b.Limit, beh: bi, target: 1}, CheckJob{Src: sources[si].Text, Limit: b.Limit, Target: 1, N: b.N, Schedule: b.Hist})
		}
	}
	nFree := 0
	for i, s := range sources {
		for k, l := range limits {
			if c.Thorough() || (i+k)%2 == 0 {
				add(meta{kind: "free", src: i, limit: l}, CheckJob{Src: s.Text, Limit: l, Perturb: c.Seed*104729 + int64(i*10+k) + 1})
				nFree++
			}
		}
	}
	c.Logf("%d sources; %d reference, %d scheduled, %d free-running checks", len(sources), len(sources), len(jobs)-len(sources)-nFree, nFree)

	pool := c.NewPool(c.Workers)
	res := pool.Map(jobs, nil)
	// a worker that died without a Go fatal-error/panic banner was killed from outside (OOM, a stray signal):
	// that is not an observation of the checker -- run the job again, alone
	for k := range res {
		if res[k].Crashed && !core.IsGoFatal(res[k].CrashLog) {
			c.Logf("worker died without a Go banner (job %d), running it again", k)
			res[k] = pool.Map(jobs[k:k+1], nil)[0]
			if res[k].Crashed && !core.IsGoFatal(res[k].CrashLog) {
				return core.Inconclusivef("worker process killed from outside twice (job %d): %s", k, tail(res[k].CrashLog, 500))
			}
		}
	}

	refs := map[int]observation{}
	var outs []*CheckResult
	for k, jr := range res {
		m := metas[k]
		s := sources[m.src]
		rec := map[string]any{"stage": m.kind, "source": s.Name, "text": s.Text, "limit": m.limit}
		if m.kind == "sched" {
			rec["schedule"] = behs[m.beh].Hist
			rec["target"] = m.target
		}
		if jr.Crashed {
			rec["kind"] = "go_crash"
			rec["summary"] = fmt.Sprintf("%s Limit=%d (%s): the checker crashed the process", s.Name, m.limit, m.kind)
			rec["log"] = tail(jr.CrashLog, 4000)
			c.Violation(rec)
			outs = append(outs, nil)
			continue
		}
		if jr.Timeout {
			return core.Inconclusivef("check job timed out (%s Limit=%d %s)", s.Name, m.limit, m.kind)
		}
		if jr.Err != "" || jr.Panic != "" {
			return core.Inconclusivef("check job failed: %s %s", jr.Err, jr.Panic)
		}
		var r CheckResult
		if err := jr.Decode(&r); err != nil {
			return err
		}
		outs = append(outs, &r)
		if debug {
			b, _ := json.Marshal(r)
			c.Logf("job %d %+v: %s", k, m, tail(string(b), 1500))
		}
		if m.kind == "ref" {
			if r.Outcome != "ok" || !r.Accepted {
				return core.Inconclusivef("reference check of %s (Limit=1) is outside the generator's domain: %s accepted=%v %s %v", s.Name, r.Outcome, r.Accepted, r.Detail, r.Diags)
			}
			refs[m.src] = observe(&r)
		}
	}
	okSched, okFree := 0, 0
	covered := map[string]bool{}
	var traces [][]TraceEvent
	var traceMeta []int
	for k, r := range outs {
		m := metas[k]
		if r == nil || m.kind == "ref" {
			continue
		}
		s := sources[m.src]
		where := fmt.Sprintf("%s Limit=%d (%s)", s.Name, m.limit, m.kind)
		rec := map[string]any{"stage": m.kind, "source": s.Name, "text": s.Text, "limit": m.limit, "result": r}
		if m.kind == "sched" {
			rec["schedule"] = behs[m.beh].Hist
			rec["target"] = m.target
			r.Trace = nil
		}
		switch r.Outcome {
		case "ok":
		case "mismatch":
			rec["kind"] = "trace_rejected"
			rec["summary"] = fmt.Sprintf("%s step %d: the spec allows only [%s], Foreach did [%s]", where, r.At, r.Want, r.Got)
			c.Violation(rec)
			continue
		case "blocked":
			rec["kind"] = "blocked_where_enabled"
			rec["summary"] = fmt.Sprintf("%s step %d: %s -- %s", where, r.At, r.Want, r.Detail)
			c.Violation(rec)
			continue
		case "go_panic":
			rec["kind"] = "go_crash"
			rec["summary"] = where + ": the checker panicked: " + firstLine(r.Detail)
			c.Violation(rec)
			continue
		default:
			return core.Inconclusivef("binding broken (%s): %s %s (%s)", r.Outcome, r.Got, r.Detail, where)
		}
		ref := refs[m.src]
		got := observe(r)
		if got != ref {
			rec["kind"] = "schedule_dependent"
			what := "output"
			switch {
			case got.Accepted != ref.Accepted:
				what = "verdict"
			case got.Diags != ref.Diags:
				what = "diagnostics"
			case got.Err != ref.Err:
				what = "runtime error"
			}
			rec["what_differs"] = what
			rec["reference"] = ref
			rec["summary"] = fmt.Sprintf("%s: %s differs from the sequential check (Limit=1, definition order): got %s, reference %s", where, what, short(got, what), short(ref, what))
			c.Violation(rec)
			continue
		}
		if m.kind == "sched" {
			okSched++
			covered[fmt.Sprintf("n=%d limit=%d target=%d", behs[m.beh].N, m.limit, m.target)] = true
			if okSched%97 == 1 {
				c.Sample(map[string]any{"kind": "scheduled check", "source": s.Name, "limit": m.limit, "target_foreach": m.target, "schedule_len": len(behs[m.beh].Hist),
					"order": order(behs[m.beh].Hist), "diagnostics": r.Diags, "stdout": r.Stdout})
			}
		} else {
			okFree++
			traces = append(traces, r.Trace)
			traceMeta = append(traceMeta, k)
		}
	}
	c.Cov("scheduled_checks_conform", okSched)
	c.Cov("free_checks_equal_reference", okFree)
	c.Cov("instances_replayed", len(covered))
	c.Cov("sources", len(sources))
	c.Logf("scheduled: %d conform and equal the reference (%d (n,limit,target) instances); free: %d equal the reference; %d violations", okSched, len(covered), okFree, c.Violations())

	if err := stressStage(c, pool); err != nil {
		return err
	}

	// ---- trace validation of the free-running checks
	okTraces := 0
	if len(traces) > 0 {
		// negative control: a trace in which a body finishes after Foreach returned must be rejected
		if bad := corruptTrace(traces[0]); bad != nil {
			v, stuck, err := validate(c, specDir, [][]TraceEvent{bad})
			if err != nil {
				return err
			}
			if v != "postcondition" && v != "invariant" {
				return core.Inconclusivef("negative control failed: ParCheckTrace accepted a trace in which a body never reaches foreach.done (%s %s)", v, stuck)
			}
			c.Note("negative control: a recorded trace from which one foreach.done line was removed (Foreach returns before that body finished) is rejected by ParCheckTrace (TLC)")
		}
		const per = 10
		for i := 0; i < len(traces); i += per {
			end := i + per
			if end > len(traces) {
				end = len(traces)
			}
			v, stuck, err := validate(c, specDir, traces[i:end])
			if err != nil {
				return err
			}
			if v == "ok" {
				okTraces += end - i
				continue
			}
			if v != "postcondition" && v != "invariant" {
				return core.Inconclusivef("TLC trace validation failed: %s %s", v, stuck)
			}
			for k := i; k < end; k++ {
				v1, stuck1, err := validate(c, specDir, traces[k:k+1])
				if err != nil {
					return err
				}
				if v1 == "ok" {
					okTraces++
					continue
				}
				if v1 != "postcondition" && v1 != "invariant" {
					return core.Inconclusivef("TLC trace validation failed: %s %s", v1, stuck1)
				}
				m := metas[traceMeta[k]]
				c.Violation(map[string]any{"stage": "free", "kind": "trace_rejected", "source": sources[m.src].Name, "limit": m.limit,
					"summary": fmt.Sprintf("%s Limit=%d: the recorded foreach events are not a behaviour of ParCheck (%s): %s", sources[m.src].Name, m.limit, v1, stuck1),
					"trace": traces[k]})
			}
		}
		c.Logf("trace validation: %d of %d free-running checks accepted by ParCheckTrace", okTraces, len(traces))
	}
	c.Cov("free_traces_accepted", okTraces)

	// ---- collect the model-checking results
	wg.Wait()
	states, trans := 0, 0
	var notes []string
	for i, r := range runs {
		if errs[i] != nil {
			return errs[i]
		}
		rr := results[i]
		if r.want != "" {
			if rr.Verdict != "invariant" || !strings.Contains("|"+r.want+"|", "|"+rr.What+"|") {
				return core.Inconclusivef("negative control %s: TLC should report %s violated, got %s %s\n%s", r.name, r.want, rr.Verdict, rr.What, tail(rr.Output, 1500))
			}
			c.Note(fmt.Sprintf("negative control: ParCheck with Variant=%s violates %s (TLC)", r.variant, rr.What))
			continue
		}
		if !rr.OK {
			return core.Inconclusivef("TLC: ParCheck (%s) violates %s %s\n%s", r.name, rr.Verdict, rr.What, tail(rr.ErrorTrace, 3000))
		}
		states += int(rr.Distinct)
		trans += int(rr.Generated)
		notes = append(notes, fmt.Sprintf("%s configs %v: %d distinct states, %d transitions, depth %d, %.0fs", r.name, r.configs, rr.Distinct, rr.Generated, rr.Depth, rr.WallS))
		c.Logf("TLC %s: %d distinct states, depth %d, %.0fs", r.name, rr.Distinct, rr.Depth, rr.WallS)
	}
	c.Cov("states", states)
	c.Cov("transitions", trans)
	c.Cov("instances", notes)
	c.Cov("spec", "spec/ParCheck/ParCheck.tla: invariants "+invariants+"; PROPERTY Termination under WF; deadlock check; ParCheckTrace.tla for recorded foreach events")
	c.Cov("traces_validated_against_impl", okSched+okTraces)
	if okSched+okTraces == 0 && c.Violations() == 0 {
		return core.Inconclusivef("nothing compared")
	}
	return nil
}

func validate(c *core.Ctx, specDir string, traces [][]TraceEvent) (verdict, stuck string, err error) {
	var buf bytes.Buffer
	for _, t := range traces {
		for _, e := range t {
			if e.Ev == "foreach.released" {
				continue
			}
			b, _ := json.Marshal(e)
			buf.Write(b)
			buf.WriteByte('\n')
		}
	}
	r, err := tlc.Run(tlc.Opts{SpecDir: specDir, Module: "ParCheckTrace", Cfg: "ParCheckTrace.cfg", Scratch: c.Scratch, Workers: 1, Timeout: 10 * time.Minute,
		HeapMB: 3000, KeepOut: true, Extra: map[string][]byte{"parcheck_trace.ndjson": buf.Bytes()}})
	if err != nil {
		return "", "", err
	}
	for _, l := range strings.Split(r.Output, "\n") {
		if strings.HasPrefix(l, `<<"STUCK"`) {
			stuck = l
		}
	}
	if r.Verdict == "invariant" {
		stuck = r.What + " " + stuck
	}
	if r.Verdict == "error" || r.Verdict == "timeout" {
		return r.Verdict, tail(r.What+"\n"+r.Output, 1500), nil
	}
	return r.Verdict, stuck, nil
}

// corruptTrace moves the last foreach.return in front of the last foreach.done before it.
func corruptTrace(t []TraceEvent) []TraceEvent {
	ret := -1
	for i := len(t) - 1; i >= 0; i-- {
		if t[i].Ev == "foreach.return" {
			ret = i
			break
		}
	}
	if ret < 0 {
		return nil
	}
	lastDone := -1
	for i := ret - 1; i >= 0; i-- {
		if t[i].Ev == "foreach.done" {
			lastDone = i
			break
		}
		if t[i].Ev == "foreach.begin" {
			break
		}
	}
	if lastDone < 0 {
		return nil
	}
	out := append([]TraceEvent{}, t[:lastDone]...)
	// drop the done line: the body never reports having finished before the return
	out = append(out, t[lastDone+1:]...)
	return out
}

// order summarises a schedule as the sequence of start/finish events of the bodies.
func order(h []Step) string {
	var p []string
	for _, s := range h {
		switch s.E {
		case "run":
			p = append(p, fmt.Sprintf("S%d", s.A))
		case "foreach.released":
			p = append(p, fmt.Sprintf("F%d", s.A))
		}
	}
	return strings.Join(p, " ")
}

func short(o observation, what string) string {
	s := ""
	switch what {
	case "verdict":
		s = fmt.Sprintf("accepted=%v", o.Accepted)
	case "diagnostics":
		s = o.Diags
	case "runtime error":
		s = o.Err
	default:
		s = o.Stdout
	}
	s = strings.ReplaceAll(s, "\n", " | ")
	if len(s) > 300 {
		s = s[:300] + "..."
	}
	return "[" + s + "]"
}

func firstLine(s string) string {
	if i := strings.IndexByte(s, '\n'); i >= 0 {
		return s[:i]
	}
	return s
}

func tail(s string, n int) string {
	if len(s) <= n {
		return s
	}
	return s[len(s)-n:]
}

var _ = sort.Strings
