package c27

import (
	"bytes"
	"encoding/json"
	"fmt"
	"runtime/debug"
	"strings"

	"github.com/elk-language/elk"
	"github.com/elk-language/elk/types/checker"
	"github.com/elk-language/elk/vm"

	"elkverif/internal/core"
	"elkverif/internal/elkrun"
)

// A REPL session through the public API, exactly the sequence of calls of repl/repl.go evaluate:
// one incremental checker and one VM thread for the whole session; per input CheckSourceBytecode,
// on failure ClearErrors and nothing else, otherwise InterpretREPL and ResetError after a runtime
// error.

type SessionJob struct {
	Inputs []string `json:"inputs"`
}

type Step struct {
	Accepted bool   `json:"accepted"`
	Diags    string `json:"diags,omitempty"`
	Stdout   string `json:"stdout"`
	Value    string `json:"value,omitempty"`
	ErrClass string `json:"err_class,omitempty"`
	ErrMsg   string `json:"err_msg,omitempty"`
	GoPanic  string `json:"go_panic,omitempty"`
	Stage    string `json:"stage,omitempty"`
}

type SessionResult struct {
	Steps []Step `json:"steps"` // shorter than the inputs if a Go panic ended the session
}

func init() {
	core.RegisterJob("c27.session", func(p json.RawMessage) (any, error) {
		var j SessionJob
		if err := json.Unmarshal(p, &j); err != nil {
			return nil, err
		}
		return RunSession(j.Inputs), nil
	})
}

func RunSession(inputs []string) *SessionResult {
	elkrun.Setup()
	checker.MethodCheckConcurrencyLimit = 1
	res := &SessionResult{}
	elk.InitGlobalEnvironment()
	ch := checker.New()
	ch.SetAdditionalAbortChecks(true)
	ch.SetIncremental(true)
	var stdout, stderr bytes.Buffer
	v := vm.New(vm.WithStdout(&stdout), vm.WithStderr(&stderr))
	for i, in := range inputs {
		var st Step
		stage := "check"
		func() {
			defer func() {
				if r := recover(); r != nil {
					st.GoPanic = fmt.Sprintf("%v\n%s", r, trim(string(debug.Stack())))
					st.Stage = stage
				}
			}()
			fn, dl := ch.CheckSourceBytecode(fmt.Sprintf("<repl:%d>", i), in)
			if dl != nil {
				var lines []string
				for _, x := range dl {
					lines = append(lines, fmt.Sprintf("%s: %s", x.Location.StartPos.String(), x.Message))
				}
				st.Diags = strings.Join(lines, "\n")
				failure := dl.IsFailure()
				ch.ClearErrors()
				if failure {
					return
				}
			}
			if fn == nil {
				return
			}
			st.Accepted = true
			stage = "run"
			stdout.Reset()
			val, err := v.InterpretREPL(fn)
			st.Stdout = stdout.String()
			stage = "report"
			if !err.IsUndefined() {
				st.ErrClass, st.ErrMsg = elkrun.DescribeError(err)
				v.ResetError()
				return
			}
			st.Value = val.Inspect()
		}()
		res.Steps = append(res.Steps, st)
		if st.GoPanic != "" {
			break
		}
	}
	return res
}

func trim(s string) string {
	if len(s) > 5000 {
		return s[:5000]
	}
	return s
}
