// Package c27: REPL sessions behave like batch runs of their accepted inputs. Specification: spec/Repl.
//
//  1. TLC model-checks spec/Repl/Repl.tla (snapshot / partial check / restore / incremental run
//     against the batch definition) on every history up to a bounded length over the input alphabet
//     and prints, per completed input, the predicted verdict, output, error and the answers of the
//     four probe inputs; longer histories come from TLC's simulation mode;
//  2. every maximal history is replayed as a real session through the public API sequence of
//     repl/repl.go evaluate (session.go), once plain with the probes at the end and once with the
//     probes after every input; every step is compared with the model;
//  3. for every accepted input the accepted prefix is also run as ONE program by the real batch
//     pipeline (CheckSource + InterpretTopLevel) and the session's output for that input is
//     compared with the output of its group in the program.
package c27

import (
	"encoding/json"
	"fmt"
	"os"
	"path/filepath"
	"strconv"
	"strings"
	"time"

	"elkverif/internal/core"
	"elkverif/internal/elkrun"
	"elkverif/internal/tlc"
)

func init() {
	core.Register(&core.Check{ID: "C27", Level: "model_checking", Run: run})
}

const invariants = "TypeOK NoTrace RejectedNeverRuns SessionIsBatch CheckerAgreesWithRuntime"

const prelude = "def o(v: any) then println \"#{v}\"\ndef t(s: String) then println s\ndef boom: Int ! Symbol then throw :boom"

// the concrete text of the abstract inputs of Repl.tla (Atoms)
var text = map[string]string{
	"dm1":       "def m: Int then 1",
	"dm2":       "def m: Int then 2",
	"dc1":       "class A\n  def f: Int then 1\nend",
	"dc2":       "class A\n  def f: Int then 2\nend",
	"k1":        "const K = 1",
	"k2":        "const K = 2",
	"lx":        "x := 1",
	"inc":       "x = x + 1\no(x)",
	"boom":      "o(1 + try boom())",
	"incboom":   "x = x + 1\no(x)\no(x + try boom())",
	"bad_body":  "def m: Int then \"oops\"",
	"bad_class": "class A\n  def f: Int then \"oops\"\nend",
	"bad_mix":   "class A\n  def f: Int then 9\nend\ndef m: Int then 9\nconst K = 9\nx := 9\no(1 + \"a\")",
	"bad_types": "def m: String then \"s\"\nx := \"s\"\no(1 + \"a\")",
	"us":         "module Foo\n  def bar: Int then 3\nend\nusing Foo::bar",
	"dv":         "class P\n  val @x: Int\n  init(@x); end\n  def x: Int then @x\nend",
	"bad_valset": "class P\n  def set(v: Int) then @x = v\nend",
	"pu":         "o(bar() + 100)",
	"pp":         "o(P(5).x + 100)",
	"pm":        "o(m() + 100)",
	"pa":        "o(A().f + 100)",
	"pk":        "o(K + 100)",
	"px":        "o(x + 100)",
}

var probes = []string{"pm", "pa", "pk", "px", "pu", "pp"}

var throws = map[string]bool{"boom": true, "incboom": true}

type answer struct {
	V   string `json:"v"`
	Out []int  `json:"out"`
}

// rec is the GEN record of one completed input.
type rec struct {
	Hist   []string `json:"hist"`
	Acc    []string `json:"acc"`
	V      string   `json:"v"`
	Out    []int    `json:"out"`
	Err    bool     `json:"err"`
	Probes []answer `json:"probes"`
}

func cfgText(alphabet []string, maxLen int, devs []string, emit bool) string {
	q := func(l []string) string {
		o := make([]string, len(l))
		for i, s := range l {
			o[i] = strconv.Quote(s)
		}
		return "{" + strings.Join(o, ", ") + "}"
	}
	e := "FALSE"
	if emit {
		e = "TRUE"
	}
	return fmt.Sprintf("CONSTANTS\n  Alphabet = %s\n  MaxLen = %d\n  Deviations = %s\n  Emit = %s\nINIT Init\nNEXT Next\nINVARIANTS %s\nCHECK_DEADLOCK TRUE\n",
		q(alphabet), maxLen, q(devs), e, invariants)
}

func key(h []string) string { return strings.Join(h, " ") }

func run(c *core.Ctx) error {
	if f := os.Getenv("VERIF_C27_SESSION"); f != "" {
		return devSession(c, f)
	}
	specDir := filepath.Join(core.VerifRoot, "spec", "Repl")
	alphabet := []string{"dm1", "dm2", "dc1", "k1", "k2", "lx", "inc", "boom", "incboom", "bad_body", "bad_class", "bad_mix", "bad_types", "us", "dv", "bad_valset"}
	maxLen := c.Pick(3, 4)
	simLen := c.Pick(5, 6)
	nSim := c.Pick(100, 3000)
	if c.Thorough() {
		alphabet = append(alphabet, "dc2")
	}

	// ---- negative control of the specification: a Restore that forgets one component must be caught
	for _, dev := range []string{"restore_skips_locals", "restore_skips_methods"} {
		r, err := tlc.Run(tlc.Opts{SpecDir: specDir, Module: "Repl", Cfg: "ctl.cfg", Scratch: c.Scratch, Workers: 2, Timeout: 30 * time.Minute,
			Extra: map[string][]byte{"ctl.cfg": []byte(cfgText(alphabet, 2, []string{dev}, false))}})
		if err != nil {
			return err
		}
		if r.Verdict != "invariant" {
			return core.Inconclusivef("negative control failed: with deviation %s TLC should find an invariant violated, got %s %s", dev, r.Verdict, r.What)
		}
		c.Note(fmt.Sprintf("negative control: with deviation %s TLC finds invariant %s violated", dev, r.What))
	}

	// ---- 1. model checking: every history up to maxLen; simulation: longer histories
	recs := map[string]*rec{}
	onGen := func(b []byte) {
		var r rec
		if json.Unmarshal(b, &r) == nil {
			recs[key(r.Hist)] = &r
		}
	}
	t0 := time.Now()
	mc, err := tlc.Run(tlc.Opts{SpecDir: specDir, Module: "Repl", Cfg: "mc.cfg", Scratch: c.Scratch, Workers: c.Workers, Timeout: 40 * time.Minute,
		Coverage: true, Extra: map[string][]byte{"mc.cfg": []byte(cfgText(alphabet, maxLen, nil, true))}, OnGen: onGen})
	if err != nil {
		return err
	}
	if !mc.OK {
		return core.Inconclusivef("TLC: Repl.tla violates %s %s\n%s", mc.Verdict, mc.What, tail(mc.ErrorTrace, 3000))
	}
	for _, a := range []string{"Submit", "CheckAtom", "Restore", "Accept", "ExecAtom", "Finish"} {
		if mc.ActionCov[a] == 0 {
			return core.Inconclusivef("vacuous model: action %s never fired (coverage %v)", a, mc.ActionCov)
		}
	}
	c.Cov("states", int(mc.Distinct))
	c.Cov("transitions", int(mc.Generated))
	c.Cov("spec", fmt.Sprintf("spec/Repl/Repl.tla: invariants %s; deadlock check; every history of length <= %d over %d inputs", invariants, maxLen, len(alphabet)))
	var histories [][]string
	for _, r := range recs {
		if len(r.Hist) == maxLen {
			histories = append(histories, r.Hist)
		}
	}
	nExh := len(histories)
	c.Logf("TLC: %d distinct states, %d complete histories of length %d, %.0fs", mc.Distinct, nExh, maxLen, time.Since(t0).Seconds())
	sim, err := tlc.Run(tlc.Opts{SpecDir: specDir, Module: "Repl", Cfg: "sim.cfg", Scratch: c.Scratch, Workers: 1, Timeout: 30 * time.Minute,
		Simulate: fmt.Sprintf("num=%d", nSim), Depth: simLen*12 + 2, Seed: c.Seed,
		Extra: map[string][]byte{"sim.cfg": []byte(cfgText(alphabet, simLen, nil, true))}, OnGen: onGen})
	if err != nil {
		return err
	}
	if !sim.OK {
		return core.Inconclusivef("TLC simulation: %s %s\n%s", sim.Verdict, sim.What, tail(sim.Output, 2000))
	}
	for _, r := range recs {
		if len(r.Hist) == simLen {
			histories = append(histories, r.Hist)
		}
	}
	c.Logf("TLC simulation: %d histories of length %d", len(histories)-nExh, simLen)
	if nExh == 0 || len(recs) == 0 {
		return core.Inconclusivef("TLC produced no history")
	}
	sortHistories(histories)

	// ---- 2./3. sessions (two variants per history) and batch programs (one per accepted prefix)
	type sess struct {
		hist    []string
		variant string
		inputs  []string // names, after the prelude
	}
	var sessions []sess
	var jobs []core.Job
	// the variant with the probes after every input costs twice as much: a seeded sample of the
	// exhaustive histories in the quick tier, all of them in the thorough tier
	if limit := c.Pick(2600, 12000); len(histories) > limit {
		// TLC has checked every history; replaying all 41 000 of the thorough tier takes more than two hours on a
		// loaded machine, so the real sessions are a seeded sample of them
		keep := histories[:0:0]
		for _, i := range c.SampleIdx(len(histories), limit) {
			keep = append(keep, histories[i])
		}
		histories = keep
	}
	interleave := map[int]bool{}
	for _, i := range c.SampleIdx(len(histories), c.Pick(300, 3000)) {
		interleave[i] = true
	}
	for hi, h := range histories {
		plain := append(append([]string{}, h...), probes...)
		var inter []string
		for _, i := range h {
			inter = append(append(inter, i), probes...)
		}
		variants := []sess{{h, "probes_at_end", plain}}
		if interleave[hi] || hi >= nExh {
			variants = append(variants, sess{h, "probes_after_every_input", inter})
		}
		for _, s := range variants {
			sessions = append(sessions, s)
			in := []string{prelude}
			for _, n := range s.inputs {
				in = append(in, text[n])
			}
			jobs = append(jobs, core.Job{Kind: "c27.session", Payload: SessionJob{Inputs: in}, TimeoutMs: 120000})
		}
	}
	batchIdx := map[string]int{} // accepted prefix -> job index
	var batchKeys []string
	for _, h := range histories {
		for k := 1; k <= len(h); k++ {
			r := recs[key(h[:k])]
			if r == nil {
				return core.Inconclusivef("no model record for the prefix %v", h[:k])
			}
			if r.V == "accepted" {
				if _, ok := batchIdx[key(r.Acc)]; !ok {
					batchIdx[key(r.Acc)] = len(jobs)
					batchKeys = append(batchKeys, key(r.Acc))
					jobs = append(jobs, core.Job{Kind: "elk", Payload: elkrun.Job{Src: program(r.Acc), AbortCheck: true}, TimeoutMs: 120000})
				}
			}
		}
	}
	c.Logf("%d sessions and %d batch programs to run", len(sessions), len(batchKeys))
	t1 := time.Now()
	pool := c.NewPool(c.Workers)
	results := pool.Map(jobs, nil)
	c.Logf("real runs: %.0fs", time.Since(t1).Seconds())

	// batch observations
	type batchObs struct {
		ok     bool
		lines  []string
		thrown bool
		src    string
		why    string
	}
	batch := map[string]*batchObs{}
	ood := 0
	for _, k := range batchKeys {
		jr := results[batchIdx[k]]
		acc := strings.Fields(k)
		bo := &batchObs{src: program(acc)}
		batch[k] = bo
		if jr.Crashed || jr.Timeout || jr.Err != "" || jr.Panic != "" {
			bo.why = "worker: " + jr.Err + jr.Panic + firstLine(jr.CrashLog)
			continue
		}
		var er elkrun.Result
		if err := jr.Decode(&er); err != nil {
			return err
		}
		switch er.Outcome() {
		case "ok":
			bo.lines, bo.thrown, bo.ok = lastGroup(er.Stdout, len(acc))
			if !bo.ok {
				bo.why = "markers missing in " + er.Stdout
			}
		case "rejected":
			ood++
			bo.why = "rejected as one program: " + firstLine(er.Diags)
		default:
			bo.why = er.Outcome() + ": " + er.ErrClass + " " + er.ErrMsg + firstLine(er.GoPanic)
		}
	}

	// ---- compare
	agreeSteps, agreeSessions, batchCompared := 0, 0, 0
	for si, s := range sessions {
		jr := results[si]
		base := map[string]any{"history": s.hist, "variant": s.variant, "inputs": texts(s.inputs)}
		if jr.Timeout || jr.Err != "" {
			return core.Inconclusivef("session job failed (%v): timeout=%v %s", s.hist, jr.Timeout, jr.Err)
		}
		if jr.Crashed || jr.Panic != "" {
			base["kind"] = "go_crash"
			base["summary"] = fmt.Sprintf("the session %v killed the process: %s", s.inputs, firstLine(jr.CrashLog+jr.Panic))
			base["log"] = jr.CrashLog + jr.Panic
			c.Violation(base)
			continue
		}
		var sr SessionResult
		if err := jr.Decode(&sr); err != nil {
			return err
		}
		if len(sr.Steps) == 0 || !sr.Steps[0].Accepted {
			return core.Inconclusivef("the prelude was not accepted: %+v", sr.Steps)
		}
		bad := false
		pos := 0      // inputs of the history consumed so far
		probeNo := -1 // index of the probe inside the current probe block
		for k, name := range s.inputs {
			isProbe := strings.HasPrefix(name, "p") && len(name) == 2
			if isProbe {
				probeNo++
			} else {
				pos++
				probeNo = -1
			}
			r := recs[key(s.hist[:pos])]
			where := fmt.Sprintf("input %d (%s) of %v [%s]", k+1, name, s.inputs, s.variant)
			v := cp(base)
			v["step"] = k + 1
			v["input"] = name
			if k+1 >= len(sr.Steps) {
				v["kind"] = "go_panic"
				v["summary"] = where + ": the session ended early"
				c.Violation(v)
				bad = true
				break
			}
			st := sr.Steps[k+1]
			v["observed"] = st
			if st.GoPanic != "" {
				v["kind"] = "go_panic"
				v["summary"] = fmt.Sprintf("%s: Go panic in %s: %s", where, st.Stage, firstLine(st.GoPanic))
				c.Violation(v)
				bad = true
				break
			}
			// the model's answer for this input
			wantV, wantOut, wantErr := r.V, r.Out, r.Err
			if isProbe {
				wantV, wantOut, wantErr = r.Probes[probeNo].V, r.Probes[probeNo].Out, false
				v["model_state_after"] = s.hist[:pos]
			}
			v["predicted"] = map[string]any{"verdict": wantV, "out": wantOut, "err": wantErr}
			gotV := "rejected"
			if st.Accepted {
				gotV = "accepted"
			}
			gotOut := strings.Fields(st.Stdout)
			switch {
			case gotV != wantV && isProbe:
				v["kind"] = "trace_of_rejected_input"
				if r.V == "accepted" || s.variant != "probes_at_end" && rejectedBefore(recs, s.hist, pos) == 0 {
					v["kind"] = "probe_verdict_mismatch"
				}
				v["summary"] = fmt.Sprintf("%s: %s, specified %s after %v: %s", where, gotV, wantV, s.hist[:pos], firstLine(st.Diags))
			case gotV != wantV:
				v["kind"] = "verdict_mismatch"
				v["summary"] = fmt.Sprintf("%s: %s, specified %s: %s", where, gotV, wantV, firstLine(st.Diags))
			case gotV == "accepted" && (fmt.Sprint(gotOut) != fmt.Sprint(ints(wantOut)) || (st.ErrClass != "") != wantErr):
				v["kind"] = "output_mismatch"
				v["summary"] = fmt.Sprintf("%s: printed %v error %q, specified %v error=%v", where, gotOut, st.ErrMsg, wantOut, wantErr)
			case st.ErrClass != "" && st.ErrMsg != ":boom":
				v["kind"] = "output_mismatch"
				v["summary"] = fmt.Sprintf("%s: unexpected error %s %s", where, st.ErrClass, st.ErrMsg)
			}
			if v["kind"] != nil {
				c.Violation(v)
				bad = true
				continue
			}
			agreeSteps++
			// the batch run of the accepted prefix (plain variant, history inputs only)
			if !isProbe && s.variant == "probes_at_end" && st.Accepted {
				bo := batch[key(r.Acc)]
				v["batch_program"] = bo.src
				switch {
				case !bo.ok && strings.HasPrefix(bo.why, "rejected"):
					// out of domain: the accepted inputs are not a valid program
				case !bo.ok:
					v["kind"] = "batch_failed"
					v["summary"] = fmt.Sprintf("%s: the batch run of %v failed: %s", where, r.Acc, bo.why)
					c.Violation(v)
					bad = true
				case fmt.Sprint(bo.lines) != fmt.Sprint(gotOut) || bo.thrown != (st.ErrClass != ""):
					v["kind"] = "session_differs_from_batch"
					v["batch"] = map[string]any{"lines": bo.lines, "thrown": bo.thrown}
					v["summary"] = fmt.Sprintf("%s: the session printed %v (error=%v), the program of the accepted inputs %v prints %v (error=%v) for it", where, gotOut, st.ErrClass != "", r.Acc, bo.lines, bo.thrown)
					c.Violation(v)
					bad = true
				default:
					batchCompared++
				}
			}
		}
		if !bad {
			agreeSessions++
			if agreeSessions%997 == 1 {
				c.Sample(map[string]any{"history": s.hist, "variant": s.variant, "verdicts": verdicts(sr.Steps[1:])})
			}
		}
	}
	c.Cov("traces_validated_against_impl", agreeSessions)
	c.Cov("sessions_replayed", len(sessions))
	c.Cov("inputs_compared_with_model", agreeSteps)
	c.Cov("inputs_compared_with_real_batch_run", batchCompared)
	c.Cov("batch_programs", len(batchKeys))
	c.Cov("histories_exhaustive", nExh)
	c.Cov("histories_simulated", len(histories)-nExh)
	c.Cov("batch_out_of_domain", ood)
	c.Logf("%d sessions replayed, %d conform; %d inputs compared with the model, %d with the real batch run (%d programs, %d out of domain); %d violations",
		len(sessions), agreeSessions, agreeSteps, batchCompared, len(batchKeys), ood, c.Violations())
	if ood*5 > len(batchKeys) {
		return core.Inconclusivef("%d of %d batch programs were rejected: the generator left the domain", ood, len(batchKeys))
	}
	if agreeSessions == 0 && c.Violations() == 0 {
		return core.Inconclusivef("nothing compared")
	}
	return nil
}

func rejectedBefore(recs map[string]*rec, h []string, pos int) int {
	n := 0
	for k := 1; k <= pos; k++ {
		if r := recs[key(h[:k])]; r != nil && r.V == "rejected" {
			n++
		}
	}
	return n
}

// program renders the accepted inputs as ONE program: a marker line after every group; a group the
// model says throws is wrapped in do ... catch (such inputs contain only expression statements and
// assignments to an existing local, so the wrapping does not change scoping).
func program(acc []string) string {
	var b strings.Builder
	b.WriteString(prelude + "\n")
	for k, n := range acc {
		if throws[n] {
			b.WriteString("do\n" + indent(text[n]) + "\ncatch e\n  t(\"!thrown\")\n  o(e)\nend\n")
		} else {
			b.WriteString(text[n] + "\n")
		}
		fmt.Fprintf(&b, "t(\"@%d\")\n", k+1)
	}
	return b.String()
}

// lastGroup extracts what group n printed from the output of program(acc).
func lastGroup(stdout string, n int) (lines []string, thrown bool, ok bool) {
	all := strings.Split(strings.TrimRight(stdout, "\n"), "\n")
	start := 0
	end := -1
	for i, l := range all {
		if n > 1 && l == fmt.Sprintf("@%d", n-1) {
			start = i + 1
		}
		if l == fmt.Sprintf("@%d", n) {
			end = i
		}
	}
	if end < 0 {
		return nil, false, false
	}
	lines = []string{}
	for _, l := range all[start:end] {
		switch {
		case l == "!thrown":
			thrown = true
		case thrown && l == ":boom":
		default:
			lines = append(lines, l)
		}
	}
	return lines, thrown, true
}

func indent(s string) string { return "  " + strings.ReplaceAll(s, "\n", "\n  ") }

func texts(names []string) []string {
	o := make([]string, len(names))
	for i, n := range names {
		o[i] = text[n]
	}
	return o
}

func ints(l []int) []string {
	o := make([]string, len(l))
	for i, n := range l {
		o[i] = strconv.Itoa(n)
	}
	return o
}

func verdicts(steps []Step) string {
	var b strings.Builder
	for _, s := range steps {
		switch {
		case !s.Accepted:
			b.WriteByte('r')
		case s.ErrClass != "":
			b.WriteByte('e')
		default:
			b.WriteByte('a')
		}
	}
	return b.String()
}

func cp(m map[string]any) map[string]any {
	o := map[string]any{}
	for k, v := range m {
		o[k] = v
	}
	return o
}

func sortHistories(h [][]string) {
	for i := 1; i < len(h); i++ {
		for j := i; j > 0 && key(h[j]) < key(h[j-1]); j-- {
			h[j], h[j-1] = h[j-1], h[j]
		}
	}
}

func firstLine(s string) string {
	if i := strings.IndexByte(s, '\n'); i >= 0 {
		return s[:i]
	}
	return s
}

func tail(s string, n int) string {
	if len(s) <= n {
		return s
	}
	return s[len(s)-n:]
}

// devSession: VERIF_C27_SESSION=<file> runs the inputs of the file (separated by lines "---") as one
// session and prints every step (developer aid).
func devSession(c *core.Ctx, f string) error {
	b, err := os.ReadFile(f)
	if err != nil {
		return err
	}
	var inputs []string
	for _, p := range strings.Split(string(b), "\n---\n") {
		inputs = append(inputs, strings.TrimRight(p, "\n"))
	}
	pool := c.NewPool(1)
	r := pool.Map([]core.Job{{Kind: "c27.session", Payload: SessionJob{Inputs: inputs}}}, nil)[0]
	if r.Crashed || r.Err != "" || r.Panic != "" {
		fmt.Println("CRASH", r.Err, r.Panic, r.CrashLog)
	}
	var sr SessionResult
	r.Decode(&sr)
	for i, st := range sr.Steps {
		js, _ := json.Marshal(st)
		fmt.Printf("[%d] %s\n    %s\n", i, strings.ReplaceAll(inputs[i], "\n", "\n    | "), js)
	}
	return core.Inconclusivef("developer aid run")
}
