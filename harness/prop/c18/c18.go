// Package c18: equality, hashing and ordering are mutually consistent (spec/Order).
package c18

import (
	"bytes"
	"encoding/json"
	"fmt"
	"math/rand"
	"os"
	"path/filepath"
	"sort"
	"strings"
	"time"

	"elkverif/internal/core"
	"elkverif/internal/tlc"
)

func init() {
	core.Register(&core.Check{ID: "C18", Level: "model_checking", Run: run})
}

var ops = []string{"eq", "lax", "heq", "lt", "le", "gt", "ge", "cmp"}
var insts = []string{"call", "dyn", "typed", "go"}

// Rel is one recorded relation instance: op -> N x N cells.
type Rel map[string][][]int

func newRel(n int) Rel {
	r := Rel{}
	for _, op := range ops {
		m := make([][]int, n)
		for i := range m {
			m[i] = make([]int, n)
			for k := range m[i] {
				m[i][k] = cUndef
			}
		}
		r[op] = m
	}
	return r
}

func run(c *core.Ctx) error {
	rounds := c.Pick(1, 3)
	nNum := c.Pick(100, 135)
	for r := 0; r < rounds; r++ {
		rng := rand.New(rand.NewSource(c.Seed*1000 + int64(r)))
		if err := round(c, r, rng, nNum, true); err != nil {
			return err
		}
	}
	if c.CovInt("traces_validated_against_impl") == 0 {
		return core.Inconclusivef("no relation was validated")
	}
	return nil
}

func round(c *core.Ctx, rno int, rng *rand.Rand, nNum int, withOthers bool) error {
	pool := BuildPool(rng, nNum, withOthers)
	worker := c.NewPool(1)
	runSrc := func(p *Program, goMatrix bool) (*RunOut, error) {
		var numIDs []int
		for _, it := range pool {
			if it.Num() {
				numIDs = append(numIDs, it.ID)
			}
		}
		res := worker.Map([]core.Job{{Kind: "c18run", Payload: RunJob{Src: p.Src, GoMatrix: goMatrix, NumIDs: numIDs}, TimeoutMs: 300000}}, nil)[0]
		switch {
		case res.Crashed:
			return nil, core.Inconclusivef("the VM process died while the comparison matrix was being recorded:\n%s", tail(res.CrashLog, 3000))
		case res.Timeout:
			return nil, core.Inconclusivef("the comparison matrix program did not finish")
		case res.Err != "" || res.Panic != "":
			return nil, core.Inconclusivef("worker: %s %s", res.Err, tail(res.Panic, 2000))
		}
		var out RunOut
		if err := res.Decode(&out); err != nil {
			return nil, err
		}
		return &out, nil
	}

	// ---- pass 0: build the values, observe their representation attributes, check exactness
	for attempt := 0; ; attempt++ {
		out, err := runSrc(Emit(pool, nil, true, false), false)
		if err != nil {
			return err
		}
		if !out.Accepted || out.Panic != "" || out.ErrClass != "" || len(out.Attrs) != len(pool) {
			return core.Inconclusivef("pass 0 (building the pool) failed: accepted=%v %s %s %s %s", out.Accepted, out.Diags, tail(out.Panic, 1500), out.ErrClass, out.ErrMsg)
		}
		var keep []*Item
		dropped := 0
		for i, it := range pool {
			at := out.Attrs[i]
			it.Inline = at.Inline
			it.Rep = at.Prec
			if it.Num() {
				want := ""
				switch it.Sp {
				case "nan":
					want = "nan"
				case "negzero":
					want = "-0"
				case "inf":
					want = "+inf"
					if it.S < 0 {
						want = "-inf"
					}
				default:
					want = it.Exact().RatString()
				}
				if at.Exact != want {
					dropped++
					c.Note(fmt.Sprintf("pool item dropped: literal %s of kind %s evaluates to %s, not to the intended %s", it.Lit, it.Kind, at.Exact, want))
					continue
				}
			}
			keep = append(keep, it)
		}
		if dropped == 0 {
			break
		}
		if attempt > 0 || dropped*4 > len(pool) {
			return core.Inconclusivef("%d pool literals do not evaluate to the intended values", dropped)
		}
		pool = keep
		for i, it := range pool {
			it.ID = i + 1
		}
	}
	n := len(pool)
	c.Logf("round %d: pool of %d items (%d numeric)", rno, n, countNum(pool))

	// ---- record the relations from the real implementation (panicking kind pairs are skipped and re-run)
	rec := map[string]Rel{}
	for _, in := range insts {
		rec[in] = newRel(n)
	}
	skip := map[string]bool{}
	var panics []map[string]any
	var final *RunOut
	var prog *Program
	for pass := 1; ; pass++ {
		if pass > 80 {
			return core.Inconclusivef("more than 80 panicking kind combinations")
		}
		prog = Emit(pool, skip, false, false)
		out, err := runSrc(prog, true)
		if err != nil {
			return err
		}
		if !out.Accepted {
			return core.Inconclusivef("the comparison matrix program was rejected by the checker (model drift in the operator domains?):\n%s", tail(out.Diags, 2000))
		}
		if out.ErrClass != "" {
			return core.Inconclusivef("the comparison matrix program threw %s: %s", out.ErrClass, out.ErrMsg)
		}
		if out.Panic == "" {
			final = out
			break
		}
		// locate the pair that was being evaluated
		secs := splitSections(out.Stdout)
		if len(secs) == 0 {
			return core.Inconclusivef("Go panic before the first section: %s", tail(out.Panic, 2000))
		}
		last := secs[len(secs)-1]
		sec := findSection(prog, last.name)
		if sec == nil {
			return core.Inconclusivef("unknown section %q in the output", last.name)
		}
		k := len(last.lines)
		if k >= len(sec.Rows)*len(sec.Cols) {
			return core.Inconclusivef("Go panic outside the loops of section %s: %s", sec.Name, tail(out.Panic, 2000))
		}
		a, b := pool[sec.Rows[k/len(sec.Cols)]-1], pool[sec.Cols[k%len(sec.Cols)]-1]
		key := SkipKey(sec.Name, a, b)
		if skip[key] {
			return core.Inconclusivef("skip key %s did not prevent the panic", key)
		}
		skip[key] = true
		panics = append(panics, map[string]any{
			"kind": "go_panic", "section": sec.Name, "inst": sec.Inst, "a": a.Lit, "b": b.Lit, "a_kind": a.Kind, "b_kind": b.Kind,
			"b_inline": b.Inline, "ops": strings.Join(sec.Ops, ","), "panic": firstLine(out.Panic),
			"summary": fmt.Sprintf("Go panic evaluating %v on (%s, %s) [%s]: %s", sec.Ops, a.Lit, b.Lit, sec.Name, firstLine(out.Panic)),
		})
		for _, op := range sec.Ops {
			rec[sec.Inst][op][a.ID-1][b.ID-1] = cPanic
		}
	}
	// parse the Elk-level sections
	secs := splitSections(final.Stdout)
	if len(secs) != len(prog.Sections) {
		return core.Inconclusivef("expected %d sections in the output, got %d", len(prog.Sections), len(secs))
	}
	evaluated, skipped := 0, 0
	for si, sec := range prog.Sections {
		lines := secs[si].lines
		if secs[si].name != sec.Name || len(lines) != len(sec.Rows)*len(sec.Cols) {
			return core.Inconclusivef("section %s: %d lines for %d pairs", sec.Name, len(lines), len(sec.Rows)*len(sec.Cols))
		}
		for k, line := range lines {
			i, j := sec.Rows[k/len(sec.Cols)]-1, sec.Cols[k%len(sec.Cols)]-1
			switch line {
			case "S":
				skipped++
				continue
			case "E":
				for _, op := range sec.Ops {
					rec[sec.Inst][op][i][j] = cErr
				}
				continue
			}
			cells, err := parseCells(line, sec.Ops)
			if err != nil {
				return core.Inconclusivef("section %s line %q: %v", sec.Name, line, err)
			}
			evaluated++
			for oi, op := range sec.Ops {
				rec[sec.Inst][op][i][j] = cells[oi]
			}
		}
	}
	for _, op := range ops {
		m := final.Go[op]
		if len(m) != n {
			return core.Inconclusivef("Go-level matrix %s has %d rows", op, len(m))
		}
		rec["go"][op] = m
	}
	c.CovAdd("pairs_evaluated_elk_level", evaluated)
	c.CovAdd("pairs_skipped_after_panic", skipped)
	c.CovAdd("pairs_evaluated_go_level", n*n)
	for _, p := range panics {
		c.Violation(p)
	}

	// ---- TLC 1: model-check the laws on the reference relation and get the predicted cells
	itemsND := itemsNDJSON(pool)
	pred := newRel(n)
	t0 := time.Now()
	var perr error
	mc := "---- MODULE MC_OrderMC ----\nEXTENDS OrderMC\nMCDeviations == {}\n====\n"
	res, err := tlc.Run(tlc.Opts{
		SpecDir: filepath.Join(core.VerifRoot, "spec", "Order"), Module: "MC_OrderMC", Cfg: "OrderMC.cfg",
		Scratch: c.Scratch, Workers: c.Workers, Timeout: 20 * time.Minute, HeapMB: 4000,
		Extra: map[string][]byte{"items.ndjson": itemsND, "MC_OrderMC.tla": []byte(mc)},
		OnGen: func(b []byte) {
			var g struct {
				A, B                             int
				Eq, Lax, Heq, Lt, Le, Gt, Ge, Cmp int
			}
			if e := json.Unmarshal(b, &g); e != nil {
				perr = e
				return
			}
			i, j := g.A-1, g.B-1
			pred["eq"][i][j], pred["lax"][i][j], pred["heq"][i][j] = g.Eq, g.Lax, g.Heq
			pred["lt"][i][j], pred["le"][i][j], pred["gt"][i][j], pred["ge"][i][j], pred["cmp"][i][j] = g.Lt, g.Le, g.Gt, g.Ge, g.Cmp
		},
	})
	if err != nil {
		return err
	}
	if perr != nil {
		return perr
	}
	if !res.OK {
		return core.Inconclusivef("TLC on OrderMC: the reference relation does not satisfy the laws (spec error): %s %s\n%s", res.Verdict, res.What, tail(res.Output, 3000))
	}
	if res.GenCount != n*n {
		return core.Inconclusivef("OrderMC predicted %d pairs, expected %d", res.GenCount, n*n)
	}
	nn := 0
	for _, it := range pool {
		if it.Num() && it.Sp != "nan" {
			nn++
		}
	}
	c.Logf("TLC OrderMC: %d states generated, %d distinct (all %d pairs; all %d numeric triples inside the pair states), %.1fs", res.Generated, res.Distinct, n*n, nn*nn*nn, time.Since(t0).Seconds())
	c.CovAdd("pairs_model_checked", n*n)
	c.CovAdd("triples_model_checked", nn*nn*nn)
	// non-vacuity: with every named deviation enabled the same model must break a law on this pool
	mcd := "---- MODULE MC_OrderMC ----\nEXTENDS OrderMC\nMCDeviations == AllDeviations\n====\n"
	dres, err := tlc.Run(tlc.Opts{
		SpecDir: filepath.Join(core.VerifRoot, "spec", "Order"), Module: "MC_OrderMC", Cfg: "OrderMC.cfg",
		Scratch: c.Scratch, Workers: c.Workers, Timeout: 10 * time.Minute, HeapMB: 4000,
		Extra: map[string][]byte{"items.ndjson": itemsND, "MC_OrderMC.tla": []byte(mcd)},
	})
	if err != nil {
		return err
	}
	if dres.Verdict != "invariant" {
		return core.Inconclusivef("the deviating model does not violate any law on this pool (vacuous pool?): %s %s", dres.Verdict, dres.What)
	}
	c.Cov("deviating_model_violates", dres.What)
	c.CovAdd("states", int(res.Distinct))
	c.CovAdd("transitions", int(res.Generated))

	// replay comparison: predicted cell vs recorded cell (informative: the statement demands the
	// laws, not the mathematical order; the differences are the raw material of the named deviations)
	diff := map[string]int{}
	compared := 0
	for _, in := range insts {
		for _, op := range ops {
			if op == "heq" {
				continue
			}
			for i := 0; i < n; i++ {
				for j := 0; j < n; j++ {
					o, p := rec[in][op][i][j], pred[op][i][j]
					if o == cUndef || o == cPanic || p == cUndef {
						continue
					}
					compared++
					if o != p {
						diff[in+"/"+op+"/"+pool[i].Kind+"/"+pool[j].Kind]++
					}
				}
			}
		}
	}
	c.CovAdd("cells_compared_with_reference", compared)
	nd := 0
	for _, v := range diff {
		nd += v
	}
	c.CovAdd("cells_differing_from_reference", nd)
	if rno == 0 {
		var keys []string
		for k := range diff {
			keys = append(keys, fmt.Sprintf("%s:%d", k, diff[k]))
		}
		sort.Strings(keys)
		if len(keys) > 40 {
			keys = keys[:40]
		}
		c.Cov("cells_differing_by_inst_op_kinds", keys)
	}

	// ---- TLC 2: trace validation of the recorded relations against the laws
	var tr bytes.Buffer
	for _, in := range insts {
		for i := 0; i < n; i++ {
			row := map[string]any{"inst": in, "a": i + 1}
			for _, op := range ops {
				row[op] = rec[in][op][i]
			}
			b, _ := json.Marshal(row)
			tr.Write(b)
			tr.WriteByte('\n')
		}
	}
	if d := os.Getenv("C18_DUMP"); d != "" { // developer aid: keep the TLC inputs
		os.MkdirAll(d, 0o755)
		os.WriteFile(filepath.Join(d, "items.ndjson"), itemsND, 0o644)
		os.WriteFile(filepath.Join(d, "trace.ndjson"), tr.Bytes(), 0o644)
		os.WriteFile(filepath.Join(d, "program.elk"), []byte(prog.Src), 0o644)
	}
	type viol struct {
		Law string   `json:"law"`
		B   int      `json:"b"`
		C   int      `json:"c"`
		Dev []string `json:"dev"`
	}
	groups := map[string]*group{}
	var gorder []string
	rowsSeen := 0
	_ = time.Now
	mct := "---- MODULE MC_OrderTrace ----\nEXTENDS OrderTrace\nMCDeviations == {}\n====\n"
	tres, err := tlc.Run(tlc.Opts{
		SpecDir: filepath.Join(core.VerifRoot, "spec", "Order"), Module: "MC_OrderTrace", Cfg: "OrderTrace.cfg",
		Scratch: c.Scratch, Workers: c.Workers, Timeout: 20 * time.Minute, HeapMB: 6000,
		Extra: map[string][]byte{"items.ndjson": itemsND, "trace.ndjson": tr.Bytes(), "MC_OrderTrace.tla": []byte(mct)},
		OnGen: func(b []byte) {
			var g struct {
				Inst string `json:"inst"`
				A    int    `json:"a"`
				Viol []viol `json:"viol"`
			}
			if e := json.Unmarshal(b, &g); e != nil {
				perr = fmt.Errorf("%v: %s", e, tail(string(b), 300))
				return
			}
			rowsSeen++
			for _, v := range g.Viol {
				sort.Strings(v.Dev)
				dev := strings.Join(v.Dev, "+")
				if dev == "" {
					dev = "none"
				}
				a, bb := pool[g.A-1], pool[v.B-1]
				kinds := a.Kind + "/" + bb.Kind
				wit := a.Lit + " , " + bb.Lit
				if v.C > 0 {
					kinds += "/" + pool[v.C-1].Kind
					wit += " , " + pool[v.C-1].Lit
				}
				key := v.Law + "|" + dev
				gr := groups[key]
				if gr == nil {
					gr = &group{rec: map[string]any{
						"kind": "law_violation", "inst": g.Inst, "law": v.Law, "kinds": kinds, "deviation": dev, "witness": wit,
						"cells": cellsOf(rec[g.Inst], g.A-1, v.B-1, v.C-1),
					}, kinds: map[string]int{}, insts: map[string]int{}}
					groups[key] = gr
					gorder = append(gorder, key)
				}
				gr.count++
				gr.kinds[kinds]++
				gr.insts[g.Inst]++
			}
		},
	})
	if err != nil {
		return err
	}
	if perr != nil {
		return perr
	}
	if !tres.OK {
		return core.Inconclusivef("TLC on OrderTrace: %s %s\n%s", tres.Verdict, tres.What, tail(tres.Output, 3000))
	}
	if rowsSeen != len(insts)*n {
		return core.Inconclusivef("OrderTrace validated %d rows, expected %d", rowsSeen, len(insts)*n)
	}
	c.Logf("TLC OrderTrace: %d recorded rows validated, %d violated law instances in %d groups, %.1fs", rowsSeen, sumCounts(groups), len(groups), tres.WallS)
	c.CovAdd("states", int(tres.Distinct))
	c.CovAdd("transitions", int(tres.Generated))
	c.CovAdd("traces_validated_against_impl", len(insts))
	c.CovAdd("recorded_rows_validated", rowsSeen)
	c.CovAdd("violated_law_instances", sumCounts(groups))
	sort.Strings(gorder)
	for _, key := range gorder {
		gr := groups[key]
		gr.rec["count"] = gr.count
		gr.rec["all_kinds"] = gr.kinds
		gr.rec["all_insts"] = gr.insts
		gr.rec["summary"] = fmt.Sprintf("law %s violated, e.g. by the %s relation on (%s) of kinds %s; %d instances over %d kind combinations, relations %v; explained by deviation: %s",
			gr.rec["law"], gr.rec["inst"], gr.rec["witness"], gr.rec["kinds"], gr.count, len(gr.kinds), keysOf(gr.insts), gr.rec["deviation"])
		c.Violation(gr.rec)
	}
	if rno == 0 {
		c.Sample(map[string]any{"pool_size": n, "example_items": []string{pool[0].Lit, pool[n/3].Lit, pool[n/2].Lit}, "sections": len(prog.Sections)})
		i, j := 0, n/3
		c.Sample(map[string]any{"pair": pool[i].Lit + " , " + pool[j].Lit, "recorded_go": cellsOf(rec["go"], i, j, -1), "recorded_dyn": cellsOf(rec["dyn"], i, j, -1), "predicted": cellsOf(pred, i, j, -1)})
	}
	return nil
}

type group struct {
	rec   map[string]any
	count int
	kinds map[string]int
	insts map[string]int
}

func sumCounts(m map[string]*group) int {
	t := 0
	for _, g := range m {
		t += g.count
	}
	return t
}

func keysOf(m map[string]int) []string {
	var l []string
	for k := range m {
		l = append(l, k)
	}
	sort.Strings(l)
	return l
}

func cellsOf(r Rel, i, j, k int) map[string]any {
	out := map[string]any{}
	pair := func(name string, x, y int) {
		m := map[string]int{}
		for _, op := range ops {
			if v := r[op][x][y]; v != cUndef {
				m[op] = v
			}
		}
		out[name] = m
	}
	pair("a_b", i, j)
	pair("b_a", j, i)
	if k >= 0 {
		pair("b_c", j, k)
		pair("a_c", i, k)
	}
	return out
}

func countNum(pool []*Item) int {
	k := 0
	for _, it := range pool {
		if it.Num() {
			k++
		}
	}
	return k
}

func itemsNDJSON(pool []*Item) []byte {
	var b bytes.Buffer
	for _, it := range pool {
		x, _ := json.Marshal(map[string]any{"id": it.ID, "kind": it.Kind, "cls": it.Cls, "s": it.S, "e": it.E, "d": it.D, "h": it.H, "sp": it.Sp, "m": it.M, "rep": it.Rep, "g": it.G})
		b.Write(x)
		b.WriteByte('\n')
	}
	return b.Bytes()
}

type secOut struct {
	name  string
	lines []string
}

func splitSections(stdout string) []secOut {
	var out []secOut
	for _, l := range strings.Split(strings.TrimRight(stdout, "\n"), "\n") {
		if strings.HasPrefix(l, "@S ") {
			out = append(out, secOut{name: l[3:]})
			continue
		}
		if len(out) > 0 && l != "" {
			out[len(out)-1].lines = append(out[len(out)-1].lines, l)
		}
	}
	return out
}

func findSection(p *Program, name string) *Section {
	for _, s := range p.Sections {
		if s.Name == name {
			return s
		}
	}
	return nil
}

func parseCells(line string, ops []string) ([]int, error) {
	if !strings.HasPrefix(line, "%[") || !strings.HasSuffix(line, "]") {
		return nil, fmt.Errorf("not a tuple")
	}
	parts := strings.Split(line[2:len(line)-1], ", ")
	if len(parts) != len(ops) {
		return nil, fmt.Errorf("%d cells for %d ops", len(parts), len(ops))
	}
	out := make([]int, len(parts))
	for i, p := range parts {
		switch p {
		case "true":
			out[i] = cT
		case "false":
			out[i] = cF
		case "nil":
			out[i] = cNil
		case "-1":
			out[i] = cLess
		case "0":
			out[i] = 0
		case "1":
			out[i] = 1
		default:
			return nil, fmt.Errorf("cell %q", p)
		}
		if ops[i] != "cmp" && out[i] != cT && out[i] != cF {
			return nil, fmt.Errorf("cell %q for %s", p, ops[i])
		}
	}
	return out, nil
}

func tail(s string, n int) string {
	if len(s) <= n {
		return s
	}
	return s[len(s)-n:]
}

func firstLine(s string) string {
	if i := strings.IndexByte(s, '\n'); i >= 0 {
		return s[:i]
	}
	return s
}
