package c18

import (
	"fmt"
	"math/big"
	"math/rand"
	"sort"
)

// Item is one concrete value of the pool: a member of the abstract value space of spec/Order in one
// concrete kind (representation). The numeric members are exactly the symbolic numbers of the
// specification: sign * (2^E + D + H/2) for E >= 31 (|D| <= 2) or sign * (D + H/2) for E = 0.
type Item struct {
	ID   int    `json:"id"`   // 1-based position in the pool (= index in the Elk tuple `all` + 1)
	Kind string `json:"kind"` // Int Float BigFloat Int64 ... String Char Symbol List ...
	Cls  string `json:"cls"`  // num | oth
	S    int    `json:"s"`    // sign -1 0 1
	E    int    `json:"e"`
	D    int    `json:"d"`
	H    int    `json:"h"`
	Sp   string `json:"sp"`  // "" | nan | inf | negzero
	M    int    `json:"m"`   // abstract value id of a non-numeric item (same m <=> same abstract value)
	Rep  int    `json:"rep"` // representation tag of a BigFloat (its precision, observed in pass 0)
	G    int    `json:"g"`   // content group of a collection (same g, different kind: same elements); 0 = none
	Lit  string `json:"lit"` // Elk literal text
	Core bool   `json:"-"`
	// observed in pass 0
	Inline bool `json:"-"`
}

func (it *Item) Num() bool { return it.Cls == "num" }

// Exact is the exact rational value of a finite numeric item.
func (it *Item) Exact() *big.Rat {
	mag := new(big.Int)
	if it.E > 0 {
		mag.Lsh(big.NewInt(1), uint(it.E))
	}
	mag.Add(mag, big.NewInt(int64(it.D)))
	r := new(big.Rat).SetInt(mag)
	if it.H == 1 {
		r.Add(r, big.NewRat(1, 2))
	}
	if it.S < 0 {
		r.Neg(r)
	}
	if it.S == 0 {
		r.SetInt64(0)
	}
	return r
}

var Coercible = map[string]bool{"Int": true, "Float": true, "BigFloat": true}

// NumKinds in a fixed order (the index is used by the skip table of the generated program).
var NumKinds = []string{"Int", "Float", "BigFloat", "Int64", "Int32", "Int16", "Int8", "UInt64", "UInt32", "UInt16", "UInt8", "UInt", "Float64", "Float32"}
var OthKinds = []string{"String", "Char", "Symbol", "Nil", "Bool", "List", "Tuple", "Map", "Record", "Set", "CRange", "RRange", "Date", "Time", "DateTime"}

func KindIdx(k string) int {
	for i, x := range NumKinds {
		if x == k {
			return i
		}
	}
	for i, x := range OthKinds {
		if x == k {
			return 20 + i
		}
	}
	panic("kind " + k)
}

var intSuffix = map[string]string{"Int64": "i64", "Int32": "i32", "Int16": "i16", "Int8": "i8", "UInt64": "u64", "UInt32": "u32", "UInt16": "u16", "UInt8": "u8", "UInt": "u"}
var intBits = map[string]int{"Int64": 64, "Int32": 32, "Int16": 16, "Int8": 8, "UInt64": 64, "UInt32": 32, "UInt16": 16, "UInt8": 8, "UInt": 64}

func intRange(kind string) (lo, hi *big.Int) {
	b := intBits[kind]
	if kind[0] == 'U' {
		return big.NewInt(0), new(big.Int).Sub(new(big.Int).Lsh(big.NewInt(1), uint(b)), big.NewInt(1))
	}
	h := new(big.Int).Lsh(big.NewInt(1), uint(b-1))
	return new(big.Int).Neg(h), new(big.Int).Sub(h, big.NewInt(1))
}

// literal returns the Elk literal of the exact value r in the kind, or "" if the kind cannot
// represent r exactly.
func literal(kind string, r *big.Rat) string {
	isInt := r.IsInt()
	dec := func() string { // exact decimal text of an integer or half
		if isInt {
			return r.Num().String() + ".0"
		}
		// r = n/2
		n := new(big.Int).Set(r.Num())
		neg := n.Sign() < 0
		n.Abs(n)
		q := new(big.Int).Rsh(n, 1)
		s := q.String() + ".5"
		if neg {
			s = "-" + s
		}
		return s
	}
	switch kind {
	case "Int":
		if !isInt {
			return ""
		}
		return r.Num().String()
	case "Float", "Float64":
		if _, exact := r.Float64(); !exact {
			return ""
		}
		if kind == "Float64" {
			return dec() + "f64"
		}
		return dec()
	case "Float32":
		if _, exact := r.Float32(); !exact {
			return ""
		}
		return dec() + "f32"
	case "BigFloat":
		if isInt && r.Sign() != 0 {
			return r.Num().String() + "bf"
		}
		return dec() + "bf" // `0bf` would lex as a binary literal prefix
	default:
		if !isInt {
			return ""
		}
		lo, hi := intRange(kind)
		n := r.Num()
		if n.Cmp(lo) < 0 || n.Cmp(hi) > 0 {
			return ""
		}
		sfx := intSuffix[kind]
		if n.Sign() < 0 && n.Cmp(lo) == 0 {
			// the minimum has no literal: -(max+1) overflows before the negation
			return fmt.Sprintf("(-%s%s - 1%s)", hi.String(), sfx, sfx)
		}
		return n.String() + sfx
	}
}

type member struct{ s, e, d, h int }

func members() []member {
	var ms []member
	ms = append(ms, member{0, 0, 0, 0})
	plain := []int{1, 2, 3, 127, 128, 255, 256, 32767, 32768, 65535, 65536, 16777215, 16777216, 16777217}
	for _, s := range []int{1, -1} {
		for _, p := range plain {
			ms = append(ms, member{s, 0, p, 0})
		}
		for _, p := range []int{0, 1, 16777216} {
			ms = append(ms, member{s, 0, p, 1})
		}
		for _, e := range []int{31, 32, 53, 62, 63, 64, 100, 1023} {
			for d := -2; d <= 2; d++ {
				ms = append(ms, member{s, e, d, 0})
			}
		}
		ms = append(ms, member{s, 31, 0, 1})
	}
	return ms
}

func isCore(kind string, m member) bool {
	if m.h == 1 {
		return m.e == 0 && m.d == 0 && (kind == "Float" || kind == "BigFloat") && m.s == 1
	}
	if m.e == 0 && m.d <= 1 {
		return true // 0, 1, -1 in every kind
	}
	if Coercible[kind] && m.e == 53 {
		return true
	}
	if kind == "Int" && (m.e == 63 || m.e == 64) && m.d >= -1 && m.d <= 1 && m.s == 1 {
		return true
	}
	if (kind == "UInt" || kind == "UInt64" || kind == "Int64" || kind == "Float64") && m.e == 53 && m.d >= 0 && m.d <= 1 && m.s == 1 {
		return true
	}
	if kind == "Float32" && m.e == 0 && m.d == 16777216 && m.s == 1 {
		return true
	}
	if kind == "Int" && m.e == 0 && (m.d == 16777216 || m.d == 16777217) && m.s == 1 {
		return true // binary32 rounding boundary
	}
	if (kind == "UInt64" || kind == "BigFloat") && m.e == 63 && m.d == 1 && m.s == 1 {
		return true // above the int64 range
	}
	return false
}

type othSpec struct {
	kind string
	m    int
	lit  string
	g    int
}

var others = []othSpec{
	{"String", 1, `"a"`, 0}, {"String", 1, `"a"`, 0}, {"String", 2, `"b"`, 0}, {"String", 3, `""`, 0},
	{"Char", 4, "`a`", 0}, {"Char", 4, "`a`", 0}, {"Char", 5, "`b`", 0},
	{"Symbol", 6, ":a", 0}, {"Symbol", 6, ":a", 0}, {"Symbol", 7, ":b", 0},
	{"Nil", 8, "nil", 0}, {"Bool", 9, "true", 0}, {"Bool", 9, "true", 0}, {"Bool", 10, "false", 0},
	{"List", 11, "[1, 2]", 1}, {"List", 11, "[1, 2]", 1}, {"List", 12, "[1, 3]", 0}, {"List", 13, "[[1, 2]]", 0}, {"List", 13, "[[1, 2]]", 0},
	{"Tuple", 14, "%[1, 2]", 1}, {"Tuple", 14, "%[1, 2]", 1}, {"Tuple", 15, "%[2, 1]", 0}, {"Tuple", 16, `%[1.5, "a"]`, 0}, {"Tuple", 16, `%[1.5, "a"]`, 0},
	{"Map", 17, "{1 => 2}", 2}, {"Map", 17, "{1 => 2}", 2}, {"Map", 18, "{1 => 3}", 0},
	{"Record", 19, "%{1 => 2}", 2}, {"Record", 19, "%{1 => 2}", 2},
	{"Set", 20, "^[1, 2]", 0}, {"Set", 20, "^[2, 1]", 0}, {"Set", 21, "^[1, 3]", 0},
	{"CRange", 22, "1...2", 0}, {"CRange", 22, "1...2", 0}, {"CRange", 23, "1...3", 0}, {"CRange", 24, `"a"..."c"`, 0}, {"CRange", 24, `"a"..."c"`, 0},
	{"RRange", 25, "1..<2", 0}, {"RRange", 25, "1..<2", 0},
	{"Date", 26, "Date(2020, 1, 2)", 0}, {"Date", 26, "Date(2020, 1, 2)", 0}, {"Date", 27, "Date(2020, 1, 3)", 0},
	{"Time", 28, "Time(1, 2, 3)", 0}, {"Time", 28, "Time(1, 2, 3)", 0},
	{"DateTime", 29, "DateTime(2020, 1, 2, 3, 4, 5)", 0}, {"DateTime", 29, "DateTime(2020, 1, 2, 3, 4, 5)", 0},
}

// BuildPool builds the pool of one round: the core items plus a seeded sample of the remaining
// candidates, nNum numeric items in total, plus the non-numeric items when withOthers.
func BuildPool(rng *rand.Rand, nNum int, withOthers bool) []*Item {
	var core, rest []*Item
	for _, kind := range NumKinds {
		for _, m := range members() {
			it := &Item{Kind: kind, Cls: "num", S: m.s, E: m.e, D: m.d, H: m.h}
			if m.s == 0 {
				it.D, it.E, it.H = 0, 0, 0
			}
			lit := literal(kind, it.Exact())
			if lit == "" {
				continue
			}
			it.Lit = lit
			if isCore(kind, m) {
				it.Core = true
				core = append(core, it)
			} else {
				rest = append(rest, it)
			}
		}
	}
	// specials
	core = append(core,
		&Item{Kind: "Float", Cls: "num", Sp: "negzero", Lit: "nz(0.0)", Core: true},
		&Item{Kind: "Float", Cls: "num", Sp: "nan", Lit: "Float::NAN", Core: true},
		&Item{Kind: "Float", Cls: "num", Sp: "inf", S: 1, E: 9999, Lit: "Float::INF", Core: true},
		&Item{Kind: "Float", Cls: "num", Sp: "inf", S: -1, E: 9999, Lit: "Float::NEG_INF", Core: true},
		// a second literal form of the same BigFloat values (different precision)
		&Item{Kind: "BigFloat", Cls: "num", S: 1, E: 0, D: 1, Lit: "1.0bf", Core: true},
		&Item{Kind: "BigFloat", Cls: "num", S: 1, E: 53, D: 1, Lit: "9007199254740993.0bf", Core: true},
	)
	rng.Shuffle(len(rest), func(i, j int) { rest[i], rest[j] = rest[j], rest[i] })
	pool := append([]*Item{}, core...)
	for _, it := range rest {
		if len(pool) >= nNum {
			break
		}
		pool = append(pool, it)
	}
	// stable order: by kind, then by value
	sort.SliceStable(pool, func(i, j int) bool {
		a, b := pool[i], pool[j]
		if a.Kind != b.Kind {
			return KindIdx(a.Kind) < KindIdx(b.Kind)
		}
		if (a.Sp == "nan") != (b.Sp == "nan") {
			return b.Sp == "nan"
		}
		if a.Sp == "nan" {
			return false
		}
		if c := a.Exact().Cmp(b.Exact()); c != 0 {
			return c < 0
		}
		// -0.0 before 0.0: the compiler's constant pool merges a later -0.0 into an earlier 0.0
		return a.Sp == "negzero" && b.Sp != "negzero"
	})
	if withOthers {
		for _, o := range others {
			pool = append(pool, &Item{Kind: o.kind, Cls: "oth", M: o.m, Lit: o.lit, G: o.g})
		}
	}
	for i, it := range pool {
		it.ID = i + 1
	}
	return pool
}
