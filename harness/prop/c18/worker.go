package c18

import (
	"bytes"
	"encoding/json"
	"fmt"
	"math/big"
	"runtime/debug"
	"strings"

	"github.com/elk-language/elk"
	"github.com/elk-language/elk/bitfield"
	"github.com/elk-language/elk/types/checker"
	"github.com/elk-language/elk/value"
	"github.com/elk-language/elk/vm"

	"elkverif/internal/core"
	"elkverif/internal/elkrun"
)

// cell encoding shared with spec/Order/OrderTrace.tla
const (
	cF     = 0 // false
	cT     = 1 // true
	cUndef = 2 // not evaluated / no builtin answer
	cErr   = 3 // Elk error
	cPanic = 4 // Go panic
	cNil   = 5 // <=> answered nil
	cLess  = -1
)

type RunJob struct {
	Src      string `json:"src"`
	GoMatrix bool   `json:"go_matrix"` // evaluate the Go-level relation on the returned tuple
	NumIDs   []int  `json:"num_ids"`   // 1-based positions of the numeric items
}

type Attr struct {
	Inline bool   `json:"inline"`
	Class  string `json:"class"`
	Prec   int    `json:"prec"`
	Exact  string `json:"exact"` // exact rational value | nan | +inf | -inf | -0 | "" (not numeric)
}

type RunOut struct {
	Accepted bool               `json:"accepted"`
	Diags    string             `json:"diags,omitempty"`
	Stdout   string             `json:"stdout"`
	Panic    string             `json:"panic,omitempty"`
	ErrClass string             `json:"err_class,omitempty"`
	ErrMsg   string             `json:"err_msg,omitempty"`
	Attrs    []Attr             `json:"attrs,omitempty"`
	Go       map[string][][]int `json:"go,omitempty"` // op -> N x N cells
}

func init() {
	core.RegisterJob("c18run", func(p json.RawMessage) (any, error) {
		var j RunJob
		if err := json.Unmarshal(p, &j); err != nil {
			return nil, err
		}
		return runJob(&j), nil
	})
}

func runJob(j *RunJob) *RunOut {
	elkrun.Setup()
	out := &RunOut{}
	checker.MethodCheckConcurrencyLimit = 1
	var bc *vm.BytecodeFunction
	func() {
		defer func() {
			if r := recover(); r != nil {
				out.Panic = fmt.Sprintf("check: %v\n%s", r, trim(debug.Stack()))
			}
		}()
		elk.InitGlobalEnvironment()
		var flags bitfield.BitField16
		b, d := checker.CheckSource("main.elk", j.Src, nil, flags, nil)
		bc = b
		failed := false
		if d != nil {
			var lines []string
			for _, x := range d {
				lines = append(lines, fmt.Sprintf("%s: %s", x.Location.StartPos.String(), x.Message))
			}
			out.Diags = strings.Join(lines, "\n")
			failed = d.IsFailure()
		}
		out.Accepted = bc != nil && !failed
	}()
	if out.Panic != "" || !out.Accepted {
		return out
	}
	var stdout, stderr bytes.Buffer
	th := vm.New(vm.WithStdout(&stdout), vm.WithStderr(&stderr))
	var val, errv value.Value
	func() {
		defer func() {
			if r := recover(); r != nil {
				out.Panic = fmt.Sprintf("run: %v\n%s", r, trim(debug.Stack()))
			}
		}()
		val, errv = th.InterpretTopLevel(bc)
	}()
	out.Stdout = stdout.String()
	if out.Panic != "" {
		return out
	}
	if !errv.IsUndefined() {
		out.ErrClass, out.ErrMsg = elkrun.DescribeError(errv)
		return out
	}
	tup, ok := val.SafeAsReference().(value.ArrayTuple)
	if !ok {
		out.ErrClass, out.ErrMsg = "harness", "program did not return a tuple: "+val.Inspect()
		return out
	}
	n := tup.Length()
	vals := make([]value.Value, n)
	for i := 0; i < n; i++ {
		vals[i] = tup.AtVal(i)
		out.Attrs = append(out.Attrs, attrOf(vals[i]))
	}
	if !j.GoMatrix {
		return out
	}
	// a fresh thread for the Go-level API calls (method fallbacks run Elk code on it)
	th2 := vm.New(vm.WithStdout(&stdout), vm.WithStderr(&stderr))
	isNum := make([]bool, n)
	for _, id := range j.NumIDs {
		isNum[id-1] = true
	}
	out.Go = map[string][][]int{}
	for _, op := range []string{"eq", "heq", "lax", "lt", "le", "gt", "ge", "cmp"} {
		m := make([][]int, n)
		for i := range m {
			m[i] = make([]int, n)
			for k := range m[i] {
				m[i][k] = cUndef
			}
		}
		out.Go[op] = m
	}
	hash := make([]uint64, n)
	hst := make([]int, n)
	for i := 0; i < n; i++ {
		hst[i] = guard(func() int {
			h, e := vm.Hash(th2, vals[i])
			if !e.IsUndefined() {
				return cErr
			}
			hash[i] = uint64(h)
			return cT
		})
	}
	boolCell := func(f func() (value.Value, value.Value)) int {
		return guard(func() int {
			r, e := f()
			if !e.IsUndefined() {
				return cErr
			}
			if r.IsUndefined() {
				return cUndef
			}
			if value.Truthy(r) {
				return cT
			}
			return cF
		})
	}
	for i := 0; i < n; i++ {
		for k := 0; k < n; k++ {
			a, b := vals[i], vals[k]
			out.Go["eq"][i][k] = boolCell(func() (value.Value, value.Value) { return vm.Equal(th2, a, b) })
			switch {
			case hst[i] != cT:
				out.Go["heq"][i][k] = hst[i]
			case hst[k] != cT:
				out.Go["heq"][i][k] = hst[k]
			case hash[i] == hash[k]:
				out.Go["heq"][i][k] = cT
			default:
				out.Go["heq"][i][k] = cF
			}
			if !isNum[i] || !isNum[k] {
				continue
			}
			out.Go["lax"][i][k] = boolCell(func() (value.Value, value.Value) { return vm.LaxEqual(th2, a, b) })
			// the value-level comparison functions (no method fallback: a missing builtin is "undefined")
			out.Go["lt"][i][k] = boolCell(func() (value.Value, value.Value) { return value.LessThanVal(a, b) })
			out.Go["le"][i][k] = boolCell(func() (value.Value, value.Value) { return value.LessThanEqualVal(a, b) })
			out.Go["gt"][i][k] = boolCell(func() (value.Value, value.Value) { return value.GreaterThanVal(a, b) })
			out.Go["ge"][i][k] = boolCell(func() (value.Value, value.Value) { return value.GreaterThanEqualVal(a, b) })
			out.Go["cmp"][i][k] = guard(func() int {
				r, e := value.CompareVal(a, b)
				if !e.IsUndefined() {
					return cErr
				}
				return cmpCell(r)
			})
		}
	}
	return out
}

func cmpCell(r value.Value) int {
	switch {
	case r.IsUndefined():
		return cUndef
	case r.IsNil():
		return cNil
	case r.IsSmallInt():
		switch r.AsSmallInt() {
		case -1:
			return cLess
		case 0:
			return 0
		case 1:
			return 1
		}
	}
	return cErr
}

func guard(f func() int) (res int) {
	defer func() {
		if r := recover(); r != nil {
			res = cPanic
		}
	}()
	return f()
}

func trim(b []byte) string {
	if len(b) > 3000 {
		return string(b[:3000])
	}
	return string(b)
}

func attrOf(v value.Value) Attr {
	a := Attr{Inline: !v.IsReference(), Class: v.Class().Name}
	ratOfFloat := func(f float64) string {
		switch {
		case f != f:
			return "nan"
		case f > 1.7976931348623157e308:
			return "+inf"
		case f < -1.7976931348623157e308:
			return "-inf"
		case f == 0 && 1/f < 0:
			return "-0"
		}
		return new(big.Rat).SetFloat64(f).RatString()
	}
	intOfInspect := func() string {
		s := v.Inspect()
		end := len(s)
		for end > 0 && !(s[end-1] >= '0' && s[end-1] <= '9') {
			end--
		}
		// strip a type suffix such as i64 / u8: digits after the letter belong to the suffix
		if i := strings.IndexAny(s, "iu"); i > 0 {
			end = i
		}
		n, ok := new(big.Int).SetString(s[:end], 10)
		if !ok {
			return ""
		}
		return new(big.Rat).SetInt(n).RatString()
	}
	if v.IsReference() {
		switch r := v.AsReference().(type) {
		case *value.BigInt:
			a.Exact = new(big.Rat).SetInt(r.ToGoBigInt()).RatString()
		case *value.BigFloat:
			a.Prec = int(r.Precision())
			g := r.AsGoBigFloat()
			switch {
			case r.IsNaN():
				a.Exact = "nan"
			case g.IsInf():
				if g.Sign() > 0 {
					a.Exact = "+inf"
				} else {
					a.Exact = "-inf"
				}
			default:
				rat, _ := g.Rat(nil)
				a.Exact = rat.RatString()
				if g.Sign() == 0 && g.Signbit() {
					a.Exact = "-0"
				}
			}
		case value.Float64:
			a.Exact = ratOfFloat(float64(r))
		case value.Int64, value.UInt64:
			a.Exact = intOfInspect()
		}
		return a
	}
	switch {
	case v.IsSmallInt():
		a.Exact = big.NewRat(int64(v.AsSmallInt()), 1).RatString()
	case v.IsFloat():
		a.Exact = ratOfFloat(float64(v.AsFloat()))
	case v.IsInlineFloat64():
		a.Exact = ratOfFloat(float64(v.AsInlineFloat64()))
	case v.IsFloat32():
		a.Exact = ratOfFloat(float64(v.AsFloat32()))
	default:
		switch v.Class().Name {
		case "Std::Int64", "Std::Int32", "Std::Int16", "Std::Int8", "Std::UInt64", "Std::UInt32", "Std::UInt16", "Std::UInt8", "Std::UInt":
			a.Exact = intOfInspect()
		}
	}
	return a
}
